package main

func genOpcodes() {}

package main

// genVMSteps: the statements of (*VM).Run in vm/vm.go as terms of the DSL of coq/BC/VMSteps.v
// -> coq/gen/GenVMSteps.v.
//
// A syntactic reading, statement by statement and in source order, of
//   - every `case OpX:` of the dispatch switch (and its default),
//   - the prologue of Run (the statements before the loop, the deferred func apart),
//   - the loop condition, the statements of the loop body before and after the switch,
//   - the epilogue (the statements after the loop),
//   - the bodies of the small methods push / pop / current / arg / constant / Stack / Scope.
// The reading is generic (Go expression -> vexp, Go statement -> vstmt) and assigns no meaning: the
// interpreter of coq/BC/VMSteps.v does, and coq/Bridge/BrVMSteps.v proves that what it computes is
// the step function of the model machine.
//
// What the reading normalises away: names of local variables (a variable gets the number of
// variables visible where it is defined), the names of the receiver and of the parameters of Run,
// comments, layout.  A statement or expression that is not one of the shapes below becomes
// `VUnrecognised "vm.go:<line>"` / `XBad "vm.go:<line>"`, which makes `vmsteps_recognised` fail.

import (
	"fmt"
	"go/ast"
	"go/token"
	"strconv"
	"strings"
)

func init() { generators = append(generators, genVMSteps) }

type vsFn struct {
	recv    string          // the *VM receiver
	env     string          // parameter env of Run
	prog    string          // parameter program of Run
	results map[string]bool // named results of Run
	pkgs    map[string]bool // imported package names
	globals map[string]bool // package-level variables of vm.go
	scopes  []map[string]int
}

func (t *vsFn) push() { t.scopes = append(t.scopes, map[string]int{}) }
func (t *vsFn) pop()  { t.scopes = t.scopes[:len(t.scopes)-1] }

func (t *vsFn) find(name string) (int, bool) {
	for i := len(t.scopes) - 1; i >= 0; i-- {
		if n, ok := t.scopes[i][name]; ok {
			return n, true
		}
	}
	return 0, false
}

// a new variable in the innermost scope: its number is the number of variables visible here
func (t *vsFn) define(name string) int {
	// a shadowing definition hides the outer variable but the outer one still occupies its number
	n := 0
	for _, sc := range t.scopes {
		n += len(sc)
	}
	t.scopes[len(t.scopes)-1][name] = n
	return n
}

func vsPos(n ast.Node) string { return coqString(pos(n)) }

var vsUn = map[token.Token]string{token.NOT: "VuNot", token.AND: "VuAddr", token.ARROW: "VuRecv", token.SUB: "VuNeg"}
var vsBin = map[token.Token]string{
	token.EQL: "VbEq", token.NEQ: "VbNe", token.LSS: "VbLt", token.LEQ: "VbLe", token.GTR: "VbGt", token.GEQ: "VbGe",
	token.ADD: "VbAdd", token.SUB: "VbSub", token.MUL: "VbMul", token.LAND: "VbAndAnd", token.LOR: "VbOrOr",
	token.OR: "VbOr", token.AND: "VbAnd", token.SHL: "VbShl", token.SHR: "VbShr",
}

func vsType(e ast.Expr) string { return strings.Join(strings.Fields(src(e)), " ") }

func (t *vsFn) exprs(es []ast.Expr) string {
	parts := make([]string, len(es))
	for i, e := range es {
		parts[i] = t.expr(e)
	}
	return "[" + strings.Join(parts, "; ") + "]"
}

func vsBool(b bool) string {
	if b {
		return "true"
	}
	return "false"
}

func (t *vsFn) expr(e ast.Expr) string {
	switch x := e.(type) {
	case *ast.ParenExpr:
		return t.expr(x.X)
	case *ast.Ident:
		if n, ok := t.find(x.Name); ok {
			return fmt.Sprintf("(XVar %d)", n)
		}
		switch {
		case x.Name == t.env && t.env != "":
			return "XEnv"
		case t.results[x.Name]:
			return "(XResult " + coqString(x.Name) + ")"
		case x.Name == "true":
			return "(XBool true)"
		case x.Name == "false":
			return "(XBool false)"
		case x.Name == "nil":
			return "XNil"
		case t.globals[x.Name]:
			return "(XGlobal " + coqString(x.Name) + ")"
		}
	case *ast.BasicLit:
		switch x.Kind {
		case token.INT:
			if n, err := strconv.ParseInt(x.Value, 0, 64); err == nil {
				return fmt.Sprintf("(XInt %d)", n)
			}
		case token.STRING:
			if s, err := strconv.Unquote(x.Value); err == nil {
				return "(XStr " + coqString(s) + ")"
			}
		}
	case *ast.SelectorExpr:
		if id, ok := x.X.(*ast.Ident); ok {
			if _, local := t.find(id.Name); !local {
				switch {
				case id.Name == t.recv:
					return "(XVmField " + coqString(x.Sel.Name) + ")"
				case id.Name == t.prog && t.prog != "":
					return "(XProg " + coqString(x.Sel.Name) + ")"
				case t.pkgs[id.Name]:
					return "(XBad " + vsPos(e) + ")"
				}
			}
		}
		return "(XField " + t.expr(x.X) + " " + coqString(x.Sel.Name) + ")"
	case *ast.TypeAssertExpr:
		if x.Type != nil {
			return "(XAssert " + t.expr(x.X) + " " + coqString(vsType(x.Type)) + ")"
		}
	case *ast.CallExpr:
		ell := vsBool(x.Ellipsis != token.NoPos)
		fun := x.Fun
		for {
			p, ok := fun.(*ast.ParenExpr)
			if !ok {
				break
			}
			fun = p.X
		}
		switch f := fun.(type) {
		case *ast.Ident:
			if _, local := t.find(f.Name); local {
				return "(XApply " + t.expr(f) + " " + t.exprs(x.Args) + " " + ell + ")"
			}
			if f.Name == "make" && len(x.Args) >= 1 {
				return "(XMake " + coqString(vsType(x.Args[0])) + " " + t.exprs(x.Args[1:]) + ")"
			}
			if f.Name == "panic" || f.Name == "new" {
				break
			}
			return "(XCall " + coqString(f.Name) + " " + t.exprs(x.Args) + " " + ell + ")"
		case *ast.SelectorExpr:
			if id, ok := f.X.(*ast.Ident); ok {
				if _, local := t.find(id.Name); !local {
					if id.Name == t.recv {
						if x.Ellipsis != token.NoPos {
							break
						}
						return "(XVm " + coqString(f.Sel.Name) + " " + t.exprs(x.Args) + ")"
					}
					if t.pkgs[id.Name] {
						return "(XCall " + coqString(id.Name+"."+f.Sel.Name) + " " + t.exprs(x.Args) + " " + ell + ")"
					}
				}
			}
			if x.Ellipsis != token.NoPos {
				break
			}
			return "(XMethod " + t.expr(f.X) + " " + coqString(f.Sel.Name) + " " + t.exprs(x.Args) + ")"
		case *ast.TypeAssertExpr, *ast.IndexExpr, *ast.CallExpr:
			return "(XApply " + t.expr(f) + " " + t.exprs(x.Args) + " " + ell + ")"
		}
	case *ast.IndexExpr:
		return "(XIndex " + t.expr(x.X) + " " + t.expr(x.Index) + ")"
	case *ast.SliceExpr:
		if !x.Slice3 {
			opt := func(e ast.Expr) string {
				if e == nil {
					return "None"
				}
				return "(Some " + t.expr(e) + ")"
			}
			return "(XSliceE " + t.expr(x.X) + " " + opt(x.Low) + " " + opt(x.High) + ")"
		}
	case *ast.UnaryExpr:
		if op, ok := vsUn[x.Op]; ok {
			return "(XUn " + op + " " + t.expr(x.X) + ")"
		}
	case *ast.BinaryExpr:
		if op, ok := vsBin[x.Op]; ok {
			return "(XBin " + op + " " + t.expr(x.X) + " " + t.expr(x.Y) + ")"
		}
	case *ast.CompositeLit:
		if x.Type != nil {
			var fs []string
			ok := true
			for _, el := range x.Elts {
				kv, isKV := el.(*ast.KeyValueExpr)
				if !isKV {
					ok = false
					break
				}
				k, isId := kv.Key.(*ast.Ident)
				if !isId {
					ok = false
					break
				}
				fs = append(fs, "("+coqString(k.Name)+", "+t.expr(kv.Value)+")")
			}
			if ok {
				return "(XComposite " + coqString(vsType(x.Type)) + " [" + strings.Join(fs, "; ") + "])"
			}
		}
	}
	return "(XBad " + vsPos(e) + ")"
}

// statements of a block in a scope of its own
func (t *vsFn) block(list []ast.Stmt, ind string) string {
	t.push()
	defer t.pop()
	return t.stmts(list, ind)
}

func (t *vsFn) stmts(list []ast.Stmt, ind string) string {
	if len(list) == 0 {
		return "[]"
	}
	parts := make([]string, len(list))
	for i, s := range list {
		parts[i] = t.stmt(s, ind+" ")
	}
	return "[" + strings.Join(parts, ";\n"+ind+" ") + "]"
}

func (t *vsFn) elseOf(s ast.Stmt, ind string) string {
	switch e := s.(type) {
	case nil:
		return "[]"
	case *ast.BlockStmt:
		return t.block(e.List, ind)
	case *ast.IfStmt:
		t.push()
		defer t.pop()
		return "[" + t.stmt(e, ind+" ") + "]"
	}
	return "[VUnrecognised " + vsPos(s) + "]"
}

func (t *vsFn) stmt(s ast.Stmt, ind string) string {
	bad := "VUnrecognised " + vsPos(s)
	switch x := s.(type) {
	case *ast.ExprStmt:
		if c, ok := x.X.(*ast.CallExpr); ok {
			if id, ok := c.Fun.(*ast.Ident); ok && id.Name == "panic" && len(c.Args) == 1 {
				if _, local := t.find("panic"); !local {
					return "VPanic " + t.expr(c.Args[0])
				}
			}
		}
		return "VExpr " + t.expr(x.X)
	case *ast.AssignStmt:
		switch x.Tok {
		case token.DEFINE:
			rhs := t.exprs(x.Rhs) // the right-hand sides are read before the new variables exist
			var nums []string
			for _, l := range x.Lhs {
				id, ok := l.(*ast.Ident)
				if !ok {
					return bad
				}
				// `a, b := ...` redefining an existing variable of the same scope assigns: not used in vm.go
				if _, dup := t.scopes[len(t.scopes)-1][id.Name]; dup || id.Name == "_" {
					return bad
				}
				nums = append(nums, fmt.Sprintf("%d", t.define(id.Name)))
			}
			return "VDefine [" + strings.Join(nums, "; ") + "] " + rhs
		case token.ASSIGN:
			return "VAssign " + t.exprs(x.Lhs) + " " + t.exprs(x.Rhs)
		case token.ADD_ASSIGN, token.SUB_ASSIGN:
			if len(x.Lhs) == 1 && len(x.Rhs) == 1 {
				op := "VbAdd"
				if x.Tok == token.SUB_ASSIGN {
					op = "VbSub"
				}
				return "VOpAssign " + op + " " + t.expr(x.Lhs[0]) + " " + t.expr(x.Rhs[0])
			}
		}
	case *ast.IncDecStmt:
		return "VIncDec " + t.expr(x.X) + " " + vsBool(x.Tok == token.INC)
	case *ast.IfStmt:
		if x.Init != nil {
			t.push()
			defer t.pop()
			init := t.stmt(x.Init, ind+"  ")
			cond := t.expr(x.Cond)
			return "VBlock\n" + ind + "  [" + init + ";\n" + ind + "   VIf " + cond + "\n" + ind + "     " +
				t.block(x.Body.List, ind+"     ") + "\n" + ind + "     " + t.elseOf(x.Else, ind+"     ") + "]"
		}
		return "VIf " + t.expr(x.Cond) + "\n" + ind + "  " + t.block(x.Body.List, ind+"  ") + "\n" + ind + "  " + t.elseOf(x.Else, ind+"  ")
	case *ast.ForStmt:
		// for i := E; i >= 0; i-- { body }
		init, ok1 := x.Init.(*ast.AssignStmt)
		cond, ok2 := x.Cond.(*ast.BinaryExpr)
		post, ok3 := x.Post.(*ast.IncDecStmt)
		if ok1 && ok2 && ok3 && init.Tok == token.DEFINE && len(init.Lhs) == 1 && len(init.Rhs) == 1 &&
			cond.Op == token.GEQ && post.Tok == token.DEC {
			iv, okI := init.Lhs[0].(*ast.Ident)
			cv, okC := cond.X.(*ast.Ident)
			pv, okP := post.X.(*ast.Ident)
			zero, okZ := cond.Y.(*ast.BasicLit)
			if okI && okC && okP && okZ && cv.Name == iv.Name && pv.Name == iv.Name && zero.Value == "0" && !vsAssigns(x.Body, iv.Name) {
				from := t.expr(init.Rhs[0])
				t.push()
				defer t.pop()
				n := t.define(iv.Name)
				return fmt.Sprintf("VForDown %d %s\n%s  %s", n, from, ind, t.block(x.Body.List, ind+"  "))
			}
		}
	case *ast.SwitchStmt:
		if x.Init == nil && x.Tag != nil {
			tag := t.expr(x.Tag)
			var cases []string
			dflt := "[]"
			for _, cc := range x.Body.List {
				c := cc.(*ast.CaseClause)
				if c.List == nil {
					dflt = t.block(c.Body, ind+"     ")
					continue
				}
				cases = append(cases, "("+t.exprs(c.List)+",\n"+ind+"      "+t.block(c.Body, ind+"      ")+")")
			}
			return "VSwitch " + tag + "\n" + ind + "    [" + strings.Join(cases, ";\n"+ind+"     ") + "]\n" + ind + "    " + dflt
		}
	case *ast.ReturnStmt:
		return "VReturn " + t.exprs(x.Results)
	case *ast.SendStmt:
		return "VSend " + t.expr(x.Chan) + " " + t.expr(x.Value)
	}
	return bad
}

// does the loop body assign to (or take the address of) the loop variable?
func vsAssigns(body *ast.BlockStmt, name string) bool {
	found := false
	ast.Inspect(body, func(n ast.Node) bool {
		switch x := n.(type) {
		case *ast.AssignStmt:
			for _, l := range x.Lhs {
				if id, ok := l.(*ast.Ident); ok && id.Name == name {
					found = true
				}
			}
		case *ast.IncDecStmt:
			if id, ok := x.X.(*ast.Ident); ok && id.Name == name {
				found = true
			}
		case *ast.UnaryExpr:
			if id, ok := x.X.(*ast.Ident); ok && x.Op == token.AND && id.Name == name {
				found = true
			}
		}
		return true
	})
	return found
}

func genVMSteps() {
	f := parseFile("vm/vm.go")
	var b strings.Builder
	b.WriteString("(* GENERATED by /verif/translator from vm/vm.go — do not edit *)\n")
	b.WriteString("From Coq Require Import ZArith List String.\nRequire Import X.BC.VMSteps.\nImport ListNotations.\nOpen Scope string_scope.\n\n")
	var unrec []string

	t := &vsFn{results: map[string]bool{}, pkgs: map[string]bool{}, globals: map[string]bool{}}
	if f != nil {
		for _, im := range f.Imports {
			p, _ := strconv.Unquote(im.Path.Value)
			name := p[strings.LastIndex(p, "/")+1:]
			if im.Name != nil {
				name = im.Name.Name
			}
			t.pkgs[name] = true
		}
		for _, d := range f.Decls {
			if gd, ok := d.(*ast.GenDecl); ok && gd.Tok == token.VAR {
				for _, sp := range gd.Specs {
					for _, n := range sp.(*ast.ValueSpec).Names {
						t.globals[n.Name] = true
					}
				}
			}
		}
	}

	type def struct{ name, body string }
	var defs []def
	emit := func(name, body string) { defs = append(defs, def{name, body}) }

	run := funcDecl(f, "Run", "VM")
	var caseNames []string
	tagTerm := "(XBad \"no switch\")"
	condTerm := "(XBad \"no loop\")"
	prologue, head, tail, epilogue, deferred, dflt := "[]", "[]", "[]", "[]", "[]", "[]"
	if run == nil {
		unrec = append(unrec, "(*VM).Run missing")
	} else {
		t.recv = "vm"
		if len(run.Recv.List[0].Names) == 1 {
			t.recv = run.Recv.List[0].Names[0].Name
		}
		var params []string
		for _, fl := range run.Type.Params.List {
			for _, n := range fl.Names {
				params = append(params, n.Name)
			}
		}
		if len(params) == 2 {
			t.prog, t.env = params[0], params[1]
		} else {
			unrec = append(unrec, "parameters of Run")
		}
		if run.Type.Results != nil {
			for _, fl := range run.Type.Results.List {
				for _, n := range fl.Names {
					t.results[n.Name] = true
				}
			}
		}
		t.push() // the scope of the function body
		var pro, epi []ast.Stmt
		var loop *ast.ForStmt
		nDefer := 0
		for _, st := range run.Body.List {
			if fs, ok := st.(*ast.ForStmt); ok && loop == nil {
				loop = fs
				continue
			}
			if ds, ok := st.(*ast.DeferStmt); ok && loop == nil {
				nDefer++
				if fl, ok := ds.Call.Fun.(*ast.FuncLit); ok && len(ds.Call.Args) == 0 && nDefer == 1 &&
					len(fl.Type.Params.List) == 0 {
					deferred = t.block(fl.Body.List, " ")
				} else {
					unrec = append(unrec, pos(ds)+": deferred call")
				}
				continue
			}
			if loop == nil {
				pro = append(pro, st)
			} else {
				epi = append(epi, st)
			}
		}
		prologue = t.stmts(pro, " ")
		if loop == nil {
			unrec = append(unrec, "dispatch loop not found")
		} else {
			if loop.Init != nil || loop.Post != nil || loop.Cond == nil {
				unrec = append(unrec, pos(loop)+": shape of the dispatch loop")
			} else {
				condTerm = t.expr(loop.Cond)
			}
			t.push() // the scope of the loop body
			var sw *ast.SwitchStmt
			var hd, tl []ast.Stmt
			for _, st := range loop.Body.List {
				if s, ok := st.(*ast.SwitchStmt); ok && sw == nil {
					sw = s
					continue
				}
				if sw == nil {
					hd = append(hd, st)
				} else {
					tl = append(tl, st)
				}
			}
			head = t.stmts(hd, " ")
			if sw == nil || sw.Init != nil || sw.Tag == nil {
				unrec = append(unrec, "dispatch switch not found")
			} else {
				tagTerm = t.expr(sw.Tag)
				seen := map[string]bool{}
				sawDefault := false
				for _, cc := range sw.Body.List {
					c := cc.(*ast.CaseClause)
					if c.List == nil {
						dflt = t.block(c.Body, " ")
						sawDefault = true
						continue
					}
					body := t.block(c.Body, " ")
					for _, l := range c.List {
						id, ok := l.(*ast.Ident)
						if !ok {
							unrec = append(unrec, pos(l)+": case label")
							continue
						}
						if seen[id.Name] {
							unrec = append(unrec, pos(l)+": duplicate case "+id.Name)
							continue
						}
						seen[id.Name] = true
						caseNames = append(caseNames, id.Name)
						emit("case_"+id.Name, body)
					}
				}
				if !sawDefault {
					unrec = append(unrec, "dispatch switch has no default")
				}
			}
			tail = t.stmts(tl, " ")
			t.pop()
		}
		epilogue = t.stmts(epi, " ")
		t.pop()
	}

	for _, d := range defs {
		fmt.Fprintf(&b, "Definition %s : list vstmt :=\n %s.\n\n", d.name, d.body)
	}
	fmt.Fprintf(&b, "Definition vm_default : list vstmt :=\n %s.\n\n", dflt)
	fmt.Fprintf(&b, "Definition vm_prologue : list vstmt :=\n %s.\n\n", prologue)
	fmt.Fprintf(&b, "Definition vm_loop_cond : vexp := %s.\n\n", condTerm)
	fmt.Fprintf(&b, "Definition vm_loop_head : list vstmt :=\n %s.\n\n", head)
	fmt.Fprintf(&b, "Definition vm_switch_tag : vexp := %s.\n\n", tagTerm)
	fmt.Fprintf(&b, "Definition vm_loop_tail : list vstmt :=\n %s.\n\n", tail)
	fmt.Fprintf(&b, "Definition vm_epilogue : list vstmt :=\n %s.\n\n", epilogue)
	fmt.Fprintf(&b, "Definition vm_deferred : list vstmt :=\n %s.\n\n", deferred)

	// the small methods: parameters are the variables 0 .. n-1
	var meths []string
	for _, name := range []string{"push", "pop", "current", "arg", "constant", "Stack", "Scope"} {
		fd := funcDecl(f, name, "VM")
		if fd == nil || fd.Body == nil {
			unrec = append(unrec, "method "+name+" missing")
			continue
		}
		mt := &vsFn{results: map[string]bool{}, pkgs: t.pkgs, globals: t.globals, recv: "vm"}
		if len(fd.Recv.List[0].Names) == 1 {
			mt.recv = fd.Recv.List[0].Names[0].Name
		}
		mt.push()
		np := 0
		for _, fl := range fd.Type.Params.List {
			for _, n := range fl.Names {
				mt.define(n.Name)
				np++
			}
		}
		body := mt.stmts(fd.Body.List, " ")
		fmt.Fprintf(&b, "Definition method_%s : list vstmt :=\n %s.\n\n", name, body)
		meths = append(meths, fmt.Sprintf("(%s, (%d, method_%s))", coqString(name), np, name))
	}

	b.WriteString("Definition vm_src : vmsrc := mkVmSrc\n  [")
	for i, n := range caseNames {
		if i > 0 {
			b.WriteString(";\n   ")
		}
		fmt.Fprintf(&b, "(%s, case_%s)", coqString(n), n)
	}
	b.WriteString("]\n  vm_default vm_prologue vm_loop_cond vm_loop_head vm_loop_tail vm_epilogue vm_deferred\n  [")
	b.WriteString(strings.Join(meths, ";\n   "))
	b.WriteString("]\n  vm_switch_tag\n  [" + quoteList(unrec) + "].\n")
	writeIfChanged("GenVMSteps.v", b.String())
}

package main

// genTables: six small functions as terms of the imperative DSL of coq/Ty/TableRules.v
// -> coq/gen/GenTables.v.
//
//	conf/types_table.go      CreateTypesTable, FieldsFromStruct, dereference
//	conf/operators_table.go  FindSuitableOperatorOverload
//	conf/config.go           (c *Config) Check
//	compiler/patcher.go      (p *operatorPatcher) Exit
//
// A syntactic reading, statement by statement and in source order.  What the reading normalises
// away: the names of parameters, receiver and local variables (they become frame slots numbered
// in order of declaration), comments, layout, the arguments of fmt.Errorf (the call becomes its
// ordinal in the function).  What it keeps: every statement, every condition, the names of the
// fields, methods and functions used (as strings; the interpreter gives them their meaning).
// Anything outside the shapes below becomes `SUnrecognised "file:line"` / `GUnrecognised
// "file:line"`, which makes `gentables_recognised` of coq/Bridge/BrTables.v fail.

import (
	"fmt"
	"go/ast"
	"go/token"
	"strconv"
	"strings"
)

var pnReflectKinds = map[string]string{
	"Invalid": "RKInvalid", "Bool": "RKBool", "String": "RKString", "Interface": "RKInterface",
	"Slice": "RKSlice", "Map": "RKMap", "Struct": "RKStruct", "Ptr": "RKPtr", "Pointer": "RKPtr", "Func": "RKFunc",
}

var pnNodeKinds = map[string]string{
	"NilNode": "NkNil", "IdentifierNode": "NkIdentifier", "IntegerNode": "NkInteger", "FloatNode": "NkFloat",
	"BoolNode": "NkBool", "StringNode": "NkString", "ConstantNode": "NkConstant", "UnaryNode": "NkUnary",
	"BinaryNode": "NkBinary", "MatchesNode": "NkMatches", "PropertyNode": "NkProperty", "IndexNode": "NkIndex",
	"SliceNode": "NkSlice", "MethodNode": "NkMethod", "FunctionNode": "NkFunction", "BuiltinNode": "NkBuiltin",
	"ClosureNode": "NkClosure", "PointerNode": "NkPointer", "ConditionalNode": "NkConditional",
	"ArrayNode": "NkArray", "MapNode": "NkMap", "PairNode": "NkPair",
}

// the functions that are translated: a call of one of them keeps the bare name
var pnTranslated = map[string]bool{
	"CreateTypesTable": true, "FieldsFromStruct": true, "dereference": true,
	"FindSuitableOperatorOverload": true, "Check": true, "Exit": true,
}

type pnFn struct {
	imports map[string]bool // package names imported by the file
	scopes  []map[string]int
	decl    [][]int // slots declared per open scope
	next    int
	errs    int // fmt.Errorf sites seen
	// optional (gen_members.go); nil for the six functions of GenTables.v
	translated  map[string]bool // replaces pnTranslated
	pkgVars     map[string]bool // package-level variables read as the nullary call of their name
	oracleMeths map[string]bool // x.M(args) written GCall "reflect.Type.M" (x :: args): answered by the runner's oracle
}

func (t *pnFn) isTranslated(name string) bool {
	if t.translated != nil {
		return t.translated[name]
	}
	return pnTranslated[name]
}

func (t *pnFn) push() {
	t.scopes = append(t.scopes, map[string]int{})
	t.decl = append(t.decl, nil)
}

// pop returns the slots the closed scope declared
func (t *pnFn) pop() []int {
	d := t.decl[len(t.decl)-1]
	t.scopes = t.scopes[:len(t.scopes)-1]
	t.decl = t.decl[:len(t.decl)-1]
	return d
}

func (t *pnFn) declare(name string) int {
	s := t.next
	t.next++
	t.scopes[len(t.scopes)-1][name] = s
	t.decl[len(t.decl)-1] = append(t.decl[len(t.decl)-1], s)
	return s
}

func (t *pnFn) find(name string) (int, bool) {
	for i := len(t.scopes) - 1; i >= 0; i-- {
		if s, ok := t.scopes[i][name]; ok {
			return s, true
		}
	}
	return 0, false
}

func (t *pnFn) findHere(name string) (int, bool) {
	s, ok := t.scopes[len(t.scopes)-1][name]
	return s, ok
}

func pnUnrecE(n ast.Node) string { return "GUnrecognised " + coqString(pos(n)) }
func pnUnrecS(n ast.Node) string { return "SUnrecognised " + coqString(pos(n)) }

func pnList(items []string, ind string) string {
	if len(items) == 0 {
		return "[]"
	}
	return "[" + strings.Join(items, ";\n"+ind+" ") + "]"
}

func pnInline(items []string) string { return "[" + strings.Join(items, "; ") + "]" }

func pnNats(xs []int) string {
	q := make([]string, len(xs))
	for i, x := range xs {
		q[i] = strconv.Itoa(x)
	}
	return pnInline(q)
}

func pnPar(s string) string {
	if strings.ContainsAny(s, " \n") {
		return "(" + s + ")"
	}
	return s
}

// ---------------------------------------------------------------- expressions

func (t *pnFn) isPkg(e ast.Expr) (string, bool) {
	id, ok := e.(*ast.Ident)
	if !ok {
		return "", false
	}
	if _, local := t.find(id.Name); local {
		return "", false
	}
	if t.imports[id.Name] {
		return id.Name, true
	}
	return "", false
}

func (t *pnFn) exprs(es []ast.Expr) string {
	q := make([]string, len(es))
	for i, e := range es {
		q[i] = t.expr(e)
	}
	return pnInline(q)
}

// the type of a composite literal / assertion: X, pkg.X, *pkg.X
func pnTypeName(e ast.Expr) string {
	switch x := e.(type) {
	case *ast.Ident:
		return x.Name
	case *ast.SelectorExpr:
		return x.Sel.Name
	case *ast.StarExpr:
		return pnTypeName(x.X)
	case *ast.ParenExpr:
		return pnTypeName(x.X)
	}
	return ""
}

func (t *pnFn) expr(e ast.Expr) string {
	switch x := e.(type) {
	case *ast.ParenExpr:
		return t.expr(x.X)
	case *ast.Ident:
		switch x.Name {
		case "nil":
			if _, shadowed := t.find("nil"); !shadowed {
				return "GNil"
			}
		case "true", "false":
			if _, shadowed := t.find(x.Name); !shadowed {
				return "GBool " + x.Name
			}
		}
		if s, ok := t.find(x.Name); ok {
			return fmt.Sprintf("GVar %d", s)
		}
		if t.pkgVars[x.Name] {
			return "GCall " + coqString(x.Name) + " []"
		}
		return pnUnrecE(e)
	case *ast.BasicLit:
		switch x.Kind {
		case token.INT:
			if n, err := strconv.ParseUint(x.Value, 10, 16); err == nil && n < 200 {
				return fmt.Sprintf("GNat %d", n)
			}
		case token.STRING:
			if s, err := strconv.Unquote(x.Value); err == nil {
				return "GStr " + coqString(s)
			}
		}
		return pnUnrecE(e)
	case *ast.StarExpr:
		return "GDeref " + pnPar(t.expr(x.X))
	case *ast.SelectorExpr:
		if pkg, ok := t.isPkg(x.X); ok {
			if pkg == "reflect" {
				if k, ok := pnReflectKinds[x.Sel.Name]; ok {
					return "GKind " + k
				}
			}
			return pnUnrecE(e)
		}
		return "GField " + pnPar(t.expr(x.X)) + " " + coqString(x.Sel.Name)
	case *ast.IndexExpr:
		return "GIndex " + pnPar(t.expr(x.X)) + " " + pnPar(t.expr(x.Index))
	case *ast.CallExpr:
		return t.call(x)
	case *ast.UnaryExpr:
		switch x.Op {
		case token.NOT:
			return "GNot " + pnPar(t.expr(x.X))
		case token.AND:
			if cl, ok := x.X.(*ast.CompositeLit); ok && pnTypeName(cl.Type) == "FunctionNode" {
				return t.funcNode(cl)
			}
		}
		return pnUnrecE(e)
	case *ast.BinaryExpr:
		op := map[token.Token]string{token.EQL: "GEq", token.NEQ: "GNe", token.LAND: "GAnd", token.LOR: "GOr", token.ADD: "GAdd"}[x.Op]
		if op == "" {
			return pnUnrecE(e)
		}
		return op + " " + pnPar(t.expr(x.X)) + " " + pnPar(t.expr(x.Y))
	case *ast.CompositeLit:
		if at, ok := x.Type.(*ast.ArrayType); ok && at.Len == nil && pnTypeName(at.Elt) == "Node" {
			return "GList " + t.exprs(x.Elts)
		}
		if pnTypeName(x.Type) == "Tag" {
			return t.tagLit(x)
		}
		return pnUnrecE(e)
	}
	return pnUnrecE(e)
}

func (t *pnFn) keyed(cl *ast.CompositeLit, allowed []string) (map[string]string, bool) {
	got := map[string]string{}
	for _, el := range cl.Elts {
		kv, ok := el.(*ast.KeyValueExpr)
		if !ok {
			return nil, false
		}
		k, ok := kv.Key.(*ast.Ident)
		if !ok || idx(allowed, k.Name) < 0 {
			return nil, false
		}
		if _, dup := got[k.Name]; dup {
			return nil, false
		}
		got[k.Name] = t.expr(kv.Value)
	}
	return got, true
}

func pnOpt(m map[string]string, k string) string {
	if v, ok := m[k]; ok {
		return "(Some " + pnPar(v) + ")"
	}
	return "None"
}

func (t *pnFn) tagLit(cl *ast.CompositeLit) string {
	m, ok := t.keyed(cl, []string{"Type", "Method", "Ambiguous"})
	if !ok {
		return pnUnrecE(cl)
	}
	return "GTag " + pnOpt(m, "Type") + " " + pnOpt(m, "Method") + " " + pnOpt(m, "Ambiguous")
}

func (t *pnFn) funcNode(cl *ast.CompositeLit) string {
	m, ok := t.keyed(cl, []string{"Name", "Arguments"})
	if !ok || len(m) != 2 {
		return pnUnrecE(cl)
	}
	return "GFuncNode " + pnPar(m["Name"]) + " " + pnPar(m["Arguments"])
}

func (t *pnFn) call(c *ast.CallExpr) string {
	if c.Ellipsis != token.NoPos {
		return pnUnrecE(c)
	}
	switch f := c.Fun.(type) {
	case *ast.Ident:
		if _, local := t.find(f.Name); local {
			return pnUnrecE(c)
		}
		if f.Name == "make" {
			if len(c.Args) == 1 && pnTypeName(c.Args[0]) == "TypesTable" {
				return "GMakeTable"
			}
			return pnUnrecE(c)
		}
		if t.isTranslated(f.Name) {
			return "GCall " + coqString(f.Name) + " " + t.exprs(c.Args)
		}
		return pnUnrecE(c)
	case *ast.SelectorExpr:
		if pkg, ok := t.isPkg(f.X); ok {
			if pkg == "fmt" && f.Sel.Name == "Errorf" {
				n := t.errs
				t.errs++
				return fmt.Sprintf("GCall \"fmt.Errorf\" [GNat %d]", n)
			}
			if t.isTranslated(f.Sel.Name) {
				return "GCall " + coqString(f.Sel.Name) + " " + t.exprs(c.Args)
			}
			return "GCall " + coqString(pkg+"."+f.Sel.Name) + " " + t.exprs(c.Args)
		}
		if t.oracleMeths[f.Sel.Name] {
			return "GCall " + coqString("reflect.Type."+f.Sel.Name) + " " + t.exprs(append([]ast.Expr{f.X}, c.Args...))
		}
		return "GMeth " + pnPar(t.expr(f.X)) + " " + coqString(f.Sel.Name) + " " + t.exprs(c.Args)
	}
	return pnUnrecE(c)
}

// ---------------------------------------------------------------- statements

// the slots a list of Go statements assigns to (through =, :=, x[k] = v, delete(x, k), ++/--,
// ast.Patch(x, ..), *x = ..), by name; conservative: any construct it does not know counts as "everything"
func pnAssigned(stmts []ast.Stmt, into map[string]bool) bool {
	ok := true
	var visitExpr func(e ast.Expr)
	visitExpr = func(e ast.Expr) {
		ast.Inspect(e, func(n ast.Node) bool {
			if _, isFn := n.(*ast.FuncLit); isFn {
				ok = false
			}
			return true
		})
	}
	var lhsName func(e ast.Expr)
	lhsName = func(e ast.Expr) {
		switch x := e.(type) {
		case *ast.Ident:
			into[x.Name] = true
		case *ast.IndexExpr:
			lhsName(x.X)
		case *ast.StarExpr:
			lhsName(x.X)
		case *ast.SelectorExpr:
			lhsName(x.X)
		case *ast.ParenExpr:
			lhsName(x.X)
		default:
			ok = false
		}
	}
	var visit func(s ast.Stmt)
	visit = func(s ast.Stmt) {
		switch x := s.(type) {
		case nil:
		case *ast.AssignStmt:
			for _, l := range x.Lhs {
				lhsName(l)
			}
			for _, r := range x.Rhs {
				visitExpr(r)
			}
		case *ast.IncDecStmt:
			lhsName(x.X)
		case *ast.ExprStmt:
			visitExpr(x.X)
			if c, isCall := x.X.(*ast.CallExpr); isCall {
				// delete(m, k), ast.Patch(node, x): the first argument is written
				if len(c.Args) > 0 {
					lhsName(c.Args[0])
				}
			}
		case *ast.BlockStmt:
			for _, y := range x.List {
				visit(y)
			}
		case *ast.IfStmt:
			visit(x.Init)
			visitExpr(x.Cond)
			visit(x.Body)
			visit(x.Else)
		case *ast.ForStmt:
			visit(x.Init)
			visit(x.Post)
			visit(x.Body)
		case *ast.RangeStmt:
			if x.Key != nil {
				lhsName(x.Key)
			}
			if x.Value != nil {
				lhsName(x.Value)
			}
			visit(x.Body)
		case *ast.SwitchStmt:
			visit(x.Init)
			visit(x.Body)
		case *ast.CaseClause:
			for _, y := range x.Body {
				visit(y)
			}
		case *ast.ReturnStmt:
			for _, r := range x.Results {
				visitExpr(r)
			}
		default:
			ok = false
		}
	}
	for _, s := range stmts {
		visit(s)
	}
	return ok
}

func pnIdentsOf(e ast.Expr) map[string]bool {
	m := map[string]bool{}
	ast.Inspect(e, func(n ast.Node) bool {
		if id, ok := n.(*ast.Ident); ok {
			m[id.Name] = true
		}
		return true
	})
	return m
}

// a block with its own scope: the statements, wrapped in SScope when the block declares variables
func (t *pnFn) block(stmts []ast.Stmt, ind string) []string {
	t.push()
	body := t.stmts(stmts, ind+"  ")
	d := t.pop()
	if len(d) == 0 {
		return body
	}
	return []string{"SScope " + pnNats(d) + "\n" + ind + "  " + pnList(body, ind+"  ")}
}

func (t *pnFn) stmts(list []ast.Stmt, ind string) []string {
	var out []string
	for _, s := range list {
		out = append(out, t.stmt(s, ind))
	}
	return out
}

func pnLhsName(e ast.Expr) (string, bool) {
	id, ok := e.(*ast.Ident)
	if !ok {
		return "", false
	}
	return id.Name, true
}

// the slot list of the left-hand side of an assignment of identifiers
func (t *pnFn) lhs(a *ast.AssignStmt) (string, bool) {
	names := make([]string, len(a.Lhs))
	for i, l := range a.Lhs {
		n, ok := pnLhsName(l)
		if !ok {
			return "", false
		}
		names[i] = n
	}
	q := make([]string, len(names))
	for i, n := range names {
		if n == "_" {
			q[i] = "None"
			continue
		}
		var s int
		if a.Tok == token.DEFINE {
			if here, ok := t.findHere(n); ok {
				s = here
			} else {
				s = -1 // declared after the right-hand side has been read
			}
		} else {
			fs, ok := t.find(n)
			if !ok {
				return "", false
			}
			s = fs
		}
		q[i] = strconv.Itoa(s)
	}
	return strings.Join(q, ","), true
}

func (t *pnFn) assign(a *ast.AssignStmt) string {
	if len(a.Rhs) != 1 || (a.Tok != token.DEFINE && a.Tok != token.ASSIGN) {
		return pnUnrecS(a)
	}
	// x[k] = v    *x = v
	if len(a.Lhs) == 1 && a.Tok == token.ASSIGN {
		switch l := a.Lhs[0].(type) {
		case *ast.IndexExpr:
			if n, ok := pnLhsName(l.X); ok {
				if s, ok := t.find(n); ok {
					return fmt.Sprintf("SSetIndex %d %s %s", s, pnPar(t.expr(l.Index)), pnPar(t.expr(a.Rhs[0])))
				}
			}
			return pnUnrecS(a)
		case *ast.StarExpr:
			if n, ok := pnLhsName(l.X); ok {
				if s, ok := t.find(n); ok {
					return fmt.Sprintf("SStore %d %s", s, pnPar(t.expr(a.Rhs[0])))
				}
			}
			return pnUnrecS(a)
		}
	}
	// the right-hand side is read in the scope BEFORE the new variables exist
	var rhs string
	if len(a.Lhs) == 2 {
		switch r := a.Rhs[0].(type) {
		case *ast.IndexExpr:
			rhs = "GIndexOk " + pnPar(t.expr(r.X)) + " " + pnPar(t.expr(r.Index))
		case *ast.TypeAssertExpr:
			k, ok := pnNodeKinds[pnTypeName(r.Type)]
			if _, star := r.Type.(*ast.StarExpr); !ok || !star {
				return pnUnrecS(a)
			}
			rhs = "GAssertOk " + pnPar(t.expr(r.X)) + " " + k
		}
	}
	if rhs == "" {
		rhs = t.expr(a.Rhs[0])
	}
	l, ok := t.lhs(a)
	if !ok {
		return pnUnrecS(a)
	}
	parts := strings.Split(l, ",")
	fresh := 0
	for i, l := range a.Lhs {
		if parts[i] == "-1" {
			n, _ := pnLhsName(l)
			parts[i] = strconv.Itoa(t.declare(n))
			fresh++
		}
	}
	if a.Tok == token.DEFINE && fresh == 0 {
		return pnUnrecS(a)
	}
	for i, p := range parts {
		if p != "None" {
			parts[i] = "Some " + p
		}
	}
	return "SAssign " + pnInline(parts) + " " + pnPar(rhs)
}

func (t *pnFn) ifStmt(x *ast.IfStmt, ind string) string {
	t.push()
	var pre []string
	if x.Init != nil {
		pre = append(pre, t.stmt(x.Init, ind+"  "))
	}
	cond := t.expr(x.Cond)
	then := t.block(x.Body.List, ind+"  ")
	var els []string
	switch e := x.Else.(type) {
	case nil:
	case *ast.BlockStmt:
		els = t.block(e.List, ind+"  ")
	case *ast.IfStmt:
		els = []string{t.ifStmt(e, ind+"  ")}
	default:
		els = []string{pnUnrecS(x.Else)}
	}
	d := t.pop()
	s := "SIf " + pnPar(cond) + "\n" + ind + "  " + pnList(then, ind+"  ") + "\n" + ind + "  " + pnList(els, ind+"  ")
	if len(pre) == 0 && len(d) == 0 {
		return s
	}
	return "SScope " + pnNats(d) + "\n" + ind + " " + pnList(append(pre, s), ind+" ")
}

// for i := 0; i < bound; i++ { body }
func (t *pnFn) forStmt(x *ast.ForStmt, ind string) string {
	init, ok1 := x.Init.(*ast.AssignStmt)
	cond, ok2 := x.Cond.(*ast.BinaryExpr)
	post, ok3 := x.Post.(*ast.IncDecStmt)
	if !ok1 || !ok2 || !ok3 || init.Tok != token.DEFINE || len(init.Lhs) != 1 || len(init.Rhs) != 1 ||
		cond.Op != token.LSS || post.Tok != token.INC {
		return pnUnrecS(x)
	}
	iv, ok := pnLhsName(init.Lhs[0])
	zero, okz := init.Rhs[0].(*ast.BasicLit)
	ci, okc := pnLhsName(cond.X)
	pi, okp := pnLhsName(post.X)
	if !ok || !okz || zero.Value != "0" || !okc || !okp || ci != iv || pi != iv || iv == "_" {
		return pnUnrecS(x)
	}
	// the body assigns neither i nor a variable the bound reads
	assigned := map[string]bool{}
	if !pnAssigned(x.Body.List, assigned) || assigned[iv] {
		return pnUnrecS(x)
	}
	for n := range pnIdentsOf(cond.Y) {
		if assigned[n] || n == iv {
			return pnUnrecS(x)
		}
	}
	bound := t.expr(cond.Y) // read outside the loop's scope: i is not visible in it
	t.push()
	slot := t.declare(iv)
	body := t.block(x.Body.List, ind+"  ")
	d := t.pop()
	return "SScope " + pnNats(d) + "\n" + ind + " [" + fmt.Sprintf("SForIdx %d %s", slot, pnPar(bound)) + "\n" + ind + "    " + pnList(body, ind+"    ") + "]"
}

// does the statement list use variable `m` only as m[k] = v / delete(m, k) with k the variable `key`?
func pnSelfOnly(stmts []ast.Stmt, m, key string) (writes bool, ok bool) {
	ok = true
	isKey := func(e ast.Expr) bool {
		n, is := pnLhsName(e)
		return is && n == key
	}
	allowed := map[*ast.Ident]bool{}
	for _, s := range stmts {
		ast.Inspect(s, func(n ast.Node) bool {
			switch x := n.(type) {
			case *ast.AssignStmt:
				if len(x.Lhs) == 1 && x.Tok == token.ASSIGN {
					if ie, is := x.Lhs[0].(*ast.IndexExpr); is {
						if id, is := ie.X.(*ast.Ident); is && id.Name == m && isKey(ie.Index) {
							allowed[id] = true
							writes = true
						}
					}
				}
				for _, l := range x.Lhs {
					if id, is := l.(*ast.Ident); is && (id.Name == m || id.Name == key) {
						ok = false // the map variable or the key variable is reassigned / shadowed
					}
				}
			case *ast.ExprStmt:
				if c, is := x.X.(*ast.CallExpr); is {
					if f, is := c.Fun.(*ast.Ident); is && f.Name == "delete" && len(c.Args) == 2 {
						if id, is := c.Args[0].(*ast.Ident); is && id.Name == m && isKey(c.Args[1]) {
							allowed[id] = true
							writes = true
						}
					}
				}
			case *ast.RangeStmt:
				for _, l := range []ast.Expr{x.Key, x.Value} {
					if id, is := l.(*ast.Ident); is && (id.Name == m || id.Name == key) {
						ok = false
					}
				}
			case *ast.FuncLit:
				ok = false
			}
			return true
		})
	}
	for _, s := range stmts {
		ast.Inspect(s, func(n ast.Node) bool {
			if id, is := n.(*ast.Ident); is && id.Name == m && !allowed[id] {
				ok = false
			}
			return true
		})
	}
	return
}

func (t *pnFn) rangeStmt(x *ast.RangeStmt, ind string) string {
	if x.Tok != token.DEFINE {
		return pnUnrecS(x)
	}
	name := func(e ast.Expr) (string, bool) {
		if e == nil {
			return "_", true
		}
		return pnLhsName(e)
	}
	kn, ok1 := name(x.Key)
	vn, ok2 := name(x.Value)
	if !ok1 || !ok2 {
		return pnUnrecS(x)
	}
	// for k := range m { .. m[k] = v .. delete(m, k) .. }
	if mn, isIdent := pnLhsName(x.X); isIdent && vn == "_" && kn != "_" {
		if mslot, local := t.find(mn); local {
			writes, only := pnSelfOnly(x.Body.List, mn, kn)
			if writes {
				if !only {
					return pnUnrecS(x)
				}
				t.push()
				ks := t.declare(kn)
				body := t.block(x.Body.List, ind+"  ")
				d := t.pop()
				return "SScope " + pnNats(d) + "\n" + ind + " [" + fmt.Sprintf("SRangeSelf %d %d", mslot, ks) + "\n" + ind + "    " + pnList(body, ind+"    ") + "]"
			}
		}
	}
	// the body must not assign a variable the ranged expression reads (it is evaluated once)
	assigned := map[string]bool{}
	if !pnAssigned(x.Body.List, assigned) {
		return pnUnrecS(x)
	}
	for n := range pnIdentsOf(x.X) {
		if assigned[n] {
			return pnUnrecS(x)
		}
	}
	coll := t.expr(x.X)
	t.push()
	opt := func(n string) string {
		if n == "_" {
			return "None"
		}
		return fmt.Sprintf("(Some %d)", t.declare(n))
	}
	ks := opt(kn)
	vs := opt(vn)
	body := t.block(x.Body.List, ind+"  ")
	d := t.pop()
	s := fmt.Sprintf("SRange %s %s %s", ks, vs, pnPar(coll)) + "\n" + ind + "    " + pnList(body, ind+"    ")
	if len(d) == 0 {
		return s
	}
	return "SScope " + pnNats(d) + "\n" + ind + " [" + s + "]"
}

func (t *pnFn) switchStmt(x *ast.SwitchStmt, ind string) string {
	if x.Init != nil || x.Tag == nil {
		return pnUnrecS(x)
	}
	tag := t.expr(x.Tag)
	var cases []string
	dflt := []string{}
	seenDefault := false
	for _, c := range x.Body.List {
		cc, ok := c.(*ast.CaseClause)
		if !ok {
			return pnUnrecS(x)
		}
		for _, s := range cc.Body {
			if b, isBranch := s.(*ast.BranchStmt); isBranch && b.Tok == token.FALLTHROUGH {
				return pnUnrecS(x)
			}
		}
		body := t.block(cc.Body, ind+"    ")
		if cc.List == nil {
			if seenDefault {
				return pnUnrecS(x)
			}
			seenDefault = true
			dflt = body
			continue
		}
		cases = append(cases, "("+t.exprs(cc.List)+",\n"+ind+"    "+pnList(body, ind+"    ")+")")
	}
	return "SSwitch " + pnPar(tag) + "\n" + ind + "  " + pnList(cases, ind+"  ") + "\n" + ind + "  " + pnList(dflt, ind+"  ")
}

func (t *pnFn) stmt(s ast.Stmt, ind string) string {
	switch x := s.(type) {
	case *ast.AssignStmt:
		return t.assign(x)
	case *ast.IfStmt:
		return t.ifStmt(x, ind)
	case *ast.ForStmt:
		return t.forStmt(x, ind)
	case *ast.RangeStmt:
		return t.rangeStmt(x, ind)
	case *ast.SwitchStmt:
		return t.switchStmt(x, ind)
	case *ast.BlockStmt:
		b := t.block(x.List, ind)
		if len(b) == 1 {
			return b[0]
		}
		return "SScope []\n" + ind + "  " + pnList(b, ind+"  ")
	case *ast.ReturnStmt:
		return "SReturn " + t.exprs(x.Results)
	case *ast.ExprStmt:
		c, ok := x.X.(*ast.CallExpr)
		if !ok {
			return pnUnrecS(s)
		}
		switch f := c.Fun.(type) {
		case *ast.Ident:
			if _, local := t.find(f.Name); !local && f.Name == "delete" && len(c.Args) == 2 {
				if n, ok := pnLhsName(c.Args[0]); ok {
					if slot, ok := t.find(n); ok {
						return fmt.Sprintf("SDelete %d %s", slot, pnPar(t.expr(c.Args[1])))
					}
				}
			}
		case *ast.SelectorExpr:
			if pkg, ok := t.isPkg(f.X); ok && pkg == "ast" && f.Sel.Name == "Patch" && len(c.Args) == 2 {
				if n, ok := pnLhsName(c.Args[0]); ok {
					if slot, ok := t.find(n); ok {
						return fmt.Sprintf("SPatch %d %s", slot, pnPar(t.expr(c.Args[1])))
					}
				}
			}
		}
		return pnUnrecS(s)
	}
	return pnUnrecS(s)
}

// ---------------------------------------------------------------- functions

type pnSpec struct {
	coqName string
	file    string
	name    string
	recv    string
}

var pnFunctions = []pnSpec{
	{"fn_create_types_table", "conf/types_table.go", "CreateTypesTable", ""},
	{"fn_fields_from_struct", "conf/types_table.go", "FieldsFromStruct", ""},
	{"fn_dereference", "conf/types_table.go", "dereference", ""},
	{"fn_find_overload", "conf/operators_table.go", "FindSuitableOperatorOverload", ""},
	{"fn_config_check", "conf/config.go", "Check", "Config"},
	{"fn_exit", "compiler/patcher.go", "Exit", "operatorPatcher"},
}

func pnFunction(sp pnSpec) string { return pnFunctionWith(sp, nil) }

// cfg (may be nil) sets the optional fields of the reader before the body is read
func pnFunctionWith(sp pnSpec, cfg func(*pnFn)) string {
	missing := func(why string) string {
		return fmt.Sprintf("Definition %s : fdef :=\n  mkF %s 0 0 [SUnrecognised %s].\n", sp.coqName, coqString(sp.name), coqString(sp.file+": "+why))
	}
	f := parseFile(sp.file)
	if f == nil {
		return missing("cannot parse")
	}
	fd := funcDecl(f, sp.name, sp.recv)
	if fd == nil || fd.Body == nil {
		return missing("no func " + sp.name)
	}
	t := &pnFn{imports: map[string]bool{}}
	if cfg != nil {
		cfg(t)
	}
	for _, im := range f.Imports {
		p, _ := strconv.Unquote(im.Path.Value)
		n := p[strings.LastIndex(p, "/")+1:]
		if im.Name != nil {
			n = im.Name.Name
		}
		t.imports[n] = true
	}
	t.push()
	params := 0
	bad := false
	addParams := func(fl *ast.FieldList) {
		if fl == nil {
			return
		}
		for _, p := range fl.List {
			if len(p.Names) == 0 {
				bad = true
			}
			if _, variadic := p.Type.(*ast.Ellipsis); variadic {
				bad = true
			}
			for _, n := range p.Names {
				if n.Name == "_" {
					t.next++
				} else {
					t.declare(n.Name)
				}
				params++
			}
		}
	}
	addParams(fd.Recv)
	addParams(fd.Type.Params)
	if fd.Type.Results != nil {
		for _, r := range fd.Type.Results.List {
			if len(r.Names) > 0 {
				bad = true // named results
			}
		}
	}
	if bad || fd.Type.TypeParams != nil {
		return missing("signature of " + sp.name)
	}
	body := t.stmts(fd.Body.List, "    ")
	return fmt.Sprintf("(* %s: %s *)\nDefinition %s : fdef :=\n  mkF %s %d %d\n    %s.\n",
		sp.file, sp.name, sp.coqName, coqString(sp.name), params, t.next, pnList(body, "    "))
}

func genTables() {
	var b strings.Builder
	b.WriteString("(* GENERATED by /verif/translator (gen_tables.go) from conf/types_table.go, conf/operators_table.go,\n")
	b.WriteString("   conf/config.go, compiler/patcher.go - do not edit.  One term of the DSL of Ty/TableRules.v per function. *)\n")
	b.WriteString("From Coq Require Import List String.\n")
	b.WriteString("Require Import X.Base.Value X.Syn.Ast X.Ty.TableRules.\n")
	b.WriteString("Import ListNotations.\nOpen Scope string_scope.\n\n")
	names := []string{}
	for _, sp := range pnFunctions {
		b.WriteString(pnFunction(sp))
		b.WriteString("\n")
		names = append(names, sp.coqName)
	}
	b.WriteString("Definition funcs : list fdef :=\n  " + pnInline(names) + ".\n")
	writeIfChanged("GenTables.v", b.String())
}

func init() { generators = append(generators, genTables) }

package main

// genOpt: the rewrite rules of the optimizer passes (optimizer/{in_array,fold,const_expr,in_range,
// const_range}.go: the `Exit` method of each visitor) and the driver optimizer.Optimize as terms of
// the DSL of coq/Opt/OptRules.v -> coq/gen/GenOpt.v.
//
// A syntactic reading, statement by statement and in source order.  What the reading normalises away:
// names of local variables, of the receiver, of the *Node parameter and of labels (a variable bound
// to a sub-node becomes its path from the node bound by the type switch; a variable bound to a pure
// expression is replaced by the expression; labels are numbered in order of definition), comments,
// layout, the text of error messages.  A call of a local closure (`patch`, `patchWithType`) becomes
// `RWith argument type-argument body`, the body being the closure's statements.  The helper
// `isFloat` is inlined as a condition.  A statement that is not one of the shapes below becomes
// `RUnrecognised "file:line"`, which makes `genopt_recognised` of coq/Bridge/BrOpt.v fail.

import (
	"fmt"
	"go/ast"
	"go/token"
	"math/big"
	"strconv"
	"strings"
)

var goNodeKinds = map[string]string{
	"NilNode": "NkNil", "IdentifierNode": "NkIdentifier", "IntegerNode": "NkInteger", "FloatNode": "NkFloat",
	"BoolNode": "NkBool", "StringNode": "NkString", "ConstantNode": "NkConstant", "UnaryNode": "NkUnary",
	"BinaryNode": "NkBinary", "MatchesNode": "NkMatches", "PropertyNode": "NkProperty", "IndexNode": "NkIndex",
	"SliceNode": "NkSlice", "MethodNode": "NkMethod", "FunctionNode": "NkFunction", "BuiltinNode": "NkBuiltin",
	"ClosureNode": "NkClosure", "PointerNode": "NkPointer", "ConditionalNode": "NkConditional",
	"ArrayNode": "NkArray", "MapNode": "NkMap", "PairNode": "NkPair",
}

// Node-typed fields the DSL can follow, per Go node type
var goNodeFields = map[string]map[string]bool{
	"UnaryNode":  {"Node": true},
	"BinaryNode": {"Left": true, "Right": true},
}

// []Node-typed fields
var goListFields = map[string]map[string]bool{
	"ArrayNode":    {"Nodes": true},
	"FunctionNode": {"Arguments": true},
}

func goRKind(name string) (string, bool) {
	if k, ok := reflectKindNames[name]; ok {
		return "(RKNum " + k + ")", true
	}
	switch name {
	case "Invalid":
		return "RKInvalid", true
	case "Bool":
		return "RKBool", true
	case "String":
		return "RKString", true
	case "Interface":
		return "RKInterface", true
	case "Slice":
		return "RKSlice", true
	case "Map":
		return "RKMap", true
	case "Struct":
		return "RKStruct", true
	case "Ptr":
		return "RKPtr", true
	case "Func":
		return "RKFunc", true
	}
	return "", false
}

type opBinding struct {
	kind string // node | type | int | cexp | tmpl | closure | argnode | argtype | okfn | fn | args | out
	term string // the DSL term (nref for node, tyexp for type, iexp, cexp, tmpl, cond for okfn)
	goTy string // node: the Go node type when known from a type assertion ("" = Node interface)
	// closure
	fl *ast.FuncLit
	// pending: must be used by the very next statement
	pending bool
}

type opFn struct {
	file    string
	recv    string // receiver name ("" if unnamed)
	node    string // the *Node parameter
	scopes  []map[string]opBinding
	labels  map[string]int
	helpers map[string]*ast.FuncDecl // package-level helper functions of the same file
	patched bool                     // a Patch / closure call has been emitted (type switch no longer allowed)
	recover string                   // the handler of a deferred recover, once seen
	depth   int                      // closure inlining depth
	fresh   map[string]bool          // pending variables defined by the previous statement
	// the previous statement of the closure body being read patched the closure's node parameter in
	lastPatchedArg bool
}

func (t *opFn) push() { t.scopes = append(t.scopes, map[string]opBinding{}) }
func (t *opFn) pop()  { t.scopes = t.scopes[:len(t.scopes)-1] }
func (t *opFn) bind(name string, b opBinding) {
	if name == "_" {
		return
	}
	t.scopes[len(t.scopes)-1][name] = b
}
func (t *opFn) find(name string) (opBinding, bool) {
	for i := len(t.scopes) - 1; i >= 0; i-- {
		if b, ok := t.scopes[i][name]; ok {
			if b.pending && !t.fresh[name] {
				return opBinding{}, false
			}
			return b, true
		}
	}
	return opBinding{}, false
}

func opUnrec(n ast.Node) string { return "RUnrecognised " + coqString(pos(n)) }

func opList(items []string, ind string) string {
	if len(items) == 0 {
		return "[]"
	}
	return "[" + strings.Join(items, ";\n"+ind+" ") + "]"
}

func opStrList(fs []string) string {
	q := make([]string, len(fs))
	for i, f := range fs {
		q[i] = coqString(f)
	}
	return "[" + strings.Join(q, "; ") + "]"
}

// ---------------------------------------------------------------- node references

type opRef struct {
	self bool     // a path from n
	path []string // fields
	goTy string   // static Go node type, "" if only known to be a Node
}

func (r opRef) term() string {
	if !r.self {
		return "NCur"
	}
	return "NSelf " + opStrList(r.path)
}

func parseRefTerm(term, goTy string) opRef {
	if term == "NCur" {
		return opRef{self: false, goTy: goTy}
	}
	// "NSelf [..]"
	body := strings.TrimSuffix(strings.TrimPrefix(term, "NSelf ["), "]")
	var path []string
	if strings.TrimSpace(body) != "" {
		for _, p := range strings.Split(body, "; ") {
			path = append(path, strings.Trim(p, "\""))
		}
	}
	return opRef{self: true, path: path, goTy: goTy}
}

// an expression denoting an existing node: a bound variable, *node, x.F with F a Node-typed field
func (t *opFn) nodeRef(e ast.Expr) (opRef, bool) {
	switch x := e.(type) {
	case *ast.ParenExpr:
		return t.nodeRef(x.X)
	case *ast.Ident:
		if b, ok := t.find(x.Name); ok && b.kind == "node" {
			return parseRefTerm(b.term, b.goTy), true
		}
	case *ast.StarExpr:
		if id, ok := x.X.(*ast.Ident); ok && id.Name == t.node {
			if _, shadow := t.find(id.Name); !shadow {
				return opRef{self: false}, true
			}
		}
	case *ast.SelectorExpr:
		base, ok := t.nodeRef(x.X)
		if !ok || !base.self || base.goTy == "" {
			return opRef{}, false
		}
		if goNodeFields[base.goTy][x.Sel.Name] {
			p := append(append([]string{}, base.path...), x.Sel.Name)
			return opRef{self: true, path: p}, true
		}
	}
	return opRef{}, false
}

// x.F with F a []Node field: (ref of x, F)
func (t *opFn) listField(e ast.Expr) (opRef, string, bool) {
	s, ok := e.(*ast.SelectorExpr)
	if !ok {
		return opRef{}, "", false
	}
	base, ok := t.nodeRef(s.X)
	if !ok || base.goTy == "" || !goListFields[base.goTy][s.Sel.Name] {
		return opRef{}, "", false
	}
	return base, s.Sel.Name, true
}

// x.F with x a node of static type ty: the ref
func (t *opFn) fieldOf(e ast.Expr, ty, field string) (opRef, bool) {
	s, ok := e.(*ast.SelectorExpr)
	if !ok || s.Sel.Name != field {
		return opRef{}, false
	}
	base, ok := t.nodeRef(s.X)
	if !ok || (ty != "" && base.goTy != ty) {
		return opRef{}, false
	}
	return base, true
}

// X.(*T): (expression X, T)
func opAssert(e ast.Expr) (ast.Expr, string, bool) {
	ta, ok := e.(*ast.TypeAssertExpr)
	if !ok || ta.Type == nil {
		return nil, "", false
	}
	st, ok := ta.Type.(*ast.StarExpr)
	if !ok {
		return nil, "", false
	}
	id, ok := st.X.(*ast.Ident)
	if !ok {
		return nil, "", false
	}
	if _, known := goNodeKinds[id.Name]; !known {
		return nil, "", false
	}
	return ta.X, id.Name, true
}

// ---------------------------------------------------------------- value expressions

func opIntLit(e ast.Expr) (string, bool) {
	lit, ok := e.(*ast.BasicLit)
	if !ok {
		return "", false
	}
	switch lit.Kind {
	case token.INT:
		n, err := strconv.ParseInt(lit.Value, 0, 64)
		if err != nil {
			return "", false
		}
		return fmt.Sprintf("%d", n), true
	case token.FLOAT:
		// an untyped float constant compared with an int must be integral (1e6)
		f, _, err := big.ParseFloat(lit.Value, 10, 200, big.ToNearestEven)
		if err != nil || !f.IsInt() {
			return "", false
		}
		i, acc := f.Int(nil)
		if acc != big.Exact || !i.IsInt64() {
			return "", false
		}
		return i.String(), true
	}
	return "", false
}

func coqZ(s string) string {
	if strings.HasPrefix(s, "-") {
		return "(" + s + ")"
	}
	return s
}

// (term, contains / or %)
func (t *opFn) iexp(e ast.Expr) (string, bool, bool) {
	switch x := e.(type) {
	case *ast.ParenExpr:
		return t.iexp(x.X)
	case *ast.BasicLit:
		if z, ok := opIntLit(x); ok {
			return "ILit " + coqZ(z), false, true
		}
	case *ast.Ident:
		if b, ok := t.find(x.Name); ok && b.kind == "int" {
			return b.term, strings.Contains(b.term, "IDiv") || strings.Contains(b.term, "IMod"), true
		}
	case *ast.SelectorExpr:
		if r, ok := t.fieldOf(x, "IntegerNode", "Value"); ok {
			return "IVal (" + r.term() + ")", false, true
		}
	case *ast.UnaryExpr:
		if x.Op == token.SUB {
			a, d, ok := t.iexp(x.X)
			if ok {
				return "INeg (" + a + ")", d, true
			}
		}
		if x.Op == token.ADD {
			return t.iexp(x.X)
		}
	case *ast.BinaryExpr:
		var c string
		div := false
		switch x.Op {
		case token.ADD:
			c = "IAdd"
		case token.SUB:
			c = "ISub"
		case token.MUL:
			c = "IMul"
		case token.QUO:
			c, div = "IDiv", true
		case token.REM:
			c, div = "IMod", true
		default:
			return "", false, false
		}
		a, d1, ok1 := t.iexp(x.X)
		b, d2, ok2 := t.iexp(x.Y)
		if ok1 && ok2 {
			return c + " (" + a + ") (" + b + ")", div || d1 || d2, true
		}
	}
	return "", false, false
}

func (t *opFn) sexp(e ast.Expr) (string, bool) {
	switch x := e.(type) {
	case *ast.ParenExpr:
		return t.sexp(x.X)
	case *ast.SelectorExpr:
		if r, ok := t.fieldOf(x, "StringNode", "Value"); ok {
			return "SVal (" + r.term() + ")", true
		}
	case *ast.BinaryExpr:
		if x.Op == token.ADD {
			a, ok1 := t.sexp(x.X)
			b, ok2 := t.sexp(x.Y)
			if ok1 && ok2 {
				return "SCat (" + a + ") (" + b + ")", true
			}
		}
	}
	return "", false
}

func (t *opFn) fexp(e ast.Expr) (string, bool) {
	switch x := e.(type) {
	case *ast.ParenExpr:
		return t.fexp(x.X)
	case *ast.CallExpr:
		if x.Ellipsis != token.NoPos {
			return "", false
		}
		if id, ok := x.Fun.(*ast.Ident); ok && id.Name == "float64" && len(x.Args) == 1 {
			if _, shadow := t.find("float64"); shadow {
				return "", false
			}
			if a, _, ok := t.iexp(x.Args[0]); ok {
				return "FOfInt (" + a + ")", true
			}
		}
		if s, ok := x.Fun.(*ast.SelectorExpr); ok && len(x.Args) == 2 {
			if pkg, ok := s.X.(*ast.Ident); ok && pkg.Name == "math" && s.Sel.Name == "Pow" {
				a, ok1 := t.fexp(x.Args[0])
				b, ok2 := t.fexp(x.Args[1])
				if ok1 && ok2 {
					return "FPow (" + a + ") (" + b + ")", true
				}
			}
		}
	}
	return "", false
}

// ---------------------------------------------------------------- types and conditions

// a reflect.Type valued expression: x.Type(), a bound type variable, the closure's type parameter
func (t *opFn) tyexp(e ast.Expr) (string, bool) {
	switch x := e.(type) {
	case *ast.ParenExpr:
		return t.tyexp(x.X)
	case *ast.Ident:
		if b, ok := t.find(x.Name); ok && (b.kind == "type" || b.kind == "argtype") {
			return b.term, true
		}
	case *ast.CallExpr:
		if len(x.Args) == 0 {
			if s, ok := x.Fun.(*ast.SelectorExpr); ok && s.Sel.Name == "Type" {
				if r, ok := t.nodeRef(s.X); ok {
					return "YOf (" + r.term() + ")", true
				}
			}
		}
	}
	return "", false
}

// the node whose type a tyexp term reads ("" for the closure parameter)
func tyRef(term string) (string, bool) {
	if strings.HasPrefix(term, "YOf (") {
		return strings.TrimSuffix(strings.TrimPrefix(term, "YOf ("), ")"), true
	}
	return "", false
}

func opIsNil(e ast.Expr) bool {
	id, ok := e.(*ast.Ident)
	return ok && id.Name == "nil"
}

var opCmp = map[token.Token]string{
	token.EQL: "CmpEq", token.NEQ: "CmpNe", token.LSS: "CmpLt", token.LEQ: "CmpLe", token.GTR: "CmpGt", token.GEQ: "CmpGe",
}

func (t *opFn) cond(e ast.Expr) (string, bool) {
	switch x := e.(type) {
	case *ast.ParenExpr:
		return t.cond(x.X)
	case *ast.Ident:
		if b, ok := t.find(x.Name); ok && b.kind == "okfn" {
			return b.term, true
		}
	case *ast.UnaryExpr:
		if x.Op == token.NOT {
			if c, ok := t.cond(x.X); ok {
				return "CNot (" + c + ")", true
			}
		}
	case *ast.CallExpr:
		// a helper of the same file: func f(t reflect.Type) bool { if c { return b }; return e }
		if id, ok := x.Fun.(*ast.Ident); ok && len(x.Args) == 1 && x.Ellipsis == token.NoPos {
			if _, shadow := t.find(id.Name); !shadow {
				if fd, ok := t.helpers[id.Name]; ok {
					if y, ok := t.tyexp(x.Args[0]); ok {
						return t.inlineTypeHelper(fd, y)
					}
				}
			}
		}
	case *ast.BinaryExpr:
		switch x.Op {
		case token.LAND, token.LOR:
			a, ok1 := t.cond(x.X)
			b, ok2 := t.cond(x.Y)
			if ok1 && ok2 {
				if x.Op == token.LAND {
					return "CAnd (" + a + ") (" + b + ")", true
				}
				return "COr (" + a + ") (" + b + ")", true
			}
			return "", false
		}
		neg := func(c string) string {
			if x.Op == token.NEQ {
				return "CNot (" + c + ")"
			}
			return c
		}
		if x.Op == token.EQL || x.Op == token.NEQ {
			// x.Operator == "s"
			if lit, ok := x.Y.(*ast.BasicLit); ok && lit.Kind == token.STRING {
				if s, ok := x.X.(*ast.SelectorExpr); ok && s.Sel.Name == "Operator" {
					if r, ok := t.nodeRef(s.X); ok && (r.goTy == "BinaryNode" || r.goTy == "UnaryNode") {
						v, err := strconv.Unquote(lit.Value)
						if err == nil {
							return neg("COpIs (" + r.term() + ") " + coqString(v)), true
						}
					}
				}
				return "", false
			}
			// t == nil
			if opIsNil(x.Y) {
				if y, ok := t.tyexp(x.X); ok {
					if r, ok := tyRef(y); ok {
						return neg("CTypeNil (" + r + ")"), true
					}
				}
				return "", false
			}
			// t.Kind() == reflect.K
			if c, ok := x.X.(*ast.CallExpr); ok && len(c.Args) == 0 {
				if s, ok := c.Fun.(*ast.SelectorExpr); ok && s.Sel.Name == "Kind" {
					if y, ok := t.tyexp(s.X); ok {
						if r, ok := tyRef(y); ok {
							if ks, ok := x.Y.(*ast.SelectorExpr); ok {
								if pkg, ok := ks.X.(*ast.Ident); ok && pkg.Name == "reflect" {
									if k, ok := goRKind(ks.Sel.Name); ok {
										return neg("CKindIs (" + r + ") " + k), true
									}
								}
							}
						}
					}
					return "", false
				}
			}
		}
		if cmp, ok := opCmp[x.Op]; ok {
			// len(x.F) > 0
			if c, ok := x.X.(*ast.CallExpr); ok && len(c.Args) == 1 {
				if id, ok := c.Fun.(*ast.Ident); ok && id.Name == "len" {
					if _, shadow := t.find("len"); !shadow {
						if r, f, ok := t.listField(c.Args[0]); ok && x.Op == token.GTR {
							if z, ok := opIntLit(x.Y); ok && z == "0" {
								return "CLenPos (" + r.term() + ") " + coqString(f), true
							}
						}
					}
					return "", false
				}
			}
			a, _, ok1 := t.iexp(x.X)
			b, _, ok2 := t.iexp(x.Y)
			if ok1 && ok2 {
				return "CCmp " + cmp + " (" + a + ") (" + b + ")", true
			}
		}
	}
	return "", false
}

// func f(t reflect.Type) bool { if c { return false|true }; return e }  at argument y
func (t *opFn) inlineTypeHelper(fd *ast.FuncDecl, y string) (string, bool) {
	if fd.Body == nil || fd.Type.Params.NumFields() != 1 || len(fd.Type.Params.List[0].Names) != 1 ||
		fd.Type.Results.NumFields() != 1 || squeeze(src(fd.Type.Params.List[0].Type)) != "reflect.Type" ||
		squeeze(src(fd.Type.Results.List[0].Type)) != "bool" {
		return "", false
	}
	sub := &opFn{file: t.file, scopes: []map[string]opBinding{{}}, helpers: map[string]*ast.FuncDecl{}, fresh: map[string]bool{}}
	sub.bind(fd.Type.Params.List[0].Names[0].Name, opBinding{kind: "type", term: y})
	var build func(list []ast.Stmt) (string, bool)
	build = func(list []ast.Stmt) (string, bool) {
		if len(list) == 0 {
			return "", false
		}
		switch s := list[0].(type) {
		case *ast.ReturnStmt:
			if len(s.Results) == 1 && len(list) == 1 {
				return sub.cond(s.Results[0])
			}
		case *ast.IfStmt:
			if s.Init == nil && s.Else == nil && len(s.Body.List) == 1 {
				if r, ok := s.Body.List[0].(*ast.ReturnStmt); ok && len(r.Results) == 1 {
					c, ok1 := sub.cond(s.Cond)
					rest, ok2 := build(list[1:])
					if id, ok := r.Results[0].(*ast.Ident); ok && ok1 && ok2 {
						switch id.Name {
						case "false":
							return "CAnd (CNot (" + c + ")) (" + rest + ")", true
						case "true":
							return "COr (" + c + ") (" + rest + ")", true
						}
					}
				}
			}
		}
		return "", false
	}
	return build(fd.Body.List)
}

// ---------------------------------------------------------------- node templates

func (t *opFn) opexp(e ast.Expr, ty string) (string, bool) {
	switch x := e.(type) {
	case *ast.BasicLit:
		if x.Kind == token.STRING {
			if v, err := strconv.Unquote(x.Value); err == nil {
				return "OLit " + coqString(v), true
			}
		}
	case *ast.SelectorExpr:
		if r, ok := t.fieldOf(x, ty, "Operator"); ok {
			return "OOf (" + r.term() + ")", true
		}
	}
	return "", false
}

// the Value of a ConstantNode
func (t *opFn) cexp(e ast.Expr) (string, bool) {
	switch x := e.(type) {
	case *ast.Ident:
		if b, ok := t.find(x.Name); ok && b.kind == "cexp" {
			return b.term, true
		}
	case *ast.CallExpr:
		// make([]int, 0)
		if id, ok := x.Fun.(*ast.Ident); ok && id.Name == "make" && len(x.Args) == 2 {
			if _, shadow := t.find("make"); !shadow && squeeze(src(x.Args[0])) == "[]int" {
				if z, ok := opIntLit(x.Args[1]); ok && z == "0" {
					return "KEmptyInts", true
				}
			}
			return "", false
		}
		// out[0].Interface()
		if s, ok := x.Fun.(*ast.SelectorExpr); ok && s.Sel.Name == "Interface" && len(x.Args) == 0 {
			if ix, ok := s.X.(*ast.IndexExpr); ok {
				if z, ok := opIntLit(ix.Index); ok && z == "0" {
					if id, ok := ix.X.(*ast.Ident); ok {
						if b, ok := t.find(id.Name); ok && b.kind == "out" {
							return "KCallOut0 (" + b.term + ")", true
						}
					}
				}
			}
		}
	}
	return "", false
}

func opFields(cl *ast.CompositeLit, names ...string) (map[string]ast.Expr, bool) {
	if len(cl.Elts) != len(names) {
		return nil, false
	}
	m := map[string]ast.Expr{}
	for _, el := range cl.Elts {
		kv, ok := el.(*ast.KeyValueExpr)
		if !ok {
			return nil, false
		}
		k, ok := kv.Key.(*ast.Ident)
		if !ok {
			return nil, false
		}
		m[k.Name] = kv.Value
	}
	for _, n := range names {
		if _, ok := m[n]; !ok {
			return nil, false
		}
	}
	return m, true
}

func (t *opFn) tmpl(e ast.Expr) (string, bool) {
	switch x := e.(type) {
	case *ast.ParenExpr:
		return t.tmpl(x.X)
	case *ast.Ident:
		if b, ok := t.find(x.Name); ok {
			switch b.kind {
			case "argnode", "tmpl":
				return b.term, true
			}
		}
	case *ast.UnaryExpr:
		if x.Op != token.AND {
			return "", false
		}
		cl, ok := x.X.(*ast.CompositeLit)
		if !ok {
			return "", false
		}
		id, ok := cl.Type.(*ast.Ident)
		if !ok {
			return "", false
		}
		if _, shadow := t.find(id.Name); shadow {
			return "", false
		}
		switch id.Name {
		case "IntegerNode":
			if m, ok := opFields(cl, "Value"); ok {
				if v, _, ok := t.iexp(m["Value"]); ok {
					return "TInt (" + v + ")", true
				}
			}
		case "StringNode":
			if m, ok := opFields(cl, "Value"); ok {
				if v, ok := t.sexp(m["Value"]); ok {
					return "TStr (" + v + ")", true
				}
			}
		case "FloatNode":
			if m, ok := opFields(cl, "Value"); ok {
				if v, ok := t.fexp(m["Value"]); ok {
					return "TFloat (" + v + ")", true
				}
			}
		case "ConstantNode":
			if m, ok := opFields(cl, "Value"); ok {
				if v, ok := t.cexp(m["Value"]); ok {
					return "TConst (" + v + ")", true
				}
			}
		case "UnaryNode":
			if m, ok := opFields(cl, "Operator", "Node"); ok {
				o, ok1 := t.opexp(m["Operator"], "UnaryNode")
				a, ok2 := t.tmpl(m["Node"])
				if ok1 && ok2 {
					return "TUnary (" + o + ") (" + a + ")", true
				}
			}
		case "BinaryNode":
			if m, ok := opFields(cl, "Operator", "Left", "Right"); ok {
				o, ok1 := t.opexp(m["Operator"], "BinaryNode")
				a, ok2 := t.tmpl(m["Left"])
				b, ok3 := t.tmpl(m["Right"])
				if ok1 && ok2 && ok3 {
					return "TBinary (" + o + ") (" + a + ") (" + b + ")", true
				}
			}
		}
		return "", false
	}
	if r, ok := t.nodeRef(e); ok {
		return "TNode (" + r.term() + ")", true
	}
	return "", false
}

// ---------------------------------------------------------------- statements

func opIdent(e ast.Expr) (string, bool) {
	id, ok := e.(*ast.Ident)
	if !ok {
		return "", false
	}
	return id.Name, true
}

// name := f(args)  /  name, name2 := ...
func opDefine(s ast.Stmt, n int) (*ast.AssignStmt, []string, bool) {
	as, ok := s.(*ast.AssignStmt)
	if !ok || as.Tok != token.DEFINE || len(as.Lhs) != n || len(as.Rhs) != 1 {
		return nil, nil, false
	}
	var names []string
	for _, l := range as.Lhs {
		id, ok := opIdent(l)
		if !ok {
			return nil, nil, false
		}
		names = append(names, id)
	}
	return as, names, true
}

func mentions(n ast.Node, names ...string) bool {
	found := false
	ast.Inspect(n, func(x ast.Node) bool {
		if id, ok := x.(*ast.Ident); ok {
			for _, nm := range names {
				if nm != "" && id.Name == nm {
					found = true
				}
			}
		}
		return !found
	})
	return found
}

// recv.err = &file.Error{Location: X.Location(), Message: ...}
func (t *opFn) errAssign(as *ast.AssignStmt) (string, bool) {
	if as.Tok != token.ASSIGN || len(as.Lhs) != 1 || len(as.Rhs) != 1 {
		return "", false
	}
	l, ok := as.Lhs[0].(*ast.SelectorExpr)
	if !ok || l.Sel.Name != "err" {
		return "", false
	}
	if r, ok := opIdent(l.X); !ok || r != t.recv || t.recv == "" {
		return "", false
	}
	u, ok := as.Rhs[0].(*ast.UnaryExpr)
	if !ok || u.Op != token.AND {
		return "", false
	}
	cl, ok := u.X.(*ast.CompositeLit)
	if !ok || squeeze(src(cl.Type)) != "file.Error" {
		return "", false
	}
	m, ok := opFields(cl, "Location", "Message")
	if !ok {
		return "", false
	}
	c, ok := m["Location"].(*ast.CallExpr)
	if !ok || len(c.Args) != 0 {
		return "", false
	}
	s, ok := c.Fun.(*ast.SelectorExpr)
	if !ok || s.Sel.Name != "Location" {
		return "", false
	}
	r, ok := t.nodeRef(s.X)
	if !ok {
		return "", false
	}
	return "RSetErr (" + r.term() + ")", true
}

// the two-statement idioms that build the value of a ConstantNode: (cexp term, ok)
func (t *opFn) valueIdiom(mk ast.Stmt, loop ast.Stmt) (string, string, bool) {
	as, names, ok := opDefine(mk, 1)
	if !ok {
		return "", "", false
	}
	v := names[0]
	c, ok := as.Rhs[0].(*ast.CallExpr)
	if !ok {
		return "", "", false
	}
	if f, ok := opIdent(c.Fun); !ok || f != "make" {
		return "", "", false
	}
	if _, shadow := t.find("make"); shadow {
		return "", "", false
	}
	rs, ok := loop.(*ast.RangeStmt)
	if !ok || rs.Tok != token.DEFINE || len(rs.Body.List) != 1 {
		return "", "", false
	}
	body, ok := rs.Body.List[0].(*ast.AssignStmt)
	if !ok || body.Tok != token.ASSIGN || len(body.Lhs) != 1 || len(body.Rhs) != 1 {
		return "", "", false
	}
	ix, ok := body.Lhs[0].(*ast.IndexExpr)
	if !ok {
		return "", "", false
	}
	if id, ok := opIdent(ix.X); !ok || id != v {
		return "", "", false
	}
	key, _ := opIdent(rs.Key)
	val := ""
	if rs.Value != nil {
		val, _ = opIdent(rs.Value)
	}
	ty := squeeze(src(c.Args[0]))
	// a.(*K).Value with a the range value
	elemValue := func(e ast.Expr, want string) bool {
		s, ok := e.(*ast.SelectorExpr)
		if !ok || s.Sel.Name != "Value" {
			return false
		}
		x, k, ok := opAssert(s.X)
		if !ok || k != want {
			return false
		}
		id, ok := opIdent(x)
		return ok && id == val && val != "" && val != "_"
	}
	switch {
	case (ty == "[]int" || ty == "[]string") && len(c.Args) == 2:
		want, con := "IntegerNode", "KInts"
		if ty == "[]string" {
			want, con = "StringNode", "KStrs"
		}
		// make([]T, len(X.F)); for i, a := range X.F { v[i] = a.(*K).Value }
		if lc, ok := c.Args[1].(*ast.CallExpr); ok && len(lc.Args) == 1 {
			if f, ok := opIdent(lc.Fun); ok && f == "len" {
				r1, f1, ok1 := t.listField(lc.Args[0])
				r2, f2, ok2 := t.listField(rs.X)
				if ok1 && ok2 && r1.term() == r2.term() && f1 == f2 && key != "" && key != "_" {
					if id, ok := opIdent(ix.Index); ok && id == key && elemValue(body.Rhs[0], want) {
						return v, con + " (" + r1.term() + ") " + coqString(f1), true
					}
				}
				return "", "", false
			}
		}
		// make([]int, size); for i := range v { v[i] = lo + i }
		if ty == "[]int" && rs.Value == nil && key != "" && key != "_" {
			if id, ok := opIdent(rs.X); ok && id == v {
				size, _, ok1 := t.iexp(c.Args[1])
				if id, ok := opIdent(ix.Index); ok && id == key && ok1 {
					if be, ok := body.Rhs[0].(*ast.BinaryExpr); ok && be.Op == token.ADD {
						if id, ok := opIdent(be.Y); ok && id == key {
							if lo, div, ok := t.iexp(be.X); ok && !div && !mentions(be.X, key) {
								return v, "KIntRange (" + lo + ") (" + size + ")", true
							}
						}
					}
				}
			}
		}
	case (ty == "map[int]struct{}" || ty == "map[string]struct{}") && len(c.Args) == 1:
		want, con := "IntegerNode", "KIntSet"
		if ty == "map[string]struct{}" {
			want, con = "StringNode", "KStrSet"
		}
		// for _, a := range X.F { v[a.(*K).Value] = struct{}{} }
		if r, f, ok := t.listField(rs.X); ok && (key == "_") && elemValue(ix.Index, want) &&
			squeeze(src(body.Rhs[0])) == "struct{}{}" {
			return v, con + " (" + r.term() + ") " + coqString(f), true
		}
	}
	return "", "", false
}

// for _, a := range X.F { if _, ok := a.(*K); !ok { els } }
func (t *opFn) forAllKind(rs *ast.RangeStmt, ind string) (string, bool) {
	if rs.Tok != token.DEFINE || rs.Value == nil || len(rs.Body.List) != 1 {
		return "", false
	}
	if k, ok := opIdent(rs.Key); !ok || k != "_" {
		return "", false
	}
	val, ok := opIdent(rs.Value)
	if !ok || val == "_" {
		return "", false
	}
	r, f, ok := t.listField(rs.X)
	if !ok {
		return "", false
	}
	is, ok := rs.Body.List[0].(*ast.IfStmt)
	if !ok || is.Else != nil || is.Init == nil {
		return "", false
	}
	as, names, ok := opDefine(is.Init, 2)
	if !ok || names[0] != "_" {
		return "", false
	}
	x, k, ok := opAssert(as.Rhs[0])
	if !ok {
		return "", false
	}
	if id, ok := opIdent(x); !ok || id != val {
		return "", false
	}
	u, ok := is.Cond.(*ast.UnaryExpr)
	if !ok || u.Op != token.NOT {
		return "", false
	}
	if id, ok := opIdent(u.X); !ok || id != names[1] {
		return "", false
	}
	// the body leaves the loop for good: a single goto or return
	if len(is.Body.List) != 1 {
		return "", false
	}
	switch b := is.Body.List[0].(type) {
	case *ast.ReturnStmt:
		if len(b.Results) != 0 {
			return "", false
		}
	case *ast.BranchStmt:
		if b.Tok != token.GOTO {
			return "", false
		}
	default:
		return "", false
	}
	if mentions(is.Body, val, names[1]) {
		return "", false
	}
	t.push()
	els := t.stmts(is.Body.List, ind+"    ")
	t.pop()
	return "RForAllKind (" + r.term() + ") " + coqString(f) + " " + goNodeKinds[k] + " " + opList(els, ind+"   "), true
}

// in := make([]reflect.Value, len(X.F)); for i := 0; i < len(X.F); i++ { ... }
func (t *opFn) argsIdiom(mk ast.Stmt, loop ast.Stmt, ind string) (string, string, bool) {
	as, names, ok := opDefine(mk, 1)
	if !ok {
		return "", "", false
	}
	in := names[0]
	c, ok := as.Rhs[0].(*ast.CallExpr)
	if !ok || len(c.Args) != 2 || squeeze(src(c.Fun)) != "make" || squeeze(src(c.Args[0])) != "[]reflect.Value" {
		return "", "", false
	}
	lc, ok := c.Args[1].(*ast.CallExpr)
	if !ok || len(lc.Args) != 1 || squeeze(src(lc.Fun)) != "len" {
		return "", "", false
	}
	r, f, ok := t.listField(lc.Args[0])
	if !ok {
		return "", "", false
	}
	list := squeeze(src(lc.Args[0]))
	fs, ok := loop.(*ast.ForStmt)
	if !ok || fs.Init == nil || fs.Cond == nil || fs.Post == nil || len(fs.Body.List) != 4 {
		return "", "", false
	}
	_, inames, ok := opDefine(fs.Init, 1)
	if !ok {
		return "", "", false
	}
	i := inames[0]
	if squeeze(src(fs.Init)) != i+" := 0" || squeeze(src(fs.Cond)) != i+" < len("+list+")" || squeeze(src(fs.Post)) != i+"++" {
		return "", "", false
	}
	_, anames, ok := opDefine(fs.Body.List[0], 1)
	if !ok {
		return "", "", false
	}
	arg := anames[0]
	if squeeze(src(fs.Body.List[0])) != arg+" := "+list+"["+i+"]" {
		return "", "", false
	}
	ds, ok := fs.Body.List[1].(*ast.DeclStmt)
	if !ok {
		return "", "", false
	}
	gd, ok := ds.Decl.(*ast.GenDecl)
	if !ok || gd.Tok != token.VAR || len(gd.Specs) != 1 {
		return "", "", false
	}
	vs := gd.Specs[0].(*ast.ValueSpec)
	if len(vs.Names) != 1 || len(vs.Values) != 0 || vs.Type == nil || squeeze(src(vs.Type)) != "interface{}" {
		return "", "", false
	}
	param := vs.Names[0].Name
	distinct := map[string]bool{in: true, i: true, arg: true, param: true}
	if len(distinct) != 4 || mentions(lc.Args[0], in, i, arg, param) {
		return "", "", false
	}
	want := "if " + param + " == nil && reflect.TypeOf(" + param + ") == nil { " + in + "[" + i + "] = reflect.ValueOf(&" + param +
		").Elem() } else { " + in + "[" + i + "] = reflect.ValueOf(" + param + ") }"
	if squeeze(src(fs.Body.List[3])) != want {
		return "", "", false
	}
	ts, ok := fs.Body.List[2].(*ast.TypeSwitchStmt)
	if !ok || ts.Init != nil {
		return "", "", false
	}
	tas, tnames, ok := opDefine(ts.Assign, 1)
	if !ok {
		return "", "", false
	}
	a := tnames[0]
	if squeeze(src(tas.Rhs[0])) != arg+".(type)" || distinct[a] && a != arg {
		return "", "", false
	}
	var table []string
	dflt := ""
	seen := map[string]bool{}
	for _, cl := range ts.Body.List {
		cc := cl.(*ast.CaseClause)
		if cc.List == nil {
			if dflt != "" {
				return "", "", false
			}
			if mentions(&ast.BlockStmt{List: cc.Body}, in, i, arg, param, a) {
				return "", "", false
			}
			t.push()
			d := t.stmts(cc.Body, ind+"    ")
			t.pop()
			dflt = opList(d, ind+"   ")
			continue
		}
		if len(cc.List) != 1 || len(cc.Body) != 1 {
			return "", "", false
		}
		st, ok := cc.List[0].(*ast.StarExpr)
		if !ok {
			return "", "", false
		}
		k, ok := opIdent(st.X)
		if !ok || goNodeKinds[k] == "" || seen[k] {
			return "", "", false
		}
		seen[k] = true
		switch squeeze(src(cc.Body[0])) {
		case param + " = nil":
			table = append(table, "("+goNodeKinds[k]+", ANil)")
		case param + " = " + a + ".Value":
			table = append(table, "("+goNodeKinds[k]+", AValue)")
		default:
			return "", "", false
		}
	}
	if dflt == "" {
		// without a default case an argument of another kind is passed as nil: not a shape the DSL has
		return "", "", false
	}
	return in, "RArgs (" + r.term() + ") " + coqString(f) + "\n" + ind + "   [" + strings.Join(table, "; ") + "]\n" + ind + "   " + dflt, true
}

type opClosure struct {
	body     string // the translated statements
	nparams  int
	endsWith bool // the last statement patches the first parameter in
}

var opClosures = map[*ast.FuncLit]*opClosure{}

// name := func(p Node [, q reflect.Type]) { ... }
func (t *opFn) closureDef(name string, fl *ast.FuncLit, ind string) bool {
	if fl.Type.Results.NumFields() != 0 {
		return false
	}
	var params []string
	var types []string
	for _, p := range fl.Type.Params.List {
		for _, n := range p.Names {
			params = append(params, n.Name)
			types = append(types, squeeze(src(p.Type)))
		}
	}
	if len(params) < 1 || len(params) > 2 || types[0] != "Node" || (len(params) == 2 && types[1] != "reflect.Type") {
		return false
	}
	t.push()
	t.bind(params[0], opBinding{kind: "argnode", term: "TArg"})
	if len(params) == 2 {
		t.bind(params[1], opBinding{kind: "argtype", term: "YArg"})
	}
	saved, savedPatched := t.lastPatchedArg, t.patched
	t.lastPatchedArg = false
	t.depth++
	body := t.stmts(fl.Body.List, ind+"    ")
	t.depth--
	ends := t.lastPatchedArg
	t.lastPatchedArg, t.patched = saved, savedPatched
	t.pop()
	opClosures[fl] = &opClosure{body: opList(body, ind+"   "), nparams: len(params), endsWith: ends}
	t.bind(name, opBinding{kind: "closure", fl: fl})
	return true
}

func (t *opFn) ifStmt(s *ast.IfStmt, ind string) string {
	t.push()
	defer t.pop()
	if s.Init != nil {
		okInit := false
		if as, names, ok := opDefine(s.Init, 2); ok {
			// a, ok := X.(*T)
			if x, k, ok := opAssert(as.Rhs[0]); ok {
				if r, ok := t.nodeRef(x); ok {
					t.bind(names[0], opBinding{kind: "node", term: r.term(), goTy: k})
					t.bind(names[1], opBinding{kind: "okfn", term: "CIsKind (" + r.term() + ") " + goNodeKinds[k]})
					okInit = true
				}
			}
		} else if as, names, ok := opDefine(s.Init, 1); ok {
			// t := X.Type()
			if y, ok := t.tyexp(as.Rhs[0]); ok {
				t.bind(names[0], opBinding{kind: "type", term: y})
				okInit = true
			}
		}
		if !okInit {
			return opUnrec(s)
		}
	}
	c, ok := t.cond(s.Cond)
	if !ok {
		return opUnrec(s)
	}
	t.push()
	a := t.stmts(s.Body.List, ind+"    ")
	t.pop()
	var b []string
	switch e := s.Else.(type) {
	case nil:
	case *ast.BlockStmt:
		t.push()
		b = t.stmts(e.List, ind+"    ")
		t.pop()
	case *ast.IfStmt:
		b = []string{t.ifStmt(e, ind+"    ")}
	default:
		return opUnrec(s)
	}
	return "RIf (" + c + ")\n" + ind + "   " + opList(a, ind+"   ") + "\n" + ind + "   " + opList(b, ind+"   ")
}

func (t *opFn) switchStmt(s *ast.SwitchStmt, ind string) string {
	if s.Init != nil || s.Tag == nil {
		return opUnrec(s)
	}
	head := ""
	kindSwitch := false
	if sel, ok := s.Tag.(*ast.SelectorExpr); ok && sel.Sel.Name == "Operator" {
		r, ok := t.nodeRef(sel.X)
		if !ok || (r.goTy != "BinaryNode" && r.goTy != "UnaryNode") {
			return opUnrec(s)
		}
		head = "RSwitchOp (" + r.term() + ")"
	} else if c, ok := s.Tag.(*ast.CallExpr); ok && len(c.Args) == 0 {
		sel, ok := c.Fun.(*ast.SelectorExpr)
		if !ok || sel.Sel.Name != "Kind" {
			return opUnrec(s)
		}
		y, ok := t.tyexp(sel.X)
		if !ok {
			return opUnrec(s)
		}
		r, ok := tyRef(y)
		if !ok {
			return opUnrec(s)
		}
		head = "RSwitchKind (" + r + ")"
		kindSwitch = true
	} else {
		return opUnrec(s)
	}
	var cases []string
	dflt := "[]"
	seenDefault := false
	for _, cl := range s.Body.List {
		cc, ok := cl.(*ast.CaseClause)
		if !ok {
			return opUnrec(s)
		}
		t.push()
		body := t.stmts(cc.Body, ind+"         ")
		t.pop()
		if cc.List == nil {
			if seenDefault {
				return opUnrec(s)
			}
			seenDefault = true
			dflt = opList(body, ind+"   ")
			continue
		}
		var labels []string
		for _, l := range cc.List {
			if kindSwitch {
				ks, ok := l.(*ast.SelectorExpr)
				if !ok {
					return opUnrec(s)
				}
				pkg, ok := opIdent(ks.X)
				if !ok || pkg != "reflect" {
					return opUnrec(s)
				}
				k, ok := goRKind(ks.Sel.Name)
				if !ok {
					return opUnrec(s)
				}
				labels = append(labels, k)
			} else {
				lit, ok := l.(*ast.BasicLit)
				if !ok || lit.Kind != token.STRING {
					return opUnrec(s)
				}
				v, err := strconv.Unquote(lit.Value)
				if err != nil {
					return opUnrec(s)
				}
				labels = append(labels, coqString(v))
			}
		}
		cases = append(cases, "(["+strings.Join(labels, "; ")+"],\n"+ind+"     "+opList(body, ind+"     ")+")")
	}
	return head + "\n" + ind + "   " + opList(cases, ind+"   ") + "\n" + ind + "   " + dflt
}

// switch n := (*node).(type)
func (t *opFn) typeSwitch(s *ast.TypeSwitchStmt, ind string) string {
	if s.Init != nil || t.patched || t.depth != 0 {
		return opUnrec(s)
	}
	as, names, ok := opDefine(s.Assign, 1)
	if !ok {
		return opUnrec(s)
	}
	ta, ok := as.Rhs[0].(*ast.TypeAssertExpr)
	if !ok || ta.Type != nil {
		return opUnrec(s)
	}
	if r, ok := t.nodeRef(ta.X); !ok || r.self {
		return opUnrec(s)
	}
	var cases []string
	for _, cl := range s.Body.List {
		cc, ok := cl.(*ast.CaseClause)
		if !ok || cc.List == nil {
			return opUnrec(s)
		}
		var kinds []string
		goTy := ""
		for _, l := range cc.List {
			st, ok := l.(*ast.StarExpr)
			if !ok {
				return opUnrec(s)
			}
			k, ok := opIdent(st.X)
			if !ok || goNodeKinds[k] == "" {
				return opUnrec(s)
			}
			kinds = append(kinds, goNodeKinds[k])
			goTy = k
		}
		if len(kinds) != 1 {
			goTy = ""
		}
		t.push()
		t.bind(names[0], opBinding{kind: "node", term: "NSelf []", goTy: goTy})
		body := t.stmts(cc.Body, ind+"         ")
		t.pop()
		cases = append(cases, "(["+strings.Join(kinds, "; ")+"],\n"+ind+"     "+opList(body, ind+"     ")+")")
	}
	return "RTypeSwitch\n" + ind + "   " + opList(cases, ind+"   ")
}

func (t *opFn) stmts(list []ast.Stmt, ind string) []string {
	savedFresh := t.fresh
	t.fresh = map[string]bool{}
	defer func() { t.fresh = savedFresh }()
	var out []string
	next := map[string]bool{}
	for i := 0; i < len(list); i++ {
		s := list[i]
		t.fresh, next = next, map[string]bool{}
		prevLPA := t.lastPatchedArg
		t.lastPatchedArg = false
		pend := func(name string, b opBinding) {
			b.pending = true
			t.bind(name, b)
			next[name] = true
		}
		switch x := s.(type) {
		case *ast.EmptyStmt:
		case *ast.BlockStmt:
			t.push()
			out = append(out, t.stmts(x.List, ind)...)
			t.pop()
		case *ast.LabeledStmt:
			n, ok := t.labels[x.Label.Name]
			if !ok {
				out = append(out, opUnrec(s))
				continue
			}
			out = append(out, fmt.Sprintf("RLabel %d", n))
			out = append(out, t.stmts([]ast.Stmt{x.Stmt}, ind)...)
		case *ast.BranchStmt:
			if x.Tok == token.GOTO && x.Label != nil {
				if n, ok := t.labels[x.Label.Name]; ok {
					out = append(out, fmt.Sprintf("RGoto %d", n))
					continue
				}
			}
			out = append(out, opUnrec(s))
		case *ast.ReturnStmt:
			if len(x.Results) == 0 {
				out = append(out, "RReturn")
			} else {
				out = append(out, opUnrec(s))
			}
		case *ast.ExprStmt:
			c, ok := x.X.(*ast.CallExpr)
			if !ok || c.Ellipsis != token.NoPos {
				out = append(out, opUnrec(s))
				continue
			}
			done := false
			if f, ok := opIdent(c.Fun); ok {
				if b, bound := t.find(f); bound {
					if b.kind == "closure" {
						cl := opClosures[b.fl]
						if cl != nil && len(c.Args) == cl.nparams {
							a0, ok0 := t.tmpl(c.Args[0])
							y := "None"
							ok1 := true
							if cl.nparams == 2 {
								var ys string
								ys, ok1 = t.tyexp(c.Args[1])
								y = "(Some (" + ys + "))"
							}
							if ok0 && ok1 {
								out = append(out, "RWith ("+a0+") "+y+"\n"+ind+"   "+reindent(cl.body, ind))
								t.patched = true
								if a0 == "TArg" && cl.endsWith {
									t.lastPatchedArg = true
								}
								done = true
							}
						}
					}
				} else if f == "Patch" && len(c.Args) == 2 {
					if n, ok := opIdent(c.Args[0]); ok && n == t.node {
						if _, shadow := t.find(n); !shadow {
							if a, ok := t.tmpl(c.Args[1]); ok {
								out = append(out, "RPatch ("+a+")")
								t.patched = true
								if a == "TArg" {
									t.lastPatchedArg = true
								}
								done = true
							}
						}
					}
				}
			} else if sel, ok := c.Fun.(*ast.SelectorExpr); ok && sel.Sel.Name == "SetType" && len(c.Args) == 1 && prevLPA {
				if id, ok := opIdent(sel.X); ok {
					if b, ok := t.find(id); ok && b.kind == "argnode" {
						if y, ok := t.tyexp(c.Args[0]); ok {
							out = append(out, "RSetType ("+y+")")
							done = true
						}
					}
				}
			}
			if !done {
				out = append(out, opUnrec(s))
			}
		case *ast.AssignStmt:
			if term, ok := t.errAssign(x); ok {
				out = append(out, term)
				continue
			}
			if x.Tok == token.ASSIGN && len(x.Lhs) == 1 && len(x.Rhs) == 1 {
				if l, ok := x.Lhs[0].(*ast.SelectorExpr); ok && l.Sel.Name == "applied" {
					if r, ok := opIdent(l.X); ok && r == t.recv && t.recv != "" {
						if v, ok := opIdent(x.Rhs[0]); ok && v == "true" {
							out = append(out, "RSetApplied")
							continue
						}
					}
				}
				out = append(out, opUnrec(s))
				continue
			}
			if as, names, ok := opDefine(s, 2); ok {
				// fn, ok := recv.fns[X.Name]
				if ix, isIx := as.Rhs[0].(*ast.IndexExpr); isIx {
					if m, isSel := ix.X.(*ast.SelectorExpr); isSel && m.Sel.Name == "fns" {
						if r, ok := opIdent(m.X); ok && r == t.recv && t.recv != "" {
							if ref, ok := t.fieldOf(ix.Index, "FunctionNode", "Name"); ok {
								t.bind(names[0], opBinding{kind: "fn", term: ref.term()})
								t.bind(names[1], opBinding{kind: "okfn", term: "CConstFn (" + ref.term() + ")"})
								continue
							}
						}
					}
				}
				out = append(out, opUnrec(s))
				continue
			}
			as, names, ok := opDefine(s, 1)
			if !ok {
				out = append(out, opUnrec(s))
				continue
			}
			name := names[0]
			rhs := as.Rhs[0]
			if fl, ok := rhs.(*ast.FuncLit); ok {
				if !t.closureDef(name, fl, ind) {
					out = append(out, opUnrec(s))
				}
				continue
			}
			if i+1 < len(list) {
				if v, term, ok := t.valueIdiom(s, list[i+1]); ok {
					pend(v, opBinding{kind: "cexp", term: term})
					i++
					continue
				}
				if in, term, ok := t.argsIdiom(s, list[i+1], ind); ok {
					out = append(out, term)
					t.bind(in, opBinding{kind: "args"})
					i++
					continue
				}
			}
			if y, ok := t.tyexp(rhs); ok {
				t.bind(name, opBinding{kind: "type", term: y})
				continue
			}
			// out := fn.Call(in)
			if c, ok := rhs.(*ast.CallExpr); ok && len(c.Args) == 1 && c.Ellipsis == token.NoPos {
				if sel, ok := c.Fun.(*ast.SelectorExpr); ok && sel.Sel.Name == "Call" {
					f, ok1 := opIdent(sel.X)
					a, ok2 := opIdent(c.Args[0])
					if ok1 && ok2 {
						fb, ok3 := t.find(f)
						ab, ok4 := t.find(a)
						if ok3 && ok4 && fb.kind == "fn" && ab.kind == "args" {
							pend(name, opBinding{kind: "out", term: fb.term})
							continue
						}
					}
					out = append(out, opUnrec(s))
					continue
				}
			}
			if tm, ok := t.tmpl(rhs); ok && !strings.HasPrefix(tm, "TNode") {
				pend(name, opBinding{kind: "tmpl", term: tm})
				continue
			}
			if r, ok := t.nodeRef(rhs); ok && r.self {
				t.bind(name, opBinding{kind: "node", term: r.term(), goTy: r.goTy})
				continue
			}
			if v, div, ok := t.iexp(rhs); ok && !div {
				t.bind(name, opBinding{kind: "int", term: v})
				continue
			}
			out = append(out, opUnrec(s))
		case *ast.IfStmt:
			out = append(out, t.ifStmt(x, ind))
		case *ast.SwitchStmt:
			out = append(out, t.switchStmt(x, ind))
		case *ast.TypeSwitchStmt:
			out = append(out, t.typeSwitch(x, ind))
		case *ast.RangeStmt:
			if term, ok := t.forAllKind(x, ind); ok {
				out = append(out, term)
			} else {
				out = append(out, opUnrec(s))
			}
		default:
			out = append(out, opUnrec(s))
		}
	}
	return out
}

// a closure body was laid out at the indentation of its definition; lay it out again at ind
func reindent(body, ind string) string {
	lines := strings.Split(body, "\n")
	min := -1
	for _, l := range lines[1:] {
		n := len(l) - len(strings.TrimLeft(l, " "))
		if min < 0 || n < min {
			min = n
		}
	}
	for i := 1; i < len(lines); i++ {
		lines[i] = ind + "    " + lines[i][min:]
	}
	return strings.Join(lines, "\n")
}

// defer func() { if r := recover(); r != nil { ... } }()
func (t *opFn) recoverHandler(d *ast.DeferStmt) (string, bool) {
	fl, ok := d.Call.Fun.(*ast.FuncLit)
	if !ok || len(d.Call.Args) != 0 || fl.Type.Params.NumFields() != 0 || fl.Type.Results.NumFields() != 0 || len(fl.Body.List) != 1 {
		return "", false
	}
	is, ok := fl.Body.List[0].(*ast.IfStmt)
	if !ok || is.Else != nil || is.Init == nil {
		return "", false
	}
	_, names, ok := opDefine(is.Init, 1)
	if !ok || squeeze(src(is.Init)) != names[0]+" := recover()" || squeeze(src(is.Cond)) != names[0]+" != nil" {
		return "", false
	}
	if _, shadow := t.find("recover"); shadow {
		return "", false
	}
	var out []string
	for _, s := range is.Body.List {
		as, ok := s.(*ast.AssignStmt)
		if !ok {
			out = append(out, opUnrec(s))
			continue
		}
		if term, ok := t.errAssign(as); ok {
			out = append(out, term)
			continue
		}
		// the text of the message: local variables, nothing of the visitor or the node
		plain := true
		for _, l := range as.Lhs {
			if _, ok := l.(*ast.Ident); !ok {
				plain = false
			}
		}
		if plain && !mentions(as, t.recv, t.node, "panic") {
			continue
		}
		out = append(out, opUnrec(s))
	}
	return opList(out, "    "), true
}

var opExpectedPatch = "newNode.SetType((*node).Type()) newNode.SetLocation((*node).Location()) *node = newNode"

type opPassSrc struct{ file, ty, coq string }

var opPasses = []opPassSrc{
	{"optimizer/in_array.go", "inArray", "in_array_pass"},
	{"optimizer/fold.go", "fold", "fold_pass"},
	{"optimizer/const_expr.go", "constExpr", "const_expr_pass"},
	{"optimizer/in_range.go", "inRange", "in_range_pass"},
	{"optimizer/const_range.go", "constRange", "const_range_pass"},
}

func opLabels(body *ast.BlockStmt) map[string]int {
	labels := map[string]int{}
	ast.Inspect(body, func(n ast.Node) bool {
		if _, ok := n.(*ast.FuncLit); ok {
			return false
		}
		if l, ok := n.(*ast.LabeledStmt); ok {
			if _, dup := labels[l.Label.Name]; !dup {
				labels[l.Label.Name] = len(labels)
			}
		}
		return true
	})
	return labels
}

// ---------------------------------------------------------------- Optimize

func opOptimize(fd *ast.FuncDecl) []string {
	if fd.Type.Params.NumFields() != 2 || len(fd.Type.Params.List) != 2 || len(fd.Type.Params.List[0].Names) != 1 ||
		len(fd.Type.Params.List[1].Names) != 1 {
		return []string{"OUnrecognised " + coqString(pos(fd))}
	}
	node := fd.Type.Params.List[0].Names[0].Name
	cfg := fd.Type.Params.List[1].Names[0].Name
	// Walk(node, X)
	walk := func(s ast.Stmt) (ast.Expr, bool) {
		es, ok := s.(*ast.ExprStmt)
		if !ok {
			return nil, false
		}
		c, ok := es.X.(*ast.CallExpr)
		if !ok || len(c.Args) != 2 || squeeze(src(c.Fun)) != "Walk" || squeeze(src(c.Args[0])) != node {
			return nil, false
		}
		return c.Args[1], true
	}
	// &T{} or &T{fns: cfg.ConstExprFns}
	visitor := func(e ast.Expr) (string, bool) {
		u, ok := e.(*ast.UnaryExpr)
		if !ok || u.Op != token.AND {
			return "", false
		}
		cl, ok := u.X.(*ast.CompositeLit)
		if !ok {
			return "", false
		}
		ty, ok := opIdent(cl.Type)
		if !ok {
			return "", false
		}
		switch len(cl.Elts) {
		case 0:
			return ty, true
		case 1:
			if squeeze(src(cl.Elts[0])) == "fns: "+cfg+".ConstExprFns" {
				return ty, true
			}
		}
		return "", false
	}
	var scan func(list []ast.Stmt, ind string) []string
	scan = func(list []ast.Stmt, ind string) []string {
		var out []string
		for _, s := range list {
			bad := "OUnrecognised " + coqString(pos(s))
			switch x := s.(type) {
			case *ast.ExprStmt:
				if a, ok := walk(x); ok {
					if v, ok := visitor(a); ok {
						out = append(out, "OWalk "+coqString(v))
						continue
					}
				}
				out = append(out, bad)
			case *ast.ForStmt:
				if x.Init == nil || x.Cond == nil || x.Post == nil || len(x.Body.List) != 4 {
					out = append(out, bad)
					continue
				}
				as, names, ok := opDefine(x.Init, 1)
				if !ok {
					out = append(out, bad)
					continue
				}
				l := names[0]
				n, ok := opIntLit(as.Rhs[0])
				if !ok || squeeze(src(x.Cond)) != l+" >= 0" || squeeze(src(x.Post)) != l+"--" || mentions(x.Body, l) {
					out = append(out, bad)
					continue
				}
				vas, vnames, ok := opDefine(x.Body.List[0], 1)
				if !ok {
					out = append(out, bad)
					continue
				}
				v := vnames[0]
				ty, ok := visitor(vas.Rhs[0])
				a, ok2 := walk(x.Body.List[1])
				if !ok || !ok2 || squeeze(src(a)) != v ||
					squeeze(src(x.Body.List[2])) != "if "+v+".err != nil { return "+v+".err }" ||
					squeeze(src(x.Body.List[3])) != "if !"+v+".applied { break }" {
					out = append(out, bad)
					continue
				}
				out = append(out, "OLoop "+coqString(ty)+" "+coqZ(n))
			case *ast.IfStmt:
				if x.Init == nil && x.Else == nil &&
					squeeze(src(x.Cond)) == cfg+" != nil && len("+cfg+".ConstExprFns) > 0" {
					body := scan(x.Body.List, ind+"    ")
					out = append(out, "OIfConstFns\n"+ind+"   "+strings.ReplaceAll(opList(body, ind+"   "), ";\n"+ind+"    ", ";\n"+ind+"    "))
					continue
				}
				out = append(out, bad)
			case *ast.ReturnStmt:
				if len(x.Results) == 1 && opIsNil(x.Results[0]) {
					out = append(out, "OReturnNil")
					continue
				}
				out = append(out, bad)
			default:
				out = append(out, bad)
			}
		}
		return out
	}
	return scan(fd.Body.List, " ")
}

func genOpt() {
	var unrec []string
	var b strings.Builder
	b.WriteString("(* GENERATED by /verif/translator from optimizer/{optimizer,in_array,fold,const_expr,in_range,const_range}.go,\n   ast/node.go — do not edit *)\n")
	b.WriteString("From Coq Require Import ZArith List String.\nRequire Import X.Base.Num X.Base.Value X.Syn.Ast X.Opt.OptRules.\nImport ListNotations.\nOpen Scope string_scope.\nOpen Scope Z_scope.\n\n")
	b.WriteString("(* one DSL term (coq/Opt/OptRules.v) per visitor: the statements of Exit in source order *)\n")
	for _, p := range opPasses {
		body := "[RUnrecognised " + coqString(p.file+": Exit not found") + "]"
		rec := "None"
		f := parseFile(p.file)
		fd := funcDecl(f, "Exit", p.ty)
		if fd != nil && fd.Body != nil && fd.Type.Params.NumFields() == 1 && len(fd.Type.Params.List[0].Names) == 1 &&
			squeeze(src(fd.Type.Params.List[0].Type)) == "*Node" && fd.Type.Results.NumFields() == 0 {
			t := &opFn{file: p.file, scopes: []map[string]opBinding{{}}, helpers: map[string]*ast.FuncDecl{}, fresh: map[string]bool{}}
			t.node = fd.Type.Params.List[0].Names[0].Name
			if len(fd.Recv.List[0].Names) == 1 {
				t.recv = fd.Recv.List[0].Names[0].Name
			}
			for _, d := range f.Decls {
				if h, ok := d.(*ast.FuncDecl); ok && h.Recv == nil {
					t.helpers[h.Name.Name] = h
				}
			}
			t.labels = opLabels(fd.Body)
			list := fd.Body.List
			if len(list) > 0 {
				if d, ok := list[0].(*ast.DeferStmt); ok {
					if h, ok := t.recoverHandler(d); ok {
						rec = "(Some " + h + ")"
					} else {
						rec = "(Some [" + opUnrec(d) + "])"
					}
					list = list[1:]
				}
			}
			body = opList(t.stmts(list, "  "), "  ")
			// Enter does nothing
			if en := funcDecl(f, "Enter", p.ty); en == nil || en.Body == nil || len(en.Body.List) != 0 {
				unrec = append(unrec, p.file+": Enter of "+p.ty+" is not empty")
			}
		}
		fmt.Fprintf(&b, "Definition %s : pass :=\n mkPass %s\n  %s\n  %s.\n\n", p.coq, coqString(p.ty), body, rec)
	}
	b.WriteString("Definition passes : list pass := [")
	for i, p := range opPasses {
		if i > 0 {
			b.WriteString("; ")
		}
		b.WriteString(p.coq)
	}
	b.WriteString("].\n\n")

	b.WriteString("(* optimizer.go: the statements of Optimize *)\n")
	steps := []string{"OUnrecognised " + coqString("optimizer.go: Optimize not found")}
	if fd := funcDecl(parseFile("optimizer/optimizer.go"), "Optimize", ""); fd != nil && fd.Body != nil {
		steps = opOptimize(fd)
	}
	fmt.Fprintf(&b, "Definition optimize_steps : list ostep :=\n %s.\n\n", opList(steps, " "))

	// the primitive the interpreter takes for granted
	if fd := funcDecl(parseFile("ast/node.go"), "Patch", ""); fd == nil || fd.Body == nil ||
		squeeze(src(fd.Type)) != "func(node *Node, newNode Node)" {
		unrec = append(unrec, "ast/node.go: Patch not found")
	} else {
		var parts []string
		for _, s := range fd.Body.List {
			parts = append(parts, src(s))
		}
		if squeeze(strings.Join(parts, " ")) != opExpectedPatch {
			unrec = append(unrec, pos(fd)+": Patch is not the expected text")
		}
	}
	b.WriteString("(* primitives whose text is not the one the interpreter was written against *)\n")
	b.WriteString("Definition genopt_unrecognised : list string := [")
	for i, u := range unrec {
		if i > 0 {
			b.WriteString("; ")
		}
		b.WriteString(coqString(u))
	}
	b.WriteString("].\n")
	writeIfChanged("GenOpt.v", b.String())
}

func init() { generators = append(generators, genOpt) }

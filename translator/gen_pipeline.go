package main

import (
	"fmt"
	"go/ast"
	"go/token"
	"sort"
	"strings"
)

func init() { generators = append(generators, genPipeline) }

// genPipeline reads the API functions of expr.go and the stage functions they call and writes
// coq/gen/GenPipeline.v (property C04, also used by C02):
//
//	(a) gen_compile_calls / gen_eval_calls / gen_run_calls: the stage calls inside expr.Compile,
//	    expr.Eval, expr.Run in source order, each as (callee, context, error handling):
//	      callee   package-qualified function, or Type.Method for a call on a local variable whose
//	               type is visible (`config := &conf.Config{..}` -> conf.Config.Check), or the name of
//	               a function-typed loop variable (`op(config)` -> "op");
//	      context  the enclosing `range X` / `if C` headers, outermost first, joined by "; ";
//	      error    the condition of the `if .. { .. return .. }` that follows the call (or of the
//	               `if` whose init statement is the call) when that block ends in a return: the
//	               condition under which the stage's failure leaves the function; "" when the call
//	               has no such test; "delegate" for `return f(..)`.
//	    A call through a helper declared in expr.go itself is followed into the helper (its calls
//	    get the context "in <helper>[ recover]").
//	(b) gen_recover: for every function of the pipeline whether its body installs
//	    `defer func() { .. recover() .. }()` as a top-level statement, with the position of the
//	    defer among the statements and what the handler assigns / calls.
//	(c) gen_returns: every return statement of Compile / Eval / Run / vm.Run classified as
//	    ok (error result is the literal nil), err (anything else) or delegate, with the text of the
//	    result that accompanies it; named results of compiler.Compile and (*VM).Run: whether the
//	    result variable is assigned only by the last statement before the final return.
//	(d) gen_optimize_passes: the passes of optimizer.Optimize with their loop bounds.
//
// Shapes that are not recognised are listed in pipeline_unrecognised (the bridge lemma of C04
// demands the empty list).
type pipeCall struct{ callee, ctx, errc string }

var pipeIgnorePkgs = map[string]bool{"fmt": true, "reflect": true, "errors": true, "strings": true, "math": true, "sort": true}
var pipeBuiltins = map[string]bool{"len": true, "make": true, "append": true, "cap": true, "panic": true, "recover": true, "new": true, "copy": true, "delete": true}

func squeeze(s string) string { return strings.Join(strings.Fields(s), " ") }

type pipeScan struct {
	pkg     string            // package name of the file being scanned
	file    *ast.File         // for helpers declared in the same file
	locals  map[string]string // local variable -> Type (pkg-qualified)
	calls   []pipeCall
	returns [][3]string // (class, accompanying result text, error result text)
	unrec   *[]string
	depth   int
}

func (p *pipeScan) bad(n ast.Node, format string, a ...interface{}) {
	*p.unrec = append(*p.unrec, pos(n)+": "+fmt.Sprintf(format, a...))
}

// typeName: &pkg.T{..} / pkg.T{..} / T{..}
func (p *pipeScan) typeName(e ast.Expr) string {
	switch v := e.(type) {
	case *ast.UnaryExpr:
		if v.Op == token.AND {
			return p.typeName(v.X)
		}
	case *ast.CompositeLit:
		switch t := v.Type.(type) {
		case *ast.SelectorExpr:
			return src(t)
		case *ast.Ident:
			return p.pkg + "." + t.Name
		}
	}
	return ""
}

func (p *pipeScan) calleeName(c *ast.CallExpr) (string, bool) {
	switch f := c.Fun.(type) {
	case *ast.SelectorExpr:
		x, ok := f.X.(*ast.Ident)
		if !ok {
			return squeeze(src(c.Fun)), true
		}
		if pipeIgnorePkgs[x.Name] {
			return "", false
		}
		if t, ok := p.locals[x.Name]; ok && t != "" {
			return t + "." + f.Sel.Name, true
		}
		return x.Name + "." + f.Sel.Name, true
	case *ast.Ident:
		if pipeBuiltins[f.Name] {
			return "", false
		}
		if f.Obj != nil && f.Obj.Kind == ast.Typ {
			return "", false
		}
		return f.Name, true
	}
	return "", false
}

// findCalls: the stage calls directly inside an expression (not inside function literals), outermost last
func (p *pipeScan) findCalls(e ast.Node) []*ast.CallExpr {
	var out []*ast.CallExpr
	ast.Inspect(e, func(n ast.Node) bool {
		switch v := n.(type) {
		case *ast.FuncLit:
			return false
		case *ast.CallExpr:
			if _, ok := p.calleeName(v); ok {
				out = append(out, v)
			}
		}
		return true
	})
	return out
}

func mentionsErr(e ast.Expr) bool {
	found := false
	ast.Inspect(e, func(n ast.Node) bool {
		if id, ok := n.(*ast.Ident); ok && id.Name == "err" {
			found = true
		}
		return true
	})
	return found
}

func endsInReturn(b *ast.BlockStmt) bool {
	if b == nil || len(b.List) == 0 {
		return false
	}
	_, ok := b.List[len(b.List)-1].(*ast.ReturnStmt)
	return ok
}

func (p *pipeScan) record(c *ast.CallExpr, ctx []string, errc string) {
	name, _ := p.calleeName(c)
	// a helper declared in the same file: follow it
	if id, ok := c.Fun.(*ast.Ident); ok && p.depth == 0 {
		if fd := funcDecl(p.file, id.Name, ""); fd != nil && fd.Body != nil {
			tag := "in " + id.Name
			if has, _, _ := hasRecover(fd); has {
				tag += " recover"
			}
			sub := &pipeScan{pkg: p.pkg, file: p.file, locals: map[string]string{}, unrec: p.unrec, depth: 1}
			sub.block(fd.Body.List, append(append([]string{}, ctx...), tag))
			for _, sc := range sub.calls {
				if sc.errc == "" {
					sc.errc = errc
				}
				p.calls = append(p.calls, sc)
			}
			return
		}
	}
	p.calls = append(p.calls, pipeCall{name, strings.Join(ctx, "; "), errc})
}

func (p *pipeScan) block(stmts []ast.Stmt, ctx []string) {
	for i, st := range stmts {
		// error test that follows this statement
		follow := ""
		if i+1 < len(stmts) {
			if is, ok := stmts[i+1].(*ast.IfStmt); ok && is.Init == nil && mentionsErr(is.Cond) {
				if endsInReturn(is.Body) {
					follow = squeeze(src(is.Cond))
				} else {
					follow = "?"
				}
			}
		}
		switch s := st.(type) {
		case *ast.AssignStmt:
			if s.Tok == token.DEFINE && len(s.Lhs) == 1 && len(s.Rhs) == 1 {
				if id, ok := s.Lhs[0].(*ast.Ident); ok {
					if t := p.typeName(s.Rhs[0]); t != "" {
						p.locals[id.Name] = t
					}
				}
			}
			for _, r := range s.Rhs {
				for _, c := range p.findCalls(r) {
					p.record(c, ctx, follow)
				}
			}
		case *ast.ExprStmt:
			for _, c := range p.findCalls(s.X) {
				p.record(c, ctx, follow)
			}
		case *ast.DeclStmt, *ast.DeferStmt, *ast.EmptyStmt:
			// no stage calls
		case *ast.RangeStmt:
			p.block(s.Body.List, append(append([]string{}, ctx...), "range "+squeeze(src(s.X))))
		case *ast.ForStmt:
			hdr := "for"
			if s.Cond != nil {
				hdr += " " + squeeze(src(s.Cond))
			}
			p.block(s.Body.List, append(append([]string{}, ctx...), hdr))
		case *ast.IfStmt:
			cond := squeeze(src(s.Cond))
			if s.Init != nil {
				errc := ""
				if mentionsErr(s.Cond) {
					if endsInReturn(s.Body) {
						errc = cond
					} else {
						errc = "?"
					}
				}
				for _, c := range p.findCalls(s.Init) {
					p.record(c, ctx, errc)
				}
			}
			for _, c := range p.findCalls(s.Cond) {
				p.record(c, ctx, "")
			}
			p.block(s.Body.List, append(append([]string{}, ctx...), "if "+cond))
			switch e := s.Else.(type) {
			case *ast.BlockStmt:
				p.block(e.List, append(append([]string{}, ctx...), "else "+cond))
			case *ast.IfStmt:
				p.block([]ast.Stmt{e}, append(append([]string{}, ctx...), "else "+cond))
			}
		case *ast.ReturnStmt:
			switch len(s.Results) {
			case 0:
				p.returns = append(p.returns, [3]string{"bare", "", ""})
			case 1:
				if c, ok := s.Results[0].(*ast.CallExpr); ok {
					name, _ := p.calleeName(c)
					p.calls = append(p.calls, pipeCall{name, strings.Join(ctx, "; "), "delegate"})
					p.returns = append(p.returns, [3]string{"delegate", name, ""})
				} else {
					p.bad(s, "return with one result that is not a call")
				}
			case 2:
				a, e := squeeze(src(s.Results[0])), squeeze(src(s.Results[1]))
				if e == "nil" {
					p.returns = append(p.returns, [3]string{"ok", a, e})
				} else {
					p.returns = append(p.returns, [3]string{"err", a, e})
				}
			default:
				p.bad(s, "return with %d results", len(s.Results))
			}
		case *ast.BlockStmt:
			p.block(s.List, ctx)
		case *ast.SwitchStmt, *ast.TypeSwitchStmt, *ast.SelectStmt, *ast.GoStmt, *ast.LabeledStmt, *ast.BranchStmt, *ast.IncDecStmt, *ast.SendStmt:
			p.bad(st, "statement kind not expected in an API function: %T", st)
		default:
			p.bad(st, "statement kind %T", st)
		}
	}
}

// hasRecover: a top-level `defer func() { .. recover() .. }()`; returns its index among the
// statements and what the handler does with the recovered value.
func hasRecover(fd *ast.FuncDecl) (bool, int, string) {
	if fd == nil || fd.Body == nil {
		return false, 0, ""
	}
	for i, st := range fd.Body.List {
		ds, ok := st.(*ast.DeferStmt)
		if !ok {
			continue
		}
		fl, ok := ds.Call.Fun.(*ast.FuncLit)
		if !ok {
			continue
		}
		found := false
		var acts []string
		ast.Inspect(fl.Body, func(n ast.Node) bool {
			switch v := n.(type) {
			case *ast.CallExpr:
				if id, ok := v.Fun.(*ast.Ident); ok && id.Name == "recover" {
					found = true
				}
				if id, ok := v.Fun.(*ast.Ident); ok && id.Name == "panic" {
					acts = append(acts, "panic()")
				}
				if se, ok := v.Fun.(*ast.SelectorExpr); ok {
					if x, ok := se.X.(*ast.Ident); ok && !pipeIgnorePkgs[x.Name] && x.Name != "f" {
						acts = append(acts, x.Name+"."+se.Sel.Name+"()")
					}
				}
			case *ast.AssignStmt:
				if v.Tok == token.ASSIGN {
					for _, l := range v.Lhs {
						acts = append(acts, squeeze(src(l)))
					}
				}
			}
			return true
		})
		if found {
			sort.Strings(acts)
			return true, i, strings.Join(acts, ",")
		}
	}
	return false, 0, ""
}

// namedResultAssignedLast: the function has named results; `name` is assigned by exactly one
// top-level statement, which is followed only by a bare return.
func namedResultAssignedLast(fd *ast.FuncDecl, name string) string {
	if fd == nil || fd.Body == nil || fd.Type.Results == nil {
		return "missing"
	}
	named := false
	for _, fl := range fd.Type.Results.List {
		for _, n := range fl.Names {
			if n.Name == name {
				named = true
			}
		}
	}
	if !named {
		return "not-named"
	}
	idx := -1
	count := 0
	for i, st := range fd.Body.List {
		ast.Inspect(st, func(n ast.Node) bool {
			if _, ok := n.(*ast.FuncLit); ok {
				return false
			}
			if as, ok := n.(*ast.AssignStmt); ok {
				for _, l := range as.Lhs {
					if id, ok := l.(*ast.Ident); ok && id.Name == name {
						count++
						idx = i
					}
				}
			}
			return true
		})
	}
	if count == 0 {
		return "never-assigned"
	}
	if count > 1 {
		return "assigned-several-times"
	}
	for _, st := range fd.Body.List[idx+1:] {
		rs, ok := st.(*ast.ReturnStmt)
		if !ok || len(rs.Results) != 0 {
			return "code-after-assignment"
		}
	}
	if idx+1 >= len(fd.Body.List) {
		return "no-return-after-assignment"
	}
	return "assigned-last"
}

func coqTriples(name string, cs []pipeCall) string {
	var b strings.Builder
	fmt.Fprintf(&b, "Definition %s : list (string * string * string) := [", name)
	for i, c := range cs {
		if i > 0 {
			b.WriteString(";")
		}
		fmt.Fprintf(&b, "\n  (%s, %s, %s)", coqString(c.callee), coqString(c.ctx), coqString(c.errc))
	}
	b.WriteString("].\n\n")
	return b.String()
}

func genPipeline() {
	var unrec []string
	var b strings.Builder
	b.WriteString("(* GENERATED by /verif/translator from expr.go, conf/config.go, conf/types_table.go, parser/parser.go,\n   parser/lexer/lexer.go, checker/checker.go, compiler/patcher.go, compiler/compiler.go, ast/visitor.go,\n   optimizer/*.go, vm/vm.go — do not edit *)\n")
	b.WriteString("From Coq Require Import List String Bool.\nImport ListNotations.\nOpen Scope string_scope.\n\n")

	ef := parseFile("expr.go")
	scanAPI := func(f *ast.File, pkg, fn, recv string) *pipeScan {
		p := &pipeScan{pkg: pkg, file: f, locals: map[string]string{}, unrec: &unrec}
		fd := funcDecl(f, fn, recv)
		if fd == nil || fd.Body == nil {
			unrec = append(unrec, pkg+"."+fn+" missing")
			return p
		}
		p.block(fd.Body.List, nil)
		for _, c := range p.calls {
			if c.errc == "?" {
				unrec = append(unrec, pkg+"."+fn+": error test after "+c.callee+" does not end in a return")
			}
		}
		return p
	}

	// ---------------------------------------------------------------- (a) stage calls
	b.WriteString("(* (a) stage calls in source order: (callee, enclosing range/if headers, condition of the error return) *)\n")
	pc := scanAPI(ef, "expr", "Compile", "")
	pe := scanAPI(ef, "expr", "Eval", "")
	pr := scanAPI(ef, "expr", "Run", "")
	vf := parseFile("vm/vm.go")
	pv := scanAPI(vf, "vm", "Run", "")
	b.WriteString(coqTriples("gen_compile_calls", pc.calls))
	b.WriteString(coqTriples("gen_eval_calls", pe.calls))
	b.WriteString(coqTriples("gen_run_calls", pr.calls))
	b.WriteString(coqTriples("gen_vmrun_calls", pv.calls))

	// calls made by the option constructors (closures returned by exported functions of expr.go)
	type optCall struct{ opt, callee string }
	var ocs []optCall
	if ef != nil {
		for _, d := range ef.Decls {
			fd, ok := d.(*ast.FuncDecl)
			if !ok || fd.Recv != nil || fd.Body == nil || fd.Type.Results == nil || len(fd.Type.Results.List) != 1 {
				continue
			}
			if squeeze(src(fd.Type.Results.List[0].Type)) != "Option" {
				continue
			}
			seen := map[string]bool{}
			ast.Inspect(fd.Body, func(n ast.Node) bool {
				c, ok := n.(*ast.CallExpr)
				if !ok {
					return true
				}
				se, ok := c.Fun.(*ast.SelectorExpr)
				if !ok {
					return true
				}
				x, ok := se.X.(*ast.Ident)
				if !ok || pipeIgnorePkgs[x.Name] {
					return true
				}
				name := x.Name + "." + se.Sel.Name
				if x.Name == "c" {
					name = "conf.Config." + se.Sel.Name
				}
				if !seen[name] {
					seen[name] = true
					ocs = append(ocs, optCall{fd.Name.Name, name})
				}
				return true
			})
			if len(seen) == 0 {
				ocs = append(ocs, optCall{fd.Name.Name, ""})
			}
		}
	}
	sort.Slice(ocs, func(i, j int) bool {
		if ocs[i].opt != ocs[j].opt {
			return ocs[i].opt < ocs[j].opt
		}
		return ocs[i].callee < ocs[j].callee
	})
	b.WriteString("(* calls made by the closure of each option constructor (\"\" = none: the option only sets fields) *)\n")
	b.WriteString("Definition gen_option_calls : list (string * string) := [")
	for i, oc := range ocs {
		if i > 0 {
			b.WriteString(";")
		}
		fmt.Fprintf(&b, "\n  (%s, %s)", coqString(oc.opt), coqString(oc.callee))
	}
	b.WriteString("].\n\n")

	// ---------------------------------------------------------------- (b) recover table
	type fnRef struct{ key, file, fn, recv string }
	fns := []fnRef{
		{"expr.Compile", "expr.go", "Compile", ""}, {"expr.Eval", "expr.go", "Eval", ""}, {"expr.Run", "expr.go", "Run", ""},
		{"conf.Config.Check", "conf/config.go", "Check", "Config"}, {"conf.Config.ConstExpr", "conf/config.go", "ConstExpr", "Config"},
		{"conf.CreateTypesTable", "conf/types_table.go", "CreateTypesTable", ""},
		{"parser.Parse", "parser/parser.go", "Parse", ""}, {"lexer.Lex", "parser/lexer/lexer.go", "Lex", ""},
		{"checker.Check", "checker/checker.go", "Check", ""}, {"checker.visitor.visit", "checker/checker.go", "visit", "visitor"},
		{"compiler.PatchOperators", "compiler/patcher.go", "PatchOperators", ""}, {"compiler.operatorPatcher.Exit", "compiler/patcher.go", "Exit", "operatorPatcher"},
		{"ast.Walk", "ast/visitor.go", "Walk", ""}, {"ast.walker.walk", "ast/visitor.go", "walk", "walker"},
		{"optimizer.Optimize", "optimizer/optimizer.go", "Optimize", ""},
		{"optimizer.inArray.Exit", "optimizer/in_array.go", "Exit", "inArray"}, {"optimizer.fold.Exit", "optimizer/fold.go", "Exit", "fold"},
		{"optimizer.constExpr.Exit", "optimizer/const_expr.go", "Exit", "constExpr"},
		{"optimizer.inRange.Exit", "optimizer/in_range.go", "Exit", "inRange"}, {"optimizer.constRange.Exit", "optimizer/const_range.go", "Exit", "constRange"},
		{"compiler.Compile", "compiler/compiler.go", "Compile", ""}, {"compiler.compiler.compile", "compiler/compiler.go", "compile", "compiler"},
		{"vm.Run", "vm/vm.go", "Run", ""}, {"vm.VM.Run", "vm/vm.go", "Run", "VM"},
	}
	sort.Slice(fns, func(i, j int) bool { return fns[i].key < fns[j].key })
	files := map[string]*ast.File{}
	getFile := func(rel string) *ast.File {
		if f, ok := files[rel]; ok {
			return f
		}
		f := parseFile(rel)
		files[rel] = f
		return f
	}
	b.WriteString("(* (b) which functions install `defer func() { .. recover() .. }()` (sorted by name) *)\n")
	b.WriteString("Definition gen_recover : list (string * bool) := [")
	type hnd struct {
		key, acts string
		at        int
	}
	var hs []hnd
	for i, fr := range fns {
		fd := funcDecl(getFile(fr.file), fr.fn, fr.recv)
		if fd == nil {
			unrec = append(unrec, fr.key+" missing in "+fr.file)
		}
		has, at, acts := hasRecover(fd)
		if i > 0 {
			b.WriteString(";")
		}
		fmt.Fprintf(&b, "\n  (%s, %v)", coqString(fr.key), has)
		if has {
			hs = append(hs, hnd{fr.key, acts, at})
		}
	}
	b.WriteString("].\n\n")
	b.WriteString("(* for the recovering ones: index of the defer statement in the body, what the handler assigns / calls *)\n")
	b.WriteString("Definition gen_recover_handlers : list (string * nat * string) := [")
	for i, h := range hs {
		if i > 0 {
			b.WriteString(";")
		}
		fmt.Fprintf(&b, "\n  (%s, %d, %s)", coqString(h.key), h.at, coqString(h.acts))
	}
	b.WriteString("].\n\n")

	// ---------------------------------------------------------------- (c) returns
	b.WriteString("(* (c) return statements: (function, class ok/err/delegate/bare, result that accompanies the error result) *)\n")
	b.WriteString("Definition gen_returns : list (string * string * string) := [")
	first := true
	for _, pp := range []struct {
		key string
		p   *pipeScan
	}{{"expr.Compile", pc}, {"expr.Eval", pe}, {"expr.Run", pr}, {"vm.Run", pv}} {
		for _, r := range pp.p.returns {
			if !first {
				b.WriteString(";")
			}
			first = false
			fmt.Fprintf(&b, "\n  (%s, %s, %s)", coqString(pp.key), coqString(r[0]), coqString(r[1]))
		}
	}
	b.WriteString("].\n\n")
	cf := getFile("compiler/compiler.go")
	b.WriteString("(* named results: the result variable is assigned by one statement, followed only by the final bare return *)\n")
	fmt.Fprintf(&b, "Definition gen_named_results : list (string * string) := [\n  (\"compiler.Compile\", %s);\n  (\"vm.VM.Run\", %s)].\n\n",
		coqString(namedResultAssignedLast(funcDecl(cf, "Compile", ""), "program")),
		coqString(vmRunResultShape(funcDecl(vf, "Run", "VM"))))

	// vm.Run refuses a nil program before the VM (whose recover handler reads program.Locations) sees it
	nilGuard := false
	if fd := funcDecl(vf, "Run", ""); fd != nil && fd.Body != nil && len(fd.Body.List) > 0 {
		if is, ok := fd.Body.List[0].(*ast.IfStmt); ok && squeeze(src(is.Cond)) == "program == nil" && endsInReturn(is.Body) {
			nilGuard = true
		}
	}
	fmt.Fprintf(&b, "Definition gen_run_nil_guard : bool := %v.\n\n", nilGuard)

	// ---------------------------------------------------------------- (d) optimizer passes
	b.WriteString("(* (d) optimizer.Optimize: passes in order, (visitor type, loop bound or \"once\", guard) *)\n")
	type pass struct{ name, loop, guard string }
	var passes []pass
	of := getFile("optimizer/optimizer.go")
	if fd := funcDecl(of, "Optimize", ""); fd != nil && fd.Body != nil {
		var scan func(stmts []ast.Stmt, loop, guard string)
		walkPass := func(c *ast.CallExpr) string {
			if id, ok := c.Fun.(*ast.Ident); !ok || id.Name != "Walk" || len(c.Args) != 2 {
				return ""
			}
			switch a := c.Args[1].(type) {
			case *ast.UnaryExpr:
				if cl, ok := a.X.(*ast.CompositeLit); ok {
					return squeeze(src(cl.Type))
				}
			case *ast.Ident:
				return a.Name
			}
			return "?"
		}
		scan = func(stmts []ast.Stmt, loop, guard string) {
			for _, st := range stmts {
				switch s := st.(type) {
				case *ast.ExprStmt:
					if c, ok := s.X.(*ast.CallExpr); ok {
						if n := walkPass(c); n != "" {
							passes = append(passes, pass{n, loop, guard})
						}
					}
				case *ast.ForStmt:
					hdr := "?"
					if s.Init != nil && s.Cond != nil && s.Post != nil {
						hdr = squeeze(src(s.Init)) + "; " + squeeze(src(s.Cond)) + "; " + squeeze(src(s.Post))
					}
					scan(s.Body.List, hdr, guard)
				case *ast.IfStmt:
					if endsInReturn(s.Body) || (len(s.Body.List) == 1 && isBreak(s.Body.List[0])) {
						continue
					}
					scan(s.Body.List, loop, squeeze(src(s.Cond)))
				case *ast.AssignStmt, *ast.ReturnStmt:
				default:
					unrec = append(unrec, pos(st)+": statement in optimizer.Optimize")
				}
			}
		}
		scan(fd.Body.List, "once", "")
	} else {
		unrec = append(unrec, "optimizer.Optimize missing")
	}
	b.WriteString("Definition gen_optimize_passes : list (string * string * string) := [")
	for i, p := range passes {
		if i > 0 {
			b.WriteString(";")
		}
		fmt.Fprintf(&b, "\n  (%s, %s, %s)", coqString(p.name), coqString(p.loop), coqString(p.guard))
	}
	b.WriteString("].\n\n")

	sort.Strings(unrec)
	b.WriteString("Definition pipeline_unrecognised : list string := [" + quoteList(unrec) + "].\n")
	writeIfChanged("GenPipeline.v", b.String())
}

func isBreak(s ast.Stmt) bool {
	bs, ok := s.(*ast.BranchStmt)
	return ok && bs.Tok == token.BREAK
}

// vmRunResultShape: (*VM).Run has the named results (out, err); every return statement after the
// dispatch loop is `return X, nil`; the deferred handler assigns only err.
func vmRunResultShape(fd *ast.FuncDecl) string {
	if fd == nil || fd.Body == nil || fd.Type.Results == nil {
		return "missing"
	}
	var names []string
	for _, fl := range fd.Type.Results.List {
		for _, n := range fl.Names {
			names = append(names, n.Name)
		}
	}
	if strings.Join(names, ",") != "out,err" {
		return "results " + strings.Join(names, ",")
	}
	bad := ""
	ast.Inspect(fd.Body, func(n ast.Node) bool {
		switch v := n.(type) {
		case *ast.FuncLit:
			return false
		case *ast.ReturnStmt:
			if len(v.Results) != 2 || squeeze(src(v.Results[1])) != "nil" {
				bad = "return shape at " + pos(v)
			}
		case *ast.AssignStmt:
			if v.Tok != token.ASSIGN {
				break // `x, err := ..` inside a case clause declares a new local
			}
			for _, l := range v.Lhs {
				if id, ok := l.(*ast.Ident); ok && (id.Name == "out" || id.Name == "err") {
					bad = "result assigned at " + pos(v)
				}
			}
		}
		return true
	})
	if bad != "" {
		return bad
	}
	return "returns-value-nil-only"
}

package main

func genPipeline() {}

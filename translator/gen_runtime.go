package main

// genRuntime: the helper functions of vm/runtime.go as terms of the DSL of coq/Sem/PrimRules.v
// -> coq/gen/GenRuntime.v.
//
// A syntactic reading, statement by statement and in source order, of the functions named in
// poRuntimeFuncs.  What the reading normalises away: the names of local variables and parameters
// (numbered in order of declaration), comments, layout, the spelling `x++` of an assignment, the
// arguments of a panic message (they must be plain identifiers; the format string is kept), the
// order of the function declarations (the table is in the order of poRuntimeFuncs).
// The operations of package reflect, math.Pow and `equal` (vm/helpers.go) are primitives of the DSL (the meaning of
// `equal` is a parameter of the interpreter: equalSequences, which `equal` itself calls, is read like the others).
// Anything that is not one of the shapes of PrimRules.v becomes `PUnrecognisedS "file:line"` /
// `PUnrecognisedE "file:line"` / `PtUnknown "text"`, which makes `genruntime_recognised` of
// coq/Bridge/BrRuntime.v fail.

import (
	"fmt"
	"go/ast"
	"go/token"
	"sort"
	"strconv"
	"strings"
)

func init() { generators = append(generators, genRuntime) }

var poRuntimeFuncs = []string{
	"fetch", "slice", "FetchFn", "FetchFnNil", "in", "length", "negate", "exponent", "makeRange",
	"toInt", "toInt64", "toFloat64", "isNil", "equalSequences",
}

var poRtTypes = map[string]string{
	"interface{}": "PtIface", "any": "PtIface", "int": "PtInt", "int64": "PtInt64", "float64": "PtFloat64",
	"bool": "PtBool", "string": "PtString", "[]int": "PtInts", "reflect.Value": "PtRv",
}

// reflect.Kind constants that are not numeric kinds
var poRtKinds = map[string]string{
	"Invalid": "KdInvalid", "Bool": "KdBool", "String": "KdString", "Array": "KdArray", "Slice": "KdSlice",
	"Map": "KdMap", "Struct": "KdStruct", "Ptr": "KdPtr", "Pointer": "KdPtr", "Func": "KdFunc",
	"Interface": "KdInterface", "Chan": "KdChan",
}

// methods of reflect.Value / reflect.Type: name -> primitive, number of arguments
var poRtMethods = map[string]struct {
	prim string
	args int
}{
	"Kind": {"RpKind", 0}, "Index": {"RpIndex", 1}, "IsValid": {"RpIsValid", 0}, "CanInterface": {"RpCanInterface", 0},
	"Interface": {"RpInterface", 0}, "MapIndex": {"RpMapIndex", 1}, "Elem": {"RpElem", 0},
	"FieldByName": {"RpFieldByName", 1}, "String": {"RpString", 0}, "Len": {"RpLen", 0}, "Slice": {"RpSlice", 2},
	"IsNil": {"RpIsNil", 0}, "NumMethod": {"RpNumMethod", 0}, "MethodByName": {"RpMethodByName", 1},
}

// package-level functions that are primitives: qualified name -> primitive, number of arguments
var poRtPkgFuncs = map[string]struct {
	prim string
	args int
}{
	"reflect.ValueOf": {"RpValueOf", 1}, "reflect.Indirect": {"RpIndirect", 1}, "reflect.TypeOf": {"RpTypeOf", 1},
	"reflect.Zero": {"RpZero", 1}, "math.Pow": {"RpPow", 2},
}

var poRtBinops = map[token.Token]string{
	token.ADD: "PbAdd", token.SUB: "PbSub", token.EQL: "PbEq", token.NEQ: "PbNe",
	token.LSS: "PbLt", token.LEQ: "PbLe", token.GTR: "PbGt", token.GEQ: "PbGe",
	token.LAND: "PbAnd", token.LOR: "PbOr",
}

type poRtFn struct {
	funcs  map[string]*ast.FuncDecl
	pkgs   map[string]bool
	scopes []map[string]int
	nvars  int
}

func (t *poRtFn) push() { t.scopes = append(t.scopes, map[string]int{}) }
func (t *poRtFn) pop()  { t.scopes = t.scopes[:len(t.scopes)-1] }
func (t *poRtFn) find(name string) (int, bool) {
	for i := len(t.scopes) - 1; i >= 0; i-- {
		if n, ok := t.scopes[i][name]; ok {
			return n, true
		}
	}
	return 0, false
}
func (t *poRtFn) define(name string) int {
	n := t.nvars
	t.nvars++
	t.scopes[len(t.scopes)-1][name] = n
	return n
}

func poRtUnrecE(n ast.Node) string { return "PUnrecognisedE " + coqString(pos(n)) }
func poRtUnrecS(n ast.Node) string { return "PUnrecognisedS " + coqString(pos(n)) }

func poRtTy(e ast.Expr) string {
	txt := poTypeText(e)
	if t, ok := poRtTypes[txt]; ok {
		return t
	}
	return "(PtUnknown " + coqString(txt) + ")"
}

func (t *poRtFn) isPkg(e ast.Expr) (string, bool) {
	id, ok := e.(*ast.Ident)
	if !ok {
		return "", false
	}
	if _, local := t.find(id.Name); local {
		return "", false
	}
	return id.Name, t.pkgs[id.Name]
}

func (t *poRtFn) exps(es []ast.Expr) []string {
	var out []string
	for _, e := range es {
		out = append(out, t.exp(e))
	}
	return out
}

func (t *poRtFn) exp(e ast.Expr) string {
	switch v := e.(type) {
	case *ast.ParenExpr:
		return t.exp(v.X)
	case *ast.Ident:
		if n, ok := t.find(v.Name); ok {
			return fmt.Sprintf("PVar %d", n)
		}
		switch v.Name {
		case "true":
			return "PBoolLit true"
		case "false":
			return "PBoolLit false"
		case "nil":
			return "PNil"
		}
	case *ast.BasicLit:
		switch v.Kind {
		case token.INT:
			if n, err := strconv.ParseInt(v.Value, 0, 64); err == nil {
				return "PConstZ " + poZ(n)
			}
		case token.STRING:
			if s, err := strconv.Unquote(v.Value); err == nil {
				return "PStrLit " + coqString(s)
			}
		}
	case *ast.SelectorExpr:
		if p, isPkg := t.isPkg(v.X); isPkg && p == "reflect" {
			if k, ok := poRtKinds[v.Sel.Name]; ok {
				return "PKindLit " + k
			}
			if k, ok := reflectKindNames[v.Sel.Name]; ok {
				return "PKindLit (KdNum " + k + ")"
			}
		}
	case *ast.UnaryExpr:
		switch v.Op {
		case token.NOT:
			return "PNot " + poParen(t.exp(v.X))
		case token.SUB:
			return "PNeg " + poParen(t.exp(v.X))
		}
	case *ast.BinaryExpr:
		if op, ok := poRtBinops[v.Op]; ok {
			return "PBin " + op + " " + poParen(t.exp(v.X)) + " " + poParen(t.exp(v.Y))
		}
	case *ast.TypeAssertExpr:
		if v.Type != nil && poTypeText(v.Type) == "bool" {
			return "PAssertBool " + poParen(t.exp(v.X))
		}
	case *ast.CompositeLit:
		if v.Type != nil && poTypeText(v.Type) == "[]int" && len(v.Elts) == 0 {
			return "PIntsLit"
		}
	case *ast.IndexExpr:
		return "PIndexE " + poParen(t.exp(v.X)) + " " + poParen(t.exp(v.Index))
	case *ast.CallExpr:
		return t.call(v)
	}
	return poRtUnrecE(e)
}

func (t *poRtFn) call(c *ast.CallExpr) string {
	if c.Ellipsis != token.NoPos {
		return poRtUnrecE(c)
	}
	switch f := c.Fun.(type) {
	case *ast.Ident:
		if _, local := t.find(f.Name); local {
			return poRtUnrecE(c)
		}
		switch f.Name {
		case "int", "int64", "float64":
			if len(c.Args) == 1 {
				return "PConv " + kindNames[f.Name] + " " + poParen(t.exp(c.Args[0]))
			}
		case "make":
			if len(c.Args) == 2 && poTypeText(c.Args[0]) == "[]int" {
				return "PMakeInts " + poParen(t.exp(c.Args[1]))
			}
		case "equal":
			if len(c.Args) == 2 {
				return "PPrim RpEqual " + poFlat(t.exps(c.Args))
			}
		default:
			if fd, ok := t.funcs[f.Name]; ok && fd.Recv == nil {
				return "PCall " + coqString(f.Name) + " " + poFlat(t.exps(c.Args))
			}
		}
	case *ast.SelectorExpr:
		if p, isPkg := t.isPkg(f.X); isPkg {
			if pf, ok := poRtPkgFuncs[p+"."+f.Sel.Name]; ok && pf.args == len(c.Args) {
				return "PPrim " + pf.prim + " " + poFlat(t.exps(c.Args))
			}
			return poRtUnrecE(c)
		}
		if m, ok := poRtMethods[f.Sel.Name]; ok && m.args == len(c.Args) {
			return "PPrim " + m.prim + " " + poFlat(append([]string{t.exp(f.X)}, t.exps(c.Args)...))
		}
	}
	return poRtUnrecE(c)
}

// panic(fmt.Sprintf("...", x, y)) with identifiers as arguments: the format string
func (t *poRtFn) panicFormat(c *ast.CallExpr) (string, bool) {
	id, ok := c.Fun.(*ast.Ident)
	if !ok || id.Name != "panic" || len(c.Args) != 1 {
		return "", false
	}
	if _, local := t.find("panic"); local {
		return "", false
	}
	sp, ok := c.Args[0].(*ast.CallExpr)
	if !ok {
		return "", false
	}
	se, ok := sp.Fun.(*ast.SelectorExpr)
	if !ok || se.Sel.Name != "Sprintf" || len(sp.Args) < 1 {
		return "", false
	}
	if p, isPkg := t.isPkg(se.X); !isPkg || p != "fmt" {
		return "", false
	}
	lit, ok := sp.Args[0].(*ast.BasicLit)
	if !ok || lit.Kind != token.STRING {
		return "", false
	}
	s, err := strconv.Unquote(lit.Value)
	if err != nil {
		return "", false
	}
	for _, a := range sp.Args[1:] {
		aid, ok := a.(*ast.Ident)
		if !ok {
			return "", false
		}
		if _, local := t.find(aid.Name); !local {
			return "", false
		}
	}
	return s, true
}

func (t *poRtFn) lhs(e ast.Expr) (string, bool) {
	switch v := e.(type) {
	case *ast.Ident:
		if v.Name == "_" {
			return "PLBlank", true
		}
		if n, ok := t.find(v.Name); ok {
			return fmt.Sprintf("PLVar %d", n), true
		}
	case *ast.IndexExpr:
		if id, ok := v.X.(*ast.Ident); ok {
			if n, ok := t.find(id.Name); ok {
				return fmt.Sprintf("PLIndex %d %s", n, poParen(t.exp(v.Index))), true
			}
		}
	}
	return "", false
}

func (t *poRtFn) block(list []ast.Stmt, ind string) string {
	t.push()
	defer t.pop()
	return t.stmts(list, ind)
}

func (t *poRtFn) stmts(list []ast.Stmt, ind string) string {
	var items []string
	for _, s := range list {
		items = append(items, t.stmt(s, ind+" "))
	}
	return poList(items, ind)
}

func (t *poRtFn) simple(s ast.Stmt, ind string) string {
	if s == nil {
		return "[]"
	}
	return "[" + t.stmt(s, ind+" ") + "]"
}

func (t *poRtFn) stmt(s ast.Stmt, ind string) string {
	switch v := s.(type) {
	case *ast.ExprStmt:
		if c, ok := v.X.(*ast.CallExpr); ok {
			if m, ok := t.panicFormat(c); ok {
				return "PPanic " + coqString(m)
			}
			return "PExpr " + poParen(t.call(c))
		}
	case *ast.IncDecStmt:
		l, ok := t.lhs(v.X)
		if !ok || l == "PLBlank" {
			break
		}
		op := "PbAdd"
		if v.Tok == token.DEC {
			op = "PbSub"
		}
		return "PAssign [" + l + "] [PBin " + op + " " + poParen(t.exp(v.X)) + " (PConstZ 1)]"
	case *ast.AssignStmt:
		if (v.Tok != token.ASSIGN && v.Tok != token.DEFINE) || len(v.Lhs) != len(v.Rhs) {
			break
		}
		rs := t.exps(v.Rhs)
		var ls []string
		for _, le := range v.Lhs {
			if v.Tok == token.DEFINE {
				id, ok := le.(*ast.Ident)
				if !ok {
					return poRtUnrecS(s)
				}
				if id.Name == "_" {
					ls = append(ls, "PLBlank")
					continue
				}
				n, here := t.scopes[len(t.scopes)-1][id.Name]
				if !here {
					n = t.define(id.Name)
				}
				ls = append(ls, fmt.Sprintf("PLVar %d", n))
				continue
			}
			l, ok := t.lhs(le)
			if !ok {
				return poRtUnrecS(s)
			}
			ls = append(ls, l)
		}
		return "PAssign " + poFlat(ls) + " " + poFlat(rs)
	case *ast.IfStmt:
		t.push()
		defer t.pop()
		init := t.simple(v.Init, ind+"   ")
		cond := t.exp(v.Cond)
		a := t.block(v.Body.List, ind+"   ")
		b := "[]"
		switch e := v.Else.(type) {
		case nil:
		case *ast.BlockStmt:
			b = t.block(e.List, ind+"   ")
		case *ast.IfStmt:
			b = "[" + t.stmt(e, ind+"    ") + "]"
		default:
			b = "[" + poRtUnrecS(v.Else) + "]"
		}
		return "PIf " + init + " " + poParen(cond) + "\n" + ind + "   " + a + "\n" + ind + "   " + b
	case *ast.ForStmt:
		t.push()
		defer t.pop()
		init := t.simple(v.Init, ind+"   ")
		cond := "None"
		if v.Cond != nil {
			cond = "(Some " + poParen(t.exp(v.Cond)) + ")"
		}
		post := t.simple(v.Post, ind+"   ")
		body := t.block(v.Body.List, ind+"   ")
		return "PFor " + init + " " + cond + " " + post + "\n" + ind + "   " + body
	case *ast.RangeStmt:
		// for i := range xs
		if v.Tok != token.DEFINE || v.Value != nil || v.Key == nil {
			break
		}
		id, ok := v.Key.(*ast.Ident)
		if !ok {
			break
		}
		x := t.exp(v.X)
		t.push()
		defer t.pop()
		k := "PLBlank"
		if id.Name != "_" {
			k = fmt.Sprintf("PLVar %d", t.define(id.Name))
		}
		body := t.block(v.Body.List, ind+"   ")
		return "PRangeIdx " + poParen(k) + " " + poParen(x) + "\n" + ind + "   " + body
	case *ast.SwitchStmt:
		if v.Init != nil || v.Tag == nil {
			break
		}
		tag := t.exp(v.Tag)
		var cases []string
		dflt := "[]"
		seenDefault := false
		for _, cc := range v.Body.List {
			c := cc.(*ast.CaseClause)
			body := t.block(c.Body, ind+"      ")
			if c.List == nil {
				if seenDefault {
					return poRtUnrecS(s)
				}
				seenDefault = true
				dflt = body
				continue
			}
			if seenDefault {
				return poRtUnrecS(c) // a case after default: the order of the tests would matter
			}
			cases = append(cases, "("+poFlat(t.exps(c.List))+",\n"+ind+"      "+body+")")
		}
		return "PSwitch " + poParen(tag) + "\n" + ind + "   " + poList(cases, ind+"   ") + "\n" + ind + "   " + dflt
	case *ast.TypeSwitchStmt:
		if v.Init != nil {
			break
		}
		var x ast.Expr
		bind := "None"
		t.push()
		defer t.pop()
		switch a := v.Assign.(type) {
		case *ast.AssignStmt:
			if len(a.Lhs) == 1 && len(a.Rhs) == 1 && a.Tok == token.DEFINE {
				if ta, ok := a.Rhs[0].(*ast.TypeAssertExpr); ok && ta.Type == nil {
					if id, ok := a.Lhs[0].(*ast.Ident); ok {
						x = ta.X
						bind = fmt.Sprintf("(Some %d%%nat)", t.define(id.Name))
					}
				}
			}
		case *ast.ExprStmt:
			if ta, ok := a.X.(*ast.TypeAssertExpr); ok && ta.Type == nil {
				x = ta.X
			}
		}
		if x == nil {
			break
		}
		// the switched expression does not see the bound variable
		var xs string
		if bind != "None" {
			saved := t.scopes[len(t.scopes)-1]
			t.scopes[len(t.scopes)-1] = map[string]int{}
			xs = t.exp(x)
			t.scopes[len(t.scopes)-1] = saved
		} else {
			xs = t.exp(x)
		}
		var cases []string
		dflt := "[]"
		seenDefault := false
		for _, cc := range v.Body.List {
			c := cc.(*ast.CaseClause)
			body := t.block(c.Body, ind+"      ")
			if c.List == nil {
				if seenDefault {
					return poRtUnrecS(s)
				}
				seenDefault = true
				dflt = body
				continue
			}
			if len(c.List) != 1 {
				return poRtUnrecS(c) // several types in one clause: the bound variable keeps the interface type
			}
			k, ok := kindNames[poTypeText(c.List[0])]
			if !ok {
				return poRtUnrecS(c)
			}
			cases = append(cases, "(["+k+"],\n"+ind+"      "+body+")")
		}
		return "PTypeSwitch " + bind + " " + poParen(xs) + "\n" + ind + "   " + poList(cases, ind+"   ") + "\n" + ind + "   " + dflt
	case *ast.ReturnStmt:
		return "PReturn " + poFlat(t.exps(v.Results))
	}
	return poRtUnrecS(s)
}

func genRuntime() {
	f := parseFile("vm/runtime.go")
	var unrec, notRead []string
	funcs := map[string]*ast.FuncDecl{}
	pkgs := map[string]bool{}
	wanted := map[string]bool{}
	for _, n := range poRuntimeFuncs {
		wanted[n] = true
	}
	if f == nil {
		unrec = append(unrec, "cannot parse vm/runtime.go")
	} else {
		for _, im := range f.Imports {
			ip, err := strconv.Unquote(im.Path.Value)
			if err != nil {
				continue
			}
			local := ip[strings.LastIndex(ip, "/")+1:]
			if im.Name != nil {
				local = im.Name.Name
			}
			pkgs[local] = true
		}
		for _, d := range f.Decls {
			fd, ok := d.(*ast.FuncDecl)
			if !ok {
				continue
			}
			if fd.Recv != nil || !wanted[fd.Name.Name] {
				notRead = append(notRead, fd.Name.Name)
				continue
			}
			if _, dup := funcs[fd.Name.Name]; dup || fd.Body == nil {
				unrec = append(unrec, pos(fd)+": function "+fd.Name.Name)
				continue
			}
			funcs[fd.Name.Name] = fd
		}
	}
	sort.Strings(notRead)

	var b strings.Builder
	b.WriteString("(* GENERATED by /verif/translator from vm/runtime.go — do not edit *)\n")
	b.WriteString("From Coq Require Import ZArith List String.\nRequire Import X.Base.Num X.Base.Value X.Sem.PrimRules.\nImport ListNotations.\nOpen Scope string_scope.\nOpen Scope Z_scope.\n\n")
	b.WriteString("(* one DSL term (coq/Sem/PrimRules.v) per function: the statements in source order *)\n")
	var names []string
	for _, n := range poRuntimeFuncs {
		fd, ok := funcs[n]
		if !ok {
			unrec = append(unrec, "missing function "+n)
			continue
		}
		t := &poRtFn{funcs: funcs, pkgs: pkgs}
		t.push()
		var params, results []string
		bad := ""
		if fd.Type.Params != nil {
			for _, fl := range fd.Type.Params.List {
				if len(fl.Names) == 0 {
					bad = pos(fd) + ": unnamed parameter"
				}
				for _, nm := range fl.Names {
					t.define(nm.Name)
					params = append(params, poRtTy(fl.Type))
				}
			}
		}
		if fd.Type.Results != nil {
			for _, fl := range fd.Type.Results.List {
				if len(fl.Names) != 0 {
					bad = pos(fd) + ": named results"
				}
				results = append(results, poRtTy(fl.Type))
			}
		}
		fixed := t.nvars
		body := ""
		if bad != "" {
			body = "[PUnrecognisedS " + coqString(bad) + "]"
		} else {
			body = t.stmts(fd.Body.List, "    ")
		}
		fmt.Fprintf(&b, "Definition rt_%s : pfdef :=\n  mkPFn %s %s %d %s\n    %s.\n\n",
			n, coqString(n), poFlat(params), t.nvars-fixed, poFlat(results), body)
		names = append(names, "rt_"+n)
	}
	b.WriteString("Definition runtime_funs : list pfdef :=\n  [" + strings.Join(names, "; ") + "].\n\n")
	b.WriteString("(* functions of vm/runtime.go that are not read *)\nDefinition genruntime_not_read : list string :=\n  [")
	for i, n := range notRead {
		if i > 0 {
			b.WriteString("; ")
		}
		b.WriteString(coqString(n))
	}
	b.WriteString("].\n\n")
	b.WriteString("Definition genruntime_unrecognised : list string :=\n  [")
	for i, u := range unrec {
		if i > 0 {
			b.WriteString(";\n   ")
		}
		b.WriteString(coqString(u))
	}
	b.WriteString("].\n")
	writeIfChanged("GenRuntime.v", b.String())
}

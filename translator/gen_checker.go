package main

// genChecker: the type checker of checker/checker.go and the type predicates of checker/types.go
// as terms of the DSL of coq/Ty/CheckRules.v -> coq/gen/GenChecker.v.
//
// A syntactic reading, statement by statement and in source order, of
//   - every method of *visitor that `visit` dispatches to (NilNode ... PairNode), of checkFunc and
//     of error (Go statement -> stmt, Go expression -> gexp),
//   - the dispatch of `visit` (type switch -> table node kind -> method; the two statements after
//     the switch must be `node.SetType(t)` and `return t`),
//   - Check (the construction of the visitor is a fixed shape; the statements after it are read
//     like a method body),
//   - the functions of types.go: isInterface ... isFunc, isComparable, indexType, isFuncType are read
//     like method bodies; `dereference` is a fixed shape (it is the one recursive function);
//     isIntegerOrArithmeticOperation / setTypeForIntegers are read as tables node kind -> operators;
//     the package-level reflect.Type variables are read as a table name -> type.
// The reading assigns no meaning: the interpreter of coq/Ty/CheckRules.v does, and
// coq/Bridge/BrChecker.v proves that what it computes is the hand-written checker Ty/Checker.v.
// fieldType, methodType (C16's model Ty/TypesTable.v), typeWeight/combined (gen/GenWeights.v) and
// conf.FindSuitableOperatorOverload are calls whose meaning the interpreter takes from the model.
//
// What the reading normalises away: names of local variables, parameters and of the receiver (a
// variable is numbered in order of definition within its function), comments, layout, the TEXT of
// error messages (a message is reduced to its family, the classification the correspondence harness
// uses; an unknown format is unrecognised).  Anything outside the shapes below becomes
// `SBad "file:line"` / `GBad "file:line"`, which makes `genchecker_recognised` fail.

import (
	"fmt"
	"go/ast"
	"go/token"
	"regexp"
	"sort"
	"strconv"
	"strings"
)

func init() { generators = append(generators, genChecker) }

// ------------------------------------------------------------------ error families
var pmErrFamilies = []struct {
	re  *regexp.Regexp
	cls string
}{
	{regexp.MustCompile(`^ambiguous identifier`), "CAmbiguous"},
	{regexp.MustCompile(`^unknown name`), "CUnknownName"},
	{regexp.MustCompile(`^unknown operator`), "CUnknownOp"},
	{regexp.MustCompile(`^invalid operation: matches \(mismatched types`), "CMatches"},
	{regexp.MustCompile(`^invalid operation: .* \(mismatched types .* and `), "CMismatch2"},
	{regexp.MustCompile(`^invalid operation: .* \(mismatched type `), "CMismatch1"},
	{regexp.MustCompile(`^type .* has no field`), "CNoField"},
	{regexp.MustCompile(`^invalid operation: cannot use .* as index to`), "CBadIndex"},
	{regexp.MustCompile(`does not support indexing$`), "CNotIndexable"},
	{regexp.MustCompile(`^invalid operation: non-integer slice index`), "CSliceIndex"},
	{regexp.MustCompile(`^invalid operation: cannot slice`), "CCannotSlice"},
	{regexp.MustCompile(`^unknown func`), "CUnknownFunc"},
	{regexp.MustCompile(`^type .* has no method`), "CNoMethod"},
	{regexp.MustCompile(`doesn't return value$`), "CNoReturn"},
	{regexp.MustCompile(`returns more then one value$`), "CManyReturns"},
	{regexp.MustCompile(`^too many arguments`), "CTooMany"},
	{regexp.MustCompile(`^not enough arguments`), "CTooFew"},
	{regexp.MustCompile(`^cannot use .* as argument`), "CArgType"},
	{regexp.MustCompile(`^invalid argument for len`), "CLenArg"},
	{regexp.MustCompile(`takes only array`), "CNotArray"},
	{regexp.MustCompile(`^closure should return boolean`), "CClosureBool"},
	{regexp.MustCompile(`^closure should has one input`), "CClosureShape"},
	{regexp.MustCompile(`^unknown builtin`), "CUnknownBuiltin"},
	{regexp.MustCompile(`^cannot use pointer accessor outside closure`), "CPointerOutside"},
	{regexp.MustCompile(`^cannot use .* as array$`), "CPointerNotArray"},
	{regexp.MustCompile(`^non-bool expression`), "CNonBoolCond"},
	{regexp.MustCompile(`^expected .*, but got`), "CExpect"},
}

func pmErrFamily(format string) string {
	for _, f := range pmErrFamilies {
		if f.re.MatchString(format) {
			return f.cls
		}
	}
	return ""
}

// reflect.Kind constants -> the model's rkind (Ty fragment); kinds the fragment has no type of
var pmKinds = map[string]string{
	"Invalid": "(GK RKInvalid)", "Bool": "(GK RKBool)", "String": "(GK RKString)", "Interface": "(GK RKInterface)",
	"Slice": "(GK RKSlice)", "Map": "(GK RKMap)", "Struct": "(GK RKStruct)", "Ptr": "(GK RKPtr)", "Pointer": "(GK RKPtr)",
	"Func": "(GK RKFunc)",
	"Array": "(GKAbsent \"Array\")", "Chan": "(GKAbsent \"Chan\")", "Uintptr": "(GKAbsent \"Uintptr\")",
	"Complex64": "(GKAbsent \"Complex64\")", "Complex128": "(GKAbsent \"Complex128\")",
	"UnsafePointer": "(GKAbsent \"UnsafePointer\")",
}

func pmKind(name string) (string, bool) {
	if k, ok := reflectKindNames[name]; ok {
		return "(GK (RKNum " + k + "))", true
	}
	k, ok := pmKinds[name]
	return k, ok
}

var pmNodeKinds = map[string]string{
	"NilNode": "NkNil", "IdentifierNode": "NkIdentifier", "IntegerNode": "NkInteger", "FloatNode": "NkFloat",
	"BoolNode": "NkBool", "StringNode": "NkString", "ConstantNode": "NkConstant", "UnaryNode": "NkUnary",
	"BinaryNode": "NkBinary", "MatchesNode": "NkMatches", "PropertyNode": "NkProperty", "IndexNode": "NkIndex",
	"SliceNode": "NkSlice", "MethodNode": "NkMethod", "FunctionNode": "NkFunction", "BuiltinNode": "NkBuiltin",
	"ClosureNode": "NkClosure", "PointerNode": "NkPointer", "ConditionalNode": "NkConditional",
	"ArrayNode": "NkArray", "MapNode": "NkMap", "PairNode": "NkPair",
}
var pmNodeOrder = []string{"NilNode", "IdentifierNode", "IntegerNode", "FloatNode", "BoolNode", "StringNode",
	"ConstantNode", "UnaryNode", "BinaryNode", "MatchesNode", "PropertyNode", "IndexNode", "SliceNode", "MethodNode",
	"FunctionNode", "BuiltinNode", "ClosureNode", "PointerNode", "ConditionalNode", "ArrayNode", "MapNode", "PairNode"}

// ------------------------------------------------------------------ one function being read
type pmFn struct {
	recv    string // receiver name ("" for a plain function)
	scopes  []map[string]int
	next    int
	tyConst map[string]bool // package-level reflect.Type variables
	unrec   *[]string
}

func (t *pmFn) push() { t.scopes = append(t.scopes, map[string]int{}) }
func (t *pmFn) pop()  { t.scopes = t.scopes[:len(t.scopes)-1] }

func (t *pmFn) find(name string) (int, bool) {
	for i := len(t.scopes) - 1; i >= 0; i-- {
		if n, ok := t.scopes[i][name]; ok {
			return n, true
		}
	}
	return 0, false
}

// a new variable in the innermost scope, numbered in order of definition within the function
func (t *pmFn) define(name string) int {
	n := t.next
	t.next++
	if name != "_" && name != "" {
		t.scopes[len(t.scopes)-1][name] = n
	}
	return n
}

func (t *pmFn) bad(n ast.Node) string {
	*t.unrec = append(*t.unrec, pos(n))
	return coqString(pos(n))
}
func (t *pmFn) gbad(n ast.Node) string { return "(GBad " + t.bad(n) + ")" }
func (t *pmFn) sbad(n ast.Node) string { return "SBad " + t.bad(n) }

func pmBool(b bool) string {
	if b {
		return "true"
	}
	return "false"
}

func pmList(parts []string) string { return "[" + strings.Join(parts, "; ") + "]" }

var pmBin = map[token.Token]string{
	token.LAND: "GoAnd", token.LOR: "GoOr", token.EQL: "GoEq", token.NEQ: "GoNe", token.LSS: "GoLt",
	token.LEQ: "GoLe", token.GTR: "GoGt", token.GEQ: "GoGe", token.ADD: "GoAdd", token.SUB: "GoSub",
}

func (t *pmFn) exprs(es []ast.Expr) string {
	parts := make([]string, len(es))
	for i, e := range es {
		parts[i] = t.expr(e)
	}
	return pmList(parts)
}

func pmIsIdent(e ast.Expr, name string) bool {
	id, ok := e.(*ast.Ident)
	return ok && id.Name == name
}

// v.visit(n): the visited node expression, or nil
func (t *pmFn) visitCall(e ast.Expr) ast.Expr {
	c, ok := e.(*ast.CallExpr)
	if !ok || len(c.Args) != 1 {
		return nil
	}
	s, ok := c.Fun.(*ast.SelectorExpr)
	if !ok || t.recv == "" || !pmIsIdent(s.X, t.recv) || s.Sel.Name != "visit" {
		return nil
	}
	return c.Args[0]
}

// v.<m>(args): a call of another method of the visitor
func (t *pmFn) selfCall(e ast.Expr) (string, []ast.Expr, bool) {
	c, ok := e.(*ast.CallExpr)
	if !ok {
		return "", nil, false
	}
	s, ok := c.Fun.(*ast.SelectorExpr)
	if !ok || t.recv == "" || !pmIsIdent(s.X, t.recv) {
		return "", nil, false
	}
	return s.Sel.Name, c.Args, true
}

func (t *pmFn) expr(e ast.Expr) string {
	switch x := e.(type) {
	case *ast.ParenExpr:
		return t.expr(x.X)
	case *ast.Ident:
		if n, ok := t.find(x.Name); ok {
			return fmt.Sprintf("(GVar %d)", n)
		}
		switch {
		case x.Name == "true":
			return "(GBool true)"
		case x.Name == "false":
			return "(GBool false)"
		case x.Name == "nil":
			return "GNil"
		case t.tyConst[x.Name]:
			return "(GTyConst " + coqString(x.Name) + ")"
		}
	case *ast.BasicLit:
		switch x.Kind {
		case token.INT:
			if n, err := strconv.ParseInt(x.Value, 0, 64); err == nil {
				return fmt.Sprintf("(GInt %d%%Z)", n)
			}
		case token.STRING:
			if s, err := strconv.Unquote(x.Value); err == nil {
				return "(GStr " + coqString(s) + ")"
			}
		}
	case *ast.UnaryExpr:
		switch x.Op {
		case token.NOT:
			return "(GNot " + t.expr(x.X) + ")"
		case token.SUB:
			return "(GBin GoSub (GInt 0%Z) " + t.expr(x.X) + ")"
		}
	case *ast.BinaryExpr:
		if op, ok := pmBin[x.Op]; ok {
			return "(GBin " + op + " " + t.expr(x.X) + " " + t.expr(x.Y) + ")"
		}
	case *ast.SelectorExpr:
		if id, ok := x.X.(*ast.Ident); ok {
			if _, local := t.find(id.Name); !local {
				if t.recv != "" && id.Name == t.recv {
					return "(GVis " + coqString(x.Sel.Name) + ")"
				}
				if id.Name == "reflect" {
					if k, ok := pmKind(x.Sel.Name); ok {
						return "(GKind " + k + ")"
					}
				}
				break
			}
		}
		return "(GSel " + t.expr(x.X) + " " + coqString(x.Sel.Name) + ")"
	case *ast.IndexExpr:
		return "(GIndex " + t.expr(x.X) + " " + t.expr(x.Index) + ")"
	case *ast.CallExpr:
		if x.Ellipsis != token.NoPos {
			break
		}
		switch f := x.Fun.(type) {
		case *ast.Ident:
			if _, local := t.find(f.Name); local {
				break
			}
			if f.Name == "len" && len(x.Args) == 1 {
				return "(GLen " + t.expr(x.Args[0]) + ")"
			}
			if ast.IsExported(f.Name) || f.Name == "panic" || f.Name == "append" || f.Name == "make" || f.Name == "new" {
				break
			}
			return "(GCall " + coqString(f.Name) + " " + t.exprs(x.Args) + ")"
		case *ast.SelectorExpr:
			if id, ok := f.X.(*ast.Ident); ok {
				if _, local := t.find(id.Name); !local {
					switch {
					case id.Name == "reflect" && f.Sel.Name == "FuncOf" && len(x.Args) == 3:
						ins, ok1 := pmTypeSlice(x.Args[0])
						outs, ok2 := pmTypeSlice(x.Args[1])
						if ok1 && ok2 {
							return "(GFuncOf " + t.exprs(ins) + " " + t.exprs(outs) + " " + t.expr(x.Args[2]) + ")"
						}
					case id.Name == "reflect" && (f.Sel.Name == "SliceOf" || f.Sel.Name == "TypeOf"):
						return "(GReflect " + coqString(f.Sel.Name) + " " + t.exprs(x.Args) + ")"
					case id.Name == "conf" && f.Sel.Name == "FindSuitableOperatorOverload":
						return "(GCall " + coqString("conf."+f.Sel.Name) + " " + t.exprs(x.Args) + ")"
					}
					return t.gbad(e)
				}
			}
			return "(GMeth " + t.expr(f.X) + " " + coqString(f.Sel.Name) + " " + t.exprs(x.Args) + ")"
		}
	}
	return t.gbad(e)
}

// []reflect.Type{a, b}
func pmTypeSlice(e ast.Expr) ([]ast.Expr, bool) {
	cl, ok := e.(*ast.CompositeLit)
	if !ok {
		return nil, false
	}
	at, ok := cl.Type.(*ast.ArrayType)
	if !ok || at.Len != nil || strings.Join(strings.Fields(src(at.Elt)), "") != "reflect.Type" {
		return nil, false
	}
	for _, el := range cl.Elts {
		if _, kv := el.(*ast.KeyValueExpr); kv {
			return nil, false
		}
	}
	return cl.Elts, true
}

// ------------------------------------------------------------------ statements
func pmIndent(n int) string { return strings.Repeat(" ", n) }

// a list of statements as a Coq list, one statement per line
func (t *pmFn) block(stmts []ast.Stmt, ind int) string {
	var parts []string
	for _, s := range stmts {
		parts = append(parts, t.stmt(s, ind+1)...)
	}
	if len(parts) == 0 {
		return "[]"
	}
	return "[" + strings.Join(parts, ";\n"+pmIndent(ind+1)) + "]"
}

func (t *pmFn) target(e ast.Expr, define bool) (string, bool) {
	id, ok := e.(*ast.Ident)
	if !ok {
		return "", false
	}
	if id.Name == "_" {
		if define {
			t.define("_")
		}
		return "None", true
	}
	if define {
		if n, ok := t.scopes[len(t.scopes)-1][id.Name]; ok { // := re-uses a variable of the same scope
			return fmt.Sprintf("(Some %d)", n), true
		}
		return fmt.Sprintf("(Some %d)", t.define(id.Name)), true
	}
	if n, ok := t.find(id.Name); ok {
		return fmt.Sprintf("(Some %d)", n), true
	}
	return "", false
}

func (t *pmFn) assign(s *ast.AssignStmt, ind int) []string {
	define := s.Tok == token.DEFINE
	if s.Tok != token.DEFINE && s.Tok != token.ASSIGN {
		return []string{t.sbad(s)}
	}
	if len(s.Rhs) != 1 {
		return []string{t.sbad(s)}
	}
	rhs := s.Rhs[0]
	// node.F = e
	if sel, ok := s.Lhs[0].(*ast.SelectorExpr); ok && len(s.Lhs) == 1 && !define {
		if id, ok := sel.X.(*ast.Ident); ok {
			if _, local := t.find(id.Name); local {
				return []string{"SSetField " + t.expr(sel.X) + " " + coqString(sel.Sel.Name) + " " + t.expr(rhs)}
			}
			if t.recv != "" && id.Name == t.recv && sel.Sel.Name == "collections" {
				// v.collections = append(v.collections, e)  /  v.collections = v.collections[:len(v.collections)-1]
				want := t.recv + ".collections"
				if c, ok := rhs.(*ast.CallExpr); ok && pmIsIdent(c.Fun, "append") && len(c.Args) == 2 &&
					c.Ellipsis == token.NoPos && pmFlat(c.Args[0]) == want {
					return []string{"SPush " + t.expr(c.Args[1])}
				}
				if sl, ok := rhs.(*ast.SliceExpr); ok && pmFlat(sl.X) == want && sl.Low == nil && !sl.Slice3 &&
					sl.High != nil && pmFlat(sl.High) == "len("+want+")-1" {
					return []string{"SPop"}
				}
			}
		}
		return []string{t.sbad(s)}
	}
	// x := v.visit(n)
	if n := t.visitCall(rhs); n != nil && len(s.Lhs) == 1 {
		ne := t.expr(n)
		tg, ok := t.target(s.Lhs[0], define)
		if !ok {
			return []string{t.sbad(s)}
		}
		return []string{"SVisit " + tg + " " + ne}
	}
	// the right-hand side is read before the new variables come into scope
	var re string
	if ix, ok := rhs.(*ast.IndexExpr); ok && len(s.Lhs) == 2 {
		re = "(GMapGet " + t.expr(ix.X) + " " + t.expr(ix.Index) + ")"
	} else {
		re = t.expr(rhs)
	}
	var tgs []string
	for _, l := range s.Lhs {
		tg, ok := t.target(l, define)
		if !ok {
			return []string{t.sbad(s)}
		}
		tgs = append(tgs, tg)
	}
	return []string{"SAssign " + pmList(tgs) + " " + re}
}

func pmFlat(n ast.Node) string { return strings.Join(strings.Fields(src(n)), "") }

// v.error(n, "format", args...)
func (t *pmFn) errorCall(e ast.Expr) (string, bool) {
	name, args, ok := t.selfCall(e)
	if !ok || name != "error" || len(args) < 2 {
		return "", false
	}
	lit, ok := args[1].(*ast.BasicLit)
	if !ok || lit.Kind != token.STRING {
		return "", false
	}
	format, err := strconv.Unquote(lit.Value)
	if err != nil {
		return "", false
	}
	fam := pmErrFamily(format)
	if fam == "" {
		return "", false
	}
	return "SReturnError " + t.expr(args[0]) + " " + fam, true
}

func (t *pmFn) stmt(s ast.Stmt, ind int) []string {
	switch x := s.(type) {
	case *ast.AssignStmt:
		return t.assign(x, ind)
	case *ast.DeclStmt: // var x T  (zero value: nil for reflect.Type)
		if gd, ok := x.Decl.(*ast.GenDecl); ok && gd.Tok == token.VAR && len(gd.Specs) == 1 {
			if vs, ok := gd.Specs[0].(*ast.ValueSpec); ok && len(vs.Names) == 1 && len(vs.Values) == 0 &&
				vs.Type != nil && pmFlat(vs.Type) == "reflect.Type" {
				return []string{fmt.Sprintf("SAssign [(Some %d)] GNil", t.define(vs.Names[0].Name))}
			}
		}
	case *ast.IncDecStmt:
		if id, ok := x.X.(*ast.Ident); ok {
			if n, ok := t.find(id.Name); ok {
				op := "GoAdd"
				if x.Tok == token.DEC {
					op = "GoSub"
				}
				return []string{fmt.Sprintf("SAssign [(Some %d)] (GBin %s (GVar %d) (GInt 1%%Z))", n, op, n)}
			}
		}
	case *ast.ExprStmt:
		if n := t.visitCall(x.X); n != nil {
			return []string{"SVisit None " + t.expr(n)}
		}
		if c, ok := x.X.(*ast.CallExpr); ok && pmIsIdent(c.Fun, "setTypeForIntegers") && len(c.Args) == 2 {
			return []string{"SSetInts " + t.expr(c.Args[0]) + " " + t.expr(c.Args[1])}
		}
	case *ast.IfStmt:
		t.push()
		defer t.pop()
		var out []string
		if x.Init != nil {
			out = append(out, t.stmt(x.Init, ind)...)
		}
		c := t.expr(x.Cond)
		t.push()
		a := t.block(x.Body.List, ind+4)
		t.pop()
		b := "[]"
		if x.Else != nil {
			t.push()
			switch el := x.Else.(type) {
			case *ast.BlockStmt:
				b = t.block(el.List, ind+4)
			default:
				b = t.block([]ast.Stmt{el}, ind+4)
			}
			t.pop()
		}
		out = append(out, "SIf "+c+"\n"+pmIndent(ind+4)+a+"\n"+pmIndent(ind+4)+b)
		return out
	case *ast.SwitchStmt:
		if x.Init != nil || x.Tag == nil {
			break
		}
		tag := t.expr(x.Tag)
		var cases []string
		dflt := "None"
		for i, cc := range x.Body.List {
			c := cc.(*ast.CaseClause)
			body := c.Body
			fall := false
			if len(body) > 0 {
				if br, ok := body[len(body)-1].(*ast.BranchStmt); ok && br.Tok == token.FALLTHROUGH {
					fall = true
					body = body[:len(body)-1]
				}
			}
			t.push()
			bs := t.block(body, ind+6)
			t.pop()
			if c.List == nil {
				// default: only as the last clause and without fallthrough
				if i != len(x.Body.List)-1 || fall {
					return []string{t.sbad(c)}
				}
				dflt = "(Some\n" + pmIndent(ind+6) + bs + ")"
				continue
			}
			cases = append(cases, "("+t.exprs(c.List)+",\n"+pmIndent(ind+6)+bs+", "+pmBool(fall)+")")
		}
		cs := "[]"
		if len(cases) > 0 {
			cs = "[" + strings.Join(cases, ";\n"+pmIndent(ind+5)) + "]"
		}
		return []string{"SSwitch " + tag + "\n" + pmIndent(ind+4) + cs + "\n" + pmIndent(ind+4) + dflt}
	case *ast.RangeStmt:
		if x.Tok != token.DEFINE {
			break
		}
		l := t.expr(x.X)
		t.push()
		defer t.pop()
		k, v := "None", "None"
		if x.Key != nil {
			var ok bool
			if k, ok = t.target(x.Key, true); !ok {
				break
			}
		}
		if x.Value != nil {
			var ok bool
			if v, ok = t.target(x.Value, true); !ok {
				break
			}
		}
		t.push()
		body := t.block(x.Body.List, ind+4)
		t.pop()
		return []string{"SRange " + k + " " + v + " " + l + "\n" + pmIndent(ind+4) + body}
	case *ast.BranchStmt:
		if x.Tok == token.CONTINUE && x.Label == nil {
			return []string{"SContinue"}
		}
	case *ast.ReturnStmt:
		if len(x.Results) == 1 {
			if r, ok := t.errorCall(x.Results[0]); ok {
				return []string{r}
			}
			if name, args, ok := t.selfCall(x.Results[0]); ok && name != "error" && name != "visit" {
				return []string{"SReturnCall " + coqString(name) + " " + t.exprs(args)}
			}
		}
		return []string{"SReturn " + t.exprs(x.Results)}
	case *ast.BlockStmt:
		t.push()
		defer t.pop()
		var out []string
		for _, y := range x.List {
			out = append(out, t.stmt(y, ind)...)
		}
		return out
	}
	return []string{t.sbad(s)}
}

// ------------------------------------------------------------------ functions
func pmParamNames(fd *ast.FuncDecl) []string {
	var names []string
	if fd.Type.Params == nil {
		return names
	}
	for _, fl := range fd.Type.Params.List {
		if len(fl.Names) == 0 {
			names = append(names, "_")
		}
		for _, n := range fl.Names {
			names = append(names, n.Name)
		}
	}
	return names
}

func pmRecvName(fd *ast.FuncDecl) string {
	if fd.Recv != nil && len(fd.Recv.List) == 1 && len(fd.Recv.List[0].Names) == 1 {
		return fd.Recv.List[0].Names[0].Name
	}
	return ""
}

func (g *pmGen) newFn(fd *ast.FuncDecl) *pmFn {
	t := &pmFn{recv: pmRecvName(fd), tyConst: g.tyConst, unrec: &g.unrec}
	t.push()
	for _, p := range pmParamNames(fd) {
		t.define(p)
	}
	return t
}

type pmGen struct {
	tyConst map[string]bool
	unrec   []string
}

// mkProc "name" nparams [body]
func (g *pmGen) proc(fd *ast.FuncDecl, body []ast.Stmt) string {
	t := g.newFn(fd)
	np := len(pmParamNames(fd))
	t.push()
	b := t.block(body, 4)
	return fmt.Sprintf("  mkProc %s %d\n    %s", coqString(fd.Name.Name), np, b)
}

// v.error: the statement that records the error is a fixed shape inside an otherwise generic body:
//   v.err = &file.Error{Location: node.Location(), Message: fmt.Sprintf(format, args...)}
func (g *pmGen) errorProc(fd *ast.FuncDecl) string {
	t := g.newFn(fd)
	names := pmParamNames(fd)
	if len(names) != 3 || t.recv == "" {
		return "  mkProc \"error\" 0 [SBad " + t.bad(fd) + "]"
	}
	want := t.recv + ".err=&file.Error{Location:" + names[0] + ".Location(),Message:fmt.Sprintf(" + names[1] + "," + names[2] + "...),}"
	want2 := strings.Replace(want, ",}", "}", 1)
	var rewrite func(list []ast.Stmt) []ast.Stmt
	marks := map[ast.Stmt]bool{}
	rewrite = func(list []ast.Stmt) []ast.Stmt {
		for _, s := range list {
			if f := pmFlat(s); f == want || f == want2 {
				marks[s] = true
			}
			if is, ok := s.(*ast.IfStmt); ok {
				rewrite(is.Body.List)
			}
		}
		return list
	}
	rewrite(fd.Body.List)
	t.push()
	var emit func(list []ast.Stmt, ind int) string
	emit = func(list []ast.Stmt, ind int) string {
		var parts []string
		for _, s := range list {
			if marks[s] {
				parts = append(parts, "SSetErr (GVar 0) (GVar 1)")
				continue
			}
			if is, ok := s.(*ast.IfStmt); ok && is.Init == nil && is.Else == nil {
				parts = append(parts, "SIf "+t.expr(is.Cond)+"\n"+pmIndent(ind+5)+emit(is.Body.List, ind+5)+"\n"+pmIndent(ind+5)+"[]")
				continue
			}
			parts = append(parts, t.stmt(s, ind+1)...)
		}
		if len(parts) == 0 {
			return "[]"
		}
		return "[" + strings.Join(parts, ";\n"+pmIndent(ind+1)) + "]"
	}
	return "  mkProc \"error\" 3\n    " + emit(fd.Body.List, 4)
}

// visit: `var t reflect.Type; switch n := node.(type) { case *ast.K: t = v.K(n) ... default: panic }; node.SetType(t); return t`
func (g *pmGen) visitShape(fd *ast.FuncDecl) (string, bool) {
	var b strings.Builder
	okShape := false
	names := pmParamNames(fd)
	recv := pmRecvName(fd)
	type ent struct{ kind, meth string }
	var ents []ent
	if fd != nil && len(names) == 1 && recv != "" && len(fd.Body.List) == 4 {
		node := names[0]
		ds, ok0 := fd.Body.List[0].(*ast.DeclStmt)
		ts, ok1 := fd.Body.List[1].(*ast.TypeSwitchStmt)
		if ok0 && ok1 {
			tv := ""
			if gd, ok := ds.Decl.(*ast.GenDecl); ok && gd.Tok == token.VAR && len(gd.Specs) == 1 {
				if vs, ok := gd.Specs[0].(*ast.ValueSpec); ok && len(vs.Names) == 1 && len(vs.Values) == 0 {
					tv = vs.Names[0].Name
				}
			}
			bound, switched := typeSwitchVar(ts)
			okShape = tv != "" && switched == node && bound != "" && bound != "?" &&
				pmFlat(fd.Body.List[2]) == node+".SetType("+tv+")" && pmFlat(fd.Body.List[3]) == "return"+tv
			seen := map[string]bool{}
			for _, cc := range ts.Body.List {
				c := cc.(*ast.CaseClause)
				if c.List == nil {
					// default: must not produce a type
					if len(c.Body) != 1 || !strings.HasPrefix(pmFlat(c.Body[0]), "panic(") {
						okShape = false
						g.unrec = append(g.unrec, pos(c))
					}
					continue
				}
				if len(c.List) != 1 || len(c.Body) != 1 {
					okShape = false
					g.unrec = append(g.unrec, pos(c))
					continue
				}
				ty := strings.TrimPrefix(pmFlat(c.List[0]), "*ast.")
				kind, known := pmNodeKinds[ty]
				body := pmFlat(c.Body[0])
				pre, post := tv+"="+recv+".", "("+bound+")"
				if !known || seen[kind] || !strings.HasPrefix(body, pre) || !strings.HasSuffix(body, post) {
					okShape = false
					g.unrec = append(g.unrec, pos(c))
					continue
				}
				seen[kind] = true
				ents = append(ents, ent{kind, body[len(pre) : len(body)-len(post)]})
			}
		}
	}
	if !okShape && fd != nil {
		g.unrec = append(g.unrec, pos(fd))
	}
	// canonical order: the order of the node kinds (cases of a type switch on distinct types commute)
	sort.SliceStable(ents, func(i, j int) bool { return pmKindIdx(ents[i].kind) < pmKindIdx(ents[j].kind) })
	b.WriteString("Definition visit_dispatch : list (nkind * string) :=\n  [")
	for i, e := range ents {
		if i > 0 {
			b.WriteString(";\n   ")
		}
		fmt.Fprintf(&b, "(%s, %s)", e.kind, coqString(e.meth))
	}
	b.WriteString("].\n")
	b.WriteString("(* after the dispatch: node.SetType(t); return t *)\n")
	fmt.Fprintf(&b, "Definition visit_settype_return : bool := %s.\n", pmBool(okShape))
	return b.String(), okShape
}

func pmKindIdx(k string) int {
	for i, n := range pmNodeOrder {
		if pmNodeKinds[n] == k {
			return i
		}
	}
	return len(pmNodeOrder)
}

// dereference: if t == nil { return nil }; if t.Kind() == reflect.Ptr { t = dereference(t.Elem()) }; return t
func pmDerefShape(fd *ast.FuncDecl) string {
	if fd == nil || len(pmParamNames(fd)) != 1 || len(fd.Body.List) != 3 {
		return "DerefUnrecognised"
	}
	p := pmParamNames(fd)[0]
	got := []string{pmFlat(fd.Body.List[0]), pmFlat(fd.Body.List[1]), pmFlat(fd.Body.List[2])}
	want := []string{"if" + p + "==nil{returnnil}",
		"if" + p + ".Kind()==reflect.Ptr{" + p + "=dereference(" + p + ".Elem())}", "return" + p}
	for i := range want {
		if got[i] != want[i] {
			return "DerefUnrecognised"
		}
	}
	return "DerefStripPointers"
}

// the package-level `x = reflect.TypeOf(...)` variables of types.go
func pmTypeConst(e ast.Expr) string {
	switch pmFlat(e) {
	case "reflect.TypeOf(nil)":
		return "TNilT"
	case "reflect.TypeOf(true)", "reflect.TypeOf(false)":
		return "TBool"
	case "reflect.TypeOf(int(0))":
		return "(TNum KInt)"
	case "reflect.TypeOf(float64(0))":
		return "(TNum KF64)"
	case "reflect.TypeOf(\"\")":
		return "TString"
	case "reflect.TypeOf([]interface{}{})":
		return "(TSlice TIface)"
	case "reflect.TypeOf(map[string]interface{}{})":
		return "(TMap TString TIface)"
	case "reflect.TypeOf(new(interface{})).Elem()":
		return "TIface"
	}
	return ""
}

// isIntegerOrArithmeticOperation / setTypeForIntegers: type switch on the node, inside a case at most
// one `switch n.Operator { case ops: <action> }`.
//   action of isIntegerOrArithmeticOperation: return true;     after the switch: return false
//   action of setTypeForIntegers: n.SetType(t) for the leaf, setTypeForIntegers(n.F, t) for each child F
// -> rows (node kind, operators or None = every node of the kind, the child fields recursed into)
func (g *pmGen) nodeTable(fd *ast.FuncDecl, setter bool) string {
	fail := func(n ast.Node) string {
		g.unrec = append(g.unrec, pos(n))
		return "[(NkNil, Some [" + coqString("unrecognised "+pos(n)) + "], [])]"
	}
	if fd == nil {
		g.unrec = append(g.unrec, "types.go: node table missing")
		return "[(NkNil, Some [\"missing\"], [])]"
	}
	names := pmParamNames(fd)
	var ts *ast.TypeSwitchStmt
	if setter {
		if len(names) != 2 || len(fd.Body.List) != 1 {
			return fail(fd)
		}
	} else {
		if len(names) != 1 || len(fd.Body.List) != 2 || pmFlat(fd.Body.List[1]) != "returnfalse" {
			return fail(fd)
		}
	}
	ts, ok := fd.Body.List[0].(*ast.TypeSwitchStmt)
	if !ok {
		return fail(fd)
	}
	bound, switched := typeSwitchVar(ts)
	if switched != names[0] {
		return fail(ts)
	}
	// the action on a node of the case: returns the recursed fields
	action := func(body []ast.Stmt, leaf bool) ([]string, bool) {
		if !setter {
			return nil, len(body) == 1 && pmFlat(body[0]) == "returntrue"
		}
		if leaf {
			return nil, len(body) == 1 && pmFlat(body[0]) == bound+".SetType("+names[1]+")"
		}
		var fields []string
		for _, s := range body {
			f := pmFlat(s)
			pre, post := fd.Name.Name+"("+bound+".", ","+names[1]+")"
			if !strings.HasPrefix(f, pre) || !strings.HasSuffix(f, post) {
				return nil, false
			}
			fields = append(fields, f[len(pre):len(f)-len(post)])
		}
		return fields, len(fields) > 0
	}
	var rows []string
	for _, cc := range ts.Body.List {
		c := cc.(*ast.CaseClause)
		if c.List == nil || len(c.List) != 1 || len(c.Body) != 1 {
			return fail(c)
		}
		kind, known := pmNodeKinds[strings.TrimPrefix(pmFlat(c.List[0]), "*ast.")]
		if !known {
			return fail(c)
		}
		if sw, ok := c.Body[0].(*ast.SwitchStmt); ok {
			if sw.Init != nil || sw.Tag == nil || pmFlat(sw.Tag) != bound+".Operator" || len(sw.Body.List) != 1 {
				return fail(sw)
			}
			oc := sw.Body.List[0].(*ast.CaseClause)
			if oc.List == nil {
				return fail(oc)
			}
			var ops []string
			for _, o := range oc.List {
				lit, ok := o.(*ast.BasicLit)
				if !ok || lit.Kind != token.STRING {
					return fail(oc)
				}
				s, _ := strconv.Unquote(lit.Value)
				ops = append(ops, s)
			}
			sort.Strings(ops)
			fields, ok := action(oc.Body, false)
			if !ok {
				return fail(oc)
			}
			for i := range ops {
				ops[i] = coqString(ops[i])
			}
			for i := range fields {
				fields[i] = coqString(fields[i])
			}
			rows = append(rows, fmt.Sprintf("(%s, Some %s, %s)", kind, pmList(ops), pmList(fields)))
			continue
		}
		if _, ok := action(c.Body, true); !ok {
			return fail(c)
		}
		rows = append(rows, fmt.Sprintf("(%s, None, [])", kind))
	}
	sort.Strings(rows)
	return pmList(rows)
}

// Check: the construction of the visitor is a fixed shape
//   v := &visitor{collections: make([]reflect.Type, 0)}
//   if config != nil { v.types = config.Types; v.operators = config.Operators; v.expect = config.Expect;
//                      v.strict = config.Strict; v.defaultType = config.DefaultType }
// the rest is read generically with tree.Node = the root and fmt.Errorf(...) = the error of the family
// of its format.
func (g *pmGen) checkProc(fd *ast.FuncDecl) string {
	bad := func(n ast.Node) string {
		g.unrec = append(g.unrec, pos(n))
		return "  mkProc \"Check\" 0 [SBad " + coqString(pos(n)) + "]"
	}
	if fd == nil {
		g.unrec = append(g.unrec, "checker.go: Check missing")
		return "  mkProc \"Check\" 0 [SBad \"missing\"]"
	}
	names := pmParamNames(fd)
	if len(names) != 2 || len(fd.Body.List) < 3 {
		return bad(fd)
	}
	tree, config := names[0], names[1]
	// statement 0: v := &visitor{collections: make([]reflect.Type, 0)}
	as, ok := fd.Body.List[0].(*ast.AssignStmt)
	if !ok || as.Tok != token.DEFINE || len(as.Lhs) != 1 || len(as.Rhs) != 1 {
		return bad(fd.Body.List[0])
	}
	vn, ok := as.Lhs[0].(*ast.Ident)
	if !ok {
		return bad(as)
	}
	r0 := pmFlat(as.Rhs[0])
	if r0 != "&visitor{collections:make([]reflect.Type,0),}" && r0 != "&visitor{collections:make([]reflect.Type,0)}" {
		return bad(as)
	}
	v := vn.Name
	// statement 1: the copy of the configuration (order of the assignments is immaterial)
	is, ok := fd.Body.List[1].(*ast.IfStmt)
	if !ok || is.Init != nil || is.Else != nil || pmFlat(is.Cond) != config+"!=nil" {
		return bad(fd.Body.List[1])
	}
	var copies []string
	for _, s := range is.Body.List {
		copies = append(copies, pmFlat(s))
	}
	sort.Strings(copies)
	want := []string{v + ".defaultType=" + config + ".DefaultType", v + ".expect=" + config + ".Expect",
		v + ".operators=" + config + ".Operators", v + ".strict=" + config + ".Strict", v + ".types=" + config + ".Types"}
	if strings.Join(copies, ";") != strings.Join(want, ";") {
		return bad(is)
	}
	// the rest: generic, with v as the receiver
	t := &pmFn{recv: v, tyConst: g.tyConst, unrec: &g.unrec}
	t.push()
	t.push()
	var parts []string
	for _, s := range fd.Body.List[2:] {
		parts = append(parts, g.checkStmt(t, s, tree, 5)...)
	}
	return "  mkProc \"Check\" 0\n    [" + strings.Join(parts, ";\n     ") + "]"
}

// statements of Check: `t := v.visit(tree.Node)`, `return nil, fmt.Errorf("expected ...")`,
// `return t, v.err.Bind(tree.Source)`, `return t, nil`; if / switch around them
func (g *pmGen) checkStmt(t *pmFn, s ast.Stmt, tree string, ind int) []string {
	block := func(list []ast.Stmt, ind int) string {
		var parts []string
		for _, y := range list {
			parts = append(parts, g.checkStmt(t, y, tree, ind+1)...)
		}
		if len(parts) == 0 {
			return "[]"
		}
		return "[" + strings.Join(parts, ";\n"+pmIndent(ind+1)) + "]"
	}
	switch x := s.(type) {
	case *ast.AssignStmt:
		if len(x.Lhs) == 1 && len(x.Rhs) == 1 {
			if n := t.visitCall(x.Rhs[0]); n != nil && pmFlat(n) == tree+".Node" {
				if tg, ok := t.target(x.Lhs[0], x.Tok == token.DEFINE); ok {
					return []string{"SVisit " + tg + " GRoot"}
				}
			}
		}
	case *ast.IfStmt:
		if x.Init == nil && x.Else == nil {
			c := t.expr(x.Cond)
			t.push()
			a := block(x.Body.List, ind+4)
			t.pop()
			return []string{"SIf " + c + "\n" + pmIndent(ind+4) + a + "\n" + pmIndent(ind+4) + "[]"}
		}
	case *ast.SwitchStmt:
		if x.Init == nil && x.Tag != nil {
			tag := t.expr(x.Tag)
			var cases []string
			dflt := "None"
			for i, cc := range x.Body.List {
				c := cc.(*ast.CaseClause)
				t.push()
				bs := block(c.Body, ind+6)
				t.pop()
				if c.List == nil {
					if i != len(x.Body.List)-1 {
						return []string{t.sbad(c)}
					}
					dflt = "(Some\n" + pmIndent(ind+6) + bs + ")"
					continue
				}
				cases = append(cases, "("+t.exprs(c.List)+",\n"+pmIndent(ind+6)+bs+", false)")
			}
			cs := "[]"
			if len(cases) > 0 {
				cs = "[" + strings.Join(cases, ";\n"+pmIndent(ind+5)) + "]"
			}
			return []string{"SSwitch " + tag + "\n" + pmIndent(ind+4) + cs + "\n" + pmIndent(ind+4) + dflt}
		}
	case *ast.ReturnStmt:
		if len(x.Results) == 2 {
			r0, r1 := x.Results[0], pmFlat(x.Results[1])
			if c, ok := x.Results[1].(*ast.CallExpr); ok && pmFlat(c.Fun) == "fmt.Errorf" && len(c.Args) >= 1 {
				if lit, ok := c.Args[0].(*ast.BasicLit); ok && lit.Kind == token.STRING {
					if f, err := strconv.Unquote(lit.Value); err == nil && pmErrFamily(f) != "" {
						return []string{"SReturnFail " + t.expr(r0) + " " + pmErrFamily(f)}
					}
				}
			}
			if r1 == t.recv+".err.Bind("+tree+".Source)" {
				return []string{"SReturn [" + t.expr(r0) + "; (GVis \"err\")]"}
			}
			if r1 == "nil" {
				return []string{"SReturn [" + t.expr(r0) + "; GNil]"}
			}
		}
	}
	return []string{t.sbad(s)}
}

func genChecker() {
	cf := parseFile("checker/checker.go")
	tf := parseFile("checker/types.go")
	g := &pmGen{tyConst: map[string]bool{}}
	var b strings.Builder
	b.WriteString("(* GENERATED by /verif/translator from checker/checker.go and checker/types.go — do not edit *)\n")
	b.WriteString("From Coq Require Import ZArith List String.\n")
	b.WriteString("Require Import X.Base.Num X.Base.Value X.Syn.Ast X.Ty.Checker X.Ty.CheckRules.\n")
	b.WriteString("Import ListNotations.\nLocal Open Scope string_scope.\nLocal Open Scope nat_scope.\n\n")

	// ---- types.go: the package-level types
	type tc struct{ name, ty string }
	var tcs []tc
	if tf != nil {
		for _, d := range tf.Decls {
			gd, ok := d.(*ast.GenDecl)
			if !ok || gd.Tok != token.VAR {
				continue
			}
			for _, sp := range gd.Specs {
				vs, ok := sp.(*ast.ValueSpec)
				if !ok || len(vs.Names) != 1 || len(vs.Values) != 1 {
					g.unrec = append(g.unrec, pos(sp))
					continue
				}
				ty := pmTypeConst(vs.Values[0])
				if ty == "" {
					g.unrec = append(g.unrec, pos(sp))
					continue
				}
				g.tyConst[vs.Names[0].Name] = true
				tcs = append(tcs, tc{vs.Names[0].Name, ty})
			}
		}
	}
	sort.Slice(tcs, func(i, j int) bool { return tcs[i].name < tcs[j].name })
	b.WriteString("(* types.go: the package-level reflect.Type variables *)\n")
	b.WriteString("Definition type_consts : list (string * ty) :=\n  [")
	for i, c := range tcs {
		if i > 0 {
			b.WriteString(";\n   ")
		}
		fmt.Fprintf(&b, "(%s, %s)", coqString(c.name), c.ty)
	}
	b.WriteString("].\n\n")

	// ---- types.go: dereference (shape), predicates and lookups (generic), node tables
	b.WriteString("(* types.go: dereference strips every pointer layer and keeps nil *)\n")
	fmt.Fprintf(&b, "Definition deref_shape : deref_shape_t := %s.\n\n", pmDerefShape(funcDecl(tf, "dereference", "")))
	if pmDerefShape(funcDecl(tf, "dereference", "")) != "DerefStripPointers" {
		g.unrec = append(g.unrec, "types.go: dereference")
	}
	helperNames := []string{"isInterface", "isInteger", "isFloat", "isNumber", "isBool", "isString", "isArray", "isMap",
		"isStruct", "isFunc", "isComparable", "indexType", "isFuncType"}
	b.WriteString("(* types.go: the predicates and lookups, statement by statement *)\n")
	b.WriteString("Definition helpers : list proc :=\n [")
	for i, hn := range helperNames {
		if i > 0 {
			b.WriteString(";\n")
		} else {
			b.WriteString("\n")
		}
		fd := funcDecl(tf, hn, "")
		if fd == nil {
			g.unrec = append(g.unrec, "types.go: "+hn+" missing")
			fmt.Fprintf(&b, "  mkProc %s 0 [SBad \"missing\"]", coqString(hn))
			continue
		}
		b.WriteString(g.proc(fd, fd.Body.List))
	}
	b.WriteString("].\n\n")
	b.WriteString("(* types.go: isIntegerOrArithmeticOperation - (node kind, operators or None = every node of the kind, -) *)\n")
	fmt.Fprintf(&b, "Definition arith_table : list (nkind * option (list string) * list string) :=\n  %s.\n",
		g.nodeTable(funcDecl(tf, "isIntegerOrArithmeticOperation", ""), false))
	b.WriteString("(* types.go: setTypeForIntegers - (node kind, operators, the fields it recurses into); None = n.SetType(t) *)\n")
	fmt.Fprintf(&b, "Definition set_ints_table : list (nkind * option (list string) * list string) :=\n  %s.\n\n",
		g.nodeTable(funcDecl(tf, "setTypeForIntegers", ""), true))

	// ---- checker.go
	vs, _ := g.visitShape(funcDecl(cf, "visit", "visitor"))
	b.WriteString("(* checker.go: the dispatch of visit *)\n")
	b.WriteString(vs)
	b.WriteString("\n(* checker.go: the methods of the visitor, statement by statement *)\n")
	b.WriteString("Definition methods : list proc :=\n [")
	first := true
	for _, mn := range append(append([]string{}, pmNodeOrder...), "checkFunc") {
		if !first {
			b.WriteString(";\n")
		} else {
			b.WriteString("\n")
		}
		first = false
		fd := funcDecl(cf, mn, "visitor")
		if fd == nil {
			g.unrec = append(g.unrec, "checker.go: "+mn+" missing")
			fmt.Fprintf(&b, "  mkProc %s 0 [SBad \"missing\"]", coqString(mn))
			continue
		}
		b.WriteString(g.proc(fd, fd.Body.List))
	}
	b.WriteString(";\n")
	if fd := funcDecl(cf, "error", "visitor"); fd != nil {
		b.WriteString(g.errorProc(fd))
	} else {
		g.unrec = append(g.unrec, "checker.go: error missing")
		b.WriteString("  mkProc \"error\" 0 [SBad \"missing\"]")
	}
	b.WriteString("].\n\n")
	b.WriteString("(* checker.go: Check, after the construction of the visitor *)\n")
	b.WriteString("Definition check_proc : proc :=\n" + g.checkProc(funcDecl(cf, "Check", "")) + ".\n\n")

	b.WriteString("Definition checker_src : checker_source :=\n  mkSource type_consts deref_shape helpers arith_table set_ints_table visit_dispatch visit_settype_return methods check_proc.\n\n")

	sort.Strings(g.unrec)
	b.WriteString("Definition genchecker_unrecognised : list string := [")
	for i, u := range g.unrec {
		if i > 0 {
			b.WriteString("; ")
		}
		b.WriteString(coqString(u))
	}
	b.WriteString("].\n")
	writeIfChanged("GenChecker.v", b.String())
}

package main

// genAssemble: the BYTE-LEVEL functions of compiler/compiler.go as terms of the statement DSL of
// coq/BC/AsmRules.v -> coq/gen/GenAssemble.v.
//
// Read statement by statement, in source order:
//   - the whole bodies of (*compiler).emit, makeConstant, placeholder, patchJump, calcBackwardJump
//     (limit tests, panics and the two byte stores included) and of the function encode;
//   - the skeleton of Compile: the deferred recover, the construction of the compiler value, the
//     `if config != nil` block, the position of the statements that call methods of the compiler
//     value (those are read by gen_schemes.go), the construction of the Program, the return.
//
// What the reading normalises away: names of local variables and parameters (numbered: parameters
// first, then every definition in source order), the name of the receiver / of the compiler value
// and of the tree parameter, the text of panic messages, comments, layout.  Everything that is not
// one of the shapes below becomes `SUnrecognised "compiler.go:<line>"` / `CUnrecognised ...`, which
// makes `genassemble_recognised` (and the bridge lemma of the function) in
// coq/Bridge/BrAssemble.v fail.

import (
	"fmt"
	"go/ast"
	"go/token"
	"sort"
	"strconv"
	"strings"
)

var asFields = map[string]string{
	"bytecode": "FBytecode", "constants": "FConstants", "index": "FIndex", "locations": "FLocations", "nodes": "FNodes",
}

// the regenerated functions, callable by name from each other
var asFuncNames = []string{"calcBackwardJump", "emit", "encode", "makeConstant", "patchJump", "placeholder"}
var asIsMethod = map[string]bool{"calcBackwardJump": true, "emit": true, "makeConstant": true, "patchJump": true, "placeholder": true}

type asFn struct {
	recv   string
	next   int
	scopes []map[string]int
}

func (t *asFn) push() { t.scopes = append(t.scopes, map[string]int{}) }
func (t *asFn) pop()  { t.scopes = t.scopes[:len(t.scopes)-1] }
func (t *asFn) find(name string) (int, bool) {
	for i := len(t.scopes) - 1; i >= 0; i-- {
		if n, ok := t.scopes[i][name]; ok {
			return n, true
		}
	}
	return 0, false
}
func (t *asFn) define(name string) int {
	n := t.next
	t.next++
	t.scopes[len(t.scopes)-1][name] = n
	return n
}

// c.f with c the receiver
func (t *asFn) field(e ast.Expr) (string, bool) {
	x, f, ok := scSel(e)
	if !ok || x != t.recv {
		return "", false
	}
	c, ok := asFields[f]
	return c, ok
}

func asZ(s string) (string, bool) {
	n, err := strconv.ParseInt(s, 0, 64)
	if err != nil {
		return "", false
	}
	if n < 0 {
		return fmt.Sprintf("(%d)", n), true
	}
	return fmt.Sprintf("%d", n), true
}

var asCmp = map[token.Token]string{
	token.GTR: "CGt", token.GEQ: "CGe", token.LSS: "CLt", token.LEQ: "CLe", token.EQL: "CEq", token.NEQ: "CNe",
}

// reflect.ValueOf(x).Float()
func (t *asFn) floatOf(e ast.Expr) (string, bool) {
	c, ok := e.(*ast.CallExpr)
	if !ok || len(c.Args) != 0 {
		return "", false
	}
	s, ok := c.Fun.(*ast.SelectorExpr)
	if !ok || s.Sel.Name != "Float" {
		return "", false
	}
	in, ok := s.X.(*ast.CallExpr)
	if !ok || len(in.Args) != 1 || in.Ellipsis != token.NoPos {
		return "", false
	}
	if p, f, ok := scSel(in.Fun); !ok || p != "reflect" || f != "ValueOf" {
		return "", false
	}
	return t.exp(in.Args[0])
}

func isZeroLit(e ast.Expr) bool {
	l, ok := e.(*ast.BasicLit)
	if !ok || l.Kind != token.INT {
		return false
	}
	z, ok := asZ(l.Value)
	return ok && z == "0"
}

func (t *asFn) exp(e ast.Expr) (string, bool) {
	switch v := e.(type) {
	case *ast.ParenExpr:
		return t.exp(v.X)
	case *ast.Ident:
		if v.Name == "true" {
			return "(EBool true)", true
		}
		if v.Name == "false" {
			return "(EBool false)", true
		}
		if n, ok := t.find(v.Name); ok {
			return fmt.Sprintf("(EVar %d)", n), true
		}
	case *ast.BasicLit:
		if v.Kind == token.INT {
			if z, ok := asZ(v.Value); ok {
				return "(EInt " + z + ")", true
			}
		}
	case *ast.SelectorExpr:
		if p, f, ok := scSel(v); ok && p == "math" && f == "MaxUint16" {
			return "EMaxUint16", true
		}
	case *ast.UnaryExpr:
		if v.Op == token.NOT {
			if a, ok := t.exp(v.X); ok {
				return "(ENot " + a + ")", true
			}
		}
	case *ast.BinaryExpr:
		// reflect.ValueOf(x).Float() == 0
		if v.Op == token.EQL || v.Op == token.NEQ {
			if a, ok := t.floatOf(v.X); ok && isZeroLit(v.Y) {
				if v.Op == token.EQL {
					return "(EFloatIsZero " + a + ")", true
				}
				return "(ENot (EFloatIsZero " + a + "))", true
			}
		}
		a, ok1 := t.exp(v.X)
		b, ok2 := t.exp(v.Y)
		if !ok1 || !ok2 {
			return "", false
		}
		switch v.Op {
		case token.ADD:
			return "(EAdd " + a + " " + b + ")", true
		case token.SUB:
			return "(ESub " + a + " " + b + ")", true
		}
		if c, ok := asCmp[v.Op]; ok {
			return "(ECmp " + c + " " + a + " " + b + ")", true
		}
	case *ast.IndexExpr:
		a, ok1 := t.exp(v.X)
		i, ok2 := t.exp(v.Index)
		if ok1 && ok2 {
			return "(EIndex " + a + " " + i + ")", true
		}
	case *ast.CompositeLit:
		if src(v.Type) == "[]byte" {
			var bs []string
			for _, el := range v.Elts {
				l, ok := el.(*ast.BasicLit)
				if !ok || l.Kind != token.INT {
					return "", false
				}
				z, ok := asZ(l.Value)
				if !ok {
					return "", false
				}
				bs = append(bs, z)
			}
			return "(EBytes [" + strings.Join(bs, "; ") + "])", true
		}
	case *ast.CallExpr:
		if v.Ellipsis != token.NoPos {
			return "", false
		}
		if f, ok := scIdent(v.Fun); ok {
			switch {
			case f == "len" && len(v.Args) == 1:
				if fl, ok := t.field(v.Args[0]); ok {
					return "(ELen " + fl + ")", true
				}
			case f == "make" && len(v.Args) == 2 && src(v.Args[0]) == "[]byte":
				if n, ok := t.exp(v.Args[1]); ok {
					return "(EMakeBytes " + n + ")", true
				}
			case scConvNames[f] || f == "byte":
				if _, shadowed := t.find(f); !shadowed && len(v.Args) == 1 {
					if a, ok := t.exp(v.Args[0]); ok {
						return "(EConv " + coqString(f) + " " + a + ")", true
					}
				}
			}
			return "", false
		}
		// c.nodes[i].Location()
		if s, ok := v.Fun.(*ast.SelectorExpr); ok && s.Sel.Name == "Location" && len(v.Args) == 0 {
			if ix, ok := s.X.(*ast.IndexExpr); ok {
				if fl, ok := t.field(ix.X); ok && fl == "FNodes" {
					if i, ok := t.exp(ix.Index); ok {
						return "(ENodeLoc " + i + ")", true
					}
				}
			}
		}
	}
	return "", false
}

// a call of one of the regenerated functions: c.m(args) for the methods, f(args) for encode
func (t *asFn) knownCall(e ast.Expr) (string, string, bool) {
	c, ok := e.(*ast.CallExpr)
	if !ok || c.Ellipsis != token.NoPos {
		return "", "", false
	}
	name := ""
	if x, m, ok := scSel(c.Fun); ok && x == t.recv && asIsMethod[m] {
		name = m
	} else if f, ok := scIdent(c.Fun); ok && !asIsMethod[f] {
		if _, shadowed := t.find(f); shadowed {
			return "", "", false
		}
		for _, k := range asFuncNames {
			if k == f {
				name = f
			}
		}
	}
	if name == "" {
		return "", "", false
	}
	var args []string
	for _, a := range c.Args {
		x, ok := t.exp(a)
		if !ok {
			return "", "", false
		}
		args = append(args, x)
	}
	return name, "[" + strings.Join(args, "; ") + "]", true
}

func asUnrec(n ast.Node) string { return "SUnrecognised " + coqString(pos(n)) }

func asBlock(items []string, ind string) string {
	if len(items) == 0 {
		return "[]"
	}
	return "[" + strings.Join(items, ";\n"+ind+" ") + "]"
}

func (t *asFn) block(list []ast.Stmt, ind string) string {
	t.push()
	defer t.pop()
	return asBlock(t.stmts(list, ind+"  "), ind)
}

func (t *asFn) stmts(list []ast.Stmt, ind string) []string {
	var out []string
	for _, s := range list {
		out = append(out, t.stmt(s, ind))
	}
	return out
}

func (t *asFn) stmt(s ast.Stmt, ind string) string {
	switch v := s.(type) {
	case *ast.EmptyStmt:
		return asUnrec(s)
	case *ast.DeclStmt:
		// var x file.Location
		if gd, ok := v.Decl.(*ast.GenDecl); ok && gd.Tok == token.VAR && len(gd.Specs) == 1 {
			if vs, ok := gd.Specs[0].(*ast.ValueSpec); ok && len(vs.Names) == 1 && len(vs.Values) == 0 && vs.Type != nil && src(vs.Type) == "file.Location" {
				return fmt.Sprintf("SDeclLoc %d", t.define(vs.Names[0].Name))
			}
		}
	case *ast.AssignStmt:
		if len(v.Lhs) != 1 || len(v.Rhs) != 1 || (v.Tok != token.ASSIGN && v.Tok != token.DEFINE) {
			return asUnrec(s)
		}
		lhs, rhs := v.Lhs[0], v.Rhs[0]
		if v.Tok == token.ASSIGN {
			// c.f = append(c.f, x) / append(c.f, x...)
			if fl, ok := t.field(lhs); ok {
				if f, c, ok := scPlainCall(rhs); ok && f == "append" && len(c.Args) == 2 {
					if fl2, ok := t.field(c.Args[0]); ok && fl2 == fl {
						if x, ok := t.exp(c.Args[1]); ok {
							spread := "false"
							if c.Ellipsis != token.NoPos {
								spread = "true"
							}
							return "SAppend " + fl + " " + x + " " + spread
						}
					}
				}
				return asUnrec(s)
			}
			// c.f[i] = x
			if ix, ok := lhs.(*ast.IndexExpr); ok {
				if fl, ok := t.field(ix.X); ok {
					i, ok1 := t.exp(ix.Index)
					x, ok2 := t.exp(rhs)
					if ok1 && ok2 {
						switch fl {
						case "FBytecode":
							return "SStore " + fl + " " + i + " " + x
						case "FIndex", "FLocations":
							return "SMapSet " + fl + " " + i + " " + x
						}
					}
				}
				return asUnrec(s)
			}
		}
		name, ok := scIdent(lhs)
		if !ok || name == "_" {
			return asUnrec(s)
		}
		// the right-hand side is read before the variable is defined
		if fn, args, ok := t.knownCall(rhs); ok {
			n, known := t.find(name)
			if v.Tok == token.DEFINE {
				n = t.define(name)
			} else if !known {
				return asUnrec(s)
			}
			return fmt.Sprintf("SCallAssign %d %s %s", n, coqString(fn), args)
		}
		if x, ok := t.exp(rhs); ok {
			n, known := t.find(name)
			if v.Tok == token.DEFINE {
				n = t.define(name)
			} else if !known {
				return asUnrec(s)
			}
			return fmt.Sprintf("SAssign %d %s", n, x)
		}
	case *ast.ExprStmt:
		if f, _, ok := scPlainCall(v.X); ok && f == "panic" {
			if _, shadowed := t.find("panic"); !shadowed {
				return "SPanic"
			}
		}
		// binary.<Order>.PutUint16(b, x)
		if c, ok := v.X.(*ast.CallExpr); ok && len(c.Args) == 2 && c.Ellipsis == token.NoPos {
			if sel, ok := c.Fun.(*ast.SelectorExpr); ok && sel.Sel.Name == "PutUint16" {
				if p, order, ok := scSel(sel.X); ok && p == "binary" {
					if bn, ok := scIdent(c.Args[0]); ok {
						if n, ok := t.find(bn); ok {
							if x, ok := t.exp(c.Args[1]); ok {
								return fmt.Sprintf("SPutUint16 %s %d %s", coqString(order), n, x)
							}
						}
					}
				}
			}
		}
	case *ast.ReturnStmt:
		if len(v.Results) == 0 {
			return "SReturn None"
		}
		if len(v.Results) == 1 {
			if fn, args, ok := t.knownCall(v.Results[0]); ok {
				return "SReturnCall " + coqString(fn) + " " + args
			}
			if x, ok := t.exp(v.Results[0]); ok {
				return "SReturn (Some " + x + ")"
			}
		}
	case *ast.IfStmt:
		// if v, ok := c.f[k]; ok { ... }
		if v.Init != nil {
			as, ok := v.Init.(*ast.AssignStmt)
			if !ok || as.Tok != token.DEFINE || len(as.Lhs) != 2 || len(as.Rhs) != 1 || v.Else != nil {
				return asUnrec(s)
			}
			vn, ok1 := scIdent(as.Lhs[0])
			okn, ok2 := scIdent(as.Lhs[1])
			cn, ok3 := scIdent(v.Cond)
			ix, ok4 := as.Rhs[0].(*ast.IndexExpr)
			if !ok1 || !ok2 || !ok3 || !ok4 || cn != okn || vn == "_" || vn == okn {
				return asUnrec(s)
			}
			fl, ok := t.field(ix.X)
			if !ok || fl != "FIndex" {
				return asUnrec(s)
			}
			k, ok := t.exp(ix.Index)
			if !ok {
				return asUnrec(s)
			}
			t.push()
			n := t.define(vn)
			body := t.block(v.Body.List, ind+"    ")
			t.pop()
			return fmt.Sprintf("SIfMapGet %s %d %s\n%s    %s", fl, n, k, ind, body)
		}
		c, ok := t.exp(v.Cond)
		if !ok {
			return asUnrec(s)
		}
		a := t.block(v.Body.List, ind+"    ")
		b := "[]"
		switch e := v.Else.(type) {
		case nil:
		case *ast.BlockStmt:
			b = t.block(e.List, ind+"    ")
		case *ast.IfStmt:
			b = "[" + t.stmt(e, ind+"     ") + "]"
		default:
			return asUnrec(s)
		}
		return "SIf " + c + "\n" + ind + "    " + a + "\n" + ind + "    " + b
	case *ast.SwitchStmt:
		// switch reflect.TypeOf(x).Kind() { case reflect.A, reflect.B: ... }
		if v.Init != nil || v.Tag == nil {
			return asUnrec(s)
		}
		kc, ok := v.Tag.(*ast.CallExpr)
		if !ok || len(kc.Args) != 0 {
			return asUnrec(s)
		}
		ks, ok := kc.Fun.(*ast.SelectorExpr)
		if !ok || ks.Sel.Name != "Kind" {
			return asUnrec(s)
		}
		tc, ok := ks.X.(*ast.CallExpr)
		if !ok || len(tc.Args) != 1 || tc.Ellipsis != token.NoPos {
			return asUnrec(s)
		}
		if p, f, ok := scSel(tc.Fun); !ok || p != "reflect" || f != "TypeOf" {
			return asUnrec(s)
		}
		x, ok := t.exp(tc.Args[0])
		if !ok {
			return asUnrec(s)
		}
		var cases []string
		dflt := "[]"
		for _, cl := range v.Body.List {
			cc := cl.(*ast.CaseClause)
			for _, st := range cc.Body {
				if br, ok := st.(*ast.BranchStmt); ok && br.Tok == token.FALLTHROUGH {
					return asUnrec(s)
				}
			}
			body := t.block(cc.Body, ind+"        ")
			if cc.List == nil {
				dflt = body
				continue
			}
			var names []string
			for _, l := range cc.List {
				p, k, ok := scSel(l)
				if !ok || p != "reflect" {
					return asUnrec(s)
				}
				names = append(names, coqString(k))
			}
			cases = append(cases, "(["+strings.Join(names, "; ")+"],\n"+ind+"        "+body+")")
		}
		return "SSwitchKind " + x + "\n" + ind + "     [" + strings.Join(cases, ";\n"+ind+"      ") + "]\n" + ind + "     " + dflt
	}
	return asUnrec(s)
}

// ---- the skeleton of Compile

func asRecover(s *ast.DeferStmt, errName string) bool {
	fl, ok := s.Call.Fun.(*ast.FuncLit)
	if !ok || len(s.Call.Args) != 0 || len(fl.Body.List) != 1 {
		return false
	}
	is, ok := fl.Body.List[0].(*ast.IfStmt)
	if !ok || is.Init == nil || is.Else != nil || len(is.Body.List) != 1 {
		return false
	}
	in, ok := is.Init.(*ast.AssignStmt)
	if !ok || in.Tok != token.DEFINE || len(in.Lhs) != 1 || len(in.Rhs) != 1 {
		return false
	}
	r, ok := scIdent(in.Lhs[0])
	if !ok {
		return false
	}
	if f, c, ok := scPlainCall(in.Rhs[0]); !ok || f != "recover" || len(c.Args) != 0 {
		return false
	}
	cond, ok := is.Cond.(*ast.BinaryExpr)
	if !ok || cond.Op != token.NEQ {
		return false
	}
	if x, ok := scIdent(cond.X); !ok || x != r {
		return false
	}
	if y, ok := scIdent(cond.Y); !ok || y != "nil" {
		return false
	}
	as, ok := is.Body.List[0].(*ast.AssignStmt)
	if !ok || as.Tok != token.ASSIGN || len(as.Lhs) != 1 || len(as.Rhs) != 1 {
		return false
	}
	if l, ok := scIdent(as.Lhs[0]); !ok || l != errName || errName == "" {
		return false
	}
	// the error value: anything that is not nil
	if y, ok := scIdent(as.Rhs[0]); ok && y == "nil" {
		return false
	}
	return true
}

func asPairs(ps [][2]string) string {
	sort.Slice(ps, func(i, j int) bool { return ps[i][0] < ps[j][0] })
	var out []string
	for _, p := range ps {
		out = append(out, "("+coqString(p[0])+", "+coqString(p[1])+")")
	}
	return "[" + strings.Join(out, "; ") + "]"
}

func genAssemble() {
	f := parseFile("compiler/compiler.go")
	var unrec []string
	bad := func(where, what string) { unrec = append(unrec, where+": "+what) }

	var b strings.Builder
	b.WriteString("(* GENERATED by /verif/translator from compiler/compiler.go — do not edit *)\n")
	b.WriteString("From Coq Require Import ZArith List String.\nRequire Import X.BC.AsmRules.\nImport ListNotations.\nOpen Scope string_scope.\nOpen Scope Z_scope.\n\n")
	b.WriteString("(* one DSL term (coq/BC/AsmRules.v) per function: parameter types, result type, the statements in source order *)\n")

	for _, name := range asFuncNames {
		var fd *ast.FuncDecl
		if asIsMethod[name] {
			fd = funcDecl(f, name, "compiler")
		} else {
			fd = funcDecl(f, name, "")
		}
		if fd == nil || fd.Body == nil {
			bad("compiler.go", name+" not found")
			fmt.Fprintf(&b, "Definition fn_%s : fdef := mkF %s [] \"\" [SUnrecognised \"compiler.go\"].\n\n", name, coqString(name))
			continue
		}
		t := &asFn{}
		t.push()
		if asIsMethod[name] {
			t.recv = scRecvName(fd)
			if t.recv == "" {
				bad(pos(fd), name+": no receiver name")
			}
		}
		var ptypes []string
		if fd.Type.Params != nil {
			for _, p := range fd.Type.Params.List {
				if len(p.Names) == 0 {
					bad(pos(fd), name+": unnamed parameter")
				}
				for _, n := range p.Names {
					t.define(n.Name)
					ptypes = append(ptypes, coqString(src(p.Type)))
				}
			}
		}
		res := ""
		if fd.Type.Results != nil {
			if len(fd.Type.Results.List) != 1 || len(fd.Type.Results.List[0].Names) != 0 {
				bad(pos(fd), name+": results")
			} else {
				res = src(fd.Type.Results.List[0].Type)
			}
		}
		body := asBlock(t.stmts(fd.Body.List, "  "), " ")
		fmt.Fprintf(&b, "Definition fn_%s : fdef := mkF %s [%s] %s\n %s.\n\n", name, coqString(name), strings.Join(ptypes, "; "), coqString(res), body)
	}
	b.WriteString("Definition funcs : list fdef :=\n [")
	for i, name := range asFuncNames {
		if i > 0 {
			b.WriteString("; ")
		}
		b.WriteString("fn_" + name)
	}
	b.WriteString("].\n\n")

	// ---- Compile
	var sk []string
	if fd := funcDecl(f, "Compile", ""); fd == nil || fd.Body == nil {
		bad("compiler.go", "Compile not found")
		sk = append(sk, "CUnrecognised \"compiler.go\"")
	} else {
		treeName, progName, errName := "", "", ""
		if fd.Type.Params != nil && len(fd.Type.Params.List) >= 1 && len(fd.Type.Params.List[0].Names) == 1 {
			treeName = fd.Type.Params.List[0].Names[0].Name
		}
		if r := fd.Type.Results; r != nil && len(r.List) == 2 && len(r.List[0].Names) == 1 && len(r.List[1].Names) == 1 &&
			src(r.List[0].Type) == "*Program" && src(r.List[1].Type) == "error" {
			progName, errName = r.List[0].Names[0].Name, r.List[1].Names[0].Name
		} else {
			bad(pos(fd), "Compile: results are not `(program *Program, err error)`")
		}
		cvar := ""
		norm := func(e ast.Expr) string {
			if x, sel, ok := scSel(e); ok {
				if cvar != "" && x == cvar {
					return "c." + sel
				}
				if treeName != "" && x == treeName {
					return "tree." + sel
				}
			}
			return squeeze(src(e))
		}
		itemsOpen := false
		for _, s := range fd.Body.List {
			un := "CUnrecognised " + coqString(pos(s))
			if cvar != "" && scCallsRecv(s, cvar) {
				// statements that call methods of the compiler value: gen_schemes.go reads them
				if _, isDefer := s.(*ast.DeferStmt); !isDefer {
					if !itemsOpen {
						sk = append(sk, "CItems")
					}
					itemsOpen = true
					continue
				}
			}
			itemsOpen = false
			switch v := s.(type) {
			case *ast.DeferStmt:
				if asRecover(v, errName) {
					sk = append(sk, "CDeferRecover")
					continue
				}
			case *ast.AssignStmt:
				if len(v.Lhs) == 1 && len(v.Rhs) == 1 {
					lhs, _ := scIdent(v.Lhs[0])
					u, isAddr := v.Rhs[0].(*ast.UnaryExpr)
					if isAddr && u.Op == token.AND {
						if cl, ok := u.X.(*ast.CompositeLit); ok {
							ty := src(cl.Type)
							// c := &compiler{f: make(map...), ...}
							if v.Tok == token.DEFINE && ty == "compiler" && cvar == "" && lhs != "" && lhs != "_" {
								var maps []string
								okAll := true
								for _, el := range cl.Elts {
									kv, ok := el.(*ast.KeyValueExpr)
									if !ok {
										okAll = false
										break
									}
									k, ok := scIdent(kv.Key)
									fn, c, ok2 := scPlainCall(kv.Value)
									if !ok || !ok2 || fn != "make" || len(c.Args) != 1 {
										okAll = false
										break
									}
									if _, isMap := c.Args[0].(*ast.MapType); !isMap {
										okAll = false
										break
									}
									maps = append(maps, coqString(k))
								}
								if okAll {
									cvar = lhs
									sort.Strings(maps)
									sk = append(sk, "CNewCompiler ["+strings.Join(maps, "; ")+"]")
									continue
								}
							}
							// program = &Program{F: x, ...}
							if v.Tok == token.ASSIGN && ty == "Program" && lhs == progName && progName != "" {
								var ps [][2]string
								okAll := true
								for _, el := range cl.Elts {
									kv, ok := el.(*ast.KeyValueExpr)
									if !ok {
										okAll = false
										break
									}
									k, ok := scIdent(kv.Key)
									if !ok {
										okAll = false
										break
									}
									ps = append(ps, [2]string{k, norm(kv.Value)})
								}
								if okAll {
									sk = append(sk, "CMkProgram "+asPairs(ps))
									continue
								}
							}
						}
					}
				}
			case *ast.IfStmt:
				// if config != nil { c.f = config.G ... }
				if v.Init == nil && v.Else == nil && cvar != "" {
					if c, ok := v.Cond.(*ast.BinaryExpr); ok && c.Op == token.NEQ {
						cfg, ok1 := scIdent(c.X)
						nl, ok2 := scIdent(c.Y)
						if ok1 && ok2 && nl == "nil" && cfg != cvar {
							var ps [][2]string
							okAll := true
							for _, st := range v.Body.List {
								as, ok := st.(*ast.AssignStmt)
								if !ok || as.Tok != token.ASSIGN || len(as.Lhs) != 1 || len(as.Rhs) != 1 {
									okAll = false
									break
								}
								x, fl, ok := scSel(as.Lhs[0])
								y, g, ok2 := scSel(as.Rhs[0])
								if !ok || !ok2 || x != cvar || y != cfg {
									okAll = false
									break
								}
								ps = append(ps, [2]string{fl, g})
							}
							if okAll {
								sk = append(sk, "CConfig "+asPairs(ps))
								continue
							}
						}
					}
				}
			case *ast.ReturnStmt:
				if len(v.Results) == 0 {
					sk = append(sk, "CReturn")
					continue
				}
			}
			sk = append(sk, un)
		}
	}
	b.WriteString("(* Compile: the deferred recover, the compiler value, the statements calling its methods (CItems: read by\n   gen_schemes.go), the Program *)\n")
	b.WriteString("Definition compile_skeleton : list cstmt :=\n [" + strings.Join(sk, ";\n  ") + "].\n\n")

	b.WriteString("Definition asm_unrecognised : list string := [")
	for i, u := range unrec {
		if i > 0 {
			b.WriteString("; ")
		}
		b.WriteString(coqString(u))
	}
	b.WriteString("].\n\n")
	b.WriteString("Definition asm_src : X.BC.AsmRules.asm_src := mkSrc funcs compile_skeleton asm_unrecognised.\n")
	writeIfChanged("GenAssemble.v", b.String())
}

func init() { generators = append(generators, genAssemble) }

package main

func genOpcodes()  {}
func genWalk()     {}
func genGrammar()  {}
func genVM()       {}
func genPipeline() {}

package main

// genParser: the functions of parser/parser.go as terms of the imperative DSL of coq/Parse/ParseRules.v
// -> coq/gen/GenParser.v.
//
// A syntactic reading, statement by statement and in source order, of Parse (from `p := &parser{...}`
// on), parseExpression, parsePrimary, parseConditionalExpression, parsePrimaryExpression,
// parseIdentifierExpression, parseClosure, parseArrayExpression, parseMapExpression,
// parsePostfixExpression and parseArguments.  The primitives the DSL takes for granted (the parser
// struct, error, next, expect, isValidIdentifier, Token.Is, the prologue of Parse) are compared with
// the text the interpreter was written against.
//
// What the reading normalises away: names of local variables and parameters (numbered by position
// among the visible variables), names of labels (numbered in order of definition), the text of error
// messages, comments, layout.  Anything that is not one of the shapes below becomes
// `SUnrecognised "parser.go:<line>"`, which makes genparser_recognised (coq/Bridge/BrParser.v) fail.

import (
	"fmt"
	"go/ast"
	"go/token"
	"strconv"
	"strings"
)

var gpFuncs = []string{"Parse", "parseExpression", "parsePrimary", "parseConditionalExpression",
	"parsePrimaryExpression", "parseIdentifierExpression", "parseClosure", "parseArrayExpression",
	"parseMapExpression", "parsePostfixExpression", "parseArguments"}

var gpKinds = map[string]string{"Identifier": "TkIdentifier", "Number": "TkNumber", "String": "TkString",
	"Operator": "TkOperator", "Bracket": "TkBracket", "EOF": "TkEOF"}

var gpTables = map[string]bool{"unaryOperators": true, "binaryOperators": true, "builtins": true}

var gpFields = map[string]bool{"Value": true, "Kind": true, "Location": true, "precedence": true,
	"associativity": true, "arity": true}

var gpCmp = map[token.Token]string{token.EQL: "OpEq", token.NEQ: "OpNe", token.GEQ: "OpGe", token.GTR: "OpGt",
	token.LEQ: "OpLe", token.LSS: "OpLt"}

// whitespace-normalised source text
func gpText(n ast.Node) string { return strings.Join(strings.Fields(src(n)), " ") }

var gpExpected = map[string]string{
	"parser":            "struct { tokens []Token current Token pos int err *file.Error depth int }",
	"error":             "{ if p.err == nil { p.err = &file.Error{ Location: p.current.Location, Message: fmt.Sprintf(format, args...), } } }",
	"next":              "{ p.pos++ if p.pos >= len(p.tokens) { p.error(\"unexpected end of expression\") return } p.current = p.tokens[p.pos] }",
	"expect":            "{ if p.current.Is(kind, values...) { p.next() return } p.error(\"unexpected token %v\", p.current) }",
	"isValidIdentifier": "{ if len(str) == 0 { return false } h, w := utf8.DecodeRuneInString(str) if !IsAlphabetic(h) { return false } for _, r := range str[w:] { if !IsAlphaNumeric(r) { return false } } return true }",
	"Token.Is":          "{ if len(values) == 0 { return kind == t.Kind } for _, v := range values { if v == t.Value { goto found } } return false found: return kind == t.Kind }",
	"Parse-prologue":    "source := file.NewSource(input) tokens, err := Lex(source) if err != nil { return nil, err }",
	"Parse-init":        "p := &parser{ tokens: tokens, current: tokens[0], }",
	"Parse-error":       "return nil, p.err.Bind(source)",
	"Parse-tree":        "&Tree{ Node: %s, Source: source, }, nil",
}

type gpFn struct {
	recv      string
	scopes    []map[string]int // name -> variable number
	labels    map[string]int
	breakable []string // "for" / "switch", innermost last
	isParse   bool
}

func (t *gpFn) push() { t.scopes = append(t.scopes, map[string]int{}) }
func (t *gpFn) pop()  { t.scopes = t.scopes[:len(t.scopes)-1] }

func (t *gpFn) count() int {
	n := 0
	for _, sc := range t.scopes {
		n += len(sc)
	}
	return n
}

func (t *gpFn) find(name string) (int, bool) {
	for i := len(t.scopes) - 1; i >= 0; i-- {
		if v, ok := t.scopes[i][name]; ok {
			return v, true
		}
	}
	return 0, false
}

// a new variable in the innermost scope; its number is the number of variables visible so far
func (t *gpFn) define(name string) int {
	n := t.count()
	t.scopes[len(t.scopes)-1][name] = n
	return n
}

func gpIdent(e ast.Expr) (string, bool) {
	id, ok := e.(*ast.Ident)
	if !ok {
		return "", false
	}
	return id.Name, true
}

func gpStrLit(e ast.Expr) (string, bool) {
	bl, ok := e.(*ast.BasicLit)
	if !ok || bl.Kind != token.STRING {
		return "", false
	}
	s, err := strconv.Unquote(bl.Value)
	if err != nil {
		return "", false
	}
	for i := 0; i < len(s); i++ {
		if s[i] < 32 || s[i] > 126 {
			return "", false
		}
	}
	return s, true
}

func gpIntLit(e ast.Expr) (string, bool) {
	neg := false
	if u, ok := e.(*ast.UnaryExpr); ok && u.Op == token.SUB {
		neg = true
		e = u.X
	}
	bl, ok := e.(*ast.BasicLit)
	if !ok || bl.Kind != token.INT {
		return "", false
	}
	v, err := strconv.ParseInt(bl.Value, 0, 64)
	if err != nil {
		return "", false
	}
	if neg {
		return fmt.Sprintf("(-%d)", v), true
	}
	return fmt.Sprintf("%d", v), true
}

// p.f / p.f(...)
func (t *gpFn) recvSel(e ast.Expr) (string, bool) {
	s, ok := e.(*ast.SelectorExpr)
	if !ok {
		return "", false
	}
	x, ok := gpIdent(s.X)
	if !ok || x != t.recv {
		return "", false
	}
	if _, shadow := t.find(x); shadow {
		return "", false
	}
	return s.Sel.Name, true
}

func (t *gpFn) recvCall(e ast.Expr) (string, *ast.CallExpr, bool) {
	c, ok := e.(*ast.CallExpr)
	if !ok || c.Ellipsis != token.NoPos {
		return "", nil, false
	}
	m, ok := t.recvSel(c.Fun)
	if !ok {
		return "", nil, false
	}
	return m, c, true
}

// pkg.f(args) with pkg not a local variable
func (t *gpFn) pkgCall(e ast.Expr) (string, *ast.CallExpr, bool) {
	c, ok := e.(*ast.CallExpr)
	if !ok || c.Ellipsis != token.NoPos {
		return "", nil, false
	}
	s, ok := c.Fun.(*ast.SelectorExpr)
	if !ok {
		return "", nil, false
	}
	x, ok := gpIdent(s.X)
	if !ok {
		return "", nil, false
	}
	if _, local := t.find(x); local || x == t.recv {
		return "", nil, false
	}
	return x + "." + s.Sel.Name, c, true
}

func gpList(items []string) string { return "[" + strings.Join(items, "; ") + "]" }

func gpStrList(vals []string) string {
	q := make([]string, len(vals))
	for i, v := range vals {
		q[i] = coqString(v)
	}
	return gpList(q)
}

// a pure expression
func (t *gpFn) pexp(e ast.Expr) (string, bool) {
	switch x := e.(type) {
	case *ast.ParenExpr:
		return t.pexp(x.X)
	case *ast.Ident:
		if v, ok := t.find(x.Name); ok {
			return fmt.Sprintf("QVar %d", v), true
		}
		switch x.Name {
		case "true":
			return "QBool true", true
		case "false":
			return "QBool false", true
		case "nil":
			return "QNil", true
		case "left":
			return "QAssoc false", true
		case "right":
			return "QAssoc true", true
		}
		if k, ok := gpKinds[x.Name]; ok {
			return "QKind " + k, true
		}
	case *ast.BasicLit:
		if s, ok := gpStrLit(x); ok {
			return "QStr " + coqString(s), true
		}
		if z, ok := gpIntLit(x); ok {
			return "QInt " + z, true
		}
	case *ast.UnaryExpr:
		if x.Op == token.SUB {
			if z, ok := gpIntLit(x); ok {
				return "QInt " + z, true
			}
		}
		if x.Op == token.AND {
			cl, ok := x.X.(*ast.CompositeLit)
			if !ok {
				return "", false
			}
			ty, ok := gpIdent(cl.Type)
			if !ok || !strings.HasSuffix(ty, "Node") {
				return "", false
			}
			var fs []string
			seen := map[string]bool{}
			for _, el := range cl.Elts {
				kv, ok := el.(*ast.KeyValueExpr)
				if !ok {
					return "", false
				}
				k, ok := gpIdent(kv.Key)
				if !ok || seen[k] {
					return "", false
				}
				seen[k] = true
				v, ok := t.pexp(kv.Value)
				if !ok {
					return "", false
				}
				fs = append(fs, "("+coqString(k)+", "+v+")")
			}
			return "QNew " + coqString(ty) + " " + gpList(fs), true
		}
	case *ast.BinaryExpr:
		if x.Op == token.ADD {
			a, ok1 := t.pexp(x.X)
			b, ok2 := t.pexp(x.Y)
			if ok1 && ok2 {
				return "QAdd (" + a + ") (" + b + ")", true
			}
		}
	case *ast.SelectorExpr:
		if f, ok := t.recvSel(x); ok {
			switch f {
			case "current":
				return "QCur", true
			case "depth":
				return "QDepth", true
			}
			return "", false
		}
		if !gpFields[x.Sel.Name] {
			return "", false
		}
		a, ok := t.pexp(x.X)
		if !ok {
			return "", false
		}
		return "QField (" + a + ") " + coqString(x.Sel.Name), true
	case *ast.CallExpr:
		if x.Ellipsis != token.NoPos {
			return "", false
		}
		if f, ok := gpIdent(x.Fun); ok {
			if _, local := t.find(f); local {
				return "", false
			}
			switch {
			case f == "len" && len(x.Args) == 1:
				if a, ok := t.pexp(x.Args[0]); ok {
					return "QLen (" + a + ")", true
				}
			case f == "int" && len(x.Args) == 1:
				if a, ok := t.pexp(x.Args[0]); ok {
					return "QIntConv (" + a + ")", true
				}
			case f == "append" && len(x.Args) == 2:
				a, ok1 := t.pexp(x.Args[0])
				b, ok2 := t.pexp(x.Args[1])
				if ok1 && ok2 {
					return "QAppend (" + a + ") (" + b + ")", true
				}
			case f == "make" && len(x.Args) == 2:
				if gpText(x.Args[0]) == "[]Node" {
					if z, ok := gpIntLit(x.Args[1]); ok {
						return "QMake " + z, true
					}
				}
			}
			return "", false
		}
		if f, c, ok := t.pkgCall(x); ok && f == "strings.Replace" && len(c.Args) == 4 {
			// strings.Replace(a, "_", "", -1)
			if gpText(c.Args[1]) == `"_"` && gpText(c.Args[2]) == `""` && gpText(c.Args[3]) == "-1" {
				if a, ok := t.pexp(c.Args[0]); ok {
					return "QStrip (" + a + ")", true
				}
			}
		}
	}
	return "", false
}

func (t *gpFn) kindArg(e ast.Expr) (string, bool) {
	id, ok := gpIdent(e)
	if !ok {
		return "", false
	}
	if _, local := t.find(id); local {
		return "", false
	}
	k, ok := gpKinds[id]
	return k, ok
}

// Kind, "v1", "v2", ...
func (t *gpFn) kindVals(args []ast.Expr) (string, string, bool) {
	if len(args) < 1 {
		return "", "", false
	}
	k, ok := t.kindArg(args[0])
	if !ok {
		return "", "", false
	}
	var vals []string
	for _, a := range args[1:] {
		s, ok := gpStrLit(a)
		if !ok {
			return "", "", false
		}
		vals = append(vals, s)
	}
	return k, gpStrList(vals), true
}

func (t *gpFn) cond(e ast.Expr) (string, bool) {
	switch x := e.(type) {
	case *ast.ParenExpr:
		return t.cond(x.X)
	case *ast.UnaryExpr:
		if x.Op == token.NOT {
			if c, ok := t.cond(x.X); ok {
				return "CNot (" + c + ")", true
			}
		}
	case *ast.BinaryExpr:
		switch x.Op {
		case token.LAND, token.LOR:
			a, ok1 := t.cond(x.X)
			b, ok2 := t.cond(x.Y)
			if ok1 && ok2 {
				if x.Op == token.LAND {
					return "CAnd (" + a + ") (" + b + ")", true
				}
				return "COr (" + a + ") (" + b + ")", true
			}
			return "", false
		}
		if op, ok := gpCmp[x.Op]; ok {
			// p.err == nil / p.err != nil
			if f, ok := t.recvSel(x.X); ok && f == "err" {
				if id, ok := gpIdent(x.Y); ok && id == "nil" {
					if x.Op == token.EQL {
						return "CErrNil", true
					}
					if x.Op == token.NEQ {
						return "CNot (CErrNil)", true
					}
				}
				return "", false
			}
			a, ok1 := t.pexp(x.X)
			b, ok2 := t.pexp(x.Y)
			if ok1 && ok2 {
				return "CCmp " + op + " (" + a + ") (" + b + ")", true
			}
		}
	case *ast.CallExpr:
		if x.Ellipsis != token.NoPos {
			return "", false
		}
		// t.Is(K, vals...)
		if s, ok := x.Fun.(*ast.SelectorExpr); ok && s.Sel.Name == "Is" {
			if _, isRecv := t.recvSel(x.Fun); !isRecv {
				tk, ok := t.pexp(s.X)
				if !ok {
					return "", false
				}
				k, vals, ok := t.kindVals(x.Args)
				if !ok {
					return "", false
				}
				return "CIs (" + tk + ") " + k + " " + vals, true
			}
		}
		if f, ok := gpIdent(x.Fun); ok && f == "isValidIdentifier" && len(x.Args) == 1 {
			if _, local := t.find(f); !local {
				if a, ok := t.pexp(x.Args[0]); ok {
					return "CValid (" + a + ")", true
				}
			}
		}
		if f, c, ok := t.pkgCall(x); ok && f == "strings.ContainsAny" && len(c.Args) == 2 {
			a, ok1 := t.pexp(c.Args[0])
			s, ok2 := gpStrLit(c.Args[1])
			if ok1 && ok2 {
				return "CContainsAny (" + a + ") " + coqString(s), true
			}
		}
	}
	return "", false
}

var gpCallable = map[string]bool{"parseExpression": true, "parsePrimary": true, "parseConditionalExpression": true,
	"parsePrimaryExpression": true, "parseIdentifierExpression": true, "parseClosure": true,
	"parseArrayExpression": true, "parseMapExpression": true, "parsePostfixExpression": true, "parseArguments": true}

// a right-hand side: p.parseX(args) or a pure expression
func (t *gpFn) rhs(e ast.Expr) (string, bool) {
	if m, c, ok := t.recvCall(e); ok {
		if !gpCallable[m] {
			return "", false
		}
		var args []string
		for _, a := range c.Args {
			x, ok := t.pexp(a)
			if !ok {
				return "", false
			}
			args = append(args, x)
		}
		return "RCall " + coqString(m) + " " + gpList(args), true
	}
	x, ok := t.pexp(e)
	if !ok {
		return "", false
	}
	return "RPure (" + x + ")", true
}

func gpUnrec(n ast.Node) string { return "SUnrecognised " + coqString(pos(n)) }

func gpBlock(items []string, ind string) string {
	if len(items) == 0 {
		return "[]"
	}
	return "[" + strings.Join(items, ";\n"+ind) + "]"
}

func (t *gpFn) block(list []ast.Stmt, ind string) string {
	t.push()
	defer t.pop()
	return gpBlock(t.stmts(list, ind+" "), ind+" ")
}

func (t *gpFn) stmts(list []ast.Stmt, ind string) []string {
	var out []string
	for _, s := range list {
		out = append(out, t.stmt(s, ind)...)
	}
	return out
}

// the variable a statement assigns to: existing for `=`, new for `:=`
func (t *gpFn) target(e ast.Expr, def bool) (int, bool) {
	name, ok := gpIdent(e)
	if !ok || name == "_" || name == t.recv {
		return 0, false
	}
	if def {
		if _, here := t.scopes[len(t.scopes)-1][name]; here {
			return 0, false
		}
		return t.define(name), true
	}
	return t.find(name)
}

func (t *gpFn) stmt(s ast.Stmt, ind string) []string {
	one := func(x string) []string { return []string{x} }
	bad := one(gpUnrec(s))
	switch x := s.(type) {
	case *ast.ExprStmt:
		if m, c, ok := t.recvCall(x.X); ok {
			switch m {
			case "next":
				if len(c.Args) == 0 {
					return one("SNext")
				}
			case "expect":
				if k, vals, ok := t.kindVals(c.Args); ok {
					return one("SExpect " + k + " " + vals)
				}
			case "error":
				if len(c.Args) >= 1 {
					if _, ok := gpStrLit(c.Args[0]); ok {
						return one("SError")
					}
				}
			}
			return bad
		}
		// v.SetLocation(l)
		if c, ok := x.X.(*ast.CallExpr); ok && c.Ellipsis == token.NoPos && len(c.Args) == 1 {
			if sel, ok := c.Fun.(*ast.SelectorExpr); ok && sel.Sel.Name == "SetLocation" {
				if name, ok := gpIdent(sel.X); ok {
					if v, ok := t.find(name); ok {
						if l, ok := t.pexp(c.Args[0]); ok {
							return one(fmt.Sprintf("SSetLoc %d (%s)", v, l))
						}
					}
				}
			}
		}
		return bad
	case *ast.IncDecStmt:
		if f, ok := t.recvSel(x.X); ok && f == "depth" {
			if x.Tok == token.INC {
				return one("SDepth true")
			}
			return one("SDepth false")
		}
		return bad
	case *ast.DeclStmt:
		gd, ok := x.Decl.(*ast.GenDecl)
		if !ok || gd.Tok != token.VAR {
			return bad
		}
		var out []string
		for _, sp := range gd.Specs {
			vs, ok := sp.(*ast.ValueSpec)
			if !ok || vs.Type == nil || len(vs.Values) != 0 {
				return bad
			}
			ty := gpText(vs.Type)
			switch ty {
			case "Node", "[]Node", "bool", "*regexp.Regexp", "error":
			default:
				return bad
			}
			for _, n := range vs.Names {
				v, ok := t.target(n, true)
				if !ok {
					return bad
				}
				out = append(out, fmt.Sprintf("SAssign %d (RPure (QZero %s))", v, coqString(ty)))
			}
		}
		return out
	case *ast.AssignStmt:
		if x.Tok != token.DEFINE && x.Tok != token.ASSIGN {
			return bad
		}
		def := x.Tok == token.DEFINE
		if t.isParse && def && gpText(x) == gpExpected["Parse-init"] {
			t.recv = "p"
			return one("SInit")
		}
		if len(x.Lhs) == 1 && len(x.Rhs) == 1 {
			// the right-hand side is read before the variable comes into scope
			r, ok := t.rhs(x.Rhs[0])
			if !ok {
				return bad
			}
			if ix, ok := x.Lhs[0].(*ast.IndexExpr); ok && !def {
				name, ok1 := gpIdent(ix.X)
				i, ok2 := gpIntLit(ix.Index)
				if ok1 && ok2 {
					if v, ok := t.find(name); ok {
						return one(fmt.Sprintf("SSetIndex %d %s (%s)", v, i, r))
					}
				}
				return bad
			}
			v, ok := t.target(x.Lhs[0], def)
			if !ok {
				return bad
			}
			return one(fmt.Sprintf("SAssign %d (%s)", v, r))
		}
		if len(x.Lhs) == 2 && len(x.Rhs) == 1 {
			f, c, ok := t.pkgCall(x.Rhs[0])
			if !ok {
				return bad
			}
			var args []string
			switch {
			case f == "strconv.ParseInt" && len(c.Args) == 3:
				a, ok1 := t.pexp(c.Args[0])
				b, ok2 := gpIntLit(c.Args[1])
				n, ok3 := gpIntLit(c.Args[2])
				if !ok1 || !ok2 || !ok3 {
					return bad
				}
				args = []string{"SParseInt", "(" + a + ")", b, n}
			case f == "strconv.ParseFloat" && len(c.Args) == 2:
				a, ok1 := t.pexp(c.Args[0])
				n, ok2 := gpIntLit(c.Args[1])
				if !ok1 || !ok2 {
					return bad
				}
				args = []string{"SParseFloat", "(" + a + ")", n}
			case f == "regexp.Compile" && len(c.Args) == 1:
				a, ok1 := t.pexp(c.Args[0])
				if !ok1 {
					return bad
				}
				args = []string{"SCompile", "(" + a + ")"}
			default:
				return bad
			}
			n0, n1 := gpIdentName(x.Lhs[0]), gpIdentName(x.Lhs[1])
			if n0 == "" || n1 == "" || n0 == n1 {
				return bad
			}
			v0, ok0 := t.target(x.Lhs[0], def)
			v1, ok1 := t.target(x.Lhs[1], def)
			if !ok0 || !ok1 {
				return bad
			}
			return one(fmt.Sprintf("%s %d %d %s", args[0], v0, v1, strings.Join(args[1:], " ")))
		}
		return bad
	case *ast.IfStmt:
		t.push() // the scope of the if statement (its init variable)
		defer t.pop()
		els := func() (string, bool) {
			switch e := x.Else.(type) {
			case nil:
				return "[]", true
			case *ast.BlockStmt:
				return t.block(e.List, ind+"   "), true
			case *ast.IfStmt:
				t.push()
				defer t.pop()
				return gpBlock(t.stmt(e, ind+"    "), ind+"    "), true
			}
			return "", false
		}
		if x.Init == nil {
			c, ok := t.cond(x.Cond)
			if !ok {
				return bad
			}
			a := t.block(x.Body.List, ind+"   ")
			b, ok := els()
			if !ok {
				return bad
			}
			return one("SIf (" + c + ")\n" + ind + "   " + a + "\n" + ind + "   " + b)
		}
		// if v, ok := table[key]; ok   /   if v, ok := e.(*T); ok
		as, ok := x.Init.(*ast.AssignStmt)
		if !ok || as.Tok != token.DEFINE || len(as.Lhs) != 2 || len(as.Rhs) != 1 {
			return bad
		}
		vname, okname := gpIdentName(as.Lhs[0]), gpIdentName(as.Lhs[1])
		cname, isId := gpIdent(x.Cond)
		if vname == "" || vname == "_" || okname == "" || !isId || cname != okname || vname == okname {
			return bad
		}
		if _, clash := t.find(okname); clash {
			return bad
		}
		var head string
		switch r := as.Rhs[0].(type) {
		case *ast.IndexExpr:
			tbl, ok := gpIdent(r.X)
			if !ok || !gpTables[tbl] {
				return bad
			}
			if _, local := t.find(tbl); local {
				return bad
			}
			key, ok := t.pexp(r.Index)
			if !ok {
				return bad
			}
			head = "SIfLookup " + coqString(tbl) + " (" + key + ")"
		case *ast.TypeAssertExpr:
			st, ok := r.Type.(*ast.StarExpr)
			if !ok {
				return bad
			}
			ty, ok := gpIdent(st.X)
			if !ok {
				return bad
			}
			e, ok := t.pexp(r.X)
			if !ok {
				return bad
			}
			head = "SIfNode (" + e + ") " + coqString(ty)
		default:
			return bad
		}
		// the else branch does not see a usable v (ok is false there): it is translated before v is defined
		b, ok := els()
		if !ok {
			return bad
		}
		v := t.define(vname)
		a := t.block(x.Body.List, ind+"   ")
		return one(fmt.Sprintf("%s %d\n%s   %s\n%s   %s", head, v, ind, a, ind, b))
	case *ast.SwitchStmt:
		if x.Init != nil || x.Tag == nil {
			return bad
		}
		tag, ok := t.pexp(x.Tag)
		if !ok {
			return bad
		}
		t.breakable = append(t.breakable, "switch")
		defer func() { t.breakable = t.breakable[:len(t.breakable)-1] }()
		var cases []string
		dflt := "[]"
		nd := 0
		for _, cl := range x.Body.List {
			cc := cl.(*ast.CaseClause)
			if len(cc.Body) > 0 {
				if br, ok := cc.Body[len(cc.Body)-1].(*ast.BranchStmt); ok && br.Tok == token.FALLTHROUGH {
					return bad
				}
			}
			if cc.List == nil {
				nd++
				dflt = t.block(cc.Body, ind+"     ")
				continue
			}
			var labels []string
			for _, l := range cc.List {
				p, ok := t.pexp(l)
				if !ok {
					return bad
				}
				labels = append(labels, p)
			}
			cases = append(cases, "("+gpList(labels)+",\n"+ind+"     "+t.block(cc.Body, ind+"     ")+")")
		}
		if nd > 1 {
			return bad
		}
		return one("SSwitch (" + tag + ")\n" + ind + "   " + gpBlock(cases, ind+"    ") + "\n" + ind + "   " + dflt)
	case *ast.ForStmt:
		if x.Init != nil || x.Post != nil || x.Cond == nil {
			return bad
		}
		c, ok := t.cond(x.Cond)
		if !ok {
			return bad
		}
		t.breakable = append(t.breakable, "for")
		defer func() { t.breakable = t.breakable[:len(t.breakable)-1] }()
		return one("SWhile (" + c + ")\n" + ind + "   " + t.block(x.Body.List, ind+"   "))
	case *ast.BranchStmt:
		switch x.Tok {
		case token.BREAK, token.CONTINUE:
			if x.Label != nil {
				return bad
			}
			// the innermost for; a break inside a switch would leave the switch only
			for i := len(t.breakable) - 1; i >= 0; i-- {
				if t.breakable[i] == "switch" {
					return bad
				}
				if t.breakable[i] == "for" {
					if x.Tok == token.BREAK {
						return one("SBreak")
					}
					return one("SContinue")
				}
			}
			return bad
		case token.GOTO:
			if l, ok := t.labels[x.Label.Name]; ok {
				return one(fmt.Sprintf("SGoto %d", l))
			}
		}
		return bad
	case *ast.LabeledStmt:
		l, ok := t.labels[x.Label.Name]
		if !ok {
			return bad
		}
		return append(one(fmt.Sprintf("SLabel %d", l)), t.stmt(x.Stmt, ind)...)
	case *ast.ReturnStmt:
		if t.isParse {
			if gpText(x) == gpExpected["Parse-error"] {
				return one("SReturnErr")
			}
			if len(x.Results) == 2 {
				if u, ok := x.Results[0].(*ast.UnaryExpr); ok && u.Op == token.AND {
					if cl, ok := u.X.(*ast.CompositeLit); ok && len(cl.Elts) == 2 {
						if kv, ok := cl.Elts[0].(*ast.KeyValueExpr); ok {
							if name, ok := gpIdent(kv.Value); ok {
								if v, ok := t.find(name); ok && gpText(x) == "return "+fmt.Sprintf(gpExpected["Parse-tree"], name) {
									return one(fmt.Sprintf("SReturn (RPure (QVar %d))", v))
								}
							}
						}
					}
				}
			}
			return bad
		}
		if len(x.Results) != 1 {
			return bad
		}
		r, ok := t.rhs(x.Results[0])
		if !ok {
			return bad
		}
		return one("SReturn (" + r + ")")
	}
	return bad
}

func gpIdentName(e ast.Expr) string {
	n, _ := gpIdent(e)
	return n
}

// labels in order of definition
func gpLabels(body *ast.BlockStmt) map[string]int {
	m := map[string]int{}
	ast.Inspect(body, func(n ast.Node) bool {
		if l, ok := n.(*ast.LabeledStmt); ok {
			if _, seen := m[l.Label.Name]; !seen {
				m[l.Label.Name] = len(m)
			}
		}
		return true
	})
	return m
}

func genParser() {
	f := parseFile("parser/parser.go")
	lf := parseFile("parser/lexer/token.go")
	var unrec []string
	bad := func(where, what string) { unrec = append(unrec, where+": "+what) }

	type fn struct {
		name   string
		params int
		body   string
	}
	var fns []fn

	if f == nil {
		bad("parser.go", "cannot be parsed")
	} else {
		// ---- primitives: the text the interpreter was written against
		structOK := false
		for _, d := range f.Decls {
			gd, ok := d.(*ast.GenDecl)
			if !ok || gd.Tok != token.TYPE {
				continue
			}
			for _, sp := range gd.Specs {
				ts := sp.(*ast.TypeSpec)
				if ts.Name.Name == "parser" {
					// comments inside the struct are not part of the text
					if st, ok := ts.Type.(*ast.StructType); ok {
						var fs []string
						for _, fl := range st.Fields.List {
							for _, n := range fl.Names {
								fs = append(fs, n.Name+" "+gpText(fl.Type))
							}
						}
						structOK = "struct { "+strings.Join(fs, " ")+" }" == gpExpected["parser"]
					}
				}
			}
		}
		if !structOK {
			bad("parser.go", "type parser is not the expected struct")
		}
		for _, prim := range []struct{ name, recv string }{{"error", "parser"}, {"next", "parser"}, {"expect", "parser"}, {"isValidIdentifier", ""}} {
			fd := funcDecl(f, prim.name, prim.recv)
			if fd == nil || fd.Body == nil {
				bad("parser.go", prim.name+" not found")
				continue
			}
			if prim.recv != "" && (len(fd.Recv.List[0].Names) != 1 || fd.Recv.List[0].Names[0].Name != "p") {
				bad(pos(fd), prim.name+": receiver is not p")
				continue
			}
			if gpText(fd.Body) != gpExpected[prim.name] || gpText(fd.Type) != gpPrimTypes[prim.name] {
				bad(pos(fd), prim.name+" is not the expected text")
			}
		}
		if fd := funcDecl(lf, "Is", "Token"); fd == nil || fd.Body == nil || gpText(fd.Body) != gpExpected["Token.Is"] ||
			gpText(fd.Type) != "func(kind Kind, values ...string) bool" || len(fd.Recv.List[0].Names) != 1 || fd.Recv.List[0].Names[0].Name != "t" {
			bad("token.go", "Token.Is is not the expected text")
		}

		// ---- the parse functions
		for _, name := range gpFuncs {
			recv := "parser"
			if name == "Parse" {
				recv = ""
			}
			fd := funcDecl(f, name, recv)
			if fd == nil || fd.Body == nil {
				bad("parser.go", name+" not found")
				continue
			}
			t := &gpFn{labels: gpLabels(fd.Body)}
			t.push()
			body := fd.Body.List
			if name == "Parse" {
				t.isParse = true
				if gpText(fd.Type) != "func(input string) (*Tree, error)" || len(body) < 4 ||
					gpText(body[0])+" "+gpText(body[1])+" "+gpText(body[2]) != gpExpected["Parse-prologue"] {
					bad(pos(fd), "Parse: prologue is not the expected text")
					continue
				}
				body = body[3:]
				fns = append(fns, fn{name, 0, gpBlock(t.stmts(body, "   "), "   ")})
				continue
			}
			if len(fd.Recv.List[0].Names) != 1 {
				bad(pos(fd), name+": receiver")
				continue
			}
			t.recv = fd.Recv.List[0].Names[0].Name
			okSig := true
			for _, fl := range fd.Type.Params.List {
				ty := gpText(fl.Type)
				if ty != "int" && ty != "Node" && ty != "Token" {
					okSig = false
				}
				for _, n := range fl.Names {
					if n.Name == "_" || n.Name == t.recv {
						okSig = false
					}
					t.define(n.Name)
				}
			}
			if fd.Type.Results.NumFields() != 1 {
				okSig = false
			} else if rt := gpText(fd.Type.Results.List[0].Type); rt != "Node" && rt != "[]Node" {
				okSig = false
			}
			if !okSig {
				bad(pos(fd), name+": signature")
				continue
			}
			n := t.count()
			fns = append(fns, fn{name, n, gpBlock(t.stmts(body, "   "), "   ")})
		}
	}

	var b strings.Builder
	b.WriteString("(* GENERATED by /verif/translator from parser/parser.go, parser/lexer/token.go — do not edit *)\n")
	b.WriteString("From Coq Require Import ZArith List String.\nRequire Import X.Syn.Tok X.Parse.ParseRules.\nImport ListNotations.\nOpen Scope string_scope.\nOpen Scope Z_scope.\n\n")
	b.WriteString("(* one DSL term (coq/Parse/ParseRules.v) per function: name, number of parameters, the statements in source order *)\n")
	for _, x := range fns {
		fmt.Fprintf(&b, "Definition gen_%s : fndef :=\n mkFn %s %d\n  %s.\n\n", x.name, coqString(x.name), x.params, x.body)
	}
	b.WriteString("(* primitives whose text is not the one the interpreter was written against; missing functions *)\n")
	b.WriteString("Definition genparser_unrecognised : list string := [")
	for i, u := range unrec {
		if i > 0 {
			b.WriteString("; ")
		}
		b.WriteString(coqString(u))
	}
	b.WriteString("].\n\n")
	b.WriteString("Definition parser_program : program :=\n mkProgram [")
	for i, x := range fns {
		if i > 0 {
			b.WriteString("; ")
		}
		b.WriteString("gen_" + x.name)
	}
	b.WriteString("] genparser_unrecognised.\n")
	writeIfChanged("GenParser.v", b.String())
}

var gpPrimTypes = map[string]string{
	"error":             "func(format string, args ...interface{})",
	"next":              "func()",
	"expect":            "func(kind Kind, values ...string)",
	"isValidIdentifier": "func(str string) bool",
}

func init() { generators = append(generators, genParser) }

// translator: reads the current /repo sources with go/parser and regenerates the table-like
// parts of the Coq model (coq/gen/*.v).  Output is canonical (sorted), so reformatting or
// reordering cases in the Go source does not change it.  A shape the translator does not
// recognise is emitted as an `Unrecognised`/`OBad` entry, which makes the bridge lemma fail.
package main

import (
	"bytes"
	"flag"
	"fmt"
	"go/ast"
	"go/parser"
	"go/printer"
	"go/token"
	"os"
	"path/filepath"
	"sort"
	"strings"
)

var repo = flag.String("repo", "/repo", "repository root")
var out = flag.String("out", "/verif/coq/gen", "output directory")

var fset = token.NewFileSet()

func parseFile(rel string) *ast.File {
	f, err := parser.ParseFile(fset, filepath.Join(*repo, rel), nil, parser.ParseComments)
	if err != nil {
		fmt.Fprintf(os.Stderr, "translator: cannot parse %s: %v\n", rel, err)
		return nil
	}
	return f
}

func src(n ast.Node) string {
	var b bytes.Buffer
	printer.Fprint(&b, fset, n)
	return b.String()
}

func pos(n ast.Node) string {
	p := fset.Position(n.Pos())
	return fmt.Sprintf("%s:%d", filepath.Base(p.Filename), p.Line)
}

func funcDecl(f *ast.File, name string, recv string) *ast.FuncDecl {
	if f == nil {
		return nil
	}
	for _, d := range f.Decls {
		fd, ok := d.(*ast.FuncDecl)
		if !ok || fd.Name.Name != name {
			continue
		}
		if recv == "" && fd.Recv == nil {
			return fd
		}
		if recv != "" && fd.Recv != nil && len(fd.Recv.List) == 1 {
			t := src(fd.Recv.List[0].Type)
			if strings.TrimPrefix(t, "*") == recv {
				return fd
			}
		}
	}
	return nil
}

func writeIfChanged(name, content string) {
	p := filepath.Join(*out, name)
	old, err := os.ReadFile(p)
	if err == nil && string(old) == content {
		return
	}
	if err := os.WriteFile(p, []byte(content), 0644); err != nil {
		panic(err)
	}
}

func coqString(s string) string {
	return "\"" + strings.ReplaceAll(s, "\"", "\"\"") + "\""
}

var kindNames = map[string]string{
	"uint": "KUint", "uint8": "KUint8", "uint16": "KUint16", "uint32": "KUint32", "uint64": "KUint64",
	"int": "KInt", "int8": "KInt8", "int16": "KInt16", "int32": "KInt32", "int64": "KInt64",
	"float32": "KF32", "float64": "KF64",
}
var kindOrder = []string{"uint", "uint8", "uint16", "uint32", "uint64", "int", "int8", "int16", "int32", "int64", "float32", "float64"}

var reflectKindNames = map[string]string{
	"Uint": "KUint", "Uint8": "KUint8", "Uint16": "KUint16", "Uint32": "KUint32", "Uint64": "KUint64",
	"Int": "KInt", "Int8": "KInt8", "Int16": "KInt16", "Int32": "KInt32", "Int64": "KInt64",
	"Float32": "KF32", "Float64": "KF64",
}

func sortedKeys(m map[string]string) []string {
	ks := make([]string, 0, len(m))
	for k := range m {
		ks = append(ks, k)
	}
	sort.Strings(ks)
	return ks
}

// generators register themselves in an init() of their own file: generators = append(generators, genX)
var generators []func()

func main() {
	flag.Parse()
	os.MkdirAll(*out, 0755)
	for _, g := range generators {
		g()
	}
}

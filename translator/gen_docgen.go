package main

// genDocgen: docgen/docgen.go -> coq/gen/GenDocgen.v, terms of the DSL of coq/Ty/DocRules.v.
//
//	var Operators = []string{...}            -> operators    (source order)
//	var Builtins  = map[Identifier]*Type{..} -> builtin_keys (the KEYS, sorted: a Go map has no order)
//	func CreateDoc(i interface{}) *Context   -> fn_create_doc, statement by statement, source order
//
// What the reading normalises away: the names of the parameter and of the locals (slots numbered in
// order of declaration), comments, layout, the order of the entries of a map literal, and the VALUE
// stored into c.Variables (only the key set matters for C16; the value must not contain a function
// literal and must not mention `Variables`).  What it keeps: every statement, the condition of
// every `if`, the KEY of every store, what every loop ranges over.  Anything outside the shapes of
// Ty/DocRules.v becomes `DUnrecognised "file:line"`, an unreadable or reassigned package-level
// variable an entry of dp_bad; either makes `gendocgen_recognised` of coq/Bridge/BrDocgen.v fail.

import (
	"fmt"
	"go/ast"
	"go/token"
	"os"
	"path/filepath"
	"sort"
	"strconv"
	"strings"
)

const dgFile = "docgen/docgen.go"

type dgGlobal struct {
	kind  string // "slice" | "map"
	items []string
}

type dgFn struct {
	confName string // local name of the import of .../conf ("" if absent)
	globals  map[string]*dgGlobal
	pkgVars  map[string]bool // every package-level variable name
	scopes   []map[string]int
	next     int
	param    int
	used     map[string]bool // package-level variables a loop ranges over
}

func (t *dgFn) push() { t.scopes = append(t.scopes, map[string]int{}) }
func (t *dgFn) pop()  { t.scopes = t.scopes[:len(t.scopes)-1] }
func (t *dgFn) declare(name string) int {
	s := t.next
	t.next++
	t.scopes[len(t.scopes)-1][name] = s
	return s
}
func (t *dgFn) find(name string) (int, bool) {
	for i := len(t.scopes) - 1; i >= 0; i-- {
		if s, ok := t.scopes[i][name]; ok {
			return s, true
		}
	}
	return 0, false
}

func dgUnrec(n ast.Node) string { return "DUnrecognised " + coqString(pos(n)) }

func dgStrings(xs []string) string {
	q := make([]string, len(xs))
	for i, x := range xs {
		q[i] = coqString(x)
	}
	return "[" + strings.Join(q, "; ") + "]"
}

func dgOptSlot(s int, ok bool) string {
	if !ok {
		return "None"
	}
	return fmt.Sprintf("(Some %d)", s)
}

func dgStrip(e ast.Expr) ast.Expr {
	for {
		p, ok := e.(*ast.ParenExpr)
		if !ok {
			return e
		}
		e = p.X
	}
}

// a plain ASCII-safe Go string literal
func dgStringLit(e ast.Expr) (string, bool) {
	bl, ok := dgStrip(e).(*ast.BasicLit)
	if !ok || bl.Kind != token.STRING {
		return "", false
	}
	s, err := strconv.Unquote(bl.Value)
	if err != nil {
		return "", false
	}
	for i := 0; i < len(s); i++ {
		if s[i] < 0x20 || s[i] > 0x7e {
			return "", false
		}
	}
	return s, true
}

// readGlobal: []string{"a", "b"}  /  map[K]V{"a": ..., "b": ...} with string-literal keys
func dgReadGlobal(v ast.Expr) *dgGlobal {
	cl, ok := v.(*ast.CompositeLit)
	if !ok {
		return nil
	}
	switch ty := cl.Type.(type) {
	case *ast.ArrayType:
		el, ok := ty.Elt.(*ast.Ident)
		if ty.Len != nil || !ok || el.Name != "string" {
			return nil
		}
		g := &dgGlobal{kind: "slice"}
		for _, e := range cl.Elts {
			s, ok := dgStringLit(e)
			if !ok {
				return nil
			}
			g.items = append(g.items, s)
		}
		return g
	case *ast.MapType:
		k, ok := ty.Key.(*ast.Ident)
		if !ok || (k.Name != "Identifier" && k.Name != "string") {
			return nil
		}
		g := &dgGlobal{kind: "map"}
		for _, e := range cl.Elts {
			kv, ok := e.(*ast.KeyValueExpr)
			if !ok {
				return nil
			}
			s, ok := dgStringLit(kv.Key)
			if !ok {
				return nil
			}
			g.items = append(g.items, s)
		}
		sort.Strings(g.items)
		return g
	}
	return nil
}

// the value of a store / of a field of the Context literal: not read, but it must not be able to
// touch the Variables map behind the reading's back
func dgOpaqueOK(e ast.Expr) bool {
	ok := true
	ast.Inspect(e, func(n ast.Node) bool {
		switch x := n.(type) {
		case *ast.FuncLit:
			ok = false
		case *ast.SelectorExpr:
			if x.Sel.Name == "Variables" {
				ok = false
			}
		}
		return ok
	})
	return ok
}

// ---------------------------------------------------------------- expressions

func (t *dgFn) key(e ast.Expr) (string, bool) {
	switch x := dgStrip(e).(type) {
	case *ast.Ident:
		if s, ok := t.find(x.Name); ok {
			return fmt.Sprintf("XVar %d", s), true
		}
	case *ast.BasicLit:
		if s, ok := dgStringLit(x); ok {
			return "XLit " + coqString(s), true
		}
	case *ast.BinaryExpr:
		if x.Op == token.ADD {
			a, ok1 := t.key(x.X)
			b, ok2 := t.key(x.Y)
			if ok1 && ok2 {
				return fmt.Sprintf("XCat (%s) (%s)", a, b), true
			}
		}
	case *ast.CallExpr:
		fn, ok := x.Fun.(*ast.Ident)
		if ok && (fn.Name == "Identifier" || fn.Name == "string") && len(x.Args) == 1 && !x.Ellipsis.IsValid() {
			if _, local := t.find(fn.Name); !local && !t.pkgVars[fn.Name] {
				if a, ok := t.key(x.Args[0]); ok {
					return fmt.Sprintf("XIdent (%s)", a), true
				}
			}
		}
	}
	return "", false
}

func (t *dgFn) cond(e ast.Expr) (string, bool) {
	switch x := dgStrip(e).(type) {
	case *ast.SelectorExpr:
		if id, ok := x.X.(*ast.Ident); ok {
			if s, ok := t.find(id.Name); ok {
				return fmt.Sprintf("CField %d %s", s, coqString(x.Sel.Name)), true
			}
		}
	case *ast.UnaryExpr:
		if x.Op == token.NOT {
			if c, ok := t.cond(x.X); ok {
				return fmt.Sprintf("CNot (%s)", c), true
			}
		}
	}
	return "", false
}

// ---------------------------------------------------------------- statements

func (t *dgFn) block(list []ast.Stmt, ind string) string {
	t.push()
	defer t.pop()
	q := []string{}
	for _, s := range list {
		if _, empty := s.(*ast.EmptyStmt); empty {
			continue
		}
		q = append(q, t.stmt(s, ind))
	}
	if len(q) == 0 {
		return "[]"
	}
	return "[" + strings.Join(q, ";\n"+ind+" ") + "]"
}

func (t *dgFn) rangeVar(e ast.Expr) (int, bool, bool) { // slot, present, well-formed
	if e == nil {
		return 0, false, true
	}
	id, ok := e.(*ast.Ident)
	if !ok {
		return 0, false, false
	}
	if id.Name == "_" {
		return 0, false, true
	}
	return t.declare(id.Name), true, true
}

func (t *dgFn) stmt(s ast.Stmt, ind string) string {
	in := ind + "   "
	switch x := s.(type) {
	case *ast.AssignStmt:
		if len(x.Lhs) != 1 || len(x.Rhs) != 1 {
			return dgUnrec(s)
		}
		if x.Tok == token.DEFINE {
			// c := &Context{Variables: make(map[Identifier]*Type), ...}
			id, ok := x.Lhs[0].(*ast.Ident)
			u, ok2 := x.Rhs[0].(*ast.UnaryExpr)
			if !ok || !ok2 || id.Name == "_" || u.Op != token.AND {
				return dgUnrec(s)
			}
			cl, ok := u.X.(*ast.CompositeLit)
			if !ok {
				return dgUnrec(s)
			}
			ty, ok := cl.Type.(*ast.Ident)
			if !ok || ty.Name != "Context" {
				return dgUnrec(s)
			}
			made := 0
			for _, e := range cl.Elts {
				kv, ok := e.(*ast.KeyValueExpr)
				if !ok {
					return dgUnrec(s)
				}
				f, ok := kv.Key.(*ast.Ident)
				if !ok {
					return dgUnrec(s)
				}
				if f.Name == "Variables" {
					call, ok := kv.Value.(*ast.CallExpr)
					if !ok {
						return dgUnrec(s)
					}
					fn, ok := call.Fun.(*ast.Ident)
					if !ok || fn.Name != "make" || len(call.Args) < 1 || len(call.Args) > 2 {
						return dgUnrec(s)
					}
					if _, local := t.find("make"); local || t.pkgVars["make"] {
						return dgUnrec(s)
					}
					if _, isMap := call.Args[0].(*ast.MapType); !isMap {
						return dgUnrec(s)
					}
					made++
				} else if !dgOpaqueOK(kv.Value) {
					return dgUnrec(s)
				}
			}
			if made != 1 {
				return dgUnrec(s)
			}
			return fmt.Sprintf("DInit %d", t.declare(id.Name))
		}
		if x.Tok != token.ASSIGN {
			return dgUnrec(s)
		}
		// c.Variables[key] = value
		ix, ok := x.Lhs[0].(*ast.IndexExpr)
		if !ok {
			return dgUnrec(s)
		}
		sel, ok := ix.X.(*ast.SelectorExpr)
		if !ok || sel.Sel.Name != "Variables" {
			return dgUnrec(s)
		}
		cid, ok := sel.X.(*ast.Ident)
		if !ok {
			return dgUnrec(s)
		}
		c, ok := t.find(cid.Name)
		if !ok {
			return dgUnrec(s)
		}
		k, ok := t.key(ix.Index)
		if !ok || !dgOpaqueOK(x.Rhs[0]) {
			return dgUnrec(s)
		}
		return fmt.Sprintf("DStore %d (%s)", c, k)

	case *ast.RangeStmt:
		if x.Tok != token.DEFINE && !(x.Key == nil && x.Value == nil) {
			return dgUnrec(s)
		}
		t.push()
		defer t.pop()
		switch r := dgStrip(x.X).(type) {
		case *ast.CallExpr:
			// conf.CreateTypesTable(i)
			sel, ok := r.Fun.(*ast.SelectorExpr)
			if !ok || sel.Sel.Name != "CreateTypesTable" || len(r.Args) != 1 || r.Ellipsis.IsValid() {
				return dgUnrec(s)
			}
			pk, ok := sel.X.(*ast.Ident)
			if !ok || t.confName == "" || pk.Name != t.confName || t.pkgVars[pk.Name] {
				return dgUnrec(s)
			}
			if _, local := t.find(pk.Name); local {
				return dgUnrec(s)
			}
			arg, ok := dgStrip(r.Args[0]).(*ast.Ident)
			if !ok {
				return dgUnrec(s)
			}
			a, ok := t.find(arg.Name)
			if !ok {
				return dgUnrec(s)
			}
			k, kp, ok1 := t.rangeVar(x.Key)
			v, vp, ok2 := t.rangeVar(x.Value)
			if !ok1 || !ok2 {
				return dgUnrec(s)
			}
			return fmt.Sprintf("DRangeTable %s %s %d\n%s  %s", dgOptSlot(k, kp), dgOptSlot(v, vp), a, ind, t.block(x.Body.List, in))
		case *ast.Ident:
			if _, local := t.find(r.Name); local || !t.pkgVars[r.Name] {
				return dgUnrec(s)
			}
			g := t.globals[r.Name]
			if g == nil {
				return dgUnrec(s)
			}
			t.used[r.Name] = true
			k, kp, ok1 := t.rangeVar(x.Key)
			v, vp, ok2 := t.rangeVar(x.Value)
			if !ok1 || !ok2 {
				return dgUnrec(s)
			}
			if g.kind == "slice" {
				if kp { // the index of a slice element: not a shape of the DSL
					return dgUnrec(s)
				}
				return fmt.Sprintf("DRangeList %s %s\n%s  %s", coqString(r.Name), dgOptSlot(v, vp), ind, t.block(x.Body.List, in))
			}
			return fmt.Sprintf("DRangeKeys %s %s %s\n%s  %s", coqString(r.Name), dgOptSlot(k, kp), dgOptSlot(v, vp), ind, t.block(x.Body.List, in))
		}
		return dgUnrec(s)

	case *ast.IfStmt:
		if x.Init != nil {
			return dgUnrec(s)
		}
		c, ok := t.cond(x.Cond)
		if !ok {
			return dgUnrec(s)
		}
		th := t.block(x.Body.List, in)
		el := "[]"
		switch e := x.Else.(type) {
		case nil:
		case *ast.BlockStmt:
			el = t.block(e.List, in)
		default:
			el = "[" + t.stmt(e, in) + "]"
		}
		return fmt.Sprintf("DIf (%s)\n%s  %s\n%s  %s", c, ind, th, ind, el)

	case *ast.BranchStmt:
		if x.Tok == token.CONTINUE && x.Label == nil {
			return "DContinue"
		}
		return dgUnrec(s)

	case *ast.ReturnStmt:
		if len(x.Results) != 1 {
			return dgUnrec(s)
		}
		id, ok := dgStrip(x.Results[0]).(*ast.Ident)
		if !ok {
			return dgUnrec(s)
		}
		c, ok := t.find(id.Name)
		if !ok {
			return dgUnrec(s)
		}
		return fmt.Sprintf("DReturn %d", c)
	}
	return dgUnrec(s)
}

// ---------------------------------------------------------------- package-level variables

// every place of the package (non-test files) that writes a package-level variable or takes its address
func dgWrites(dir string, names map[string]bool) []string {
	var res []string
	ents, err := os.ReadDir(filepath.Join(*repo, dir))
	if err != nil {
		return []string{dir + ": cannot read"}
	}
	for _, e := range ents {
		n := e.Name()
		if e.IsDir() || !strings.HasSuffix(n, ".go") || strings.HasSuffix(n, "_test.go") {
			continue
		}
		f := parseFile(filepath.Join(dir, n))
		if f == nil {
			res = append(res, n+": cannot parse")
			continue
		}
		root := func(e ast.Expr) string {
			for {
				switch x := e.(type) {
				case *ast.ParenExpr:
					e = x.X
				case *ast.IndexExpr:
					e = x.X
				case *ast.SliceExpr:
					e = x.X
				case *ast.StarExpr:
					e = x.X
				case *ast.Ident:
					return x.Name
				default:
					return ""
				}
			}
		}
		for _, d := range f.Decls {
			fd, ok := d.(*ast.FuncDecl)
			if !ok || fd.Body == nil {
				continue
			}
			ast.Inspect(fd.Body, func(nd ast.Node) bool {
				switch x := nd.(type) {
				case *ast.AssignStmt:
					if x.Tok != token.DEFINE {
						for _, l := range x.Lhs {
							if r := root(l); names[r] {
								res = append(res, r+" written in func "+fd.Name.Name)
							}
						}
					}
				case *ast.IncDecStmt:
					if r := root(x.X); names[r] {
						res = append(res, r+" written in func "+fd.Name.Name)
					}
				case *ast.UnaryExpr:
					if x.Op == token.AND {
						if r := root(x.X); names[r] {
							res = append(res, r+" address taken in func "+fd.Name.Name)
						}
					}
				case *ast.CallExpr:
					if fn, ok := x.Fun.(*ast.Ident); ok && (fn.Name == "delete" || fn.Name == "clear") && len(x.Args) > 0 {
						if r := root(x.Args[0]); names[r] {
							res = append(res, r+" written in func "+fd.Name.Name)
						}
					}
				}
				return true
			})
		}
	}
	sort.Strings(res)
	return res
}

func genDocgen() {
	var b strings.Builder
	b.WriteString("(* GENERATED by /verif/translator (gen_docgen.go) from docgen/docgen.go - do not edit.\n")
	b.WriteString("   The package-level name lists and the body of CreateDoc as terms of the DSL of Ty/DocRules.v. *)\n")
	b.WriteString("From Coq Require Import List String.\n")
	b.WriteString("Require Import X.Ty.DocRules.\n")
	b.WriteString("Import ListNotations.\nOpen Scope string_scope.\n\n")

	t := &dgFn{globals: map[string]*dgGlobal{}, pkgVars: map[string]bool{}, used: map[string]bool{}}
	bad := []string{}
	body := "[DUnrecognised " + coqString(dgFile+": no func CreateDoc") + "]"
	f := parseFile(dgFile)
	if f == nil {
		bad = append(bad, dgFile+": cannot parse")
	} else {
		for _, im := range f.Imports {
			p, _ := strconv.Unquote(im.Path.Value)
			if p == "github.com/antonmedv/expr/conf" {
				t.confName = "conf"
				if im.Name != nil {
					t.confName = im.Name.Name
				}
			}
		}
		for _, d := range f.Decls {
			gd, ok := d.(*ast.GenDecl)
			if !ok || gd.Tok != token.VAR {
				continue
			}
			for _, sp := range gd.Specs {
				vs := sp.(*ast.ValueSpec)
				for _, n := range vs.Names {
					t.pkgVars[n.Name] = true
				}
				if len(vs.Names) == 1 && len(vs.Values) == 1 && vs.Type == nil {
					if g := dgReadGlobal(vs.Values[0]); g != nil {
						t.globals[vs.Names[0].Name] = g
					}
				}
			}
		}
		fd := funcDecl(f, "CreateDoc", "")
		if fd != nil && fd.Body != nil && fd.Type.TypeParams == nil && fd.Type.Params != nil &&
			len(fd.Type.Params.List) == 1 && len(fd.Type.Params.List[0].Names) == 1 &&
			fd.Type.Params.List[0].Names[0].Name != "_" {
			if _, variadic := fd.Type.Params.List[0].Type.(*ast.Ellipsis); !variadic {
				t.push()
				t.param = t.declare(fd.Type.Params.List[0].Names[0].Name)
				body = t.block(fd.Body.List, "  ")
				t.pop()
			}
		}
	}
	if t.next == 0 {
		t.next = 1
	}

	emit := func(coq, name, kind, what string) {
		g := t.globals[name]
		items := []string{}
		if g == nil || g.kind != kind {
			bad = append(bad, name+": not a "+what+" literal")
		} else {
			items = g.items
		}
		b.WriteString(fmt.Sprintf("(* %s: %s *)\nDefinition %s : list string :=\n  %s.\n\n", dgFile, what+" "+name, coq, dgStrings(items)))
	}
	emit("operators", "Operators", "slice", "the elements of var")
	emit("builtin_keys", "Builtins", "map", "the sorted keys of var")

	watched := map[string]bool{"Operators": true, "Builtins": true}
	for n := range t.used {
		watched[n] = true
	}
	if f != nil {
		bad = append(bad, dgWrites("docgen", watched)...)
	}

	b.WriteString("(* " + dgFile + ": CreateDoc *)\nDefinition fn_create_doc : list stmt :=\n  " + body + ".\n\n")

	var slices, maps []string
	names := []string{}
	for n := range watched {
		names = append(names, n)
	}
	sort.Strings(names)
	for _, n := range names {
		g := t.globals[n]
		if g == nil {
			continue
		}
		val := dgStrings(g.items)
		if n == "Operators" && g.kind == "slice" {
			val = "operators"
		}
		if n == "Builtins" && g.kind == "map" {
			val = "builtin_keys"
		}
		ent := "(" + coqString(n) + ", " + val + ")"
		if g.kind == "slice" {
			slices = append(slices, ent)
		} else {
			maps = append(maps, ent)
		}
	}
	b.WriteString(fmt.Sprintf("Definition doc_src : dprog :=\n  mkDoc %d fn_create_doc\n    [%s]\n    [%s]\n    %s.\n",
		t.next, strings.Join(slices, "; "), strings.Join(maps, "; "), dgStrings(bad)))
	writeIfChanged("GenDocgen.v", b.String())
}

func init() { generators = append(generators, genDocgen) }

package main

// genLexer: the functions of parser/lexer/{lexer,state,utils}.go as terms of the DSL of
// coq/Lex/LexRules.v -> coq/gen/GenLexer.v.
//
// A syntactic reading, statement by statement and in source order, of every function reachable from
// `Lex` (through calls and through state functions used as values).  What the reading normalises away:
// the names of local variables, parameters, named results, of the receiver / the *lexer parameter and of
// labels (numbered in order of declaration), comments, layout, the text and the arguments of error
// messages, the conversions int(..) / rune(..), the spelling `x++` / `x += e` of an assignment, the
// order of the function declarations.  Constants are resolved: `eof` to its value, the Kind constants of
// token.go to the token kind their STRING value names.  `unescape` is a primitive of the DSL; the part of
// it the model's theorems rest on, the escape table of `unescapeChar`, is read into `unescape_escapes`,
// the text around the table is compared with the text the model was written against.
// Anything that is not one of the shapes of LexRules.v becomes `SUnrecognised "file:line"` /
// `EUnrecognised "file:line"`, which makes `genlexer_recognised` of coq/Bridge/BrLexer.v fail.

import (
	"fmt"
	"go/ast"
	"go/token"
	"sort"
	"strconv"
	"strings"
)

var lxFields = map[string]string{
	"start": "FStart", "end": "FEnd", "width": "FWidth", "startLoc": "FStartLoc",
	"prev": "FPrev", "loc": "FLoc", "tokens": "FTokens", "err": "FErr",
}
var lxLocFields = map[string]bool{"startLoc": true, "prev": true, "loc": true}
var lxSubs = map[string]string{"Line": "SubLine", "Column": "SubColumn"}
var lxStateFns = map[string]string{
	"root": "SRoot", "number": "SNumber", "dot": "SDot", "nilsafe": "SNilsafe",
	"identifier": "SIdentifier", "not": "SNot",
}
var lxKindValues = map[string]string{
	"Identifier": "TkIdentifier", "Number": "TkNumber", "String": "TkString",
	"Operator": "TkOperator", "Bracket": "TkBracket", "EOF": "TkEOF",
}
var lxUni = map[string]string{"IsLetter": "ULetter", "IsDigit": "UDigit", "IsSpace": "USpace"}
var lxPrims = map[string]bool{"unescape": true}
var lxBinops = map[token.Token]string{
	token.ADD: "BAdd", token.SUB: "BSub", token.OR: "BBitOr", token.EQL: "BEq", token.NEQ: "BNe",
	token.LSS: "BLt", token.LEQ: "BLe", token.GTR: "BGt", token.GEQ: "BGe",
	token.LAND: "BAndAlso", token.LOR: "BOrElse",
}

// package-level knowledge shared by all functions
type lxPkg struct {
	funcs  map[string]*ast.FuncDecl // every function and method of the three files, by name
	consts map[string]string        // resolved constants: name -> DSL expression
}

type lxFn struct {
	pkg     *lxPkg
	name    string
	lexer   string // the name of the lexer value inside this function ("" until known)
	scopes  []map[string]int
	nvars   int
	labels  map[string]int
	calls   []string // callees in order of first occurrence
	called  map[string]bool
	refs    []string // state functions used as values
	dynamic bool     // calls a stateFn held in a variable
}

func (t *lxFn) push() { t.scopes = append(t.scopes, map[string]int{}) }
func (t *lxFn) pop()  { t.scopes = t.scopes[:len(t.scopes)-1] }
func (t *lxFn) find(name string) (int, bool) {
	for i := len(t.scopes) - 1; i >= 0; i-- {
		if n, ok := t.scopes[i][name]; ok {
			return n, true
		}
	}
	return 0, false
}
func (t *lxFn) define(name string) int {
	n := t.nvars
	t.nvars++
	t.scopes[len(t.scopes)-1][name] = n
	return n
}
func (t *lxFn) noteCall(name string) {
	if !t.called[name] {
		t.called[name] = true
		t.calls = append(t.calls, name)
	}
}

func lxUnrecE(n ast.Node) string { return "EUnrecognised " + coqString(pos(n)) }
func lxUnrecS(n ast.Node) string { return "SUnrecognised " + coqString(pos(n)) }

func lxZ(v int64) string {
	if v < 0 {
		return fmt.Sprintf("(%d)", v)
	}
	return fmt.Sprintf("%d", v)
}

// a rune list: `rs "..."` when that is readable, the code points otherwise
func lxRunes(s string) string {
	plain := s != ""
	for _, r := range s {
		if r < 32 || r > 126 || r == '"' {
			plain = false
		}
	}
	if plain {
		return "(rs " + coqString(s) + ")"
	}
	var parts []string
	for _, r := range s {
		parts = append(parts, fmt.Sprintf("%d", r))
	}
	return "[" + strings.Join(parts, "; ") + "]"
}

func lxList(items []string, ind string) string {
	if len(items) == 0 {
		return "[]"
	}
	return "[" + strings.Join(items, ";\n"+ind+" ") + "]"
}

func lxFlat(items []string) string { return "[" + strings.Join(items, "; ") + "]" }

func lxParen(s string) string {
	if strings.ContainsAny(s, " ") && !(strings.HasPrefix(s, "(") && lxBalanced(s)) && !strings.HasPrefix(s, "[") {
		return "(" + s + ")"
	}
	return s
}

// is s one parenthesised group?
func lxBalanced(s string) bool {
	depth := 0
	for i, c := range s {
		switch c {
		case '(':
			depth++
		case ')':
			depth--
			if depth == 0 && i != len(s)-1 {
				return false
			}
		}
	}
	return depth == 0
}

func (t *lxFn) isLexer(e ast.Expr) bool {
	id, ok := e.(*ast.Ident)
	return ok && t.lexer != "" && id.Name == t.lexer
}

// l.f
func (t *lxFn) fieldSel(e ast.Expr) (string, bool) {
	se, ok := e.(*ast.SelectorExpr)
	if !ok || !t.isLexer(se.X) {
		return "", false
	}
	_, ok = lxFields[se.Sel.Name]
	return se.Sel.Name, ok
}

// l.f.Line
func (t *lxFn) subSel(e ast.Expr) (string, string, bool) {
	se, ok := e.(*ast.SelectorExpr)
	if !ok {
		return "", "", false
	}
	f, ok := t.fieldSel(se.X)
	if !ok || !lxLocFields[f] {
		return "", "", false
	}
	s, ok := lxSubs[se.Sel.Name]
	return lxFields[f], s, ok
}

func lxPkgCall(c *ast.CallExpr, pkg string) (string, bool) {
	se, ok := c.Fun.(*ast.SelectorExpr)
	if !ok {
		return "", false
	}
	id, ok := se.X.(*ast.Ident)
	if !ok || id.Name != pkg {
		return "", false
	}
	return se.Sel.Name, true
}

// an expression without effects (the arguments of an error message may be dropped only then)
func (t *lxFn) pure(e ast.Expr) bool {
	switch v := e.(type) {
	case *ast.Ident, *ast.BasicLit:
		return true
	case *ast.CallExpr:
		if se, ok := v.Fun.(*ast.SelectorExpr); ok && t.isLexer(se.X) && se.Sel.Name == "word" && len(v.Args) == 0 {
			return true
		}
	}
	return false
}

func (t *lxFn) exps(es []ast.Expr) []string {
	var out []string
	for _, e := range es {
		out = append(out, t.exp(e))
	}
	return out
}

func (t *lxFn) exp(e ast.Expr) string {
	switch v := e.(type) {
	case *ast.ParenExpr:
		return t.exp(v.X)
	case *ast.Ident:
		if n, ok := t.find(v.Name); ok {
			return fmt.Sprintf("EVar %d", n)
		}
		switch v.Name {
		case "true":
			return "EBool true"
		case "false":
			return "EBool false"
		case "nil":
			return "ENil"
		}
		if c, ok := t.pkg.consts[v.Name]; ok {
			return c
		}
		if st, ok := lxStateFns[v.Name]; ok {
			if _, isFn := t.pkg.funcs[v.Name]; isFn {
				t.refs = append(t.refs, v.Name)
				return "EFn " + st
			}
		}
		return lxUnrecE(e)
	case *ast.BasicLit:
		switch v.Kind {
		case token.INT:
			n, err := strconv.ParseInt(v.Value, 0, 64)
			if err != nil {
				return lxUnrecE(e)
			}
			return "EInt " + lxZ(n)
		case token.CHAR:
			s, err := strconv.Unquote(v.Value)
			if err != nil {
				return lxUnrecE(e)
			}
			r := []rune(s)
			if len(r) != 1 {
				return lxUnrecE(e)
			}
			return "EInt " + lxZ(int64(r[0]))
		case token.STRING:
			s, err := strconv.Unquote(v.Value)
			if err != nil {
				return lxUnrecE(e)
			}
			return "EStr " + lxRunes(s)
		}
		return lxUnrecE(e)
	case *ast.UnaryExpr:
		switch v.Op {
		case token.NOT:
			return "ENot " + lxParen(t.exp(v.X))
		case token.SUB:
			if lit, ok := v.X.(*ast.BasicLit); ok && lit.Kind == token.INT {
				n, err := strconv.ParseInt(lit.Value, 0, 64)
				if err == nil {
					return "EInt " + lxZ(-n)
				}
			}
		}
		return lxUnrecE(e)
	case *ast.BinaryExpr:
		op, ok := lxBinops[v.Op]
		if !ok {
			return lxUnrecE(e)
		}
		return "EBin " + op + " " + lxParen(t.exp(v.X)) + " " + lxParen(t.exp(v.Y))
	case *ast.SelectorExpr:
		if f, ok := t.fieldSel(e); ok {
			return "EField " + lxFields[f]
		}
		if f, s, ok := t.subSel(e); ok {
			return "ESub " + f + " " + s
		}
		return lxUnrecE(e)
	case *ast.SliceExpr:
		// l.input[a:b]
		if se, ok := v.X.(*ast.SelectorExpr); ok && t.isLexer(se.X) && se.Sel.Name == "input" &&
			v.Low != nil && v.High != nil && v.Max == nil {
			return "ESliceInput " + lxParen(t.exp(v.Low)) + " " + lxParen(t.exp(v.High))
		}
		return lxUnrecE(e)
	case *ast.CompositeLit:
		// file.Location{Line: a, Column: b}
		if strings.ReplaceAll(src(v.Type), " ", "") == "file.Location" && len(v.Elts) == 2 {
			parts := map[string]ast.Expr{}
			for _, el := range v.Elts {
				if kv, ok := el.(*ast.KeyValueExpr); ok {
					if k, ok := kv.Key.(*ast.Ident); ok {
						parts[k.Name] = kv.Value
					}
				}
			}
			if parts["Line"] != nil && parts["Column"] != nil {
				return "ELocLit " + lxParen(t.exp(parts["Line"])) + " " + lxParen(t.exp(parts["Column"]))
			}
		}
		return lxUnrecE(e)
	case *ast.CallExpr:
		return t.call(v)
	}
	return lxUnrecE(e)
}

func (t *lxFn) call(c *ast.CallExpr) string {
	if c.Ellipsis != token.NoPos {
		return lxUnrecE(c)
	}
	// conversions and len
	if id, ok := c.Fun.(*ast.Ident); ok {
		if _, local := t.find(id.Name); !local {
			switch id.Name {
			case "int", "rune":
				if len(c.Args) == 1 {
					return t.exp(c.Args[0])
				}
				return lxUnrecE(c)
			case "len":
				if len(c.Args) == 1 {
					if se, ok := c.Args[0].(*ast.SelectorExpr); ok && t.isLexer(se.X) && se.Sel.Name == "input" {
						return "ELenInput"
					}
				}
				return lxUnrecE(c)
			}
		}
	}
	if name, ok := lxPkgCall(c, "strings"); ok {
		if name == "ContainsRune" && len(c.Args) == 2 {
			return "EContainsRune " + lxParen(t.exp(c.Args[0])) + " " + lxParen(t.exp(c.Args[1]))
		}
		return lxUnrecE(c)
	}
	if name, ok := lxPkgCall(c, "unicode"); ok {
		if u, ok := lxUni[name]; ok && len(c.Args) == 1 {
			return "EUni " + u + " " + lxParen(t.exp(c.Args[0]))
		}
		return lxUnrecE(c)
	}
	switch f := c.Fun.(type) {
	case *ast.SelectorExpr:
		// source.Content()
		if id, ok := f.X.(*ast.Ident); ok && f.Sel.Name == "Content" && len(c.Args) == 0 && t.name == "Lex" {
			if n, ok := t.find(id.Name); ok && n == 0 {
				return "EVar 0"
			}
		}
		// l.err.Bind(source): the error itself (Bind attaches the source text for the message)
		if inner, ok := t.fieldSel(f.X); ok && inner == "err" && f.Sel.Name == "Bind" && len(c.Args) == 1 && t.name == "Lex" {
			if id, ok := c.Args[0].(*ast.Ident); ok {
				if n, ok := t.find(id.Name); ok && n == 0 {
					return "EField FErr"
				}
			}
		}
		// l.m(args)
		if t.isLexer(f.X) {
			m := f.Sel.Name
			fd, ok := t.pkg.funcs[m]
			if !ok || fd.Recv == nil {
				return lxUnrecE(c)
			}
			t.noteCall(m)
			if m == "error" {
				for _, a := range c.Args {
					if !t.pure(a) {
						return lxUnrecE(c)
					}
				}
				return "ECall \"error\" []"
			}
			return "ECall " + coqString(m) + " " + lxFlat(t.exps(c.Args))
		}
	case *ast.Ident:
		if n, ok := t.find(f.Name); ok {
			// state(l)
			if len(c.Args) == 1 && t.isLexer(c.Args[0]) {
				t.dynamic = true
				return fmt.Sprintf("ECallVar %d", n)
			}
			return lxUnrecE(c)
		}
		fd, known := t.pkg.funcs[f.Name]
		if lxPrims[f.Name] && known {
			return "ECall " + coqString(f.Name) + " " + lxFlat(t.exps(c.Args))
		}
		if known && fd.Recv == nil {
			t.noteCall(f.Name)
			var args []ast.Expr
			for _, a := range c.Args {
				if !t.isLexer(a) {
					args = append(args, a)
				}
			}
			return "ECall " + coqString(f.Name) + " " + lxFlat(t.exps(args))
		}
	}
	return lxUnrecE(c)
}

func (t *lxFn) lhs(e ast.Expr, define bool, fresh *[]string) string {
	if id, ok := e.(*ast.Ident); ok {
		if id.Name == "_" {
			return "LBlank"
		}
		if define {
			if n, ok := t.scopes[len(t.scopes)-1][id.Name]; ok {
				return fmt.Sprintf("LVar %d", n)
			}
			*fresh = append(*fresh, id.Name)
			return "LVar ?" + id.Name
		}
		if n, ok := t.find(id.Name); ok {
			return fmt.Sprintf("LVar %d", n)
		}
		return ""
	}
	if f, ok := t.fieldSel(e); ok && f != "tokens" {
		return "LField " + lxFields[f]
	}
	if f, s, ok := t.subSel(e); ok {
		return "LSub " + f + " " + s
	}
	return ""
}

func lxKeyed(cl *ast.CompositeLit) map[string]ast.Expr {
	parts := map[string]ast.Expr{}
	for _, el := range cl.Elts {
		kv, ok := el.(*ast.KeyValueExpr)
		if !ok {
			return nil
		}
		k, ok := kv.Key.(*ast.Ident)
		if !ok {
			return nil
		}
		parts[k.Name] = kv.Value
	}
	return parts
}

func (t *lxFn) assign(s *ast.AssignStmt) string {
	define := s.Tok == token.DEFINE
	switch s.Tok {
	case token.ADD_ASSIGN, token.SUB_ASSIGN:
		if len(s.Lhs) != 1 || len(s.Rhs) != 1 {
			return lxUnrecS(s)
		}
		var fresh []string
		l := t.lhs(s.Lhs[0], false, &fresh)
		if l == "" {
			return lxUnrecS(s)
		}
		op := "BAdd"
		if s.Tok == token.SUB_ASSIGN {
			op = "BSub"
		}
		return "SAssign [" + l + "] [EBin " + op + " " + lxParen(t.exp(s.Lhs[0])) + " " + lxParen(t.exp(s.Rhs[0])) + "]"
	case token.ASSIGN, token.DEFINE:
	default:
		return lxUnrecS(s)
	}
	// l := &lexer{input: source.Content(), tokens: make([]Token, 0)}
	if define && len(s.Lhs) == 1 && len(s.Rhs) == 1 && t.name == "Lex" && t.lexer == "" {
		if u, ok := s.Rhs[0].(*ast.UnaryExpr); ok && u.Op == token.AND {
			if cl, ok := u.X.(*ast.CompositeLit); ok && src(cl.Type) == "lexer" {
				id, isId := s.Lhs[0].(*ast.Ident)
				parts := lxKeyed(cl)
				if isId && parts != nil && len(parts) == 2 && parts["input"] != nil && parts["tokens"] != nil &&
					strings.ReplaceAll(src(parts["tokens"]), " ", "") == "make([]Token,0)" {
					in := t.exp(parts["input"])
					t.lexer = id.Name
					return "SNewLexer " + lxParen(in)
				}
			}
		}
		return lxUnrecS(s)
	}
	// l.tokens = append(l.tokens, Token{Location: .., Kind: .. [, Value: ..]})
	if f, ok := t.fieldSel(s.Lhs[0]); ok && f == "tokens" {
		if !define && len(s.Lhs) == 1 && len(s.Rhs) == 1 {
			if c, ok := s.Rhs[0].(*ast.CallExpr); ok && src(c.Fun) == "append" && len(c.Args) == 2 {
				if g, ok := t.fieldSel(c.Args[0]); ok && g == "tokens" {
					if cl, ok := c.Args[1].(*ast.CompositeLit); ok && src(cl.Type) == "Token" {
						parts := lxKeyed(cl)
						n := 0
						for k := range parts {
							if k == "Location" || k == "Kind" || k == "Value" {
								n++
							}
						}
						if parts != nil && n == len(parts) && parts["Location"] != nil && parts["Kind"] != nil {
							v := "None"
							if parts["Value"] != nil {
								v = "(Some " + lxParen(t.exp(parts["Value"])) + ")"
							}
							return "SAppendToken " + lxParen(t.exp(parts["Location"])) + " " + lxParen(t.exp(parts["Kind"])) + " " + v
						}
					}
				}
			}
		}
		return lxUnrecS(s)
	}
	// l.err = &file.Error{Location: .., Message: ..}
	if f, ok := t.fieldSel(s.Lhs[0]); ok && f == "err" && len(s.Lhs) == 1 && len(s.Rhs) == 1 && !define {
		if u, ok := s.Rhs[0].(*ast.UnaryExpr); ok && u.Op == token.AND {
			if cl, ok := u.X.(*ast.CompositeLit); ok && strings.ReplaceAll(src(cl.Type), " ", "") == "file.Error" {
				parts := lxKeyed(cl)
				if parts != nil && len(parts) == 2 && parts["Location"] != nil && parts["Message"] != nil {
					return "SSetErr " + lxParen(t.exp(parts["Location"]))
				}
			}
		}
		return lxUnrecS(s)
	}
	var fresh []string
	finish := func(ls []string) []string {
		// the new names come into scope after the right-hand sides have been read
		for i, l := range ls {
			if strings.HasPrefix(l, "LVar ?") {
				ls[i] = fmt.Sprintf("LVar %d", t.define(strings.TrimPrefix(l, "LVar ?")))
			}
		}
		return ls
	}
	var ls []string
	for _, l := range s.Lhs {
		x := t.lhs(l, define, &fresh)
		if x == "" {
			return lxUnrecS(s)
		}
		ls = append(ls, x)
	}
	if define && len(fresh) == 0 {
		return lxUnrecS(s)
	}
	if len(s.Lhs) == len(s.Rhs) {
		rs := t.exps(s.Rhs)
		return "SAssign " + lxFlat(finish(ls)) + " " + lxFlat(rs)
	}
	if len(s.Rhs) == 1 && len(s.Lhs) == 2 {
		if c, ok := s.Rhs[0].(*ast.CallExpr); ok {
			// r, w := utf8.DecodeRuneInString(l.input[l.end:])
			if name, ok := lxPkgCall(c, "utf8"); ok {
				if name == "DecodeRuneInString" && len(c.Args) == 1 {
					if sl, ok := c.Args[0].(*ast.SliceExpr); ok && sl.High == nil && sl.Max == nil && sl.Low != nil {
						if se, ok := sl.X.(*ast.SelectorExpr); ok && t.isLexer(se.X) && se.Sel.Name == "input" {
							if f, ok := t.fieldSel(sl.Low); ok && f == "end" {
								ls = finish(ls)
								return "SDecode " + lxParen(ls[0]) + " " + lxParen(ls[1])
							}
						}
					}
				}
				finish(ls)
				return lxUnrecS(s)
			}
			r := t.call(c)
			return "SAssignCall " + lxFlat(finish(ls)) + " " + lxParen(r)
		}
	}
	finish(ls)
	return lxUnrecS(s)
}

func (t *lxFn) simple(s ast.Stmt) []string {
	if s == nil {
		return nil
	}
	return t.stmts([]ast.Stmt{s}, "")
}

func (t *lxFn) block(list []ast.Stmt, ind string) string {
	t.push()
	defer t.pop()
	return lxList(t.stmts(list, ind), ind)
}

func (t *lxFn) ifStmt(s *ast.IfStmt, ind string) string {
	t.push()
	defer t.pop()
	init := lxFlat(t.simple(s.Init))
	c := t.exp(s.Cond)
	in := ind + "    "
	a := t.block(s.Body.List, in)
	b := "[]"
	switch e := s.Else.(type) {
	case nil:
	case *ast.BlockStmt:
		b = t.block(e.List, in)
	case *ast.IfStmt:
		b = "[" + t.ifStmt(e, in+" ") + "]"
	default:
		b = "[" + lxUnrecS(s.Else) + "]"
	}
	return "SIf " + init + " " + lxParen(c) + "\n" + in + a + "\n" + in + b
}

func (t *lxFn) switchStmt(s *ast.SwitchStmt, ind string) string {
	t.push()
	defer t.pop()
	init := lxFlat(t.simple(s.Init))
	tag := "None"
	if s.Tag != nil {
		tag = "(Some " + lxParen(t.exp(s.Tag)) + ")"
	}
	in := ind + "    "
	var cases []string
	dflt := "[]"
	for _, cc := range s.Body.List {
		c := cc.(*ast.CaseClause)
		bad := false
		for _, st := range c.Body {
			if br, ok := st.(*ast.BranchStmt); ok && br.Tok == token.FALLTHROUGH {
				bad = true
			}
		}
		body := ""
		if bad {
			body = "[" + lxUnrecS(c) + "]"
		} else {
			body = t.block(c.Body, in+"   ")
		}
		if c.List == nil {
			dflt = body
			continue
		}
		cases = append(cases, "("+lxFlat(t.exps(c.List))+",\n"+in+"  "+body+")")
	}
	return "SSwitch " + init + " " + tag + "\n" + in + lxList(cases, in) + "\n" + in + dflt
}

func (t *lxFn) forStmt(s *ast.ForStmt, label string, ind string) string {
	t.push()
	defer t.pop()
	lbl := "None"
	if label != "" {
		lbl = fmt.Sprintf("(Some %d%%nat)", t.labels[label])
	}
	init := lxFlat(t.simple(s.Init))
	c := "None"
	if s.Cond != nil {
		c = "(Some " + lxParen(t.exp(s.Cond)) + ")"
	}
	post := lxFlat(t.simple(s.Post))
	in := ind + "    "
	return "SFor " + lbl + " " + init + " " + c + " " + post + "\n" + in + t.block(s.Body.List, in)
}

func (t *lxFn) stmts(list []ast.Stmt, ind string) []string {
	var out []string
	for _, s := range list {
		switch v := s.(type) {
		case *ast.EmptyStmt:
		case *ast.AssignStmt:
			out = append(out, t.assign(v))
		case *ast.IncDecStmt:
			var fresh []string
			l := t.lhs(v.X, false, &fresh)
			if l == "" {
				out = append(out, lxUnrecS(s))
				break
			}
			op := "BAdd"
			if v.Tok == token.DEC {
				op = "BSub"
			}
			out = append(out, "SAssign ["+l+"] [EBin "+op+" "+lxParen(t.exp(v.X))+" (EInt 1)]")
		case *ast.ExprStmt:
			if c, ok := v.X.(*ast.CallExpr); ok {
				out = append(out, "SExpr "+lxParen(t.call(c)))
			} else {
				out = append(out, lxUnrecS(s))
			}
		case *ast.IfStmt:
			out = append(out, t.ifStmt(v, ind))
		case *ast.SwitchStmt:
			out = append(out, t.switchStmt(v, ind))
		case *ast.ForStmt:
			out = append(out, t.forStmt(v, "", ind))
		case *ast.LabeledStmt:
			if f, ok := v.Stmt.(*ast.ForStmt); ok {
				if _, dup := t.labels[v.Label.Name]; !dup {
					t.labels[v.Label.Name] = len(t.labels)
				}
				out = append(out, t.forStmt(f, v.Label.Name, ind))
			} else {
				out = append(out, lxUnrecS(s))
			}
		case *ast.RangeStmt:
			// for _, ch := range s
			key, isId := v.Key.(*ast.Ident)
			if !isId || key.Name != "_" || v.Value == nil || v.Tok != token.DEFINE {
				out = append(out, lxUnrecS(s))
				break
			}
			val, isId := v.Value.(*ast.Ident)
			if !isId {
				out = append(out, lxUnrecS(s))
				break
			}
			x := t.exp(v.X)
			t.push()
			n := t.define(val.Name)
			in := ind + "    "
			body := t.block(v.Body.List, in)
			t.pop()
			out = append(out, fmt.Sprintf("SRange (LVar %d) %s\n%s%s", n, lxParen(x), in, body))
		case *ast.BranchStmt:
			if v.Tok == token.BREAK {
				if v.Label == nil {
					out = append(out, "SBreak None")
				} else if n, ok := t.labels[v.Label.Name]; ok {
					out = append(out, fmt.Sprintf("SBreak (Some %d%%nat)", n))
				} else {
					out = append(out, lxUnrecS(s))
				}
			} else {
				out = append(out, lxUnrecS(s))
			}
		case *ast.ReturnStmt:
			out = append(out, "SReturn "+lxFlat(t.exps(v.Results)))
		case *ast.BlockStmt:
			t.push()
			out = append(out, t.stmts(v.List, ind)...)
			t.pop()
		default:
			out = append(out, lxUnrecS(s))
		}
	}
	return out
}

type lxDef struct {
	name  string
	term  string
	calls []string
	refs  []string
}

func lxIsLexerPtr(e ast.Expr) bool { return strings.ReplaceAll(src(e), " ", "") == "*lexer" }

func (p *lxPkg) read(name string) lxDef {
	fd := p.funcs[name]
	t := &lxFn{pkg: p, name: name, labels: map[string]int{}, called: map[string]bool{}}
	t.push()
	if fd.Recv != nil && len(fd.Recv.List) == 1 && len(fd.Recv.List[0].Names) == 1 && lxIsLexerPtr(fd.Recv.List[0].Type) {
		t.lexer = fd.Recv.List[0].Names[0].Name
	}
	bad := ""
	nparams := 0
	if fd.Type.Params != nil {
		for _, fl := range fd.Type.Params.List {
			if lxIsLexerPtr(fl.Type) {
				if len(fl.Names) == 1 && t.lexer == "" {
					t.lexer = fl.Names[0].Name
				} else {
					bad = "lexer parameter"
				}
				continue
			}
			if name == "error" {
				continue // the message: format and arguments are not read
			}
			if _, variadic := fl.Type.(*ast.Ellipsis); variadic {
				bad = "variadic parameter"
			}
			for _, n := range fl.Names {
				t.define(n.Name)
				nparams++
			}
		}
	}
	var results []string
	if fd.Type.Results != nil {
		for _, fl := range fd.Type.Results.List {
			for _, n := range fl.Names {
				results = append(results, fmt.Sprintf("%d%%nat", t.define(n.Name)))
			}
		}
	}
	var body []string
	if bad != "" || fd.Body == nil {
		body = []string{lxUnrecS(fd)}
	} else {
		t.push()
		body = t.stmts(fd.Body.List, "    ")
		t.pop()
	}
	term := fmt.Sprintf("mkFn %s %d %d %s\n    %s", coqString(name), nparams, t.nvars-nparams, lxFlat(results), lxList(body, "    "))
	if t.dynamic {
		// a call through a stateFn variable may reach every state function
		var all []string
		for n := range lxStateFns {
			all = append(all, n)
		}
		sort.Strings(all)
		for _, n := range all {
			if _, ok := p.funcs[n]; ok {
				t.noteCall(n)
			}
		}
	}
	return lxDef{name, term, t.calls, t.refs}
}

// ---- the escape table of unescapeChar

const lxEscHead = `switch c := s[0]; { case c >= utf8.RuneSelf: r, size := utf8.DecodeRuneInString(s) return r, true, s[size:], nil case c != '\\': return rune(s[0]), false, s[1:], nil }|if len(s) <= 1 { err = fmt.Errorf(MSG) return }|c := s[1]|s = s[2:]`
const lxEscTail = `tail = s|return`
const lxEscHexBody = `var v rune|if len(s) < n { err = fmt.Errorf(MSG) return }|for j := 0; j < n; j++ { x, ok := unhex(s[j]) if !ok { err = fmt.Errorf(MSG) return } v = v<<4 | x }|s = s[n:]|if v > utf8.MaxRune { err = fmt.Errorf(MSG) return }|value = v|multibyte = true`
const lxEscOctBody = `if len(s) < 2 { err = fmt.Errorf(MSG) return }|v := rune(c - '0')|for j := 0; j < 2; j++ { x := s[j] if x < '0' || x > '7' { err = fmt.Errorf(MSG) return } v = v*8 + rune(x-'0') }|if v > utf8.MaxRune { err = fmt.Errorf(MSG) return }|value = v|s = s[2:]|multibyte = true`
const lxEscDefault = `err = fmt.Errorf(MSG)`
const lxUnhex = `c := rune(b)|switch { case '0' <= c && c <= '9': return c - '0', true case 'a' <= c && c <= 'f': return c - 'a' + 10, true case 'A' <= c && c <= 'F': return c - 'A' + 10, true }|return 0, false`
const lxUnescape = `value = newlineNormalizer.Replace(value)|n := len(value)|if n < 2 { return value, fmt.Errorf(MSG) }|if value[0] != value[n-1] || (value[0] != '"' && value[0] != '\'') { return value, fmt.Errorf(MSG) }|value = value[1 : n-1]|var runeTmp [utf8.UTFMax]byte|buf := make([]byte, 0, 3*n/2)|for len(value) > 0 { c, multibyte, rest, err := unescapeChar(value) if err != nil { return "", err } value = rest if c < utf8.RuneSelf || !multibyte { buf = append(buf, byte(c)) } else { n := utf8.EncodeRune(runeTmp[:], c) buf = append(buf, runeTmp[:n]...) } }|return string(buf), nil`
const lxNormalizer = `strings.NewReplacer("\r\n", "\n", "\r", "\n")`

// the statements as text: one line each, blanks squeezed, string literals of error messages replaced by MSG
func lxText(list []ast.Stmt) string {
	var parts []string
	for _, s := range list {
		var st ast.Stmt = s
		txt := lxNoComments(src(st))
		txt = strings.Join(strings.Fields(txt), " ")
		parts = append(parts, txt)
	}
	return lxMsg(strings.Join(parts, "|"))
}

// drops `// ...` to the end of the line, outside string, rune and raw-string literals
func lxNoComments(s string) string {
	var b strings.Builder
	quote := byte(0)
	for i := 0; i < len(s); i++ {
		c := s[i]
		if quote != 0 {
			b.WriteByte(c)
			if c == '\\' && quote != '`' && i+1 < len(s) {
				i++
				b.WriteByte(s[i])
			} else if c == quote {
				quote = 0
			}
			continue
		}
		if c == '"' || c == '\'' || c == '`' {
			quote = c
			b.WriteByte(c)
			continue
		}
		if c == '/' && i+1 < len(s) && s[i+1] == '/' {
			for i < len(s) && s[i] != '\n' {
				i++
			}
			b.WriteByte('\n')
			continue
		}
		b.WriteByte(c)
	}
	return b.String()
}

// fmt.Errorf("...") -> fmt.Errorf(MSG)
func lxMsg(s string) string {
	for {
		i := strings.Index(s, "fmt.Errorf(\"")
		if i < 0 {
			return s
		}
		j := i + len("fmt.Errorf(\"")
		for j < len(s) && s[j] != '"' {
			if s[j] == '\\' {
				j++
			}
			j++
		}
		if j >= len(s) || j+1 >= len(s) || s[j+1] != ')' {
			return s
		}
		s = s[:i] + "fmt.Errorf(MSG)" + s[j+2:]
	}
}

func lxCharLit(e ast.Expr) (int64, bool) {
	lit, ok := e.(*ast.BasicLit)
	if !ok || lit.Kind != token.CHAR {
		return 0, false
	}
	s, err := strconv.Unquote(lit.Value)
	if err != nil {
		return 0, false
	}
	r := []rune(s)
	if len(r) != 1 {
		return 0, false
	}
	return int64(r[0]), true
}

func lxCharList(es []ast.Expr) (string, bool) {
	var parts []string
	for _, e := range es {
		c, ok := lxCharLit(e)
		if !ok {
			return "", false
		}
		parts = append(parts, lxZ(c))
	}
	return "[" + strings.Join(parts, "; ") + "]", true
}

func (p *lxPkg) escapes(uf *ast.File) ([]string, []string) {
	var entries, unrec []string
	fd := funcDecl(uf, "unescapeChar", "")
	if fd == nil || fd.Body == nil {
		return nil, []string{"utils.go: unescapeChar not found"}
	}
	if got := strings.Join(strings.Fields(src(fd.Type)), " "); got != "func(s string) (value rune, multibyte bool, tail string, err error)" {
		unrec = append(unrec, pos(fd)+": signature of unescapeChar")
	}
	// head | switch c {...} | tail
	var sw *ast.SwitchStmt
	swAt := -1
	for i, s := range fd.Body.List {
		if x, ok := s.(*ast.SwitchStmt); ok && x.Tag != nil && x.Init == nil {
			sw, swAt = x, i
			break
		}
	}
	if sw == nil {
		return nil, append(unrec, pos(fd)+": switch on the escape character")
	}
	if lxText(fd.Body.List[:swAt]) != lxEscHead {
		unrec = append(unrec, pos(fd)+": the statements before the escape switch")
	}
	if lxText(fd.Body.List[swAt+1:]) != lxEscTail {
		unrec = append(unrec, pos(sw)+": the statements after the escape switch")
	}
	if src(sw.Tag) != "c" {
		unrec = append(unrec, pos(sw)+": tag of the escape switch")
	}
	sawDefault := false
	for _, cc := range sw.Body.List {
		c := cc.(*ast.CaseClause)
		if c.List == nil {
			sawDefault = true
			if lxText(c.Body) != lxEscDefault {
				entries = append(entries, "EscUnrecognised "+coqString(pos(c)))
			}
			continue
		}
		cs, ok := lxCharList(c.List)
		if !ok {
			entries = append(entries, "EscUnrecognised "+coqString(pos(c)))
			continue
		}
		// case 'c': value = 'v'
		if len(c.List) == 1 && len(c.Body) == 1 {
			if as, ok := c.Body[0].(*ast.AssignStmt); ok && as.Tok == token.ASSIGN && len(as.Lhs) == 1 && len(as.Rhs) == 1 && src(as.Lhs[0]) == "value" {
				if v, ok := lxCharLit(as.Rhs[0]); ok {
					ch, _ := lxCharLit(c.List[0])
					entries = append(entries, fmt.Sprintf("EscChar %s %s", lxZ(ch), lxZ(v)))
					continue
				}
			}
		}
		// case 'x', 'X', 'u', 'U': n := 0; switch c { case ..: n = k }; <hex body>
		if len(c.Body) >= 3 {
			if strings.Join(strings.Fields(src(c.Body[0])), " ") == "n := 0" {
				if in, ok := c.Body[1].(*ast.SwitchStmt); ok && in.Tag != nil && src(in.Tag) == "c" && in.Init == nil {
					var ds []string
					good := true
					for _, icc := range in.Body.List {
						ic := icc.(*ast.CaseClause)
						k := int64(-1)
						if len(ic.Body) == 1 {
							if as, ok := ic.Body[0].(*ast.AssignStmt); ok && as.Tok == token.ASSIGN && len(as.Lhs) == 1 && len(as.Rhs) == 1 && src(as.Lhs[0]) == "n" {
								if lit, ok := as.Rhs[0].(*ast.BasicLit); ok && lit.Kind == token.INT {
									if n, err := strconv.ParseInt(lit.Value, 0, 64); err == nil {
										k = n
									}
								}
							}
						}
						if ic.List == nil || k < 0 {
							good = false
							continue
						}
						for _, e := range ic.List {
							ch, ok := lxCharLit(e)
							if !ok {
								good = false
								continue
							}
							ds = append(ds, fmt.Sprintf("(%s, %s)", lxZ(ch), lxZ(k)))
						}
					}
					if good && lxText(c.Body[2:]) == lxEscHexBody {
						entries = append(entries, "EscHex "+cs+" ["+strings.Join(ds, "; ")+"]")
						continue
					}
				}
			}
		}
		// case '0', '1', '2', '3': <octal body>
		if lxText(c.Body) == lxEscOctBody {
			entries = append(entries, "EscOct "+cs)
			continue
		}
		entries = append(entries, "EscUnrecognised "+coqString(pos(c)))
	}
	if !sawDefault {
		unrec = append(unrec, pos(sw)+": no default in the escape switch")
	}
	// unhex, unescape, newlineNormalizer: compared as text
	if fd := funcDecl(uf, "unhex", ""); fd == nil || fd.Body == nil || lxText(fd.Body.List) != lxUnhex {
		unrec = append(unrec, "utils.go: unhex is not the expected text")
	}
	if fd := funcDecl(uf, "unescape", ""); fd == nil || fd.Body == nil || lxText(fd.Body.List) != lxUnescape ||
		strings.Join(strings.Fields(src(fd.Type)), " ") != "func(value string) (string, error)" {
		unrec = append(unrec, "utils.go: unescape is not the expected text")
	}
	norm := ""
	for _, d := range uf.Decls {
		if gd, ok := d.(*ast.GenDecl); ok && gd.Tok == token.VAR {
			for _, sp := range gd.Specs {
				vs := sp.(*ast.ValueSpec)
				for i, n := range vs.Names {
					if n.Name == "newlineNormalizer" && i < len(vs.Values) {
						norm = strings.Join(strings.Fields(src(vs.Values[i])), " ")
					}
				}
			}
		}
	}
	if norm != lxNormalizer {
		unrec = append(unrec, "utils.go: newlineNormalizer is not the expected text")
	}
	return entries, unrec
}

func genLexer() {
	files := map[string]*ast.File{}
	for _, n := range []string{"lexer.go", "state.go", "utils.go", "token.go"} {
		files[n] = parseFile("parser/lexer/" + n)
	}
	var unrec []string
	p := &lxPkg{funcs: map[string]*ast.FuncDecl{}, consts: map[string]string{}}
	for _, n := range []string{"lexer.go", "state.go", "utils.go"} {
		f := files[n]
		if f == nil {
			unrec = append(unrec, n+": cannot parse")
			continue
		}
		for _, d := range f.Decls {
			switch v := d.(type) {
			case *ast.FuncDecl:
				if _, dup := p.funcs[v.Name.Name]; dup {
					unrec = append(unrec, pos(v)+": two functions named "+v.Name.Name)
				}
				p.funcs[v.Name.Name] = v
			case *ast.GenDecl:
				if v.Tok != token.CONST {
					continue
				}
				// const eof rune = -1
				for _, sp := range v.Specs {
					vs := sp.(*ast.ValueSpec)
					if len(vs.Names) == 1 && len(vs.Values) == 1 && vs.Type != nil && src(vs.Type) == "rune" {
						txt := strings.ReplaceAll(src(vs.Values[0]), " ", "")
						if n, err := strconv.ParseInt(txt, 0, 64); err == nil {
							p.consts[vs.Names[0].Name] = "EInt " + lxZ(n)
						} else {
							unrec = append(unrec, pos(vs)+": constant "+vs.Names[0].Name)
						}
					}
				}
			}
		}
	}
	// token.go: X Kind = "X"
	if f := files["token.go"]; f != nil {
		for _, d := range f.Decls {
			gd, ok := d.(*ast.GenDecl)
			if !ok || gd.Tok != token.CONST {
				continue
			}
			for _, sp := range gd.Specs {
				vs := sp.(*ast.ValueSpec)
				if vs.Type == nil || src(vs.Type) != "Kind" || len(vs.Names) != 1 || len(vs.Values) != 1 {
					continue
				}
				lit, ok := vs.Values[0].(*ast.BasicLit)
				if !ok || lit.Kind != token.STRING {
					unrec = append(unrec, pos(vs)+": Kind constant")
					continue
				}
				s, _ := strconv.Unquote(lit.Value)
				if k, ok := lxKindValues[s]; ok {
					p.consts[vs.Names[0].Name] = "EKind " + k
				} else {
					unrec = append(unrec, pos(vs)+": Kind value "+s)
				}
			}
		}
	} else {
		unrec = append(unrec, "token.go: cannot parse")
	}

	// every function reachable from Lex, callers first
	defs := map[string]lxDef{}
	var order []string
	state := map[string]int{}
	var pending []string
	var visit func(name string)
	visit = func(name string) {
		switch state[name] {
		case 1:
			unrec = append(unrec, "recursive function "+name)
			return
		case 2:
			return
		}
		if _, ok := p.funcs[name]; !ok {
			unrec = append(unrec, "missing function "+name)
			state[name] = 2
			return
		}
		state[name] = 1
		d := p.read(name)
		defs[name] = d
		for _, c := range d.calls {
			visit(c)
		}
		state[name] = 2
		order = append(order, name) // post-order: callees first
		pending = append(pending, d.refs...)
	}
	visit("Lex")
	for len(pending) > 0 {
		n := pending[0]
		pending = pending[1:]
		visit(n)
	}
	// state functions and helpers the model names, in case Lex no longer reaches them
	var extra []string
	for n := range lxStateFns {
		extra = append(extra, n)
	}
	sort.Strings(extra)
	for _, n := range extra {
		visit(n)
	}

	var b strings.Builder
	b.WriteString("(* GENERATED by /verif/translator from parser/lexer/{lexer,state,utils,token}.go — do not edit *)\n")
	b.WriteString("From Coq Require Import ZArith List String.\n")
	b.WriteString("Require Import X.Base.Value X.Syn.Tok X.Lex.Lexer X.Lex.LexRules.\n")
	b.WriteString("Import ListNotations.\nOpen Scope string_scope.\nOpen Scope Z_scope.\n\n")
	b.WriteString("(* one DSL term (coq/Lex/LexRules.v) per function: the statements in source order *)\n")
	for i := len(order) - 1; i >= 0; i-- {
		d := defs[order[i]]
		fmt.Fprintf(&b, "Definition fn_%s : fdef :=\n  %s.\n\n", d.name, d.term)
	}
	b.WriteString("(* callers first: a function calls only functions further down *)\n")
	b.WriteString("Definition lexer_funs : list fdef :=\n  [")
	for i := len(order) - 1; i >= 0; i-- {
		if i != len(order)-1 {
			b.WriteString("; ")
		}
		b.WriteString("fn_" + order[i])
	}
	b.WriteString("].\n\n")

	entries, eu := p.escapes(files["utils.go"])
	unrec = append(unrec, eu...)
	b.WriteString("(* unescapeChar: the switch on the character after the backslash, in source order *)\n")
	b.WriteString("Definition unescape_escapes : list esc_entry :=\n  " + lxList(entries, " ") + ".\n\n")

	sort.Strings(unrec)
	b.WriteString("Definition genlexer_unrecognised : list string := [")
	for i, u := range unrec {
		if i > 0 {
			b.WriteString("; ")
		}
		b.WriteString(coqString(u))
	}
	b.WriteString("].\n")
	writeIfChanged("GenLexer.v", b.String())
}

func init() { generators = append(generators, genLexer) }

package main

// genSchemes: the code-generation schemes of compiler/compiler.go as terms of the DSL of
// coq/BC/Schemes.v -> coq/gen/GenSchemes.v.
//
// A syntactic reading, statement by statement and in source order, of
//   - every method the type switch of (*compiler).compile dispatches to (NilNode ... PairNode),
//   - every method of *compiler that takes a func() (emitLoop, emitCond) and emitPush,
//   - the statements of Compile that call a method of the compiler value,
//   - the type switch itself as a table (node type, method),
//   - the `offset := ...` expressions of patchJump and calcBackwardJump.
// The primitives the DSL takes for granted (emit, placeholder, encode, kind, the prologue of compile,
// the statements after `offset := ...` in patchJump / calcBackwardJump) are compared with the text the
// interpreter was written against.
//
// What the reading normalises away: names of local variables (numbered by first definition), the
// name of the receiver and of the node parameter, comments, layout.  Two pure local definitions
// are substituted where they are used instead of being emitted: `x := kind(node.F)` and
// `t := node.Type()`.  `var x int` only introduces the variable.  The init statement of an if,
// `x, ok := node.F.(*ast.T)`, binds x and ok for the condition and both branches: `ok` reads as
// CIsNode (slot F) T, `x.G` as XAsField (slot F) T G, `node.F.String()` as XReSource F, and `==` / `!=`
// between two such strings as CStrEq (MatchesNode's guard).  Everything else that is not one
// of the shapes below becomes `SUnrecognised "compiler.go:<line>"`, which makes the bridge lemma
// of coq/Bridge/BrSchemes.v fail.

import (
	"fmt"
	"go/ast"
	"go/token"
	"sort"
	"strconv"
	"strings"
)

type scBinding struct {
	kind string // "var" (numbered), "kind" (x := kind(node.F)), "type" (t := node.Type()),
	// "assert" / "assertok" (x, ok := node.F.(*ast.T) in the init of an if statement)
	num  int
	kexp string
	slot string // assert, assertok: the Node-typed place that is asserted
	ty   string // assert, assertok: T
}

type scFn struct {
	recv      string // the compiler value: receiver, or the local `c` of Compile
	node      string // the *ast.XNode parameter
	root      string // the *parser.Tree parameter (Compile only)
	param     string // a value parameter a helper passes on (emitPush: value)
	bodyParam string // a func() parameter (emitLoop, emitCond: body)
	// lexical scopes, innermost last.  A numbered variable gets the number of numbered variables
	// visible at its definition, so the numbering does not depend on names.
	scopes []map[string]scBinding
}

func newScFn() *scFn {
	return &scFn{scopes: []map[string]scBinding{{}}}
}

func (t *scFn) push() { t.scopes = append(t.scopes, map[string]scBinding{}) }
func (t *scFn) pop()  { t.scopes = t.scopes[:len(t.scopes)-1] }

func (t *scFn) find(name string) (scBinding, bool) {
	for i := len(t.scopes) - 1; i >= 0; i-- {
		if b, ok := t.scopes[i][name]; ok {
			return b, true
		}
	}
	return scBinding{}, false
}

// the number of a variable that is in scope
func (t *scFn) varNum(name string) (int, bool) {
	b, ok := t.find(name)
	if !ok || b.kind != "var" {
		return 0, false
	}
	return b.num, true
}

// a new numbered variable in the innermost scope (shadows an outer one of the same name)
func (t *scFn) define(name string) int {
	n := 0
	for _, sc := range t.scopes {
		for _, b := range sc {
			if b.kind == "var" {
				n++
			}
		}
	}
	t.scopes[len(t.scopes)-1][name] = scBinding{kind: "var", num: n}
	return n
}

func (t *scFn) bind(name string, b scBinding) { t.scopes[len(t.scopes)-1][name] = b }

// stmts in a scope of its own
func (t *scFn) block(list []ast.Stmt, ind string) []string {
	t.push()
	defer t.pop()
	return t.stmts(list, ind)
}

func scIdent(e ast.Expr) (string, bool) {
	id, ok := e.(*ast.Ident)
	if !ok {
		return "", false
	}
	return id.Name, true
}

// x.f with x a plain identifier
func scSel(e ast.Expr) (string, string, bool) {
	s, ok := e.(*ast.SelectorExpr)
	if !ok {
		return "", "", false
	}
	x, ok := scIdent(s.X)
	if !ok {
		return "", "", false
	}
	return x, s.Sel.Name, true
}

// node.F
func (t *scFn) nodeField(e ast.Expr) (string, bool) {
	x, f, ok := scSel(e)
	if !ok || t.node == "" || x != t.node {
		return "", false
	}
	return f, true
}

// c.m(args)
func (t *scFn) recvCall(e ast.Expr) (string, *ast.CallExpr, bool) {
	c, ok := e.(*ast.CallExpr)
	if !ok {
		return "", nil, false
	}
	x, m, ok := scSel(c.Fun)
	if !ok || x != t.recv {
		return "", nil, false
	}
	return m, c, true
}

// f(args) with f a plain identifier
func scPlainCall(e ast.Expr) (string, *ast.CallExpr, bool) {
	c, ok := e.(*ast.CallExpr)
	if !ok {
		return "", nil, false
	}
	f, ok := scIdent(c.Fun)
	if !ok {
		return "", nil, false
	}
	return f, c, true
}

var scConvNames = map[string]bool{
	"uint": true, "uint8": true, "uint16": true, "uint32": true, "uint64": true,
	"int": true, "int8": true, "int16": true, "int32": true, "int64": true,
	"float32": true, "float64": true,
}

func scZ(s string) (string, bool) {
	n, err := strconv.ParseInt(s, 0, 64)
	if err != nil || n < 0 {
		return "", false
	}
	return fmt.Sprintf("%d", n), true
}

// the argument of makeConstant / emitPush
func (t *scFn) carg(e ast.Expr) (string, bool) {
	switch x := e.(type) {
	case *ast.BasicLit:
		switch x.Kind {
		case token.STRING:
			s, err := strconv.Unquote(x.Value)
			if err != nil {
				return "", false
			}
			return "KLitS " + coqString(s), true
		case token.INT:
			z, ok := scZ(x.Value)
			if !ok {
				return "", false
			}
			return "KLitZ " + z, true
		}
	case *ast.Ident:
		if t.param != "" && x.Name == t.param {
			return "KParam", true
		}
	case *ast.SelectorExpr:
		if f, ok := t.nodeField(x); ok {
			return "KField " + coqString(f), true
		}
	case *ast.CallExpr:
		if f, c, ok := scPlainCall(x); ok && len(c.Args) == 1 && c.Ellipsis == token.NoPos {
			if fld, ok := t.nodeField(c.Args[0]); ok {
				if f == "len" {
					return "KLen " + coqString(fld), true
				}
				if scConvNames[f] {
					return "KConv " + coqString(f) + " " + coqString(fld), true
				}
			}
		}
	case *ast.CompositeLit:
		// Call{Name: node.A, Size: len(node.B)}
		if ty, ok := scIdent(x.Type); ok && ty == "Call" && len(x.Elts) == 2 {
			var name, size string
			for _, el := range x.Elts {
				kv, ok := el.(*ast.KeyValueExpr)
				if !ok {
					return "", false
				}
				k, ok := scIdent(kv.Key)
				if !ok {
					return "", false
				}
				switch k {
				case "Name":
					f, ok := t.nodeField(kv.Value)
					if !ok {
						return "", false
					}
					name = f
				case "Size":
					f, c, ok := scPlainCall(kv.Value)
					if !ok || f != "len" || len(c.Args) != 1 {
						return "", false
					}
					fld, ok := t.nodeField(c.Args[0])
					if !ok {
						return "", false
					}
					size = fld
				default:
					return "", false
				}
			}
			if name != "" && size != "" {
				return "KCall " + coqString(name) + " " + coqString(size), true
			}
		}
	}
	return "", false
}

// a Node-typed place
func (t *scFn) slot(e ast.Expr) (string, bool) {
	if x, f, ok := scSel(e); ok {
		if t.node != "" && x == t.node {
			return "SlField " + coqString(f), true
		}
		if t.root != "" && x == t.root && f == "Node" {
			return "SlRoot", true
		}
		return "", false
	}
	if ix, ok := e.(*ast.IndexExpr); ok {
		f, ok := t.nodeField(ix.X)
		if !ok {
			return "", false
		}
		lit, ok := ix.Index.(*ast.BasicLit)
		if !ok || lit.Kind != token.INT {
			return "", false
		}
		z, ok := scZ(lit.Value)
		if !ok {
			return "", false
		}
		return "SlIndex " + coqString(f) + " " + z, true
	}
	return "", false
}

// reflect.Kind valued expression
func (t *scFn) kexp(e ast.Expr) (string, bool) {
	if id, ok := scIdent(e); ok {
		if b, ok := t.find(id); ok && b.kind == "kind" {
			return b.kexp, true
		}
		return "", false
	}
	if x, f, ok := scSel(e); ok && x == "reflect" {
		return "KdConst " + coqString(f), true
	}
	if f, c, ok := scPlainCall(e); ok && f == "kind" && len(c.Args) == 1 {
		if sl, ok := t.slot(c.Args[0]); ok {
			return "KdSlot (" + sl + ")", true
		}
	}
	return "", false
}

func scIsNil(e ast.Expr) bool {
	id, ok := scIdent(e)
	return ok && id == "nil"
}

// x, ok := node.F.(*ast.T): binds x and ok (pure; substituted where they are used)
func (t *scFn) assertInit(s ast.Stmt) bool {
	as, ok := s.(*ast.AssignStmt)
	if !ok || as.Tok != token.DEFINE || len(as.Lhs) != 2 || len(as.Rhs) != 1 {
		return false
	}
	val, ok1 := scIdent(as.Lhs[0])
	okv, ok2 := scIdent(as.Lhs[1])
	if !ok1 || !ok2 {
		return false
	}
	ta, ok := as.Rhs[0].(*ast.TypeAssertExpr)
	if !ok || ta.Type == nil {
		return false
	}
	sl, ok := t.slot(ta.X)
	if !ok {
		return false
	}
	star, ok := ta.Type.(*ast.StarExpr)
	if !ok {
		return false
	}
	pkg, ty, ok := scSel(star.X)
	if !ok || pkg != "ast" {
		return false
	}
	if val != "_" {
		t.bind(val, scBinding{kind: "assert", slot: sl, ty: ty})
	}
	if okv != "_" {
		t.bind(okv, scBinding{kind: "assertok", slot: sl, ty: ty})
	}
	return true
}

// string-valued expression of a guard
func (t *scFn) sexp(e ast.Expr) (string, bool) {
	switch x := e.(type) {
	case *ast.ParenExpr:
		return t.sexp(x.X)
	case *ast.CallExpr:
		// node.F.String()
		if sel, ok := x.Fun.(*ast.SelectorExpr); ok && sel.Sel.Name == "String" && len(x.Args) == 0 {
			if f, ok := t.nodeField(sel.X); ok {
				return "XReSource " + coqString(f), true
			}
		}
	case *ast.SelectorExpr:
		// x.F with x bound by a type assertion
		if v, f, ok := scSel(x); ok {
			if b, ok := t.find(v); ok && b.kind == "assert" {
				return "XAsField (" + b.slot + ") " + coqString(b.ty) + " " + coqString(f), true
			}
		}
	}
	return "", false
}

func (t *scFn) cond(e ast.Expr) (string, bool) {
	switch x := e.(type) {
	case *ast.ParenExpr:
		return t.cond(x.X)
	case *ast.Ident:
		if b, ok := t.find(x.Name); ok && b.kind == "assertok" {
			return "CIsNode (" + b.slot + ") " + coqString(b.ty), true
		}
	case *ast.UnaryExpr:
		if x.Op == token.NOT {
			c, ok := t.cond(x.X)
			if !ok {
				return "", false
			}
			return "CNot (" + c + ")", true
		}
	case *ast.SelectorExpr:
		if r, f, ok := scSel(x); ok && r == t.recv && f == "mapEnv" {
			return "CMapEnv", true
		}
		if f, ok := t.nodeField(x); ok {
			return "CField " + coqString(f), true
		}
	case *ast.BinaryExpr:
		switch x.Op {
		case token.LAND:
			a, ok1 := t.cond(x.X)
			b, ok2 := t.cond(x.Y)
			if ok1 && ok2 {
				return "CAnd (" + a + ") (" + b + ")", true
			}
		case token.EQL, token.NEQ:
			wrap := func(c string) string {
				if x.Op == token.NEQ {
					return "CNot (" + c + ")"
				}
				return c
			}
			if scIsNil(x.Y) {
				if f, ok := t.nodeField(x.X); ok {
					return wrap("CNil " + coqString(f)), true
				}
				if id, ok := scIdent(x.X); ok && t.isTypeVar(id) {
					return wrap("CTypeNil"), true
				}
				return "", false
			}
			if a, ok := t.sexp(x.X); ok {
				if b, ok := t.sexp(x.Y); ok {
					return wrap("CStrEq (" + a + ") (" + b + ")"), true
				}
				return "", false
			}
			a, ok1 := t.kexp(x.X)
			b, ok2 := t.kexp(x.Y)
			if ok1 && ok2 {
				return wrap("CKindEq (" + a + ") (" + b + ")"), true
			}
		}
	}
	return "", false
}

func (t *scFn) isTypeVar(name string) bool {
	b, ok := t.find(name)
	return ok && b.kind == "type"
}

// the opcode argument of emit
func (t *scFn) opref(e ast.Expr) (string, bool) {
	id, ok := scIdent(e)
	if !ok {
		return "", false
	}
	if n, ok := t.varNum(id); ok {
		return fmt.Sprintf("OpVar %d", n), true
	}
	if strings.HasPrefix(id, "Op") {
		return "OpName " + coqString(id), true
	}
	return "", false
}

func scBlock(items []string, ind string) string {
	if len(items) == 0 {
		return "[]"
	}
	return "[" + strings.Join(items, ";\n"+ind+" ") + "]"
}

func scUnrec(n ast.Node) string { return "SUnrecognised " + coqString(pos(n)) }

// c.emit(op, ...) as a statement (the result is not kept)
func (t *scFn) emitCall(c *ast.CallExpr) (string, bool) {
	if len(c.Args) == 0 || len(c.Args) > 2 {
		return "", false
	}
	op, ok := t.opref(c.Args[0])
	if !ok {
		return "", false
	}
	if len(c.Args) == 1 {
		if c.Ellipsis != token.NoPos {
			return "", false
		}
		return "SEmit (" + op + ")", true
	}
	if c.Ellipsis == token.NoPos {
		return "", false
	}
	arg := c.Args[1]
	if id, ok := scIdent(arg); ok {
		if n, ok := t.varNum(id); ok {
			return fmt.Sprintf("SEmitVar (%s) %d", op, n), true
		}
		return "", false
	}
	if m, mc, ok := t.recvCall(arg); ok && mc.Ellipsis == token.NoPos {
		switch m {
		case "makeConstant":
			if len(mc.Args) == 1 {
				if k, ok := t.carg(mc.Args[0]); ok {
					return "SEmitConst (" + op + ") (" + k + ")", true
				}
			}
		case "calcBackwardJump":
			if len(mc.Args) == 1 {
				if id, ok := scIdent(mc.Args[0]); ok {
					if n, ok := t.varNum(id); ok {
						return fmt.Sprintf("SBackTo (%s) %d", op, n), true
					}
				}
			}
		}
		return "", false
	}
	if f, fc, ok := scPlainCall(arg); ok && f == "encode" && len(fc.Args) == 1 && fc.Ellipsis == token.NoPos {
		if lit, ok := fc.Args[0].(*ast.BasicLit); ok && lit.Kind == token.INT {
			if z, ok := scZ(lit.Value); ok {
				return "SEmitRaw (" + op + ") " + z, true
			}
		}
	}
	return "", false
}

// c.emit(op, c.placeholder()...)
func (t *scFn) placeholderCall(e ast.Expr) (string, bool) {
	m, c, ok := t.recvCall(e)
	if !ok || m != "emit" || len(c.Args) != 2 || c.Ellipsis == token.NoPos {
		return "", false
	}
	op, ok := t.opref(c.Args[0])
	if !ok {
		return "", false
	}
	pm, pc, ok := t.recvCall(c.Args[1])
	if !ok || pm != "placeholder" || len(pc.Args) != 0 {
		return "", false
	}
	return op, true
}

// c.m(func() { ... })
func (t *scFn) bodyCall(e ast.Expr) (string, *ast.FuncLit, bool) {
	m, c, ok := t.recvCall(e)
	if !ok || len(c.Args) != 1 || c.Ellipsis != token.NoPos {
		return "", nil, false
	}
	fl, ok := c.Args[0].(*ast.FuncLit)
	if !ok || fl.Type.Params.NumFields() != 0 || fl.Type.Results.NumFields() != 0 {
		return "", nil, false
	}
	return m, fl, true
}

// an expression evaluated for its effect
func (t *scFn) callStmt(e ast.Expr, ind string) (string, bool) {
	if m, fl, ok := t.bodyCall(e); ok {
		body := t.block(fl.Body.List, ind+"    ")
		return "SCallBody " + coqString(m) + " None\n" + ind + "   " + scBlock(body, ind+"   "), true
	}
	if m, c, ok := t.recvCall(e); ok {
		switch m {
		case "emit":
			return t.emitCall(c)
		case "emitPush":
			if len(c.Args) == 1 && c.Ellipsis == token.NoPos {
				if k, ok := t.carg(c.Args[0]); ok {
					return "SPush (" + k + ")", true
				}
			}
		case "compile":
			if len(c.Args) == 1 && c.Ellipsis == token.NoPos {
				if sl, ok := t.slot(c.Args[0]); ok {
					return "SCompile (" + sl + ")", true
				}
			}
		case "patchJump":
			if len(c.Args) == 1 && c.Ellipsis == token.NoPos {
				if id, ok := scIdent(c.Args[0]); ok {
					if n, ok := t.varNum(id); ok {
						return fmt.Sprintf("SPatch %d", n), true
					}
				}
			}
		}
		return "", false
	}
	if f, c, ok := scPlainCall(e); ok {
		if f == "panic" && len(c.Args) == 1 {
			return "SPanic", true
		}
		if t.bodyParam != "" && f == t.bodyParam && len(c.Args) == 0 {
			return "SBody", true
		}
	}
	return "", false
}

func (t *scFn) assign(s *ast.AssignStmt, ind string) (string, bool, bool) {
	// returns (term, emitted, ok): pure definitions emit nothing
	if len(s.Lhs) != 1 || len(s.Rhs) != 1 || (s.Tok != token.DEFINE && s.Tok != token.ASSIGN) {
		return "", false, false
	}
	name, ok := scIdent(s.Lhs[0])
	if !ok || name == "_" {
		return "", false, false
	}
	// the variable an assignment writes: a new one for :=, the visible one for =
	target := func() int {
		if s.Tok == token.DEFINE {
			return t.define(name)
		}
		n, _ := t.varNum(name)
		return n
	}
	if s.Tok == token.ASSIGN {
		if _, known := t.varNum(name); !known {
			return "", false, false
		}
	}
	rhs := s.Rhs[0]
	// pure definitions
	if s.Tok == token.DEFINE {
		if f, c, ok := scPlainCall(rhs); ok && f == "kind" && len(c.Args) == 1 {
			if k, ok := t.kexp(rhs); ok {
				t.bind(name, scBinding{kind: "kind", kexp: k})
				return "", false, true
			}
			return "", false, false
		}
		if c, ok := rhs.(*ast.CallExpr); ok && len(c.Args) == 0 {
			if x, f, ok := scSel(c.Fun); ok && t.node != "" && x == t.node && f == "Type" {
				t.bind(name, scBinding{kind: "type"})
				return "", false, true
			}
		}
	}
	if op, ok := t.placeholderCall(rhs); ok {
		return fmt.Sprintf("SPlaceholder (%s) %d", op, target()), true, true
	}
	if m, fl, ok := t.bodyCall(rhs); ok {
		body := t.block(fl.Body.List, ind+"    ")
		v := target()
		return fmt.Sprintf("SCallBody %s (Some %d)\n%s   %s", coqString(m), v, ind, scBlock(body, ind+"   ")), true, true
	}
	if m, c, ok := t.recvCall(rhs); ok && m == "makeConstant" && len(c.Args) == 1 && c.Ellipsis == token.NoPos {
		if k, ok := t.carg(c.Args[0]); ok {
			return fmt.Sprintf("SLet %d (%s)", target(), k), true, true
		}
		return "", false, false
	}
	if f, c, ok := scPlainCall(rhs); ok && f == "len" && len(c.Args) == 1 {
		if x, fld, ok := scSel(c.Args[0]); ok && x == t.recv && fld == "bytecode" {
			return fmt.Sprintf("SMark %d", target()), true, true
		}
		return "", false, false
	}
	if id, ok := scIdent(rhs); ok && strings.HasPrefix(id, "Op") {
		if _, shadowed := t.find(id); !shadowed {
			return fmt.Sprintf("SSetOp %d %s", target(), coqString(id)), true, true
		}
	}
	return "", false, false
}

func (t *scFn) ifStmt(s *ast.IfStmt, ind string) string {
	// the names an init statement binds are visible in the condition and in both branches
	t.push()
	defer t.pop()
	if s.Init != nil && !t.assertInit(s.Init) {
		return scUnrec(s)
	}
	c, ok := t.cond(s.Cond)
	if !ok {
		return scUnrec(s)
	}
	a := t.block(s.Body.List, ind+"    ")
	var b []string
	switch e := s.Else.(type) {
	case nil:
	case *ast.BlockStmt:
		b = t.block(e.List, ind+"    ")
	case *ast.IfStmt:
		b = []string{t.ifStmt(e, ind+"    ")}
	default:
		return scUnrec(s)
	}
	return "SIf (" + c + ")\n" + ind + "   " + scBlock(a, ind+"   ") + "\n" + ind + "   " + scBlock(b, ind+"   ")
}

func (t *scFn) switchStmt(s *ast.SwitchStmt, ind string) string {
	if s.Init != nil || s.Tag == nil {
		return scUnrec(s)
	}
	var key string
	kindSwitch := false
	if f, ok := t.nodeField(s.Tag); ok {
		key = "SwField " + coqString(f)
	} else if x, f, ok := scSel(s.Tag); ok && x == t.recv && f == "cast" {
		key = "SwCast"
		kindSwitch = true
	} else if c, ok := s.Tag.(*ast.CallExpr); ok && len(c.Args) == 0 {
		x, f, ok := scSel(c.Fun)
		if !ok || !t.isTypeVar(x) || f != "Kind" {
			return scUnrec(s)
		}
		key = "SwKind"
		kindSwitch = true
	} else {
		return scUnrec(s)
	}
	var cases []string
	dflt := "[]"
	seenDefault := false
	for _, cl := range s.Body.List {
		cc, ok := cl.(*ast.CaseClause)
		if !ok {
			return scUnrec(s)
		}
		body := t.block(cc.Body, ind+"         ")
		if cc.List == nil {
			if seenDefault {
				return scUnrec(s)
			}
			seenDefault = true
			dflt = scBlock(body, ind+"   ")
			continue
		}
		var labels []string
		for _, l := range cc.List {
			if kindSwitch {
				x, f, ok := scSel(l)
				if !ok || x != "reflect" {
					return scUnrec(s)
				}
				labels = append(labels, coqString(f))
			} else {
				lit, ok := l.(*ast.BasicLit)
				if !ok || lit.Kind != token.STRING {
					return scUnrec(s)
				}
				v, err := strconv.Unquote(lit.Value)
				if err != nil {
					return scUnrec(s)
				}
				labels = append(labels, coqString(v))
			}
		}
		cases = append(cases, "(["+strings.Join(labels, "; ")+"],\n"+ind+"     "+scBlock(body, ind+"     ")+")")
	}
	return "SSwitch (" + key + ")\n" + ind + "   " + scBlock(cases, ind+"   ") + "\n" + ind + "   " + dflt
}

// for _, x := range node.F { c.compile(x) }
func (t *scFn) rangeStmt(s *ast.RangeStmt) (string, bool) {
	if s.Tok != token.DEFINE || s.Value == nil || s.Key == nil {
		return "", false
	}
	if k, ok := scIdent(s.Key); !ok || k != "_" {
		return "", false
	}
	v, ok := scIdent(s.Value)
	if !ok {
		return "", false
	}
	f, ok := t.nodeField(s.X)
	if !ok || len(s.Body.List) != 1 {
		return "", false
	}
	es, ok := s.Body.List[0].(*ast.ExprStmt)
	if !ok {
		return "", false
	}
	m, c, ok := t.recvCall(es.X)
	if !ok || m != "compile" || len(c.Args) != 1 || c.Ellipsis != token.NoPos {
		return "", false
	}
	if a, ok := scIdent(c.Args[0]); !ok || a != v {
		return "", false
	}
	return "SCompileEach " + coqString(f), true
}

func (t *scFn) stmts(list []ast.Stmt, ind string) []string {
	var out []string
	for _, s := range list {
		switch x := s.(type) {
		case *ast.EmptyStmt:
		case *ast.ExprStmt:
			if term, ok := t.callStmt(x.X, ind); ok {
				out = append(out, term)
			} else {
				out = append(out, scUnrec(s))
			}
		case *ast.AssignStmt:
			term, emitted, ok := t.assign(x, ind)
			if !ok {
				out = append(out, scUnrec(s))
			} else if emitted {
				out = append(out, term)
			}
		case *ast.DeclStmt:
			// var x int
			gd, ok := x.Decl.(*ast.GenDecl)
			if ok && gd.Tok == token.VAR && len(gd.Specs) == 1 {
				vs := gd.Specs[0].(*ast.ValueSpec)
				if ty, isId := scIdent(vs.Type); isId && ty == "int" && len(vs.Names) == 1 && len(vs.Values) == 0 {
					t.define(vs.Names[0].Name)
					continue
				}
			}
			out = append(out, scUnrec(s))
		case *ast.IfStmt:
			out = append(out, t.ifStmt(x, ind))
		case *ast.SwitchStmt:
			out = append(out, t.switchStmt(x, ind))
		case *ast.RangeStmt:
			if term, ok := t.rangeStmt(x); ok {
				out = append(out, term)
			} else {
				out = append(out, scUnrec(s))
			}
		case *ast.ReturnStmt:
			switch len(x.Results) {
			case 0:
				out = append(out, "SReturn")
			case 1:
				if id, ok := scIdent(x.Results[0]); ok {
					if n, ok := t.varNum(id); ok {
						out = append(out, fmt.Sprintf("SReturnVar %d", n))
						continue
					}
					out = append(out, scUnrec(s))
					continue
				}
				if term, ok := t.callStmt(x.Results[0], ind); ok {
					// return f(...): the call, then the return (no caller uses the int emit returns
					// through a helper; a caller that did would not be recognised)
					out = append(out, term, "SReturn")
					continue
				}
				out = append(out, scUnrec(s))
			default:
				out = append(out, scUnrec(s))
			}
		default:
			out = append(out, scUnrec(s))
		}
	}
	return out
}

// does the statement call a method of the value named recv?
func scCallsRecv(s ast.Stmt, recv string) bool {
	found := false
	ast.Inspect(s, func(n ast.Node) bool {
		if c, ok := n.(*ast.CallExpr); ok {
			if x, _, ok := scSel(c.Fun); ok && x == recv {
				found = true
			}
		}
		return !found
	})
	return found
}

// an integer expression over len(c.bytecode), the parameter and literals
func scAexp(e ast.Expr, recv, param string) (string, bool) {
	switch x := e.(type) {
	case *ast.ParenExpr:
		return scAexp(x.X, recv, param)
	case *ast.BasicLit:
		if x.Kind == token.INT {
			if z, ok := scZ(x.Value); ok {
				return "ANum " + z, true
			}
		}
	case *ast.Ident:
		if x.Name == param {
			return "AArg", true
		}
	case *ast.CallExpr:
		if f, c, ok := scPlainCall(x); ok && f == "len" && len(c.Args) == 1 {
			if r, fld, ok := scSel(c.Args[0]); ok && r == recv && fld == "bytecode" {
				return "ALen", true
			}
		}
	case *ast.BinaryExpr:
		a, ok1 := scAexp(x.X, recv, param)
		b, ok2 := scAexp(x.Y, recv, param)
		if ok1 && ok2 {
			switch x.Op {
			case token.ADD:
				return "AAdd (" + a + ") (" + b + ")", true
			case token.SUB:
				return "ASub (" + a + ") (" + b + ")", true
			}
		}
	}
	return "", false
}

func scRecvName(fd *ast.FuncDecl) string {
	if fd.Recv == nil || len(fd.Recv.List) != 1 || len(fd.Recv.List[0].Names) != 1 {
		return ""
	}
	return fd.Recv.List[0].Names[0].Name
}

// the text the interpreter of BC/Schemes.v was written against (go/printer form, blanks squeezed)
var scExpected = map[string]string{
	"emit": "func(op byte, b ...byte) int { c.bytecode = append(c.bytecode, op) current := len(c.bytecode) c.bytecode = append(c.bytecode, b...) " +
		"var loc file.Location if len(c.nodes) > 0 { loc = c.nodes[len(c.nodes)-1].Location() } c.locations[current-1] = loc return current }",
	"placeholder":      "func() []byte { return []byte{0xFF, 0xFF} }",
	"encode":           "func(i uint16) []byte { b := make([]byte, 2) binary.LittleEndian.PutUint16(b, i) return b }",
	"kind":             "func(node ast.Node) reflect.Kind { t := node.Type() if t == nil { return reflect.Invalid } return t.Kind() }",
	"compile-prologue": "c.nodes = append(c.nodes, node) defer func() { c.nodes = c.nodes[:len(c.nodes)-1] }()",
	"patchJump-tail": "if offset > math.MaxUint16 { panic(\"exceeded jump offset limit\") } b := encode(uint16(offset)) " +
		"c.bytecode[placeholder] = b[0] c.bytecode[placeholder+1] = b[1]",
	"calcBackwardJump-tail": "if offset > math.MaxUint16 { panic(\"exceeded jump offset limit\") } return encode(uint16(offset))",
}

func scText(nodes ...ast.Node) string {
	var parts []string
	for _, n := range nodes {
		parts = append(parts, src(n))
	}
	return squeeze(strings.Join(parts, " "))
}

func genSchemes() {
	f := parseFile("compiler/compiler.go")
	var unrec []string
	bad := func(where, what string) { unrec = append(unrec, where+": "+what) }

	funcs := map[string]string{} // name -> Coq list term
	var dispatch [][2]string
	patchOff, backOff := "ANum 0", "ANum 0"

	method := func(name string) *ast.FuncDecl { return funcDecl(f, name, "compiler") }

	checkText := func(key string, got string, where string) {
		if got != scExpected[key] {
			bad(where, key+" is not the expected text")
		}
	}

	if f == nil {
		bad("compiler.go", "cannot parse")
	} else {
		// ---- primitives
		for _, name := range []string{"emit", "placeholder"} {
			fd := method(name)
			if fd == nil || fd.Body == nil || scRecvName(fd) != "c" {
				bad("compiler.go", name+" not found")
				continue
			}
			checkText(name, scText(fd.Type, fd.Body), pos(fd))
		}
		for _, name := range []string{"encode", "kind"} {
			fd := funcDecl(f, name, "")
			if fd == nil || fd.Body == nil {
				bad("compiler.go", name+" not found")
				continue
			}
			checkText(name, scText(fd.Type, fd.Body), pos(fd))
		}
		// ---- offsets
		offset := func(name, tailKey string) string {
			fd := method(name)
			if fd == nil || fd.Body == nil || scRecvName(fd) != "c" || fd.Type.Params.NumFields() != 1 ||
				len(fd.Type.Params.List[0].Names) != 1 || len(fd.Body.List) < 1 {
				bad("compiler.go", name+" not found")
				return "ANum 0"
			}
			param := fd.Type.Params.List[0].Names[0].Name
			as, ok := fd.Body.List[0].(*ast.AssignStmt)
			if !ok || as.Tok != token.DEFINE || len(as.Lhs) != 1 || len(as.Rhs) != 1 {
				bad(pos(fd), name+": first statement is not `offset := ...`")
				return "ANum 0"
			}
			if id, ok := scIdent(as.Lhs[0]); !ok || id != "offset" {
				bad(pos(fd), name+": first statement is not `offset := ...`")
				return "ANum 0"
			}
			a, ok := scAexp(as.Rhs[0], "c", param)
			if !ok {
				bad(pos(as), name+": offset expression")
				return "ANum 0"
			}
			var tail []ast.Node
			for _, s := range fd.Body.List[1:] {
				tail = append(tail, s)
			}
			got := scText(tail...)
			// the tail is compared with the parameter named as in the expected text
			want := scExpected[tailKey]
			if name == "patchJump" && param != "placeholder" {
				want = ""
			}
			if got != want {
				bad(pos(fd), tailKey+" is not the expected text")
			}
			return a
		}
		patchOff = offset("patchJump", "patchJump-tail")
		backOff = offset("calcBackwardJump", "calcBackwardJump-tail")

		// ---- the type switch of compile
		if fd := method("compile"); fd == nil || fd.Body == nil || len(fd.Body.List) != 3 || scRecvName(fd) != "c" ||
			fd.Type.Params.NumFields() != 1 || len(fd.Type.Params.List[0].Names) != 1 || fd.Type.Params.List[0].Names[0].Name != "node" {
			bad("compiler.go", "compile: not `prologue; defer; type switch`")
		} else {
			checkText("compile-prologue", scText(fd.Body.List[0], fd.Body.List[1]), pos(fd))
			ts, ok := fd.Body.List[2].(*ast.TypeSwitchStmt)
			if !ok {
				bad(pos(fd.Body.List[2]), "compile: no type switch")
			} else {
				bound, subject := typeSwitchVar(ts)
				if subject != "node" || bound == "" {
					bad(pos(ts), "compile: type switch is not `switch n := node.(type)`")
				}
				for _, cl := range ts.Body.List {
					cc := cl.(*ast.CaseClause)
					if cc.List == nil {
						if len(cc.Body) != 1 {
							bad(pos(cc), "compile: default case")
							continue
						}
						es, ok := cc.Body[0].(*ast.ExprStmt)
						if !ok {
							bad(pos(cc), "compile: default case")
							continue
						}
						if fn, _, ok := scPlainCall(es.X); !ok || fn != "panic" {
							bad(pos(cc), "compile: default case")
						}
						continue
					}
					okCase := false
					if len(cc.List) == 1 && len(cc.Body) == 1 {
						if st, ok := cc.List[0].(*ast.StarExpr); ok {
							if pkg, ty, ok := scSel(st.X); ok && pkg == "ast" {
								if es, ok := cc.Body[0].(*ast.ExprStmt); ok {
									if c, ok := es.X.(*ast.CallExpr); ok && len(c.Args) == 1 && c.Ellipsis == token.NoPos {
										if r, m, ok := scSel(c.Fun); ok && r == "c" {
											if a, ok := scIdent(c.Args[0]); ok && a == bound {
												dispatch = append(dispatch, [2]string{ty, m})
												okCase = true
											}
										}
									}
								}
							}
						}
					}
					if !okCase {
						bad(pos(cc), "compile: case is not `case *ast.T: c.M(n)`")
					}
				}
			}
		}
		sort.Slice(dispatch, func(i, j int) bool { return dispatch[i][0] < dispatch[j][0] })

		// ---- methods
		translate := func(fd *ast.FuncDecl, t *scFn) string {
			return scBlock(t.stmts(fd.Body.List, "  "), " ")
		}
		seen := map[string]bool{}
		for _, d := range dispatch {
			name := d[1]
			if seen[name] {
				continue
			}
			seen[name] = true
			fd := method(name)
			if fd == nil || fd.Body == nil {
				funcs[name] = "[SUnrecognised " + coqString("compiler.go: method "+name+" not found") + "]"
				continue
			}
			t := newScFn()
			t.recv = scRecvName(fd)
			if fd.Type.Params.NumFields() == 1 && len(fd.Type.Params.List[0].Names) == 1 && fd.Type.Results.NumFields() == 0 {
				t.node = fd.Type.Params.List[0].Names[0].Name
				funcs[name] = translate(fd, t)
			} else {
				funcs[name] = "[" + scUnrec(fd) + "]"
			}
		}
		// ---- helpers: methods of *compiler with exactly one parameter that is a func() or a plain value
		for _, d := range f.Decls {
			fd, ok := d.(*ast.FuncDecl)
			if !ok || fd.Recv == nil || fd.Body == nil || seen[fd.Name.Name] {
				continue
			}
			if rt := src(fd.Recv.List[0].Type); strings.TrimPrefix(rt, "*") != "compiler" {
				continue
			}
			if fd.Type.Params.NumFields() != 1 || len(fd.Type.Params.List[0].Names) != 1 {
				continue
			}
			p := fd.Type.Params.List[0]
			t := newScFn()
			t.recv = scRecvName(fd)
			if ft, ok := p.Type.(*ast.FuncType); ok && ft.Params.NumFields() == 0 && ft.Results.NumFields() == 0 {
				t.bodyParam = p.Names[0].Name
				funcs[fd.Name.Name] = translate(fd, t)
				seen[fd.Name.Name] = true
			} else if fd.Name.Name == "emitPush" {
				t.param = p.Names[0].Name
				funcs[fd.Name.Name] = translate(fd, t)
				seen[fd.Name.Name] = true
			}
		}
		if !seen["emitPush"] {
			funcs["emitPush"] = "[SUnrecognised " + coqString("compiler.go: emitPush not found") + "]"
		}
		// ---- Compile: the statements that call a method of the compiler value
		if fd := funcDecl(f, "Compile", ""); fd == nil || fd.Body == nil || fd.Type.Params.NumFields() < 1 ||
			len(fd.Type.Params.List[0].Names) != 1 {
			funcs["Compile"] = "[SUnrecognised " + coqString("compiler.go: Compile not found") + "]"
		} else {
			t := newScFn()
			t.root = fd.Type.Params.List[0].Names[0].Name
			// the compiler value: x := &compiler{...}
			for _, s := range fd.Body.List {
				if as, ok := s.(*ast.AssignStmt); ok && as.Tok == token.DEFINE && len(as.Lhs) == 1 && len(as.Rhs) == 1 {
					if u, ok := as.Rhs[0].(*ast.UnaryExpr); ok && u.Op == token.AND {
						if cl, ok := u.X.(*ast.CompositeLit); ok {
							if ty, ok := scIdent(cl.Type); ok && ty == "compiler" {
								t.recv, _ = scIdent(as.Lhs[0])
							}
						}
					}
				}
			}
			if t.recv == "" {
				funcs["Compile"] = "[" + scUnrec(fd) + "]"
			} else {
				var keep []ast.Stmt
				for _, s := range fd.Body.List {
					if scCallsRecv(s, t.recv) {
						keep = append(keep, s)
					}
				}
				funcs["Compile"] = scBlock(t.stmts(keep, "  "), " ")
			}
		}
	}

	names := make([]string, 0, len(funcs))
	for n := range funcs {
		names = append(names, n)
	}
	sort.Strings(names)

	var b strings.Builder
	b.WriteString("(* GENERATED by /verif/translator from compiler/compiler.go — do not edit *)\n")
	b.WriteString("From Coq Require Import ZArith List String.\nRequire Import X.BC.Schemes.\nImport ListNotations.\nOpen Scope string_scope.\n\n")
	b.WriteString("(* one DSL term (coq/BC/Schemes.v) per function: the statements in source order *)\n")
	for _, n := range names {
		fmt.Fprintf(&b, "Definition sch_%s : list sch :=\n %s.\n\n", n, funcs[n])
	}
	b.WriteString("(* the type switch of compile: `case *ast.T: c.M(n)` as (T, M), sorted by T *)\n")
	b.WriteString("Definition dispatch : list (string * string) :=\n [")
	for i, d := range dispatch {
		if i > 0 {
			b.WriteString(";\n  ")
		}
		fmt.Fprintf(&b, "(%s, %s)", coqString(d[0]), coqString(d[1]))
	}
	b.WriteString("].\n\n")
	b.WriteString("Definition funcs : list (string * list sch) :=\n [")
	for i, n := range names {
		if i > 0 {
			b.WriteString(";\n  ")
		}
		fmt.Fprintf(&b, "(%s, sch_%s)", coqString(n), n)
	}
	b.WriteString("].\n\n")
	b.WriteString("(* patchJump: offset := ... over len(c.bytecode) (ALen) and the parameter (AArg) *)\n")
	fmt.Fprintf(&b, "Definition patch_offset : aexp := %s.\n", patchOff)
	b.WriteString("(* calcBackwardJump: offset := ... *)\n")
	fmt.Fprintf(&b, "Definition back_offset : aexp := %s.\n\n", backOff)
	b.WriteString("(* primitives whose text is not the one the interpreter was written against *)\n")
	b.WriteString("Definition schemes_unrecognised : list string := [")
	for i, u := range unrec {
		if i > 0 {
			b.WriteString("; ")
		}
		b.WriteString(coqString(u))
	}
	b.WriteString("].\n\n")
	b.WriteString("Definition schemes : X.BC.Schemes.schemes := mkSchemes dispatch funcs patch_offset back_offset schemes_unrecognised.\n")
	writeIfChanged("GenSchemes.v", b.String())
}

func init() { generators = append(generators, genSchemes) }

package main

// genSource: the functions of file/{source,error,location}.go as terms of the DSL of
// coq/File/SourceRules.v -> coq/gen/GenSource.v.
//
// A syntactic reading, statement by statement and in source order, of the functions named in
// poSourceFuncs.  What the reading normalises away: the names of local variables, parameters, the
// receiver and labels (numbered in order of declaration; the receiver is local 0), comments, layout,
// the spelling `x++` / `x += e` of an assignment, the difference between `:=` and `=` (it shows in the
// numbers), the order of the function declarations (the table is sorted callers first).
// Pointer variables (the receiver of a pointer method, a `*T` parameter, a local defined by `&T{..}`)
// may only be used as `p.f`, `p.m(..)` and `return p`: everything else could copy the pointer, which the
// interpreter (pointee semantics with write-back) does not model, and is refused.
// Anything that is not one of the shapes of SourceRules.v becomes `SUnrecognised "file:line"` /
// `EUnrecognised "file:line"` / `TUnknown "text"`, which makes `gensource_recognised` of
// coq/Bridge/BrSource.v fail.

import (
	"fmt"
	"go/ast"
	"go/token"
	"path"
	"sort"
	"strconv"
	"strings"
)

func init() { generators = append(generators, genSource) }

var poSourceFiles = []string{"file/source.go", "file/error.go", "file/location.go"}

// the functions that are read, in the order used to break ties in the table
var poSourceFuncs = []string{
	"NewSource", "Content", "Snippet", "updateOffsets", "findLineOffset", "findLine",
	"Error", "Bind", "format", "Empty",
}

var poFields = map[string]string{
	"contents": "FContents", "lineOffsets": "FLineOffsets", "Location": "FLocation",
	"Message": "FMessage", "Snippet": "FSnippet", "Line": "FLine", "Column": "FColumn",
}

var poTypes = map[string]string{
	"int": "TInt", "int32": "TInt32", "rune": "TInt32", "bool": "TBool", "string": "TString",
	"[]rune": "TRunes", "[]byte": "TBytes", "[]int32": "TI32s", "[]string": "TStrs",
	"Location": "TLoc", "*Source": "TSrcPtr", "*Error": "TErrPtr",
}

var poPrims = map[string]int{ // primitive -> number of arguments (-1: variadic)
	"strings.Split": 2, "strings.Replace": 4, "utf8.RuneCountInString": 1, "utf8.DecodeRune": 1, "fmt.Sprintf": -1,
}

var poBinops = map[token.Token]string{
	token.ADD: "BAdd", token.SUB: "BSub", token.EQL: "BEq", token.NEQ: "BNe",
	token.LSS: "BLt", token.LEQ: "BLe", token.GTR: "BGt", token.GEQ: "BGe",
	token.LAND: "BAndAlso", token.LOR: "BOrElse",
}

type poPkg struct {
	funcs map[string]*ast.FuncDecl // the functions that are read, by name
	pkgs  map[string]string        // local package name -> last element of the import path
}

type poFn struct {
	pkg    *poPkg
	scopes []map[string]int
	nvars  int
	ptr    map[int]bool // pointer variables
	labels map[string]int
	calls  []string
	called map[string]bool
}

func (t *poFn) push() { t.scopes = append(t.scopes, map[string]int{}) }
func (t *poFn) pop()  { t.scopes = t.scopes[:len(t.scopes)-1] }
func (t *poFn) find(name string) (int, bool) {
	for i := len(t.scopes) - 1; i >= 0; i-- {
		if n, ok := t.scopes[i][name]; ok {
			return n, true
		}
	}
	return 0, false
}
func (t *poFn) define(name string) int {
	n := t.nvars
	t.nvars++
	t.scopes[len(t.scopes)-1][name] = n
	return n
}
func (t *poFn) noteCall(name string) {
	if !t.called[name] {
		t.called[name] = true
		t.calls = append(t.calls, name)
	}
}

func poUnrecE(n ast.Node) string { return "EUnrecognised " + coqString(pos(n)) }
func poUnrecS(n ast.Node) string { return "SUnrecognised " + coqString(pos(n)) }

func poZ(v int64) string {
	if v < 0 {
		return fmt.Sprintf("(%d)", v)
	}
	return fmt.Sprintf("%d", v)
}

func poRunes(s string) string {
	var parts []string
	for _, r := range s {
		parts = append(parts, fmt.Sprintf("%d", r))
	}
	return "[" + strings.Join(parts, "; ") + "]"
}

func poParen(s string) string {
	if strings.ContainsAny(s, " ") && !strings.HasPrefix(s, "[") {
		return "(" + s + ")"
	}
	return s
}

func poFlat(items []string) string { return "[" + strings.Join(items, "; ") + "]" }

func poList(items []string, ind string) string {
	if len(items) == 0 {
		return "[]"
	}
	return "[" + strings.Join(items, ";\n"+ind+" ") + "]"
}

func poTypeText(e ast.Expr) string { return strings.Join(strings.Fields(src(e)), " ") }

func poTy(e ast.Expr) string {
	txt := poTypeText(e)
	if t, ok := poTypes[txt]; ok {
		return t
	}
	return "(TUnknown " + coqString(txt) + ")"
}

func (t *poFn) exps(es []ast.Expr) []string {
	var out []string
	for _, e := range es {
		out = append(out, t.exp(e))
	}
	return out
}

// a local variable used as the operand of `.`: pointer variables are welcome here
func (t *poFn) base(e ast.Expr) string {
	if id, ok := e.(*ast.Ident); ok {
		if n, ok := t.find(id.Name); ok {
			return fmt.Sprintf("EVar %d", n)
		}
	}
	return t.exp(e)
}

func (t *poFn) isPkg(e ast.Expr) (string, bool) {
	id, ok := e.(*ast.Ident)
	if !ok {
		return "", false
	}
	if _, local := t.find(id.Name); local {
		return "", false
	}
	p, ok := t.pkg.pkgs[id.Name]
	return p, ok
}

func (t *poFn) exp(e ast.Expr) string {
	switch v := e.(type) {
	case *ast.ParenExpr:
		return t.exp(v.X)
	case *ast.Ident:
		if n, ok := t.find(v.Name); ok {
			if t.ptr[n] {
				return poUnrecE(e) // a bare pointer: it could be copied
			}
			return fmt.Sprintf("EVar %d", n)
		}
		switch v.Name {
		case "true":
			return "EBool true"
		case "false":
			return "EBool false"
		}
		return poUnrecE(e)
	case *ast.BasicLit:
		switch v.Kind {
		case token.INT:
			if n, err := strconv.ParseInt(v.Value, 0, 64); err == nil {
				return "EInt " + poZ(n)
			}
		case token.CHAR:
			if s, err := strconv.Unquote(v.Value); err == nil {
				if r := []rune(s); len(r) == 1 {
					return "EInt " + poZ(int64(r[0]))
				}
			}
		case token.STRING:
			if s, err := strconv.Unquote(v.Value); err == nil {
				return "EStr " + poRunes(s)
			}
		}
		return poUnrecE(e)
	case *ast.UnaryExpr:
		switch v.Op {
		case token.NOT:
			return "ENot " + poParen(t.exp(v.X))
		case token.SUB:
			if lit, ok := v.X.(*ast.BasicLit); ok && lit.Kind == token.INT {
				if n, err := strconv.ParseInt(lit.Value, 0, 64); err == nil {
					return "EInt " + poZ(-n)
				}
			}
			return "EBin BSub (EInt 0) " + poParen(t.exp(v.X))
		case token.AND:
			if cl, ok := v.X.(*ast.CompositeLit); ok {
				return t.composite(cl, true)
			}
		}
		return poUnrecE(e)
	case *ast.CompositeLit:
		return t.composite(v, false)
	case *ast.BinaryExpr:
		if op, ok := poBinops[v.Op]; ok {
			return "EBin " + op + " " + poParen(t.exp(v.X)) + " " + poParen(t.exp(v.Y))
		}
		return poUnrecE(e)
	case *ast.SelectorExpr:
		if _, isPkg := t.isPkg(v.X); isPkg {
			return poUnrecE(e)
		}
		if f, ok := poFields[v.Sel.Name]; ok {
			return "EField " + poParen(t.base(v.X)) + " " + f
		}
		return poUnrecE(e)
	case *ast.IndexExpr:
		return "EIndex " + poParen(t.exp(v.X)) + " " + poParen(t.exp(v.Index))
	case *ast.SliceExpr:
		if v.Slice3 {
			return poUnrecE(e)
		}
		opt := func(x ast.Expr) string {
			if x == nil {
				return "None"
			}
			return "(Some " + poParen(t.exp(x)) + ")"
		}
		return "ESlice " + poParen(t.exp(v.X)) + " " + opt(v.Low) + " " + opt(v.High)
	case *ast.CallExpr:
		return t.call(v)
	}
	return poUnrecE(e)
}

// T{f: e, ..} (addr = false) and &T{f: e, ..} (addr = true)
func (t *poFn) composite(cl *ast.CompositeLit, addr bool) string {
	if cl.Type == nil {
		return poUnrecE(cl)
	}
	txt := poTypeText(cl.Type)
	if addr {
		txt = "*" + txt
	}
	ty, ok := poTypes[txt]
	if !ok || (ty != "TSrcPtr" && ty != "TErrPtr" && ty != "TLoc") {
		return poUnrecE(cl)
	}
	var inits []string
	for _, el := range cl.Elts {
		kv, ok := el.(*ast.KeyValueExpr)
		if !ok {
			return poUnrecE(cl)
		}
		k, ok := kv.Key.(*ast.Ident)
		if !ok {
			return poUnrecE(cl)
		}
		f, ok := poFields[k.Name]
		if !ok {
			return poUnrecE(cl)
		}
		inits = append(inits, "("+f+", "+t.exp(kv.Value)+")")
	}
	return "ENew " + ty + " " + poFlat(inits)
}

func (t *poFn) call(c *ast.CallExpr) string {
	if c.Ellipsis != token.NoPos {
		return poUnrecE(c)
	}
	fun := c.Fun
	for {
		p, ok := fun.(*ast.ParenExpr)
		if !ok {
			break
		}
		fun = p.X
	}
	switch f := fun.(type) {
	case *ast.Ident:
		if _, local := t.find(f.Name); local {
			return poUnrecE(c)
		}
		switch f.Name {
		case "len":
			if len(c.Args) == 1 {
				return "ELen " + poParen(t.exp(c.Args[0]))
			}
		case "make":
			if len(c.Args) == 2 {
				return "EMake " + poTy(c.Args[0]) + " " + poParen(t.exp(c.Args[1]))
			}
		case "int", "int32", "rune", "string":
			if len(c.Args) == 1 {
				return "EConv " + poTypes[f.Name] + " " + poParen(t.exp(c.Args[0]))
			}
		}
		return poUnrecE(c)
	case *ast.ArrayType:
		// []rune(x), []byte(x)
		if ty, ok := poTypes[poTypeText(f)]; ok && len(c.Args) == 1 && (ty == "TRunes" || ty == "TBytes") {
			return "EConv " + ty + " " + poParen(t.exp(c.Args[0]))
		}
		return poUnrecE(c)
	case *ast.SelectorExpr:
		if p, isPkg := t.isPkg(f.X); isPkg {
			name := p + "." + f.Sel.Name
			if n, ok := poPrims[name]; ok && (n < 0 || n == len(c.Args)) {
				return "ECall " + coqString(name) + " " + poFlat(t.exps(c.Args))
			}
			return poUnrecE(c)
		}
		m := f.Sel.Name
		fd, ok := t.pkg.funcs[m]
		if !ok || fd.Recv == nil {
			return poUnrecE(c)
		}
		t.noteCall(m)
		if id, ok := f.X.(*ast.Ident); ok {
			if n, ok := t.find(id.Name); ok {
				return fmt.Sprintf("EMethodVar %d %s %s", n, coqString(m), poFlat(t.exps(c.Args)))
			}
		}
		return "EMethodVal " + poParen(t.exp(f.X)) + " " + coqString(m) + " " + poFlat(t.exps(c.Args))
	}
	return poUnrecE(c)
}

// an assignable operand; ok = false: not one of the shapes
func (t *poFn) lhs(e ast.Expr) (string, bool) {
	switch v := e.(type) {
	case *ast.ParenExpr:
		return t.lhs(v.X)
	case *ast.Ident:
		if v.Name == "_" {
			return "LBlank", true
		}
		if n, ok := t.find(v.Name); ok {
			return fmt.Sprintf("LVar %d", n), true
		}
	case *ast.SelectorExpr:
		if _, isPkg := t.isPkg(v.X); isPkg {
			return "", false
		}
		if f, ok := poFields[v.Sel.Name]; ok {
			if b, ok := t.lhs(v.X); ok && b != "LBlank" {
				return "LField " + poParen(b) + " " + f, true
			}
		}
	case *ast.IndexExpr:
		if b, ok := t.lhs(v.X); ok && b != "LBlank" {
			return "LIndex " + poParen(b) + " " + poParen(t.exp(v.Index)), true
		}
	}
	return "", false
}

func poIsNewPtr(e ast.Expr) bool {
	u, ok := e.(*ast.UnaryExpr)
	if !ok || u.Op != token.AND {
		return false
	}
	_, ok = u.X.(*ast.CompositeLit)
	return ok
}

func (t *poFn) block(list []ast.Stmt, ind string) string {
	t.push()
	defer t.pop()
	return t.stmts(list, ind)
}

func (t *poFn) stmts(list []ast.Stmt, ind string) string {
	var items []string
	for _, s := range list {
		items = append(items, t.stmt(s, ind+" ")...)
	}
	return poList(items, ind)
}

func (t *poFn) simple(s ast.Stmt, ind string) string {
	if s == nil {
		return "[]"
	}
	return poList(t.stmt(s, ind+" "), ind)
}

// does a statement of the list assign to (a part of) the expression with text `root`?
func poAssignsTo(list []ast.Stmt, root string) bool {
	hit := false
	check := func(e ast.Expr) {
		txt := strings.Join(strings.Fields(src(e)), "")
		if txt == root || strings.HasPrefix(txt, root+"[") || strings.HasPrefix(txt, root+".") {
			hit = true
		}
	}
	for _, s := range list {
		ast.Inspect(s, func(n ast.Node) bool {
			switch v := n.(type) {
			case *ast.AssignStmt:
				for _, l := range v.Lhs {
					check(l)
				}
			case *ast.IncDecStmt:
				check(v.X)
			}
			return true
		})
	}
	return hit
}

func (t *poFn) stmt(s ast.Stmt, ind string) []string {
	one := func(x string) []string { return []string{x} }
	switch v := s.(type) {
	case *ast.ExprStmt:
		if c, ok := v.X.(*ast.CallExpr); ok {
			return one("SExpr " + poParen(t.call(c)))
		}
	case *ast.IncDecStmt:
		l, ok := t.lhs(v.X)
		if !ok || l == "LBlank" {
			break
		}
		op := "BAdd"
		if v.Tok == token.DEC {
			op = "BSub"
		}
		return one("SAssign [" + l + "] [EBin " + op + " " + poParen(t.exp(v.X)) + " (EInt 1)]")
	case *ast.AssignStmt:
		switch v.Tok {
		case token.ADD_ASSIGN, token.SUB_ASSIGN:
			if len(v.Lhs) != 1 || len(v.Rhs) != 1 {
				break
			}
			l, ok := t.lhs(v.Lhs[0])
			if !ok || l == "LBlank" {
				break
			}
			op := "BAdd"
			if v.Tok == token.SUB_ASSIGN {
				op = "BSub"
			}
			return one("SAssign [" + l + "] [EBin " + op + " " + poParen(t.exp(v.Lhs[0])) + " " + poParen(t.exp(v.Rhs[0])) + "]")
		case token.ASSIGN, token.DEFINE:
			if len(v.Rhs) != len(v.Lhs) && len(v.Rhs) != 1 {
				break
			}
			// the right-hand sides first: they see the variables as they were
			var rs []string
			for _, r := range v.Rhs {
				if v.Tok == token.DEFINE && poIsNewPtr(r) {
					rs = append(rs, t.exp(r))
					continue
				}
				rs = append(rs, t.exp(r))
			}
			var ls []string
			bad := false
			for i, le := range v.Lhs {
				if v.Tok == token.DEFINE {
					id, ok := le.(*ast.Ident)
					if !ok {
						bad = true
						break
					}
					if id.Name == "_" {
						ls = append(ls, "LBlank")
						continue
					}
					n, here := t.scopes[len(t.scopes)-1][id.Name]
					if !here {
						n = t.define(id.Name)
						if len(v.Rhs) == len(v.Lhs) && poIsNewPtr(v.Rhs[i]) {
							t.ptr[n] = true
						}
					} else if t.ptr[n] {
						bad = true
						break
					}
					ls = append(ls, fmt.Sprintf("LVar %d", n))
					continue
				}
				l, ok := t.lhs(le)
				if !ok {
					bad = true
					break
				}
				if id, isId := le.(*ast.Ident); isId {
					if n, ok := t.find(id.Name); ok && t.ptr[n] {
						bad = true // a pointer variable is re-pointed
						break
					}
				}
				ls = append(ls, l)
			}
			if bad {
				break
			}
			return one("SAssign " + poFlat(ls) + " " + poFlat(rs))
		}
	case *ast.DeclStmt:
		gd, ok := v.Decl.(*ast.GenDecl)
		if !ok || gd.Tok != token.VAR || len(gd.Specs) != 1 {
			break
		}
		vs, ok := gd.Specs[0].(*ast.ValueSpec)
		if !ok || len(vs.Names) != 1 || len(vs.Values) > 1 || vs.Names[0].Name == "_" {
			break
		}
		init := ""
		if len(vs.Values) == 1 {
			if poIsNewPtr(vs.Values[0]) {
				break
			}
			init = t.exp(vs.Values[0])
		}
		if vs.Type == nil && init == "" {
			break
		}
		n := t.define(vs.Names[0].Name)
		if vs.Type == nil {
			return one(fmt.Sprintf("SAssign [LVar %d] [%s]", n, init))
		}
		if strings.HasPrefix(poTypeText(vs.Type), "*") {
			t.ptr[n] = true
		}
		if init == "" {
			return one(fmt.Sprintf("SVar %d %s None", n, poTy(vs.Type)))
		}
		return one(fmt.Sprintf("SVar %d %s (Some %s)", n, poTy(vs.Type), poParen(init)))
	case *ast.IfStmt:
		t.push()
		defer t.pop()
		init := t.simple(v.Init, ind+"   ")
		cond := t.exp(v.Cond)
		a := t.block(v.Body.List, ind+"   ")
		b := "[]"
		switch e := v.Else.(type) {
		case nil:
		case *ast.BlockStmt:
			b = t.block(e.List, ind+"   ")
		case *ast.IfStmt:
			b = poList(t.stmt(e, ind+"    "), ind+"   ")
		default:
			b = "[" + poUnrecS(v.Else) + "]"
		}
		return one("SIf " + init + " " + poParen(cond) + "\n" + ind + "   " + a + "\n" + ind + "   " + b)
	case *ast.ForStmt:
		t.push()
		defer t.pop()
		init := t.simple(v.Init, ind+"   ")
		cond := "None"
		if v.Cond != nil {
			cond = "(Some " + poParen(t.exp(v.Cond)) + ")"
		}
		post := t.simple(v.Post, ind+"   ")
		body := t.block(v.Body.List, ind+"   ")
		return one("SFor " + init + " " + cond + " " + post + "\n" + ind + "   " + body)
	case *ast.RangeStmt:
		if v.Tok != token.DEFINE && !(v.Key == nil && v.Value == nil) {
			break
		}
		root := strings.Join(strings.Fields(src(v.X)), "")
		if poAssignsTo(v.Body.List, root) {
			break // the loop changes what it ranges over: the interpreter iterates over a copy
		}
		x := t.exp(v.X)
		t.push()
		defer t.pop()
		name := func(e ast.Expr) (string, bool) {
			if e == nil {
				return "LBlank", true
			}
			id, ok := e.(*ast.Ident)
			if !ok {
				return "", false
			}
			if id.Name == "_" {
				return "LBlank", true
			}
			return fmt.Sprintf("LVar %d", t.define(id.Name)), true
		}
		k, ok1 := name(v.Key)
		val, ok2 := name(v.Value)
		if !ok1 || !ok2 {
			break
		}
		body := t.block(v.Body.List, ind+"   ")
		return one("SRange " + poParen(k) + " " + poParen(val) + " " + poParen(x) + "\n" + ind + "   " + body)
	case *ast.BranchStmt:
		switch v.Tok {
		case token.BREAK:
			if v.Label == nil {
				return one("SBreak")
			}
		case token.GOTO:
			if v.Label != nil {
				if n, ok := t.labels[v.Label.Name]; ok {
					return one(fmt.Sprintf("SGoto %d", n))
				}
			}
		}
	case *ast.LabeledStmt:
		if n, ok := t.labels[v.Label.Name]; ok {
			return append([]string{fmt.Sprintf("SLabel %d", n)}, t.stmt(v.Stmt, ind)...)
		}
	case *ast.ReturnStmt:
		var rs []string
		for _, r := range v.Results {
			// `return p`: the one place a pointer variable may stand alone
			if id, ok := r.(*ast.Ident); ok {
				if n, ok := t.find(id.Name); ok {
					rs = append(rs, fmt.Sprintf("EVar %d", n))
					continue
				}
			}
			rs = append(rs, t.exp(r))
		}
		return one("SReturn " + poFlat(rs))
	}
	return one(poUnrecS(s))
}

type poDef struct {
	name  string
	text  string
	calls []string
}

func (p *poPkg) function(fd *ast.FuncDecl) poDef {
	t := &poFn{pkg: p, ptr: map[int]bool{}, labels: map[string]int{}, called: map[string]bool{}}
	t.push()
	recv := "None"
	bad := ""
	if fd.Recv != nil {
		if len(fd.Recv.List) != 1 || len(fd.Recv.List[0].Names) != 1 {
			bad = pos(fd) + ": receiver"
		} else {
			n := t.define(fd.Recv.List[0].Names[0].Name)
			if _, isPtr := fd.Recv.List[0].Type.(*ast.StarExpr); isPtr {
				recv = "(Some true)"
				t.ptr[n] = true
			} else {
				recv = "(Some false)"
			}
		}
	}
	var params []string
	if fd.Type.Params != nil {
		for _, fl := range fd.Type.Params.List {
			if len(fl.Names) == 0 {
				bad = pos(fd) + ": unnamed parameter"
			}
			for _, nm := range fl.Names {
				n := t.define(nm.Name)
				if _, isPtr := fl.Type.(*ast.StarExpr); isPtr {
					t.ptr[n] = true
				}
				params = append(params, poTy(fl.Type))
			}
		}
	}
	var results []string
	if fd.Type.Results != nil {
		for _, fl := range fd.Type.Results.List {
			if len(fl.Names) != 0 {
				bad = pos(fd) + ": named results"
			}
			results = append(results, poTy(fl.Type))
		}
	}
	fixed := t.nvars
	ast.Inspect(fd.Body, func(n ast.Node) bool {
		if l, ok := n.(*ast.LabeledStmt); ok {
			if _, dup := t.labels[l.Label.Name]; !dup {
				t.labels[l.Label.Name] = len(t.labels)
			}
		}
		return true
	})
	body := ""
	if bad != "" {
		body = "[SUnrecognised " + coqString(bad) + "]"
	} else {
		body = t.stmts(fd.Body.List, "    ")
	}
	text := fmt.Sprintf("Definition fn_%s : fdef :=\n  mkFn %s %s %s %d %s\n    %s.\n",
		fd.Name.Name, coqString(fd.Name.Name), recv, poFlat(params), t.nvars-fixed, poFlat(results), body)
	return poDef{fd.Name.Name, text, t.calls}
}

func genSource() {
	p := &poPkg{funcs: map[string]*ast.FuncDecl{}, pkgs: map[string]string{}}
	var unrec, notRead []string
	wanted := map[string]bool{}
	for _, n := range poSourceFuncs {
		wanted[n] = true
	}
	type structDecl struct {
		name   string
		fields []string
	}
	var structs []structDecl
	for _, rel := range poSourceFiles {
		f := parseFile(rel)
		if f == nil {
			unrec = append(unrec, "cannot parse "+rel)
			continue
		}
		for _, im := range f.Imports {
			ip, err := strconv.Unquote(im.Path.Value)
			if err != nil {
				continue
			}
			local := path.Base(ip)
			if im.Name != nil {
				local = im.Name.Name
			}
			p.pkgs[local] = path.Base(ip)
		}
		for _, d := range f.Decls {
			switch v := d.(type) {
			case *ast.FuncDecl:
				if !wanted[v.Name.Name] {
					notRead = append(notRead, v.Name.Name)
					continue
				}
				if _, dup := p.funcs[v.Name.Name]; dup {
					unrec = append(unrec, pos(v)+": a second function named "+v.Name.Name)
					continue
				}
				if v.Body == nil {
					unrec = append(unrec, pos(v)+": no body")
					continue
				}
				p.funcs[v.Name.Name] = v
			case *ast.GenDecl:
				if v.Tok != token.TYPE {
					if v.Tok != token.IMPORT {
						unrec = append(unrec, pos(v)+": declaration")
					}
					continue
				}
				for _, sp := range v.Specs {
					ts := sp.(*ast.TypeSpec)
					st, ok := ts.Type.(*ast.StructType)
					if !ok {
						unrec = append(unrec, pos(ts)+": type "+ts.Name.Name)
						continue
					}
					sd := structDecl{name: ts.Name.Name}
					for _, fl := range st.Fields.List {
						ty := poTypeText(fl.Type)
						if len(fl.Names) == 0 {
							sd.fields = append(sd.fields, "("+coqString(ty)+", \"embedded\")")
						}
						for _, nm := range fl.Names {
							sd.fields = append(sd.fields, "("+coqString(nm.Name)+", "+coqString(ty)+")")
						}
					}
					structs = append(structs, sd)
				}
			}
		}
	}
	var defs []poDef
	byName := map[string]poDef{}
	for _, n := range poSourceFuncs {
		fd, ok := p.funcs[n]
		if !ok {
			unrec = append(unrec, "missing function "+n)
			continue
		}
		d := p.function(fd)
		defs = append(defs, d)
		byName[n] = d
	}
	// callers first: reverse post-order of the call graph, roots in the order of poSourceFuncs
	var order []string
	state := map[string]int{}
	var visit func(n string)
	visit = func(n string) {
		switch state[n] {
		case 1:
			unrec = append(unrec, "recursive function "+n)
			return
		case 2:
			return
		}
		state[n] = 1
		d := byName[n]
		for i := len(d.calls) - 1; i >= 0; i-- {
			if _, ok := byName[d.calls[i]]; ok {
				visit(d.calls[i])
			}
		}
		state[n] = 2
		order = append(order, n)
	}
	for i := len(defs) - 1; i >= 0; i-- {
		visit(defs[i].name)
	}
	for i, j := 0, len(order)-1; i < j; i, j = i+1, j-1 {
		order[i], order[j] = order[j], order[i]
	}
	sort.Strings(notRead)
	sort.Slice(structs, func(i, j int) bool { return structs[i].name < structs[j].name })

	var b strings.Builder
	b.WriteString("(* GENERATED by /verif/translator from file/{source,error,location}.go — do not edit *)\n")
	b.WriteString("From Coq Require Import ZArith List String.\nRequire Import X.Base.Value X.File.Source X.File.SourceRules.\nImport ListNotations.\nOpen Scope string_scope.\nOpen Scope Z_scope.\n\n")
	b.WriteString("(* one DSL term (coq/File/SourceRules.v) per function: the statements in source order *)\n")
	for _, d := range defs {
		b.WriteString(d.text)
		b.WriteString("\n")
	}
	b.WriteString("(* callers first *)\nDefinition source_funs : list fdef :=\n  [")
	for i, n := range order {
		if i > 0 {
			b.WriteString("; ")
		}
		b.WriteString("fn_" + n)
	}
	b.WriteString("].\n\n")
	b.WriteString("(* the struct declarations of the three files *)\nDefinition source_structs : list struct_decl :=\n  [")
	for i, s := range structs {
		if i > 0 {
			b.WriteString(";\n   ")
		}
		b.WriteString("(" + coqString(s.name) + ", " + poFlat(s.fields) + ")")
	}
	b.WriteString("].\n\n")
	b.WriteString("(* functions of the three files that are not read *)\nDefinition gensource_not_read : list string :=\n  [")
	for i, n := range notRead {
		if i > 0 {
			b.WriteString("; ")
		}
		b.WriteString(coqString(n))
	}
	b.WriteString("].\n\n")
	b.WriteString("Definition gensource_unrecognised : list string :=\n  [")
	for i, u := range unrec {
		if i > 0 {
			b.WriteString(";\n   ")
		}
		b.WriteString(coqString(u))
	}
	b.WriteString("].\n")
	writeIfChanged("GenSource.v", b.String())
}

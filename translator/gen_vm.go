package main

func genVM() {}

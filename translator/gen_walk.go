package main

import (
	"fmt"
	"go/ast"
	"go/token"
	"strings"
)

// genWalk reads
//
//	ast/node.go     every node struct (a struct embedding `base`): its Node- and []Node-typed
//	                fields in declaration order; the three statements of Patch
//	ast/visitor.go  walker.walk: `w.visitor.Enter(node)` first, then one type switch on
//	                (*node).(type); per `case *XNode:` the sequence of
//	                    w.walk(&n.F)                                   -> (F, Single)
//	                    if n.F != nil { w.walk(&n.F) }                 -> (F, Optional)
//	                    for i := range n.Fs { w.walk(&n.Fs[i]) }       -> (Fs, Many)
//	                closed by exactly one `w.visitor.Exit(node)` as the last statement
//
// and writes coq/gen/GenWalk.v: per node kind of Syn/Ast.v (fixed order of `all_nkinds`) the
// declared slots and the walked slots.  Any other shape is reported in walk_unrecognised, which
// makes the bridge lemma of C10 fail.
var walkKinds = []string{"Nil", "Identifier", "Integer", "Float", "Bool", "String", "Constant", "Unary", "Binary",
	"Matches", "Property", "Index", "Slice", "Method", "Function", "Builtin", "Closure", "Pointer",
	"Conditional", "Array", "Map", "Pair"}

var walkFields = map[string]string{"Node": "FNode", "Left": "FLeft", "Right": "FRight", "Index": "FIndex", "From": "FFrom",
	"To": "FTo", "Arguments": "FArguments", "Cond": "FCond", "Exp1": "FExp1", "Exp2": "FExp2", "Nodes": "FNodes",
	"Pairs": "FPairs", "Key": "FKey", "Value": "FValue"}

type walkSlot struct {
	field string
	mode  string // Single | Optional | Many
}

func (s walkSlot) coq() string {
	f, ok := walkFields[s.field]
	if !ok {
		f = "(FOther " + coqString(s.field) + ")"
	}
	return "(" + f + ", " + s.mode + ")"
}

func genWalk() {
	var unrec []string
	bad := func(n ast.Node, format string, a ...interface{}) {
		unrec = append(unrec, pos(n)+": "+fmt.Sprintf(format, a...))
	}
	known := map[string]bool{}
	for _, k := range walkKinds {
		known[k+"Node"] = true
	}

	// ---------------------------------------------------------------- ast/node.go
	declared := map[string][]walkSlot{}
	declSeen := map[string]bool{}
	patchType, patchLoc, patchAssign := false, false, false
	nf := parseFile("ast/node.go")
	if nf == nil {
		unrec = append(unrec, "ast/node.go: cannot parse")
	} else {
		for _, d := range nf.Decls {
			gd, ok := d.(*ast.GenDecl)
			if !ok || gd.Tok != token.TYPE {
				continue
			}
			for _, sp := range gd.Specs {
				ts := sp.(*ast.TypeSpec)
				st, ok := ts.Type.(*ast.StructType)
				if !ok {
					continue
				}
				embedsBase := false
				for _, f := range st.Fields.List {
					if len(f.Names) == 0 && src(f.Type) == "base" {
						embedsBase = true
					}
				}
				if !embedsBase {
					continue
				}
				name := ts.Name.Name
				if !known[name] {
					bad(ts, "node kind %s is unknown to the model", name)
					continue
				}
				declSeen[name] = true
				for _, f := range st.Fields.List {
					t := src(f.Type)
					mode := ""
					switch {
					case t == "Node":
						mode = "Single"
					case t == "[]Node":
						mode = "Many"
					case strings.Contains(t, "Node"):
						bad(f, "field of %s has a type the model does not know: %s", name, t)
						continue
					default:
						continue
					}
					if len(f.Names) == 0 {
						bad(f, "embedded %s in %s", t, name)
						continue
					}
					for _, id := range f.Names {
						declared[name] = append(declared[name], walkSlot{id.Name, mode})
					}
				}
			}
		}
		for _, k := range walkKinds {
			if !declSeen[k+"Node"] {
				unrec = append(unrec, "ast/node.go: no struct "+k+"Node")
			}
		}
		// func Patch(node *Node, newNode Node) { newNode.SetType((*node).Type()); newNode.SetLocation((*node).Location()); *node = newNode }
		if pd := funcDecl(nf, "Patch", ""); pd == nil || pd.Body == nil {
			unrec = append(unrec, "ast/node.go: no func Patch")
		} else {
			var ps []string
			for _, f := range pd.Type.Params.List {
				for _, id := range f.Names {
					ps = append(ps, id.Name+" "+src(f.Type))
				}
			}
			params := strings.Join(ps, ", ")
			if params != "node *Node, newNode Node" {
				bad(pd, "parameters of Patch: %s", params)
			}
			for _, s := range pd.Body.List {
				switch strings.Join(strings.Fields(src(s)), "") {
				case "newNode.SetType((*node).Type())":
					if patchAssign {
						bad(s, "Patch copies the type after the assignment")
					}
					patchType = true
				case "newNode.SetLocation((*node).Location())":
					if patchAssign {
						bad(s, "Patch copies the location after the assignment")
					}
					patchLoc = true
				case "*node=newNode":
					patchAssign = true
				default:
					bad(s, "statement of Patch: %s", src(s))
				}
			}
		}
	}

	// ---------------------------------------------------------------- ast/visitor.go
	walked := map[string][]walkSlot{}
	caseSeen := map[string]bool{}
	vf := parseFile("ast/visitor.go")
	norm := func(n ast.Node) string { return strings.Join(strings.Fields(src(n)), "") }
	// `w.walk(&n.F)` -> F ;  `w.walk(&n.F[i])` -> F, i
	walkCall := func(s ast.Stmt) (field, index string, ok bool) {
		es, isExpr := s.(*ast.ExprStmt)
		if !isExpr {
			return
		}
		call, isCall := es.X.(*ast.CallExpr)
		if !isCall || norm(call.Fun) != "w.walk" || len(call.Args) != 1 {
			return
		}
		u, isU := call.Args[0].(*ast.UnaryExpr)
		if !isU || u.Op != token.AND {
			return
		}
		x := u.X
		if ix, isIx := x.(*ast.IndexExpr); isIx {
			id, isId := ix.Index.(*ast.Ident)
			if !isId {
				return
			}
			index = id.Name
			x = ix.X
		}
		sel, isSel := x.(*ast.SelectorExpr)
		if !isSel {
			return
		}
		if id, isId := sel.X.(*ast.Ident); !isId || id.Name != "n" {
			return
		}
		return sel.Sel.Name, index, true
	}
	if vf == nil {
		unrec = append(unrec, "ast/visitor.go: cannot parse")
	} else {
		// func Walk(node *Node, visitor Visitor) { w := walker{visitor: visitor}; w.walk(node) }
		if wd := funcDecl(vf, "Walk", ""); wd == nil || wd.Body == nil {
			unrec = append(unrec, "ast/visitor.go: no func Walk")
		} else {
			b := wd.Body.List
			if len(b) != 2 || norm(b[0]) != "w:=walker{visitor:visitor,}" && norm(b[0]) != "w:=walker{visitor:visitor}" || norm(b[1]) != "w.walk(node)" {
				bad(wd, "body of Walk is not `w := walker{visitor: visitor}; w.walk(node)`")
			}
		}
		fd := funcDecl(vf, "walk", "walker")
		if fd == nil || fd.Body == nil {
			unrec = append(unrec, "ast/visitor.go: no method walker.walk")
		} else {
			body := fd.Body.List
			if len(body) != 2 {
				bad(fd, "walker.walk has %d statements, expected Enter call and type switch", len(body))
			}
			if len(body) < 1 || norm(body[0]) != "w.visitor.Enter(node)" {
				bad(fd, "walker.walk does not start with w.visitor.Enter(node)")
			}
			var sw *ast.TypeSwitchStmt
			for _, s := range body {
				if t, ok := s.(*ast.TypeSwitchStmt); ok && sw == nil {
					sw = t
				}
			}
			if sw == nil {
				bad(fd, "walker.walk has no type switch")
			} else {
				if sw.Init != nil || norm(sw.Assign) != "n:=(*node).(type)" {
					bad(sw, "type switch is not `switch n := (*node).(type)`")
				}
				for _, cs := range sw.Body.List {
					cc := cs.(*ast.CaseClause)
					if cc.List == nil {
						if len(cc.Body) != 1 || !strings.HasPrefix(norm(cc.Body[0]), "panic(") {
							bad(cc, "default case is not a panic")
						}
						continue
					}
					var slots []walkSlot
					exits := 0
					for i, s := range cc.Body {
						if norm(s) == "w.visitor.Exit(node)" {
							exits++
							if i != len(cc.Body)-1 {
								bad(s, "Exit is not the last statement of the case")
							}
							continue
						}
						if f, ix, ok := walkCall(s); ok && ix == "" {
							slots = append(slots, walkSlot{f, "Single"})
							continue
						}
						if is, ok := s.(*ast.IfStmt); ok && is.Init == nil && is.Else == nil && len(is.Body.List) == 1 {
							if f, ix, ok := walkCall(is.Body.List[0]); ok && ix == "" && norm(is.Cond) == "n."+f+"!=nil" {
								slots = append(slots, walkSlot{f, "Optional"})
								continue
							}
						}
						if rs, ok := s.(*ast.RangeStmt); ok && rs.Value == nil && rs.Tok == token.DEFINE && len(rs.Body.List) == 1 {
							if key, isId := rs.Key.(*ast.Ident); isId {
								if f, ix, ok := walkCall(rs.Body.List[0]); ok && ix == key.Name && norm(rs.X) == "n."+f {
									slots = append(slots, walkSlot{f, "Many"})
									continue
								}
							}
						}
						bad(s, "statement of a walk case: %s", strings.Join(strings.Fields(src(s)), " "))
					}
					if exits != 1 {
						bad(cc, "case calls Exit %d times", exits)
					}
					for _, te := range cc.List {
						name := ""
						if st, ok := te.(*ast.StarExpr); ok {
							if ident, isId := st.X.(*ast.Ident); isId {
								name = ident.Name
							}
						}
						if name == "" || !known[name] {
							bad(te, "case type %s is unknown to the model", src(te))
							continue
						}
						if caseSeen[name] {
							bad(te, "second case for %s", name)
							continue
						}
						caseSeen[name] = true
						walked[name] = slots
					}
				}
				for _, k := range walkKinds {
					if !caseSeen[k+"Node"] {
						bad(sw, "no case for *%sNode (the walker panics on it)", k)
					}
				}
			}
		}
	}

	// ---------------------------------------------------------------- output
	var b strings.Builder
	b.WriteString("(* GENERATED by /verif/translator from ast/node.go and ast/visitor.go — do not edit *)\n")
	b.WriteString("From Coq Require Import List String.\nRequire Import X.Syn.Ast X.Walk.Walk.\nImport ListNotations.\nOpen Scope string_scope.\n\n")
	table := func(name, comment string, m map[string][]walkSlot) {
		fmt.Fprintf(&b, "(* %s *)\nDefinition %s (k : nkind) : list slot :=\n  match k with\n", comment, name)
		for _, k := range walkKinds {
			items := make([]string, 0)
			for _, s := range m[k+"Node"] {
				items = append(items, s.coq())
			}
			fmt.Fprintf(&b, "  | Nk%s => [%s]\n", k, strings.Join(items, "; "))
		}
		b.WriteString("  end.\n\n")
	}
	table("gen_declared", "ast/node.go: the Node (Single) and []Node (Many) typed fields of every node struct, in declaration order", declared)
	table("gen_walked", "ast/visitor.go walker.walk: the fields walked by the case of every node kind, in order; Optional = under `if n.F != nil`", walked)
	bl := func(v bool) string {
		if v {
			return "true"
		}
		return "false"
	}
	b.WriteString("(* ast/node.go Patch: the new node receives the old node's Type() and Location() before it is stored through the pointer *)\n")
	fmt.Fprintf(&b, "Definition gen_patch_copies_type : bool := %s.\nDefinition gen_patch_copies_location : bool := %s.\nDefinition gen_patch_assigns : bool := %s.\n\n",
		bl(patchType), bl(patchLoc), bl(patchAssign))
	// ast/node.go `base` (embedded in every node): the stored annotations and their four accessors, statement by statement.
	// Local names are canonicalised (receiver -> r, parameter -> x), so a renamed parameter leaves the table unchanged.
	{
		var fields, methods []string
		if nf != nil {
			for _, d := range nf.Decls {
				if gd, ok := d.(*ast.GenDecl); ok && gd.Tok == token.TYPE {
					for _, sp := range gd.Specs {
						ts := sp.(*ast.TypeSpec)
						st, isStruct := ts.Type.(*ast.StructType)
						if ts.Name.Name != "base" || !isStruct {
							continue
						}
						for _, f := range st.Fields.List {
							if len(f.Names) == 0 {
								fields = append(fields, "("+coqString("(embedded)")+", "+coqString(src(f.Type))+")")
							}
							for _, n := range f.Names {
								fields = append(fields, "("+coqString(n.Name)+", "+coqString(src(f.Type))+")")
							}
						}
					}
				}
				fd, ok := d.(*ast.FuncDecl)
				if !ok || fd.Recv == nil || len(fd.Recv.List) != 1 || strings.TrimPrefix(src(fd.Recv.List[0].Type), "*") != "base" || fd.Body == nil {
					continue
				}
				ren := map[string]string{}
				if len(fd.Recv.List[0].Names) == 1 {
					ren[fd.Recv.List[0].Names[0].Name] = "r"
				}
				if fd.Type.Params != nil {
					for _, prm := range fd.Type.Params.List {
						for _, n := range prm.Names {
							ren[n.Name] = "x"
						}
					}
				}
				var stmts []string
				for _, st := range fd.Body.List {
					ast.Inspect(st, func(n ast.Node) bool {
						if se, ok := n.(*ast.SelectorExpr); ok {
							if id, ok := se.X.(*ast.Ident); ok {
								if to, ok := ren[id.Name]; ok {
									id.Name = to
								}
							}
							return false
						}
						if id, ok := n.(*ast.Ident); ok {
							if to, ok := ren[id.Name]; ok {
								id.Name = to
							}
						}
						return true
					})
					stmts = append(stmts, strings.Join(strings.Fields(src(st)), " "))
				}
				methods = append(methods, "("+coqString(fd.Name.Name)+", "+coqString(strings.Join(stmts, "; "))+")")
			}
		}
		sortStrings(methods)
		b.WriteString("(* ast/node.go `base`: fields (name, type) in declaration order; methods (name, body with canonical local names), sorted *)\n")
		fmt.Fprintf(&b, "Definition gen_base_fields : list (string * string) := [%s].\nDefinition gen_base_methods : list (string * string) := [%s].\n\n", strings.Join(fields, "; "), strings.Join(methods, "; "))
	}
	b.WriteString("Definition walk_unrecognised : list string := [")
	for i, u := range unrec {
		if i > 0 {
			b.WriteString("; ")
		}
		b.WriteString(coqString(strings.ReplaceAll(strings.ReplaceAll(u, "(*", "( *"), "*)", "* )")))
	}
	b.WriteString("].\n")
	writeIfChanged("GenWalk.v", b.String())
}

func init() { generators = append(generators, genWalk) }

package main

func genWalk() {}

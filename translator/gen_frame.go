package main

// genFrame -> coq/gen/GenFrame.v (properties C08, C09): purely syntactic (go/ast) inventory of
//   (a) every write (assignment, ++/--, append, map/element/field store, channel operation,
//       delete, copy, go statement) in the functions of package vm reachable from Run/(*VM).Run,
//       classified by the ROOT of the written location,
//   (b) the same for every function of the packages on the compile path,
//   (c) every `for ... range` over a Go map (or over reflect's MapKeys()) on the compile path,
//   plus the external functions / methods called (an in-place library routine such as
//   sort.Ints, a clock, a random source or a lock shows up as a changed table) and the uses of
//   reflect's mutators.
// Types are inferred syntactically (declared types, := from make/literals/calls/assertions/
// range/type switches); what cannot be inferred is emitted as RUnknown / Unrecognised.

import (
	"fmt"
	"go/ast"
	"go/parser"
	"go/token"
	"os"
	"path/filepath"
	"sort"
	"strings"
)

func init() { generators = append(generators, genFrame) }

const frModule = "github.com/antonmedv/expr"

// ---------------------------------------------------------------- packages
type frTypeDecl struct {
	expr ast.Expr
	file *ast.File
}

type frPkg struct {
	dir      string
	name     string
	files    []*ast.File
	types    map[string]*frTypeDecl
	funcs    map[string]*ast.FuncDecl // "F" or "T.M"
	funcFile map[*ast.FuncDecl]*ast.File
	vars     map[string]frT
}

// a type expression in the context (package, file) in which it is written
type frT struct {
	pkg     *frPkg
	file    *ast.File
	e       ast.Expr
	special string // "mapkeys": result of reflect's MapKeys()
}

func (t frT) known() bool { return t.e != nil || t.special != "" }

var frPkgs map[string]*frPkg
var frUnrec []string

func frLoad(dir string) *frPkg {
	if p, ok := frPkgs[dir]; ok {
		return p
	}
	p := &frPkg{dir: dir, types: map[string]*frTypeDecl{}, funcs: map[string]*ast.FuncDecl{}, funcFile: map[*ast.FuncDecl]*ast.File{}, vars: map[string]frT{}}
	frPkgs[dir] = p
	ents, err := os.ReadDir(filepath.Join(*repo, dir))
	if err != nil {
		frUnrec = append(frUnrec, "missing package "+dir)
		return p
	}
	var names []string
	for _, e := range ents {
		n := e.Name()
		if e.IsDir() || !strings.HasSuffix(n, ".go") || strings.HasSuffix(n, "_test.go") {
			continue
		}
		names = append(names, n)
	}
	sort.Strings(names)
	for _, n := range names {
		f, err := parser.ParseFile(fset, filepath.Join(*repo, dir, n), nil, 0)
		if err != nil {
			frUnrec = append(frUnrec, "cannot parse "+filepath.Join(dir, n))
			continue
		}
		p.files = append(p.files, f)
		p.name = f.Name.Name
	}
	for _, f := range p.files {
		for _, d := range f.Decls {
			switch d := d.(type) {
			case *ast.FuncDecl:
				key := d.Name.Name
				if d.Recv != nil && len(d.Recv.List) == 1 {
					key = frBaseName(d.Recv.List[0].Type) + "." + key
				}
				p.funcs[key] = d
				p.funcFile[d] = f
			case *ast.GenDecl:
				for _, sp := range d.Specs {
					switch sp := sp.(type) {
					case *ast.TypeSpec:
						p.types[sp.Name.Name] = &frTypeDecl{sp.Type, f}
					case *ast.ValueSpec:
						if d.Tok != token.VAR {
							continue
						}
						for i, n := range sp.Names {
							t := frT{}
							if sp.Type != nil {
								t = frT{pkg: p, file: f, e: sp.Type}
							} else if i < len(sp.Values) {
								t = frLitType(p, f, sp.Values[i])
							}
							if !t.known() {
								t = frT{pkg: p, file: f, e: ast.NewIdent("?")}
							}
							p.vars[n.Name] = t
						}
					}
				}
			}
		}
	}
	return p
}

// type of a package-level initialiser that carries its type syntactically
func frLitType(p *frPkg, f *ast.File, e ast.Expr) frT {
	switch v := e.(type) {
	case *ast.CompositeLit:
		if v.Type != nil {
			return frT{pkg: p, file: f, e: v.Type}
		}
	case *ast.CallExpr:
		if id, ok := v.Fun.(*ast.Ident); ok && (id.Name == "make" || id.Name == "new") && len(v.Args) > 0 {
			if id.Name == "new" {
				return frT{pkg: p, file: f, e: &ast.StarExpr{X: v.Args[0]}}
			}
			return frT{pkg: p, file: f, e: v.Args[0]}
		}
	case *ast.UnaryExpr:
		if v.Op == token.AND {
			t := frLitType(p, f, v.X)
			if t.known() {
				return frT{pkg: p, file: f, e: &ast.StarExpr{X: t.e}}
			}
		}
	case *ast.BasicLit:
		switch v.Kind {
		case token.INT:
			return frT{pkg: p, file: f, e: ast.NewIdent("int")}
		case token.FLOAT:
			return frT{pkg: p, file: f, e: ast.NewIdent("float64")}
		case token.STRING:
			return frT{pkg: p, file: f, e: ast.NewIdent("string")}
		}
	}
	return frT{}
}

func frBaseName(e ast.Expr) string {
	switch v := e.(type) {
	case *ast.StarExpr:
		return frBaseName(v.X)
	case *ast.ParenExpr:
		return frBaseName(v.X)
	case *ast.Ident:
		return v.Name
	case *ast.SelectorExpr:
		return v.Sel.Name
	case *ast.IndexExpr:
		return frBaseName(v.X)
	}
	return "?"
}

// import name -> repo-relative dir ("" = not a package of this module); dot imports separately
func frImports(f *ast.File) (map[string]string, map[string]string, []string) {
	repoPk, ext, dots := map[string]string{}, map[string]string{}, []string{}
	for _, im := range f.Imports {
		path := strings.Trim(im.Path.Value, "\"")
		name := path[strings.LastIndex(path, "/")+1:]
		if im.Name != nil {
			name = im.Name.Name
		}
		if path == frModule || strings.HasPrefix(path, frModule+"/") {
			dir := strings.TrimPrefix(strings.TrimPrefix(path, frModule), "/")
			if name == "." {
				dots = append(dots, dir)
			} else {
				repoPk[name] = dir
			}
		} else {
			ext[name] = path
		}
	}
	return repoPk, ext, dots
}

var frBasic = map[string]bool{"int": true, "int8": true, "int16": true, "int32": true, "int64": true, "uint": true, "uint8": true,
	"uint16": true, "uint32": true, "uint64": true, "uintptr": true, "float32": true, "float64": true, "string": true, "bool": true,
	"byte": true, "rune": true, "error": true, "complex128": true, "complex64": true}

// the package and name of a named type (pointer layers stripped)
func frNamed(t frT) (*frPkg, string, bool) {
	e := t.e
	for {
		switch v := e.(type) {
		case *ast.StarExpr:
			e = v.X
			continue
		case *ast.ParenExpr:
			e = v.X
			continue
		}
		break
	}
	switch v := e.(type) {
	case *ast.Ident:
		if t.pkg == nil {
			return nil, "", false
		}
		if _, ok := t.pkg.types[v.Name]; ok {
			return t.pkg, v.Name, true
		}
		if t.file != nil {
			_, _, dots := frImports(t.file)
			for _, d := range dots {
				p := frLoad(d)
				if _, ok := p.types[v.Name]; ok {
					return p, v.Name, true
				}
			}
		}
	case *ast.SelectorExpr:
		if id, ok := v.X.(*ast.Ident); ok && t.file != nil {
			rp, _, _ := frImports(t.file)
			if dir, ok := rp[id.Name]; ok {
				p := frLoad(dir)
				if _, ok := p.types[v.Sel.Name]; ok {
					return p, v.Sel.Name, true
				}
			}
		}
	}
	return nil, "", false
}

// strips names (not pointers) until a type literal or an unknown name is reached
func frUnder(t frT) frT {
	for i := 0; i < 20 && t.e != nil; i++ {
		if pe, ok := t.e.(*ast.ParenExpr); ok {
			t.e = pe.X
			continue
		}
		switch t.e.(type) {
		case *ast.Ident, *ast.SelectorExpr:
			p, n, ok := frNamed(t)
			if !ok {
				return t
			}
			d := p.types[n]
			t = frT{pkg: p, file: d.file, e: d.expr}
			continue
		}
		return t
	}
	return t
}

func frDeref(t frT) frT {
	u := frUnder(t)
	if s, ok := u.e.(*ast.StarExpr); ok {
		return frT{pkg: u.pkg, file: u.file, e: s.X}
	}
	return t
}

func frField(t frT, name string, depth int) frT {
	u := frUnder(frDeref(t))
	st, ok := u.e.(*ast.StructType)
	if !ok || depth > 6 {
		return frT{}
	}
	for _, fl := range st.Fields.List {
		for _, n := range fl.Names {
			if n.Name == name {
				return frT{pkg: u.pkg, file: u.file, e: fl.Type}
			}
		}
		if len(fl.Names) == 0 && frBaseName(fl.Type) == name {
			return frT{pkg: u.pkg, file: u.file, e: fl.Type}
		}
	}
	for _, fl := range st.Fields.List {
		if len(fl.Names) == 0 {
			if r := frField(frT{pkg: u.pkg, file: u.file, e: fl.Type}, name, depth+1); r.known() {
				return r
			}
		}
	}
	return frT{}
}

func frFuncResult(p *frPkg, fd *ast.FuncDecl, i int) frT {
	if fd == nil || fd.Type.Results == nil {
		return frT{}
	}
	k := 0
	for _, fl := range fd.Type.Results.List {
		n := len(fl.Names)
		if n == 0 {
			n = 1
		}
		if i < k+n {
			return frT{pkg: p, file: p.funcFile[fd], e: fl.Type}
		}
		k += n
	}
	return frT{}
}

func frMethodResult(t frT, name string, depth int) frT {
	if depth > 6 || !t.known() {
		return frT{}
	}
	if p, n, ok := frNamed(t); ok {
		if fd, ok := p.funcs[n+"."+name]; ok {
			return frFuncResult(p, fd, 0)
		}
	}
	u := frUnder(frDeref(t))
	switch v := u.e.(type) {
	case *ast.InterfaceType:
		for _, m := range v.Methods.List {
			for _, n := range m.Names {
				if n.Name == name {
					if ft, ok := m.Type.(*ast.FuncType); ok && ft.Results != nil && len(ft.Results.List) > 0 {
						return frT{pkg: u.pkg, file: u.file, e: ft.Results.List[0].Type}
					}
				}
			}
		}
	case *ast.StructType:
		for _, fl := range v.Fields.List {
			if len(fl.Names) == 0 {
				if r := frMethodResult(frT{pkg: u.pkg, file: u.file, e: fl.Type}, name, depth+1); r.known() {
					return r
				}
			}
		}
	}
	return frT{}
}

// frHasMethod: is `name` a method declared in this module for t (directly, through an embedded
// struct, or as a method of one of the module's interfaces)?  key = "T.M" of the declaration.
func frHasMethod(t frT, name string, depth int) (*frPkg, string, bool) {
	if depth > 6 || t.e == nil {
		return nil, "", false
	}
	if p, n, ok := frNamed(t); ok {
		if _, ok := p.funcs[n+"."+name]; ok {
			return p, n + "." + name, true
		}
	}
	u := frUnder(frDeref(t))
	switch v := u.e.(type) {
	case *ast.InterfaceType:
		if v.Methods != nil {
			for _, m := range v.Methods.List {
				for _, mn := range m.Names {
					if mn.Name == name {
						return u.pkg, "", true
					}
				}
			}
		}
	case *ast.StructType:
		for _, fl := range v.Fields.List {
			if len(fl.Names) == 0 {
				if p, k, ok := frHasMethod(frT{pkg: u.pkg, file: u.file, e: fl.Type}, name, depth+1); ok {
					return p, k, true
				}
			}
		}
	}
	return nil, "", false
}

// element type of a container; ok=false when t is not (known to be) a container
func frElem(t frT) (key, elem frT, kind string) {
	u := frUnder(frDeref(t))
	switch v := u.e.(type) {
	case *ast.MapType:
		return frT{pkg: u.pkg, file: u.file, e: v.Key}, frT{pkg: u.pkg, file: u.file, e: v.Value}, "map"
	case *ast.ArrayType:
		return frT{pkg: u.pkg, file: u.file, e: ast.NewIdent("int")}, frT{pkg: u.pkg, file: u.file, e: v.Elt}, "seq"
	case *ast.Ellipsis:
		return frT{pkg: u.pkg, file: u.file, e: ast.NewIdent("int")}, frT{pkg: u.pkg, file: u.file, e: v.Elt}, "seq"
	case *ast.ChanType:
		return frT{}, frT{pkg: u.pkg, file: u.file, e: v.Value}, "seq"
	case *ast.Ident:
		if v.Name == "string" {
			return frT{pkg: u.pkg, file: u.file, e: ast.NewIdent("int")}, frT{pkg: u.pkg, file: u.file, e: ast.NewIdent("rune")}, "seq"
		}
		if v.Name == "int" {
			return frT{}, frT{}, "seq"
		}
	}
	return frT{}, frT{}, ""
}

// results of standard-library functions that the compile path ranges over
var frStdResult = map[string]string{
	"strings.Split": "[]string", "strings.Fields": "[]string", "strings.SplitN": "[]string", "bytes.Split": "[][]byte",
	"strings.Repeat": "string", "strings.Join": "string", "fmt.Sprintf": "string", "fmt.Sprint": "string",
	"strings.TrimSpace": "string", "strings.ToLower": "string", "strings.Trim": "string",
}

// ---------------------------------------------------------------- provenance
type frProv int

const (
	pFresh frProv = iota // created in this function / a plain value
	pRecv                // the receiver
	pArg                 // reached from a pointer / slice / map / struct parameter
	pProg                // reached from the program (or vm.bytecode / vm.constants)
	pEnv                 // reached from the environment or from a value taken off the VM stack
	pPkg                 // a package-level variable
)

func frJoin(a, b frProv) frProv {
	if a > b {
		return a
	}
	return b
}

type frVar struct {
	t    frT
	prov frProv
}

type frScope struct {
	vars   map[string]*frVar
	parent *frScope
}

func (s *frScope) lookup(n string) *frVar {
	for ; s != nil; s = s.parent {
		if v, ok := s.vars[n]; ok {
			return v
		}
	}
	return nil
}

func frNewScope(p *frScope) *frScope { return &frScope{vars: map[string]*frVar{}, parent: p} }

type frWrite struct{ fn, kind, target, class string }
type frRange struct{ fn, expr, class string }

type frCtx struct {
	pkg      *frPkg
	file     *ast.File
	fn       string
	recv     string
	vmMode   bool
	writes   *[]frWrite
	ranges   *[]frRange
	seqs     *int
	extcalls map[string]bool
	methods  map[string]bool
	reflMut  *[]string
	calls    map[string]bool // internal callees (for reachability): "F" or "T.M"
	repoPk   map[string]string
	extPk    map[string]string
	dots     []string
}

var frReflectMutators = map[string]bool{"Set": true, "SetBool": true, "SetBytes": true, "SetCap": true, "SetComplex": true,
	"SetFloat": true, "SetInt": true, "SetLen": true, "SetMapIndex": true, "SetPointer": true, "SetString": true, "SetUint": true,
	"SetZero": true, "SetIterKey": true, "SetIterValue": true, "Send": true, "TrySend": true, "Grow": true, "Clear": true,
	"Swapper": true}
var frReflectMutFuncs = map[string]bool{"reflect.Append": true, "reflect.AppendSlice": true, "reflect.Copy": true, "reflect.Swapper": true}

func (c *frCtx) typeOf(e ast.Expr, sc *frScope) frT {
	mk := func(x ast.Expr) frT { return frT{pkg: c.pkg, file: c.file, e: x} }
	switch v := e.(type) {
	case *ast.ParenExpr:
		return c.typeOf(v.X, sc)
	case *ast.Ident:
		if lv := sc.lookup(v.Name); lv != nil {
			return lv.t
		}
		if t, ok := c.pkg.vars[v.Name]; ok {
			return t
		}
		for _, d := range c.dots {
			if t, ok := frLoad(d).vars[v.Name]; ok {
				return t
			}
		}
	case *ast.BasicLit:
		return frLitType(c.pkg, c.file, v)
	case *ast.CompositeLit:
		if v.Type != nil {
			return mk(v.Type)
		}
	case *ast.FuncLit:
		return mk(v.Type)
	case *ast.StarExpr:
		t := c.typeOf(v.X, sc)
		u := frUnder(t)
		if s, ok := u.e.(*ast.StarExpr); ok {
			return frT{pkg: u.pkg, file: u.file, e: s.X}
		}
	case *ast.UnaryExpr:
		t := c.typeOf(v.X, sc)
		if v.Op == token.AND && t.known() && t.e != nil {
			return frT{pkg: t.pkg, file: t.file, e: &ast.StarExpr{X: t.e}}
		}
		if v.Op == token.ARROW {
			_, el, _ := frElem(t)
			return el
		}
		return t
	case *ast.TypeAssertExpr:
		if v.Type != nil {
			return mk(v.Type)
		}
	case *ast.SliceExpr:
		return c.typeOf(v.X, sc)
	case *ast.IndexExpr:
		_, el, _ := frElem(c.typeOf(v.X, sc))
		return el
	case *ast.SelectorExpr:
		if id, ok := v.X.(*ast.Ident); ok && sc.lookup(id.Name) == nil {
			if dir, ok := c.repoPk[id.Name]; ok {
				p := frLoad(dir)
				if t, ok := p.vars[v.Sel.Name]; ok {
					return t
				}
				return frT{}
			}
			if _, ok := c.extPk[id.Name]; ok {
				return frT{}
			}
		}
		return frField(c.typeOf(v.X, sc), v.Sel.Name, 0)
	case *ast.CallExpr:
		switch f := v.Fun.(type) {
		case *ast.Ident:
			if sc.lookup(f.Name) == nil {
				switch f.Name {
				case "make":
					if len(v.Args) > 0 {
						return mk(v.Args[0])
					}
				case "new":
					if len(v.Args) > 0 {
						return mk(&ast.StarExpr{X: v.Args[0]})
					}
				case "append":
					if len(v.Args) > 0 {
						return c.typeOf(v.Args[0], sc)
					}
				case "len", "cap", "copy":
					return mk(ast.NewIdent("int"))
				}
				if frBasic[f.Name] {
					return mk(f)
				}
				if fd, ok := c.pkg.funcs[f.Name]; ok {
					return frFuncResult(c.pkg, fd, 0)
				}
				if _, ok := c.pkg.types[f.Name]; ok {
					return mk(f) // conversion
				}
				for _, d := range c.dots {
					p := frLoad(d)
					if fd, ok := p.funcs[f.Name]; ok {
						return frFuncResult(p, fd, 0)
					}
					if _, ok := p.types[f.Name]; ok {
						return mk(f)
					}
				}
			}
		case *ast.SelectorExpr:
			if id, ok := f.X.(*ast.Ident); ok && sc.lookup(id.Name) == nil {
				if dir, ok := c.repoPk[id.Name]; ok {
					p := frLoad(dir)
					if fd, ok := p.funcs[f.Sel.Name]; ok {
						return frFuncResult(p, fd, 0)
					}
					if _, ok := p.types[f.Sel.Name]; ok {
						return mk(f)
					}
					return frT{}
				}
				if _, ok := c.extPk[id.Name]; ok {
					if r, ok := frStdResult[id.Name+"."+f.Sel.Name]; ok {
						x, err := parser.ParseExpr(r)
						if err == nil {
							return mk(x)
						}
					}
					return frT{}
				}
			}
			if f.Sel.Name == "MapKeys" {
				return frT{special: "mapkeys"}
			}
			return frMethodResult(c.typeOf(f.X, sc), f.Sel.Name, 0)
		case *ast.ArrayType, *ast.MapType, *ast.InterfaceType, *ast.StarExpr:
			return mk(f)
		case *ast.ParenExpr:
			return mk(f.X)
		}
	}
	return frT{}
}

// the provenance of the object an expression denotes
func (c *frCtx) provOf(e ast.Expr, sc *frScope) frProv {
	switch v := e.(type) {
	case nil:
		return pFresh
	case *ast.ParenExpr:
		return c.provOf(v.X, sc)
	case *ast.Ident:
		if lv := sc.lookup(v.Name); lv != nil {
			return lv.prov
		}
		if _, ok := c.pkg.vars[v.Name]; ok {
			return pPkg
		}
		for _, d := range c.dots {
			if _, ok := frLoad(d).vars[v.Name]; ok {
				return pPkg
			}
		}
		return pFresh
	case *ast.SelectorExpr:
		if id, ok := v.X.(*ast.Ident); ok && sc.lookup(id.Name) == nil {
			if dir, ok := c.repoPk[id.Name]; ok {
				if _, ok := frLoad(dir).vars[v.Sel.Name]; ok {
					return pPkg
				}
				return pFresh
			}
			if _, ok := c.extPk[id.Name]; ok {
				return pPkg // a variable of a foreign package
			}
			if c.vmMode && id.Name == c.recv && c.recv != "" {
				switch v.Sel.Name {
				case "bytecode", "constants":
					return pProg
				case "stack":
					return pEnv
				}
			}
		}
		return c.provOf(v.X, sc)
	case *ast.IndexExpr:
		return c.provOf(v.X, sc)
	case *ast.SliceExpr:
		return c.provOf(v.X, sc)
	case *ast.StarExpr:
		return c.provOf(v.X, sc)
	case *ast.TypeAssertExpr:
		return c.provOf(v.X, sc)
	case *ast.UnaryExpr:
		if v.Op == token.AND || v.Op == token.ARROW {
			return c.provOf(v.X, sc)
		}
		return pFresh
	case *ast.CallExpr:
		joinArgs := func() frProv {
			p := pFresh
			for _, a := range v.Args {
				p = frJoin(p, c.provOf(a, sc))
			}
			return p
		}
		switch f := v.Fun.(type) {
		case *ast.Ident:
			if sc.lookup(f.Name) == nil {
				switch f.Name {
				case "make", "new", "len", "cap", "copy", "recover":
					return pFresh
				case "append":
					return joinArgs()
				}
				if frBasic[f.Name] {
					return pFresh
				}
			}
			return joinArgs() // function of this package (or a conversion): may return what it was given
		case *ast.SelectorExpr:
			if id, ok := f.X.(*ast.Ident); ok && sc.lookup(id.Name) == nil {
				if _, ok := c.repoPk[id.Name]; ok {
					return joinArgs()
				}
				if _, ok := c.extPk[id.Name]; ok {
					switch id.Name + "." + f.Sel.Name {
					case "reflect.ValueOf", "reflect.Indirect", "reflect.Append", "reflect.AppendSlice":
						return joinArgs()
					}
					return pFresh // type descriptors, strings, numbers, freshly built values
				}
				if c.vmMode && id.Name == c.recv && c.recv != "" {
					switch f.Sel.Name {
					case "pop", "current", "constant", "Stack":
						return pEnv
					case "Scope", "arg":
						return pFresh
					}
				}
			}
			return c.provOf(f.X, sc)
		}
		return joinArgs()
	}
	return pFresh // literals, arithmetic, comparisons, function literals
}

func (c *frCtx) class(p frProv) string {
	switch p {
	case pFresh:
		if c.vmMode {
			return "VmLocal"
		}
		return "PerCall"
	case pRecv:
		if c.vmMode {
			return "VmLocal"
		}
		return "PerCall"
	case pArg:
		if c.vmMode {
			return "Unrecognised"
		}
		return "PerCallArg"
	case pProg:
		return "ProgramShared"
	case pEnv:
		return "EnvReachable"
	case pPkg:
		return "PackageLevel"
	}
	return "Unrecognised"
}

// one line of source; comment delimiters of Coq are broken up so that they never occur inside a string
func frOneLine(n ast.Node) string {
	s := strings.Join(strings.Fields(src(n)), " ")
	return strings.ReplaceAll(strings.ReplaceAll(s, "(*", "( *"), "*)", "* )")
}

// the expression on one line with every LOCAL name (parameter, receiver, local variable) written `_` and redundant parentheses
// dropped: renaming a local or parenthesising an operand leaves the inventory unchanged
func frCanonLocals(x ast.Expr, sc *frScope) string {
	type saved struct {
		id   *ast.Ident
		name string
	}
	var sv []saved
	sels := map[*ast.Ident]bool{}
	ast.Inspect(x, func(n ast.Node) bool {
		if se, ok := n.(*ast.SelectorExpr); ok {
			sels[se.Sel] = true
		}
		return true
	})
	ast.Inspect(x, func(n ast.Node) bool {
		if id, ok := n.(*ast.Ident); ok && !sels[id] && sc.lookup(id.Name) != nil {
			sv = append(sv, saved{id, id.Name})
			id.Name = "_"
		}
		return true
	})
	s := frOneLine(x)
	for _, e := range sv {
		e.id.Name = e.name
	}
	for strings.Contains(s, "((") && strings.Contains(s, "))") {
		t := strings.Replace(strings.Replace(s, "((", "(", 1), "))", ")", 1)
		if t == s {
			break
		}
		s = t
	}
	return s
}

func (c *frCtx) emit(kind string, target ast.Expr, class string) {
	*c.writes = append(*c.writes, frWrite{c.fn, kind, frOneLine(target), class})
}

// a write whose destination is the location denoted by lhs
func (c *frCtx) store(kind string, lhs ast.Expr, sc *frScope, define bool) {
	for {
		if pe, ok := lhs.(*ast.ParenExpr); ok {
			lhs = pe.X
			continue
		}
		break
	}
	switch v := lhs.(type) {
	case *ast.Ident:
		if v.Name == "_" {
			return
		}
		if define || sc.lookup(v.Name) != nil {
			c.emit(kind, lhs, c.class(pFresh))
			return
		}
		if _, ok := c.pkg.vars[v.Name]; ok {
			c.emit(kind, lhs, "PackageLevel")
			return
		}
		for _, d := range c.dots {
			if _, ok := frLoad(d).vars[v.Name]; ok {
				c.emit(kind, lhs, "PackageLevel")
				return
			}
		}
		c.emit(kind, lhs, "Unrecognised")
	case *ast.SelectorExpr:
		// a field of the receiver itself is the receiver's own state
		if id, ok := v.X.(*ast.Ident); ok {
			if lv := sc.lookup(id.Name); lv != nil {
				c.emit("KFieldStore", lhs, c.class(lv.prov))
				return
			}
			if dir, ok := c.repoPk[id.Name]; ok {
				_ = dir
				c.emit("KFieldStore", lhs, "PackageLevel")
				return
			}
			if _, ok := c.extPk[id.Name]; ok {
				c.emit("KFieldStore", lhs, "PackageLevel")
				return
			}
		}
		c.emit("KFieldStore", lhs, c.class(c.provOf(v.X, sc)))
	case *ast.IndexExpr:
		c.emit("KElemStore", lhs, c.class(c.provOf(v.X, sc)))
	case *ast.StarExpr:
		c.emit("KDerefStore", lhs, c.class(c.provOf(v.X, sc)))
	default:
		c.emit(kind, lhs, "Unrecognised")
	}
}

func (c *frCtx) define(sc *frScope, name string, t frT, p frProv) {
	if name == "_" || name == "" {
		return
	}
	sc.vars[name] = &frVar{t: t, prov: p}
}

func frIsValueType(e ast.Expr) bool {
	switch v := e.(type) {
	case *ast.Ident:
		return frBasic[v.Name]
	case *ast.SelectorExpr:
		s := frOneLine(v)
		return s == "reflect.Kind" || s == "reflect.Type" || s == "token.Token"
	}
	return false
}

func (c *frCtx) paramProv(t ast.Expr, name string) frProv {
	if frIsValueType(t) {
		return pFresh
	}
	if _, ok := t.(*ast.FuncType); ok {
		return pFresh
	}
	if it, ok := t.(*ast.InterfaceType); ok && (it.Methods == nil || len(it.Methods.List) == 0) {
		return pEnv
	}
	if el, ok := t.(*ast.Ellipsis); ok {
		if it, ok := el.Elt.(*ast.InterfaceType); ok && (it.Methods == nil || len(it.Methods.List) == 0) {
			return pEnv
		}
	}
	if frBaseName(t) == "Program" {
		return pProg
	}
	if name == "env" {
		return pEnv
	}
	return pArg
}

func (c *frCtx) bindFields(sc *frScope, fl *ast.FieldList, results bool) {
	if fl == nil {
		return
	}
	for _, f := range fl.List {
		for _, n := range f.Names {
			p := pFresh
			if !results {
				p = c.paramProv(f.Type, n.Name)
			}
			c.define(sc, n.Name, frT{pkg: c.pkg, file: c.file, e: f.Type}, p)
		}
	}
}

func (c *frCtx) call(v *ast.CallExpr, sc *frScope) {
	switch f := v.Fun.(type) {
	case *ast.Ident:
		if sc.lookup(f.Name) != nil {
			return
		}
		switch f.Name {
		case "append":
			if len(v.Args) > 0 {
				c.emit("KAppend", v.Args[0], c.class(c.provOf(v.Args[0], sc)))
			}
		case "delete":
			if len(v.Args) > 0 {
				c.emit("KDelete", v.Args[0], c.class(c.provOf(v.Args[0], sc)))
			}
		case "copy":
			if len(v.Args) > 0 {
				c.emit("KCopy", v.Args[0], c.class(c.provOf(v.Args[0], sc)))
			}
		case "close":
			if len(v.Args) > 0 {
				c.emit("KChanOp", v.Args[0], c.class(c.provOf(v.Args[0], sc)))
			}
		default:
			if _, ok := c.pkg.funcs[f.Name]; ok {
				c.calls[f.Name] = true
			}
		}
	case *ast.SelectorExpr:
		if id, ok := f.X.(*ast.Ident); ok && sc.lookup(id.Name) == nil {
			if _, ok := c.repoPk[id.Name]; ok {
				return
			}
			if path, ok := c.extPk[id.Name]; ok {
				name := path[strings.LastIndex(path, "/")+1:] + "." + f.Sel.Name
				c.extcalls[name] = true
				if frReflectMutFuncs[name] {
					*c.reflMut = append(*c.reflMut, c.fn+": "+frOneLine(v))
				}
				return
			}
		}
		// a method call
		if id, ok := f.X.(*ast.Ident); ok && id.Name == c.recv && c.recv != "" {
			if rt := sc.lookup(id.Name); rt != nil {
				if _, n, ok := frNamed(rt.t); ok {
					c.calls[n+"."+f.Sel.Name] = true
				}
			}
			return
		}
		t := c.typeOf(f.X, sc)
		if owner, key, ok := frHasMethod(t, f.Sel.Name, 0); ok {
			if owner == c.pkg && key != "" {
				c.calls[key] = true
			}
			return // a method of this module: its body is analysed where it is declared
		}
		c.methods[f.Sel.Name] = true
		if frReflectMutators[f.Sel.Name] {
			*c.reflMut = append(*c.reflMut, c.fn+": "+frOneLine(v))
		}
	}
}

func (c *frCtx) expr(e ast.Expr, sc *frScope) {
	if e == nil {
		return
	}
	ast.Inspect(e, func(n ast.Node) bool {
		switch v := n.(type) {
		case *ast.FuncLit:
			inner := frNewScope(sc)
			c.bindFields(inner, v.Type.Params, false)
			c.bindFields(inner, v.Type.Results, true)
			c.block(v.Body, inner)
			return false
		case *ast.CallExpr:
			c.call(v, sc)
		case *ast.UnaryExpr:
			if v.Op == token.ARROW {
				c.emit("KChanOp", v.X, c.class(c.provOf(v.X, sc)))
			}
		}
		return true
	})
}

func (c *frCtx) block(b *ast.BlockStmt, sc *frScope) {
	if b == nil {
		return
	}
	for _, s := range b.List {
		c.stmt(s, sc)
	}
}

func (c *frCtx) rangeClass(x ast.Expr, sc *frScope) (string, frT, frT) {
	if _, ok := x.(*ast.SliceExpr); ok {
		_, el, _ := frElem(c.typeOf(x, sc))
		return "RSeq", frT{pkg: c.pkg, file: c.file, e: ast.NewIdent("int")}, el
	}
	t := c.typeOf(x, sc)
	if t.special == "mapkeys" {
		return "RMapKeys", frT{pkg: c.pkg, file: c.file, e: ast.NewIdent("int")}, frT{}
	}
	k, el, kind := frElem(t)
	switch kind {
	case "map":
		return "RMap", k, el
	case "seq":
		return "RSeq", k, el
	}
	return "RUnknown", frT{}, frT{}
}

func (c *frCtx) stmt(s ast.Stmt, sc *frScope) {
	switch v := s.(type) {
	case nil:
	case *ast.BlockStmt:
		c.block(v, frNewScope(sc))
	case *ast.ExprStmt:
		c.expr(v.X, sc)
	case *ast.DeclStmt:
		if gd, ok := v.Decl.(*ast.GenDecl); ok {
			for _, sp := range gd.Specs {
				vs, ok := sp.(*ast.ValueSpec)
				if !ok {
					continue
				}
				for i, n := range vs.Names {
					t, p := frT{}, pFresh
					if vs.Type != nil {
						t = frT{pkg: c.pkg, file: c.file, e: vs.Type}
					}
					if i < len(vs.Values) {
						c.expr(vs.Values[i], sc)
						if !t.known() {
							t = c.typeOf(vs.Values[i], sc)
						}
						p = c.provOf(vs.Values[i], sc)
					}
					c.define(sc, n.Name, t, p)
					if gd.Tok == token.VAR {
						c.emit("KDefine", n, c.class(pFresh))
					}
				}
			}
		}
	case *ast.AssignStmt:
		for _, r := range v.Rhs {
			c.expr(r, sc)
		}
		for _, l := range v.Lhs {
			if _, ok := l.(*ast.Ident); !ok {
				c.expr(l, sc) // index expressions may contain calls
			}
		}
		define := v.Tok == token.DEFINE
		kind := "KAssign"
		if define {
			kind = "KDefine"
		}
		for i, l := range v.Lhs {
			var t frT
			p := pFresh
			if len(v.Lhs) == len(v.Rhs) {
				t = c.typeOf(v.Rhs[i], sc)
				p = c.provOf(v.Rhs[i], sc)
			} else if len(v.Rhs) == 1 {
				p = c.provOf(v.Rhs[0], sc)
				if i == 0 {
					t = c.typeOf(v.Rhs[0], sc)
				} else if call, ok := v.Rhs[0].(*ast.CallExpr); ok {
					t = c.multiResult(call, i, sc)
					if !t.known() {
						p = pFresh
					}
				} else {
					t, p = frT{pkg: c.pkg, file: c.file, e: ast.NewIdent("bool")}, pFresh
				}
			}
			c.store(kind, l, sc, define)
			if id, ok := l.(*ast.Ident); ok {
				if define {
					c.define(sc, id.Name, t, p)
				} else if lv := sc.lookup(id.Name); lv != nil {
					lv.prov = frJoin(lv.prov, p)
					if !lv.t.known() {
						lv.t = t
					}
				}
			}
		}
	case *ast.IncDecStmt:
		c.expr(v.X, sc)
		c.store("KIncDec", v.X, sc, false)
	case *ast.SendStmt:
		c.expr(v.Value, sc)
		c.emit("KChanOp", v.Chan, c.class(c.provOf(v.Chan, sc)))
	case *ast.GoStmt:
		c.emit("KGo", v.Call.Fun, "Unrecognised")
		c.expr(v.Call, sc)
	case *ast.DeferStmt:
		c.expr(v.Call, sc)
	case *ast.ReturnStmt:
		for _, r := range v.Results {
			c.expr(r, sc)
		}
	case *ast.LabeledStmt:
		c.stmt(v.Stmt, sc)
	case *ast.IfStmt:
		in := frNewScope(sc)
		c.stmt(v.Init, in)
		c.expr(v.Cond, in)
		c.block(v.Body, frNewScope(in))
		c.stmt(v.Else, in)
	case *ast.ForStmt:
		in := frNewScope(sc)
		c.stmt(v.Init, in)
		c.expr(v.Cond, in)
		c.stmt(v.Post, in)
		c.block(v.Body, frNewScope(in))
	case *ast.RangeStmt:
		c.expr(v.X, sc)
		cls, kt, et := c.rangeClass(v.X, sc)
		if cls == "RSeq" {
			*c.seqs++
		} else {
			*c.ranges = append(*c.ranges, frRange{c.fn, frCanonLocals(v.X, sc), cls})
		}
		in := frNewScope(sc)
		p := c.provOf(v.X, sc)
		for i, kv := range []ast.Expr{v.Key, v.Value} {
			if kv == nil {
				continue
			}
			t, pp := kt, pFresh
			if i == 1 {
				t, pp = et, p
			}
			if v.Tok == token.DEFINE {
				if id, ok := kv.(*ast.Ident); ok {
					c.define(in, id.Name, t, pp)
					if id.Name != "_" {
						c.emit("KDefine", id, c.class(pFresh))
					}
				}
			} else {
				c.store("KAssign", kv, sc, false)
			}
		}
		c.block(v.Body, frNewScope(in))
	case *ast.SwitchStmt:
		in := frNewScope(sc)
		c.stmt(v.Init, in)
		c.expr(v.Tag, in)
		for _, cc := range v.Body.List {
			cl := cc.(*ast.CaseClause)
			for _, e := range cl.List {
				c.expr(e, in)
			}
			b := frNewScope(in)
			for _, st := range cl.Body {
				c.stmt(st, b)
			}
		}
	case *ast.TypeSwitchStmt:
		in := frNewScope(sc)
		c.stmt(v.Init, in)
		var bound string
		var subject ast.Expr
		switch a := v.Assign.(type) {
		case *ast.AssignStmt:
			if len(a.Lhs) == 1 && len(a.Rhs) == 1 {
				if id, ok := a.Lhs[0].(*ast.Ident); ok {
					bound = id.Name
				}
				if ta, ok := a.Rhs[0].(*ast.TypeAssertExpr); ok {
					subject = ta.X
				}
			}
		case *ast.ExprStmt:
			if ta, ok := a.X.(*ast.TypeAssertExpr); ok {
				subject = ta.X
			}
		}
		c.expr(subject, in)
		for _, cc := range v.Body.List {
			cl := cc.(*ast.CaseClause)
			b := frNewScope(in)
			if bound != "" {
				t := c.typeOf(subject, in)
				if len(cl.List) == 1 {
					if id, ok := cl.List[0].(*ast.Ident); !ok || id.Name != "nil" {
						t = frT{pkg: c.pkg, file: c.file, e: cl.List[0]}
					}
				}
				c.define(b, bound, t, c.provOf(subject, in))
			}
			for _, st := range cl.Body {
				c.stmt(st, b)
			}
		}
	case *ast.SelectStmt:
		c.emit("KChanOp", ast.NewIdent("select"), "Unrecognised")
		for _, cc := range v.Body.List {
			cl := cc.(*ast.CommClause)
			b := frNewScope(sc)
			c.stmt(cl.Comm, b)
			for _, st := range cl.Body {
				c.stmt(st, b)
			}
		}
	case *ast.BranchStmt, *ast.EmptyStmt:
	default:
		frUnrec = append(frUnrec, c.fn+": statement "+fmt.Sprintf("%T", s))
	}
}

func (c *frCtx) multiResult(call *ast.CallExpr, i int, sc *frScope) frT {
	switch f := call.Fun.(type) {
	case *ast.Ident:
		if fd, ok := c.pkg.funcs[f.Name]; ok && sc.lookup(f.Name) == nil {
			return frFuncResult(c.pkg, fd, i)
		}
	case *ast.SelectorExpr:
		if id, ok := f.X.(*ast.Ident); ok && sc.lookup(id.Name) == nil {
			if dir, ok := c.repoPk[id.Name]; ok {
				p := frLoad(dir)
				if fd, ok := p.funcs[f.Sel.Name]; ok {
					return frFuncResult(p, fd, i)
				}
			}
		}
	}
	return frT{}
}

type frResult struct {
	writes   []frWrite
	ranges   []frRange
	seqs     int
	extcalls map[string]bool
	methods  map[string]bool
	reflMut  []string
	fns      []string
}

func frNewResult() *frResult {
	return &frResult{extcalls: map[string]bool{}, methods: map[string]bool{}}
}

func frFuncName(p *frPkg, fd *ast.FuncDecl) (string, string) {
	pn := p.name
	if p.dir == "" {
		pn = "expr"
	}
	if fd.Recv != nil && len(fd.Recv.List) == 1 {
		// pointer and value receivers alike: "vm.VM.Run" (no "(*" inside Coq strings)
		bn := frBaseName(fd.Recv.List[0].Type)
		return pn + "." + bn + "." + fd.Name.Name, bn + "." + fd.Name.Name
	}
	return pn + "." + fd.Name.Name, fd.Name.Name
}

func frAnalyze(p *frPkg, fd *ast.FuncDecl, vmMode bool, res *frResult) map[string]bool {
	f := p.funcFile[fd]
	full, _ := frFuncName(p, fd)
	c := &frCtx{pkg: p, file: f, fn: full, vmMode: vmMode, writes: &res.writes, ranges: &res.ranges, seqs: &res.seqs,
		extcalls: res.extcalls, methods: res.methods, reflMut: &res.reflMut, calls: map[string]bool{}}
	c.repoPk, c.extPk, c.dots = frImports(f)
	sc := frNewScope(nil)
	if fd.Recv != nil && len(fd.Recv.List) == 1 && len(fd.Recv.List[0].Names) == 1 {
		c.recv = fd.Recv.List[0].Names[0].Name
		c.define(sc, c.recv, frT{pkg: p, file: f, e: fd.Recv.List[0].Type}, pRecv)
	}
	c.bindFields(sc, fd.Type.Params, false)
	c.bindFields(sc, fd.Type.Results, true)
	c.block(fd.Body, frNewScope(sc))
	res.fns = append(res.fns, full)
	return c.calls
}

func frSortedSet(m map[string]bool) []string {
	var ks []string
	for k := range m {
		ks = append(ks, k)
	}
	sort.Strings(ks)
	return ks
}

func frCoqList(xs []string) string {
	qs := make([]string, len(xs))
	for i, x := range xs {
		qs[i] = coqString(x)
	}
	return "[" + strings.Join(qs, "; ") + "]"
}

func frEmitWrites(b *strings.Builder, name string, ws []frWrite) {
	sort.Slice(ws, func(i, j int) bool {
		a, c := ws[i], ws[j]
		if a.fn != c.fn {
			return a.fn < c.fn
		}
		if a.target != c.target {
			return a.target < c.target
		}
		if a.kind != c.kind {
			return a.kind < c.kind
		}
		return a.class < c.class
	})
	fmt.Fprintf(b, "Definition %s : list wentry := [", name)
	first := true
	var last frWrite
	for _, w := range ws {
		if !first && w == last {
			continue
		}
		if !first {
			b.WriteString(";")
		}
		first = false
		last = w
		fmt.Fprintf(b, "\n  mkW %s %s %s %s", coqString(w.fn), w.kind, coqString(w.target), w.class)
	}
	b.WriteString("\n].\n\n")
}

func frEmitRanges(b *strings.Builder, name string, rs []frRange) {
	sort.Slice(rs, func(i, j int) bool {
		if rs[i].fn != rs[j].fn {
			return rs[i].fn < rs[j].fn
		}
		return rs[i].expr < rs[j].expr
	})
	fmt.Fprintf(b, "Definition %s : list (string * string * rclass) := [", name)
	for i, r := range rs {
		if i > 0 {
			b.WriteString(";")
		}
		fmt.Fprintf(b, "\n  (%s, %s, %s)", coqString(r.fn), coqString(r.expr), r.class)
	}
	b.WriteString("\n].\n\n")
}

// packages whose code runs inside expr.Compile (docgen: documentation of the same environment)
var frCompileDirs = []string{"", "ast", "checker", "compiler", "conf", "file", "optimizer", "parser", "parser/lexer", "docgen"}

func genFrame() {
	frPkgs = map[string]*frPkg{}
	frUnrec = nil
	var b strings.Builder
	b.WriteString("(* GENERATED by /verif/translator (gen_frame.go) from the vm package and the packages of the compile path — do not edit *)\n")
	b.WriteString("From Coq Require Import List String.\nImport ListNotations.\nOpen Scope string_scope.\n\n")
	b.WriteString("(* class of the ROOT of a written location *)\n")
	b.WriteString("Inductive wclass := VmLocal | PerCall | PerCallArg | ProgramShared | PackageLevel | EnvReachable | Unrecognised.\n")
	b.WriteString("Inductive wkind := KAssign | KDefine | KIncDec | KAppend | KElemStore | KFieldStore | KDerefStore | KChanOp | KDelete | KCopy | KGo.\n")
	b.WriteString("Record wentry := mkW { w_fn : string; w_kind : wkind; w_target : string; w_class : wclass }.\n")
	b.WriteString("Inductive rclass := RMap | RMapKeys | RUnknown.\n\n")

	// (a) run path: functions of package vm reachable from Run / (*VM).Run
	vm := frLoad("vm")
	run := frNewResult()
	reach := map[string]bool{}
	work := []string{"Run", "VM.Run"}
	for len(work) > 0 {
		k := work[len(work)-1]
		work = work[:len(work)-1]
		if reach[k] {
			continue
		}
		fd, ok := vm.funcs[k]
		if !ok {
			if k == "Run" || k == "VM.Run" {
				frUnrec = append(frUnrec, "vm: entry point "+k+" missing")
			}
			continue
		}
		reach[k] = true
		calls := frAnalyze(vm, fd, true, run)
		for _, cal := range frSortedSet(calls) {
			work = append(work, cal)
		}
	}
	sort.Strings(run.fns)
	b.WriteString("(* (a) functions of package vm reachable from Run / VM.Run, and every write in them *)\n")
	fmt.Fprintf(&b, "Definition run_functions : list string := %s.\n\n", frCoqList(run.fns))
	frEmitWrites(&b, "run_writes", run.writes)
	sort.Strings(run.reflMut)
	fmt.Fprintf(&b, "Definition run_reflect_mutations : list string := %s.\n", frCoqList(run.reflMut))
	fmt.Fprintf(&b, "Definition run_extcalls : list string := %s.\n", frCoqList(frSortedSet(run.extcalls)))
	fmt.Fprintf(&b, "Definition run_methcalls : list string := %s.\n\n", frCoqList(frSortedSet(run.methods)))
	frEmitRanges(&b, "run_map_ranges", run.ranges)

	// (b) compile path: every function of the packages that run inside expr.Compile
	cmp := frNewResult()
	for _, dir := range frCompileDirs {
		p := frLoad(dir)
		var keys []string
		for k := range p.funcs {
			keys = append(keys, k)
		}
		sort.Strings(keys)
		for _, k := range keys {
			fd := p.funcs[k]
			if fd.Name.Name == "init" && fd.Recv == nil || fd.Body == nil {
				continue
			}
			frAnalyze(p, fd, false, cmp)
		}
	}
	// vm.FetchFn is called by (*Config).ConstExpr
	for _, k := range []string{"FetchFn", "FetchFnNil"} {
		if fd, ok := vm.funcs[k]; ok && !reach[k] {
			frAnalyze(vm, fd, false, cmp)
		}
	}
	b.WriteString("(* (b) every write in the packages of the compile path (expr, ast, checker, compiler, conf, file, optimizer, parser, lexer, docgen) *)\n")
	frEmitWrites(&b, "compile_writes", cmp.writes)
	sort.Strings(cmp.reflMut)
	fmt.Fprintf(&b, "Definition compile_reflect_mutations : list string := %s.\n", frCoqList(cmp.reflMut))
	fmt.Fprintf(&b, "Definition compile_extcalls : list string := %s.\n", frCoqList(frSortedSet(cmp.extcalls)))
	fmt.Fprintf(&b, "Definition compile_methcalls : list string := %s.\n\n", frCoqList(frSortedSet(cmp.methods)))

	// package-level variables of all scanned packages
	var pv []string
	for _, dir := range append([]string{"vm"}, frCompileDirs...) {
		p := frLoad(dir)
		pn := p.name
		if dir == "" {
			pn = "expr"
		}
		for v := range p.vars {
			pv = append(pv, pn+"."+v)
		}
	}
	sort.Strings(pv)
	fmt.Fprintf(&b, "(* package-level variables of the scanned packages (a write to one of them is a PackageLevel entry above) *)\nDefinition package_vars : list string := %s.\n\n", frCoqList(pv))

	b.WriteString("(* (c) every `range` over a Go map / over reflect's MapKeys() (unspecified order) / over an expression of unknown type *)\n")
	frEmitRanges(&b, "compile_map_ranges", cmp.ranges)
	fmt.Fprintf(&b, "Definition compile_seq_ranges : nat := %d.\nDefinition run_seq_ranges : nat := %d.\n\n", cmp.seqs, run.seqs)

	sort.Strings(frUnrec)
	fmt.Fprintf(&b, "Definition frame_unrecognised : list string := %s.\n", frCoqList(frUnrec))
	writeIfChanged("GenFrame.v", b.String())
}

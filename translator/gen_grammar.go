package main

func genGrammar() {}

package main

import (
	"fmt"
	"go/ast"
	"go/token"
	"sort"
	"strconv"
	"strings"
)

// genGrammar reads the three package-level tables of parser/parser.go
//
//	var unaryOperators  = map[string]operator{ "not": {50, left}, ... }
//	var binaryOperators = map[string]operator{ "or":  {10, left}, ... "**": {70, right} }
//	var builtins        = map[string]builtin{  "len": {1}, ... }
//
// and writes coq/gen/GenGrammar.v, sorted by operator string.  Anything that is not a string key
// with a {int, left|right} / {int} composite literal (positional or keyed) is reported in
// grammar_unrecognised, which makes the bridge lemma of C11 fail.
func genGrammar() {
	f := parseFile("parser/parser.go")
	var unrec []string

	// map literal of a package-level `var name = map[string]T{...}`
	mapLit := func(name string) *ast.CompositeLit {
		if f == nil {
			return nil
		}
		for _, d := range f.Decls {
			gd, ok := d.(*ast.GenDecl)
			if !ok || gd.Tok != token.VAR {
				continue
			}
			for _, s := range gd.Specs {
				vs := s.(*ast.ValueSpec)
				for i, n := range vs.Names {
					if n.Name == name && i < len(vs.Values) {
						if cl, ok := vs.Values[i].(*ast.CompositeLit); ok {
							if _, isMap := cl.Type.(*ast.MapType); isMap {
								return cl
							}
						}
					}
				}
			}
		}
		return nil
	}

	intLit := func(e ast.Expr) (int64, bool) {
		neg := false
		if u, ok := e.(*ast.UnaryExpr); ok && u.Op == token.SUB {
			neg = true
			e = u.X
		}
		bl, ok := e.(*ast.BasicLit)
		if !ok || bl.Kind != token.INT {
			return 0, false
		}
		v, err := strconv.ParseInt(bl.Value, 0, 64)
		if err != nil {
			return 0, false
		}
		if neg {
			v = -v
		}
		return v, true
	}

	// fields of one entry value `{a, b}` or `{precedence: a, associativity: b}` in the given field order
	fields := func(v ast.Expr, names []string) ([]ast.Expr, bool) {
		cl, ok := v.(*ast.CompositeLit)
		if !ok {
			return nil, false
		}
		out := make([]ast.Expr, len(names))
		keyed := false
		for _, e := range cl.Elts {
			if _, ok := e.(*ast.KeyValueExpr); ok {
				keyed = true
			}
		}
		if keyed {
			for _, e := range cl.Elts {
				kv, ok := e.(*ast.KeyValueExpr)
				if !ok {
					return nil, false
				}
				id, ok := kv.Key.(*ast.Ident)
				if !ok {
					return nil, false
				}
				found := false
				for i, n := range names {
					if n == id.Name {
						out[i] = kv.Value
						found = true
					}
				}
				if !found {
					return nil, false
				}
			}
		} else {
			if len(cl.Elts) != len(names) {
				return nil, false
			}
			copy(out, cl.Elts)
		}
		for _, e := range out {
			if e == nil {
				return nil, false
			}
		}
		return out, true
	}

	type opEnt struct {
		name  string
		prec  int64
		right bool
	}
	readOps := func(name string) []opEnt {
		cl := mapLit(name)
		if cl == nil {
			unrec = append(unrec, "missing table "+name)
			return nil
		}
		var out []opEnt
		seen := map[string]bool{}
		for _, e := range cl.Elts {
			kv, ok := e.(*ast.KeyValueExpr)
			if !ok {
				unrec = append(unrec, pos(e)+": entry of "+name)
				continue
			}
			kl, ok := kv.Key.(*ast.BasicLit)
			if !ok || kl.Kind != token.STRING {
				unrec = append(unrec, pos(e)+": key of "+name)
				continue
			}
			key, err := strconv.Unquote(kl.Value)
			if err != nil {
				unrec = append(unrec, pos(e)+": key of "+name)
				continue
			}
			fs, ok := fields(kv.Value, []string{"precedence", "associativity"})
			if !ok {
				unrec = append(unrec, pos(e)+": value of "+name+"["+key+"]")
				continue
			}
			p, ok1 := intLit(fs[0])
			as, ok2 := fs[1].(*ast.Ident)
			if !ok1 || !ok2 || (as.Name != "left" && as.Name != "right") {
				unrec = append(unrec, pos(e)+": value of "+name+"["+key+"]")
				continue
			}
			if seen[key] {
				unrec = append(unrec, pos(e)+": duplicate key "+key)
				continue
			}
			seen[key] = true
			out = append(out, opEnt{key, p, as.Name == "right"})
		}
		sort.Slice(out, func(i, j int) bool { return out[i].name < out[j].name })
		return out
	}

	// the constants `left associativity = iota + 1` / `right` must still be two distinct names
	if f != nil {
		okConst := false
		for _, d := range f.Decls {
			gd, ok := d.(*ast.GenDecl)
			if !ok || gd.Tok != token.CONST {
				continue
			}
			var names []string
			for _, s := range gd.Specs {
				for _, n := range s.(*ast.ValueSpec).Names {
					names = append(names, n.Name)
				}
			}
			if strings.Join(names, ",") == "left,right" {
				okConst = true
			}
		}
		if !okConst {
			unrec = append(unrec, "associativity constants left,right")
		}
	}

	un := readOps("unaryOperators")
	bin := readOps("binaryOperators")

	type biEnt struct {
		name  string
		arity int64
	}
	var bis []biEnt
	if cl := mapLit("builtins"); cl != nil {
		seen := map[string]bool{}
		for _, e := range cl.Elts {
			kv, ok := e.(*ast.KeyValueExpr)
			if !ok {
				unrec = append(unrec, pos(e)+": entry of builtins")
				continue
			}
			kl, ok := kv.Key.(*ast.BasicLit)
			if !ok || kl.Kind != token.STRING {
				unrec = append(unrec, pos(e)+": key of builtins")
				continue
			}
			key, err := strconv.Unquote(kl.Value)
			if err != nil {
				unrec = append(unrec, pos(e)+": key of builtins")
				continue
			}
			fs, ok := fields(kv.Value, []string{"arity"})
			if !ok {
				unrec = append(unrec, pos(e)+": value of builtins["+key+"]")
				continue
			}
			a, ok := intLit(fs[0])
			if !ok || seen[key] {
				unrec = append(unrec, pos(e)+": value of builtins["+key+"]")
				continue
			}
			seen[key] = true
			bis = append(bis, biEnt{key, a})
		}
		sort.Slice(bis, func(i, j int) bool { return bis[i].name < bis[j].name })
	} else {
		unrec = append(unrec, "missing table builtins")
	}

	z := func(v int64) string {
		if v < 0 {
			return fmt.Sprintf("(%d)", v)
		}
		return fmt.Sprintf("%d", v)
	}
	var b strings.Builder
	b.WriteString("(* GENERATED by /verif/translator from parser/parser.go — do not edit *)\n")
	b.WriteString("From Coq Require Import ZArith List String.\nImport ListNotations.\nOpen Scope Z_scope.\nOpen Scope string_scope.\n\n")
	b.WriteString("(* unaryOperators: operator -> precedence *)\n")
	b.WriteString("Definition gen_unary : list (string * Z) := [")
	for i, e := range un {
		if i > 0 {
			b.WriteString(";")
		}
		fmt.Fprintf(&b, "\n  (%s, %s)", coqString(e.name), z(e.prec))
	}
	b.WriteString("].\n\n")
	b.WriteString("(* unaryOperators: operators declared right-associative (the parser ignores the field) *)\n")
	b.WriteString("Definition gen_unary_right : list string := [")
	first := true
	for _, e := range un {
		if e.right {
			if !first {
				b.WriteString("; ")
			}
			first = false
			b.WriteString(coqString(e.name))
		}
	}
	b.WriteString("].\n\n")
	b.WriteString("(* binaryOperators: operator -> (precedence, right-associative) *)\n")
	b.WriteString("Definition gen_binary : list (string * (Z * bool)) := [")
	for i, e := range bin {
		if i > 0 {
			b.WriteString(";")
		}
		fmt.Fprintf(&b, "\n  (%s, (%s, %v))", coqString(e.name), z(e.prec), e.right)
	}
	b.WriteString("].\n\n")
	b.WriteString("(* builtins: name -> arity *)\n")
	b.WriteString("Definition gen_builtins : list (string * Z) := [")
	for i, e := range bis {
		if i > 0 {
			b.WriteString(";")
		}
		fmt.Fprintf(&b, "\n  (%s, %s)", coqString(e.name), z(e.arity))
	}
	b.WriteString("].\n\n")
	sort.Strings(unrec)
	b.WriteString("Definition grammar_unrecognised : list string := [")
	for i, u := range unrec {
		if i > 0 {
			b.WriteString("; ")
		}
		b.WriteString(coqString(u))
	}
	b.WriteString("].\n")
	writeIfChanged("GenGrammar.v", b.String())
}

func init() { generators = append(generators, genGrammar) }

package main

// Round-7 campaign of the C10 vertical: overloaded operators of DIFFERENT result types nested inside call arguments, and a
// type-directed user visitor over the same trees.  Every occurrence is rewritten (operator form = explicit-call form) and a
// visitor that selects nodes by their static type sees the type the checker gave the node it visits - also below a call.

import (
	"fmt"
	"reflect"
	"strings"

	"github.com/antonmedv/expr"
	"github.com/antonmedv/expr/ast"
)

type c10T struct{ Sec int }
type c10D struct{ Len int }
type c10Cal struct{}

func (c10Cal) Day(t c10T) int { return t.Sec / 10 }

func c10TimeEnv() map[string]interface{} {
	return map[string]interface{}{
		"Start": c10T{100}, "End": c10T{160}, "Step": c10D{5}, "Cal": c10Cal{},
		"AddTD": func(t c10T, d c10D) c10T { return c10T{t.Sec + d.Len} },
		"SubTT": func(a, b c10T) c10D { return c10D{a.Sec - b.Sec} },
		"AddDD": func(a, b c10D) c10D { return c10D{a.Len + b.Len} },
		"Day":   func(t c10T) int { return t.Sec / 10 },
		"Secs":  func(d c10D) int { return d.Len },
		"Show":  func(v interface{}) interface{} { return fmt.Sprintf("%T%v", v, v) },
		"Pair":  func(t c10T, d c10D) int { return t.Sec*1000 + d.Len },
	}
}

func c10TimeRun(src string, ops ...expr.Option) (out interface{}, err error) {
	defer func() {
		if r := recover(); r != nil {
			err = fmt.Errorf("panic: %v", r)
		}
	}()
	env := c10TimeEnv()
	p, err := expr.Compile(src, append([]expr.Option{expr.Env(env)}, ops...)...)
	if err != nil {
		return nil, err
	}
	return expr.Run(p, env)
}

// c10TypeTagger wraps every node whose static type is c10D (and that is not already an argument of Secs) into Secs(...): a
// type-directed rewrite as applications write them with expr.Patch
type c10TypeTagger struct{ hits int }

func (v *c10TypeTagger) Enter(*ast.Node) {}
func (v *c10TypeTagger) Exit(node *ast.Node) {
	if t := (*node).Type(); t == reflect.TypeOf(c10D{}) {
		if _, isID := (*node).(*ast.IdentifierNode); isID {
			return
		}
		v.hits++
		ast.Patch(node, &ast.FunctionNode{Name: "Secs", Arguments: []ast.Node{*node}})
	}
}

func c10Round7(rep *Report) {
	ops := []expr.Option{expr.Operator("+", "AddTD", "AddDD"), expr.Operator("-", "SubTT")}
	explicit := func(s string) string {
		r := strings.NewReplacer("Start + (End - Start) + Step", "AddTD(AddTD(Start, SubTT(End, Start)), Step)", "Start + (End - Start)", "AddTD(Start, SubTT(End, Start))",
			"(End - Start) + Step", "AddDD(SubTT(End, Start), Step)", "End - Start", "SubTT(End, Start)", "Start + Step", "AddTD(Start, Step)")
		return r.Replace(s)
	}
	for _, c := range []c10E2E{
		{"overloaded - below overloaded + in a function argument", "Day(Start + (End - Start))"},
		{"overloaded - below overloaded + in a method argument", "Cal.Day(Start + (End - Start))"},
		{"chain of overloaded + in an argument", "Day(Start + (End - Start) + Step)"},
		{"overloaded - as the whole argument", "Secs(End - Start)"},
		{"overloaded + of two results in an argument", "Secs((End - Start) + Step)"},
		{"two arguments with overloaded operators", "Pair(Start + Step, End - Start)"},
		{"overloaded operators in an interface{} argument", "Show(Start + (End - Start))"},
		{"the same outside any call", "(Start + (End - Start)).Sec"},
		{"argument inside a closure", "map([1, 2], {Day(Start + (End - Start)) + #})"},
	} {
		rep.Evaluations++
		rep.hist("e2e " + c.position)
		got, gerr := c10TimeRun(c.src, ops...)
		want, werr := c10TimeRun(explicit(c.src))
		input := map[string]interface{}{"e2e": c.src, "operators": "+ => AddTD, AddDD; - => SubTT", "position": c.position}
		if werr != nil {
			rep.fail(Failure{Key: "C10-e2e-baseline", What: "the explicit-call form does not compile and run", Input: input, Want: "a result", Got: werr.Error()})
			continue
		}
		if gerr != nil || !reflect.DeepEqual(got, want) {
			rep.fail(Failure{Key: "C10-e2e-operator", What: "operator overloading does not apply at position: " + c.position, Input: input,
				Want: fmt.Sprintf("%v (= %s)", want, explicit(c.src)), Got: fmt.Sprintf("%v (error %v)", got, gerr)})
		}
	}
	// the type-directed visitor: it must find the node of type c10D wherever it stands
	for _, c := range []struct {
		position, src string
		hits          int
		want          interface{}
	}{
		{"typed node as an interface{} argument", "Show(SubTT(End, Start))", 1, "int60"},
		{"typed overloaded node as an interface{} argument", "Show(End - Start)", 1, "int60"},
		{"typed node outside a call", "[SubTT(End, Start)][0]", 1, 60},
		{"typed overloaded node in an array", "[End - Start][0]", 1, 60},
		{"typed node below an arithmetic argument", "Show((End - Start) + Step)", 2, "int65"},
	} {
		rep.Evaluations++
		rep.hist("e2e type-directed visitor: " + c.position)
		v := &c10TypeTagger{}
		got, gerr := c10TimeRun(c.src, append([]expr.Option{expr.Patch(v)}, ops...)...)
		input := map[string]interface{}{"e2e": c.src, "visitor": "wrap every node of static type c10D into Secs(...)", "position": c.position}
		if c.hits == 2 {
			// after wrapping, Secs(..) + Step no longer type-checks as c10D + c10D: only the hit count is judged
			if v.hits < 1 {
				rep.fail(Failure{Key: "C10-e2e-patch", What: "a type-directed user visitor does not see the node of its type: " + c.position, Input: input, Want: "at least one hit", Got: fmt.Sprint(v.hits)})
			}
			continue
		}
		if gerr != nil || v.hits != c.hits || !reflect.DeepEqual(got, c.want) {
			rep.fail(Failure{Key: "C10-e2e-patch", What: "a type-directed user visitor does not see the node of its type: " + c.position, Input: input,
				Want: fmt.Sprintf("%v after %d hit(s)", c.want, c.hits), Got: fmt.Sprintf("%v (error %v) after %d hit(s)", got, gerr, v.hits)})
		}
	}
}

package main

// C04 — Failures are returned as errors, never as panics.
//
// Every call into the library goes through c04Guard: its own goroutine, a recover, and a
// wall-clock watchdog (2 s; a call that is late is given a grace period and re-timed once before it
// is called a hang, so that load on the machine is not mistaken for one).  Inputs at the 64 KiB
// limit with adversarial nesting run in a child process (a Go stack overflow or an out-of-memory
// abort is fatal and cannot be recovered in-process).
//
// Streams (one PRNG):
//   (i)  grammatical sources (egen with 10% deliberately ill-typed operands, a sample of the
//        exhaustive family, targeted seeds) x option sets drawn from
//        {Env(struct) | Env(map) | Env(pointer to map) | none} x {AllowUndefinedVariables} x
//        {Optimize on/off/unset} x {AsBool | AsInt64 | AsFloat64 | none} x
//        {Operator("+", Add | Nope | I | Inc)} x {ConstExpr(Add | Nope | I | Boom)} x
//        {Patch: node-replacing visitors for every node kind incl. ConstantNode, a visitor that panics}
//        in varying option order; compiled programs run on base / zero / boundary / map /
//        wrongly typed / nil / foreign environments; Eval on the same environments;
//   (ii) byte strings: random bytes, random token soup, invalid UTF-8, truncations and single-byte
//        mutations of grammatical seeds, unterminated literals, huge numbers, and the deep-nesting
//        family at the 64 KiB limit; Parse, Compile (three option sets), Eval.
// Oracle per call: no panic, no hang, result shape ((result == nil) == (err != nil) for Parse and
// Compile; err != nil => value == nil for Eval and Run), a returned program is usable (vm.Run on it
// returns).  Observed outcome classes go to coq/Corr/CorrC04.v as cases.
// Thorough tier: additionally Go native fuzzing (coverage guided) of the same oracle in a scratch
// module under /tmp, seeded from the same corpus.

import (
	"bytes"
	"encoding/json"
	"fmt"
	"math/rand"
	"os"
	"os/exec"
	"path/filepath"
	"reflect"
	"regexp"
	"runtime"
	"sort"
	"strconv"
	"strings"
	"time"
	"unicode/utf8"

	"github.com/antonmedv/expr"
	"github.com/antonmedv/expr/ast"
	"github.com/antonmedv/expr/file"
	"github.com/antonmedv/expr/parser"
	"github.com/antonmedv/expr/parser/lexer"
	"github.com/antonmedv/expr/vm"
)

func init() { commands["c04"] = runC04 }

// ---------------------------------------------------------------- guarded calls
const (
	c04Limit = 2 * time.Second
	c04Grace = 8 * time.Second
)

type c04Res struct {
	cls  string // ok | err | panic | hang
	val  interface{}
	err  error
	pval interface{}
	dur  time.Duration
}

var c04Hangs int // calls that never returned: their goroutines keep spinning

func c04Once(limit time.Duration, f func() (interface{}, error)) c04Res {
	ch := make(chan c04Res, 1)
	t0 := time.Now()
	go func() {
		var r c04Res
		defer func() {
			if p := recover(); p != nil {
				r = c04Res{cls: "panic", pval: p}
			}
			r.dur = time.Since(t0)
			ch <- r
		}()
		v, err := f()
		r.val, r.err = v, err
		if err != nil {
			r.cls = "err"
		} else {
			r.cls = "ok"
		}
	}()
	tm := time.NewTimer(limit)
	defer tm.Stop()
	select {
	case r := <-ch:
		return r
	case <-tm.C:
		return c04Res{cls: "hang", dur: time.Since(t0)}
	}
}

// c04Guard: 2 s watchdog; a late call gets the grace period, and when it does come back it is timed
// once more on its own: only a call that is late twice (or never returns) is a hang.
func c04Guard(f func() (interface{}, error)) c04Res {
	if c04Hangs >= 3 {
		return c04Res{cls: "skipped"}
	}
	r := c04Once(c04Limit+c04Grace, f)
	if r.cls == "hang" {
		c04Hangs++
		return r
	}
	if r.dur > c04Limit {
		r2 := c04Once(c04Limit+c04Grace, f)
		if r2.cls == "hang" {
			c04Hangs++
			return r2
		}
		if r2.dur > c04Limit {
			r2.cls = "hang"
			return r2
		}
		return r2
	}
	return r
}

// c04GuardLenient: for the inputs at the 64 KiB limit (child processes) and the memory probe.  Their
// running time depends on the load of the machine (allocation-heavy: a parse error at column 60 000
// makes file.Error.Bind build its indicator line by 60 000 string concatenations), so only a call
// that does not return at all within the long bound is a hang; late calls are recorded as slow.
var c04Slow []string

func c04GuardLenient(what string, f func() (interface{}, error)) c04Res {
	r := c04Once(45*time.Second, f)
	if r.cls == "hang" {
		c04Hangs++
		return r
	}
	if r.dur > c04Limit {
		c04Slow = append(c04Slow, fmt.Sprintf("%s: %d ms", what, r.dur.Milliseconds()))
	}
	return r
}

func c04IsNil(v interface{}) bool {
	if v == nil {
		return true
	}
	rv := reflect.ValueOf(v)
	switch rv.Kind() {
	case reflect.Ptr, reflect.Map, reflect.Slice, reflect.Func, reflect.Interface, reflect.Chan:
		// a typed nil pointer handed back as the result still is "no result" for the caller
		return rv.Kind() == reflect.Ptr && rv.IsNil()
	}
	return false
}

// environment of the operator-overload campaign: functions with interface, concrete and mixed
// parameters (fields and methods on value and pointer receivers), operands with and without a static type
type c04Str string

func (s c04Str) String() string { return string(s) }

type c04OpEnv struct {
	A, B    c04Str
	N       *Inner
	I       int
	S       string
	B2      bool
	Any     interface{}
	Join    func(a, b fmt.Stringer) string
	JoinI   func(a fmt.Stringer, b int) string
	JoinAny func(a, b interface{}) string
	Cat     func(a, b string) string
	AddI    func(a, b int) int
	PF      *func(x interface{}) bool
	Pred    func(x interface{}) bool
	NPred   c04Pred
}

type c04Pred func(x interface{}) bool

func (e c04OpEnv) MJoin(a, b fmt.Stringer) string {
	if a == nil || b == nil {
		return "m-nil"
	}
	return "m:" + a.String() + b.String()
}
func (e *c04OpEnv) PJoin(a fmt.Stringer, b string) string { return "p:" + b }

func c04OpBase() *c04OpEnv {
	return &c04OpEnv{A: "a", B: "b", N: &Inner{X: 1, Y: "y"}, I: 3, S: "s", B2: true, Any: c04Str("any"),
		Join: func(a, b fmt.Stringer) string {
			if a == nil || b == nil {
				return "nil"
			}
			return a.String() + "-" + b.String()
		},
		JoinI:   func(a fmt.Stringer, b int) string { return fmt.Sprint(a, b) },
		JoinAny: func(a, b interface{}) string { return fmt.Sprint(a, b) },
		Cat:     func(a, b string) string { return a + b },
		AddI:    func(a, b int) int { return a + b },
		PF:      &c04True,
		Pred:    c04True,
		NPred:   c04Pred(c04True),
	}
}

var c04True = func(x interface{}) bool { return true }

// ---------------------------------------------------------------- options
type c04Opts struct {
	Env      string   `json:"env"`      // "" | struct | map | ptrmap
	Allow    bool     `json:"allow"`    // AllowUndefinedVariables
	Optimize int      `json:"optimize"` // -1 unset | 0 | 1
	As       string   `json:"as"`       // "" | bool | int64 | float64
	Operator string   `json:"operator"` // "" | member name
	Const    string   `json:"const"`    // "" | member name
	Patch    []string `json:"patch"`    // visitor specs
	Order    []int    `json:"order"`    // permutation of the non-Env options (Env first unless EnvLast)
	EnvLast  bool     `json:"envlast"`  // Env after the other options
}

func (o c04Opts) String() string {
	b, _ := json.Marshal(o)
	return string(b)
}

const c04VisitorPanic = "c04: patch visitor panics"

// visitors
type c04Panicker struct{}

func (c04Panicker) Enter(*ast.Node) { panic(c04VisitorPanic) }
func (c04Panicker) Exit(*ast.Node)  {}

// replaces the at-th node that is exited (at < 0: every IntegerNode) by a fresh well-formed subtree
type c04Replacer struct {
	kind  string
	at    int
	count int
	done  int
}

func (r *c04Replacer) Enter(*ast.Node) {}
func (r *c04Replacer) Exit(n *ast.Node) {
	defer func() { r.count++ }()
	if r.at < 0 {
		if _, ok := (*n).(*ast.IntegerNode); ok && r.done < 50 {
			r.done++
			ast.Patch(n, c04Template(r.kind))
		}
		return
	}
	if r.count == r.at {
		r.done++
		ast.Patch(n, c04Template(r.kind))
	}
}

var c04TemplateKinds = []string{"Nil", "Identifier", "Integer", "Float", "Bool", "String", "Constant", "ConstantNil", "ConstantSlice",
	"ConstantMap", "ConstantFunc", "ConstantStruct", "Unary", "Binary", "Matches", "MatchesConst", "Property", "Index", "Slice", "Method", "Function",
	"FunctionBoom", "BuiltinLen", "BuiltinAll", "Closure", "Pointer", "Conditional", "Array", "Map", "Pair",
	// a builtin whose closure slot holds an IDENTIFIER: function-typed members of the universe, and (environment of the
	// operator campaign) a pointer to a function, a function of a declared type, a matching plain function
	"BuiltinAllFn", "BuiltinMapId", "BuiltinFilterFast", "BuiltinPF", "BuiltinPred", "BuiltinNPred", "BuiltinCountPF", "BuiltinMapPF"}

func c04Template(kind string) ast.Node {
	i := func(v int) ast.Node { return &ast.IntegerNode{Value: v} }
	id := func(s string) ast.Node { return &ast.IdentifierNode{Value: s} }
	switch kind {
	case "Nil":
		return &ast.NilNode{}
	case "Identifier":
		return id("I")
	case "Integer":
		return i(7)
	case "Float":
		return &ast.FloatNode{Value: 2.5}
	case "Bool":
		return &ast.BoolNode{Value: true}
	case "String":
		return &ast.StringNode{Value: "s"}
	case "Constant":
		return &ast.ConstantNode{Value: 7}
	case "ConstantNil":
		return &ast.ConstantNode{Value: nil}
	case "ConstantSlice":
		return &ast.ConstantNode{Value: []int{1, 2}}
	case "ConstantMap":
		return &ast.ConstantNode{Value: map[int]struct{}{1: {}}}
	case "ConstantFunc":
		return &ast.ConstantNode{Value: func() {}}
	case "ConstantStruct":
		return &ast.ConstantNode{Value: struct{ A []int }{[]int{1}}}
	case "Unary":
		return &ast.UnaryNode{Operator: "-", Node: i(1)}
	case "Binary":
		return &ast.BinaryNode{Operator: "+", Left: i(1), Right: id("I")}
	case "Matches":
		return &ast.MatchesNode{Left: &ast.StringNode{Value: "ab"}, Right: id("S")}
	case "MatchesConst":
		return &ast.MatchesNode{Regexp: regexp.MustCompile("^a"), Left: id("S"), Right: &ast.StringNode{Value: "^a"}}
	case "Property":
		return &ast.PropertyNode{Node: id("St"), Property: "X"}
	case "Index":
		return &ast.IndexNode{Node: id("AI"), Index: i(0)}
	case "Slice":
		return &ast.SliceNode{Node: id("AI"), From: i(0)}
	case "Method":
		return &ast.MethodNode{Node: id("St"), Method: "Get"}
	case "Function":
		return &ast.FunctionNode{Name: "Add", Arguments: []ast.Node{i(1), i(2)}}
	case "FunctionBoom":
		return &ast.FunctionNode{Name: "Boom", Arguments: []ast.Node{i(1)}}
	case "BuiltinLen":
		return &ast.BuiltinNode{Name: "len", Arguments: []ast.Node{id("AI")}}
	case "BuiltinAll":
		return &ast.BuiltinNode{Name: "all", Arguments: []ast.Node{id("AI"), &ast.ClosureNode{Node: &ast.BinaryNode{Operator: ">", Left: &ast.PointerNode{}, Right: i(0)}}}}
	case "BuiltinAllFn":
		return &ast.BuiltinNode{Name: "all", Arguments: []ast.Node{id("AI"), id("IsPos")}}
	case "BuiltinMapId":
		return &ast.BuiltinNode{Name: "map", Arguments: []ast.Node{id("AA"), id("Id")}}
	case "BuiltinFilterFast":
		return &ast.BuiltinNode{Name: "filter", Arguments: []ast.Node{id("AA"), id("Fast")}}
	case "BuiltinPF", "BuiltinPred", "BuiltinNPred", "BuiltinCountPF", "BuiltinMapPF":
		name := map[string]string{"BuiltinPF": "all", "BuiltinPred": "filter", "BuiltinNPred": "any", "BuiltinCountPF": "count", "BuiltinMapPF": "map"}[kind]
		fn := map[string]string{"BuiltinPF": "PF", "BuiltinPred": "Pred", "BuiltinNPred": "NPred", "BuiltinCountPF": "PF", "BuiltinMapPF": "PF"}[kind]
		return &ast.BuiltinNode{Name: name, Arguments: []ast.Node{&ast.ArrayNode{Nodes: []ast.Node{i(1), i(2)}}, id(fn)}}
	case "Closure":
		return &ast.ClosureNode{Node: &ast.BoolNode{Value: true}}
	case "Pointer":
		return &ast.PointerNode{}
	case "Conditional":
		return &ast.ConditionalNode{Cond: id("B"), Exp1: i(1), Exp2: i(2)}
	case "Array":
		return &ast.ArrayNode{Nodes: []ast.Node{i(1), &ast.StringNode{Value: "a"}}}
	case "Map":
		return &ast.MapNode{Pairs: []ast.Node{&ast.PairNode{Key: &ast.StringNode{Value: "k"}, Value: i(1)}}}
	case "Pair":
		return &ast.PairNode{Key: &ast.StringNode{Value: "k"}, Value: i(1)}
	}
	panic("c04: unknown template " + kind)
}

func c04Visitor(spec string) ast.Visitor {
	if spec == "panic" {
		return c04Panicker{}
	}
	// replace:<kind>:<at>
	parts := strings.Split(spec, ":")
	at, _ := strconv.Atoi(parts[2])
	return &c04Replacer{kind: parts[1], at: at}
}

// the map form of the universe environment
func c04MapEnv(e *Env) map[string]interface{} {
	m := map[string]interface{}{}
	v := reflect.ValueOf(e).Elem()
	for i := 0; i < v.NumField(); i++ {
		m[v.Type().Field(i).Name] = v.Field(i).Interface()
	}
	return m
}

// the same names with values of other types than the sample given to expr.Env
func c04WrongMapEnv(e *Env) map[string]interface{} {
	m := c04MapEnv(e)
	for k, v := range m {
		switch v.(type) {
		case int, int8, int16, int32, int64, uint, uint8, uint16, uint32, uint64, float32, float64:
			m[k] = "str"
		case string:
			m[k] = 5
		case bool:
			m[k] = []int{1}
		default:
			rv := reflect.ValueOf(v)
			switch rv.Kind() {
			case reflect.Func:
				m[k] = 42
			case reflect.Slice, reflect.Map:
				m[k] = true
			default:
				m[k] = nil
			}
		}
	}
	return m
}

func (o c04Opts) build(sample *Env) []expr.Option {
	var envOpt []expr.Option
	switch o.Env {
	case "struct":
		envOpt = append(envOpt, expr.Env(sample))
	case "map":
		envOpt = append(envOpt, expr.Env(c04MapEnv(sample)))
	case "ptrmap":
		m := c04MapEnv(sample)
		envOpt = append(envOpt, expr.Env(&m))
	case "opstruct":
		envOpt = append(envOpt, expr.Env(c04OpBase()))
	}
	var rest []expr.Option
	for _, k := range o.order() {
		switch k {
		case 0:
			if o.Allow {
				rest = append(rest, expr.AllowUndefinedVariables())
			}
		case 1:
			if o.Optimize >= 0 {
				rest = append(rest, expr.Optimize(o.Optimize == 1))
			}
		case 2:
			switch o.As {
			case "bool":
				rest = append(rest, expr.AsBool())
			case "int64":
				rest = append(rest, expr.AsInt64())
			case "float64":
				rest = append(rest, expr.AsFloat64())
			}
		case 3:
			if o.Operator != "" {
				rest = append(rest, expr.Operator("+", strings.Split(o.Operator, ",")...))
			}
		case 4:
			if o.Const != "" {
				rest = append(rest, expr.ConstExpr(o.Const))
			}
		case 5:
			for _, p := range o.Patch {
				rest = append(rest, expr.Patch(c04Visitor(p)))
			}
		}
	}
	if o.EnvLast {
		return append(rest, envOpt...)
	}
	return append(envOpt, rest...)
}

func (o c04Opts) order() []int {
	if len(o.Order) == 6 {
		return o.Order
	}
	return []int{0, 1, 2, 3, 4, 5}
}

var c04MemberKind = map[string]string{"Add": "MFunc2", "Inc": "MFunc1", "Boom": "MFunc1", "I": "MNonFunc", "Nope": "MMissing"}

// the option list as `list mopt` of Pipe/Pipeline.v, in application order
func (o c04Opts) coq() string {
	var env []string
	switch o.Env {
	case "struct":
		env = append(env, "MOEnv EnvStruct")
	case "map":
		env = append(env, "MOEnv EnvMap")
	case "ptrmap":
		env = append(env, "MOEnv EnvExotic")
	}
	var rest []string
	for _, k := range o.order() {
		switch k {
		case 0:
			if o.Allow {
				rest = append(rest, "MOFlag")
			}
		case 1:
			if o.Optimize >= 0 {
				rest = append(rest, "MOFlag")
			}
		case 2:
			if o.As != "" {
				rest = append(rest, "MOFlag")
			}
		case 3:
			if o.Operator != "" {
				rest = append(rest, "MOOperator "+c04MemberKind[o.Operator])
			}
		case 4:
			if o.Const != "" {
				rest = append(rest, "MOConstExpr "+c04MemberKind[o.Const])
			}
		case 5:
			for _, p := range o.Patch {
				if p == "panic" {
					rest = append(rest, "MOPatch VPanics")
				} else {
					rest = append(rest, "MOPatch VReplace")
				}
			}
		}
	}
	all := append(env, rest...)
	if o.EnvLast {
		all = append(rest, env...)
	}
	return "[" + strings.Join(all, "; ") + "]"
}

func c04RandOpts(rng *rand.Rand, hist map[string]int) c04Opts {
	o := c04Opts{Optimize: -1}
	switch r := rng.Intn(20); {
	case r < 8:
		o.Env = "struct"
	case r < 14:
		o.Env = "map"
	case r < 15:
		o.Env = "ptrmap"
	}
	o.Allow = rng.Intn(4) == 0
	o.Optimize = rng.Intn(3) - 1
	o.As = []string{"", "", "", "bool", "int64", "float64"}[rng.Intn(6)]
	if rng.Intn(3) == 0 {
		o.Operator = []string{"Add", "Add", "Nope", "I", "Inc"}[rng.Intn(5)]
	}
	if rng.Intn(3) == 0 {
		o.Const = []string{"Add", "Add", "Nope", "I", "Boom", "Inc"}[rng.Intn(6)]
	}
	switch rng.Intn(6) {
	case 0, 1:
		n := 1 + rng.Intn(2)
		for i := 0; i < n; i++ {
			at := rng.Intn(8)
			if rng.Intn(5) == 0 {
				at = -1
			}
			o.Patch = append(o.Patch, fmt.Sprintf("replace:%s:%d", c04TemplateKinds[rng.Intn(len(c04TemplateKinds))], at))
		}
	case 2:
		if rng.Intn(3) == 0 {
			o.Patch = append(o.Patch, "panic")
			if rng.Intn(2) == 0 {
				o.Patch = append([]string{fmt.Sprintf("replace:%s:%d", c04TemplateKinds[rng.Intn(len(c04TemplateKinds))], rng.Intn(4))}, o.Patch...)
			}
		}
	}
	if rng.Intn(4) == 0 {
		o.Order = rng.Perm(6)
	}
	o.EnvLast = o.Env != "" && rng.Intn(12) == 0
	o.note(hist)
	return o
}

func (o c04Opts) note(hist map[string]int) {
	if hist == nil {
		return
	}
	hist["opt Env="+map[string]string{"": "none", "struct": "struct", "map": "map", "ptrmap": "pointer-to-map"}[o.Env]]++
	if o.Allow {
		hist["opt AllowUndefinedVariables"]++
	}
	hist[fmt.Sprintf("opt Optimize=%d", o.Optimize)]++
	if o.As != "" {
		hist["opt As="+o.As]++
	}
	if o.Operator != "" {
		hist["opt Operator="+o.Operator]++
	}
	if o.Const != "" {
		hist["opt ConstExpr="+o.Const]++
	}
	for _, p := range o.Patch {
		if p == "panic" {
			hist["opt Patch=panicking visitor"]++
		} else {
			hist["opt Patch=replace "+strings.Split(p, ":")[1]]++
		}
	}
	if len(o.Patch) == 0 {
		hist["opt Patch=none"]++
	}
	if o.EnvLast {
		hist["opt Env applied last"]++
	}
}

func (o c04Opts) hasPanickingVisitor() bool {
	for _, p := range o.Patch {
		if p == "panic" {
			return true
		}
	}
	return false
}

// ---------------------------------------------------------------- environments for Run / Eval
type c04Foreign struct{ Z int }

func c04RunEnvs(base, zero, boundary *Env) ([]string, map[string]interface{}) {
	m := map[string]interface{}{
		"base": base, "zero": zero, "boundary": boundary,
		"map": c04MapEnv(base), "mapzero": c04MapEnv(zero), "mapwrong": c04WrongMapEnv(base),
		"nil": nil, "int": 42, "foreign": c04Foreign{1}, "emptymap": map[string]interface{}{},
	}
	m["opbase"], m["opzero"] = c04OpBase(), &c04OpEnv{}
	bad := baseEnv()
	bad.S2, bad.S = "a(c", "[z-a]"
	m["badre"] = bad
	names := []string{"base", "zero", "boundary", "map", "mapzero", "mapwrong", "nil", "int", "foreign", "emptymap"}
	return names, m
}

// ---------------------------------------------------------------- cost estimate (watchdog hygiene)
// The library makes no time promise: d nested builtins over collections of size n take n^d steps and
// constant ranges are free at run time.  Inputs whose estimated step count is large are compiled
// but not run, so that the wall-clock bound means something.
func c04IntLit(n ast.Node) (int, bool) {
	switch v := n.(type) {
	case *ast.IntegerNode:
		return v.Value, true
	case *ast.UnaryNode:
		if x, ok := c04IntLit(v.Node); ok {
			if v.Operator == "-" {
				return -x, true
			}
			if v.Operator == "+" {
				return x, true
			}
		}
	}
	return 0, false
}

func c04Size(n ast.Node) float64 {
	switch v := n.(type) {
	case *ast.BinaryNode:
		if v.Operator == ".." {
			lo, ok1 := c04IntLit(v.Left)
			hi, ok2 := c04IntLit(v.Right)
			if ok1 && ok2 {
				if hi < lo {
					return 0
				}
				return float64(hi) - float64(lo) + 1
			}
			return 1000
		}
	case *ast.ArrayNode:
		return float64(len(v.Nodes))
	case *ast.BuiltinNode:
		if len(v.Arguments) > 0 && (v.Name == "map" || v.Name == "filter") {
			return c04Size(v.Arguments[0])
		}
	case *ast.ConditionalNode:
		a, b := c04Size(v.Exp1), c04Size(v.Exp2)
		if a > b {
			return a
		}
		return b
	case *ast.StringNode:
		return float64(len(v.Value))
	}
	return 16
}

func c04Cost(n ast.Node) float64 {
	if n == nil || reflect.ValueOf(n).IsNil() {
		return 0
	}
	c := 1.0
	if b, ok := n.(*ast.BuiltinNode); ok && len(b.Arguments) == 2 {
		return c + c04Cost(b.Arguments[0]) + (c04Size(b.Arguments[0])+1)*c04Cost(b.Arguments[1])
	}
	for _, ch := range c11children(n) {
		c += c04Cost(ch)
	}
	if c > 1e18 {
		c = 1e18
	}
	return c
}

const c04CostLimit = 2e5

// ---------------------------------------------------------------- the oracle
type c04Input struct {
	Src  string  `json:"src,omitempty"`
	Gen  string  `json:"gen,omitempty"` // generated source: name of a deep-nesting family member
	N    int     `json:"n,omitempty"`
	Opts c04Opts `json:"opts"`
	Env  string  `json:"run_env,omitempty"`
	Call string  `json:"call"` // parse | compile | run | eval
}

func (in c04Input) source() string {
	if in.Gen != "" {
		return c04Deep(in.Gen, in.N)
	}
	return in.Src
}

func (in c04Input) short() interface{} {
	if len(in.Src) > 300 {
		cp := in
		cp.Src = in.Src[:300] + fmt.Sprintf("...(%d bytes)", len(in.Src))
		return cp
	}
	return in
}

type c04Oracle struct {
	rep      *Report
	base     *Env
	zero     *Env
	boundary *Env
	envNames []string
	envs     map[string]interface{}
	distinct map[string]bool
}

func (o *c04Oracle) replayArg(in c04Input) string {
	b, _ := json.Marshal(in)
	return string(b)
}

func (o *c04Oracle) fail(key, what string, in c04Input, want, got string) {
	o.rep.fail(Failure{Key: key, What: what, Input: in.short(), Want: want, Got: got, Replay: o.replayArg(in)})
}

// classify a panic / hang / shape problem of one call; returns the outcome class
func (o *c04Oracle) judge(stage string, in c04Input, r c04Res, needResult bool) string {
	in.Call = stage
	o.rep.Evaluations++
	o.rep.hist(stage + " " + r.cls)
	switch r.cls {
	case "skipped":
		return "skipped"
	case "hang":
		o.fail("C04-"+stage+"-hang", stage+" did not return within the time bound (measured twice)", in,
			"returns a result or an error", fmt.Sprintf("no return after %v", r.dur))
		return "hang"
	case "panic":
		key := "C04-" + stage + "-panic"
		msg := fmt.Sprint(r.pval)
		switch {
		case stage == "compile" && msg == c04VisitorPanic:
			key = "C04-compile-visitor-panic"
		case stage == "compile" && in.Opts.Env == "ptrmap" && strings.Contains(msg, "reflect.Value.MapKeys"):
			key = "C04-option-env-pointer-to-map"
		}
		if len(msg) > 200 {
			msg = msg[:200]
		}
		o.fail(key, stage+" panicked", in, "a result or a non-nil error", "panic: "+msg)
		return "panic"
	case "err":
		if !c04IsNil(r.val) {
			o.fail("C04-"+stage+"-shape", stage+" returned a result together with an error", in, "nil with the error", fmt.Sprintf("%T and error %v", r.val, r.err))
		}
	case "ok":
		if needResult && c04IsNil(r.val) {
			o.fail("C04-"+stage+"-shape", stage+" returned neither a result nor an error", in, "a result", "nil, nil")
		}
	}
	return r.cls
}

func c04ParseCall(src string) func() (interface{}, error) {
	return func() (interface{}, error) {
		t, err := parser.Parse(src)
		if t == nil {
			return nil, err
		}
		return t, err
	}
}

func c04CompileCall(src string, ops func() []expr.Option) func() (interface{}, error) {
	return func() (interface{}, error) {
		p, err := expr.Compile(src, ops()...)
		if p == nil {
			return nil, err
		}
		return p, err
	}
}

// run a compiled program on the environments; returns the classes observed
func (o *c04Oracle) runAll(in c04Input, prog *vm.Program, envNames []string) []string {
	var classes []string
	for _, en := range envNames {
		in2 := in
		in2.Env = en
		env := o.envs[en]
		r := c04Guard(func() (interface{}, error) { return expr.Run(prog, env) })
		classes = append(classes, o.judge("run", in2, r, false))
	}
	return classes
}

func c04Cls(c string) string {
	switch c {
	case "ok":
		return "KOk"
	case "err":
		return "KErr"
	}
	return "KPanic"
}

// ---------------------------------------------------------------- oracle tables for the Coq cases
func c04Tabs(src string) (res string, ok bool) {
	defer func() {
		// a panicking lexer is judged where the library call is made under the guard, not here
		if r := recover(); r != nil {
			res, ok = "", false
		}
	}()
	text := string([]rune(src))
	toks, err := lexer.Lex(file.NewSource(text))
	var floats, badre []string
	if err == nil {
		seenF, seenR := map[string]bool{}, map[string]bool{}
		for _, t := range toks {
			switch t.Kind {
			case lexer.Number:
				v := strings.Replace(t.Value, "_", "", -1)
				if strings.ContainsAny(v, "xX") || !strings.ContainsAny(v, ".eE") || seenF[v] {
					continue
				}
				if f, err := strconv.ParseFloat(v, 64); err == nil {
					seenF[v] = true
					floats = append(floats, "("+cqStr(v)+", "+coqFloat(f)+")")
				}
			case lexer.String:
				if seenR[t.Value] {
					continue
				}
				if _, err := regexp.Compile(t.Value); err != nil {
					seenR[t.Value] = true
					badre = append(badre, cqStr(t.Value))
				}
			}
		}
	}
	return "(mkTabs " + coqClasses(text) + " [" + strings.Join(floats, "; ") + "] [" + strings.Join(badre, "; ") + "])", true
}

func c04Runes(src string) string {
	rs := []rune(src)
	parts := make([]string, len(rs))
	for i, r := range rs {
		parts[i] = strconv.Itoa(int(r))
	}
	return "[" + strings.Join(parts, ";") + "]"
}

func c04Note(src string) string {
	s := strings.Map(func(r rune) rune {
		if r < 32 || r > 126 || r == '"' {
			return '.'
		}
		return r
	}, src)
	s = strings.ReplaceAll(strings.ReplaceAll(s, "*)", "* )"), "(*", "( *")
	if len(s) > 80 {
		s = s[:80]
	}
	return s
}

// ---------------------------------------------------------------- byte-string generators
var c04Alphabet = []string{"1", "0", "7", "1.5", ".5", "1e3", "0x1f", "0b1", "a", "b", "I", "S", "AI", "nil", "true", "false", "not", "in", "and", "or",
	"matches", "contains", "len", "map", "filter", "all", "count", "Add", "Boom", "+", "-", "*", "/", "%", "**", "==", "!=", "<", ">", "<=", ">=", "..", ".", "?.",
	"?", ":", ",", "(", ")", "[", "]", "{", "}", "#", "!", "&&", "||", "\"a\"", "'b'", "\"", "'", "\\", " ", "\t", "\n", "é", "\xff", "\xc3", "_", "$", "|", "&", "=", "~", "`", "@"}

func c04Mutate(rng *rand.Rand, s string) string {
	b := []byte(s)
	switch rng.Intn(8) {
	case 7: // a line break (LF, CR, CRLF) or a quoted literal containing one, anywhere (also inside a literal)
		p := rng.Intn(len(b) + 1)
		ins := []string{"\n", "\r", "\r\n", "\"\r\n\"", "'\r\n'", "\"x\r\n", "\r\n\""}[rng.Intn(7)]
		b = append(b[:p], append([]byte(ins), b[p:]...)...)
	case 0: // truncate
		if len(b) > 0 {
			b = b[:rng.Intn(len(b))]
		}
	case 1: // replace one byte
		if len(b) > 0 {
			b[rng.Intn(len(b))] = byte(rng.Intn(256))
		}
	case 2: // insert one byte
		p := rng.Intn(len(b) + 1)
		b = append(b[:p], append([]byte{byte(rng.Intn(256))}, b[p:]...)...)
	case 3: // delete one byte
		if len(b) > 0 {
			p := rng.Intn(len(b))
			b = append(b[:p], b[p+1:]...)
		}
	case 4: // insert a token
		p := rng.Intn(len(b) + 1)
		tok := c04Alphabet[rng.Intn(len(c04Alphabet))]
		b = append(b[:p], append([]byte(tok), b[p:]...)...)
	case 5: // duplicate a slice
		if len(b) > 1 {
			i := rng.Intn(len(b))
			j := i + rng.Intn(len(b)-i)
			b = append(b[:j], append(append([]byte{}, b[i:j]...), b[j:]...)...)
		}
	case 6: // drop the tail from a random quote / bracket on
		if i := bytes.IndexAny(b, "\"'([{"); i >= 0 {
			b = b[:i+1+rng.Intn(len(b)-i)]
		}
	}
	return string(b)
}

var c04Fixed = []string{"\"'\r\n\"", "'\r\n'", "\"\r\n\"", "\"a\r\n\"", "\"a\r\nb\"", "'a\r\n", "\"\r\n", "'\n'", "'\r'", "\"\\\r\n\"", "S == \"foo\r\n\"", "\"\r\n\r\n\"", "'\r\n' + '\r\n'", "\"\r\r\n\"", "'x\r\n", "\"\r\n'",
	"", " ", "\x00", "\xff\xfe", "\"", "'", "\"\\", "'\\'", "\"\\x", "\"\\x4", "\"\\u12", "\"\\U0010FFFF\"", "\"\\U00110000\"", "\"\\400\"", "\"\\777\"",
	"\"a\nb\"", "\"a\rb\"", "'\\'", "\"\\q\"", "1e", "1e+", "1.", "1..", "1...", "..1", ".", "..", "...", "0x", "0xg", "0b2", "0o8", "1_", "_1", "1__2", "1e1e1", "1.2.3", "0x1p3",
	"9223372036854775807", "9223372036854775808", "-9223372036854775808", "0x7fffffffffffffff", "0x8000000000000000", "1e308", "1e309", "1e-400", strings.Repeat("9", 400), "1e" + strings.Repeat("9", 40),
	"0." + strings.Repeat("0", 400) + "1", "nil", "nil.a", "nil?.a", "nil[0]", "nil()", "#", ".", "#.a", ".a", "a.#", "a..b", "a...b", "not", "not in", "1 not in", "1 not  in [1]", "1 not\tin [1]",
	"in", "1 in", "matches", "'a' matches", "'a' matches '('", "'a' matches '[a'", "'a' matches 1", "1 matches 'a'", "a ? b", "a ? : b", "a ?: b", "a ? b :", "? :", "a ?. b", "a?.", "a?.1", "a.1",
	"a.not", "a.in", "a.matches()", "f(", "f(,", "f(1,", "f(1,)", "f(,1)", "f()()", "f()[0]", "[", "[,", "[1,", "[1,]", "[,1]", "[1 2]", "{", "{a", "{a:", "{a:1", "{a:1,", "{a:1,}", "{,}", "{a:1,,}", "{1:2}",
	"{(1+2):3}", "{[1]:2}", "{nil:1}", "{true:1}", "len", "len(", "len()", "len(1,2)", "all(a)", "all(a,)", "all(a,b)", "all(a,{})", "all(a,{#})", "map(a,{", "map(a,{#}", "filter(1,{true})", "count(nil,{true})",
	"len(nil)", "all(AI,{.})", "all(AI,{.X})", "all(AI,{#.X})", "map(AI,{{a:#}})", "a[", "a[]", "a[:", "a[:]", "a[::]", "a[1:2:3]", "a[:1]", "a[1:]", "a[nil:nil]", "a['x':]", "1[0]", "'abc'[1:2]", "'abc'[5:1]",
	"-", "--", "-+-+1", "!", "!!true", "not not true", "+", "1 +", "+ 1", "1 + + 2", "1 ++ 2", "1 ** ** 2", "1 *** 2", "1 === 2", "1 =< 2", "1 <> 2", "1 & 2", "1 | 2", "1 = 2", "a := 1", "a;b", "a b",
	"1 / 0", "1 % 0", "1.0 / 0", "0 ** -1", "I / 0", "I % 0", "2 ** 1000", "(1)", "()", "(", ")", "((1)", "(1))", "(,)", "é", "é + 1", "日本語", "a\u00a0b", "a\u2028b", "\ufeff1", "１", "٣", "a٣", "$a", "_", "$", "a$b",
	"Twice(1, 2)", "Twice()", "Twice(1, 2, 3)", "PtrM(1, 2)", "PtrM()", "St.Get(1)", "St.Get(1, 2)", "P.Get(1)", "St.Next.Get(2)", "P?.Get(1)", "Twice(Twice(1, 2))", "[Twice(1, 2)]", "Add(1, 2, 3)", "Inc(1, 2)", "Inc()",
	"true()", "nil.x()", "1.x", "1.5.x", "'a'.x", "a.b.c.d()", "a?.b?.c?.d", "Boom(1)", "Boom(Boom(1))", "Add(Boom(1), 2)", "Add(1)", "Add(1,2,3)", "Add('a','b')", "Add(nil,nil)", "Inc(nil)", "Sum()", "Sum(1,'a')",
	"Fast()", "Fast(nil)", "Id(nil)", "Id(Boom)", "Half(1)", "Half('a')", "Twice(1)", "PtrM(1)", "P.Get()", "P.Next.Next.Next.X", "St.Next.Get()", "Any.foo", "Any?.foo", "Any.foo()", "Any?.foo()", "MA.k.z", "MI.a.b",
	"AI[10]", "AI[-1]", "AI[I64]", "AS['a']", "MI[1]", "MA[nil]", "AA[AA]", "1..0", "1..I64", "I64..1", "-1..-5", "1..1e3", "'a'..'b'", "nil..nil", "len(1..1000000)", "len(1..1000001)", "map(1..3, {1..3})",
	"1 in nil", "nil in nil", "1 in 1", "'a' in 'abc'", "'a' in St", "1 in St", "St in St", "AI in AI", "[1] in [[1]]", "{a:1} == {a:1}", "[1] == [1]", "Add == Add", "Boom != nil", "St == St", "P == P",
	"true ? 1", "1 ? 2 : 3", "nil ? 1 : 2", "'a' ? 1 : 2", "B ? Boom(1) : 2", "B2 ? Boom(1) : 2", "true or Boom(1)", "false and Boom(1)", "false or Boom(1)", "true || 1", "1 || true", "nil and nil",
	"-'a'", "-nil", "-true", "not 1", "!nil", "+'a'", "-AI", "-(-(-I))", "I8 + U64", "F32 * I64", "U64 - 1", "I64 * I64", "U8 / 0", "F64 % 2", "S + 1", "1 + S", "S + S2 + 1", "AI + AI", "MI + 1",
	"S contains 1", "1 startsWith 'a'", "nil endsWith nil", "S matches S", "S matches '('", "S matches AI", "len(S matches 'a')",
	// patterns that only become ONE string literal by constant folding (the parser never saw them as a literal): valid, invalid,
	// invalid only after the concatenation, nested, under a builtin, as the subject
	"'x' matches '(' + 'a'", "S matches '(' + 'a'", "S matches '[' + 'a'", "S matches 'a' + '('", "S matches '(' + 'a' + ')'", "S matches '(' + ('a' + ')')", "S matches ('(' + 'a') + 'b'",
	"S matches '^' + 's'", "S matches '*' + 'a'", "S matches 'a' + '**'", "S matches '\\\\' + ''", "S matches 'a{2' + ',1}'", "all(AS, {# matches '(' + 'a'})", "('(' + 'a') matches 'a'",
	"not (S matches '(' + '?')", "(S matches ')' + '(') or true", "B ? S matches '(' + 'a' : false", "S matches '(?P<n' + '>a'", "S matches '[[:foo' + ':]]'", "S matches '\\\\p{Foo' + '}'"}

// operands WITHOUT a static type (the literal nil, conditionals of nils, nil-safe accesses of unknown members) under every
// binary operator, membership in every kind of literal array / range, and every postfix form: each stage that asks such
// an operand for its type has to cope with "no type"
func init() {
	lefts := []string{"nil", "(B ? nil : nil)", "P?.Zz", "St?.Nick", "Zz?.Nick", "P?.Next?.Zz", "(nil)", "[nil][0]"}
	rights := []string{`["a", "b"]`, `["a"]`, "[1, 2]", `[1, "a"]`, "[]", "[nil]", "1..3", "AS", "AI", "MI", `"abc"`, "nil", `{"a": 1}`, "[1.5]", "[true]"}
	for _, l := range lefts {
		for _, r := range rights {
			c04Fixed = append(c04Fixed, l+" in "+r, l+" not in "+r)
		}
		for _, tail := range []string{` matches "a"`, ` contains "a"`, ` startsWith "a"`, ` endsWith "a"`, " + 1", " - 1", " * 2", " / 2", " % 2", " ** 2", " == nil", " != 1", " < 1", " >= 1",
			" and true", " or false", " ? 1 : 2", "[0]", "[1:2]", ".x", "?.x", ".x()", "?.x()", "..3", ` + "s"`} {
			c04Fixed = append(c04Fixed, l+tail)
		}
		for _, head := range []string{"-", "!", "not ", "+", "len(", "all(", "1 + ", `"a" matches `, "1..", "AI[", "Add(1, "} {
			closer := map[string]string{"len(": ")", "all(": ", {true})", "AI[": "]", "Add(1, ": ")"}[head]
			c04Fixed = append(c04Fixed, head+l+closer)
		}
	}
}

// deep nesting at the 64 KiB limit: name -> source
var c04DeepFamilies = []string{"minus", "paren", "dots", "plus", "closures", "unterminated", "digits", "brackets", "not", "plusid", "cond", "calls", "index", "maps", "floatdigits", "string", "strcat", "random", "spaces", "quotes"}

func c04Deep(name string, n int) string {
	rep := strings.Repeat
	switch name {
	case "minus":
		return rep("-", n) + "1"
	case "paren":
		return rep("(", n) + "1" + rep(")", n)
	case "not":
		return rep("not ", n) + "true"
	case "dots":
		return "a" + rep(".b", n)
	case "plus":
		return "1" + rep("+1", n)
	case "plusid":
		return "I" + rep("+I", n)
	case "brackets":
		return rep("[", n) + rep("]", n)
	case "cond":
		return "B" + rep("?1:B", n) + "?1:2"
	case "closures":
		return rep("map(AI,{", n) + "#" + rep("})", n)
	case "calls":
		return rep("Id(", n) + "1" + rep(")", n)
	case "index":
		return "AI" + rep("[AI", n) + "[0]" + rep("]", n)
	case "maps":
		return rep("{a:", n) + "1" + rep("}", n)
	case "digits":
		return rep("9", n)
	case "floatdigits":
		return rep("9", n/2) + "." + rep("9", n/2)
	case "string":
		return "\"" + rep("\\u00e9x", n) + "\""
	case "unterminated":
		return "\"" + rep("a", n)
	case "strcat":
		return rep("\"a\"+", n) + "\"a\""
	case "random":
		rng := rand.New(rand.NewSource(int64(n)))
		b := make([]byte, n)
		for i := range b {
			b[i] = byte(rng.Intn(256))
		}
		return string(b)
	case "spaces":
		return rep(" \t\n", n) + "1"
	case "quotes":
		return rep("'a' ", n)
	}
	return ""
}

// sizes that put each family at (just under) the 64 KiB limit
func c04DeepSize(name string) int {
	switch name {
	case "minus":
		return 60000
	case "paren":
		return 30000
	case "not":
		return 16000
	case "dots", "plus", "maps":
		return 16000
	case "plusid":
		return 30000
	case "brackets":
		return 32000
	case "cond":
		return 15000
	case "closures":
		return 6000
	case "calls":
		return 15000
	case "index":
		return 12000
	case "digits", "floatdigits":
		return 60000
	case "string":
		return 9000
	case "unterminated":
		return 65000
	case "strcat":
		return 16000
	case "random":
		return 65536
	case "spaces":
		return 21000
	case "quotes":
		return 16000
	}
	return 1000
}

// ---------------------------------------------------------------- child process for the deep family
type c04ChildResult struct {
	Stage string `json:"stage"`
	Cls   string `json:"cls"`
	Shape string `json:"shape"`
	Msg   string `json:"msg"`
	MS    int64  `json:"ms"`
}

// runs Parse, Compile (no options), Compile (Env struct), Eval on one input; prints JSON lines
func c04Child(in c04Input) {
	src := in.source()
	base := baseEnv()
	emit := func(stage string, r c04Res, needResult bool) {
		cr := c04ChildResult{Stage: stage, Cls: r.cls, MS: r.dur.Milliseconds()}
		if r.cls == "panic" {
			cr.Msg = fmt.Sprint(r.pval)
			if len(cr.Msg) > 200 {
				cr.Msg = cr.Msg[:200]
			}
		}
		if r.cls == "err" && !c04IsNil(r.val) {
			cr.Shape = "result together with an error"
		}
		if r.cls == "ok" && needResult && c04IsNil(r.val) {
			cr.Shape = "neither result nor error"
		}
		b, _ := json.Marshal(cr)
		fmt.Println(string(b))
	}
	r := c04GuardLenient("parse", c04ParseCall(src))
	emit("parse", r, true)
	if r.cls == "hang" {
		return
	}
	runnable := false
	if r.cls == "ok" {
		runnable = c04Cost(r.val.(*parser.Tree).Node) <= c04CostLimit
	}
	for _, ops := range []c04Opts{{Optimize: -1}, {Env: "struct", Optimize: -1}} {
		ops := ops
		rc := c04GuardLenient("compile", c04CompileCall(src, func() []expr.Option { return ops.build(base) }))
		emit("compile", rc, true)
		if rc.cls == "hang" {
			return
		}
		if rc.cls == "ok" && runnable {
			prog := rc.val.(*vm.Program)
			rr := c04GuardLenient("run", func() (interface{}, error) { return expr.Run(prog, base) })
			emit("run", rr, false)
			if rr.cls == "hang" {
				return
			}
		}
	}
	if runnable || r.cls != "ok" {
		emit("eval", c04GuardLenient("eval", func() (interface{}, error) { return expr.Eval(src, base) }), false)
	}
}

func (o *c04Oracle) deepInChild(name string, n int, box time.Duration, strict bool) {
	in := c04Input{Gen: name, N: n, Opts: c04Opts{Optimize: -1}}
	arg, _ := json.Marshal(in)
	exe, err := os.Executable()
	if err != nil {
		exe = os.Args[0]
	}
	dir := filepath.Join(*outDir, "child")
	os.MkdirAll(dir, 0755)
	cmd := exec.Command(exe, "c04", "-out", dir, "-replay", string(arg))
	var stdout, stderr bytes.Buffer
	cmd.Stdout, cmd.Stderr = &stdout, &stderr
	done := make(chan error, 1)
	t0 := time.Now()
	if err := cmd.Start(); err != nil {
		o.rep.hist("deep child could not start")
		return
	}
	go func() { done <- cmd.Wait() }()
	var werr error
	select {
	case werr = <-done:
	case <-time.After(box):
		cmd.Process.Kill()
		<-done
		if strict {
			o.rep.Evaluations++
			o.fail("C04-deep-hang", fmt.Sprintf("the child process running the input did not finish in %v", box), in, "returns", "killed")
		} else {
			o.rep.hist("deep family child not finished within the quick time box (machine under load)")
		}
		return
	}
	o.rep.hist("deep family " + name)
	o.rep.Extra["deep "+name+" ms"] = time.Since(t0).Milliseconds()
	seen := 0
	for _, line := range strings.Split(stdout.String(), "\n") {
		var cr c04ChildResult
		if json.Unmarshal([]byte(line), &cr) != nil || cr.Stage == "" {
			continue
		}
		seen++
		o.rep.Evaluations++
		o.rep.hist(cr.Stage + " " + cr.Cls)
		if cr.Cls != "hang" && cr.MS > c04Limit.Milliseconds() {
			o.rep.hist("slow call at the 64 KiB limit (returned after more than 2 s)")
			o.rep.Extra["slow "+name+" "+cr.Stage] = fmt.Sprintf("%d ms", cr.MS)
		}
		in2 := in
		in2.Call = cr.Stage
		switch {
		case cr.Cls == "panic":
			o.fail("C04-"+cr.Stage+"-panic", cr.Stage+" panicked", in2, "a result or a non-nil error", "panic: "+cr.Msg)
		case cr.Cls == "hang":
			o.fail("C04-"+cr.Stage+"-hang", cr.Stage+" did not return within 45 s", in2, "returns", fmt.Sprintf("no return after %d ms", cr.MS))
		case cr.Shape != "":
			o.fail("C04-"+cr.Stage+"-shape", cr.Stage+": "+cr.Shape, in2, "(result == nil) == (err != nil)", cr.Shape)
		}
	}
	if werr != nil || seen == 0 {
		msg := stderr.String()
		if i := strings.Index(msg, "fatal error:"); i >= 0 {
			msg = msg[i:]
		}
		if len(msg) > 300 {
			msg = msg[:300]
		}
		o.rep.Evaluations++
		o.fail("C04-deep-fatal", "the process died on this input (a fatal runtime error cannot be recovered)", in, "returns a result or an error", fmt.Sprintf("exit %v: %s", werr, msg))
	}
}

// ---------------------------------------------------------------- compile-time memory
// expr.Compile materialises every constant range literal: 8 bytes per element for each occurrence.
func (o *c04Oracle) memoryProbe() {
	const k = 12
	src := "[" + strings.Repeat("1..1000000,", k) + "1]"
	in := c04Input{Src: src, Opts: c04Opts{Optimize: -1}, Call: "compile"}
	var m0, m1 runtime.MemStats
	runtime.GC()
	runtime.ReadMemStats(&m0)
	r := c04GuardLenient("compile (memory probe)", c04CompileCall(src, func() []expr.Option { return nil }))
	runtime.ReadMemStats(&m1)
	o.rep.Evaluations++
	o.rep.hist("compile " + r.cls)
	alloc := float64(m1.TotalAlloc - m0.TotalAlloc)
	perByte := alloc / float64(len(src))
	at64k := perByte * 65536
	o.rep.Extra["compile alloc bytes per input byte (constant ranges)"] = int64(perByte)
	o.rep.Extra["compile alloc extrapolated to 64 KiB input, GiB"] = fmt.Sprintf("%.1f", at64k/(1<<30))
	if at64k > 4*(1<<30) {
		o.fail("C04-compile-memory-exhaustion", "expr.Compile allocates memory out of all proportion to the input: every constant range literal is materialised (8 bytes per element)", in,
			"an error, or memory proportional to the input", fmt.Sprintf("%d-byte input allocated %.0f MB; a 64 KiB input of the same shape needs %.1f GiB (process killed)", len(src), alloc/(1<<20), at64k/(1<<30)))
	}
	runtime.GC()
}

// ---------------------------------------------------------------- main
func runC04() {
	if *replay != "" {
		var in c04Input
		if err := json.Unmarshal([]byte(*replay), &in); err != nil {
			fmt.Fprintln(os.Stderr, "bad -replay:", err)
			os.Exit(2)
		}
		if in.Gen != "" && in.Call == "" {
			c04Child(in)
			return
		}
		c04Replay(in)
		return
	}
	rep := newReport("C04")
	rng := rand.New(rand.NewSource(*seed))
	base, zero, boundary := baseEnv(), zeroEnv(), boundaryEnv()
	envNames, envs := c04RunEnvs(base, zero, boundary)
	o := &c04Oracle{rep: rep, base: base, zero: zero, boundary: boundary, envNames: envNames, envs: envs, distinct: map[string]bool{}}
	thorough := *tier == "thorough"
	nGram, nOptsPer, nBytes, nEvalCases, nCompileCases, nParseCases := 1400, 3, 7000, 220, 360, 420
	if thorough {
		nGram, nOptsPer, nBytes, nEvalCases, nCompileCases, nParseCases = 12000, 4, 120000, 3000, 5000, 6000
	}
	var cases []string
	coqEnvs := []*Env{base, zero, boundary}
	coqEnvName := []string{"base", "zero", "boundary"}

	// ---- (i) grammatical sources x option sets x environments
	g := &egen{rng: rng, wrong: 100, hist: rep.Histogram}
	var srcs []string
	srcs = append(srcs, "Add(1, 2)", "Boom(1)", "Inc(Boom(1))", "Boom(I)", "Add(1, 2) + Add(3, 4)", "Add(Add(1, 2), 3)", "1 + 2", "I + 1", "S + S2", "1 + 2 + I", "nil", "[1, 2] + [3]",
		"AI[0] + 1", "all(AI, {# + 1 > 0})", "map(AI, {# + I})", "1 + 'a'", "Add(1, 'a')", "Boom('a')", "Inc(1) + Inc(2)", "I in 1..3", "1 in [1, 2]", "'a' in ['a']", "len(1..3) + 1", "nil + nil", "B ? 1 + 2 : 3")
	ex := exhaustiveExprs(1)
	rng.Shuffle(len(ex), func(i, j int) { ex[i], ex[j] = ex[j], ex[i] })
	nEx := 500
	if thorough {
		nEx = len(ex)
	}
	if nEx > len(ex) {
		nEx = len(ex)
	}
	srcs = append(srcs, ex[:nEx]...)
	var genSrcs []string
	for i := 0; i < nGram; i++ {
		t := []gtype{tBool, tInt, tNum, tStr, tArrInt, tArrAny, tAny, tMapA}[rng.Intn(8)]
		s := g.expr(t, 1+rng.Intn(4))
		genSrcs = append(genSrcs, s)
	}
	srcs = append(srcs, genSrcs...)

	structRun := []string{"base", "zero", "boundary", "nil", "mapwrong", "int", "foreign"}
	mapRun := []string{"map", "mapzero", "mapwrong", "emptymap", "nil", "base"}
	noneRun := []string{"base", "zero", "map", "mapwrong", "nil", "int"}
	evalEnvs := []string{"base", "zero", "boundary", "map", "mapwrong", "nil"}

	// systematic sweep: every value of every option dimension at least once, on the first seeds
	var sweep []c04Opts
	for _, e := range []string{"", "struct", "map", "ptrmap"} {
		sweep = append(sweep, c04Opts{Env: e, Optimize: -1})
		sweep = append(sweep, c04Opts{Env: e, Optimize: -1, Allow: true})
		for _, op := range []string{"Add", "Nope", "I", "Inc"} {
			sweep = append(sweep, c04Opts{Env: e, Optimize: 1, Operator: op})
		}
		for _, cn := range []string{"Add", "Nope", "I", "Boom", "Inc"} {
			sweep = append(sweep, c04Opts{Env: e, Optimize: 1, Const: cn})
			sweep = append(sweep, c04Opts{Env: e, Optimize: 1, Const: cn, EnvLast: e != ""})
		}
		for _, as := range []string{"bool", "int64", "float64"} {
			sweep = append(sweep, c04Opts{Env: e, Optimize: 0, As: as})
		}
		for _, k := range c04TemplateKinds {
			sweep = append(sweep, c04Opts{Env: e, Optimize: 1, Patch: []string{"replace:" + k + ":0"}})
			sweep = append(sweep, c04Opts{Env: e, Optimize: -1, Patch: []string{"replace:" + k + ":-1"}})
		}
		sweep = append(sweep, c04Opts{Env: e, Optimize: -1, Patch: []string{"panic"}})
	}

	compileOne := func(src string, ops c04Opts, wantCase bool) {
		in := c04Input{Src: src, Opts: ops}
		r := c04Guard(c04CompileCall(src, func() []expr.Option { return ops.build(base) }))
		cls := o.judge("compile", in, r, true)
		if cls == "skipped" {
			return
		}
		key := src + "|" + ops.String()
		if len(src) > 3 {
			o.distinct[key] = true
		}
		var runs []string
		if cls == "ok" {
			prog := r.val.(*vm.Program)
			names := noneRun
			switch ops.Env {
			case "struct":
				names = structRun
			case "map", "ptrmap":
				names = mapRun
			}
			runs = o.runAll(in, prog, names)
		}
		if wantCase {
			if tabs, ok := c04Tabs(src); ok && len([]rune(src)) <= 160 {
				rc := make([]string, 0, len(runs))
				for _, c := range runs {
					if c != "skipped" {
						rc = append(rc, c04Cls(c))
					}
				}
				cases = append(cases, fmt.Sprintf("CaseCompile %s %s %s %s [%s] (* %s | %s *)", c04Runes(src), tabs, ops.coq(), c04Cls(cls), strings.Join(rc, "; "), c04Note(src), c04Note(ops.String())))
			}
		}
	}

	nCompile := 0
	for i, src := range srcs {
		// Parse
		rp := c04Guard(c04ParseCall(src))
		o.judge("parse", c04Input{Src: src}, rp, true)
		// Compile under option sets
		var optsets []c04Opts
		if i < len(sweep) {
			optsets = append(optsets, sweep[i])
		}
		if i < 40 {
			// the first seeds meet the whole sweep in turn
			for k := 0; k < 12; k++ {
				optsets = append(optsets, sweep[(i*12+k)%len(sweep)])
			}
		}
		for k := 0; k < nOptsPer; k++ {
			optsets = append(optsets, c04RandOpts(rng, rep.Histogram))
		}
		for _, ops := range optsets {
			compileOne(src, ops, nCompile < nCompileCases)
			nCompile++
		}
		// Eval
		for _, en := range evalEnvs {
			env := envs[en]
			r := c04Guard(func() (interface{}, error) { return expr.Eval(src, env) })
			o.judge("eval", c04Input{Src: src, Env: en}, r, false)
		}
		if c04Hangs >= 3 {
			break
		}
	}
	// ---- operator overloads whose functions take interface / concrete / mixed parameters, as fields and as
	// methods, in every order of the candidate list, against operands with and without a static type
	{
		cands := []string{"Join", "JoinI", "JoinAny", "Cat", "MJoin", "PJoin", "AddI"}
		var lists []string
		for _, a := range cands {
			lists = append(lists, a)
			for _, b := range cands {
				if a != b {
					lists = append(lists, a+","+b)
				}
			}
		}
		lists = append(lists, "MJoin,Join,Cat,AddI", "AddI,Cat,JoinAny,Join,MJoin", "PJoin,MJoin,JoinI", "Join,Nope", "MJoin,I")
		operands := []string{"A", "B", "nil", "N?.Zz", "N?.Y", "N", "Any", "I", "S", `"x"`, "1", "1.5", "N?.Next?.Y", "[A]", "A.String()", "(B2 ? A : nil)", "(B2 ? nil : A)"}
		var opSrcs []string
		for _, x := range operands {
			for _, y := range operands {
				opSrcs = append(opSrcs, x+" + "+y)
			}
		}
		opSrcs = append(opSrcs, "[A + B]", "[A, A + B][1]", "(A + B)[0:1]", "map([1, 2], {A + B})", "Cat(A + B, S)", "{k: A + nil}", "B2 ? A + B : nil + A", "A + B + A", "A + (nil + B)", "(I + 1) + A", "not (A + B == S)", "len(A + B)")
		rng.Shuffle(len(opSrcs), func(i, j int) { opSrcs[i], opSrcs[j] = opSrcs[j], opSrcs[i] })
		nOp := 260
		if thorough {
			nOp = len(opSrcs)
		}
		for i, src := range opSrcs {
			if i >= nOp {
				break
			}
			for k := 0; k < 3; k++ {
				ops := c04Opts{Env: "opstruct", Optimize: rng.Intn(3) - 1, Operator: lists[rng.Intn(len(lists))], Allow: rng.Intn(5) == 0,
					As: []string{"", "", "", "bool"}[rng.Intn(4)]}
				if k == 0 {
					ops.Operator = lists[(i*3)%len(lists)]
				}
				if k == 2 && i%4 == 0 {
					// a visitor puts a builtin with an identifier in its closure slot somewhere in the tree
					ops.Patch = []string{fmt.Sprintf("replace:%s:%d", []string{"BuiltinPF", "BuiltinPred", "BuiltinNPred", "BuiltinCountPF", "BuiltinMapPF"}[(i/4)%5], rng.Intn(3))}
				}
				in := c04Input{Src: src, Opts: ops}
				r := c04Guard(c04CompileCall(src, func() []expr.Option { return ops.build(base) }))
				cls := o.judge("compile", in, r, true)
				rep.hist("operator-interface campaign: compile " + cls)
				o.distinct[src+"|"+ops.String()] = true
				if cls == "ok" {
					o.runAll(in, r.val.(*vm.Program), []string{"opbase", "opzero", "nil"})
				}
			}
		}
	}

	// ---- sequences: patterns known only at run time, an INVALID one first, then valid ones again (a failed run
	// must leave nothing behind that makes a later run fail or block)
	for _, src := range []string{"S matches S2", "'abc' matches S2", "S2 matches S", "all(AS, {# matches S2})", "S matches S2 or S matches 'a'", "(S matches S2) ? 1 : 2"} {
		for _, ops := range []c04Opts{{Env: "struct", Optimize: 1}, {Optimize: -1}} {
			in := c04Input{Src: src, Opts: ops}
			r := c04Guard(c04CompileCall(src, func() []expr.Option { return ops.build(base) }))
			if o.judge("compile", in, r, true) != "ok" {
				continue
			}
			o.runAll(in, r.val.(*vm.Program), []string{"base", "badre", "base", "badre", "zero", "base"})
			for _, en := range []string{"badre", "base", "badre", "base"} {
				env := envs[en]
				re := c04Guard(func() (interface{}, error) { return expr.Eval(src, env) })
				o.judge("eval", c04Input{Src: src, Env: en}, re, false)
			}
		}
	}

	// ---- loop bodies around the 64 KiB jump limit: every size in a window around the limit must either be refused
	// by Compile or run to completion (a wrapped backward offset makes the VM spin forever)
	{
		lo, hi := 16355, 16400
		step := 1
		if !thorough {
			step = 1
		}
		for _, bi := range []string{"map", "filter", "all", "count"} {
			for n := lo; n <= hi && c04Hangs < 3; n += step {
				body := strings.Repeat("I+", n-1) + "I"
				if bi != "map" {
					body += " > 0"
				}
				src := fmt.Sprintf("%s(1..2, {%s})", bi, body)
				in := c04Input{Src: src, Opts: c04Opts{Optimize: -1}}
				r := c04Guard(c04CompileCall(src, func() []expr.Option { return nil }))
				cls := o.judge("compile", in, r, true)
				rep.hist("loop-limit sweep: compile " + cls)
				if cls == "ok" {
					o.runAll(in, r.val.(*vm.Program), []string{"base"})
				}
			}
		}
	}

	// Eval with an Option as the environment (misuse) and Run of nil / empty programs
	for _, f := range []struct {
		name string
		call func() (interface{}, error)
	}{
		{"eval env=Option", func() (interface{}, error) { return expr.Eval("1", expr.Env(base)) }},
		{"run nil program", func() (interface{}, error) { return expr.Run(nil, base) }},
		{"run empty program", func() (interface{}, error) { return expr.Run(&vm.Program{}, base) }},
		{"vm.Run nil program", func() (interface{}, error) { return vm.Run(nil, nil) }},
	} {
		r := c04Guard(f.call)
		stage := "run"
		if strings.HasPrefix(f.name, "eval") {
			stage = "eval"
		}
		o.judge(stage, c04Input{Src: f.name}, r, false)
	}

	// ---- Coq cases for Eval: egen sources and a sample of the exhaustive family on the universe
	nEval := 0
	evalSrcs := append(append([]string{}, genSrcs...), ex[:nEx]...)
	rng.Shuffle(len(evalSrcs), func(i, j int) { evalSrcs[i], evalSrcs[j] = evalSrcs[j], evalSrcs[i] })
	for _, src := range evalSrcs {
		if nEval >= nEvalCases || c04Hangs >= 3 {
			break
		}
		if len([]rune(src)) > 160 {
			continue
		}
		ei := rng.Intn(len(coqEnvs))
		callLog = nil
		r := c04Guard(func() (interface{}, error) { return expr.Eval(src, coqEnvs[ei]) })
		cls := o.judge("eval", c04Input{Src: src, Env: coqEnvName[ei]}, r, false)
		if cls == "skipped" || cls == "hang" {
			continue
		}
		tabs, _ := c04Tabs(src)
		cases = append(cases, fmt.Sprintf("CaseEval %s %s env%d %s (* %s *)", c04Runes(src), tabs, ei, c04Cls(cls), c04Note(src)))
		nEval++
	}

	// ---- (ii) byte strings
	seeds := append(append([]string{}, srcs[:60]...), genSrcs[:minInt(len(genSrcs), 300)]...)
	byteOpts := []c04Opts{{Optimize: -1}, {Env: "struct", Optimize: 1}, {Env: "map", Optimize: 1, Allow: true}}
	nParse := 0
	byteOne := func(src, class string) {
		if len(src) > 65536 {
			src = src[:65536]
		}
		rep.hist("bytes " + class)
		if !utf8.ValidString(src) {
			rep.hist("bytes invalid UTF-8")
		}
		in := c04Input{Src: src}
		rp := c04Guard(c04ParseCall(src))
		pc := o.judge("parse", in, rp, true)
		if pc == "skipped" {
			return
		}
		if len(src) > 1 {
			o.distinct["b|"+src] = true
		}
		if pc != "hang" && nParse < nParseCases && len([]rune(src)) <= 120 {
			if tabs, ok := c04Tabs(src); ok {
				cases = append(cases, fmt.Sprintf("CaseParse %s %s %s (* %s *)", c04Runes(src), tabs, c04Cls(pc), c04Note(src)))
				nParse++
			}
		}
		runnable := false
		if pc == "ok" {
			runnable = c04Cost(rp.val.(*parser.Tree).Node) <= c04CostLimit
			if !runnable {
				rep.hist("not run: estimated step count above the watchdog's range")
			}
		}
		for _, ops := range byteOpts {
			ops := ops
			in := c04Input{Src: src, Opts: ops}
			rc := c04Guard(c04CompileCall(src, func() []expr.Option { return ops.build(base) }))
			cc := o.judge("compile", in, rc, true)
			if cc == "ok" && runnable {
				names := []string{"base"}
				if ops.Env == "map" {
					names = []string{"map", "mapwrong"}
				}
				o.runAll(in, rc.val.(*vm.Program), names)
			}
		}
		if runnable || pc != "ok" {
			r := c04Guard(func() (interface{}, error) { return expr.Eval(src, base) })
			o.judge("eval", c04Input{Src: src, Env: "base"}, r, false)
		}
	}
	for _, s := range c04Fixed {
		byteOne(s, "fixed corner cases")
	}
	tBytes := time.Now()
	byteBox := 14 * time.Second
	if thorough {
		byteBox = 240 * time.Second
	}
	for i := 0; i < nBytes && c04Hangs < 3 && time.Since(tBytes) < byteBox; i++ {
		switch i % 6 {
		case 0: // random bytes
			n := rng.Intn(24)
			b := make([]byte, n)
			for j := range b {
				b[j] = byte(rng.Intn(256))
			}
			byteOne(string(b), "random bytes")
		case 1: // token soup
			n := 1 + rng.Intn(12)
			var sb strings.Builder
			for j := 0; j < n; j++ {
				sb.WriteString(c04Alphabet[rng.Intn(len(c04Alphabet))])
				if rng.Intn(3) == 0 {
					sb.WriteString(" ")
				}
			}
			byteOne(sb.String(), "token soup")
		case 2: // truncation of a seed
			s := seeds[rng.Intn(len(seeds))]
			if len(s) > 0 {
				s = s[:rng.Intn(len(s))]
			}
			byteOne(s, "truncated seed")
		case 3, 4: // one to three mutations of a seed
			s := seeds[rng.Intn(len(seeds))]
			for k := 1 + rng.Intn(3); k > 0; k-- {
				s = c04Mutate(rng, s)
			}
			byteOne(s, "mutated seed")
		case 5: // invalid UTF-8 inside a seed
			s := seeds[rng.Intn(len(seeds))]
			p := rng.Intn(len(s) + 1)
			bad := []string{"\xff", "\xc3", "\xe2\x82", "\xf0\x9f", "\xed\xa0\x80", "\xc0\xaf", "\xfe\xff"}[rng.Intn(7)]
			byteOne(s[:p]+bad+s[p:], "seed with invalid UTF-8")
		}
	}
	rep.Extra["byte stream seconds"] = fmt.Sprintf("%.1f", time.Since(tBytes).Seconds())

	// ---- deep nesting at the 64 KiB limit, each input in a child process
	tDeep := time.Now()
	if c04Hangs < 3 {
		fams := c04DeepFamilies
		subs := make([]*c04Oracle, len(fams))
		// quick tier: a time box.  Families that have not started when it is over, and children that do
		// not finish within their share, are recorded as inconclusive (the machine is under load) and
		// left to the thorough tier, where a child that does not finish is a failure.
		deepBox, childBox := 25*time.Second, 25*time.Second
		if thorough {
			deepBox, childBox = time.Hour, 200*time.Second
		}
		jobs := make(chan int)
		done := make(chan struct{})
		for w := 0; w < 4; w++ {
			go func() {
				for i := range jobs {
					if time.Since(tDeep) < deepBox {
						subs[i].deepInChild(fams[i], c04DeepSize(fams[i]), childBox, thorough)
					} else {
						subs[i].rep.hist("deep family not started within the quick time box (machine under load)")
					}
				}
				done <- struct{}{}
			}()
		}
		for i := range fams {
			subs[i] = &c04Oracle{rep: newReport("C04"), base: base, zero: zero, boundary: boundary, envNames: envNames, envs: envs, distinct: map[string]bool{}}
			jobs <- i
		}
		close(jobs)
		for w := 0; w < 4; w++ {
			<-done
		}
		for i, sub := range subs {
			rep.Evaluations += sub.rep.Evaluations
			for k, v := range sub.rep.Histogram {
				rep.Histogram[k] += v
			}
			for k, v := range sub.rep.Extra {
				rep.Extra[k] = v
			}
			rep.Failures = append(rep.Failures, sub.rep.Failures...)
			if sub.rep.Evaluations > 0 {
				o.distinct["deep|"+fams[i]] = true
			}
		}
	}
	rep.Extra["deep family seconds"] = fmt.Sprintf("%.1f", time.Since(tDeep).Seconds())

	// ---- compile-time memory
	if c04Hangs < 3 {
		o.memoryProbe()
	}

	// ---- thorough: coverage-guided native fuzzing of the same oracle
	if thorough && c04Hangs < 3 {
		o.nativeFuzz(append(append([]string{}, c04Fixed...), seeds...), 180)
	}

	if c04Hangs > 0 {
		rep.Extra["calls that never returned"] = c04Hangs
	}
	if len(c04Slow) > 0 {
		rep.Extra["slow calls (returned)"] = c04Slow
	}
	rep.Distinct = len(o.distinct)
	rep.Rule = "every call of parser.Parse / expr.Compile / expr.Run / expr.Eval runs under a recover and a 2 s watchdog (late calls re-timed once); judged: no panic, no hang, (result == nil) == (err != nil) for Parse and Compile, err != nil => nil value for Eval and Run, compiled programs run on 6-7 environments (base, zero, boundary, map, wrongly typed map, nil, foreign); inputs: grammatical sources (type-directed generator with 10% ill-typed operands, exhaustive shape family, seeds calling the panicking function) x option sets (systematic sweep of every option value and of 30 node-replacing visitor templates + random combinations, varying option order), byte strings (corner-case list, random bytes, token soup, truncated / mutated seeds, invalid UTF-8), 20 deep-nesting families at the 64 KiB limit in child processes, a compile-time memory probe; distinct_nontrivial counts distinct (source, option set) pairs and distinct byte strings longer than one byte"
	for i := 0; i < 3 && i < len(genSrcs); i++ {
		rep.Samples = append(rep.Samples, genSrcs[(i*7919+13)%len(genSrcs)])
	}
	rep.Samples = append(rep.Samples, c04Opts{Env: "map", Optimize: 1, Const: "Boom", Patch: []string{"replace:ConstantSlice:-1"}}.String(), "\"\\u12", "-×60000 1 (64 KiB)")
	hdr := coreHeader(coqEnvs) + "Require Import X.Pipe.Pipeline X.Corr.CorrC04.\n"
	rep.writeShards("cases_c04", hdr, "c04case", "c04_mismatches fe", cases)
	rep.write()
}

// ---------------------------------------------------------------- replay of one recorded input
func c04Replay(in c04Input) {
	base, zero, boundary := baseEnv(), zeroEnv(), boundaryEnv()
	_, envs := c04RunEnvs(base, zero, boundary)
	src := in.source()
	show := func(stage string, r c04Res) {
		fmt.Printf("%s: class=%s", stage, r.cls)
		switch r.cls {
		case "panic":
			fmt.Printf(" panic=%v", r.pval)
		case "err":
			fmt.Printf(" result-nil=%v err=%v", c04IsNil(r.val), r.err)
		case "ok":
			fmt.Printf(" result-nil=%v", c04IsNil(r.val))
		}
		fmt.Printf(" (%v)\n", r.dur)
	}
	fmt.Printf("input: %d bytes, options %s\n", len(src), in.Opts.String())
	switch in.Call {
	case "parse":
		show("parse", c04Guard(c04ParseCall(src)))
	case "eval":
		show("eval", c04Guard(func() (interface{}, error) { return expr.Eval(src, envs[in.Env]) }))
	default:
		r := c04Guard(c04CompileCall(src, func() []expr.Option { return in.Opts.build(base) }))
		show("compile", r)
		if r.cls == "ok" && in.Call == "run" {
			prog := r.val.(*vm.Program)
			show("run on "+in.Env, c04Guard(func() (interface{}, error) { return expr.Run(prog, envs[in.Env]) }))
		}
	}
}

// ---------------------------------------------------------------- Go native fuzzing (thorough tier)
const c04FuzzTest = `package c04fuzz

import (
	"fmt"
	"strings"
	"testing"
	"time"

	"github.com/antonmedv/expr"
	"github.com/antonmedv/expr/parser"
	"github.com/antonmedv/expr/vm"
)

type Inner struct {
	X int
	Y string
}

type Env struct {
	I    int
	S    string
	B    bool
	AI   []int
	AA   []interface{}
	MA   map[string]interface{}
	St   Inner
	P    *Inner
	Any  interface{}
	Add  func(a, b int) int
	Boom func(a int) int
}

var env = &Env{I: 3, S: "abc", B: true, AI: []int{1, 2, 3}, AA: []interface{}{1, "a", nil}, MA: map[string]interface{}{"k": 1}, St: Inner{1, "y"},
	Add: func(a, b int) int { return a + b }, Boom: func(int) int { panic("boom") }}

var menv = map[string]interface{}{"I": 3, "S": "abc", "B": true, "AI": []int{1, 2, 3}, "Add": env.Add, "Boom": env.Boom}

func guard(t *testing.T, stage, src string, f func() (interface{}, error), needResult bool) (interface{}, bool) {
	type res struct {
		v   interface{}
		err error
		p   interface{}
	}
	ch := make(chan res, 1)
	go func() {
		var r res
		defer func() {
			if p := recover(); p != nil {
				r = res{p: p}
			}
			ch <- r
		}()
		r.v, r.err = f()
	}()
	select {
	case r := <-ch:
		if r.p != nil {
			t.Fatalf("C04-%s-panic %q: %v", stage, src, r.p)
		}
		if r.err != nil && r.v != nil {
			t.Fatalf("C04-%s-shape %q: result with error", stage, src)
		}
		if r.err == nil && needResult && r.v == nil {
			t.Fatalf("C04-%s-shape %q: nil, nil", stage, src)
		}
		return r.v, r.err == nil
	case <-time.After(10 * time.Second):
		t.Fatalf("C04-%s-hang %q", stage, src)
	}
	return nil, false
}

// nested loops and long ranges take as long as they take: they are compiled, not run
func cheap(src string) bool {
	return strings.Count(src, "{") <= 1 && !strings.Contains(src, "..") && len(src) < 4096
}

func FuzzC04(f *testing.F) {
	f.Fuzz(func(t *testing.T, b []byte) {
		if len(b) > 65536 {
			return
		}
		src := string(b)
		guard(t, "parse", src, func() (interface{}, error) {
			tr, err := parser.Parse(src)
			if tr == nil {
				return nil, err
			}
			return tr, err
		}, true)
		for i, ops := range [][]expr.Option{nil, {expr.Env(env)}, {expr.Env(menv), expr.AllowUndefinedVariables()}} {
			ops := ops
			v, ok := guard(t, "compile", src, func() (interface{}, error) {
				p, err := expr.Compile(src, ops...)
				if p == nil {
					return nil, err
				}
				return p, err
			}, true)
			if ok && cheap(src) {
				var e interface{} = env
				if i == 2 {
					e = menv
				}
				guard(t, "run", src, func() (interface{}, error) { return expr.Run(v.(*vm.Program), e) }, false)
			}
		}
		if cheap(src) {
			guard(t, "eval", src, func() (interface{}, error) { return expr.Eval(src, env) }, false)
		}
		_ = fmt.Sprint
	})
}
`

func (o *c04Oracle) nativeFuzz(seeds []string, seconds int) {
	repo := os.Getenv("VERIF_REPO")
	if repo == "" {
		repo = "/repo"
	}
	dir, err := os.MkdirTemp("", "c04fuzz-")
	if err != nil {
		o.rep.Extra["native fuzz"] = "could not create scratch module: " + err.Error()
		return
	}
	defer os.RemoveAll(dir)
	gomod := "module c04fuzz\n\ngo 1.18\n\nrequire github.com/antonmedv/expr v0.0.0\n\nreplace github.com/antonmedv/expr => " + repo + "\n"
	os.WriteFile(filepath.Join(dir, "go.mod"), []byte(gomod), 0644)
	if sum, err := os.ReadFile(filepath.Join(repo, "go.sum")); err == nil {
		os.WriteFile(filepath.Join(dir, "go.sum"), sum, 0644)
	}
	os.WriteFile(filepath.Join(dir, "fuzz_test.go"), []byte(c04FuzzTest), 0644)
	corpus := filepath.Join(dir, "testdata", "fuzz", "FuzzC04")
	os.MkdirAll(corpus, 0755)
	seen := map[string]bool{}
	n := 0
	for _, s := range seeds {
		if seen[s] || len(s) > 4096 {
			continue
		}
		seen[s] = true
		os.WriteFile(filepath.Join(corpus, fmt.Sprintf("seed%04d", n)), []byte("go test fuzz v1\n[]byte("+strconv.Quote(s)+")\n"), 0644)
		n++
	}
	cmd := exec.Command("go", "test", "-run=^$", "-fuzz=FuzzC04", fmt.Sprintf("-fuzztime=%ds", seconds), "-parallel=8", ".")
	cmd.Dir = dir
	cmd.Env = append(os.Environ(), "GOFLAGS=-mod=mod", "GOPROXY=off", "GOSUMDB=off", "GOTOOLCHAIN=local")
	var out bytes.Buffer
	cmd.Stdout, cmd.Stderr = &out, &out
	t0 := time.Now()
	err = cmd.Run()
	text := out.String()
	o.rep.Extra["native fuzz seconds"] = fmt.Sprintf("%.0f", time.Since(t0).Seconds())
	if m := regexp.MustCompile(`execs: (\d+)`).FindAllStringSubmatch(text, -1); len(m) > 0 {
		execs, _ := strconv.Atoi(m[len(m)-1][1])
		o.rep.Extra["native fuzz execs"] = execs
		o.rep.Evaluations += execs
		o.rep.Histogram["native fuzz execs"] = execs
	}
	if m := regexp.MustCompile(`new interesting: (\d+)`).FindAllStringSubmatch(text, -1); len(m) > 0 {
		o.rep.Extra["native fuzz new interesting inputs"] = m[len(m)-1][1]
	}
	if err == nil {
		return
	}
	// a crasher: read it back and classify it with the in-process oracle
	if m := regexp.MustCompile(`testdata/fuzz/FuzzC04/([0-9a-f]+)`).FindStringSubmatch(text); m != nil {
		if data, rerr := os.ReadFile(filepath.Join(corpus, m[1])); rerr == nil {
			lines := strings.SplitN(string(data), "\n", 3)
			if len(lines) >= 2 && strings.HasPrefix(lines[1], "[]byte(") {
				if s, uerr := strconv.Unquote(strings.TrimSuffix(strings.TrimPrefix(lines[1], "[]byte("), ")")); uerr == nil {
					key := "C04-fuzz-failure"
					if k := regexp.MustCompile(`C04-[a-z]+-[a-z]+`).FindString(text); k != "" {
						key = k
					}
					in := c04Input{Src: s, Opts: c04Opts{Optimize: -1}}
					tail := text
					if len(tail) > 400 {
						tail = tail[len(tail)-400:]
					}
					o.fail(key, "found by coverage-guided fuzzing", in, "a result or a non-nil error", tail)
					return
				}
			}
		}
	}
	tail := text
	if len(tail) > 600 {
		tail = tail[len(tail)-600:]
	}
	if strings.Contains(text, "FAIL") {
		o.fail("C04-fuzz-failure", "go test -fuzz failed", c04Input{Src: "(see output)"}, "no failure", tail)
	} else {
		o.rep.Extra["native fuzz"] = "did not run: " + tail
	}
	_ = sort.Strings
}

package main

// C16 — names the checker accepts are exactly those the VM resolves.
// For every environment (pool struct types as T and *T, reflect.StructOf shapes, sample maps) and
// every member / near-miss name: conf.CreateTypesTable, expr.Compile + checker.Check,
// expr.Run on a fully populated value, docgen.CreateDoc, and Go's own reflect.Type.FieldByName /
// MethodByName as the oracle for the language's selector rule.  Each case is judged in Go against
// the property and written as a Coq case for the model (coq/Corr/CorrC16.v).

import (
	"encoding/json"
	"fmt"
	"github.com/antonmedv/expr/vm"
	"math/rand"
	"os"
	"reflect"
	"sort"
	"strings"
	"unicode"
	"unsafe"

	"github.com/antonmedv/expr"
	"github.com/antonmedv/expr/checker"
	"github.com/antonmedv/expr/conf"
	"github.com/antonmedv/expr/docgen"
	"github.com/antonmedv/expr/parser"
)

func init() { commands["c16"] = runC16 }

const c16Depth = 10 // nesting depth of the populated values (model: populate fuel)

var c16Keys = []string{"k"} // keys every populated map[string]T member holds

var c16Reserved = map[string]bool{"true": true, "false": true, "nil": true, "not": true, "in": true, "and": true, "or": true,
	"matches": true, "contains": true, "startsWith": true, "endsWith": true, "len": true, "all": true, "none": true, "any": true,
	"one": true, "filter": true, "map": true, "count": true}

var c16DocFixed = map[string]bool{"matches": true, "contains": true, "startsWith": true, "endsWith": true, "true": true, "false": true,
	"len": true, "all": true, "none": true, "any": true, "one": true, "filter": true, "map": true, "count": true}

// ---------------------------------------------------------------- environments
type c16env struct {
	label   string
	sample  interface{}  // handed to expr.Env / CreateTypesTable / CreateDoc
	value   interface{}  // fully populated value handed to expr.Run
	t       reflect.Type // type of sample
	isMap   bool
	entries map[string]reflect.Type // map environment: key -> dynamic type of the sample's value
	coq     string                  // index in the Coq list `envs`
}

func c16SetField(fv reflect.Value, v reflect.Value) {
	if fv.CanSet() {
		fv.Set(v)
		return
	}
	reflect.NewAt(fv.Type(), unsafe.Pointer(fv.UnsafeAddr())).Elem().Set(v)
}

// c16Populate builds the fully populated value of type t down to nesting depth d.
func c16Populate(t reflect.Type, d int) reflect.Value {
	switch t.Kind() {
	case reflect.Ptr:
		if t.Elem().Kind() == reflect.Struct {
			p := reflect.New(t.Elem())
			if d > 0 {
				c16FillStruct(p.Elem(), d)
			}
			return p
		}
		return reflect.Zero(t)
	case reflect.Struct:
		v := reflect.New(t).Elem()
		if d > 0 {
			c16FillStruct(v, d)
		}
		return v
	case reflect.Map:
		m := reflect.MakeMap(t)
		if d > 0 && t.Key().Kind() == reflect.String {
			for _, k := range c16Keys {
				m.SetMapIndex(reflect.ValueOf(k).Convert(t.Key()), c16Populate(t.Elem(), d-1))
			}
		}
		return m
	case reflect.Slice:
		return reflect.MakeSlice(t, 0, 0)
	case reflect.Func:
		return reflect.MakeFunc(t, func(args []reflect.Value) []reflect.Value {
			outs := make([]reflect.Value, t.NumOut())
			for i := range outs {
				outs[i] = reflect.Zero(t.Out(i))
			}
			return outs
		})
	}
	return reflect.Zero(t)
}

func c16FillStruct(v reflect.Value, d int) {
	for i := 0; i < v.NumField(); i++ {
		c16SetField(v.Field(i), c16Populate(v.Type().Field(i).Type, d-1))
	}
}

func c16StructEnv(t reflect.Type, ptr bool) *c16env {
	e := &c16env{t: t}
	name := t.String()
	if t.Name() == "" {
		name = "struct{" + c16ShapeString(t) + "}"
	}
	if ptr {
		e.t = reflect.PtrTo(t)
		e.label = "*" + name
		e.sample = reflect.New(t).Interface()
		e.value = c16Populate(reflect.PtrTo(t), c16Depth).Interface()
	} else {
		e.label = name
		e.sample = reflect.New(t).Elem().Interface()
		e.value = c16Populate(t, c16Depth).Interface()
	}
	return e
}

func c16ShapeString(t reflect.Type) string {
	var ps []string
	for i := 0; i < t.NumField(); i++ {
		f := t.Field(i)
		if f.Anonymous {
			ps = append(ps, f.Type.String())
		} else {
			ps = append(ps, f.Name+" "+f.Type.String())
		}
	}
	return strings.Join(ps, "; ")
}

func c16MapEnv(sample interface{}) *c16env {
	t := reflect.TypeOf(sample)
	e := &c16env{t: t, isMap: true, sample: sample, label: t.String(), entries: map[string]reflect.Type{}}
	sv := reflect.ValueOf(sample)
	run := reflect.MakeMap(t)
	for _, k := range sv.MapKeys() {
		dt := reflect.TypeOf(sv.MapIndex(k).Interface())
		e.entries[k.String()] = dt
		run.SetMapIndex(k, c16Populate(dt, c16Depth))
	}
	e.value = run.Interface()
	return e
}

func c16CoqEnv(e *c16env) string {
	if !e.isMap {
		return "EStruct " + coqTy(e.t)
	}
	var ks []string
	for k := range e.entries {
		ks = append(ks, k)
	}
	sort.Strings(ks)
	var es []string
	for _, k := range ks {
		es = append(es, fmt.Sprintf("(%s, %s)", tyStr(k), coqTy(e.entries[k])))
	}
	return fmt.Sprintf("EMap %s %s", coqTy(e.t), coqList(es))
}

// reflect.StructOf shapes over the method-less pool types
func c16GenShapes(rng *rand.Rand, n int) []reflect.Type {
	ownNames := []string{"X", "Y", "Z", "W", "Q", "U", "V", "K"}
	ownTypes := []reflect.Type{reflect.TypeOf(0), reflect.TypeOf(""), reflect.TypeOf(true), reflect.TypeOf(1.5), reflect.TypeOf(&C16Inner{}),
		reflect.TypeOf(C16Deep{}), reflect.TypeOf(map[string]int{}), reflect.TypeOf(func() int { return 0 }), reflect.TypeOf(uint16(0))}
	var out []reflect.Type
	seen := map[string]bool{}
	for tries := 0; len(out) < n && tries < 50*n; tries++ {
		var fs []reflect.StructField
		used := map[string]bool{}
		k := 2 + rng.Intn(4)
		for i := 0; i < k; i++ {
			if rng.Intn(100) < 50 {
				et := c16Embeddable[rng.Intn(len(c16Embeddable))]
				if used[et.Name()] {
					continue
				}
				used[et.Name()] = true
				ft := et
				if rng.Intn(2) == 0 {
					ft = reflect.PtrTo(et)
				}
				fs = append(fs, reflect.StructField{Name: et.Name(), Type: ft, Anonymous: true})
			} else {
				nm := ownNames[rng.Intn(len(ownNames))]
				if used[nm] {
					continue
				}
				used[nm] = true
				fs = append(fs, reflect.StructField{Name: nm, Type: ownTypes[rng.Intn(len(ownTypes))]})
			}
		}
		if len(fs) < 2 {
			continue
		}
		var t reflect.Type
		func() {
			defer func() { recover() }()
			t = reflect.StructOf(fs)
		}()
		if t == nil || seen[c16ShapeString(t)] {
			continue
		}
		seen[c16ShapeString(t)] = true
		out = append(out, t)
	}
	return out
}

// ---------------------------------------------------------------- Go-side oracle helpers (language rule via reflect)
func c16StructType(t reflect.Type) reflect.Type { // T or *T with T a struct
	if t == nil {
		return nil
	}
	if t.Kind() == reflect.Ptr {
		t = t.Elem()
	}
	if t.Kind() == reflect.Struct {
		return t
	}
	return nil
}

// every field name in the embedding tree of struct type st
func c16TreeNames(st reflect.Type, fuel int, out map[string]bool) {
	if st == nil || fuel == 0 {
		return
	}
	for i := 0; i < st.NumField(); i++ {
		f := st.Field(i)
		out[f.Name] = true
		if f.Anonymous {
			c16TreeNames(c16StructType(f.Type), fuel-1, out)
		}
	}
}

func c16Occurs(t reflect.Type, name string, fuel int) bool {
	st := c16StructType(t)
	if st == nil || fuel == 0 {
		return false
	}
	for i := 0; i < st.NumField(); i++ {
		f := st.Field(i)
		if f.Name == name || (f.Anonymous && c16Occurs(f.Type, name, fuel-1)) {
			return true
		}
	}
	return false
}

// "clean" | "shadow-order" | "multi": how name is duplicated along the part of the embedding tree
// that decides its resolution (mirror of dup_class in coq/Ty/TypesTable.v)
func c16DupClass(t reflect.Type, name string, fuel int) string {
	st := c16StructType(t)
	if st == nil || fuel == 0 {
		return "clean"
	}
	own := -1
	for i := 0; i < st.NumField(); i++ {
		if st.Field(i).Name == name {
			own = i
			break
		}
	}
	if own >= 0 {
		for i := own + 1; i < st.NumField(); i++ {
			f := st.Field(i)
			if f.Anonymous && c16Occurs(f.Type, name, fuel-1) {
				return "shadow-order"
			}
		}
		return "clean"
	}
	var with []reflect.StructField
	for i := 0; i < st.NumField(); i++ {
		f := st.Field(i)
		if f.Anonymous && c16Occurs(f.Type, name, fuel-1) {
			with = append(with, f)
		}
	}
	switch len(with) {
	case 0:
		return "clean"
	case 1:
		return c16DupClass(with[0].Type, name, fuel-1)
	}
	return "multi"
}

// name is no method of t itself but a method of a type embedded somewhere below: the promoted
// method is ambiguous or hidden
func c16MethodBelow(t reflect.Type, name string, fuel int) bool {
	st := c16StructType(t)
	if st == nil || fuel == 0 {
		return false
	}
	for i := 0; i < st.NumField(); i++ {
		f := st.Field(i)
		if !f.Anonymous {
			continue
		}
		if _, ok := f.Type.MethodByName(name); ok {
			return true
		}
		if c16MethodBelow(f.Type, name, fuel-1) {
			return true
		}
	}
	return false
}

type c16step struct {
	kind     string // "field" "method" "map" "iface" "absent" "ambiguous" "other"
	typ      reflect.Type
	exported bool
	multi    bool // two or more embedded fields of one struct provide the name
	path     []int
}

// what Go itself says about `x.name` for x of type base (reflect implements the selector rule)
func c16GoStep(base reflect.Type, name string, wantMethod bool) c16step {
	if base == nil {
		return c16step{kind: "other"}
	}
	if m, ok := base.MethodByName(name); ok && base.Kind() != reflect.Interface {
		return c16step{kind: "method", typ: m.Type, exported: true}
	}
	if st := c16StructType(base); st != nil && (base.Kind() == reflect.Struct || base.Elem().Kind() == reflect.Struct) {
		multi := c16DupClass(st, name, 12) == "multi"
		if f, ok := st.FieldByName(name); ok {
			return c16step{kind: "field", typ: f.Type, exported: f.PkgPath == "", multi: multi, path: f.Index}
		}
		if c16Occurs(st, name, 12) {
			return c16step{kind: "ambiguous", multi: multi}
		}
		if wantMethod && c16MethodBelow(st, name, 12) {
			return c16step{kind: "ambiguous", multi: true}
		}
		return c16step{kind: "absent"}
	}
	switch base.Kind() {
	case reflect.Map:
		if base.Key().Kind() == reflect.String {
			return c16step{kind: "map", typ: base.Elem(), exported: true}
		}
	case reflect.Interface:
		return c16step{kind: "iface"}
	}
	return c16step{kind: "other"}
}

// ---------------------------------------------------------------- accesses
type c16access struct {
	kind string   // "path" "method" "func"
	n0   string   // first name
	ns   []string // further member names
	m    string   // method name (kind == "method")
	src  string   // expression text
	coq  string
}

func c16Args(ft reflect.Type, skipRecv bool) string {
	if ft == nil || ft.Kind() != reflect.Func {
		return ""
	}
	var as []string
	n := ft.NumIn()
	if ft.IsVariadic() {
		n--
	}
	start := 0
	if skipRecv {
		start = 1
	}
	for i := start; i < n; i++ {
		switch k := ft.In(i).Kind(); {
		case k >= reflect.Int && k <= reflect.Uint64:
			as = append(as, "1")
		case k == reflect.Float32 || k == reflect.Float64:
			as = append(as, "1.5")
		case k == reflect.String:
			as = append(as, `"a"`)
		case k == reflect.Bool:
			as = append(as, "true")
		case k == reflect.Interface:
			as = append(as, "1")
		default:
			as = append(as, "nil")
		}
	}
	return strings.Join(as, ", ")
}

func c16NameList(ns []string) string {
	var q []string
	for _, n := range ns {
		q = append(q, tyStr(n))
	}
	return coqList(q)
}

func c16Ident(s string) bool {
	if s == "" || c16Reserved[s] {
		return false
	}
	for i, r := range s {
		if !(r == '_' || unicode.IsLetter(r) || (i > 0 && unicode.IsDigit(r))) {
			return false
		}
	}
	return true
}

func c16NearMiss(n string) []string {
	var out []string
	r := []rune(n)
	if unicode.IsUpper(r[0]) {
		out = append(out, string(unicode.ToLower(r[0]))+string(r[1:]))
	} else {
		out = append(out, string(unicode.ToUpper(r[0]))+string(r[1:]))
	}
	if len(r) > 1 {
		out = append(out, string(r[:len(r)-1]))
	}
	out = append(out, n+"x")
	return out
}

// member names worth trying on a value of type t: everything in the embedding tree, the methods of
// t and *T, the populated map key, and near misses of all of them
func c16Candidates(t reflect.Type, extra []string) []string {
	set := map[string]bool{}
	if t != nil {
		if st := c16StructType(t); st != nil {
			c16TreeNames(st, 12, set)
			for _, mt := range []reflect.Type{t, reflect.PtrTo(st)} {
				for i := 0; i < mt.NumMethod(); i++ {
					set[mt.Method(i).Name] = true
				}
			}
		} else if t.Kind() == reflect.Map || t.Kind() == reflect.Interface {
			for _, k := range c16Keys {
				set[k] = true
			}
		}
	}
	for _, x := range extra {
		set[x] = true
	}
	var base []string
	for n := range set {
		base = append(base, n)
	}
	for _, n := range base {
		for _, m := range c16NearMiss(n) {
			set[m] = true
		}
	}
	var out []string
	for n := range set {
		if c16Ident(n) {
			out = append(out, n)
		}
	}
	sort.Strings(out)
	return out
}

// ---------------------------------------------------------------- running one access on the implementation
type c16result struct {
	accepted bool
	ctype    reflect.Type // checker.Check's type of the expression
	cerr     string
	ran      bool
	rtype    reflect.Type // dynamic type of the run-time result (nil for a nil result)
	rerr     string       // error class, "" = success
	rmsg     string
}

func c16ErrClass(msg string) string {
	switch {
	case strings.Contains(msg, "cannot fetch"), strings.Contains(msg, "cannot get"):
		return "ECannotFetch"
	case strings.Contains(msg, "reflect:"), strings.Contains(msg, "reflect.Value"):
		return "EReflect"
	case strings.Contains(msg, "invalid operation"):
		return "EInvalidOp"
	case strings.Contains(msg, "interface conversion"):
		return "EIfaceConv"
	case strings.Contains(msg, "nil pointer"):
		return "ENilDeref"
	}
	return "EOther"
}

func c16Run(e *c16env, src string) (res c16result) {
	defer func() {
		if r := recover(); r != nil {
			res.rerr, res.rmsg = "EOther", fmt.Sprint("panic: ", r)
		}
	}()
	prog, err := expr.Compile(src, expr.Env(e.sample))
	if err != nil {
		res.cerr = err.Error()
		return
	}
	res.accepted = true
	if tree, perr := parser.Parse(src); perr == nil {
		res.ctype, _ = checker.Check(tree, conf.New(e.sample))
	}
	out, rerr := expr.Run(prog, e.value)
	res.ran = true
	if rerr != nil {
		res.rmsg = rerr.Error()
		res.rerr = c16ErrClass(res.rmsg)
		return
	}
	res.rtype = reflect.TypeOf(out)
	return
}

func c16TypeName(t reflect.Type) string {
	if t == nil {
		return "<nil>"
	}
	return t.String()
}

// ---------------------------------------------------------------- the run
type c16runner struct {
	rep      *Report
	cases    []string
	distinct map[string]bool
	goSeen   map[string]bool
	inputs   map[string][]string // every failing input of the soundness oracle, per key
}

func (r *c16runner) goCase(t reflect.Type, n string) {
	if t == nil {
		return
	}
	key := t.String() + "\x00" + n
	if t.Name() == "" || t.Kind() == reflect.Ptr && t.Elem().Name() == "" {
		key = coqTy(t) + "\x00" + n
	}
	if r.goSeen[key] {
		return
	}
	r.goSeen[key] = true
	var obs string
	s := c16GoStep(t, n, false)
	switch s.kind {
	case "method":
		obs = "GMethod " + coqTy(s.typ)
	case "field":
		var p []string
		for _, i := range s.path {
			p = append(p, fmt.Sprintf("%d%%nat", i))
		}
		obs = fmt.Sprintf("GField [%s] %s %s", strings.Join(p, "; "), coqTy(s.typ), coqBool(s.exported))
	default:
		obs = "GNone"
	}
	if st := c16StructType(t); st == nil || (t.Kind() == reflect.Ptr && t.Elem().Kind() != reflect.Struct) {
		return
	}
	r.cases = append(r.cases, fmt.Sprintf("CGo %s %s (%s)", coqTy(t), tyStr(n), obs))
}

// judge one access against the property and emit the Coq case
func (r *c16runner) access(e *c16env, a c16access, tt conf.TypesTable) c16result {
	rep := r.rep
	res := c16Run(e, a.src)
	rep.Evaluations++
	rep.hist("position " + a.kind)

	// ---- what Go itself says along the path ----
	static := true // every name on the path is resolved statically on a populated member
	goOK := true   // Go resolves every name to an accessible (exported) member
	unexported, unexportedTop := false, false
	memberMulti, memberAmb, funcMap := false, false, false
	var cur reflect.Type
	var last c16step
	features := map[string]bool{}
	names := append([]string{a.n0}, a.ns...)
	if a.kind == "method" {
		names = append(names, a.m)
	}
	for i, n := range names {
		isLast := i == len(names)-1
		var s c16step
		if i == 0 && e.isMap {
			if dt, ok := e.entries[n]; ok {
				s = c16step{kind: "map", typ: dt, exported: true}
			} else {
				s = c16step{kind: "absent"}
			}
			features["map-env"] = true
		} else {
			base := cur
			if i == 0 {
				base = e.t
			}
			s = c16GoStep(base, n, isLast && a.kind != "path")
			if i > 0 {
				r.goCase(base, n)
			}
		}
		switch s.kind {
		case "field":
			if len(s.path) > 1 {
				features["promoted"] = true
			}
			if !s.exported {
				if i == 0 {
					unexportedTop = true
				}
				unexported = true
				goOK = false
				features["unexported"] = true
			}
		case "method":
			features["method"] = true
			if !(isLast && a.kind != "path") {
				goOK = false // a method value is no member the expression language can fetch
			}
		case "map":
			features["map"] = true
			if i > 0 && (!isLast || a.kind != "path") {
				found := false
				for _, k := range c16Keys {
					found = found || k == n
				}
				if !found {
					static = false
				}
			}
		case "iface":
			static = false
			features["dynamic"] = true
		case "ambiguous":
			goOK = false
			features["ambiguous"] = true
		default:
			goOK = false
			features["near-miss"] = true
		}
		if s.multi {
			features["duplicated"] = true
			if i > 0 {
				memberMulti = true
				if s.kind == "ambiguous" {
					memberAmb = true
				}
			}
		}
		if isLast && a.kind != "path" && s.typ != nil && s.typ.Kind() == reflect.Interface {
			static = false // the callable itself is dynamically typed
		}
		if isLast && a.kind != "path" && s.kind == "map" && s.typ.Kind() == reflect.Func {
			funcMap = true
		}
		last = s
		cur = s.typ
		if s.typ == nil && !isLast {
			if s.kind != "iface" {
				goOK = false
			}
			static = static && s.kind != "iface"
			break
		}
		if s.typ != nil && s.typ.Kind() == reflect.Func {
			features["function-valued"] = true
		}
	}
	methodIdent := a.kind == "path" && !e.isMap && func() bool { _, ok := e.t.MethodByName(a.n0); return ok }()
	funcMap = funcMap || (a.kind == "func" && e.isMap && e.t.Elem().Kind() == reflect.Func)
	for f := range features {
		rep.hist("feature " + f)
	}
	dk := e.label + "|" + a.src
	if !r.distinct[dk] && (len(features) > 0 || len(names) > 1) {
		r.distinct[dk] = true
	}
	input := map[string]string{"env": e.label, "expr": a.src}
	replayArg, _ := json.Marshal(input)

	// ---- (a) accepted => resolvable, with the type the checker assumed ----
	if res.accepted && static {
		bad, got := false, ""
		if res.rerr != "" {
			bad, got = true, "run-time error: "+res.rmsg
		} else if res.ctype != nil && res.ctype.Kind() != reflect.Interface && res.rtype != res.ctype {
			bad, got = true, "run-time value of type "+c16TypeName(res.rtype)
		}
		if bad {
			key := "C16-unsound"
			switch {
			case funcMap:
				key = "C16-funcmap"
			case methodIdent:
				key = "C16-method-ident"
			case unexportedTop:
				key = "C16-unexported-ident" // repaired by fix b9d2c0f: must not come back
			case unexported:
				key = "C16-unexported"
			case memberAmb:
				key = "C16-member-ambiguous"
			case memberMulti:
				key = "C16-member-dfs"
			}
			r.inputs[key] = append(r.inputs[key], e.label+" | "+a.src)
			rep.fail(Failure{Key: key, What: "the checker accepts the name, the VM does not resolve it to a value of the assumed type",
				Input: input, Want: "a value of type " + c16TypeName(res.ctype) + " on the fully populated environment", Got: got, Replay: string(replayArg)})
		}
	}
	if !static {
		rep.hist("not judged: dynamically typed base or unpopulated map key")
	}

	// ---- (b) what Go resolves to an exported member is accepted, with that type ----
	if static && goOK && (!e.isMap || len(names) > 1) {
		var want reflect.Type
		switch {
		case a.kind == "path" && (last.kind == "field" || last.kind == "map"):
			want = last.typ
		case a.kind != "path" && last.kind == "method" && last.typ.NumOut() == 1:
			want = last.typ.Out(0)
		case a.kind != "path" && last.kind == "field" && last.typ.Kind() == reflect.Func && last.typ.NumOut() == 1:
			want = last.typ.Out(0)
		}
		if want != nil && (!res.accepted || (res.ctype != want && !memberMulti)) {
			key := "C16-incomplete"
			if len(names) > 1 {
				key = "C16-member-incomplete"
			}
			if len(names) == 1 && !e.isMap {
				switch c16DupClass(e.t, a.n0, 12) {
				case "shadow-order":
					key = "C16-shadow-order"
				case "multi":
					key = "C16-depth"
				}
			}
			got := "rejected: " + strings.SplitN(res.cerr, "\n", 2)[0]
			if res.accepted {
				got = "accepted with type " + c16TypeName(res.ctype)
			}
			rep.fail(Failure{Key: key, What: "Go resolves the name to an exported member, the checker does not accept it with that type",
				Input: input, Want: "accepted with type " + want.String(), Got: got, Replay: string(replayArg)})
		}
	}

	// ---- Coq case ----
	v := "VRej"
	ro := "RNotRun"
	if res.accepted {
		v = "VAcc " + coqTy(res.ctype)
		if res.rerr != "" {
			ro = "RFail " + res.rerr
		} else {
			ro = "ROk " + coqTy(res.rtype)
		}
	}
	r.cases = append(r.cases, fmt.Sprintf("CAcc %s (%s) (%s) (%s)", e.coq, a.coq, v, ro))
	return res
}

func c16MkAccess(kind, n0 string, ns []string, m string, args string) c16access {
	a := c16access{kind: kind, n0: n0, ns: ns, m: m}
	p := strings.Join(append([]string{n0}, ns...), ".")
	switch kind {
	case "path":
		a.src = p
		a.coq = fmt.Sprintf("APath %s %s", tyStr(n0), c16NameList(ns))
	case "method":
		a.src = p + "." + m + "(" + args + ")"
		a.coq = fmt.Sprintf("AMethod %s %s %s", tyStr(n0), c16NameList(ns), tyStr(m))
	case "func":
		a.src = n0 + "(" + args + ")"
		a.coq = fmt.Sprintf("AFunc %s", tyStr(n0))
	}
	return a
}

// the function type Go finds for calling `name` on a value of type base (receiver stripped), or nil
func c16Callable(base reflect.Type, name string) (reflect.Type, bool) {
	if base == nil {
		return nil, false
	}
	if m, ok := base.MethodByName(name); ok {
		return m.Type, base.Kind() != reflect.Interface
	}
	if st := c16StructType(base); st != nil {
		if f, ok := st.FieldByName(name); ok && f.Type.Kind() == reflect.Func {
			return f.Type, false
		}
		// the checker's own (depth-first) pick, so that an accepted call carries fitting arguments
		for i := 0; i < st.NumField(); i++ {
			if f := st.Field(i); f.Anonymous {
				if t, m := c16Callable(f.Type, name); t != nil {
					return t, m
				}
			}
		}
	}
	if base.Kind() == reflect.Map && base.Elem().Kind() == reflect.Func {
		return base.Elem(), false
	}
	return nil, false
}

func (r *c16runner) env(e *c16env, idx int, rng *rand.Rand, defs *strings.Builder) {
	rep := r.rep
	e.coq = fmt.Sprintf("%d%%nat", idx)
	fmt.Fprintf(defs, "Definition env%d : envty := %s.\n", idx, c16CoqEnv(e))
	rep.hist("environments")
	if e.isMap {
		rep.hist("environment map")
	} else if e.t.Kind() == reflect.Ptr {
		rep.hist("environment *struct")
	} else {
		rep.hist("environment struct")
	}
	tt := conf.CreateTypesTable(e.sample)
	var keys []string
	for k := range tt {
		keys = append(keys, k)
	}
	var top []string
	if e.isMap {
		top = c16Candidates(nil, keys)
	} else {
		top = c16Candidates(e.t, keys)
	}
	accepted := map[string]bool{}
	for _, n := range top {
		// types-table entry and Go's answer
		tag, ok := tt[n]
		obs := "TEAbsent"
		switch {
		case ok && tag.Ambiguous:
			obs = "TEAmb"
		case ok && tag.Method:
			obs = "TEMethod " + coqTy(tag.Type)
		case ok:
			obs = "TEType " + coqTy(tag.Type)
		}
		r.cases = append(r.cases, fmt.Sprintf("CTab %s %s (%s)", e.coq, tyStr(n), obs))
		if !e.isMap {
			r.goCase(e.t, n)
			// a method of the environment must be in the table as a method of that type
			if m, isM := e.t.MethodByName(n); isM && !(ok && tag.Method && tag.Type == m.Type) {
				rep.fail(Failure{Key: "C16-incomplete", What: "a method of the environment type is missing from the types table",
					Input: map[string]string{"env": e.label, "expr": n + "()"}, Want: "method " + m.Type.String(), Got: fmt.Sprint(tag)})
			}
		}
		res := r.access(e, c16MkAccess("path", n, nil, "", ""), tt)
		accepted[n] = res.accepted
		// function position
		var ft reflect.Type
		recv := false
		if e.isMap {
			ft = e.entries[n]
		} else {
			ft, recv = c16Callable(e.t, n)
		}
		if ft != nil && ft.Kind() == reflect.Func || rng.Intn(4) == 0 {
			r.access(e, c16MkAccess("func", n, nil, "", c16Args(ft, recv)), tt)
		}
		// members
		if !ok || tag.Ambiguous || tag.Method || tag.Type == nil {
			continue
		}
		r.members(e, n, nil, tag.Type, rng, tt, 0)
	}

	// ---- (c) the documentation lists exactly the accepted top-level names ----
	var docNames []string
	func() {
		defer func() {
			if p := recover(); p != nil {
				rep.fail(Failure{Key: "C16-doc-panic", What: "docgen.CreateDoc panics", Input: map[string]string{"env": e.label}, Got: fmt.Sprint(p)})
			}
		}()
		for k := range docgen.CreateDoc(e.sample).Variables {
			docNames = append(docNames, string(k))
		}
	}()
	if docNames != nil {
		sort.Strings(docNames)
		rep.Evaluations++
		inDoc := map[string]bool{}
		for _, n := range docNames {
			inDoc[n] = true
			if _, tried := accepted[n]; !tried && !c16DocFixed[n] && c16Ident(n) {
				accepted[n] = c16Run(e, n).accepted
			}
		}
		for n, acc := range accepted {
			if inDoc[n] != (acc || c16DocFixed[n]) {
				rep.fail(Failure{Key: "C16-doc", What: "documentation names differ from the accepted top-level names",
					Input: map[string]string{"env": e.label, "expr": n}, Want: fmt.Sprintf("listed = %v", acc || c16DocFixed[n]), Got: fmt.Sprintf("listed = %v", inDoc[n])})
			}
		}
		for n := range c16DocFixed {
			if !inDoc[n] {
				rep.fail(Failure{Key: "C16-doc", What: "a builtin or operator name is missing from the documentation",
					Input: map[string]string{"env": e.label, "expr": n}, Want: "listed", Got: "not listed"})
			}
		}
		r.cases = append(r.cases, fmt.Sprintf("CDoc %s %s", e.coq, c16NameList(docNames)))
	}
}

// member accesses below an accepted prefix n0.ns of static type bt
func (r *c16runner) members(e *c16env, n0 string, ns []string, bt reflect.Type, rng *rand.Rand, tt conf.TypesTable, level int) {
	k := bt.Kind()
	if !(c16StructType(bt) != nil || k == reflect.Map || k == reflect.Interface) {
		return
	}
	cands := c16Candidates(bt, nil)
	// keep the work bounded on wide types: all real members, a sample of the near misses
	budget := 40
	if level > 0 {
		budget = 10
	}
	if len(cands) > budget {
		real := map[string]bool{}
		if st := c16StructType(bt); st != nil {
			c16TreeNames(st, 12, real)
		}
		var keep []string
		for _, c := range cands {
			if real[c] || rng.Intn(len(cands)) < budget/2 {
				keep = append(keep, c)
			}
		}
		if level > 0 && len(keep) > budget {
			rng.Shuffle(len(keep), func(i, j int) { keep[i], keep[j] = keep[j], keep[i] })
			keep = keep[:budget]
			sort.Strings(keep)
		}
		cands = keep
	}
	for _, m := range cands {
		res := r.access(e, c16MkAccess("path", n0, append(append([]string{}, ns...), m), "", ""), tt)
		ft, recv := c16Callable(bt, m)
		if ft != nil || rng.Intn(5) == 0 {
			r.access(e, c16MkAccess("method", n0, ns, m, c16Args(ft, recv)), tt)
		}
		if res.accepted && res.ctype != nil && level < 2 && (level == 0 || rng.Intn(3) == 0) {
			r.members(e, n0, append(append([]string{}, ns...), m), res.ctype, rng, tt, level+1)
		}
	}
}

func runC16() {
	rep := newReport("C16")
	rng := rand.New(rand.NewSource(*seed))
	r := &c16runner{rep: rep, distinct: map[string]bool{}, goSeen: map[string]bool{}, inputs: map[string][]string{}}

	var envs []*c16env
	for _, t := range c16StructPool {
		envs = append(envs, c16StructEnv(t, false), c16StructEnv(t, true))
	}
	nShapes := 40
	if *tier == "thorough" {
		nShapes = 150
	}
	for _, t := range c16GenShapes(rng, nShapes) {
		envs = append(envs, c16StructEnv(t, rng.Intn(2) == 0))
	}
	labels := map[string]int{}
	for _, s := range c16MapEnvs() {
		e := c16MapEnv(s)
		labels[e.label]++
		if labels[e.label] > 1 {
			e.label = fmt.Sprintf("%s#%d", e.label, labels[e.label])
		}
		envs = append(envs, e)
	}

	if *replay != "" {
		var in map[string]string
		if err := json.Unmarshal([]byte(*replay), &in); err != nil {
			fmt.Fprintln(os.Stderr, "bad -replay:", err)
			os.Exit(2)
		}
		for _, e := range envs {
			if e.label == in["env"] {
				res := c16Run(e, in["expr"])
				fmt.Printf("env %s\nexpr %s\ncompile: accepted=%v type=%s %s\nrun: type=%s err=%s %s\n", e.label, in["expr"], res.accepted,
					c16TypeName(res.ctype), strings.SplitN(res.cerr, "\n", 2)[0], c16TypeName(res.rtype), res.rerr, strings.SplitN(res.rmsg, "\n", 2)[0])
				return
			}
		}
		fmt.Fprintln(os.Stderr, "environment not found (StructOf shapes depend on -seed):", in["env"])
		os.Exit(2)
	}

	var defs strings.Builder
	for i, e := range envs {
		r.env(e, i, rng, &defs)
	}

	// quick tier: all CTab/CGo/CDoc cases, a seeded sample of the accesses, in the Coq model
	cases := r.cases
	maxAcc, absentPct := 4000, 15
	if *tier == "thorough" {
		maxAcc, absentPct = 24000, 30
	}
	var acc, rest []string
	for _, c := range cases {
		switch {
		case strings.HasPrefix(c, "CAcc "):
			acc = append(acc, c)
		case strings.HasPrefix(c, "CGo ") && strings.HasSuffix(c, "(GNone)") && rng.Intn(100) >= absentPct:
			// the reference rule searches every depth up to the number of declarations for an absent name: sampled
		default:
			rest = append(rest, c)
		}
	}
	if len(acc) > maxAcc {
		rng.Shuffle(len(acc), func(i, j int) { acc[i], acc[j] = acc[j], acc[i] })
		acc = acc[:maxAcc]
	}
	cases = append(rest, acc...)
	rep.Extra["coq_access_cases"] = len(acc)
	if *shards > 8 && *tier != "thorough" {
		*shards = 8
	}
	rep.Extra["environments"] = len(envs)
	rep.Extra["unsound_inputs_by_key"] = r.inputs

	rep.Distinct = len(r.distinct)
	rep.Exhaustive = false
	rep.Rule = "environments: every declared pool type as T and *T (embedding by value and by pointer to depth 3, shadowing in both declaration orders, same-depth ambiguity at depth 1 and 2, different-depth duplicates, unexported fields and embedded structs, methods on value and pointer receivers incl. promoted and ambiguous ones, function-valued fields, nested members through structs, pointers and maps), seeded reflect.StructOf shapes over the method-less pool types, and 8 sample maps (map[string]interface{} with struct/pointer/func/map members, typed maps); names: every name in the embedding tree, every method, every table key, and their near misses (case of the first letter changed, last character dropped, one appended), as identifier, as call, as member and member call to depth 3; each access: Compile verdict and checker type, Run on the fully populated value, judged against reflect.FieldByName/MethodByName (Go's selector rule). distinct_nontrivial counts distinct (environment, expression) pairs that involve at least one of: promoted/duplicated/ambiguous/unexported member, method, map, function value, near-miss name, or a member path"
	for i := 0; i < 8 && i < len(cases); i++ {
		rep.Samples = append(rep.Samples, cases[(i*7919+13)%len(cases)])
	}
	c16ReusedVM(rep)
	header := "From Coq Require Import ZArith List String.\nRequire Import X.Base.Num X.Base.Value X.Ty.Types X.Ty.TypesTable X.Corr.CorrC16.\nImport ListNotations.\nOpen Scope string_scope.\n" +
		"Definition te : tenv := " + coqTenv() + ".\n" + defs.String()
	var en []string
	for i := range envs {
		en = append(en, fmt.Sprintf("env%d", i))
	}
	header += "Definition envs : list envty := " + coqList(en) + ".\n"
	rep.writeShards("cases_c16", header, "c16case", fmt.Sprintf("c16_mismatches te envs %s %d%%nat", c16NameList(c16Keys), c16Depth), cases)
	rep.write()
}

// An accepted function / method name resolves on THE environment of the run: also on a caller-owned vm.VM whose earlier run
// failed inside a loop after calling the same name on ANOTHER environment value (of the same or of another type).
type C16CallA struct {
	Xs []int
	K  int
}

func (e C16CallA) Weight(i int) int { return e.K * i }

type C16CallB struct {
	Xs []int
	K  int
}

func (e C16CallB) Weight(i int) int { return e.K + i }

func c16ReusedVM(rep *Report) {
	type step struct {
		env  interface{}
		note string
	}
	fnA := func(i int) int { return 10 * i }
	fnB := func(i int) int { return 1000 + i }
	histories := []struct {
		name  string
		src   string
		steps []step
	}{
		{"method of two struct types", "map(Xs, {Weight(#) + 100 % #})", []step{
			{C16CallA{Xs: []int{1, 2, 0}, K: 10}, "fails inside the loop (100 % 0) after Weight was called"},
			{C16CallB{Xs: []int{1, 2, 3}, K: 5}, "another environment type"},
			{C16CallA{Xs: []int{4}, K: 7}, "the first type again, another value"}}},
		{"function member of two map values", "count(Xs, {F(#) > 50 and 100 % # >= 0})", []step{
			{map[string]interface{}{"Xs": []int{7, 0}, "F": fnA}, "fails inside the loop"},
			{map[string]interface{}{"Xs": []int{7, 8}, "F": fnB}, "another function under the same name"},
			{map[string]interface{}{"Xs": []int{1, 9}, "F": fnA}, "the first function again"}}},
		{"nested loops", "map(Xs, {count(Xs, {Weight(#) > 5}) + 100 % #})", []step{
			{C16CallA{Xs: []int{3, 0}, K: 10}, "fails in the outer loop after the inner loop called Weight"},
			{C16CallA{Xs: []int{3, 4}, K: 1}, "same type, another value"}}},
	}
	for _, h := range histories {
		machine := &vm.VM{}
		for si, st := range h.steps {
			rep.Evaluations++
			rep.hist("reused VM after a failing run inside a loop")
			prog, err := expr.Compile(h.src, expr.Env(st.env))
			if err != nil {
				rep.fail(Failure{Key: "C16-unsound", What: "the reused-VM history does not compile", Input: map[string]interface{}{"history": h.name, "src": h.src, "step": si}, Got: err.Error()})
				break
			}
			run := func(m *vm.VM) string {
				var out interface{}
				var rerr error
				func() {
					defer func() {
						if r := recover(); r != nil {
							rerr = fmt.Errorf("panic: %v", r)
						}
					}()
					out, rerr = m.Run(prog, st.env)
				}()
				if rerr != nil {
					return "error: " + strings.SplitN(rerr.Error(), "\n", 2)[0]
				}
				return fmt.Sprintf("%v", out)
			}
			want := run(&vm.VM{})
			got := run(machine)
			if got != want {
				rep.fail(Failure{Key: "C16-unsound", What: "an accepted function name resolves on an EARLIER run's environment when the VM is reused after a run that failed inside a loop",
					Input: map[string]interface{}{"history": h.name, "src": h.src, "step": si + 1, "note": st.note}, Want: "as on a fresh VM: " + want, Got: got})
				break
			}
		}
	}
}

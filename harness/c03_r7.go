package main

// Round-7 campaign of the C03 vertical: ONE vm.VM value runs programs that were compiled against DIFFERENT environment types whose
// members share names but not signatures.  What the checker accepted for a program must hold for its run whatever the VM ran before:
// no failure of a type class, dynamic result type = the checker's type, and the result a fresh VM returns.

import (
	"fmt"
	"reflect"

	"github.com/antonmedv/expr"
	"github.com/antonmedv/expr/vm"
)

type C03R1 struct {
	Conv func(int) int
	Size func() string
	Pick func(...interface{}) interface{}
	N    int
	Of   C03R1In
}
type C03R1In struct{ V int }

func (C03R1) Name() string { return "one" }

type C03R2 struct {
	Conv func(string) string
	Size func() int
	Pick func(...interface{}) interface{}
	N    string
	Of   C03R2In
}
type C03R2In struct{ V string }

func (C03R2) Name() int { return 2 }

func c03Round7(rep *Report) {
	e1 := C03R1{Conv: func(x int) int { return x + 1 }, Size: func() string { return "big" }, Pick: func(a ...interface{}) interface{} { return len(a) }, N: 3, Of: C03R1In{4}}
	e2 := C03R2{Conv: func(x string) string { return x + "!" }, Size: func() int { return 3 }, Pick: func(a ...interface{}) interface{} { return "p" }, N: "n", Of: C03R2In{"v"}}
	srcs := []string{"Conv(N)", "Size()", "Name()", "Conv(Of.V)", "[Conv(N), Size()]", "Conv(N) == N", "Pick(N)", "Of.V", "N", "len(Size()) > 0 ? Conv(N) : N"}
	type job struct {
		src string
		env interface{}
		p   *vm.Program
		t   reflect.Type
	}
	var jobs []job
	for _, env := range []interface{}{e1, e2} {
		for _, s := range srcs {
			p, err := c03SafeCompile(s, []expr.Option{expr.Env(env)})
			if err != nil {
				continue
			}
			jobs = append(jobs, job{s, env, p, nil})
		}
	}
	// history: all programs of type 1, all of type 2, then interleaved, on one VM
	var order []int
	for i := range jobs {
		order = append(order, i)
	}
	for i := range jobs {
		order = append(order, (i*7+3)%len(jobs))
	}
	machine := vm.VM{}
	for step, ji := range order {
		j := jobs[ji]
		var out, fresh interface{}
		var err, ferr error
		func() {
			defer func() {
				if r := recover(); r != nil {
					err = fmt.Errorf("panic: %v", r)
				}
			}()
			out, err = machine.Run(j.p, j.env)
		}()
		fresh, ferr = vm.Run(j.p, j.env)
		rep.Evaluations++
		rep.hist("one VM across environment types")
		in := map[string]interface{}{"src": j.src, "env_type": reflect.TypeOf(j.env).Name(), "step": step, "campaign": "one VM value, programs of two environment types sharing member names"}
		if err != nil && ferr == nil {
			rep.fail(Failure{Key: "C03-type-failure-at-run-time", What: "an accepted program fails on a VM that ran programs of another environment type before (a fresh VM returns a value)",
				Input: in, Want: fmt.Sprintf("%T(%v)", fresh, fresh), Got: firstLineOf(err.Error())})
			continue
		}
		if err == nil && ferr == nil && (reflect.TypeOf(out) != reflect.TypeOf(fresh) || !reflect.DeepEqual(out, fresh)) {
			rep.fail(Failure{Key: "C03-result-type", What: "the result on a VM that ran programs of another environment type before is not the value / type a fresh VM returns",
				Input: in, Want: fmt.Sprintf("%T(%v)", fresh, fresh), Got: fmt.Sprintf("%T(%v)", out, out)})
		}
	}
}

package main

// C10 — AST traversal reaches every node exactly once.
// Runs the REAL ast.Walk (i) with a recording visitor and (ii) with patching visitors that replace
// nodes through ast.Patch, on trees with every node kind in every child position (built directly
// as ast values with unique locations) and on trees produced by parser.Parse / optimizer.Optimize.
// Oracle independent of ast/visitor.go: the Node / []Node typed fields of every node are
// enumerated by REFLECTION in declaration order (c10RefWalk); the event stream and the patched
// tree of the real walker must equal those of the reflection walker.  End to end: expr.Compile
// with expr.Patch(visitor) replacing a marked sub-expression wherever it occurs, then Run.
// Every observation is also written as a Coq term for the model comparison (Corr/CorrC10.v).

import (
	"encoding/json"
	"fmt"
	"math/rand"
	"reflect"
	"sort"
	"strconv"
	"strings"
	"time"

	"github.com/antonmedv/expr"
	"github.com/antonmedv/expr/ast"
	"github.com/antonmedv/expr/checker"
	"github.com/antonmedv/expr/conf"
	"github.com/antonmedv/expr/file"
	"github.com/antonmedv/expr/optimizer"
	"github.com/antonmedv/expr/parser"
)

func init() { commands["c10"] = runC10 }

// ---------------------------------------------------------------- node kinds, slots by reflection
var c10NodeType = reflect.TypeOf((*ast.Node)(nil)).Elem()
var c10NodeSliceType = reflect.TypeOf([]ast.Node(nil))

// one prototype per node kind (the harness's own list of the 22 kinds; order of Syn/Ast.v all_nkinds)
var c10Protos = []ast.Node{
	&ast.NilNode{}, &ast.IdentifierNode{}, &ast.IntegerNode{}, &ast.FloatNode{}, &ast.BoolNode{}, &ast.StringNode{},
	&ast.ConstantNode{}, &ast.UnaryNode{}, &ast.BinaryNode{}, &ast.MatchesNode{}, &ast.PropertyNode{}, &ast.IndexNode{},
	&ast.SliceNode{}, &ast.MethodNode{}, &ast.FunctionNode{}, &ast.BuiltinNode{}, &ast.ClosureNode{}, &ast.PointerNode{},
	&ast.ConditionalNode{}, &ast.ArrayNode{}, &ast.MapNode{}, &ast.PairNode{},
}

type c10Slot struct {
	name  string
	index int
	many  bool
}

type c10Kind struct {
	name  string // "Slice"
	typ   reflect.Type
	slots []c10Slot
}

var c10Kinds []*c10Kind
var c10KindByName = map[string]*c10Kind{}

func init() {
	for _, p := range c10Protos {
		t := reflect.TypeOf(p).Elem()
		k := &c10Kind{name: strings.TrimSuffix(t.Name(), "Node"), typ: t}
		for i := 0; i < t.NumField(); i++ {
			f := t.Field(i)
			switch f.Type {
			case c10NodeType:
				k.slots = append(k.slots, c10Slot{f.Name, i, false})
			case c10NodeSliceType:
				k.slots = append(k.slots, c10Slot{f.Name, i, true})
			}
		}
		c10Kinds = append(c10Kinds, k)
		c10KindByName[k.name] = k
	}
}

func c10KindOf(n ast.Node) string {
	if n == nil || reflect.ValueOf(n).IsNil() {
		return "nil"
	}
	return strings.TrimSuffix(reflect.TypeOf(n).Elem().Name(), "Node")
}

// ---------------------------------------------------------------- tree specs
// Kids has one entry per slot of the kind (declaration order): nil = absent Node field,
// one element for a Node field, any number for a []Node field.
type c10Spec struct {
	Kind string
	Kids [][]*c10Spec
}

func (s *c10Spec) String() string {
	k := c10KindByName[s.Kind]
	if len(k.slots) == 0 {
		return s.Kind
	}
	parts := make([]string, len(k.slots))
	for i, sl := range k.slots {
		var kids []*c10Spec
		if i < len(s.Kids) {
			kids = s.Kids[i]
		}
		if sl.many {
			items := make([]string, len(kids))
			for j, c := range kids {
				items[j] = c.String()
			}
			parts[i] = "[" + strings.Join(items, ",") + "]"
		} else if len(kids) == 0 {
			parts[i] = "-"
		} else {
			parts[i] = kids[0].String()
		}
	}
	return s.Kind + "(" + strings.Join(parts, ",") + ")"
}

type c10SpecParser struct {
	s   string
	pos int
}

func (p *c10SpecParser) node() (*c10Spec, error) {
	start := p.pos
	for p.pos < len(p.s) && (p.s[p.pos] >= 'A' && p.s[p.pos] <= 'Z' || p.s[p.pos] >= 'a' && p.s[p.pos] <= 'z') {
		p.pos++
	}
	name := p.s[start:p.pos]
	k, ok := c10KindByName[name]
	if !ok {
		return nil, fmt.Errorf("unknown node kind %q at %d", name, start)
	}
	sp := &c10Spec{Kind: name, Kids: make([][]*c10Spec, len(k.slots))}
	if len(k.slots) == 0 {
		return sp, nil
	}
	if p.pos >= len(p.s) || p.s[p.pos] != '(' {
		return nil, fmt.Errorf("expected ( at %d", p.pos)
	}
	p.pos++
	for i, sl := range k.slots {
		if i > 0 {
			if p.pos >= len(p.s) || p.s[p.pos] != ',' {
				return nil, fmt.Errorf("expected , at %d", p.pos)
			}
			p.pos++
		}
		switch {
		case sl.many:
			if p.pos >= len(p.s) || p.s[p.pos] != '[' {
				return nil, fmt.Errorf("expected [ at %d", p.pos)
			}
			p.pos++
			for p.pos < len(p.s) && p.s[p.pos] != ']' {
				if len(sp.Kids[i]) > 0 {
					if p.s[p.pos] != ',' {
						return nil, fmt.Errorf("expected , at %d", p.pos)
					}
					p.pos++
				}
				c, err := p.node()
				if err != nil {
					return nil, err
				}
				sp.Kids[i] = append(sp.Kids[i], c)
			}
			p.pos++
		case p.pos < len(p.s) && p.s[p.pos] == '-':
			p.pos++
		default:
			c, err := p.node()
			if err != nil {
				return nil, err
			}
			sp.Kids[i] = []*c10Spec{c}
		}
	}
	if p.pos >= len(p.s) || p.s[p.pos] != ')' {
		return nil, fmt.Errorf("expected ) at %d", p.pos)
	}
	p.pos++
	return sp, nil
}

func c10ParseSpec(s string) (*c10Spec, error) {
	p := &c10SpecParser{s: strings.ReplaceAll(s, " ", "")}
	sp, err := p.node()
	if err == nil && p.pos != len(p.s) {
		err = fmt.Errorf("trailing text at %d", p.pos)
	}
	return sp, err
}

// c10Build makes a fresh ast value; every node gets the unique location (line, counter).
func c10Build(s *c10Spec, line int, counter *int) ast.Node {
	k := c10KindByName[s.Kind]
	pv := reflect.New(k.typ)
	n := pv.Interface().(ast.Node)
	id := *counter
	*counter++
	n.SetLocation(file.Location{Line: line, Column: id})
	switch x := n.(type) {
	case *ast.IdentifierNode:
		x.Value = "v" + strconv.Itoa(id)
	case *ast.IntegerNode:
		x.Value = id
	case *ast.FloatNode:
		x.Value = 1.5
	case *ast.BoolNode:
		x.Value = true
	case *ast.StringNode:
		x.Value = "s" + strconv.Itoa(id)
	case *ast.ConstantNode:
		x.Value = 7
	case *ast.UnaryNode:
		x.Operator = "-"
	case *ast.BinaryNode:
		x.Operator = []string{"+", "and", "==", "..", "in"}[id%5]
	case *ast.PropertyNode:
		x.Property = "P"
	case *ast.MethodNode:
		x.Method = "M"
	case *ast.FunctionNode:
		x.Name = "F"
	case *ast.BuiltinNode:
		x.Name = "len"
	}
	for i, sl := range k.slots {
		var kids []*c10Spec
		if i < len(s.Kids) {
			kids = s.Kids[i]
		}
		f := pv.Elem().Field(sl.index)
		if sl.many {
			nodes := make([]ast.Node, len(kids))
			for j, c := range kids {
				nodes[j] = c10Build(c, line, counter)
			}
			f.Set(reflect.ValueOf(nodes))
		} else if len(kids) > 0 {
			f.Set(reflect.ValueOf(c10Build(kids[0], line, counter)))
		}
	}
	return n
}

// deep copy by reflection (unshares a DAG)
func c10Clone(n ast.Node) ast.Node {
	if n == nil || reflect.ValueOf(n).IsNil() {
		return n
	}
	src := reflect.ValueOf(n).Elem()
	pv := reflect.New(src.Type())
	pv.Elem().Set(src)
	for i := 0; i < src.NumField(); i++ {
		f := pv.Elem().Field(i)
		switch f.Type() {
		case c10NodeType:
			if !f.IsNil() {
				f.Set(reflect.ValueOf(c10Clone(f.Interface().(ast.Node))))
			}
		case c10NodeSliceType:
			if !f.IsNil() {
				nodes := make([]ast.Node, f.Len())
				for j := range nodes {
					nodes[j] = c10Clone(f.Index(j).Interface().(ast.Node))
				}
				f.Set(reflect.ValueOf(nodes))
			}
		}
	}
	return pv.Interface().(ast.Node)
}

// ---------------------------------------------------------------- the oracle walker (reflection)
func c10RefWalk(node *ast.Node, v ast.Visitor) {
	v.Enter(node)
	st := reflect.ValueOf(*node).Elem()
	for i := 0; i < st.NumField(); i++ {
		f := st.Field(i)
		switch f.Type() {
		case c10NodeType:
			if !f.IsNil() {
				c10RefWalk(f.Addr().Interface().(*ast.Node), v)
			}
		case c10NodeSliceType:
			for j := 0; j < f.Len(); j++ {
				c10RefWalk(f.Index(j).Addr().Interface().(*ast.Node), v)
			}
		}
	}
	v.Exit(node)
}

// all nodes of a tree by reflection, pre-order, with (parent kind, field, child kind) triples
func c10Nodes(n ast.Node, visit func(parent ast.Node, field string, child ast.Node)) int {
	cnt := 1
	st := reflect.ValueOf(n).Elem()
	for i := 0; i < st.NumField(); i++ {
		f := st.Field(i)
		switch f.Type() {
		case c10NodeType:
			if !f.IsNil() {
				c := f.Interface().(ast.Node)
				visit(n, st.Type().Field(i).Name, c)
				cnt += c10Nodes(c, visit)
			}
		case c10NodeSliceType:
			for j := 0; j < f.Len(); j++ {
				c := f.Index(j).Interface().(ast.Node)
				visit(n, st.Type().Field(i).Name, c)
				cnt += c10Nodes(c, visit)
			}
		}
	}
	return cnt
}

// ---------------------------------------------------------------- visitors
type c10Event struct {
	enter bool
	kind  string
	loc   file.Location
	ptr   ast.Node
}

func (e c10Event) String() string {
	ph := "Exit"
	if e.enter {
		ph = "Enter"
	}
	return fmt.Sprintf("%s %s@%d:%d", ph, e.kind, e.loc.Line, e.loc.Column)
}

// visitor descriptions (mirrored by Corr/CorrC10.v vdesc)
type c10VDesc struct {
	Kind   string `json:"kind"` // log | ints | at | bin2call
	AtExit bool   `json:"at_exit,omitempty"`
	K      int    `json:"k,omitempty"`
	P      int    `json:"p,omitempty"`
	T      string `json:"t,omitempty"` // spec of the replacement tree
	Name   string `json:"name,omitempty"`
}

func (d c10VDesc) String() string {
	ph := "Enter"
	if d.AtExit {
		ph = "Exit"
	}
	switch d.Kind {
	case "log":
		return "log only"
	case "ints":
		return fmt.Sprintf("replace every IntegerNode by IntegerNode{%d} at %s", d.K, ph)
	case "at":
		return fmt.Sprintf("replace the node of the %d-th Enter call by %s at its %s", d.P, d.T, ph)
	case "bin2call":
		return fmt.Sprintf("replace every BinaryNode by FunctionNode{%s, [Left, Right]} at Exit", d.Name)
	}
	return d.Kind
}

func (d c10VDesc) coq() string {
	switch d.Kind {
	case "ints":
		return fmt.Sprintf("(VReplaceInts %s %s)", cqBool(d.AtExit), cqZ(int64(d.K)))
	case "at":
		sp, _ := c10ParseSpec(d.T)
		cnt := 0
		return fmt.Sprintf("(VReplaceAt %s %d %s)", cqBool(d.AtExit), d.P, cqExpr(c10Build(sp, 2, &cnt)))
	case "bin2call":
		return "(VBinToCall " + cqStr(d.Name) + ")"
	}
	return "VLog"
}

// recording + (optionally) patching visitor; a fresh one per run
type c10Vis struct {
	d     c10VDesc
	count int
	stack []int
	evs   []c10Event
}

func (v *c10Vis) record(enter bool, node *ast.Node) {
	var n ast.Node
	if node != nil {
		n = *node
	}
	ev := c10Event{enter: enter, kind: c10KindOf(n), ptr: n}
	if ev.kind != "nil" {
		ev.loc = n.Location()
	}
	v.evs = append(v.evs, ev)
}

func (v *c10Vis) replacement() ast.Node {
	sp, err := c10ParseSpec(v.d.T)
	if err != nil {
		panic(err)
	}
	cnt := 0
	return c10Build(sp, 2, &cnt)
}

func (v *c10Vis) Enter(node *ast.Node) {
	v.record(true, node)
	c := v.count
	v.count++
	v.stack = append(v.stack, c)
	switch {
	case v.d.Kind == "ints" && !v.d.AtExit:
		if _, ok := (*node).(*ast.IntegerNode); ok {
			ast.Patch(node, &ast.IntegerNode{Value: v.d.K})
		}
	case v.d.Kind == "at" && !v.d.AtExit && c == v.d.P:
		ast.Patch(node, v.replacement())
	}
}

func (v *c10Vis) Exit(node *ast.Node) {
	v.record(false, node)
	i := -1
	if len(v.stack) > 0 {
		i = v.stack[len(v.stack)-1]
		v.stack = v.stack[:len(v.stack)-1]
	}
	switch {
	case v.d.Kind == "ints" && v.d.AtExit:
		if _, ok := (*node).(*ast.IntegerNode); ok {
			ast.Patch(node, &ast.IntegerNode{Value: v.d.K})
		}
	case v.d.Kind == "at" && v.d.AtExit && i == v.d.P:
		ast.Patch(node, v.replacement())
	case v.d.Kind == "bin2call":
		if b, ok := (*node).(*ast.BinaryNode); ok {
			ast.Patch(node, &ast.FunctionNode{Name: v.d.Name, Arguments: []ast.Node{b.Left, b.Right}})
		}
	}
}

// ---------------------------------------------------------------- one case
type c10Tree struct {
	node   ast.Node // never walked itself: every run works on a clone
	desc   string   // spec or source text
	origin string   // direct | parsed | optimized
}

func c10NkCoq(kind string) string { return "Nk" + kind }

func c10EventsCoq(evs []c10Event) string {
	items := make([]string, len(evs))
	for i, e := range evs {
		items[i] = fmt.Sprintf("(%s, %s, (%d, %d))", cqBool(e.enter), c10NkCoq(e.kind), e.loc.Line, e.loc.Column)
	}
	return "[" + strings.Join(items, "; ") + "]"
}

func c10SameEvents(a, b []c10Event) int {
	for i := 0; i < len(a) && i < len(b); i++ {
		if a[i].enter != b[i].enter || a[i].kind != b[i].kind || a[i].loc != b[i].loc {
			return i
		}
	}
	if len(a) != len(b) {
		if len(a) < len(b) {
			return len(a)
		}
		return len(b)
	}
	return -1
}

func c10Safe(f func()) (panicked interface{}) {
	defer func() {
		if r := recover(); r != nil {
			panicked = r
		}
	}()
	f()
	return nil
}

func c10EvStrings(evs []c10Event, from int) string {
	var parts []string
	for i := from; i < len(evs) && i < from+4; i++ {
		parts = append(parts, evs[i].String())
	}
	if from >= len(evs) {
		return fmt.Sprintf("(stream ends after %d events)", len(evs))
	}
	return fmt.Sprintf("event #%d: %s", from, strings.Join(parts, ", "))
}

// runs the real walker and the reflection walker on clones of t with visitor d; judges; returns the Coq case
func c10RunCase(rep *Report, t *c10Tree, d c10VDesc) (coqCase string, ok bool) {
	rep.Evaluations++
	input := map[string]interface{}{"tree": t.desc, "origin": t.origin, "visitor": d}
	rp, _ := json.Marshal(input)
	replayArg := string(rp)

	realTree := c10Clone(t.node)
	realVis := &c10Vis{d: d}
	realPanic := c10Safe(func() { ast.Walk(&realTree, realVis) })

	wantTree := c10Clone(t.node)
	wantVis := &c10Vis{d: d}
	if p := c10Safe(func() { c10RefWalk(&wantTree, wantVis) }); p != nil {
		panic(fmt.Sprintf("c10: reflection walker panicked on %s: %v", t.desc, p))
	}

	treeCoq := cqExpr(t.node)
	if realPanic != nil {
		rep.fail(Failure{Key: "C10-walk-panic", What: "ast.Walk panicked", Input: input,
			Want: fmt.Sprintf("%d events, no panic", len(wantVis.evs)), Got: fmt.Sprintf("panic: %v", realPanic), Replay: replayArg})
		return fmt.Sprintf("mkC10 %s %s OPanicked", treeCoq, d.coq()), true
	}
	coqCase = fmt.Sprintf("mkC10 %s %s (OWalk %s %s)", treeCoq, d.coq(), c10EventsCoq(realVis.evs), cqExpr(realTree))

	if i := c10SameEvents(realVis.evs, wantVis.evs); i >= 0 {
		// classify: a node of the expected stream that the real walker never entered / entered twice / order
		key := "C10-visit-order"
		cnt := map[string]int{}
		for _, e := range realVis.evs {
			if e.enter {
				cnt[e.String()]++
			}
		}
		wcnt := map[string]int{}
		for _, e := range wantVis.evs {
			if e.enter {
				wcnt[e.String()]++
			}
		}
		for k, w := range wcnt {
			if cnt[k] < w {
				key = "C10-node-not-visited"
			}
		}
		if key == "C10-visit-order" {
			for k, c := range cnt {
				if c > wcnt[k] {
					key = "C10-node-visited-twice"
				}
			}
		}
		rep.fail(Failure{Key: key, What: "Enter/Exit stream of ast.Walk differs from the enumeration of the Node-typed fields in declaration order", Input: input,
			Want: c10EvStrings(wantVis.evs, i) + fmt.Sprintf(" (%d events)", len(wantVis.evs)),
			Got:  c10EvStrings(realVis.evs, i) + fmt.Sprintf(" (%d events)", len(realVis.evs)), Replay: replayArg})
		return coqCase, true
	}
	if got, want := cqExpr(realTree), cqExpr(wantTree); got != want {
		rep.fail(Failure{Key: "C10-replacement-not-effective", What: "tree after ast.Walk differs from the tree with the visitor's replacements applied at every position", Input: input,
			Want: want, Got: got, Replay: replayArg})
		return coqCase, true
	}
	// exactly once, by node identity, for the recording visitor
	if d.Kind == "log" {
		seenE, seenX := map[ast.Node]int{}, map[ast.Node]int{}
		for _, e := range realVis.evs {
			if e.enter {
				seenE[e.ptr]++
			} else {
				seenX[e.ptr]++
			}
		}
		total := c10Nodes(realTree, func(ast.Node, string, ast.Node) {})
		if len(seenE) != total || len(seenX) != total || len(realVis.evs) != 2*total {
			rep.fail(Failure{Key: "C10-node-not-visited", What: "not every node is entered and exited exactly once", Input: input,
				Want: fmt.Sprintf("%d nodes, %d events", total, 2*total), Got: fmt.Sprintf("%d entered, %d exited, %d events", len(seenE), len(seenX), len(realVis.evs)), Replay: replayArg})
		}
	}
	return coqCase, true
}

// ---------------------------------------------------------------- generators of direct trees
type c10Gen struct {
	rng *rand.Rand
}

func c10Leaf(kind string) *c10Spec {
	k := c10KindByName[kind]
	return &c10Spec{Kind: kind, Kids: make([][]*c10Spec, len(k.slots))}
}

// a node of the given kind with every Node slot filled by an integer leaf and two elements per []Node slot
func c10Filled(kind string) *c10Spec {
	k := c10KindByName[kind]
	s := &c10Spec{Kind: kind, Kids: make([][]*c10Spec, len(k.slots))}
	for i, sl := range k.slots {
		if sl.many {
			s.Kids[i] = []*c10Spec{c10Leaf("Integer"), c10Leaf("Identifier")}
		} else {
			s.Kids[i] = []*c10Spec{c10Leaf("Integer")}
		}
	}
	return s
}

type c10Pos struct {
	slot, idx int
}

// the child positions of a filled node
func c10Positions(kind string) []c10Pos {
	var ps []c10Pos
	for i, sl := range c10KindByName[kind].slots {
		ps = append(ps, c10Pos{i, 0})
		if sl.many {
			ps = append(ps, c10Pos{i, 1})
		}
	}
	return ps
}

func c10Copy(s *c10Spec) *c10Spec {
	c := &c10Spec{Kind: s.Kind, Kids: make([][]*c10Spec, len(s.Kids))}
	for i, ks := range s.Kids {
		for _, k := range ks {
			c.Kids[i] = append(c.Kids[i], c10Copy(k))
		}
	}
	return c
}

// level 1: every kind alone (filled), list lengths 0..3, the nil patterns of optional slots
func c10Level1() []*c10Spec {
	var out []*c10Spec
	for _, k := range c10Kinds {
		out = append(out, c10Filled(k.name))
		for i, sl := range k.slots {
			if sl.many {
				for n := 0; n <= 3; n++ {
					if n == 2 {
						continue
					}
					s := c10Filled(k.name)
					s.Kids[i] = nil
					for j := 0; j < n; j++ {
						s.Kids[i] = append(s.Kids[i], c10Leaf("Integer"))
					}
					out = append(out, s)
				}
			}
		}
	}
	// SliceNode: From / To absent
	for mask := 1; mask < 4; mask++ {
		s := c10Filled("Slice")
		if mask&1 != 0 {
			s.Kids[1] = nil
		}
		if mask&2 != 0 {
			s.Kids[2] = nil
		}
		out = append(out, s)
	}
	return out
}

// level 2: every kind in every child position of every kind
func c10Level2() []*c10Spec {
	var out []*c10Spec
	for _, p := range c10Kinds {
		for _, pos := range c10Positions(p.name) {
			for _, c := range c10Kinds {
				s := c10Filled(p.name)
				s.Kids[pos.slot][pos.idx] = c10Filled(c.name)
				out = append(out, s)
			}
		}
	}
	return out
}

// level 3: every kind in every child position of every kind in every child position of every kind
func c10Level3(visit func(*c10Spec)) int {
	n := 0
	for _, p := range c10Kinds {
		for _, pos := range c10Positions(p.name) {
			for _, c := range c10Kinds {
				for _, pos2 := range c10Positions(c.name) {
					for _, g := range c10Kinds {
						n++
						if visit == nil {
							continue
						}
						s := c10Filled(p.name)
						mid := c10Filled(c.name)
						mid.Kids[pos2.slot][pos2.idx] = c10Filled(g.name)
						s.Kids[pos.slot][pos.idx] = mid
						visit(s)
					}
				}
			}
		}
	}
	return n
}

func (g *c10Gen) random(depth int) *c10Spec {
	k := c10Kinds[g.rng.Intn(len(c10Kinds))]
	if depth <= 0 {
		for len(k.slots) > 0 {
			k = c10Kinds[g.rng.Intn(len(c10Kinds))]
		}
	}
	s := &c10Spec{Kind: k.name, Kids: make([][]*c10Spec, len(k.slots))}
	for i, sl := range k.slots {
		switch {
		case sl.many:
			for n := g.rng.Intn(4); n > 0; n-- {
				s.Kids[i] = append(s.Kids[i], g.random(depth-1))
			}
		case k.name == "Slice" && sl.name != "Node" && g.rng.Intn(3) == 0:
			// absent bound
		default:
			s.Kids[i] = []*c10Spec{g.random(depth - 1)}
		}
	}
	return s
}

func (g *c10Gen) smallReplacement() string {
	return []string{"Integer", "Identifier", "Unary(Integer)", "Binary(Identifier,Integer)", "Slice(Identifier,Integer,-)",
		"Function([Integer,Identifier])", "Array([])", "Conditional(Bool,Integer,Nil)", "Builtin([Identifier,Closure(Pointer)])",
		"Map([Pair(String,Integer)])", "Index(Identifier,Integer)", "Method(Identifier,[Integer])"}[g.rng.Intn(12)]
}

func (g *c10Gen) patchVisitor(nodes int) c10VDesc {
	switch g.rng.Intn(8) {
	case 0:
		return c10VDesc{Kind: "ints", AtExit: true, K: 1000 + g.rng.Intn(9)}
	case 1:
		return c10VDesc{Kind: "ints", AtExit: false, K: 2000 + g.rng.Intn(9)}
	case 2:
		return c10VDesc{Kind: "bin2call", Name: "Op"}
	case 3, 4:
		return c10VDesc{Kind: "at", AtExit: false, P: g.rng.Intn(nodes), T: g.smallReplacement()}
	}
	return c10VDesc{Kind: "at", AtExit: true, P: g.rng.Intn(nodes), T: g.smallReplacement()}
}

// ---------------------------------------------------------------- end to end: expr.Compile + expr.Patch + Run
type c10Obj struct{ Base int }

func (o c10Obj) Plus(a int) int { return o.Base + a }

type c10Vec []int

func c10Env() map[string]interface{} {
	return map[string]interface{}{
		"M": 1, "MS": "m", "A": []int{10, 20, 30, 40, 50}, "I": 2, "S": "str",
		"Add": func(a, b int) int { return a + b }, "Obj": c10Obj{Base: 100},
		"V": c10Vec{1, 2, 3}, "W": c10Vec{10, 20, 30},
		"StrEq": func(a, b string) bool { return strings.EqualFold(a, b) },
		"Dbl":   func(a int) int { return 2 * a },
		"Sq":    func(a int) int { return a * a },
		"AddVec": func(a, b c10Vec) c10Vec {
			out := make(c10Vec, len(a))
			for i := range a {
				out[i] = a[i] + b[i]
			}
			return out
		},
	}
}

// replaces the marked identifiers M (int) and MS (string) wherever they occur
type c10MarkPatcher struct{ hits int }

func (p *c10MarkPatcher) Enter(*ast.Node) {}
func (p *c10MarkPatcher) Exit(node *ast.Node) {
	if id, ok := (*node).(*ast.IdentifierNode); ok {
		switch id.Value {
		case "M":
			p.hits++
			ast.Patch(node, &ast.IntegerNode{Value: 3})
		case "MS":
			p.hits++
			ast.Patch(node, &ast.StringNode{Value: "patched"})
		}
	}
}

// replaces the pattern literal "^p" wherever it occurs by a node made by mk
type c10PatternPatcher struct {
	mk   func() ast.Node
	hits int
}

func (p *c10PatternPatcher) Enter(*ast.Node) {}
func (p *c10PatternPatcher) Exit(node *ast.Node) {
	if s, ok := (*node).(*ast.StringNode); ok && s.Value == "^p" {
		p.hits++
		ast.Patch(node, p.mk())
	}
}

// what the pattern literal is replaced by; text = the replacement written out in the source (an invalid pattern cannot be
// written as a literal - the parser rejects it - so its baseline reads the pattern from the environment)
var c10PatternRepls = []struct {
	what  string
	text  string
	fails bool
	mk    func() ast.Node
}{
	{"another valid literal", "\"^z\"", false, func() ast.Node { return &ast.StringNode{Value: "^z"} }},
	{"another valid literal, matching more", "\"^.\"", false, func() ast.Node { return &ast.StringNode{Value: "^."} }},
	{"the same literal again", "\"^p\"", false, func() ast.Node { return &ast.StringNode{Value: "^p"} }},
	{"an identifier", "PAT", false, func() ast.Node { return &ast.IdentifierNode{Value: "PAT"} }},
	{"a compound expression", "(\"^\" + PZ)", false, func() ast.Node {
		return &ast.BinaryNode{Operator: "+", Left: &ast.StringNode{Value: "^"}, Right: &ast.IdentifierNode{Value: "PZ"}}
	}},
	{"a literal that is not a valid pattern", "PBAD", true, func() ast.Node { return &ast.StringNode{Value: "("} }},
}

func c10RunMatch(src string, ops ...expr.Option) (out interface{}, err error) {
	defer func() {
		if r := recover(); r != nil {
			err = fmt.Errorf("panic: %v", r)
		}
	}()
	env := map[string]interface{}{"SP": "pabc", "SZ": "zabc", "PAT": "^z", "PZ": "z", "PBAD": "("}
	ops = append([]expr.Option{expr.Env(env)}, ops...)
	p, err := expr.Compile(src, ops...)
	if err != nil {
		return nil, err
	}
	return expr.Run(p, env)
}

// the macro idiom: Dbl(x) => x + x, Sq(x) => x * x, the argument node used in BOTH slots
type c10MacroPatcher struct{}

func (c10MacroPatcher) Enter(*ast.Node) {}
func (c10MacroPatcher) Exit(node *ast.Node) {
	if f, ok := (*node).(*ast.FunctionNode); ok && len(f.Arguments) == 1 {
		switch f.Name {
		case "Dbl":
			ast.Patch(node, &ast.BinaryNode{Operator: "+", Left: f.Arguments[0], Right: f.Arguments[0]})
		case "Sq":
			ast.Patch(node, &ast.BinaryNode{Operator: "*", Left: f.Arguments[0], Right: f.Arguments[0]})
		}
	}
}

// a visitor whose replacement CONTAINS new nodes another visitor cares about: AddM(x) => Add(x, M), Tag(x) => x + MS
type c10AddMPatcher struct{}

func (c10AddMPatcher) Enter(*ast.Node) {}
func (c10AddMPatcher) Exit(node *ast.Node) {
	if f, ok := (*node).(*ast.FunctionNode); ok && len(f.Arguments) == 1 {
		switch f.Name {
		case "AddM":
			ast.Patch(node, &ast.FunctionNode{Name: "Add", Arguments: []ast.Node{f.Arguments[0], &ast.IdentifierNode{Value: "M"}}})
		case "Tag":
			ast.Patch(node, &ast.BinaryNode{Operator: "+", Left: f.Arguments[0], Right: &ast.IdentifierNode{Value: "MS"}})
		}
	}
}

// replaces the unknown identifier ZZ by the integer 0
type c10ZZPatcher struct{}

func (c10ZZPatcher) Enter(*ast.Node) {}
func (c10ZZPatcher) Exit(node *ast.Node) {
	if id, ok := (*node).(*ast.IdentifierNode); ok && id.Value == "ZZ" {
		ast.Patch(node, &ast.IntegerNode{Value: 0})
	}
}

type c10E2E struct {
	position string
	src      string // contains M / MS
}

var c10E2ESources = []c10E2E{
	{"whole expression (root)", "M"},
	{"whole expression (root)", "MS"},
	{"whole expression (root, parenthesised)", "(M)"},
	{"sliced operand", "[M, M + 1, M + 2][0:2]"},
	{"sliced operand", "(M..M + 4)[1:3]"},
	{"sliced operand", "[[M, 5], [6, M]][0:1]"},
	{"sliced operand (nested slice)", "[M, 2, 4, 6][1:][0:2]"},
	{"slice lower bound", "A[M:4]"},
	{"slice upper bound", "A[0:M]"},
	{"slice both bounds", "A[M - 2:M]"},
	{"indexed operand", "[M, 7][0]"},
	{"index", "A[M]"},
	{"index of sliced operand", "[M, 2, 5][0:2][0]"},
	{"closure body", "map(A, {# + M})"},
	{"closure body", "filter(A, {# > M * 10})"},
	{"closure body", "count(A, {# == M * 10})"},
	{"closure body (nested)", "map(A[0:2], {map([M], {# * 2})[0]})"},
	{"builtin first argument", "len([M, M][0:M - 1])"},
	{"function argument", "Add(M, 1)"},
	{"function argument (last)", "Add(1, M)"},
	{"method argument", "Obj.Plus(M)"},
	{"map value", "{\"k\": M}"},
	{"map key", "{(MS): 1}"},
	{"map key and value", "{(MS): M, \"b\": M + 1}"},
	{"conditional condition", "M > 2 ? \"big\" : \"small\""},
	{"conditional then-branch", "true ? M : 0"},
	{"conditional else-branch", "false ? 0 : M"},
	{"unary operand", "-M"},
	{"binary operands", "M * 100 + M"},
	{"matches left", "MS matches \"^p\""},
	{"property operand", "{\"a\": M}.a"},
	{"array element", "[0, M, 0]"},
	{"string operand", "MS + S"},
	{"in-array", "M in [3, 4]"},
	{"in-range", "M in 2..5"},
	{"range under len", "len(1..M)"},
	{"deep", "map(filter(A[M - 2:M + 1], {# >= M * 10}), {Add(#, [M, 0][0])})[0:1]"},
}

// sources over the environment universe whose optimized trees contain rewritten / shared nodes
var c10OptSources = []string{"I in 1..3", "(I + 1) in 1..3", "I not in 1..3", "I in [1, 2, 3]", "S in [\"a\", \"b\"]", "I not in [1, 2]",
	"(1..3)[0:2]", "AI[1 + 1:2 + 2]", "AI[I in 1..3 ? 0 : 1]", "map(AI, {# + (1 + 2)})", "filter(AI, {# in 2..3})", "[1 + 2, 3 * 4][0:1]",
	"{a: 1 + 2, b: (I + 1) in 1..5}", "Add(1 + 2, -(3))", "len(1..3) > 2 ? 1 + 1 : 2 * 2", "(AI[0] + 1) in 1..2 and (I * 2) in 2..10"}

func c10RunSrc(src string, ops ...expr.Option) (out interface{}, err error) {
	defer func() {
		if r := recover(); r != nil {
			err = fmt.Errorf("panic: %v", r)
		}
	}()
	env := c10Env()
	ops = append([]expr.Option{expr.Env(env)}, ops...)
	p, err := expr.Compile(src, ops...)
	if err != nil {
		return nil, err
	}
	return expr.Run(p, env)
}

// the constant-node campaign: literal -> (constant value, name of the environment constant of the baseline)
var c10ConstTable = []struct {
	lit  string
	val  interface{}
	name string
}{
	{"5m", 5 * time.Minute, "D5m"}, {"300s", 300 * time.Second, "D300s"}, {"1h", time.Hour, "D1h"}, {"60m", 60 * time.Minute, "D60m"},
	{"[1 2]", []int{1, 2}, "L12"}, {"nil!", nil, "NilC"},
}

type c10ConstPatcher struct{}

func (c10ConstPatcher) Enter(*ast.Node) {}
func (c10ConstPatcher) Exit(node *ast.Node) {
	if s, ok := (*node).(*ast.StringNode); ok {
		for _, e := range c10ConstTable {
			if e.lit == s.Value {
				ast.Patch(node, &ast.ConstantNode{Value: e.val})
			}
		}
	}
}

func c10ConstSubstitute(src string) string {
	for _, e := range c10ConstTable {
		src = strings.ReplaceAll(src, "\""+e.lit+"\"", e.name)
	}
	return src
}

func c10RunConst(src string, patch, optimize bool) (out interface{}, err error) {
	defer func() {
		if r := recover(); r != nil {
			err = fmt.Errorf("panic: %v", r)
		}
	}()
	env := map[string]interface{}{
		"Elapsed": 10 * time.Minute,
		"Longer":  func(a, b time.Duration) bool { return a > b },
	}
	for _, e := range c10ConstTable {
		env[e.name] = e.val
	}
	ops := []expr.Option{expr.Env(env), expr.Optimize(optimize)}
	if patch {
		ops = append(ops, expr.Patch(c10ConstPatcher{}))
	}
	p, err := expr.Compile(src, ops...)
	if err != nil {
		return nil, err
	}
	return expr.Run(p, env)
}

func c10Substitute(src string) string {
	// identifiers M / MS as whole words -> the literals the patcher inserts
	var b strings.Builder
	isW := func(c byte) bool {
		return c == '_' || c >= '0' && c <= '9' || c >= 'a' && c <= 'z' || c >= 'A' && c <= 'Z'
	}
	inStr := false
	for i := 0; i < len(src); i++ {
		c := src[i]
		if c == '"' {
			inStr = !inStr
		}
		if !inStr && c == 'M' && (i == 0 || !isW(src[i-1])) {
			if i+1 < len(src) && src[i+1] == 'S' && (i+2 >= len(src) || !isW(src[i+2])) {
				b.WriteString("\"patched\"")
				i++
				continue
			}
			if i+1 >= len(src) || !isW(src[i+1]) {
				b.WriteString("3")
				continue
			}
		}
		b.WriteByte(c)
	}
	return b.String()
}

func c10EndToEnd(rep *Report) {
	for _, c := range c10E2ESources {
		for _, opt := range []bool{true, false} {
			rep.Evaluations++
			rep.hist("e2e " + c.position)
			patcher := &c10MarkPatcher{}
			got, gerr := c10RunSrc(c.src, expr.Patch(patcher), expr.Optimize(opt))
			subst := c10Substitute(c.src)
			want, werr := c10RunSrc(subst, expr.Optimize(opt))
			input := map[string]interface{}{"e2e": c.src, "optimize": opt, "position": c.position}
			rp, _ := json.Marshal(input)
			if werr != nil {
				rep.fail(Failure{Key: "C10-e2e-baseline", What: "the source with the replacement written out does not compile and run", Input: input,
					Want: "a result", Got: werr.Error(), Replay: string(rp)})
				continue
			}
			if gerr != nil || !reflect.DeepEqual(got, want) {
				rep.fail(Failure{Key: "C10-e2e-patch", What: "a user patch (expr.Patch) replacing the identifiers M := 3, MS := \"patched\" does not take effect at position: " + c.position,
					Input: input, Want: fmt.Sprintf("%v (= result of %s)", want, subst), Got: fmt.Sprintf("%v (error %v; %d identifiers replaced)", got, gerr, patcher.hits), Replay: string(rp)})
			}
		}
	}
	// operator overloading wherever the operator occurs (compiler/patcher.go walks with ast.Walk)
	for _, c := range []c10E2E{
		{"overloaded operator as sliced operand", "(V + W)[0:2]"},
		{"overloaded operator as indexed operand", "(V + W)[1]"},
		{"overloaded operator in closure body", "map(A[0:1], {(V + W)[2]})"},
		{"overloaded operator as argument", "len(V + W)"},
		{"overloaded operator as map value", "{\"k\": V + W}.k[0]"},
		{"overloaded operator in branch", "true ? (V + W)[0] : 0"},
		{"overloaded operator under slice of slice", "(V + W)[0:3][1:2]"},
	} {
		rep.Evaluations++
		rep.hist("e2e " + c.position)
		got, gerr := c10RunSrc(c.src, expr.Operator("+", "AddVec"))
		want, werr := c10RunSrc(strings.ReplaceAll(c.src, "V + W", "AddVec(V, W)"))
		input := map[string]interface{}{"e2e": c.src, "operator": "+ => AddVec", "position": c.position}
		rp, _ := json.Marshal(input)
		if werr != nil {
			rep.fail(Failure{Key: "C10-e2e-baseline", What: "the explicit-call form does not compile and run", Input: input,
				Want: "a result", Got: werr.Error(), Replay: string(rp)})
			continue
		}
		if gerr != nil || !reflect.DeepEqual(got, want) {
			rep.fail(Failure{Key: "C10-e2e-operator", What: "operator overloading does not apply at position: " + c.position, Input: input,
				Want: fmt.Sprintf("%v (= explicit call)", want), Got: fmt.Sprintf("%v (error %v)", got, gerr), Replay: string(rp)})
		}
	}
	c10Round7(rep)
	// TWO overloaded operators: an occurrence whose operand types find no candidate under one operator (the built-in applies)
	// does not stop a LATER occurrence of the other operator on operands of the same types from being overloaded
	for _, c := range []c10E2E{
		{"miss under + before a hit under == on the same operand types", "S + \"X\" == \"STRx\""},
		{"miss under + before a hit under == (closure body)", "map([S], {# + \"\" == \"STR\"})[0]"},
		{"hit under == before a miss under +", "[S == \"STR\", S + \"x\"]"},
		{"miss under + (ints) then hit under + (vectors)", "[I + 1, (V + W)[0]]"},
	} {
		rep.Evaluations++
		rep.hist("e2e " + c.position)
		got, gerr := c10RunSrc(c.src, expr.Operator("+", "AddVec"), expr.Operator("==", "StrEq"))
		explicit := strings.ReplaceAll(c.src, "V + W", "AddVec(V, W)")
		explicit = strings.ReplaceAll(explicit, "S + \"X\" == \"STRx\"", "StrEq(S + \"X\", \"STRx\")")
		explicit = strings.ReplaceAll(explicit, "# + \"\" == \"STR\"", "StrEq(# + \"\", \"STR\")")
		explicit = strings.ReplaceAll(explicit, "S == \"STR\"", "StrEq(S, \"STR\")")
		want, werr := c10RunSrc(explicit)
		input := map[string]interface{}{"e2e": c.src, "operators": "+ => AddVec, == => StrEq", "position": c.position}
		rp, _ := json.Marshal(input)
		if werr != nil {
			rep.fail(Failure{Key: "C10-e2e-baseline", What: "the explicit-call form does not compile and run", Input: input, Want: "a result", Got: werr.Error(), Replay: string(rp)})
			continue
		}
		if gerr != nil || !reflect.DeepEqual(got, want) {
			rep.fail(Failure{Key: "C10-e2e-operator", What: "operator overloading does not apply at position: " + c.position, Input: input,
				Want: fmt.Sprintf("%v (= %s)", want, explicit), Got: fmt.Sprintf("%v (error %v)", got, gerr), Replay: string(rp)})
		}
	}
	// a user visitor whose replacement uses ONE operand node in TWO slots (the macro idiom Dbl(x) => x + x): every later stage
	// treats the two slots as the tree they are - the optimized program answers like the unoptimized one
	for _, c := range []c10E2E{
		{"shared operand, constant arithmetic", "Dbl(2 + 3)"}, {"shared operand, constant arithmetic", "Sq(1 + 2)"}, {"shared operand, nested macros", "Dbl(Dbl(1 + 2))"},
		{"shared operand, unary minus", "Sq(-3)"}, {"shared operand in a closure body", "map(A, {Dbl(1 + 1) + #})"}, {"shared operand, non-constant", "Dbl(I + 3)"},
		{"shared operand under index", "A[Dbl(0 + 1)]"}, {"shared operand, product of sums", "Sq(2 * 3 + 1) - Dbl(4 / 2)"},
	} {
		rep.Evaluations++
		rep.hist("e2e " + c.position)
		input := map[string]interface{}{"e2e": c.src, "visitor": "Dbl(x) => x + x, Sq(x) => x * x (one node in two slots)", "position": c.position}
		rp, _ := json.Marshal(input)
		want, werr := c10RunSrc(c.src, expr.Patch(c10MacroPatcher{}), expr.Optimize(false))
		got, gerr := c10RunSrc(c.src, expr.Patch(c10MacroPatcher{}), expr.Optimize(true))
		plain, perr := c10RunSrc(c.src)
		if werr != nil || perr != nil || !reflect.DeepEqual(want, plain) {
			rep.fail(Failure{Key: "C10-e2e-baseline", What: "the macro-expanded source (unoptimized) does not answer like the function calls", Input: input,
				Want: fmt.Sprintf("%v (error %v)", plain, perr), Got: fmt.Sprintf("%v (error %v)", want, werr), Replay: string(rp)})
			continue
		}
		if gerr != nil || !reflect.DeepEqual(got, want) {
			rep.fail(Failure{Key: "C10-e2e-patch", What: "a user patch that uses one node in two slots does not survive the optimizer: " + c.position, Input: input,
				Want: fmt.Sprintf("%v (= unoptimized)", want), Got: fmt.Sprintf("%v (error %v)", got, gerr), Replay: string(rp)})
		}
	}
	// SEVERAL user visitors in one Compile: each one walks the whole tree in option order, so a later visitor also meets the nodes an
	// earlier one created (AddM(x) => Add(x, M), then M := 3), and an earlier one does not meet what a later one creates
	for _, c := range []struct{ position, src, bothOrders, reversed string }{
		{"node created by an earlier visitor, root", "AddM(5)", "Add(5, 3)", "Add(5, M)"},
		{"node created by an earlier visitor, argument", "Add(AddM(I), 1)", "Add(Add(I, 3), 1)", "Add(Add(I, M), 1)"},
		{"node created by an earlier visitor, closure body", "map(A[0:2], {AddM(#)})", "map(A[0:2], {Add(#, 3)})", "map(A[0:2], {Add(#, M)})"},
		{"node created by an earlier visitor, string operand", `Tag("a") + "!"`, `"a" + "patched" + "!"`, `"a" + MS + "!"`},
		{"node created by an earlier visitor, index", "A[AddM(0)]", "A[Add(0, 3)]", "A[Add(0, M)]"},
		{"node created by an earlier visitor next to an original one", "AddM(M)", "Add(3, 3)", "Add(3, M)"},
		{"node created by an earlier visitor, nested", "AddM(AddM(1))", "Add(Add(1, 3), 3)", "Add(Add(1, M), M)"},
	} {
		for _, order := range []string{"AddM-then-M", "M-then-AddM"} {
			rep.Evaluations++
			rep.hist("e2e two visitors: " + c.position)
			ops := []expr.Option{expr.Patch(c10AddMPatcher{}), expr.Patch(&c10MarkPatcher{})}
			equiv := c.bothOrders
			if order == "M-then-AddM" {
				ops = []expr.Option{expr.Patch(&c10MarkPatcher{}), expr.Patch(c10AddMPatcher{})}
				equiv = c.reversed
			}
			for _, opt := range []bool{false, true} {
				got, gerr := c10RunSrc(c.src, append(ops, expr.Optimize(opt))...)
				want, werr := c10RunSrc(equiv, expr.Optimize(opt))
				input := map[string]interface{}{"e2e": c.src, "visitors": order + " (AddM(x) => Add(x, M), Tag(x) => x + MS; M := 3, MS := \"patched\")", "optimize": opt, "position": c.position}
				rp, _ := json.Marshal(input)
				if werr != nil {
					rep.fail(Failure{Key: "C10-e2e-baseline", What: "the substituted source does not compile and run", Input: input, Want: "a result", Got: werr.Error(), Replay: string(rp)})
					continue
				}
				if gerr != nil || !reflect.DeepEqual(got, want) {
					rep.fail(Failure{Key: "C10-e2e-patch", What: "two user visitors in one Compile: every visitor walks the whole tree in option order (" + c.position + ")", Input: input,
						Want: fmt.Sprintf("%v (= %s)", want, equiv), Got: fmt.Sprintf("%v (error %v)", got, gerr), Replay: string(rp)})
				}
			}
		}
	}
	// operator overloading TOGETHER with a user visitor that repairs an expression which does not type-check before
	// the patch (an unknown name ZZ elsewhere in the expression): the overload must still apply
	for _, c := range []c10E2E{
		{"overloaded operator as indexed operand, unknown name repaired by a visitor in the index", "(V + W)[ZZ]"},
		{"overloaded operator as argument, unknown name repaired elsewhere", "len(V + W) + ZZ"},
		{"overloaded operator as array element next to a repaired name", "[ZZ, (V + W)[0]][1]"},
		{"overloaded operator in a branch chosen by a repaired name", "ZZ == 0 ? (V + W)[1] : 0"},
		{"overloaded operator in closure body, repaired name in the collection", "map([ZZ], {(V + W)[2] + #})"},
	} {
		rep.Evaluations++
		rep.hist("e2e " + c.position)
		got, gerr := c10RunSrc(c.src, expr.Operator("+", "AddVec"), expr.Patch(c10ZZPatcher{}))
		want, werr := c10RunSrc(strings.ReplaceAll(strings.ReplaceAll(c.src, "V + W", "AddVec(V, W)"), "ZZ", "0"))
		input := map[string]interface{}{"e2e": c.src, "operator": "+ => AddVec", "visitor": "ZZ := 0", "position": c.position}
		rp, _ := json.Marshal(input)
		if werr != nil {
			rep.fail(Failure{Key: "C10-e2e-baseline", What: "the explicit-call form does not compile and run", Input: input,
				Want: "a result", Got: werr.Error(), Replay: string(rp)})
			continue
		}
		if gerr != nil || !reflect.DeepEqual(got, want) {
			rep.fail(Failure{Key: "C10-e2e-operator", What: "operator overloading does not apply when a user visitor repairs the expression: " + c.position, Input: input,
				Want: fmt.Sprintf("%v (= explicit call)", want), Got: fmt.Sprintf("%v (error %v)", got, gerr), Replay: string(rp)})
		}
	}
	// a user visitor that replaces a literal by a CONSTANT NODE of another type (the documented ast.Patch idiom: the string
	// literals "5m", "300s", "1h", "60m" become time.Duration constants, "[1 2]" an []int constant, "nil!" a nil constant):
	// the tree that is checked and compiled is the tree after the patch, so the result is the one of the same
	// expression over environment constants of those types
	for _, c := range []c10E2E{
		{"constant as function argument", "Longer(Elapsed, \"5m\")"},
		{"constant as function argument", "Longer(Elapsed, \"1h\")"},
		{"constants compared", "\"5m\" == \"300s\""},
		{"constants compared in a condition", "\"1h\" != \"60m\" ? \"differ\" : \"same\""},
		{"constant compared with a variable", "Elapsed == \"5m\""},
		{"constant in an array", "[\"5m\", Elapsed][0] == \"300s\""},
		{"constant as method receiver", "(\"5m\").Minutes()"},
		{"constant in closure body", "map([Elapsed], {Longer(#, \"5m\")})"},
		{"slice constant indexed", "(\"[1 2]\")[1]"},
		{"slice constant under len", "len(\"[1 2]\") + 1"},
		{"slice constant in closure", "map(\"[1 2]\", {# * 2})"},
		{"nil constant compared", "\"nil!\" == nil"},
		{"nil constant in a branch", "(\"nil!\" == nil ? \"5m\" : \"1h\") == \"300s\""},
		{"whole expression (root)", "\"5m\""},
	} {
		for _, opt := range []bool{true, false} {
			rep.Evaluations++
			rep.hist("e2e constant node: " + c.position)
			got, gerr := c10RunConst(c.src, true, opt)
			want, werr := c10RunConst(c10ConstSubstitute(c.src), false, opt)
			input := map[string]interface{}{"e2e": c.src, "constants": true, "optimize": opt, "position": c.position}
			rp, _ := json.Marshal(input)
			if werr != nil {
				rep.fail(Failure{Key: "C10-e2e-baseline", What: "the source over environment constants does not compile and run", Input: input,
					Want: "a result", Got: werr.Error(), Replay: string(rp)})
				continue
			}
			if gerr != nil || !reflect.DeepEqual(got, want) {
				rep.fail(Failure{Key: "C10-e2e-patch", What: "a user patch replacing string literals by constant nodes of another type (ast.Patch + ast.ConstantNode) does not take effect at position: " + c.position,
					Input: input, Want: fmt.Sprintf("%v (= result of %s over constants)", want, c10ConstSubstitute(c.src)), Got: fmt.Sprintf("%v (error %v)", got, gerr), Replay: string(rp)})
			}
		}
	}
	// a user visitor that replaces the PATTERN literal of `x matches "lit"`: the parser has compiled the literal ahead of time
	// (MatchesNode.Regexp), the walker replaces only the Right slot - the program must match against the REPLACEMENT (another
	// literal, an identifier, a compound expression, the same literal again) and must fail at run time when the replacement is
	// not a valid pattern, exactly like the source with the replacement written out
	for _, c := range []c10E2E{
		{"literal subject", "\"pabc\" matches \"^p\""},
		{"literal subject, non-matching before the patch", "\"zabc\" matches \"^p\""},
		{"variable subject", "SP matches \"^p\""},
		{"variable subject under not", "not (SZ matches \"^p\")"},
		{"condition of a conditional", "SP matches \"^p\" ? \"yes\" : \"no\""},
		{"closure body", "filter([\"pa\", \"zb\", \"pc\"], {# matches \"^p\"})"},
		{"operand of and", "SP matches \"^p\" and SZ matches \"^p\""},
		{"argument", "len(map([SP, SZ], {# matches \"^p\"}))"},
	} {
		for _, r := range c10PatternRepls {
			for _, opt := range []bool{true, false} {
				rep.Evaluations++
				rep.hist("e2e matches pattern: " + c.position + " / " + r.what)
				patcher := &c10PatternPatcher{mk: r.mk}
				got, gerr := c10RunMatch(c.src, expr.Patch(patcher), expr.Optimize(opt))
				subst := strings.ReplaceAll(c.src, "\"^p\"", r.text)
				want, werr := c10RunMatch(subst, expr.Optimize(opt))
				input := map[string]interface{}{"e2e": c.src, "optimize": opt, "position": "pattern of matches, " + c.position, "replacement": r.what + ": " + r.text}
				rp, _ := json.Marshal(input)
				if (werr != nil) != r.fails {
					rep.fail(Failure{Key: "C10-e2e-baseline", What: "the source with the replacement pattern written out does not behave as the campaign assumes", Input: input,
						Want: fmt.Sprintf("run-time failure: %v", r.fails), Got: fmt.Sprintf("%v (error %v)", want, werr), Replay: string(rp)})
					continue
				}
				if patcher.hits == 0 || (gerr != nil) != (werr != nil) || gerr == nil && !reflect.DeepEqual(got, want) {
					rep.fail(Failure{Key: "C10-e2e-patch", What: "a user patch (expr.Patch) replacing the pattern literal of a `matches` does not take effect (" + r.what + "): " + c.position,
						Input: input, Want: fmt.Sprintf("%v (error %v) (= result of %s)", want, werr, subst),
						Got: fmt.Sprintf("%v (error %v; %d literals replaced)", got, gerr, patcher.hits), Replay: string(rp)})
				}
			}
		}
	}
	// the optimizer as the replacing visitor: a pattern that becomes a literal only by folding has no pre-compiled Regexp
	// (the parser saw a compound expression); the optimized program answers like the unoptimized one
	for _, c := range []c10E2E{
		{"pattern folded to a literal, variable subject", "SP matches (\"^\" + \"p\")"},
		{"pattern folded to a literal, non-matching subject", "SZ matches (\"^\" + \"p\")"},
		{"pattern folded to a literal, literal subject", "\"pabc\" matches (\"^\" + \"p\")"},
		{"pattern folded to a literal in a closure body", "filter([\"pa\", \"zb\"], {# matches (\"^\" + \"p\")})"},
	} {
		rep.Evaluations++
		rep.hist("e2e matches pattern: " + c.position)
		want, werr := c10RunMatch(c.src, expr.Optimize(false))
		got, gerr := c10RunMatch(c.src, expr.Optimize(true))
		input := map[string]interface{}{"e2e": c.src, "position": "pattern of matches, " + c.position}
		rp, _ := json.Marshal(input)
		if werr != nil {
			rep.fail(Failure{Key: "C10-e2e-baseline", What: "the unoptimized program does not compile and run", Input: input, Want: "a result", Got: werr.Error(), Replay: string(rp)})
			continue
		}
		if gerr != nil || !reflect.DeepEqual(got, want) {
			rep.fail(Failure{Key: "C10-e2e-optimizer", What: "a pattern operand rewritten by the optimizer does not take effect: " + c.position, Input: input,
				Want: fmt.Sprintf("%v (= unoptimized)", want), Got: fmt.Sprintf("%v (error %v)", got, gerr), Replay: string(rp)})
		}
	}
	// a rewrite of the optimizer reaches EVERY slot that holds the rewritten node - also the two slots of `a ?: b`, which the
	// parser fills with one shared node - and applies wherever a bound becomes a literal only by folding: the optimized
	// program answers like the unoptimized one, and no membership in a literal range is left in the tree
	for _, c := range []c10E2E{
		{"in-range as the shared operand of ?:", "(I not in 1..3) ?: 7"},
		{"in-range as the shared operand of ?:", "(I in 1..3) ?: 7"},
		{"in-range as the shared operand of ?:", "(I not in 5..9) ?: 7"},
		{"in-array as the shared operand of ?:", "(I not in [1, 2, 3]) ?: 7"},
		{"in-range under ?: in a closure", "map(A, {(# not in 15..25) ?: 0})"},
		{"in-range with a folded lower bound", "I in -1..5"},
		{"in-range with a folded lower bound", "I in +1..5"},
		{"in-range with a folded upper bound", "I in 1..2 * 3"},
		{"in-range with folded bounds in a closure", "map(A, {# in -1..5 * 5})"},
		{"in-range with folded bounds as map value", "{\"k\": I in -(1)..+(5)}"},
		{"in-range with folded bounds as ?: operand", "(I in -1..5) ?: false"},
	} {
		rep.Evaluations++
		rep.hist("e2e " + c.position)
		input := map[string]interface{}{"e2e": c.src, "optimizer": "on vs off", "position": c.position}
		rp, _ := json.Marshal(input)
		want, werr := c10RunSrc(c.src, expr.Optimize(false))
		got, gerr := c10RunSrc(c.src, expr.Optimize(true))
		if werr != nil {
			rep.fail(Failure{Key: "C10-e2e-baseline", What: "the unoptimized program does not compile and run", Input: input, Want: "a result", Got: werr.Error(), Replay: string(rp)})
			continue
		}
		if gerr != nil || !reflect.DeepEqual(got, want) {
			rep.fail(Failure{Key: "C10-e2e-optimizer", What: "an optimizer rewrite does not reach every slot of the rewritten node: " + c.position, Input: input,
				Want: fmt.Sprintf("%v (= unoptimized)", want), Got: fmt.Sprintf("%v (error %v)", got, gerr), Replay: string(rp)})
			continue
		}
		tree, err := parser.Parse(c.src)
		if err != nil {
			panic(err)
		}
		config := conf.New(c10Env())
		var oerr error
		if p := c10Safe(func() {
			if _, oerr = checker.Check(tree, config); oerr == nil {
				oerr = optimizer.Optimize(&tree.Node, config)
			}
		}); p != nil || oerr != nil {
			rep.fail(Failure{Key: "C10-e2e-baseline", What: "checker.Check + optimizer.Optimize fail", Input: input, Want: "an optimized tree", Got: fmt.Sprintf("error %v panic %v", oerr, p), Replay: string(rp)})
			continue
		}
		left := ""
		c10Each(tree.Node, func(n ast.Node) {
			if b, ok := n.(*ast.BinaryNode); ok && (b.Operator == "in" || b.Operator == "not in") {
				if r, ok := b.Right.(*ast.BinaryNode); ok && r.Operator == ".." {
					left = "membership in a range left in the optimized tree"
				}
				if _, ok := b.Right.(*ast.ArrayNode); ok {
					left = "membership in an array literal left in the optimized tree"
				}
				if cn, ok := b.Right.(*ast.ConstantNode); ok && cn.Value != nil && reflect.TypeOf(cn.Value).Kind() == reflect.Slice && strings.Contains(c.src, "..") {
					left = "membership in a literal range answered by searching the materialised range instead of the two comparisons"
				}
			}
		})
		if left != "" {
			rep.fail(Failure{Key: "C10-e2e-optimizer", What: "an optimization does not apply at position: " + c.position, Input: input, Want: "the membership rewritten by optimizer.Optimize", Got: left, Replay: string(rp)})
		}
	}
	// optimizations wherever the sub-expression occurs: after optimizer.Optimize no foldable node is left
	for _, c := range []c10E2E{
		{"constant folding in sliced operand", "[1 + 2, 4][0:1]"},
		{"constant range as sliced operand", "(1..3)[0:2]"},
		{"constant folding in slice bound", "A[1 + 1:2 + 2]"},
		{"constant folding in index", "A[1 + 1]"},
		{"constant folding in closure body", "map(A, {# + (1 + 2)})"},
		{"constant folding in argument", "Add(1 + 2, 3 * 4)"},
		{"constant folding in map key and value", "{(\"a\" + \"b\"): 1 + 2}"},
		{"constant folding in branches", "I > 1 ? 1 + 2 : 3 + 4"},
	} {
		rep.Evaluations++
		rep.hist("e2e " + c.position)
		input := map[string]interface{}{"e2e": c.src, "optimizer": true, "position": c.position}
		rp, _ := json.Marshal(input)
		tree, err := parser.Parse(c.src)
		if err != nil {
			panic(err)
		}
		config := conf.New(c10Env())
		var oerr error
		if p := c10Safe(func() {
			if _, oerr = checker.Check(tree, config); oerr == nil {
				oerr = optimizer.Optimize(&tree.Node, config)
			}
		}); p != nil || oerr != nil {
			rep.fail(Failure{Key: "C10-e2e-baseline", What: "checker.Check + optimizer.Optimize fail", Input: input,
				Want: "an optimized tree", Got: fmt.Sprintf("error %v panic %v", oerr, p), Replay: string(rp)})
			continue
		}
		left := ""
		c10Each(tree.Node, func(n ast.Node) {
			if b, ok := n.(*ast.BinaryNode); ok {
				_, li := b.Left.(*ast.IntegerNode)
				_, ri := b.Right.(*ast.IntegerNode)
				_, ls := b.Left.(*ast.StringNode)
				_, rs := b.Right.(*ast.StringNode)
				if li && ri || ls && rs && b.Operator == "+" {
					left = fmt.Sprintf("%s of two literals at %d:%d", b.Operator, b.Location().Line, b.Location().Column)
				}
			}
		})
		if left != "" {
			rep.fail(Failure{Key: "C10-e2e-optimizer", What: "an optimization does not apply at position: " + c.position, Input: input,
				Want: "no constant operation left after optimizer.Optimize", Got: left, Replay: string(rp)})
		}
	}
}

// ast.Patch judged directly: the new node is stored through the pointer and carries the old node's
// location and type annotation
func c10PatchOracle(rep *Report) {
	types := []reflect.Type{nil, reflect.TypeOf(0), reflect.TypeOf(""), reflect.TypeOf([]int(nil)), reflect.TypeOf(map[string]interface{}(nil))}
	for i, p := range c10Protos {
		for j, q := range c10Protos {
			rep.Evaluations++
			old := reflect.New(reflect.TypeOf(p).Elem()).Interface().(ast.Node)
			neu := reflect.New(reflect.TypeOf(q).Elem()).Interface().(ast.Node)
			loc := file.Location{Line: 1 + i, Column: 3 + j}
			old.SetLocation(loc)
			old.SetType(types[(i+j)%len(types)])
			neu.SetLocation(file.Location{Line: 77, Column: 77})
			neu.SetType(reflect.TypeOf(1.5))
			slot := old
			panicked := c10Safe(func() { ast.Patch(&slot, neu) })
			if panicked != nil || slot != neu || neu.Location() != loc || neu.Type() != types[(i+j)%len(types)] {
				rep.fail(Failure{Key: "C10-patch-annotations", What: "ast.Patch does not store the new node with the old node's location and type",
					Input: map[string]interface{}{"old": c10KindOf(old), "new": c10KindOf(neu), "location": fmt.Sprint(loc), "type": fmt.Sprint(types[(i+j)%len(types)])},
					Want:  fmt.Sprintf("slot holds the new node, location %v, type %v", loc, types[(i+j)%len(types)]),
					Got:   fmt.Sprintf("stored=%v location %v type %v panic %v", slot == neu, neu.Location(), neu.Type(), panicked)})
			}
		}
	}
}

func c10Each(n ast.Node, f func(ast.Node)) {
	f(n)
	c10Nodes(n, func(_ ast.Node, _ string, c ast.Node) { f(c) })
}

// ---------------------------------------------------------------- main
func c10Header() string {
	return "From Coq Require Import ZArith List String Floats.\n" +
		"Require Import X.Base.Num X.Base.Value X.Syn.Ast X.Walk.Walk X.Corr.CorrC10.\n" +
		"Import ListNotations.\nOpen Scope string_scope.\nOpen Scope Z_scope.\n"
}

func c10Replay(rep *Report, arg string) {
	var in struct {
		Tree    string   `json:"tree"`
		Origin  string   `json:"origin"`
		Visitor c10VDesc `json:"visitor"`
		E2E     string   `json:"e2e"`
	}
	if err := json.Unmarshal([]byte(arg), &in); err != nil {
		fmt.Println("c10 replay: cannot read input:", err)
		return
	}
	if in.E2E != "" {
		c10EndToEnd(rep)
	} else {
		var t *c10Tree
		switch in.Origin {
		case "parsed", "optimized":
			t = c10FromSource(in.Tree, in.Origin == "optimized")
		default:
			sp, err := c10ParseSpec(in.Tree)
			if err != nil {
				fmt.Println("c10 replay:", err)
				return
			}
			cnt := 0
			t = &c10Tree{node: c10Build(sp, 1, &cnt), desc: sp.String(), origin: "direct"}
		}
		if t == nil {
			fmt.Println("c10 replay: source does not parse")
			return
		}
		c10RunCase(rep, t, in.Visitor)
	}
	for _, f := range rep.Failures {
		fmt.Printf("FAIL %s: %s\n  input %v\n  want %s\n  got  %s\n", f.Key, f.What, f.Input, f.Want, f.Got)
	}
	if len(rep.Failures) == 0 {
		fmt.Println("c10 replay: no failure on this input")
	}
}

func c10FromSource(src string, optimize bool) *c10Tree {
	tree, err := parser.Parse(src)
	if err != nil {
		return nil
	}
	origin := "parsed"
	if optimize {
		origin = "optimized"
		config := conf.New(baseEnv())
		bad := false
		if p := c10Safe(func() {
			if _, err := checker.Check(tree, config); err != nil {
				bad = true
				return
			}
			if err := optimizer.Optimize(&tree.Node, config); err != nil {
				bad = true
			}
		}); p != nil || bad {
			return nil
		}
	}
	return &c10Tree{node: tree.Node, desc: src, origin: origin}
}

func runC10() {
	rep := newReport("C10")
	if *replay != "" {
		c10Replay(rep, *replay)
		return
	}
	defer func() {
		if r := recover(); r != nil {
			rep.fail(Failure{Key: "C10-walk-panic", What: "the harness died on a panic that escaped from the implementation", Input: "see got", Got: fmt.Sprint(r)})
			rep.write()
		}
	}()
	rng := rand.New(rand.NewSource(*seed))
	g := &c10Gen{rng: rng}
	thorough := *tier == "thorough"
	nLevel3, nRandom, nParsed, nOptimized, nRandSrc := 500, 150, 220, 160, 80
	if thorough {
		nLevel3, nRandom, nParsed, nOptimized, nRandSrc = 1<<30, 2500, 1<<30, 1500, 1200
	}

	var trees []*c10Tree
	fromSpec := func(s *c10Spec) *c10Tree {
		cnt := 0
		return &c10Tree{node: c10Build(s, 1, &cnt), desc: s.String(), origin: "direct"}
	}
	for _, s := range c10Level1() {
		trees = append(trees, fromSpec(s))
	}
	l2 := c10Level2()
	for _, s := range l2 {
		trees = append(trees, fromSpec(s))
	}
	rep.Extra["level1_trees"] = len(c10Level1())
	rep.Extra["level2_trees"] = len(l2)
	total3 := c10Level3(nil)
	rep.Extra["level3_family_size"] = total3
	keep3 := map[int]bool{}
	if nLevel3 < total3 {
		for len(keep3) < nLevel3 {
			keep3[rng.Intn(total3)] = true
		}
	}
	i3 := 0
	n3 := 0
	c10Level3(func(s *c10Spec) {
		if nLevel3 >= total3 || keep3[i3] {
			trees = append(trees, fromSpec(s))
			n3++
		}
		i3++
	})
	rep.Extra["level3_trees"] = n3
	for i := 0; i < nRandom; i++ {
		trees = append(trees, fromSpec(g.random(2+rng.Intn(4))))
	}
	nDirect := len(trees)

	// trees the parser / the optimizer produce
	srcs := exhaustiveExprs(1)
	rng.Shuffle(len(srcs), func(i, j int) { srcs[i], srcs[j] = srcs[j], srcs[i] })
	eg := &egen{rng: rng, wrong: 0}
	for i := 0; i < nRandSrc; i++ {
		t := []gtype{tBool, tInt, tNum, tStr, tArrInt, tArrAny, tAny}[rng.Intn(7)]
		srcs = append([]string{eg.expr(t, 2+rng.Intn(3))}, srcs...)
	}
	for _, c := range c10E2ESources {
		srcs = append([]string{c.src}, srcs...)
	}
	srcs = append(c10OptSources, srcs...)
	np, no := 0, 0
	for _, s := range srcs {
		if np < nParsed+len(c10E2ESources)+nRandSrc {
			if t := c10FromSource(s, false); t != nil {
				trees = append(trees, t)
				np++
			}
		}
		if no < nOptimized {
			if t := c10FromSource(s, true); t != nil {
				trees = append(trees, t)
				no++
			}
		}
	}
	rep.Extra["parsed_trees"] = np
	rep.Extra["optimized_trees"] = no

	// run
	var cases []string
	distinct := map[string]bool{}
	triples := map[string]bool{}
	maxCoq := 1 << 30
	if thorough {
		maxCoq = 26000
	}
	nodeCount := make([]int, len(trees))
	sampleLimit := 3
	runOne := func(t *c10Tree, nodes int, d c10VDesc) {
		rep.hist("visitor " + d.Kind)
		c, ok := c10RunCase(rep, t, d)
		if ok && (len(cases) < maxCoq || rng.Intn(8) == 0) {
			cases = append(cases, c)
		}
		if nodes > 1 {
			distinct[t.desc+"|"+d.String()] = true
		}
		if len(rep.Samples) < sampleLimit && rng.Intn(len(trees)/4+1) == 0 {
			rep.Samples = append(rep.Samples, map[string]interface{}{"tree": t.desc, "origin": t.origin, "visitor": d.String(), "nodes": nodes})
		}
	}
	// pass 1: the recording visitor on every tree (so that the first recorded failing input is the plainest one)
	for ti, t := range trees {
		nodeCount[ti] = c10Nodes(t.node, func(p ast.Node, field string, c ast.Node) {
			triples[c10KindOf(p)+"."+field+" <- "+c10KindOf(c)] = true
		})
		rep.hist("root " + c10KindOf(t.node))
		rep.hist("origin " + t.origin)
		runOne(t, nodeCount[ti], c10VDesc{Kind: "log"})
	}
	// pass 2: patching visitors
	sampleLimit = 7
	for ti, t := range trees {
		nPatch := 2
		if ti >= nDirect {
			nPatch = 1
		}
		for i := 0; i < nPatch; i++ {
			runOne(t, nodeCount[ti], g.patchVisitor(nodeCount[ti]))
		}
		// the shared nodes of an optimizer-produced DAG: recording visitor on the tree as it is
		if t.origin == "optimized" {
			rep.Evaluations++
			real := &c10Vis{d: c10VDesc{Kind: "log"}}
			want := &c10Vis{d: c10VDesc{Kind: "log"}}
			p := c10Safe(func() { ast.Walk(&t.node, real) })
			c10RefWalk(&t.node, want)
			if i := c10SameEvents(real.evs, want.evs); p != nil || i >= 0 {
				rep.fail(Failure{Key: "C10-node-not-visited", What: "recording visitor on the optimizer's own (shared-node) tree", Input: map[string]interface{}{"tree": t.desc, "origin": t.origin},
					Want: c10EvStrings(want.evs, i), Got: fmt.Sprintf("%s panic=%v", c10EvStrings(real.evs, i), p)})
			}
		}
	}
	c10EndToEnd(rep)
	c10PatchOracle(rep)

	if len(rep.Samples) == 0 && len(trees) > 0 {
		rep.Samples = append(rep.Samples, trees[0].desc)
	}
	rep.Distinct = len(distinct)
	rep.Exhaustive = true
	possible := 0
	for _, k := range c10Kinds {
		possible += len(k.slots) * len(c10Kinds)
	}
	rep.Extra["parent_field_child_triples_covered"] = len(triples)
	rep.Extra["parent_field_child_triples_possible"] = possible
	var missing []string
	for _, p := range c10Kinds {
		for _, sl := range p.slots {
			for _, c := range c10Kinds {
				k := p.name + "." + sl.name + " <- " + c.name
				if !triples[k] {
					missing = append(missing, k)
				}
			}
		}
	}
	sort.Strings(missing)
	if len(missing) > 0 {
		rep.Exhaustive = false
		rep.Extra["triples_missing"] = missing
	}
	rep.Rule = "trees built directly as ast values with a unique location per node: every node kind alone (all Node slots filled; []Node slots with 0,1,2,3 elements; From/To of a slice absent in every pattern), EXHAUSTIVELY every node kind in every child position of every node kind (" + strconv.Itoa(len(l2)) + " trees), every kind in every position two levels down (family of " + strconv.Itoa(total3) + " trees: all in the thorough tier, a seeded sample in the quick tier), seeded random trees of depth 2-5; plus the trees parser.Parse returns and the trees optimizer.Optimize leaves for an exhaustive family of source shapes and type-directed random sources. Each tree is walked by the real ast.Walk with a recording visitor and with patching visitors drawn from: replace every IntegerNode at Enter / at Exit, replace the node of the p-th Enter call by a small tree at its Enter / at its Exit (ast.Patch), BinaryNode -> FunctionNode[Left, Right] at Exit (the operator patcher); the event stream (phase, kind, location) and the resulting tree must equal those of a walker that enumerates the Node / []Node fields by reflection; end to end expr.Compile + expr.Patch / expr.Operator / optimizer at every position named by the property. distinct_nontrivial = distinct (tree, visitor) pairs whose tree has at least one child. exhaustive = every (parent kind, field, child kind) triple occurs in some walked tree (measured: see extra)"
	rep.writeShards("cases_c10", c10Header(), "c10case", "c10_mismatches", cases)
	rep.write()
}

package main

// Round-7 campaign of the C17 vertical: an overloaded occurrence that the parser puts into TWO slots of the tree (the short
// conditional `a ?: b` uses its left operand as condition and as first branch).  Operator form = explicit-call form in value and in
// the calls made, whichever slot is evaluated.

import (
	"fmt"
	"strings"

	"github.com/antonmedv/expr"
)

func c17Round7(rep *Report) {
	e := c17BaseEnv()
	ops := []expr.Option{expr.Env(e), expr.Operator("<", "Less"), expr.Operator("==", "EqMM", "EqMD"), expr.Operator("+", "Add", "AddInt")}
	explicit := strings.NewReplacer("A + B == C", "EqMM(Add(A, B), C)", "(A + 1)", "AddInt(A, 1)", "A < B", "Less(A, B)", "B < A", "Less(B, A)", "# < A", "Less(#, A)",
		"A == B", "EqMM(A, B)", "A == D", "EqMD(A, D)", "A + B", "Add(A, B)")
	for _, src := range []string{"(A < B) ?: Ok", "(B < A) ?: Ok", "(A == B) ?: No", "(A == D) ?: No", "A == B ?: false", "A < B ?: false", "(A + B == C) ?: Ok", "Ok ?: (A < B)", "No ?: (A < B)",
		"[(A < B) ?: Ok, (B < A) ?: No]", "map(Ms, {(# < A) ?: Ok})", "{\"k\": (A < B) ?: Ok}", "not ((A < B) ?: Ok)", "((A < B) ?: Ok) == true", "(A + B) ?: A", "((A < B) ?: No) ? 1 : 2"} {
		var rs [2]coreRun
		var cerr [2]error
		for k, form := range []string{src, explicit.Replace(src)} {
			o := ops
			if k == 1 {
				o = ops[:1]
			}
			p, err := c03SafeCompile(form, o)
			cerr[k] = err
			if err == nil {
				rs[k] = runProgram(p, e)
			}
		}
		rep.Evaluations += 2
		rep.hist("overloaded occurrence shared by two slots of a short conditional")
		in := map[string]interface{}{"src": src, "explicit": explicit.Replace(src), "operators": "< => Less; == => EqMM, EqMD; + => Add, AddInt", "campaign": "short conditional"}
		if cerr[1] != nil {
			continue // the explicit form is not a program (e.g. a non-boolean condition): nothing to compare
		}
		if cerr[0] != nil {
			rep.fail(Failure{Key: "C17-result-differs", What: "the operator form is rejected, the explicit-call form is accepted", Input: in, Want: "accepted", Got: firstLineOf(cerr[0].Error())})
			continue
		}
		r0, r1 := rs[0], rs[1]
		same := (r0.err != nil && r1.err != nil) || (r0.err == nil && r1.err == nil && simEqual(r0.out, r1.out))
		if !same {
			rep.fail(Failure{Key: "C17-result-differs", What: "operator form and explicit-call form evaluate differently (occurrence in the slots of a short conditional)", Input: in,
				Want: c02Show(r1), Got: c02Show(r0)})
			continue
		}
		if r0.err == nil && cqTrace(r0.log) != cqTrace(r1.log) {
			rep.fail(Failure{Key: "C17-calls-differ", What: "operator form and explicit-call form make different calls (occurrence in the slots of a short conditional)", Input: in,
				Want: fmt.Sprint(cqTrace(r1.log)), Got: fmt.Sprint(cqTrace(r0.log))})
		}
	}
}

package main

// C12 — Literals and token positions are lexed faithfully.
// Runs the REAL lexer.Lex / parser.Parse on generated literals and token layouts, judges every case
// directly against the property (round trip of the value; location = position of the first
// character) and writes the observed tokens / nodes as Coq terms for the model comparison.

import (
	"encoding/json"
	"fmt"
	"math"
	"math/rand"
	"strconv"
	"strings"
	"unicode"
	"unicode/utf8"

	"github.com/antonmedv/expr/ast"
	"github.com/antonmedv/expr/file"
	"github.com/antonmedv/expr/parser"
	"github.com/antonmedv/expr/parser/lexer"
)

func init() { commands["c12"] = runC12 }

// ---------------------------------------------------------------- Coq serialisation
func c12Runes(s string) string {
	var b strings.Builder
	b.WriteByte('[')
	first := true
	for _, r := range s {
		if !first {
			b.WriteString("; ")
		}
		first = false
		fmt.Fprintf(&b, "%d", r)
	}
	b.WriteByte(']')
	return b.String()
}

// a Go string (arbitrary bytes) as a Coq string term: never uses Coq string-literal syntax
func c12Bytes(s string) string {
	var b strings.Builder
	b.WriteString("(bytes_to_string [")
	for i := 0; i < len(s); i++ {
		if i > 0 {
			b.WriteString("; ")
		}
		fmt.Fprintf(&b, "%d", s[i])
	}
	b.WriteString("])")
	return b.String()
}

func c12Bool(v bool) string {
	if v {
		return "true"
	}
	return "false"
}

func coqClasses(s string) string {
	seen := map[rune]bool{}
	var parts []string
	for _, r := range s {
		if r >= 128 && !seen[r] {
			seen[r] = true
			parts = append(parts, fmt.Sprintf("(%d, %s, %s, %s)", r, c12Bool(unicode.IsLetter(r)), c12Bool(unicode.IsDigit(r)), c12Bool(unicode.IsSpace(r))))
		}
	}
	return "[" + strings.Join(parts, "; ") + "]"
}

var c12kind = map[lexer.Kind]string{
	lexer.Identifier: "TkIdentifier", lexer.Number: "TkNumber", lexer.String: "TkString",
	lexer.Operator: "TkOperator", lexer.Bracket: "TkBracket", lexer.EOF: "TkEOF",
}

func coqLexObs(toks []lexer.Token, err error) (string, bool) {
	if err != nil {
		fe, ok := err.(*file.Error)
		if !ok {
			return "", false
		}
		return fmt.Sprintf("(OErrAt %d %d)", fe.Line, fe.Column), true
	}
	var parts []string
	for _, t := range toks {
		k, ok := c12kind[t.Kind]
		if !ok {
			return "", false
		}
		parts = append(parts, fmt.Sprintf("OT %s %s %d %d", k, c12Bytes(t.Value), t.Line, t.Column))
	}
	return "(OToks [" + strings.Join(parts, "; ") + "])", true
}

func c12SafeLex(src string) (toks []lexer.Token, err error, panicked interface{}) {
	defer func() {
		if r := recover(); r != nil {
			panicked = r
		}
	}()
	toks, err = lexer.Lex(file.NewSource(src))
	return
}

func c12SafeParse(src string) (tree *parser.Tree, err error, panicked interface{}) {
	defer func() {
		if r := recover(); r != nil {
			panicked = r
		}
	}()
	tree, err = parser.Parse(src)
	return
}

// position of the first character of every rune index: line 1-based, column 0-based in runes
func c12AdvancePos(line, col int, r rune) (int, int) {
	if r == '\n' {
		return line + 1, 0
	}
	return line, col + 1
}

// ---------------------------------------------------------------- string literals
type c12StrItem struct {
	text string // spelling inside the literal
	val  rune   // the rune it denotes
	esc  bool
}

var c12NamedEsc = map[rune]byte{7: 'a', 8: 'b', 12: 'f', 10: 'n', 13: 'r', 9: 't', 11: 'v', '\\': '\\'}

func c12HexDigits(rng *rand.Rand, v rune, n int) string {
	s := fmt.Sprintf("%0*x", n, v)
	bs := []byte(s)
	for i := range bs {
		if bs[i] >= 'a' && bs[i] <= 'f' && rng.Intn(2) == 0 {
			bs[i] -= 32
		}
	}
	return string(bs)
}

// all c12Spellings of rune r inside a literal quoted by q that the property calls supported
func c12Spellings(rng *rand.Rand, q rune, r rune) []c12StrItem {
	var out []c12StrItem
	if r != q && r != '\\' && r != '\n' && r != '\r' {
		out = append(out, c12StrItem{string(r), r, false})
	}
	if c, ok := c12NamedEsc[r]; ok {
		out = append(out, c12StrItem{"\\" + string(rune(c)), r, true})
	}
	if r == q {
		out = append(out, c12StrItem{"\\" + string(q), r, true})
	}
	if r < 256 {
		out = append(out, c12StrItem{"\\x" + c12HexDigits(rng, r, 2), r, true})
		out = append(out, c12StrItem{fmt.Sprintf("\\%03o", r), r, true})
	}
	if r < 65536 {
		out = append(out, c12StrItem{"\\u" + c12HexDigits(rng, r, 4), r, true})
	}
	out = append(out, c12StrItem{"\\U" + c12HexDigits(rng, r, 8), r, true})
	return out
}

var c12RunePools = [][]rune{
	[]rune("abcXYZ019 ~!@#$%^&*()_+-=[]{}|;:,.<>/?`"),
	{0, 1, 2, 3, 4, 5, 6, 7, 8, 9, 10, 11, 12, 13, 14, 15, 16, 27, 31, 127},
	{'\'', '"', '\\', '`', '?'},
	{0x80, 0x85, 0xa0, 0xe9, 0xff, 0x100, 0x3b1, 0x416, 0x7ff},
	{0x800, 0x2028, 0x3000, 0x5909, 0xd7ff, 0xe000, 0xfffd, 0xffff},
	{0x10000, 0x1d400, 0x1f600, 0x10ffff},
}

func c12RandRune(rng *rand.Rand) rune {
	if rng.Intn(12) == 0 {
		for {
			r := rune(rng.Intn(0x110000))
			if utf8.ValidRune(r) {
				return r
			}
		}
	}
	p := c12RunePools[rng.Intn(len(c12RunePools))]
	return p[rng.Intn(len(p))]
}

// ---------------------------------------------------------------- token layouts
type c12Tok struct {
	kind lexer.Kind
	text string // spelling
	val  string // expected Value
	cls  string // generator class
}

var c12IdentFirst = []rune("abcxyzABCQ_$éЖ変\U0001d400")
var c12IdentRest = []rune("abcxyzABC_$0123456789éЖ変\U0001d400\u0663")
var c12WordOps = []string{"in", "or", "and", "matches", "contains", "startsWith", "endsWith"}

func c12GenIdent(rng *rand.Rand) string {
	n := 1 + rng.Intn(6)
	rs := []rune{c12IdentFirst[rng.Intn(len(c12IdentFirst))]}
	for i := 1; i < n; i++ {
		rs = append(rs, c12IdentRest[rng.Intn(len(c12IdentRest))])
	}
	s := string(rs)
	if s == "not" {
		return "_not"
	}
	for _, w := range c12WordOps {
		if s == w {
			return "_" + s
		}
	}
	return s
}

func c12WithSeparators(rng *rand.Rand, digits string) string {
	var b strings.Builder
	for i := 0; i < len(digits); i++ {
		b.WriteByte(digits[i])
		if i+1 < len(digits) && rng.Intn(3) == 0 {
			b.WriteByte('_')
		}
	}
	return b.String()
}

func c12HexSpelling(rng *rand.Rand, n uint64, sep bool) string {
	d := strconv.FormatUint(n, 16)
	bs := []byte(d)
	for i := range bs {
		if bs[i] >= 'a' && rng.Intn(2) == 0 {
			bs[i] -= 32
		}
	}
	d = string(bs)
	if rng.Intn(4) == 0 {
		d = strings.Repeat("0", 1+rng.Intn(2)) + d
	}
	if sep {
		d = c12WithSeparators(rng, d)
	}
	if rng.Intn(3) == 0 {
		return "0X" + d
	}
	return "0x" + d
}

func c12RandInt63(rng *rand.Rand) uint64 {
	switch rng.Intn(4) {
	case 0:
		return uint64(rng.Intn(1000))
	case 1:
		k := uint(1 + rng.Intn(63))
		v := uint64(1) << k
		if rng.Intn(2) == 0 {
			return v - 1
		}
		if v+1 < 1<<63 {
			return v + 1
		}
		return v - 1
	case 2:
		// hex digits that are also exponent letters / prefixes
		ds := []byte("eEbBdDfF0123456789aAcC")
		n := 1 + rng.Intn(14)
		var s []byte
		for i := 0; i < n; i++ {
			s = append(s, ds[rng.Intn(len(ds))])
		}
		v, _ := strconv.ParseUint(string(s), 16, 64)
		return v & (1<<63 - 1)
	}
	return rng.Uint64() >> uint(1+rng.Intn(63))
}

func c12RandFloat(rng *rand.Rand) float64 {
	for {
		var f float64
		switch rng.Intn(4) {
		case 0:
			f = math.Float64frombits(rng.Uint64() &^ (1 << 63))
		case 1:
			f = float64(rng.Intn(100000)) / float64(1+rng.Intn(1000))
		case 2:
			f = math.Ldexp(rng.Float64(), rng.Intn(200)-100)
		default:
			f = []float64{0, 1, 0.5, 0.1, 1e22, 1e23, math.MaxFloat64, math.SmallestNonzeroFloat64, 2.2250738585072014e-308, 4.9e-324, 9007199254740993, 1e-7, 123456789.125}[rng.Intn(13)]
		}
		if !math.IsNaN(f) && !math.IsInf(f, 0) {
			return f
		}
	}
}

// float c12Spellings of f; every one contains '.', 'e' or 'E'
type c12Fspell struct {
	s     string
	exact bool // a shortest round-trip formatting: denotes f itself
}

func c12FloatSpellings(rng *rand.Rand, f float64) []c12Fspell {
	var out []c12Fspell
	exact := true
	add := func(s string) {
		if strings.ContainsAny(s, ".eE") && !strings.ContainsAny(s, "xXpP") {
			out = append(out, c12Fspell{s, exact})
		}
	}
	g := strconv.FormatFloat(f, 'g', -1, 64)
	e := strconv.FormatFloat(f, 'e', -1, 64)
	add(g)
	add(e)
	add(strings.ToUpper(e))
	add(strings.Replace(e, "e+", "e", 1))
	exact = false
	add(fmt.Sprintf("%g", f))
	add(fmt.Sprintf("%e", f))
	add(fmt.Sprintf("%E", f))
	add(fmt.Sprintf("%.3e", f))
	if math.Abs(f) < 1e40 && (f == 0 || math.Abs(f) > 1e-40) {
		fs := strconv.FormatFloat(f, 'f', -1, 64)
		if !strings.Contains(fs, ".") {
			fs += ".0"
		}
		add(fs)
		add(fmt.Sprintf("%f", f))
		if strings.HasPrefix(fs, "0.") {
			add(fs[1:]) // leading-dot form
		}
		if strings.HasSuffix(fs, ".0") && rng.Intn(2) == 0 {
			add(fs[:len(fs)-1]) // "12."
		}
		if i := strings.Index(fs, "."); i > 3 {
			add(c12WithSeparators(rng, fs[:i]) + fs[i:])
		}
	}
	return out
}

var c12SingleOps = []string{"#", ",", "?", ":", "%", "+", "-", "/"}
var c12DoubleFirst = []string{"&", "|", "!", "=", "*", "<", ">"}
var c12DoubleSecond = []string{"", "&", "|", "=", "*"}
var c12Brackets = []string{"(", "[", "{", ")", "]", "}"}

func c12GenString(rng *rand.Rand, maxLen int) (text, val string) {
	q := '"'
	if rng.Intn(2) == 0 {
		q = '\''
	}
	var tb, vb strings.Builder
	tb.WriteRune(q)
	n := rng.Intn(maxLen + 1)
	for i := 0; i < n; i++ {
		r := c12RandRune(rng)
		sp := c12Spellings(rng, q, r)
		it := sp[rng.Intn(len(sp))]
		if !sp[0].esc && rng.Intn(3) > 0 {
			it = sp[0] // prefer the raw spelling two thirds of the time when there is one
		}
		tb.WriteString(it.text)
		vb.WriteRune(it.val)
	}
	tb.WriteRune(q)
	return tb.String(), vb.String()
}

func c12GenTok(rng *rand.Rand) c12Tok {
	switch rng.Intn(12) {
	case 0, 1:
		s := c12GenIdent(rng)
		return c12Tok{lexer.Identifier, s, s, "identifier"}
	case 2:
		s := c12WordOps[rng.Intn(len(c12WordOps))]
		return c12Tok{lexer.Operator, s, s, "word-operator"}
	case 3:
		n := c12RandInt63(rng)
		var s string
		switch rng.Intn(3) {
		case 0:
			s = strconv.FormatUint(n, 10)
		case 1:
			s = c12WithSeparators(rng, strconv.FormatUint(n, 10))
		default:
			s = c12HexSpelling(rng, n, rng.Intn(2) == 0)
		}
		return c12Tok{lexer.Number, s, s, "number-int"}
	case 4:
		sp := c12FloatSpellings(rng, c12RandFloat(rng))
		s := sp[rng.Intn(len(sp))].s
		if len(s) > 40 {
			s = "1.5e-3"
		}
		return c12Tok{lexer.Number, s, s, "number-float"}
	case 5:
		s := c12SingleOps[rng.Intn(len(c12SingleOps))]
		return c12Tok{lexer.Operator, s, s, "operator-1"}
	case 6:
		s := c12DoubleFirst[rng.Intn(len(c12DoubleFirst))] + c12DoubleSecond[rng.Intn(len(c12DoubleSecond))]
		return c12Tok{lexer.Operator, s, s, "operator-2"}
	case 7:
		s := []string{".", "..", "?."}[rng.Intn(3)]
		return c12Tok{lexer.Operator, s, s, "operator-dot"}
	case 8, 9:
		s := c12Brackets[rng.Intn(len(c12Brackets))]
		return c12Tok{lexer.Bracket, s, s, "bracket"}
	}
	t, v := c12GenString(rng, 6)
	return c12Tok{lexer.String, t, v, "string"}
}

// may b follow a without any white space and still be lexed as two tokens a, b ?  (conservative)
func c12MayAbut(a, b c12Tok) bool {
	if a.kind == lexer.Bracket || a.kind == lexer.String {
		return true
	}
	if b.kind == lexer.Bracket || b.kind == lexer.String {
		return true
	}
	switch b.text {
	case ",", ":", "#", "%", "/":
		return true
	}
	return false
}

var c12WsRunes = []rune{' ', ' ', ' ', '\t', '\r', '\n', '\n', '\v', '\f', 0x85, 0xa0, 0x2028, 0x3000}

func c12GenWS(rng *rand.Rand, min int) string {
	n := min + rng.Intn(4)
	if rng.Intn(8) == 0 {
		n += rng.Intn(6)
	}
	var b strings.Builder
	for i := 0; i < n; i++ {
		b.WriteRune(c12WsRunes[rng.Intn(len(c12WsRunes))])
	}
	return b.String()
}

type c12ExpTok struct {
	c12Tok
	line, col int
}

func c12Layout(rng *rand.Rand, toks []c12Tok) (string, []c12ExpTok) {
	var b strings.Builder
	var exp []c12ExpTok
	line, col := 1, 0
	emit := func(s string) {
		for _, r := range s {
			line, col = c12AdvancePos(line, col, r)
		}
		b.WriteString(s)
	}
	if rng.Intn(2) == 0 {
		emit(c12GenWS(rng, 0))
	}
	for i, t := range toks {
		if i > 0 {
			min := 1
			if c12MayAbut(toks[i-1], t) && rng.Intn(2) == 0 {
				min = 0
			}
			if min == 1 || rng.Intn(2) == 0 {
				emit(c12GenWS(rng, min))
			}
		}
		exp = append(exp, c12ExpTok{t, line, col})
		emit(t.text)
	}
	if rng.Intn(2) == 0 {
		emit(c12GenWS(rng, 0))
	}
	return b.String(), exp
}

// ---------------------------------------------------------------- the run
type c12run struct {
	rep      *Report
	rng      *rand.Rand
	cases    []string
	distinct map[string]bool
	coqSeen  map[string]bool
}

func (c *c12run) note(src string, nontrivial bool) {
	c.rep.Evaluations++
	if nontrivial {
		c.distinct[src] = true
	}
}

func (c *c12run) addLexCase(src string, toks []lexer.Token, err error) {
	if c.coqSeen["L"+src] {
		return
	}
	obs, ok := coqLexObs(toks, err)
	if !ok {
		return
	}
	c.coqSeen["L"+src] = true
	c.cases = append(c.cases, fmt.Sprintf("CLex %s %s %s", c12Runes(src), coqClasses(src), obs))
}

// literal case: src is one literal; the observed node (or parse error) of parser.Parse
func (c *c12run) addLitCase(src string, tree *parser.Tree, err error) {
	if c.coqSeen["P"+src] {
		return
	}
	toks, lerr, p := c12SafeLex(src)
	if p != nil || lerr != nil || len(toks) != 2 || (toks[0].Kind != lexer.Number && toks[0].Kind != lexer.String) {
		return
	}
	ft := "[]"
	if toks[0].Kind == lexer.Number {
		v := strings.Replace(toks[0].Value, "_", "", -1)
		f, ferr := strconv.ParseFloat(v, 64)
		if ferr != nil {
			ft = fmt.Sprintf("[(%s, None)]", c12Bytes(v))
		} else {
			ft = fmt.Sprintf("[(%s, Some %s)]", c12Bytes(v), coqFloat(f))
		}
	}
	var obs string
	if err != nil {
		obs = "LOErr"
	} else {
		switch n := tree.Node.(type) {
		case *ast.IntegerNode:
			if n.Value < 0 {
				obs = fmt.Sprintf("(LOInt (%d))", n.Value)
			} else {
				obs = fmt.Sprintf("(LOInt %d)", n.Value)
			}
		case *ast.FloatNode:
			obs = fmt.Sprintf("(LOFloat %s)", coqFloat(n.Value))
		case *ast.StringNode:
			obs = fmt.Sprintf("(LOStr %s)", c12Bytes(n.Value))
		default:
			return
		}
	}
	c.coqSeen["P"+src] = true
	c.cases = append(c.cases, fmt.Sprintf("CLit %s %s %s %s", c12Runes(src), coqClasses(src), ft, obs))
}

func c12ReplayArg(kind, src string) string {
	b, _ := json.Marshal(map[string]string{"kind": kind, "src": src})
	return string(b)
}

// one string literal: must lex to [String(val) @ (1,0), EOF] and parse to StringNode(val)
func (c *c12run) checkString(src, val, key string, toCoq bool) {
	toks, err, p := c12SafeLex(src)
	c.rep.hist("string literal")
	ok := p == nil && err == nil && len(toks) == 2 && toks[0].Kind == lexer.String && toks[0].Value == val &&
		toks[0].Line == 1 && toks[0].Column == 0 && toks[1].Kind == lexer.EOF
	if !ok {
		got := fmt.Sprintf("%q err=%v panic=%v", toks, err, p)
		c.rep.fail(Failure{Key: key, What: "string literal does not lex back to the string it spells", Input: src,
			Want: fmt.Sprintf("String(%q) at 1:0", val), Got: got, Replay: c12ReplayArg("lex", src)})
	}
	tree, perr, pp := c12SafeParse(src)
	if pp == nil {
		okp := false
		if perr == nil {
			if sn, is := tree.Node.(*ast.StringNode); is && sn.Value == val {
				okp = true
			}
		}
		if !okp && ok {
			c.rep.fail(Failure{Key: key + "-parse", What: "parser.Parse does not return the string the literal spells", Input: src,
				Want: fmt.Sprintf("StringNode(%q)", val), Got: fmt.Sprintf("%v", perr), Replay: c12ReplayArg("parse", src)})
		}
	}
	if toCoq && p == nil {
		c.addLexCase(src, toks, err)
		if pp == nil && c.rng.Intn(3) == 0 {
			c.addLitCase(src, tree, perr)
		}
	}
}

func (c *c12run) checkInt(src string, n uint64, key string, toCoq bool) {
	tree, err, p := c12SafeParse(src)
	c.rep.hist("integer literal " + key)
	ok := false
	if p == nil && err == nil {
		if in, is := tree.Node.(*ast.IntegerNode); is && in.Value >= 0 && uint64(in.Value) == n {
			loc := in.Location()
			ok = loc.Line == 1 && loc.Column == 0
		}
	}
	if !ok {
		got := fmt.Sprintf("err=%v panic=%v", err, p)
		if err == nil && p == nil {
			got = fmt.Sprintf("%T %v", tree.Node, tree.Node)
		}
		c.rep.fail(Failure{Key: key, What: "integer literal does not parse to the number it spells", Input: src,
			Want: fmt.Sprintf("IntegerNode(%d)", n), Got: got, Replay: c12ReplayArg("parse", src)})
	}
	if toCoq && p == nil {
		c.addLitCase(src, tree, err)
		if c.rng.Intn(4) == 0 {
			toks, lerr, lp := c12SafeLex(src)
			if lp == nil {
				c.addLexCase(src, toks, lerr)
			}
		}
	}
}

func (c *c12run) checkFloat(src string, want float64, exact bool, toCoq bool) {
	tree, err, p := c12SafeParse(src)
	c.rep.hist("float literal")
	ref, rerr := strconv.ParseFloat(strings.Replace(src, "_", "", -1), 64)
	if rerr != nil {
		// rounding in the formatter left the finite range (e.g. %.3e of MaxFloat64): not a spelling of a finite float64
		c.rep.hist("float spelling outside the finite range (skipped)")
		return
	}
	ok := false
	if p == nil && err == nil && rerr == nil {
		if fn, is := tree.Node.(*ast.FloatNode); is && math.Float64bits(fn.Value) == math.Float64bits(ref) {
			ok = !exact || math.Float64bits(fn.Value) == math.Float64bits(want)
		}
	}
	if !ok {
		got := fmt.Sprintf("err=%v panic=%v", err, p)
		if err == nil && p == nil {
			got = fmt.Sprintf("%T %v", tree.Node, tree.Node)
		}
		c.rep.fail(Failure{Key: "C12-float", What: "float literal does not parse to the number it spells", Input: src,
			Want: fmt.Sprintf("FloatNode(%v)", ref), Got: got, Replay: c12ReplayArg("parse", src)})
	}
	if toCoq && p == nil {
		c.addLitCase(src, tree, err)
	}
}

func c12KindName(k lexer.Kind) string { return string(k) }

func (c *c12run) checkLayout(src string, exp []c12ExpTok, toCoq bool) {
	toks, err, p := c12SafeLex(src)
	c.rep.hist(fmt.Sprintf("layout of %d tokens", len(exp)))
	for _, e := range exp {
		c.rep.hist("token " + e.cls)
	}
	if p != nil || err != nil || len(toks) != len(exp)+1 {
		c.rep.fail(Failure{Key: "C12-token", What: "token sequence is not lexed as laid out", Input: src,
			Want: fmt.Sprintf("%d tokens + EOF", len(exp)), Got: fmt.Sprintf("%q err=%v panic=%v", toks, err, p), Replay: c12ReplayArg("lex", src)})
	} else {
		for i, e := range exp {
			t := toks[i]
			if t.Kind != e.kind || t.Value != e.val {
				c.rep.fail(Failure{Key: "C12-token", What: "token kind/value differs from the spelled token", Input: src,
					Want: fmt.Sprintf("token %d = %s(%q)", i, c12KindName(e.kind), e.val), Got: fmt.Sprintf("%s(%q)", c12KindName(t.Kind), t.Value), Replay: c12ReplayArg("lex", src)})
				break
			}
			if t.Line != e.line || t.Column != e.col {
				c.rep.fail(Failure{Key: "C12-position", What: "token location is not the position of its first character", Input: src,
					Want: fmt.Sprintf("token %d %s(%q) at line %d column %d", i, c12KindName(e.kind), e.val, e.line, e.col),
					Got:  fmt.Sprintf("line %d column %d", t.Line, t.Column), Replay: c12ReplayArg("lex", src)})
				break
			}
		}
		if toks[len(toks)-1].Kind != lexer.EOF {
			c.rep.fail(Failure{Key: "C12-token", What: "last token is not EOF", Input: src, Want: "EOF", Got: fmt.Sprintf("%q", toks), Replay: c12ReplayArg("lex", src)})
		}
	}
	if toCoq && p == nil {
		c.addLexCase(src, toks, err)
	}
}

func c12Replay(arg string) {
	var m map[string]string
	if err := json.Unmarshal([]byte(arg), &m); err != nil {
		fmt.Println("bad replay argument:", err)
		return
	}
	src := m["src"]
	fmt.Printf("source: %q\n", src)
	toks, err, p := c12SafeLex(src)
	fmt.Printf("lexer.Lex: panic=%v err=%v\n", p, err)
	for _, t := range toks {
		fmt.Printf("  %s(%q) at line %d column %d\n", t.Kind, t.Value, t.Line, t.Column)
	}
	tree, perr, pp := c12SafeParse(src)
	if pp != nil || perr != nil {
		fmt.Printf("parser.Parse: panic=%v err=%v\n", pp, perr)
	} else {
		fmt.Printf("parser.Parse: %T %#v\n", tree.Node, tree.Node)
	}
}

func runC12() {
	if *replay != "" {
		c12Replay(*replay)
		return
	}
	rep := newReport("C12")
	rng := rand.New(rand.NewSource(*seed))
	c := &c12run{rep: rep, rng: rng, distinct: map[string]bool{}, coqSeen: map[string]bool{}}
	scale := 1
	if *tier == "thorough" {
		scale = 8
	}

	// ---- (a) string literals
	// every rune 0..0x2ff and a spread of the other planes, alone, in every supported spelling, both quotes
	var singles []rune
	for r := rune(0); r < 0x300; r++ {
		singles = append(singles, r)
	}
	for _, p := range c12RunePools {
		singles = append(singles, p...)
	}
	for i := 0; i < 300*scale; i++ {
		singles = append(singles, c12RandRune(rng))
	}
	for _, q := range []rune{'"', '\''} {
		for _, r := range singles {
			if !utf8.ValidRune(r) {
				continue
			}
			for _, it := range c12Spellings(rng, q, r) {
				src := string(q) + it.text + string(q)
				toCoq := r < 0x90 && rng.Intn(10) == 0 || r >= 0x90 && rng.Intn(80) == 0
				c.checkString(src, string(it.val), "C12-string", toCoq)
				c.note(src, it.esc || r < 32 || r >= 127)
			}
		}
	}
	// random strings mixing all c12Spellings
	for i := 0; i < 1500*scale; i++ {
		src, val := c12GenString(rng, 12)
		c.checkString(src, val, "C12-string", i%8 == 0)
		c.note(src, strings.ContainsAny(src, "\\") || !c12PrintableASCII(src))
	}
	// a raw carriage return inside a literal (the property text: lexes back to exactly that string)
	for i := 0; i < 40; i++ {
		q := []string{"\"", "'"}[i%2]
		body := []string{"\r", "a\rb", "\r\r", "x\r", "\r y", "\u00e9\r"}[i%6]
		src := q + body + q
		c.checkString(src, body, "C12-raw-cr", i < 12)
		c.note(src, true)
	}

	// ---- (b) integers
	var ints []uint64
	ints = append(ints, 0, 1, 1<<63-1, 0x1e, 0xe, 0xE1, 0xbad, 0xdead, 0xfeed, 0xb, 0xd, 0xf, 0x1e5, 0xabcdef, 0x7fffffffffffffff)
	for k := uint(1); k < 64; k++ {
		ints = append(ints, 1<<k-1)
		if k < 63 {
			ints = append(ints, 1<<k, 1<<k+1)
		}
	}
	for i := 0; i < 400*scale; i++ {
		ints = append(ints, c12RandInt63(rng))
	}
	for i, n := range ints {
		toCoq := i < 100 || i%8 == 0
		d := strconv.FormatUint(n, 10)
		c.checkInt(d, n, "C12-int-dec", toCoq)
		c.note(d, len(d) >= 10)
		if len(d) > 1 {
			s := c12WithSeparators(rng, d)
			c.checkInt(s, n, "C12-int-sep", toCoq)
			c.note(s, strings.Contains(s, "_"))
		}
		if rng.Intn(4) == 0 {
			s := strings.Repeat("0", 1+rng.Intn(3)) + d
			c.checkInt(s, n, "C12-int-dec", toCoq && rng.Intn(2) == 0)
			c.note(s, true)
		}
		h := c12HexSpelling(rng, n, false)
		c.checkInt(h, n, "C12-int-hex", toCoq)
		c.note(h, true)
		hs := c12HexSpelling(rng, n, true)
		c.checkInt(hs, n, "C12-int-hex", toCoq && rng.Intn(2) == 0)
		c.note(hs, true)
	}

	// ---- (c) floats
	for i := 0; i < 500*scale; i++ {
		f := c12RandFloat(rng)
		sp := c12FloatSpellings(rng, f)
		for _, s := range sp {
			c.checkFloat(s.s, f, s.exact, i%6 == 0 && len(s.s) < 60)
			c.note(s.s, true)
		}
	}

	// ---- (d) token sequences under random layouts
	for i := 0; i < 2500*scale; i++ {
		n := 1 + rng.Intn(10)
		if i < 300 {
			n = 1 + rng.Intn(3) // short layouts first: the first failing input reported is then small
		}
		var toks []c12Tok
		for j := 0; j < n; j++ {
			toks = append(toks, c12GenTok(rng))
		}
		src, exp := c12Layout(rng, toks)
		c.checkLayout(src, exp, i%3 == 0)
		c.note(src, len(exp) >= 3 && (strings.Contains(src, "\n") || !c12PrintableASCII(src)))
	}

	// ---- (e) fixed corpus of literal edge cases + malformed stream: model comparison (no property verdict
	// beyond "no panic": these inputs are outside the property's quantifier)
	corpus := []string{"0o17", "0b11", "0x", "0X", "1e", "1e+", "1E-", "0x1.5", "9223372036854775807", "9223372036854775808",
		"0x8000000000000000", "0x7FFFFFFFFFFFFFFF", "1__2", "1_", "0_1", ".5e3", "1.e3", "0X1F", "0xe", "0e0", "1..2", "1...2", "1.5.5",
		"007", "08", "0_8", "1e5", "1E5", "1e+5", "1e-5", ".0", "0.", "0", "1e999", "1e-999", "0.0000001", "1_000.5_5e1_0",
		"''", "\"\"", "'\\'", "'\\400'", "'\\8'", "'\\xZZ'", "'\\ud800'", "'\\U00110000'", "'\\`'", "'\\?'", "\"\\'\"", "'\\\"'", "'a\nb'", "'ab",
		"a?.5:b", "ok?.5:foo", "x ?.5", "a?.5?.5:1", "a?.5 + 1", "a? .5:b", "a?.b.5", "a?..5",
		"a ?. b", "a?.b", "a ? .5 : 1", "a?.?b", "a..b", "a.b.c", "not", "not in", "a not in b", "a not  in b", "a not\tin b", "a not inb", "a not in", "notin", "not inStock", "not  index(x) + y", "a and not   in_var b", "not in9 .5", "not\tinX y", "not  in(x) z", "not   inÜ + 1",
		"$x", "_", "é", "\u0663", "a\u00a0b", "a\u2028b", "@", "~", "a\\b", "1a", "1.a", "1e5a", "0xg", "\x00", "\x7f", ""}
	for _, s := range corpus {
		toks, err, p := c12SafeLex(s)
		if p != nil {
			rep.fail(Failure{Key: "C12-panic", What: "lexer panics", Input: s, Want: "tokens or error", Got: fmt.Sprint(p), Replay: c12ReplayArg("lex", s)})
			continue
		}
		c.addLexCase(s, toks, err)
		if err == nil {
			c.tokensAtPositions(s, toks)
		}
		tree, perr, pp := c12SafeParse(s)
		if pp == nil {
			c.addLitCase(s, tree, perr)
		}
		c.note(s, false)
		rep.hist("corpus")
	}
	alphabet := []rune("\"\"''\\\\0123456789abefxXoObBnrtuU__..++--eE  \n\r\t?:()[]<>=!&|*#,%/$é変\U0001f600\u00a0\u0663")
	for i := 0; i < 1200*scale; i++ {
		n := rng.Intn(14)
		rs := make([]rune, n)
		for j := range rs {
			rs[j] = alphabet[rng.Intn(len(alphabet))]
		}
		s := string(rs)
		toks, err, p := c12SafeLex(s)
		if p != nil {
			rep.fail(Failure{Key: "C12-panic", What: "lexer panics", Input: s, Want: "tokens or error", Got: fmt.Sprint(p), Replay: c12ReplayArg("lex", s)})
			continue
		}
		if err != nil {
			rep.hist("malformed: lexer error")
		} else {
			rep.hist("malformed: lexes")
		}
		if i%2 == 0 {
			c.addLexCase(s, toks, err)
		}
		if err == nil {
			c.tokensAtPositions(s, toks)
		}
		c.note(s, false)
	}

	rep.Distinct = len(c.distinct)
	rep.Exhaustive = false
	rep.Rule = "one PRNG (seed); (a) every rune 0..0x2ff plus controls, quotes, backslash, Latin-1, BMP, non-BMP pools and random scalars, alone inside both quote characters in every supported spelling (raw, named escape, \\xHH, \\ooo, \\uHHHH, \\UHHHHHHHH, random hex case), then random strings mixing c12Spellings: lexer.Lex must return String(value) at 1:0 and parser.Parse the StringNode; raw CR literals separately; (b) integers 0, 1, 2^k-1, 2^k, 2^k+1, 2^63-1, hex-letter-heavy and random values in decimal, decimal with `_` separators, leading zeros, 0x/0X hex in random case with and without separators: parser.Parse must return IntegerNode(n) at 1:0; (c) random finite float64 (random bits, ratios, scaled, boundary values) in shortest %g/%e, upper-case E, e without +, %g %e %E %.3e, %f, leading-dot, trailing-dot and separator c12Spellings: FloatNode must equal strconv.ParseFloat of the spelling (and the value itself for shortest formattings); (d) random sequences of 1..10 tokens (identifiers incl. non-ASCII letters/digits, word operators, int/float/hex numbers, 1- and 2-rune operators, . .. ?., c12Brackets, strings with escapes) laid out with random runs of space, tab, CR, LF, VT, FF, NEL, NBSP, U+2028, U+3000 (possibly empty where two tokens may abut): every token must have the spelled kind/value and the line/column of its first character; (e) a corpus of edge literals and a random malformed stream, compared with the Coq model only. distinct_nontrivial counts distinct source texts that contain an escape or a non-printable/non-ASCII rune (strings), >= 10 digits, a separator or a hex spelling (integers), any float spelling, or >= 3 tokens with a line break or a non-ASCII rune (layouts)."
	for i := 0; i < 8 && i < len(c.cases); i++ {
		rep.Samples = append(rep.Samples, c.cases[(i*7919)%len(c.cases)])
	}
	rep.writeShards("cases_c12", "From Coq Require Import ZArith List String Floats.\nRequire Import X.Base.Value X.Syn.Tok X.Lex.Lexer X.Corr.CorrC12.\nImport ListNotations.\nOpen Scope Z_scope.\n", "c12case", "c12_mismatches", c.cases)
	rep.write()
}

func c12PrintableASCII(s string) bool {
	for _, r := range s {
		if r < 32 || r > 126 {
			return false
		}
	}
	return true
}

// tokensAtPositions: whatever the token list is, every identifier / number / operator / bracket token must spell its
// value at the line and column it reports, and a string token must start with a quote there (the position clause of
// the property, judged without an expected token list)
func (c *c12run) tokensAtPositions(src string, toks []lexer.Token) {
	lines := strings.Split(src, "\n")
	for _, t := range toks {
		if t.Kind == lexer.EOF || t.Value == "" && t.Kind != lexer.String {
			continue
		}
		c.rep.Evaluations++
		ok := false
		if t.Line >= 1 && t.Line <= len(lines) {
			rs := []rune(lines[t.Line-1])
			if t.Column >= 0 && t.Column <= len(rs) {
				rest := string(rs[t.Column:])
				switch t.Kind {
				case lexer.String:
					ok = strings.HasPrefix(rest, "\"") || strings.HasPrefix(rest, "'")
				case lexer.Operator:
					// `not in` is one operator token whatever the spaces between the words
					ok = strings.HasPrefix(rest, t.Value) || (t.Value == "not in" && strings.HasPrefix(rest, "not"))
				default:
					ok = strings.HasPrefix(rest, t.Value)
				}
			}
		}
		if !ok {
			c.rep.fail(Failure{Key: "C12-token-position", What: "a token's reported line and column is not the position of its first character",
				Input: src, Want: fmt.Sprintf("%q at its own position", t.Value), Got: fmt.Sprintf("%v %q reported at %d:%d", t.Kind, t.Value, t.Line, t.Column), Replay: c12ReplayArg("lex", src)})
			return
		}
	}
}

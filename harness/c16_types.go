package main

// The static pool of declared environment types of the C16 vertical.  Go cannot create struct
// types with methods at run time, so everything that needs a method set is declared here; the
// generator combines them (and reflect.StructOf shapes built from the method-less ones).

import "reflect"

// ---- leaves and embedding chains (X occurs at several depths) ----
type C16Inner struct {
	X int
	Y string
}
type C16Inner2 struct {
	X string
	Z bool
}
type C16Deep struct{ C16Inner2 } // X, Z at depth 1
type C16DeepB struct{ C16Inner } // X, Y at depth 1
type C16Deeper struct {          // X, Z at depth 2, through a pointer
	*C16Deep
	W float64
}
type C16Deepest struct { // X, Z at depth 3
	C16Deeper
	V uint8
}

// ---- shadowing, both declaration orders ----
type C16ShadowBefore struct {
	X string
	C16Inner
}
type C16ShadowAfter struct {
	C16Inner
	X string
}
type C16ShadowPtr struct {
	Y bool
	*C16Inner
}
type C16ShadowDeep struct { // own X before an embedded struct that has X two levels down
	X float64
	C16Deeper
}
type C16NestShadow struct { // the shadow-order shape one level down
	C16ShadowBefore
	Q int
}

// ---- duplicates at different depths (Go: shallowest wins) ----
type C16DiffDepth struct {
	C16Inner
	C16Deep
}
type C16DiffDepthRev struct {
	C16Deep
	C16Inner
}
type C16Depth3 struct {
	C16Deepest
	*C16Inner
}

// ---- genuine ambiguity at one depth ----
type C16SameDepth struct {
	C16Inner
	C16Inner2
}
type C16SameDepth2 struct { // ambiguity at depth 2
	*C16Deep
	C16DeepB
}
type C16AmbShadowed struct { // ambiguity below, resolved by an own field declared last
	C16Inner
	C16Inner2
	X bool
}

// ---- unexported members ----
type c16unexp struct {
	U int
	v int
}
type C16WithUnexp struct {
	lower int
	c16unexp
	Up int
	fn func() int
	Fn func() int
}
type C16PtrUnexp struct {
	*c16unexp
	T string
}

// ---- methods on value and pointer receivers, promoted ones ----
type C16M1 struct{ A int }

func (C16M1) Foo() int          { return 1 }
func (*C16M1) PFoo() string     { return "p" }
func (C16M1) Add(a, b int) int  { return a + b }
func (C16M1) Two() (int, error) { return 0, nil }
func (C16M1) Any() interface{}  { return nil }

// near the fast-call shape, not it: a fixed parameter before `...interface{}`; and the shape itself
func (C16M1) Mix(a int, rest ...interface{}) interface{} { return nil }
func (C16M1) Var(rest ...interface{}) interface{}        { return nil }

type C16M2 struct{ B int }

func (C16M2) Foo() int    { return 2 }
func (C16M2) Bar() string { return "bar" }

type C16AmbM struct { // Foo is ambiguous among the promoted methods
	C16M1
	C16M2
}
type C16PromV struct { // promotion through a value
	C16M1
	K int
}
type C16PromP struct { // promotion through a pointer: PFoo is in the value method set
	*C16M1
	K int
}
type C16PromDeep struct { // methods promoted from depth 2
	*C16PromV
	C16Inner
}
type C16MethField struct { // a method called like a promoted field
	C16Inner
}

func (C16MethField) X() string { return "m" }

// ---- function-valued members ----
type C16Funcs struct {
	F0 func() int
	F1 func(int) string
	FS func(string, bool) float64
	FV func(...interface{}) interface{}
	FX func(int, ...interface{}) interface{}    // NOT the fast shape: a fixed parameter before the variadic one
	FY func(string, ...interface{}) interface{} // likewise
	FZ func(...interface{}) int                 // NOT the fast shape: the result is not an interface
	FI func(interface{}) interface{}
	F2 func() (int, error)
	FN func()
}

type C16MyMap map[string]int

// ---- nested members ----
type C16Holder struct {
	S    C16SameDepth
	S2   *C16SameDepth2
	D    C16DiffDepthRev
	D2   *C16DiffDepth
	D3   C16Depth3
	P    *C16Deeper
	SB   C16ShadowBefore
	SA   *C16ShadowAfter
	A    C16AmbM
	PA   *C16AmbM
	PV   C16PromV
	PPV  *C16PromV
	PP   *C16PromP
	W    C16WithUnexp
	Fs   C16Funcs
	PFs  *C16Funcs
	MI   map[string]int
	MA   map[string]interface{}
	MS   map[string]*C16Inner
	MV   map[string]C16DiffDepthRev
	MM   map[string]map[string]C16Inner
	MF   map[string]func() int
	NM   C16MyMap
	Any  interface{}
	L    []C16Inner
	N    int
	Self *C16Holder
	C16M1
}

func (C16Holder) Hello(s string) string { return s }
func (*C16Holder) PHello() bool         { return true }

// ---- exported names that start with a NON-ASCII upper-case letter (Go exports by Unicode class Lu) ----
type C16UniBase struct {
	Ωmega float64
	École string
}
type C16Unicode struct {
	Ärger int
	Über  string
	Élan  func() int
	ärger int // unexported: lower-case non-ASCII first letter
	C16UniBase
}

func (C16Unicode) Österreich() string { return "at" }

// ---- a method that shadows a function-valued field promoted from an embedded struct ----
type C16FnBase struct {
	Label func() int
	Other func() int
}
type C16FnShadow struct {
	C16FnBase
	N int
}

func (C16FnShadow) Label() string { return "method" }

type C16FnShadowPtr struct {
	*C16FnBase
	N int
}

func (*C16FnShadowPtr) Label() string { return "pmethod" }

// ---- exported members spelled like the language's word operators, literals and builtins in ANOTHER letter case: they are
//
//	ordinary names (the language's words are lower-case only) ----
type C16WordsIn struct {
	OR  int
	IN  string
	Not bool
}
type C16Words struct {
	OR, AND, NOT, IN                        int
	MATCHES, CONTAINS, STARTSWITH, ENDSWITH string
	NIL, TRUE, FALSE                        bool
	Len, All, None, Any, One, Filter, Map   int
	Or, And, Not, In, Nil, True, False      int
	Of                                      C16WordsIn
	C16WordsIn2
}
type C16WordsIn2 struct{ Matches, Contains string }

func (C16Words) COUNT() int      { return 1 }
func (C16Words) Count(i int) int { return i }

type c16envSpec struct {
	name string
	t    reflect.Type // struct type (used as T and as *T), or map type
}

var c16StructPool = []reflect.Type{
	reflect.TypeOf(C16Inner{}), reflect.TypeOf(C16Inner2{}), reflect.TypeOf(C16Deep{}), reflect.TypeOf(C16DeepB{}),
	reflect.TypeOf(C16Deeper{}), reflect.TypeOf(C16Deepest{}),
	reflect.TypeOf(C16ShadowBefore{}), reflect.TypeOf(C16ShadowAfter{}), reflect.TypeOf(C16ShadowPtr{}),
	reflect.TypeOf(C16ShadowDeep{}), reflect.TypeOf(C16NestShadow{}),
	reflect.TypeOf(C16DiffDepth{}), reflect.TypeOf(C16DiffDepthRev{}), reflect.TypeOf(C16Depth3{}),
	reflect.TypeOf(C16SameDepth{}), reflect.TypeOf(C16SameDepth2{}), reflect.TypeOf(C16AmbShadowed{}),
	reflect.TypeOf(C16WithUnexp{}), reflect.TypeOf(C16PtrUnexp{}),
	reflect.TypeOf(C16M1{}), reflect.TypeOf(C16M2{}), reflect.TypeOf(C16AmbM{}), reflect.TypeOf(C16PromV{}),
	reflect.TypeOf(C16PromP{}), reflect.TypeOf(C16PromDeep{}), reflect.TypeOf(C16MethField{}),
	reflect.TypeOf(C16Funcs{}), reflect.TypeOf(C16Holder{}),
	reflect.TypeOf(C16Unicode{}), reflect.TypeOf(C16FnShadow{}), reflect.TypeOf(C16FnShadowPtr{}), reflect.TypeOf(C16Words{}),
}

// method-less types reflect.StructOf may embed (by value and by pointer)
var c16Embeddable = []reflect.Type{
	reflect.TypeOf(C16Inner{}), reflect.TypeOf(C16Inner2{}), reflect.TypeOf(C16Deep{}), reflect.TypeOf(C16DeepB{}),
	reflect.TypeOf(C16Deeper{}), reflect.TypeOf(C16Deepest{}), reflect.TypeOf(C16ShadowBefore{}), reflect.TypeOf(C16ShadowAfter{}),
	reflect.TypeOf(C16SameDepth{}), reflect.TypeOf(C16DiffDepth{}), reflect.TypeOf(C16DiffDepthRev{}), reflect.TypeOf(C16AmbShadowed{}),
	reflect.TypeOf(C16Funcs{}),
}

// sample map environments (the types table of a map environment is built from the sample's entries)
func c16MapEnvs() []interface{} {
	return []interface{}{
		map[string]int{"a": 1, "B": 2, "abc": 3},
		map[string]interface{}{
			"a": 1, "s": "str", "b": true, "f": 1.5, "u8": uint8(3),
			"in": C16Inner{}, "pin": &C16Inner{}, "dd": C16DiffDepthRev{}, "sd": &C16SameDepth{},
			"w": C16WithUnexp{}, "am": C16AmbM{}, "pv": &C16PromV{}, "h": &C16Holder{},
			"fn": func() int { return 1 }, "fn1": func(s string) string { return s }, "fv": func(xs ...interface{}) interface{} { return nil },
			"mi": map[string]int{"k": 1}, "ma": map[string]interface{}{"k": 1}, "ms": map[string]*C16Inner{"k": {}},
			"l": []int{1},
		},
		map[string]func() int{"f": func() int { return 1 }, "G": func() int { return 2 }},
		map[string]*C16Inner{"p": {}, "Q": {}},
		map[string]C16DiffDepthRev{"d": {}},
		map[string]C16WithUnexp{"w": {}},
		map[string]string{"s": "x", "Name": "y"},
		map[string]map[string]interface{}{"m": {"k": 1}},
		// a DECLARED map type: its members come from the VALUE, so two values of one type have different tables
		C16Vars{"a": 1, "name": "x", "format": func(i int) string { return "" }, "only1": true},
		C16Vars{"a": "str", "name": 2.5, "format": "not a function", "only2": []int{1}},
		C16Vars{"b": &C16Inner{}},
	}
}

type C16Vars map[string]interface{}

package main

// C06 (memory budget) and C07 (VM reuse): implementation-level oracles on the real VM plus
// correspondence cases for the core model.

import (
	"fmt"
	"math"
	"math/rand"
	"reflect"
	"strings"

	"github.com/antonmedv/expr"
	"github.com/antonmedv/expr/parser"
	"github.com/antonmedv/expr/vm"
)

func init() {
	commands["c06"] = runC06
	commands["c07"] = runC07
}

// allocating expressions: array and map literals, run-time ranges (ascending, empty, descending),
// map/filter results, nestings
func allocExpr(g *egen, d int) string {
	rng := g.rng
	small := func() string {
		return g.pick("0", "1", "2", "3", "5", "I", "len(AI)", "St.X", "-1", "(I + 4)", "(I - 9)")
	}
	if d <= 0 {
		switch rng.Intn(6) {
		case 0:
			return fmt.Sprintf("(%s..%s)", small(), small())
		case 1:
			return "[1, 2, 3]"
		case 2:
			return "[I, S, B]"
		case 3:
			return "{a: 1, b: I}"
		case 4:
			return "[]"
		}
		return fmt.Sprintf("(%s..%s)", small(), small())
	}
	switch rng.Intn(10) {
	case 0:
		return fmt.Sprintf("map(%s, {%s})", allocExpr(g, d-1), g.pick("#", "1", "[#]", "[#, #]", "1..2"))
	case 1:
		return fmt.Sprintf("filter(%s, {%s})", allocExpr(g, d-1), g.pick("true", "false", "B", "len([#]) == 1"))
	case 2:
		n := rng.Intn(4)
		items := make([]string, n)
		for i := range items {
			items[i] = allocExpr(g, d-1)
		}
		return "[" + strings.Join(items, ", ") + "]"
	case 3:
		return fmt.Sprintf("{x: %s, y: %s}", allocExpr(g, d-1), allocExpr(g, d-1))
	case 4:
		return fmt.Sprintf("len(%s)", allocExpr(g, d-1))
	case 5:
		return fmt.Sprintf("[len(%s), len(%s), len(%s)]", allocExpr(g, d-1), allocExpr(g, d-1), allocExpr(g, d-1))
	case 6:
		return fmt.Sprintf("(%s ? %s : %s)", g.pick("B", "B2", "true"), allocExpr(g, d-1), allocExpr(g, d-1))
	case 7:
		return fmt.Sprintf("count(%s, {len([#, #]) > 0})", allocExpr(g, d-1))
	case 8:
		// sums: the LAST allocation decides (a range, a literal, a builtin result)
		return fmt.Sprintf("(len(%s) + len(%s))", allocExpr(g, d-1), allocExpr(g, 0))
	}
	return fmt.Sprintf("map(%s..%s, {%s})", small(), small(), allocExpr(g, d-1))
}

func isBudgetErr(err error) bool {
	return err != nil && strings.Contains(err.Error(), "memory budget exceeded")
}

func runWithBudget(p *vm.Program, env interface{}, budget int) (coreRun, int) {
	old := vm.MemoryBudget
	vm.MemoryBudget = budget
	defer func() { vm.MemoryBudget = old }()
	callLog = nil
	v := &vm.VM{}
	out, err := v.Run(p, env)
	return coreRun{out, err, callLog}, v.VerifMemory()
}

func runC06() {
	rep := newReport("C06")
	rng := rand.New(rand.NewSource(*seed))
	nExpr, nEnvs := 260, 4
	if *tier == "thorough" {
		nExpr, nEnvs = 3000, 8
	}
	envs := standardEnvs(rng, nEnvs)
	// keep ranges over I small on the boundary environment: a huge need is still exercised by budgets
	g := &egen{rng: rng, hist: rep.Histogram}
	var cases []string
	distinct := map[string]bool{}
	fixed := []string{
		"[len(I16..1), len(1..8), len(1..8)]", "len(1..I16)", "[1..3, 3..1, 5..5]", "map(1..3, {[#, #]})",
		"filter(1..10, {# % 2 == 0})", "{a: [1, 2], b: {c: 1..2}}", "len(I..I)", "(I - 1)..(I - 9)", "map(3..1, {#})",
		"len(1..(I + 3)) + len(1..(I + 3))", "len([I, S]) + len(1..(I + 2))", "len(map([1, 2], {#})) + len(0..I)", "len(0..I) + len([I, S])",
		"len(1..6) + len(1..(I + 2))", "len(map(1..(I + 1), {[1, 2, 3]}))", "len(filter(1..8, {# > 2})) + len(2..I)",
		// an allocating operand under a slice with an OMITTED bound (the operand is evaluated once)
		"(1..(I + 5))[1:]", "(1..(I + 5))[:]", "map(1..(I + 3), {# * 2})[2:]", "[I, I + 1, I + 2][1:]", "len((1..(I + 4))[1:]) + len((1..(I + 4))[:2])", "filter(1..(I + 6), {# > 1})[1:]",
		// one run-time range LARGER than the default budget: a budget raised above the default must be honoured
		"len(1..(I - I + 1000001))", "len((I - I)..(I - I + 1200000))",
	}
	srcs := append([]string{}, fixed...)
	for i := 0; i < nExpr; i++ {
		srcs = append(srcs, allocExpr(g, 1+rng.Intn(3)))
	}
	for _, src := range srcs {
		for _, m := range []coreMode{modeUntyped, modeTypedOpt} {
			tree, prog, _, err := pipeline(src, m.options(envs[0]))
			if err != nil {
				rep.hist("rejected at compile time")
				continue
			}
			for ei, e := range envs {
				ideal, need := runWithBudget(prog, e, math.MaxInt64/4)
				rep.Evaluations++
				if ideal.err != nil {
					rep.hist("ideal run fails: " + cqErrClass(ideal.err.Error()))
					if isBudgetErr(ideal.err) {
						rep.hist("needs more than 2^61 elements")
					}
					cases = append(cases, coreCase(false, m.Cast, math.MaxInt64/4, ei, tree, prog, ideal))
					continue
				}
				rep.hist(fmt.Sprintf("need %s", bucket(need)))
				key := fmt.Sprintf("%s|%s|%d", src, m.Name, ei)
				if need >= 1 {
					distinct[key] = true
				}
				budgets := []int{need + 1, need, 1, 2, need / 2, need + 17, 1000000}
				for bi, b := range budgets {
					if b < 1 {
						continue
					}
					r, used := runWithBudget(prog, e, b)
					rep.Evaluations++
					in := map[string]interface{}{"src": src, "mode": m.Name, "env": ei, "budget": b, "need": need}
					switch {
					case b > need:
						if r.err != nil || cqValue(r.out) != cqValue(ideal.out) {
							rep.fail(Failure{Key: "C06-refused-below-budget", What: "a run that needs fewer elements than the budget was refused or changed its result",
								Input: in, Want: "as the unbudgeted run: " + fmt.Sprint(ideal.out), Got: fmt.Sprintf("%v / %v", r.out, r.err)})
						}
						if used != need {
							rep.fail(Failure{Key: "C06-accounting", What: "the number of accounted elements depends on the budget", Input: in,
								Want: fmt.Sprint(need), Got: fmt.Sprint(used)})
						}
					case need >= 1 && b <= need:
						if !isBudgetErr(r.err) {
							rep.fail(Failure{Key: "C06-completed-at-budget", What: "a run that creates at least as many elements as the budget completed",
								Input: in, Want: "memory budget exceeded", Got: fmt.Sprintf("%v / %v (accounted %d)", r.out, r.err, used)})
						}
					}
					if bi < 3 && (need <= 8000 || bi == 2) {
						// (the in-Coq evaluation costs time proportional to the elements created: runs that create more than 8000
						// elements are judged by the oracle above only, except under budget 1 where the model stops at once)
						cases = append(cases, coreCase(false, m.Cast, b, ei, tree, prog, r))
					}
				}
				// the budget is PER RUN: the same program three times on one (reused) VM under budget need+1
				if need >= 1 {
					old := vm.MemoryBudget
					vm.MemoryBudget = need + 1
					v := &vm.VM{}
					for k := 0; k < 3; k++ {
						callLog = nil
						out, rerr := v.Run(prog, e)
						rep.Evaluations++
						if rerr != nil || cqValue(out) != cqValue(ideal.out) || v.VerifMemory() != need {
							rep.fail(Failure{Key: "C06-refused-below-budget", What: "a run that needs fewer elements than the budget was refused or changed its result (run " + fmt.Sprint(k+1) + " on one reused vm.VM)",
								Input: map[string]interface{}{"src": src, "mode": m.Name, "env": ei, "budget": need + 1, "need": need, "reused_vm_run": k + 1},
								Want:  "as the unbudgeted run: " + fmt.Sprint(ideal.out), Got: fmt.Sprintf("%v / %v (accounted %d)", out, rerr, v.VerifMemory())})
							break
						}
					}
					vm.MemoryBudget = old
				}
				// independent recount of what was created: every array/map/range built during evaluation
				if m.Name == "untyped" {
					if got := countCreated(ideal.out); got > need {
						rep.fail(Failure{Key: "C06-undercount", What: "the result alone holds more created elements than were accounted", Input: in2(src, ei),
							Want: fmt.Sprintf(">= %d", got), Got: fmt.Sprint(need)})
					}
				}
			}
		}
	}
	// literal ranges LARGER than the optimizer's folding window (10^6 elements) are built at run time in every mode:
	// under the default budget (10^6) they must be refused, wherever zero lies between the bounds
	for _, b := range [][2]int{{-600000, 600000}, {-1000000, 1000000}, {0, 1000000}, {1, 1000001}, {-1, 1000000}, {-1000001, 0}, {-999999, 2}, {-500000, 500001}} {
		for _, form := range []string{"len(%d..%d)", "(%d..%d)[0]", "len(%d..%d) + len(1..3)"} {
			src := fmt.Sprintf(form, b[0], b[1])
			for _, m := range []coreMode{modeUntyped, modeTypedOpt} {
				_, prog, _, err := pipeline(src, m.options(envs[0]))
				if err != nil {
					continue
				}
				r, used := runWithBudget(prog, envs[0], 1000000)
				rep.Evaluations++
				if !isBudgetErr(r.err) {
					rep.fail(Failure{Key: "C06-completed-at-budget", What: "a run that creates at least as many elements as the budget completed (literal range above the folding window)",
						Input: map[string]interface{}{"src": src, "mode": m.Name, "budget": 1000000, "need": b[1] - b[0] + 1},
						Want:  "memory budget exceeded", Got: fmt.Sprintf("%v / %v (accounted %d)", clip(fmt.Sprint(r.out)), r.err, used)})
				}
			}
		}
	}
	// membership in a literal range LARGER than the budget: the language defines `x in a..b` by two comparisons and the optimized
	// program creates nothing - whatever spelling the bounds have and in whichever slot the test stands (a run that needs
	// no element is never refused)
	for _, src := range []string{"I in -1000000..1000000", "I in 1..2 * 1000 * 1000", "I not in -(1)..+(2000000)", "(I in 1..2000000) ?: B", "(I not in 1..2000000) ?: B",
		"map(AI, {# in -5..2000000})", "I in 1..2000000 ? 1 : 2", "{\"k\": I in 0..3000000}", "[I in -3000000..-1, I in 1..3000000]"} {
		_, prog, _, err := pipeline(src, modeTypedOpt.options(envs[0]))
		if err != nil {
			rep.hist("rejected at compile time")
			continue
		}
		for ei, e := range envs {
			r, used := runWithBudget(prog, e, 1000000)
			rep.Evaluations++
			rep.hist("membership in a literal range above the budget")
			if r.err != nil || used > 16 { // (the result containers of the last three sources count 4, 1 and 2 elements)
				rep.fail(Failure{Key: "C06-refused-below-budget", What: "membership in a literal range is answered by building the range: a run that needs no element is refused (or charged)",
					Input: map[string]interface{}{"src": src, "mode": modeTypedOpt.Name, "env": ei, "budget": 1000000, "need": 0},
					Want:  "a result, at most the elements of the result itself accounted", Got: fmt.Sprintf("%v / %v (accounted %d)", clip(fmt.Sprint(r.out)), r.err, used)})
				break
			}
		}
	}
	// ranges whose bounds are calls of ConstExpr functions (no literal bound anywhere): the optimizer evaluates the calls at compile
	// time, but the range is still created by the RUN and has to be accounted - the optimized program needs what the unoptimized needs
	for _, src := range []string{"len(1..Inc(99))", "len(Inc(0)..Add(50, 50))", "map(Inc(0)..Inc(4), {#})", "len(Inc(-1)..Inc(1999))", "(Inc(0)..Inc(63))[3]", "len(Inc(0)..Inc(I))",
		"filter(Inc(1)..Add(10, 10), {# > 3})", "[len(Inc(0)..Inc(9)), len(Add(1, 1)..Add(20, 20))]", "Inc(5) in Inc(0)..Inc(9) ? len(Inc(0)..Inc(29)) : 0"} {
		var progs [2]*vm.Program
		ok := true
		for k, opt := range []bool{false, true} {
			p, err := expr.Compile(src, expr.Env(envs[0]), expr.ConstExpr("Inc"), expr.ConstExpr("Add"), expr.Optimize(opt))
			if err != nil {
				ok = false
				break
			}
			progs[k] = p
		}
		if !ok {
			rep.hist("rejected at compile time")
			continue
		}
		for ei, e := range envs {
			r0, need0 := runWithBudget(progs[0], e, math.MaxInt64/4)
			r1, need1 := runWithBudget(progs[1], e, math.MaxInt64/4)
			rep.Evaluations += 2
			rep.hist("ranges bounded by ConstExpr calls")
			if r0.err != nil || r1.err != nil {
				continue
			}
			distinct[fmt.Sprintf("constexpr-range|%s|%d", src, ei)] = true
			if need1 < need0 {
				rb, _ := runWithBudget(progs[1], e, need0)
				got := "completed under that budget"
				if rb.err != nil {
					got = firstLineOf(rb.err.Error())
				}
				rep.fail(Failure{Key: "C06-completed-at-budget", What: "a run that creates at least as many elements as the budget completed: ranges bounded by ConstExpr calls are accounted with the optimizer off and not with it on",
					Input: map[string]interface{}{"src": src, "options": "Env, ConstExpr(Inc), ConstExpr(Add), Optimize(true)", "env": ei, "budget": need0, "need": need0},
					Want:  "memory budget exceeded", Got: fmt.Sprintf("accounted %d; %s", need1, got)})
				break
			}
		}
	}
	rep.Distinct = len(distinct)
	rep.Rule = "allocating expressions (array/map literals, run-time ranges with ascending, empty and descending bounds chosen by the environment, map/filter results, nestings to depth 3) compiled untyped and typed+optimized; for each environment the ideal run (budget 2^61) gives the need N read from the VM's counter (verif hook) and cross-checked against the elements visible in the result; then budgets N+1, N, 1, 2, N/2, N+17, 10^6: success with the same result iff budget > N, 'memory budget exceeded' iff budget <= N; distinct_nontrivial = distinct (source, mode, environment) with N >= 1; the runs with the first three budgets are also evaluated in the Coq VM and reference semantics (N <= 8000; above that only the run under budget 1)"
	for i := 0; i < 5 && i < len(srcs); i++ {
		rep.Samples = append(rep.Samples, srcs[(i*131+3)%len(srcs)])
	}
	rep.writeShards("cases_c06", coreHeader(envs), "ccase", "core_mismatches fe", cases)
	rep.write()
}

func in2(src string, ei int) map[string]interface{} {
	return map[string]interface{}{"src": src, "env": ei}
}

func bucket(n int) string {
	switch {
	case n == 0:
		return "0"
	case n < 10:
		return "1-9"
	case n < 100:
		return "10-99"
	case n < 10000:
		return "100-9999"
	}
	return ">=10000"
}

// countCreated: a lower bound of the elements created for a result: the elements of every
// []interface{} / map[string]interface{} / []int reachable in it.
// countCreated: elements of the arrays / maps reachable from the result, each distinct array or map counted ONCE
// (a closure like {[#, #]} puts the same inner array into the result twice: it was created once)
func countCreated(v interface{}) int {
	seen := map[uintptr]bool{}
	var rec func(v interface{}) int
	rec = func(v interface{}) int {
		switch x := v.(type) {
		case []interface{}:
			if len(x) > 0 {
				p := reflect.ValueOf(x).Pointer()
				if seen[p] {
					return 0
				}
				seen[p] = true
			}
			n := len(x)
			for _, e := range x {
				n += rec(e)
			}
			return n
		case map[string]interface{}:
			p := reflect.ValueOf(x).Pointer()
			if seen[p] {
				return 0
			}
			seen[p] = true
			n := 0
			for _, e := range x {
				n += 1 + rec(e)
			}
			return n
		}
		return 0
	}
	return rec(v)
}

// ---------------------------------------------------------------- C07
type keptRes struct {
	i   int
	out interface{}
	was string
}

func runC07() {
	rep := newReport("C07")
	rng := rand.New(rand.NewSource(*seed))
	nHist, maxLen := 60, 24
	if *tier == "thorough" {
		nHist, maxLen = 600, 120
	}
	envs := standardEnvs(rng, 4)
	g := &egen{rng: rng, hist: rep.Histogram}
	pool := []string{
		"len(1..8)", "[1, 2, 3]", "map(1..5, {[#, #]})", "filter(AI, {# > 1})", "map(AI, {# / 0})", "all(AI, {Boom(#) > 0})",
		"map(1..3, {map(1..3, {AI[#]})})", "AI[7]", "P.X", "1 + 2", "{a: 1..4}", "count(1..6, {len([#]) == 1})", "Add(1, 2)",
		"map(1..9, {filter(1..#, {# % 2 == 0})})", "S + S2", "len(1..I16)", "[1..4, 1..4, 1..4]", "any(AA, {# == nil})",
	}
	for i := 0; i < 30; i++ {
		pool = append(pool, allocExpr(g, 1+rng.Intn(2)), g.expr(tAny, 2))
	}
	type compiled struct {
		src  string
		tree *parser.Tree
		prog *vm.Program
	}
	var cs []compiled
	for _, src := range pool {
		tree, prog, _, err := pipeline(src, modeUntyped.options(envs[0]))
		if err != nil {
			continue
		}
		cs = append(cs, compiled{src, tree, prog})
	}
	old := vm.MemoryBudget
	defer func() { vm.MemoryBudget = old }()
	var cases []string
	distinct := map[string]bool{}
	budgets := []int{20, 50, 7, 1000000}
	for h := 0; h < nHist; h++ {
		budget := budgets[rng.Intn(len(budgets))]
		vm.MemoryBudget = budget
		reused := &vm.VM{}
		n := 2 + rng.Intn(maxLen)
		var hist []string
		var kept []keptRes
		cumulative, crossings := 0, 0
		for i := 0; i < n; i++ {
			c := cs[rng.Intn(len(cs))]
			ei := rng.Intn(len(envs))
			hist = append(hist, fmt.Sprintf("%s @env%d", c.src, ei))
			callLog = nil
			out1, err1 := reused.Run(c.prog, envs[ei])
			log1 := callLog
			used := reused.VerifMemory()
			callLog = nil
			fresh := &vm.VM{}
			out2, err2 := fresh.Run(c.prog, envs[ei])
			rep.Evaluations += 2
			cumulative += fresh.VerifMemory()
			if cumulative >= budget {
				crossings++
				cumulative = 0
			}
			// results of EARLIER runs on the reused VM are the caller's: a later run must not change them
			for _, k := range kept {
				if now := cqValue(k.out); now != k.was {
					rep.fail(Failure{Key: "C07-earlier-result-changed", What: "the value returned by an earlier run on the reused VM changed during a later run",
						Input: map[string]interface{}{"budget": budget, "history": append([]string{}, hist...), "earlier_run": k.i + 1},
						Want:  k.was, Got: now})
					kept = nil
					break
				}
			}
			if err1 == nil && len(kept) < 6 {
				kept = append(kept, keptRes{i, out1, cqValue(out1)})
			}
			same := cqValue(out1) == cqValue(out2) && fmt.Sprint(err1) == fmt.Sprint(err2)
			if err1 == nil {
				rep.hist("run ok")
			} else {
				rep.hist("run fails " + cqErrClass(err1.Error()))
			}
			if !same {
				rep.fail(Failure{Key: "C07-reuse-differs", What: "a run on a reused VM differs from the run on a fresh VM",
					Input: map[string]interface{}{"budget": budget, "history": append([]string{}, hist...)},
					Want:  fmt.Sprintf("%v / %v", out2, err2), Got: fmt.Sprintf("%v / %v (counter %d)", out1, err1, used)})
				break
			}
			cases = append(cases, coreCase(false, "", budget, ei, c.tree, c.prog, coreRun{out1, err1, log1}))
		}
		if crossings > 0 {
			distinct[strings.Join(hist, ";")] = true
		}
		rep.hist(fmt.Sprintf("history crossing the budget %s times", bucket(crossings)))
	}
	// ---- histories on a MAP environment whose function members are replaced between runs, and on the same program
	// with different environment values of one type (a lookup remembered from an earlier run must not be reused)
	{
		vm.MemoryBudget = old
		mk := func(tag int) func(x int) int { return func(x int) int { return x*10 + tag } }
		mkFast := func(tag string) func(xs ...interface{}) interface{} {
			return func(xs ...interface{}) interface{} { return tag }
		}
		srcsM := []string{"F(2)", "[F(1), F(2)]", "map(1..2, {F(#)})", "G(1)", "F(1) + I", "[G(), G(1, 2)]", "filter(1..3, {F(#) > 15})"}
		for _, src := range srcsM {
			for _, typed := range []bool{false, true} {
				m := map[string]interface{}{"F": mk(1), "G": mkFast("g1"), "I": 1}
				var ops []expr.Option
				if typed {
					ops = append(ops, expr.Env(m))
				}
				prog, err := expr.Compile(src, ops...)
				if err != nil {
					continue
				}
				reused := &vm.VM{}
				steps := []func(){
					func() {}, func() { m["F"] = mk(2) }, func() { m["G"] = mkFast("g2") }, func() { m["I"] = 5 },
					func() { m["F"], m["G"] = mk(3), mkFast("g3") }, func() { m = map[string]interface{}{"F": mk(4), "G": mkFast("g4"), "I": 7} },
				}
				for si, st := range steps {
					st()
					out1, err1 := reused.Run(prog, m)
					out2, err2 := (&vm.VM{}).Run(prog, m)
					rep.Evaluations += 2
					if fmt.Sprintf("%#v", out1) != fmt.Sprintf("%#v", out2) || fmt.Sprint(err1) != fmt.Sprint(err2) {
						rep.fail(Failure{Key: "C07-reuse-differs", What: "a run on a reused VM differs from the run on a fresh VM (map environment whose function members were replaced between runs)",
							Input: map[string]interface{}{"src": src, "typed": typed, "step": si}, Want: fmt.Sprintf("%#v / %v", out2, err2), Got: fmt.Sprintf("%#v / %v", out1, err1)})
						break
					}
				}
				distinct["mapenv|"+src] = true
			}
		}
		// one program, one VM, environment values whose DYNAMIC KINDS change from run to run (operands of interface{} type:
		// untyped compile and map environments): nothing a run learnt about the kinds it met may steer the next run
		{
			kinds := []map[string]interface{}{
				{"X": 1, "Y": 1, "Xs": []interface{}{1, 2}}, {"X": "a", "Y": "a", "Xs": []interface{}{"a", "b"}}, {"X": 2.5, "Y": 1, "Xs": []interface{}{1.5, int64(2)}},
				{"X": int64(1), "Y": 1, "Xs": []interface{}{uint8(1), "b"}}, {"X": 1, "Y": 2, "Xs": []interface{}{1, 2}}, {"X": nil, "Y": 1, "Xs": []interface{}{nil, 1}},
				{"X": true, "Y": false, "Xs": []interface{}{true}}, {"X": 7, "Y": 7, "Xs": []interface{}{7}}}
			for _, src := range []string{"X == Y", "X != Y", "X == 1", "X + Y", "X < Y", "X in Xs", "filter(Xs, {# == X})", "map(Xs, {# == 1})", "X == Y ? X : Y", "-X", "X * 2", "[X == Y, X != 1]",
				"count(Xs, {# == Y}) == 1", "X ?: Y", "len(Xs) == 2 and X == Y", "X .. Y", "X % 2 == 1", "X matches \"a\"", "X contains Y"} {
				for _, typed := range []bool{false, true} {
					var ops []expr.Option
					if typed {
						ops = append(ops, expr.Env(kinds[0]))
					}
					prog, err := expr.Compile(src, ops...)
					if err != nil {
						continue
					}
					reused := &vm.VM{}
					for k := 0; k < 2*len(kinds); k++ {
						e := kinds[(k*3)%len(kinds)]
						out1, err1 := reused.Run(prog, e)
						out2, err2 := (&vm.VM{}).Run(prog, e)
						rep.Evaluations += 2
						rep.hist("one program, dynamic kinds changing between runs")
						if fmt.Sprintf("%#v", out1) != fmt.Sprintf("%#v", out2) || fmt.Sprint(err1) != fmt.Sprint(err2) {
							rep.fail(Failure{Key: "C07-reuse-differs", What: "a run on a reused VM differs from the run on a fresh VM (same program, operands of another dynamic kind than in the earlier runs)",
								Input: map[string]interface{}{"src": src, "typed": typed, "run": k + 1, "env": fmt.Sprintf("%#v", e)}, Want: fmt.Sprintf("%#v / %v", out2, err2), Got: fmt.Sprintf("%#v / %v", out1, err1)})
							break
						}
					}
					distinct["kinds|"+src] = true
				}
			}
		}
		// the same program on different struct environments in turn
		for _, src := range []string{"Add(I, 1)", "Twice(I)", "St.Get() + P.Get()", "Fast(I, S)", "map(AI, {Inc(#)})"} {
			tree, prog, _, err := pipeline(src, modeTyped.options(envs[0]))
			_ = tree
			if err != nil {
				continue
			}
			reused := &vm.VM{}
			for k := 0; k < 8; k++ {
				e := envs[(k*3+1)%len(envs)]
				callLog = nil
				out1, err1 := reused.Run(prog, e)
				l1 := cqTrace(callLog)
				callLog = nil
				out2, err2 := (&vm.VM{}).Run(prog, e)
				l2 := cqTrace(callLog)
				rep.Evaluations += 2
				if cqValue(out1) != cqValue(out2) || fmt.Sprint(err1) != fmt.Sprint(err2) || l1 != l2 {
					rep.fail(Failure{Key: "C07-reuse-differs", What: "a run on a reused VM differs from the run on a fresh VM (same program, another environment value)",
						Input: map[string]interface{}{"src": src, "run": k + 1}, Want: fmt.Sprintf("%v / %v / %s", out2, err2, l2), Got: fmt.Sprintf("%v / %v / %s", out1, err1, l1)})
					break
				}
			}
		}
	}
	rep.Distinct = len(distinct)
	rep.Rule = "random histories of 2..24 (thorough 2..120) runs on ONE vm.VM value, drawn from a pool of succeeding programs, programs failing inside nested loops, calls of a panicking function and allocating programs, under budgets 7/20/50/10^6 so that the cumulative allocation crosses the budget many times; each run is compared with the same run on a fresh vm.VM (value with dynamic types, error text); distinct_nontrivial = distinct histories whose cumulative allocation crosses the budget at least once; every reused-VM run is also compared with the Coq model's fresh run"
	for i := 0; i < 3; i++ {
		rep.Samples = append(rep.Samples, pool[(i*7+1)%len(pool)])
	}
	if len(cases) > 2500 && *tier != "thorough" {
		rng.Shuffle(len(cases), func(i, j int) { cases[i], cases[j] = cases[j], cases[i] })
		cases = cases[:2500]
	}
	rep.writeShards("cases_c07", coreHeader(envs), "ccase", "core_mismatches fe", cases)
	rep.write()
}

package main

// Round-7 campaigns of the C02 vertical (oracle only, through the REAL expr.Compile):
//   (a) a Patch visitor that changes the static type of an operand BEFORE the optimizer sees the tree: the optimizer's type-directed
//       rewrites must read the types of the tree they rewrite (the re-check after the visitors), whatever the visitors did;
//   (b) ConstExpr functions whose result is a TYPED nil (nil slice / map / pointer): the constant the optimizer stores must run like
//       the call it replaces.

import (
	"fmt"
	"strings"

	"github.com/antonmedv/expr"
	"github.com/antonmedv/expr/ast"
)

type c02Swap struct{ from, to string }

func (v *c02Swap) Enter(*ast.Node) {}
func (v *c02Swap) Exit(n *ast.Node) {
	if id, ok := (*n).(*ast.IdentifierNode); ok && id.Value == v.from {
		ast.Patch(n, &ast.IdentifierNode{Value: v.to})
	}
}

type C02NilInner struct{ X int }

type C02NilEnv struct {
	Tags   func(string) []string
	Nums   func(int) []int
	Limits func(string) map[string]int
	Ptr    func(int) *C02NilInner
	Count  func([]string) int
	Size   func(map[string]int) int
	I      int
}

func c02NilEnv() *C02NilEnv {
	return &C02NilEnv{
		Tags: func(g string) []string {
			var out []string
			if g == "color" {
				out = append(out, "red", "green")
			}
			return out
		},
		Nums: func(n int) []int {
			var out []int
			for i := 0; i < n; i++ {
				out = append(out, i)
			}
			return out
		},
		Limits: func(p string) map[string]int {
			if p == "pro" {
				return map[string]int{"cpu": 8}
			}
			return nil
		},
		Ptr: func(i int) *C02NilInner {
			if i > 0 {
				return &C02NilInner{X: i}
			}
			return nil
		},
		Count: func(xs []string) int { return len(xs) },
		Size:  func(m map[string]int) int { return len(m) },
		I:     2,
	}
}

func c02Round7(rep *Report, sample interface{}, envs []*C02Env) {
	cmp := func(fam, src string, env interface{}, runEnvs []interface{}, base []expr.Option, key, what string) {
		var ps [2]interface{}
		var errs [2]error
		var rs [2][]coreRun
		for k, opt := range []bool{false, true} {
			func() {
				defer func() {
					if r := recover(); r != nil {
						errs[k] = fmt.Errorf("panic: %v", r)
					}
				}()
				ops := append(append([]expr.Option{expr.Env(env)}, base...), expr.Optimize(opt))
				p, err := expr.Compile(src, ops...)
				errs[k] = err
				ps[k] = p
				if err == nil {
					for _, e := range runEnvs {
						rs[k] = append(rs[k], runProgram(p, e))
					}
				}
			}()
		}
		rep.Evaluations += 2
		rep.hist(fam)
		if errs[0] != nil && errs[1] != nil {
			return
		}
		if (errs[0] == nil) != (errs[1] == nil) {
			rep.fail(Failure{Key: key, What: what + ": accepted with one optimizer setting, rejected with the other", Input: map[string]interface{}{"src": src, "campaign": fam},
				Want: fmt.Sprintf("unoptimized compile: %v", errs[0]), Got: fmt.Sprintf("optimized compile: %v", errs[1])})
			return
		}
		for i := range rs[0] {
			r0, r1 := rs[0][i], rs[1][i]
			if (r0.err != nil && r1.err != nil) || (r0.err == nil && r1.err == nil && simEqual(r0.out, r1.out)) {
				continue
			}
			rep.fail(Failure{Key: key, What: what, Input: map[string]interface{}{"src": src, "campaign": fam, "env": i},
				Want: "unoptimized: " + c02Show(r0), Got: "optimized: " + c02Show(r1)})
			return
		}
	}

	// (a) visitors that retype an operand of a type-directed rewrite site
	var run []interface{}
	for _, e := range envs {
		run = append(run, e)
	}
	sites := []string{"%s in [1, 2, 3]", "%s not in [1, 2]", "%s in 1..3", "%s not in 1..3", "(%s + 1) in 1..3", "(%s + 1) in [2, 3]", "%s in 0..300", "-%s in -3..3",
		"%s in [\"a\", \"b\"]", "any([1, 2], {%s in 1..#})", "%s + 1 == 2", "[%s, 1][0] in 1..3"}
	swaps := [][2]string{{"Any", "Any"}, {"I", "F64"}, {"I", "F32"}, {"I", "S"}, {"I", "Any"}, {"I8", "F64"}, {"S", "I"}, {"S", "Any"}, {"I", "U64"}, {"I", "I"}}
	for _, site := range sites {
		for _, sw := range swaps {
			src := fmt.Sprintf(site, sw[0])
			if strings.Contains(site, "\"a\"") != (sw[0] == "S") {
				continue
			}
			key := "C02-visitor-then-optimize"
			if sw[1] == "Any" && (strings.Contains(site, "(%s + 1)") || strings.HasPrefix(site, "-%s")) {
				// recorded finding: the checker types arithmetic with an interface{} operand by the OTHER operand (`Any + 1` : int),
				// so the membership rewrites fire on a value that need not be an int at run time - with or without a visitor
				key = "C02-iface-arith-typed-int"
			}
			cmp("visitor retypes an operand before the optimizer", src, sample, run, []expr.Option{expr.Patch(&c02Swap{sw[0], sw[1]})},
				key, "a Patch visitor replaced "+sw[0]+" by "+sw[1]+"; optimized and unoptimized programs disagree")
		}
	}

	// (b) typed-nil results of ConstExpr functions
	ne := c02NilEnv()
	consts := []expr.Option{expr.ConstExpr("Tags"), expr.ConstExpr("Nums"), expr.ConstExpr("Limits"), expr.ConstExpr("Ptr")}
	nilCalls := []string{`Tags("shape")`, `Tags("color")`, `Nums(0)`, `Nums(2)`, `Limits("free")`, `Limits("pro")`, `Ptr(0)`, `Ptr(3)`}
	ctxs := []string{"len(%s)", "%s == nil", "%s != nil", "all(%s, {# != nil})", "filter(%s, {true})", "map(%s, {#})", "count(%s, {true})", "Count(%s)", "Size(%s)",
		"%s.cpu", "%s?.cpu", "%s?.X", "%s.X", "\"red\" in %s", "1 in %s", "%s[0:1]", "[%s]", "{a: %s}.a", "I > 1 ? %s : nil", "len(%s) == 0 ? \"none\" : \"some\""}
	for _, c := range nilCalls {
		for _, ctx := range ctxs {
			cmp("ConstExpr call with a typed nil / empty result", fmt.Sprintf(ctx, c), ne, []interface{}{ne}, consts,
				"C02-constexpr-typed-nil", "a ConstExpr call folded to a constant; optimized and unoptimized programs disagree")
		}
	}
}

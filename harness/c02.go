package main

// C02 — The optimizer is observationally transparent.
// (a) ORACLE on the implementation: every generated source is compiled through the replicated
//     expr.Compile pipeline with Optimize(false) and Optimize(true) (untyped, typed, typed with
//     ConstExpr functions), both programs are run on every environment of the universe and the
//     results compared with simEqual (numbers by kind and value, sequences element by element);
//     a source accepted unoptimized but rejected optimized must contain a constant integer `/0`
//     or `%0` (or a ConstExpr call that fails at run time as well).
// (b) CORRESPONDENCE: the tree handed to optimizer.Optimize (after parser.Parse + checker.Check)
//     and the tree it leaves (or the location of its error), plus the table of ConstExpr calls
//     made at compile time, are written as Coq terms; coq/Corr/CorrC02.v runs the model
//     `optimize` on the first and compares node for node, annotations included.

import (
	"encoding/json"
	"fmt"
	goast "go/ast"
	goparser "go/parser"
	"go/token"
	"math"
	"math/rand"
	"reflect"
	"regexp"
	"runtime"
	"sort"
	"strings"

	"github.com/antonmedv/expr"
	"github.com/antonmedv/expr/ast"
	"github.com/antonmedv/expr/checker"
	"github.com/antonmedv/expr/compiler"
	"github.com/antonmedv/expr/conf"
	"github.com/antonmedv/expr/file"
	"github.com/antonmedv/expr/optimizer"
	"github.com/antonmedv/expr/parser"
	"github.com/antonmedv/expr/vm"
)

func init() { commands["c02"] = runC02 }

// ---------------------------------------------------------------- environment
// The universe environment plus one identity function per numeric kind (integer literals in
// argument position are retyped to the parameter type), a []interface{} consumer and a nil producer.
type C02Env struct {
	Env
	GI   func(int) int
	GI8  func(int8) int8
	GI16 func(int16) int16
	GI32 func(int32) int32
	GI64 func(int64) int64
	GU   func(uint) uint
	GU8  func(uint8) uint8
	GU16 func(uint16) uint16
	GU32 func(uint32) uint32
	GU64 func(uint64) uint64
	GF32 func(float32) float32
	GF64 func(float64) float64
	GA   func([]interface{}) int
	GNil func(int) interface{}
	GNeg func(float64) float64
}

func c02Wrap(e *Env) *C02Env {
	c := &C02Env{Env: *e}
	c.GI = func(x int) int { logCall("GI", x); return x }
	c.GI8 = func(x int8) int8 { logCall("GI8", x); return x }
	c.GI16 = func(x int16) int16 { logCall("GI16", x); return x }
	c.GI32 = func(x int32) int32 { logCall("GI32", x); return x }
	c.GI64 = func(x int64) int64 { logCall("GI64", x); return x }
	c.GU = func(x uint) uint { logCall("GU", x); return x }
	c.GU8 = func(x uint8) uint8 { logCall("GU8", x); return x }
	c.GU16 = func(x uint16) uint16 { logCall("GU16", x); return x }
	c.GU32 = func(x uint32) uint32 { logCall("GU32", x); return x }
	c.GU64 = func(x uint64) uint64 { logCall("GU64", x); return x }
	c.GF32 = func(x float32) float32 { logCall("GF32", x); return x }
	c.GF64 = func(x float64) float64 { logCall("GF64", x); return x }
	c.GA = func(x []interface{}) int { logCall("GA", x); return len(x) }
	c.GNil = func(x int) interface{} { logCall("GNil", x); return nil }
	c.GNeg = func(x float64) float64 { logCall("GNeg", x); return -x }
	return c
}

var c02KindFns = []string{"GI", "GI8", "GI16", "GI32", "GI64", "GU", "GU8", "GU16", "GU32", "GU64", "GF32", "GF64"}

// names that may be marked ConstExpr (pure functions of the universe + the panicking Boom)
var c02ConstNames = []string{"Add", "Inc", "Concat", "IsPos", "Fast", "Sum", "Boom", "Id", "Half",
	"GI", "GI8", "GU8", "GF32", "GF64", "GA", "GNil", "GNeg"}

func c02Envs(rng *rand.Rand, n int) []*C02Env {
	var out []*C02Env
	for _, e := range standardEnvs(rng, n) {
		out = append(out, c02Wrap(e))
	}
	return out
}

// ---------------------------------------------------------------- sources
type c02Src struct {
	Fam string
	Src string
}

type c02Mode struct {
	Name   string
	Typed  bool
	Consts []string
}

func (m c02Mode) options(sample interface{}, optimize bool) []expr.Option {
	var ops []expr.Option
	if m.Typed {
		ops = append(ops, expr.Env(sample))
	}
	for _, c := range m.Consts {
		ops = append(ops, expr.ConstExpr(c))
	}
	ops = append(ops, expr.Optimize(optimize))
	return ops
}

var c02Lefts = []string{"I", "I8", "I16", "I32", "I64", "U", "U8", "U16", "U32", "U64", "F32", "F64", "S", "S2", "B", "nil", "Any",
	"1", "2", "300", "-4", "1.5", "2.0", `"a"`, `"abc"`, "St.X", "St.Y", "P?.X", "P?.Y", "P?.Next?.X", "Any?.foo", "AI[0]", "AA[0]", "MI.a", "MA.k", "len(AI)",
	"(I + 1)", "(1 + 1)", "-I8", "Inc(1)", "Inc(I)", "Add(I, 1)", "GI8(1)", "Id(2)", "Id(nil)", "Twice(1)", "St.Get()", "Boom(1)"}

var c02IntArrays = []string{"[1]", "[1, 2, 3]", "[3, 1, 2, 1, 3]", "[300]", "[-4, 44, 200]", "[0]", "[1 + 1, 3]", "[-1, +2]", "[7, 8, 42]",
	"[9223372036854775807, 1]", "[2 * 3 - 4]", "[5 % 3, 1]"}
var c02StrArrays = []string{`["a"]`, `["a", "b", "abc"]`, `["b", "a", "b"]`, `[""]`, `["a" + "b", "abc"]`, `['in', 'st']`}
var c02MixArrays = []string{`[1, "a"]`, `["a", 1]`, `[1, nil]`, `[1, 2.5]`, `[I, 1]`, `[1, I]`, `[S, "a"]`, "[]", "[[1, 2], [3]]", `[1, 2 ** 2]`, "[true, 1]", "[AI, [1, 2]]"}

var c02Bounds = []string{"-1", "0", "1", "2", "3", "5", "100", "250", "260", "300", "400", "500"}

func c02InArraySources(rng *rand.Rand, keep int) []c02Src {
	var out []c02Src
	arrays := append(append(append([]string{}, c02IntArrays...), c02StrArrays...), c02MixArrays...)
	for li, l := range c02Lefts {
		for ai, a := range arrays {
			if rng.Intn(100) >= keep && !(ai < 2 || ai == len(c02IntArrays) || ai == len(c02IntArrays)+len(c02StrArrays)) {
				continue
			}
			op := []string{" in ", " not in "}[(li+ai)%2]
			out = append(out, c02Src{"in-array", l + op + a})
		}
	}
	for _, a := range arrays {
		out = append(out, c02Src{"in-array closure", "filter(AI, {# in " + a + "})"}, c02Src{"in-array closure", "count(AS, {# not in " + a + "})"},
			c02Src{"in-array closure", "map(AA, {# in " + a + "})"})
	}
	return out
}

func c02InRangeSources(rng *rand.Rand, keep int) []c02Src {
	var out []c02Src
	ranges := []string{"1..3", "100..300", "0..0", "-1..1", "3..1", "1..(1 + 2)", "(0 - 1)..1", "250..260", "290..310", "400..500", "-1..0", "2..2",
		"1..I", "I..3", "1..2.5"}
	for li, l := range c02Lefts {
		for ri, r := range ranges {
			if rng.Intn(100) >= keep && ri >= 2 {
				continue
			}
			op := []string{" in ", " not in "}[(li+ri)%2]
			out = append(out, c02Src{"in-range", l + op + r})
		}
	}
	for _, l := range []string{"I", "U8", "F64", "Any", "nil", "Inc(1)"} {
		for _, r := range []string{"1..1000000", "0..1000000", "(0-9223372036854775807-1)..9223372036854775807"} {
			out = append(out, c02Src{"in-range", l + " in " + r})
		}
	}
	for i := 0; i < 60; i++ {
		a, b := c02Bounds[rng.Intn(len(c02Bounds))], c02Bounds[rng.Intn(len(c02Bounds))]
		l := c02Lefts[rng.Intn(12)]
		out = append(out, c02Src{"in-range", fmt.Sprintf("%s %s %s..%s", l, []string{"in", "not in"}[rng.Intn(2)], a, b)})
	}
	for _, r := range []string{"1..3", "0..2", "3..1"} {
		out = append(out, c02Src{"in-range closure", "filter(AI, {# in " + r + "})"}, c02Src{"in-range closure", "all(AA, {# not in " + r + "})"},
			c02Src{"in-range closure", "count(AF, {# in " + r + "})"}, c02Src{"in-range closure", "map(1..5, {# in " + r + "})"})
	}
	out = append(out, c02Src{"in-range double eval", "len(I..600000) in 1..2"}, c02Src{"in-range double eval", "len(filter(AI, {# > 1})) in 1..3"},
		c02Src{"in-range double eval", "Add(Inc(1), 1) not in 1..3"}, c02Src{"in-range double eval", "(B ? Inc(1) : 2) in 1..3"})
	return out
}

func c02ConstRangeSources() []c02Src {
	var out []c02Src
	pairs := [][2]string{{"-1", "-1"}, {"-1", "0"}, {"-1", "1"}, {"0", "-1"}, {"0", "0"}, {"0", "1"}, {"1", "-1"}, {"1", "0"}, {"1", "1"}, {"1", "3"}, {"3", "1"}, {"5", "1"},
		{"1", "999999"}, {"1", "1000000"}, {"1", "1000001"}, {"0", "999999"}, {"0", "1000000"}, {"-1", "999998"}, {"-1", "999999"}, {"2", "1000001"}, {"2", "1000002"},
		{"1", "600000"}, {"1 + 1", "2 * 3"}, {"1", "I"}, {"I", "5"}, {"-2", "2"}, {"9223372036854775806", "9223372036854775807"},
		{"(0-9223372036854775807-1)", "9223372036854775807"}, {"(0-9223372036854775807-1)", "(0-9223372036854775807)"}, {"0", "9223372036854775807"},
		// DESCENDING ranges whose distance overflows (the wrapped size is positive)
		{"9223372036854775807", "(0-9223372036854775807-1)"}, {"9223372036854775806", "(0-9223372036854775807)"}, {"5", "(0-9223372036854775807)"}, {"9223372036854775807", "-2"}}
	for _, p := range pairs {
		r := p[0] + ".." + p[1]
		big := strings.Contains(r, "99999") || strings.Contains(r, "00000") || strings.Contains(r, "922337") || strings.Contains(r, "00001") || strings.Contains(r, "00002")
		if !big {
			out = append(out, c02Src{"const-range", "len(" + r + ")"}, c02Src{"const-range", r}, c02Src{"const-range", "(" + r + ")[0]"}, c02Src{"const-range", "map(" + r + ", {# * 2})"},
				c02Src{"const-range", "(" + r + ") == AI"}, c02Src{"const-range", "Id(" + r + ")"}, c02Src{"const-range", "{a: " + r + "} == {a: AI}"},
				c02Src{"const-range", "(" + r + ")[1:]"}, c02Src{"const-range", "sum(" + r + ")"})
		} else {
			out = append(out, c02Src{"const-range window", "len(" + r + ") > I"})
		}
	}
	out = append(out, c02Src{"const-range budget", "[1..600000, 1..600000]"}, c02Src{"const-range budget", "len([1..600000, 1..600000])"},
		c02Src{"const-range budget", "len(1..999999) + len(1..3)"})
	return out
}

// constant arithmetic of depth d over integer literals
func c02Arith(rng *rand.Rand, d int) string {
	lits := []string{"0", "1", "2", "3", "7", "10", "100", "200", "300", "127", "128", "255", "256", "65536", "16777216", "16777217",
		"9007199254740992", "9007199254740993", "4611686018427387904", "9223372036854775807", "5", "-1", "-7"}
	if d <= 0 || rng.Intn(6) == 0 {
		return lits[rng.Intn(len(lits))]
	}
	switch rng.Intn(12) {
	case 0:
		return "-" + c02Arith(rng, d-1)
	case 1:
		return "+" + c02Arith(rng, d-1)
	case 2:
		return "-(" + c02Arith(rng, d-1) + ")"
	}
	ops := []string{"+", "+", "-", "-", "*", "*", "/", "/", "%", "%", "**"}
	op := ops[rng.Intn(len(ops))]
	return "(" + c02Arith(rng, d-1) + " " + op + " " + c02Arith(rng, d-1) + ")"
}

func c02ArithSources(rng *rand.Rand, n int) []c02Src {
	var out []c02Src
	fixed := []string{"1 + 2", "5 - 3", "3 - 5", "2 * 3", "7 / 2", "-7 / 2", "7 / -2", "7 % 3", "-7 % 3", "7 % -3", "-7 % -3", "2 ** 3", "2 ** -1", "-(1)", "+(1)", "--1", "-0",
		"1 / 0", "1 % 0", "0 / 0", "1 / (1 - 1)", "1 % (2 - 2)", "true ? 1 : 1 / 0", "[1 / 0, 2 % 0]", "I + 1 / 0", "1 / 0 + 2 / 0", "B and 1 % 0 == 0",
		"9223372036854775807 + 1", "9223372036854775807 * 2", "0 - 9223372036854775807 - 2", "(0 - 9223372036854775807 - 1) / (0 - 1)", "(0 - 9223372036854775807 - 1) % (0 - 1)",
		"4611686018427387904 * 2", "-(0 - 9223372036854775807 - 1)", "1 + 2 + 3 + 4", "1 + 2 * 3 - 4 / 2 % 3", "(1 + 2) * (3 - 4)", "((1 + 2) * 3 - 4) / 5", "2 ** 3 ** 2", "2 ** (1 + 2)",
		"1 + 2.5", "2.5 * 2", "1 / 2.0", "I + (1 + 2)", "(1 + 2) + I", "I * (2 - 2)", "F64 + (1 + 2)", "(3 - 1) == 2", "(1 + 1) == I", "(7 % 4) == I", "I == (2 * 1)", "(5 - 3) != I8",
		"(1 + 2) > I", "-(1) < I", "(1 + 2) in [3]", "(1 + 2) in 1..5", "[1 + 2, 3 * 4]", "[1 + 2, I]", "AI[1 + 1]", "AI[2 - 1:1 + 2]", "S[1 - 1:0 + 2]", "(1 + 2) .. (2 * 3)",
		"not (1 + 1 == 2)", "(1 + 1 == 2) and B", "1 + 1 == 2 ? 3 - 1 : 1 / 0", "{a: 1 + 2}", "{a: 1 + 2}.a", "len([1 + 1, 2])", "Add(1 + 2, 3 * 4)", "Inc(-1)", "Inc(- -1)"}
	for _, s := range fixed {
		out = append(out, c02Src{"const-arith", s})
	}
	// chains with a NON-constant head and a constant tail: the optimizer may not re-associate them (the head can hold a float at
	// run time whatever its static type says - interface{} members, elements of []interface{}, results of functions returning
	// interface{} - and `x + 1 + 2` rounds twice where `x + 3` rounds once; strings and integers are re-associable, floats are not)
	for _, h := range []string{"Any", "AA[0]", "AF[0]", "AF[1]", "Id(F64)", "Id(Any)", "F64", "F32", "MA.k", "I", "I8", "U64", "S", "Id(AF[0])", "(B ? Any : 1)", "-Any"} {
		for _, tail := range []string{" + 1 + 2", " + 1 + 1", " + 2 + 1 + 2", " - 1 - 2", " + 1 - 2", " * 3 * 3", " + 1 + 2 == " + h + " + 3", ` + "a" + "b"`, " + (1 + 2)", " + 1 + 2 + I"} {
			out = append(out, c02Src{"non-constant head, constant tail", h + tail})
		}
	}
	// every operator x every parameter kind (literals retyped by the checker)
	for _, fn := range c02KindFns {
		for _, a := range []string{"1 + 2", "100 + 100", "200 - 300", "0 - 4", "16 * 17", "200 / 3", "-200 / 3", "300 / 2", "(200 - 300) / 2", "7 / 2", "1 / 2", "3 - 1 / 2", "1 / 0", "0 / 0", "5 % 3", "2 ** 3",
			"-1", "+300", "-0", "-(0)", "0 * -1", "- -128", "-128", "255 + 1", "65535 + 1", "16777216 + 1 + 1", "9007199254740992 + 1 + 1", "9223372036854775807 + 1", "9223372036854775807 * 3",
			"4611686018427387904 * 2 / 2", "1", "300", "(1 + 2) * (3 + 4)", "-(1 + 2)", "1 + 5 % 3"} {
			out = append(out, c02Src{"const-arith retyped", fn + "(" + a + ")"})
		}
		out = append(out, c02Src{"const-arith retyped", "1 / " + fn + "(-0)"}, c02Src{"const-arith retyped", fn + "(1 + 2) == 3"}, c02Src{"const-arith retyped", fn + "(I + 1)"})
	}
	ctx := []string{"%s", "I + %s", "%s * I8", "[%s, 1]", "%s == 3", "%s in 1..5", "GI8(%s)", "GU8(%s)", "GF64(%s)", "GF32(%s)", "GI64(%s)", "GU(%s)", "Id(%s)", "-%s", "(%s) > 2 ? 1 : 2", "AI[%s]", "{k: %s}", "%s in [1, 2, 3]"}
	for i := 0; i < n; i++ {
		a := c02Arith(rng, 1+rng.Intn(4))
		c := ctx[rng.Intn(len(ctx))]
		if i%3 == 0 {
			c = "%s"
		}
		out = append(out, c02Src{"const-arith random", fmt.Sprintf(c, a)})
	}
	return out
}

func c02StringSources() []c02Src {
	var out []c02Src
	for _, s := range []string{`"a" + "b"`, `"a" + "b" + "c"`, `"a" + ("b" + "c")`, `"a" + "b" + S`, `S + "a" + "b"`, `S + ("a" + "b")`, `("a" + "b") == S`, `("a" + "bc") == "abc"`,
		`["a" + "b", "c"]`, `("a" + "b") in ["ab"]`, `("a" + "b") in AS`, `"" + ""`, `len("a" + "b")`, `("a" + "b")[0:1]`, `("ab" + "c") matches "a.c"`, `("a" + "b") contains "b"`,
		`"a" + 1`, `Concat("a" + "b", "c")`, `{("a" + "b"): 1}`, `MI["a" + ""]`, `St["X" + ""]`, `("a" + "b") startsWith "a"`, `"x" + "y" < S`,
		// a pattern that becomes a literal only by folding: valid, and INVALID (a run-time error where it is evaluated, none where it is not)
		`S matches ("a" + ".c")`, `S matches ("[a-" + "z")`, `false and S matches ("[a-" + "z")`, `B2 ? S matches ("^(foo|bar" + "") : "skipped"`, `B ? S matches ("^(foo|bar" + "") : "skipped"`} {
		out = append(out, c02Src{"string-concat", s})
	}
	return out
}

func c02ArraySources() []c02Src {
	var out []c02Src
	arrs := []string{"[1, 2]", "[1, 2, 3, 4]", "[1]", `["a", "b"]`, `["a", "b", "abc"]`, `[1, "a"]`, "[[1, 2], [3]]", `[["a"], [1]]`, "[1 + 1, 2]", `["a" + "b"]`, "[]", "[1, 2.5]", "[nil]", "[I, 2]", "[-1]", "[1..2, 3..4]"}
	ctx := []string{"%s", "%s == AI", "AI == %s", "%s == AS", "%s != AI", "%s == %s", "GA(%s)", "Id(%s)", "Fast(%s)", "Fast(1, %s)", "{a: %s} == {a: AI}", "{a: %s} != {a: AI}", "{a: %s} == {a: %s}",
		"{a: %s} in [{a: AI}]", "{a: %s}.a == AI", "len(%s)", "%s[0]", "%s[0:1]", "%s[1:]", "filter(%s, {# != 1})", "map(%s, {#})", "all(%s, {# != nil})", "count(%s, {true})", "1 in %s", "I in %s",
		"%s in [AI]", "%s in [%s]", "[%s, AI]", "[%s] == [AI]", "(B ? %s : AI) == AI", "(B ? %s : AI)", "AA == %s", "%s == nil", "MA.k == %s", "%s in MA", "St.Next?.X in %s", "S in %s"}
	for _, a := range arrs {
		for _, c := range ctx {
			out = append(out, c02Src{"array-fold", strings.ReplaceAll(c, "%s", a)})
		}
	}
	return out
}

var c02ConstModes = []c02Mode{
	{"typed+const(all)", true, c02ConstNames},
	{"typed+const(Add,Inc)", true, []string{"Add", "Inc"}},
	{"typed+const(Boom)", true, []string{"Boom"}},
}

func c02ConstExprSources() []c02Src {
	var out []c02Src
	for _, s := range []string{"Add(1, 2)", "Add(1 + 2, 3)", "Add(I, 1)", "Add(1, I)", "Inc(Inc(1))", "Inc(Inc(Inc(Inc(1))))", "Add(Inc(1), Inc(2))", "Inc(Add(1, I))", "Boom(1)", "true ? 1 : Boom(1)",
		"false and Boom(1) == 1", "B ? Boom(1) : 2", "Add(1, Boom(2))", "Inc(Boom(1))", `Concat("a", "b")`, `Concat("a" + "b", "c")`, `Concat(S, "b")`, "IsPos(1)", "IsPos(-1)", "IsPos(1 - 2) ? 1 : 2",
		"Id(nil)", "Id(1)", "Id(1.5)", `Id("a")`, "Id(true)", "Id([1, 2])", `Id(["a"])`, `Id([1, "a"])`, "Id(1..3)", "Id(Id(1))", "Id(nil) == nil", "Id({a: 1})", "Id(I)", "Half(3)", "Half(1.5)", "Half(1 + 2)", "Half(2) + 1",
		"GI8(1)", "GI8(100 + 100)", "GU8(300)", "GF32(1)", "GF64(2)", "GF64(1.5)", "GI(7)", "GI(7) in 1..10", "GI(7) in [7]", "GA([1, 2])", `GA([1, "a"])`, "GA([])", "GNil(1)", "GNil(1) == nil", "[GNil(1)]",
		"Sum(1, 2, 3)", "Sum()", "Sum(1, I)", `Fast(1, "a")`, "Fast()", "Fast(nil)", "Add(1, 2) + Add(3, 4)", "[Add(1, 2), Inc(3)]", "Add(1, 2) in 1..5", "Add(1, 2) in [3]", "Inc(1) in 1..3", "Inc(I) in 1..3",
		"1..Inc(2)", "len(1..Add(2, 3))", "map(AI, {Inc(1) + #})", "filter(AI, {# > Inc(0)})", "map(AI, {Inc(#)})", "Twice(Inc(1))", "St.Get() + Inc(1)", "Add(1, 2) / 0", "1 / Add(0, 0)", "Inc(9223372036854775807)",
		"Add(9223372036854775807, 1)", "Inc(-1)", "Inc(1) == 2", "not IsPos(0)", "IsPos(Inc(0)) and B"} {
		out = append(out, c02Src{"const-expr", s})
	}
	// an in-range site inside an argument the checker does not visit when the callee has no static type (untyped mode)
	out = append(out, c02Src{"in-range", "Add(P.Get(), (F64 in -1..3) ? 1 : 2)"}, c02Src{"in-range", "Id((S in 1..3) ? 1 : 2)"}, c02Src{"in-range", "Inc((F32 not in 0..9) ? 1 : 2)"})
	// several calls of one ConstExpr function in one expression, with argument lists that differ only in
	// type or in where one string ends and the next begins (a cache of results keyed by a rendering of the
	// arguments must not identify them)
	alike := []string{"1", `"1"`, "1.0", "2", "2.0", `"2"`, "true", `"true"`, "nil", `"<nil>"`, "1.5", `"1.5"`, "[1, 2]", `"[1 2]"`, `"a b"`, `["a", "b"]`, `["a b"]`, "-1", `"-1"`, "{a: 1}", `"map[a:1]"`}
	for i, a := range alike {
		for j, b := range alike {
			if i < j && (j-i <= 2 || (i*7+j)%5 == 0) {
				out = append(out, c02Src{"const-expr repeated", fmt.Sprintf("[Id(%s), Id(%s)]", a, b)}, c02Src{"const-expr repeated", fmt.Sprintf("Id(%s) == Id(%s)", b, a)})
			}
		}
	}
	for _, s := range []string{`Concat("a", "b c") + "|" + Concat("a b", "c")`, `Concat("", "ab") + Concat("a", "b") + Concat("ab", "")`, `[Concat("a ", "b"), Concat("a", " b")]`,
		`[Fast(1, 2), Fast("1", "2"), Fast("1 2")]`, `[Fast(), Fast(nil), Fast("")]`, `[Fast([1, 2]), Fast(1, 2)]`, "[Sum(1, 2), Sum(12), Sum(1, 2)]", "[Sum(), Sum(0)]", "Add(1, 2) + Add(1, 2)", "[Add(1, 2), Add(12, 0), Add(2, 1)]",
		"[0.0, 1 / GNeg(0.0)]", "[GNeg(0.0), 0.0][1] == 0 ? 1 / [GNeg(0.0), 0.0][1] : 0", "1 / GNeg(0.0) + 1 / GNeg(GNeg(0.0))", "[1 / 0.0, 1 / GNeg(0.0), 1 / GNeg(0)]", "[GF64(0.0), GNeg(0.0), GF64(0.0)]",
		"[Inc(1), Inc(1), Inc(2)]", "[Half(1), Half(1.0), Half(2)]", "[IsPos(1), IsPos(-1), IsPos(1)]", "[GI8(1), GU8(1), GF32(1), GF64(1), GI(1)]", "Id(Id(1)) == Id(1)", `[Id(1), Id(Id("1"))]`} {
		out = append(out, c02Src{"const-expr repeated", s})
	}
	return out
}

// ---------------------------------------------------------------- tree inspection
type c02Visit struct{ f func(ast.Node) }

func (v *c02Visit) Enter(*ast.Node)            {}
func (v *c02Visit) Exit(n *ast.Node)           { v.f(*n) }
func c02Each(root *ast.Node, f func(ast.Node)) { ast.Walk(root, &c02Visit{f}) }

// constant integer expressions: literals under + - * / % and unary + -
func c02ConstInt(n ast.Node) (int, bool) {
	switch x := n.(type) {
	case *ast.IntegerNode:
		return x.Value, true
	case *ast.UnaryNode:
		v, ok := c02ConstInt(x.Node)
		if !ok {
			return 0, false
		}
		switch x.Operator {
		case "-":
			return -v, true
		case "+":
			return v, true
		}
	case *ast.BinaryNode:
		a, ok1 := c02ConstInt(x.Left)
		b, ok2 := c02ConstInt(x.Right)
		if !ok1 || !ok2 {
			return 0, false
		}
		switch x.Operator {
		case "+":
			return a + b, true
		case "-":
			return a - b, true
		case "*":
			return a * b, true
		case "/":
			if b == 0 {
				return 0, false
			}
			return a / b, true
		case "%":
			if b == 0 {
				return 0, false
			}
			return a % b, true
		}
	}
	return 0, false
}

func c02Children(n ast.Node) []ast.Node {
	opt := func(x ast.Node) []ast.Node {
		if x == nil || reflect.ValueOf(x).IsNil() {
			return nil
		}
		return []ast.Node{x}
	}
	switch x := n.(type) {
	case *ast.UnaryNode:
		return []ast.Node{x.Node}
	case *ast.BinaryNode:
		return []ast.Node{x.Left, x.Right}
	case *ast.MatchesNode:
		return []ast.Node{x.Left, x.Right}
	case *ast.PropertyNode:
		return []ast.Node{x.Node}
	case *ast.IndexNode:
		return []ast.Node{x.Node, x.Index}
	case *ast.SliceNode:
		return append(append([]ast.Node{x.Node}, opt(x.From)...), opt(x.To)...)
	case *ast.MethodNode:
		return append([]ast.Node{x.Node}, x.Arguments...)
	case *ast.FunctionNode:
		return x.Arguments
	case *ast.BuiltinNode:
		return x.Arguments
	case *ast.ClosureNode:
		return []ast.Node{x.Node}
	case *ast.ConditionalNode:
		return []ast.Node{x.Cond, x.Exp1, x.Exp2}
	case *ast.ArrayNode:
		return x.Nodes
	case *ast.MapNode:
		return x.Pairs
	case *ast.PairNode:
		return []ast.Node{x.Key, x.Value}
	}
	return nil
}

type c02Feat struct {
	constDivZero   bool // a constant integer sub-expression d / 0 or d % 0
	retypedFloat   bool // foldable arithmetic with an integer literal retyped to a float kind
	retypedDiv     bool // `/` below which an integer literal was retyped to a kind other than int / int64
	retypedOther   bool // other foldable arithmetic on literals retyped to a non-int kind
	retypedMixed   bool // a foldable + - * / whose operands are constant trees of DIFFERENT kinds (a retyped literal next to an int-typed `%` tree): fold keeps the left one's type
	arrayFold      bool // non-empty array literal whose elements are all int-constant or all string-constant
	arrayUnderMap  bool // such an array below a map literal
	inRangeSite    bool
	inArrayNilish  bool // in-array rewrite site whose left operand may be nil at run time (nil-safe access)
	inRangeNilish  bool // in-range site whose left operand has no static type or contains a nil-safe access / nil
	inRangeImpure  bool // ... whose left operand contains a call or allocates
	inRangeNarrow  bool // ... whose left operand is statically int8 / int16 / int32
	inRangeUntyped bool // ... whose left operand has NO type annotation at all (an argument the checker never visited)
	rangeOverflow  bool // range with constant bounds whose size overflows int64
	rangeBeyond    bool // constant range of more than 10^6 elements that is not the right operand of in / not in
	bigConst       bool // folded array / constant range (the budget is not charged)
	constCall      bool
	pows           [][2]float64
}

func c02IsStrConst(n ast.Node) bool {
	switch x := n.(type) {
	case *ast.StringNode:
		return true
	case *ast.BinaryNode:
		return x.Operator == "+" && c02IsStrConst(x.Left) && c02IsStrConst(x.Right)
	}
	return false
}

func c02Impure(n ast.Node) bool {
	bad := false
	c02Each(&n, func(x ast.Node) {
		switch y := x.(type) {
		case *ast.FunctionNode, *ast.MethodNode, *ast.ArrayNode, *ast.MapNode:
			bad = true
		case *ast.BuiltinNode:
			if y.Name == "filter" || y.Name == "map" {
				bad = true
			}
		case *ast.BinaryNode:
			if y.Operator == ".." {
				bad = true
			}
		}
	})
	return bad
}

func c02Nilish(n ast.Node) bool {
	if n.Type() == nil {
		return true
	}
	bad := false
	c02Each(&n, func(x ast.Node) {
		switch y := x.(type) {
		case *ast.NilNode:
			bad = true
		case *ast.PropertyNode:
			bad = bad || y.NilSafe
		case *ast.MethodNode:
			bad = bad || y.NilSafe
		case *ast.IdentifierNode:
			bad = bad || y.NilSafe
		}
	})
	return bad
}

func c02LitKindBelow(n ast.Node, pred func(reflect.Kind) bool) bool {
	found := false
	c02Each(&n, func(x ast.Node) {
		if i, ok := x.(*ast.IntegerNode); ok && i.Type() != nil && pred(i.Type().Kind()) {
			found = true
		}
	})
	return found
}

func c02Features(root ast.Node, consts []string) c02Feat {
	var f c02Feat
	isConst := map[string]bool{}
	for _, c := range consts {
		isConst[c] = true
	}
	var under func(n ast.Node, inMap bool)
	under = func(n ast.Node, inMap bool) {
		if m, ok := n.(*ast.MapNode); ok {
			_ = m
			inMap = true
		}
		if a, ok := n.(*ast.ArrayNode); ok && len(a.Nodes) > 0 {
			ints, strs := true, true
			for _, e := range a.Nodes {
				if _, ok := c02ConstInt(e); !ok {
					ints = false
				}
				if !c02IsStrConst(e) {
					strs = false
				}
			}
			if ints || strs {
				f.arrayFold, f.bigConst = true, true
				if inMap {
					f.arrayUnderMap = true
				}
			}
		}
		for _, c := range c02Children(n) {
			under(c, inMap)
		}
	}
	under(root, false)
	notInt := func(k reflect.Kind) bool { return k != reflect.Int }
	isFlt := func(k reflect.Kind) bool { return k == reflect.Float32 || k == reflect.Float64 }
	narrowOrUnsigned := func(k reflect.Kind) bool { return k != reflect.Int && k != reflect.Int64 && !isFlt(k) }
	direct := func(n ast.Node, pred func(reflect.Kind) bool) bool {
		i, ok := n.(*ast.IntegerNode)
		return ok && i.Type() != nil && pred(i.Type().Kind())
	}
	// kind of a constant integer tree as the checker leaves it: literals retyped below + - * / and unary +/-,
	// `%` trees stay int; reflect.Invalid = not such a tree, reflect.UnsafePointer = operands of different kinds
	var constKind func(n ast.Node) reflect.Kind
	constKind = func(n ast.Node) reflect.Kind {
		switch x := n.(type) {
		case *ast.IntegerNode:
			if x.Type() == nil {
				return reflect.Int
			}
			return x.Type().Kind()
		case *ast.UnaryNode:
			if x.Operator == "-" || x.Operator == "+" {
				return constKind(x.Node)
			}
		case *ast.BinaryNode:
			l, r := constKind(x.Left), constKind(x.Right)
			if l == reflect.Invalid || r == reflect.Invalid {
				return reflect.Invalid
			}
			switch x.Operator {
			case "%":
				return reflect.Int
			case "+", "-", "*", "/":
				if l != r {
					f.retypedMixed = true
					return reflect.UnsafePointer
				}
				return l
			}
		}
		return reflect.Invalid
	}
	c02Each(&root, func(x ast.Node) { constKind(x) })
	inSiteRange := map[ast.Node]bool{}
	c02Each(&root, func(x ast.Node) {
		if n, ok := x.(*ast.BinaryNode); ok && (n.Operator == "in" || n.Operator == "not in") {
			inSiteRange[n.Right] = true
		}
	})
	c02Each(&root, func(x ast.Node) {
		switch n := x.(type) {
		case *ast.UnaryNode:
			if n.Operator == "-" || n.Operator == "+" {
				if direct(n.Node, isFlt) {
					f.retypedFloat = true
				} else if direct(n.Node, notInt) {
					f.retypedOther = true
				}
			}
		case *ast.BinaryNode:
			switch n.Operator {
			case "+", "-", "*", "/", "%", "**":
				if n.Operator != "/" && (direct(n.Left, isFlt) || direct(n.Right, isFlt)) {
					f.retypedFloat = true
				} else if direct(n.Left, notInt) || direct(n.Right, notInt) {
					f.retypedOther = true
				}
				if n.Operator == "/" && (c02LitKindBelow(n.Left, narrowOrUnsigned) || c02LitKindBelow(n.Right, narrowOrUnsigned)) {
					f.retypedDiv = true
				}
				if n.Operator == "/" || n.Operator == "%" {
					_, ok1 := c02ConstInt(n.Left)
					r, ok2 := c02ConstInt(n.Right)
					if ok1 && ok2 && r == 0 {
						f.constDivZero = true
					}
				}
				if n.Operator == "**" {
					a, ok1 := c02ConstInt(n.Left)
					b, ok2 := c02ConstInt(n.Right)
					if ok1 && ok2 {
						f.pows = append(f.pows, [2]float64{float64(a), float64(b)})
					}
				}
			case "..":
				lo, ok1 := c02ConstInt(n.Left)
				hi, ok2 := c02ConstInt(n.Right)
				if ok1 && ok2 {
					f.bigConst = true
					if (hi >= lo && hi-lo+1 <= 0) || (hi < lo && hi-lo+1 > 0) {
						f.rangeOverflow = true
					} else if hi-lo+1 > 1000000 && !inSiteRange[x] {
						f.rangeBeyond = true
					}
				}
			case "in", "not in":
				if a, ok := n.Right.(*ast.ArrayNode); ok && len(a.Nodes) > 0 && c02Nilish(n.Left) {
					ints, strs := true, true
					for _, e := range a.Nodes {
						if _, ok := c02ConstInt(e); !ok {
							ints = false
						}
						if !c02IsStrConst(e) {
							strs = false
						}
					}
					if ints || strs {
						f.inArrayNilish = true
					}
				}
				if r, ok := n.Right.(*ast.BinaryNode); ok && r.Operator == ".." {
					_, ok1 := c02ConstInt(r.Left)
					_, ok2 := c02ConstInt(r.Right)
					if ok1 && ok2 {
						f.inRangeSite = true
						if c02Nilish(n.Left) {
							f.inRangeNilish = true
						}
						if n.Left.Type() == nil {
							f.inRangeUntyped = true
						}
						if c02Impure(n.Left) {
							f.inRangeImpure = true
						}
						if t := n.Left.Type(); t != nil && (t.Kind() == reflect.Int8 || t.Kind() == reflect.Int16 || t.Kind() == reflect.Int32) {
							f.inRangeNarrow = true
						}
					}
				}
			}
		case *ast.FunctionNode:
			if isConst[n.Name] {
				f.constCall = true
			}
		}
	})
	return f
}

// ---------------------------------------------------------------- ~v on Go values
func simEqual(a, b interface{}) bool {
	if a == nil || b == nil {
		return a == nil && b == nil
	}
	va, vb := reflect.ValueOf(a), reflect.ValueOf(b)
	return simRV(va, vb)
}

func simRV(va, vb reflect.Value) bool {
	for va.IsValid() && va.Kind() == reflect.Interface {
		va = va.Elem()
	}
	for vb.IsValid() && vb.Kind() == reflect.Interface {
		vb = vb.Elem()
	}
	if !va.IsValid() || !vb.IsValid() {
		return !va.IsValid() && !vb.IsValid()
	}
	ka, kb := va.Kind(), vb.Kind()
	seq := func(k reflect.Kind) bool { return k == reflect.Slice || k == reflect.Array }
	if seq(ka) && seq(kb) {
		if va.Len() != vb.Len() {
			return false
		}
		for i := 0; i < va.Len(); i++ {
			if !simRV(va.Index(i), vb.Index(i)) {
				return false
			}
		}
		return true
	}
	if ka != kb {
		return false
	}
	switch ka {
	case reflect.Float32, reflect.Float64:
		x, y := va.Float(), vb.Float()
		if math.IsNaN(x) || math.IsNaN(y) {
			return math.IsNaN(x) && math.IsNaN(y)
		}
		return math.Float64bits(x) == math.Float64bits(y) // +0 and -0 are different values (1/x tells them apart)
	case reflect.Int, reflect.Int8, reflect.Int16, reflect.Int32, reflect.Int64:
		return va.Type() == vb.Type() && va.Int() == vb.Int()
	case reflect.Uint, reflect.Uint8, reflect.Uint16, reflect.Uint32, reflect.Uint64:
		return va.Type() == vb.Type() && va.Uint() == vb.Uint()
	case reflect.Bool:
		return va.Bool() == vb.Bool()
	case reflect.String:
		return va.String() == vb.String()
	case reflect.Map:
		if va.Type() != vb.Type() || va.Len() != vb.Len() || va.IsNil() != vb.IsNil() {
			return false
		}
		for _, k := range va.MapKeys() {
			y := vb.MapIndex(k)
			if !y.IsValid() || !simRV(va.MapIndex(k), y) {
				return false
			}
		}
		return true
	case reflect.Func:
		return va.Type() == vb.Type()
	}
	if !va.CanInterface() || !vb.CanInterface() {
		return false
	}
	return reflect.DeepEqual(va.Interface(), vb.Interface())
}

func simLog(a, b []callEvent, skip map[string]bool) bool {
	filter := func(l []callEvent) []callEvent {
		var out []callEvent
		for _, c := range l {
			if !skip[c.Name] {
				out = append(out, c)
			}
		}
		return out
	}
	a, b = filter(a), filter(b)
	if len(a) != len(b) {
		return false
	}
	for i := range a {
		if a[i].Name != b[i].Name || len(a[i].Args) != len(b[i].Args) {
			return false
		}
		for j := range a[i].Args {
			if !simEqual(a[i].Args[j], b[i].Args[j]) {
				return false
			}
		}
	}
	return true
}

func c02Show(r coreRun) string {
	if r.err != nil {
		msg := r.err.Error()
		if i := strings.IndexByte(msg, '\n'); i >= 0 {
			msg = msg[:i]
		}
		return "error: " + msg
	}
	s := fmt.Sprintf("%T(%v)", r.out, r.out)
	if len(s) > 160 {
		s = s[:160] + "..."
	}
	return fmt.Sprintf("%s calls=%d", s, len(r.log))
}

// ---------------------------------------------------------------- front end replicated up to the optimizer
type c02Front struct {
	tree   *parser.Tree
	config *conf.Config
	err    error
}

func c02FrontEnd(src string, ops []expr.Option) (f c02Front) {
	defer func() {
		if r := recover(); r != nil {
			f.err = fmt.Errorf("panic: %v", r)
		}
	}()
	config := &conf.Config{Operators: make(map[string][]string), ConstExprFns: make(map[string]reflect.Value), Optimize: true}
	for _, op := range ops {
		op(config)
	}
	f.config = config
	if f.err = config.Check(); f.err != nil {
		return
	}
	f.tree, f.err = parser.Parse(src)
	if f.err != nil {
		return
	}
	if _, f.err = checker.Check(f.tree, config); f.err != nil {
		return
	}
	compiler.PatchOperators(&f.tree.Node, config)
	_, f.err = checker.Check(f.tree, config)
	return
}

// the ConstExpr calls made while optimizing, with what the function returns (or that it panics)
func c02CallTable(env *C02Env, log []callEvent) string {
	var items []string
	seen := map[string]bool{}
	for _, c := range log {
		args := make([]string, len(c.Args))
		for i, a := range c.Args {
			args[i] = cqValue(a)
		}
		key := c.Name + "(" + strings.Join(args, "; ") + ")"
		if seen[key] {
			continue
		}
		seen[key] = true
		res := func() (s string) {
			defer func() {
				if r := recover(); r != nil {
					s = "(Fail EUser)"
				}
				callLog = nil
			}()
			fn := vm.FetchFn(env, c.Name)
			in := make([]reflect.Value, len(c.Args))
			for i, a := range c.Args {
				if a == nil {
					var p interface{}
					in[i] = reflect.ValueOf(&p).Elem()
				} else {
					in[i] = reflect.ValueOf(a)
				}
			}
			if fn.Type().IsVariadic() && fn.Type().NumIn() == 1 && c.Name == "Fast" {
				out := fn.Call(in)
				return "(Ok " + cqValue(out[0].Interface()) + ")"
			}
			out := fn.Call(in)
			return "(Ok " + cqValue(out[0].Interface()) + ")"
		}()
		items = append(items, fmt.Sprintf("(%s, [%s], %s)", cqStr(c.Name), strings.Join(args, "; "), res))
	}
	return "[" + strings.Join(items, "; ") + "]"
}

func c02Sigs(env *C02Env) string {
	var items []string
	add := func(name string, t reflect.Type) {
		ins := make([]string, t.NumIn())
		for i := range ins {
			ins[i] = cqTy(t.In(i))
		}
		fast := t.IsVariadic() && t.NumIn() == 1 && t.NumOut() == 1 && t.In(0).Elem().Kind() == reflect.Interface && t.Out(0).Kind() == reflect.Interface
		items = append(items, fmt.Sprintf("(%s, mkSig [%s] %s %d %s)", cqStr(name), strings.Join(ins, "; "), cqBool(t.IsVariadic()), t.NumOut(), cqBool(fast)))
	}
	var walk func(rv reflect.Value)
	walk = func(rv reflect.Value) {
		for i := 0; i < rv.NumField(); i++ {
			f := rv.Type().Field(i)
			if f.Anonymous {
				walk(rv.Field(i))
			} else if f.Type.Kind() == reflect.Func {
				add(f.Name, f.Type)
			}
		}
	}
	walk(reflect.ValueOf(env).Elem())
	sort.Strings(items)
	return "[" + strings.Join(items, ";\n  ") + "]"
}

// c02Pipeline reads the pass order and the iteration bounds out of the optimizer.go the harness was
// compiled from (located through the debug information of optimizer.Optimize): for every statement of
// Optimize, in source order, the visitor type walked and, for a `for limit := N; limit >= 0; limit--`
// loop around it, N+1 (0 when the loop has another shape).
func c02Pipeline() (passes []string, bounds []int) {
	fn := runtime.FuncForPC(reflect.ValueOf(optimizer.Optimize).Pointer())
	if fn == nil {
		return nil, nil
	}
	file, _ := fn.FileLine(fn.Entry())
	fset := token.NewFileSet()
	f, err := goparser.ParseFile(fset, file, nil, 0)
	if err != nil {
		return nil, nil
	}
	var body *goast.BlockStmt
	for _, d := range f.Decls {
		if fd, ok := d.(*goast.FuncDecl); ok && fd.Name.Name == "Optimize" {
			body = fd.Body
		}
	}
	if body == nil {
		return nil, nil
	}
	var walkIn func(n goast.Node, bound int)
	walkIn = func(n goast.Node, bound int) {
		goast.Inspect(n, func(x goast.Node) bool {
			switch y := x.(type) {
			case *goast.ForStmt:
				b := 0
				if as, ok := y.Init.(*goast.AssignStmt); ok && len(as.Rhs) == 1 {
					if lit, ok := as.Rhs[0].(*goast.BasicLit); ok {
						if be, ok := y.Cond.(*goast.BinaryExpr); ok && be.Op == token.GEQ {
							if zero, ok := be.Y.(*goast.BasicLit); ok && zero.Value == "0" {
								if _, ok := y.Post.(*goast.IncDecStmt); ok {
									fmt.Sscan(lit.Value, &b)
									b++
								}
							}
						}
					}
				}
				walkIn(y.Body, b)
				return false
			case *goast.CallExpr:
				if id, ok := y.Fun.(*goast.Ident); ok && id.Name == "Walk" && len(y.Args) == 2 {
					name := "?"
					switch a := y.Args[1].(type) {
					case *goast.Ident: // a variable assigned `&T{...}` in the loop body
						name = a.Name
					case *goast.UnaryExpr:
						if cl, ok := a.X.(*goast.CompositeLit); ok {
							if t, ok := cl.Type.(*goast.Ident); ok {
								name = t.Name
							}
						}
					}
					passes = append(passes, name)
					bounds = append(bounds, bound)
				}
			}
			return true
		})
	}
	walkIn(body, 1)
	return
}

func c02Header(env *C02Env) string {
	var b strings.Builder
	b.WriteString("From Coq Require Import ZArith List String Floats.\n")
	b.WriteString("Require Import X.Base.Num X.Base.Value X.Syn.Ast X.Sem.Prim X.Corr.Universe X.Opt.Optimizer X.Corr.CorrC02.\n")
	b.WriteString("Import ListNotations.\nOpen Scope string_scope.\nOpen Scope Z_scope.\n\n")
	b.WriteString("Definition sigs : list (string * fsig) :=\n  " + c02Sigs(env) + ".\n")
	passes, bounds := c02Pipeline()
	ps := make([]string, len(passes))
	for i, p := range passes {
		ps[i] = cqStr(p)
	}
	bs := make([]string, len(bounds))
	for i, x := range bounds {
		bs[i] = fmt.Sprint(x)
	}
	fmt.Fprintf(&b, "Definition go_passes : list string := [%s].\nDefinition go_bounds : list Z := [%s].\n", strings.Join(ps, "; "), strings.Join(bs, "; "))
	return b.String()
}

// Large []int constants (constant ranges near the 10^6 window) are written as range_list terms.
var c02BigRe = regexp.MustCompile(`\(VStr "@@RANGE (-?[0-9]+) ([0-9]+)@@"\)`)

func c02TreeTerm(root *ast.Node) string {
	c02Each(root, func(n ast.Node) {
		if c, ok := n.(*ast.ConstantNode); ok {
			if xs, ok := c.Value.([]int); ok && len(xs) > 256 {
				step := true
				for i := 1; i < len(xs); i++ {
					if xs[i] != xs[i-1]+1 {
						step = false
						break
					}
				}
				if step {
					c.Value = fmt.Sprintf("@@RANGE %d %d@@", xs[0], len(xs))
				}
			}
		}
	})
	t := cqExpr(*root)
	return c02BigRe.ReplaceAllStringFunc(t, func(m string) string {
		g := c02BigRe.FindStringSubmatch(m)
		lo := g[1]
		if strings.HasPrefix(lo, "-") {
			lo = "(" + lo + ")"
		}
		return "(VArr (TNum KInt) (range_list " + lo + " (Z.to_nat " + g[2] + ")))"
	})
}

func c02Note(src string) string {
	note := strings.ReplaceAll(strings.ReplaceAll(src, "*)", "* )"), "(*", "( *")
	return strings.ReplaceAll(strings.ReplaceAll(note, "\n", " "), "\"", "'")
}

// ---------------------------------------------------------------- the run
type c02Input struct {
	Src    string   `json:"src"`
	Mode   string   `json:"mode"`
	Typed  bool     `json:"typed"`
	Consts []string `json:"consts"`
	Env    int      `json:"env"`
}

func runC02() {
	rep := newReport("C02")
	rng := rand.New(rand.NewSource(*seed))
	nArith, nGeneral, nEnvs, keep := 220, 220, 5, 30
	if *tier == "thorough" {
		nArith, nGeneral, nEnvs, keep = 4000, 5000, 8, 100
	}
	envs := c02Envs(rng, nEnvs)
	sample := envs[0]

	if *replay != "" {
		var in c02Input
		if err := json.Unmarshal([]byte(*replay), &in); err != nil {
			fmt.Println("bad replay input:", err)
			return
		}
		m := c02Mode{in.Mode, in.Typed, in.Consts}
		_, p0, _, e0 := pipeline(in.Src, m.options(sample, false))
		_, p1, _, e1 := pipeline(in.Src, m.options(sample, true))
		fmt.Printf("source: %s\nmode: %s\nunoptimized compile error: %v\noptimized compile error: %v\n", in.Src, in.Mode, e0, e1)
		if e0 == nil && e1 == nil {
			for i, e := range envs {
				r0, r1 := runProgram(p0, e), runProgram(p1, e)
				fmt.Printf("env%d unoptimized: %s\nenv%d optimized:   %s\n", i, c02Show(r0), i, c02Show(r1))
			}
		}
		return
	}

	var srcs []c02Src
	srcs = append(srcs, c02InArraySources(rng, keep)...)
	srcs = append(srcs, c02InRangeSources(rng, keep)...)
	srcs = append(srcs, c02ConstRangeSources()...)
	srcs = append(srcs, c02ArithSources(rng, nArith)...)
	srcs = append(srcs, c02StringSources()...)
	srcs = append(srcs, c02ArraySources()...)
	g := &egen{rng: rng, wrong: 15, hist: rep.Histogram}
	for i := 0; i < nGeneral; i++ {
		t := []gtype{tBool, tBool, tInt, tNum, tStr, tArrInt, tArrAny, tAny}[rng.Intn(8)]
		srcs = append(srcs, c02Src{"general", g.expr(t, 2+rng.Intn(3))})
		if i == 0 {
			for _, sh := range shapeSources() {
				srcs = append(srcs, c02Src{"shapes", sh})
			}
		}
	}
	cx := c02ConstExprSources()

	modes := []c02Mode{{"untyped", false, nil}, {"typed", true, nil}}
	type job struct {
		s c02Src
		m c02Mode
	}
	var jobs []job
	seenSrc := map[string]bool{}
	for _, s := range srcs {
		if seenSrc[s.Src] {
			continue
		}
		seenSrc[s.Src] = true
		for _, m := range modes {
			if !m.Typed && *tier != "thorough" && s.Fam != "const-arith" && s.Fam != "string-concat" && rng.Intn(4) != 0 {
				continue // untyped mode: every identifier has no static type; sampled in the quick tier
			}
			jobs = append(jobs, job{s, m})
		}
	}
	for _, s := range cx {
		for _, m := range c02ConstModes {
			jobs = append(jobs, job{s, m})
		}
	}
	for i := 0; i < nGeneral/4; i++ {
		jobs = append(jobs, job{c02Src{"general+const", g.expr([]gtype{tInt, tBool, tAny, tStr}[rng.Intn(4)], 2+rng.Intn(2))}, c02ConstModes[0]})
	}

	var cases []string
	distinct := map[string]bool{}
	for _, j := range jobs {
		src, m := j.s.Src, j.m
		rep.hist("family " + j.s.Fam)
		input := func(env int) c02Input { return c02Input{src, m.Name, m.Typed, m.Consts, env} }
		replayArg := func(env int) string { b, _ := json.Marshal(input(env)); return string(b) }

		// ---- correspondence: tree before / after the real optimizer
		fr := c02FrontEnd(src, m.options(sample, true))
		var feat c02Feat
		rewrote := false
		if fr.err == nil {
			feat = c02Features(fr.tree.Node, m.Consts)
		}
		sampled := *tier == "thorough" || !(j.s.Fam == "in-array" || j.s.Fam == "in-range" || j.s.Fam == "array-fold" || j.s.Fam == "const-arith retyped" || j.s.Fam == "general") || rng.Intn(100) < 40
		if fr.err == nil && (j.s.Fam == "const-range budget" || (j.s.Fam == "const-range window" && !m.Typed && *tier != "thorough")) {
			rep.hist("correspondence skipped (several 10^6-element constants)")
		} else if fr.err == nil && !sampled {
			rep.hist("correspondence not sampled in the quick tier (oracle only)")
		} else if fr.err == nil {
			before := cqExpr(fr.tree.Node)
			callLog = nil
			oerr := func() (err error) {
				defer func() {
					if r := recover(); r != nil {
						err = fmt.Errorf("panic: %v", r)
					}
				}()
				return optimizer.Optimize(&fr.tree.Node, fr.config)
			}()
			clog := callLog
			callLog = nil
			after := "None"
			errLoc := "(0, 0)"
			if oerr == nil {
				a := c02TreeTerm(&fr.tree.Node)
				rewrote = a != before
				after = "(Some " + a + ")"
			} else if fe, ok := oerr.(*file.Error); ok {
				errLoc = fmt.Sprintf("(%d, %d)", fe.Line, fe.Column)
				rewrote = true
			}
			var pows []string
			for _, p := range feat.pows {
				pows = append(pows, fmt.Sprintf("(%s, %s, %s)", coqFloat(p[0]), coqFloat(p[1]), coqFloat(math.Pow(p[0], p[1]))))
			}
			names := make([]string, len(m.Consts))
			for i, c := range m.Consts {
				names[i] = cqStr(c)
			}
			cases = append(cases, fmt.Sprintf("mkC02 %s [%s] %s [%s] %s %s (* %s | %s *)", before, strings.Join(names, "; "),
				c02CallTable(sample, clog), strings.Join(pows, "; "), after, errLoc, c02Note(src), m.Name))
			if rewrote {
				rep.hist("optimizer changed the tree")
				distinct[src+"|"+m.Name] = true
			} else {
				rep.hist("optimizer left the tree unchanged")
			}
		}

		// ---- oracle: optimized vs unoptimized on the implementation
		_, p0, _, e0 := pipeline(src, m.options(sample, false))
		_, p1, _, e1 := pipeline(src, m.options(sample, true))
		switch {
		case e0 != nil && e1 != nil:
			rep.hist("rejected by both compilers")
			continue
		case e0 != nil && e1 == nil:
			rep.fail(Failure{Key: "C02-optimizer-accepts", What: "rejected unoptimized, accepted optimized", Input: input(0), Want: "same verdict", Got: e0.Error(), Replay: replayArg(0)})
			continue
		case e0 == nil && e1 != nil:
			rep.Evaluations++
			msg := e1.Error()
			if feat.constDivZero && strings.Contains(msg, "integer divide by zero") {
				rep.hist("optimizer rejects constant /0 or %0 (allowed)")
				continue
			}
			if feat.constCall {
				// allowed when the call fails at run time as well (the failure only moved to compile time)
				allFail := true
				for _, e := range envs {
					if r := runProgram(p0, e); r.err == nil {
						allFail = false
					}
				}
				if allFail || strings.HasPrefix(firstLineOf(msg), "boom") {
					// the function itself fails on these arguments: the failure of that call moved to compile time
					rep.hist("ConstExpr call failure moved to compile time (allowed)")
					continue
				}
				key := "C02-constexpr-rejects"
				if strings.Contains(msg, "reflect: Call using int as type") {
					key = "C02-constexpr-retyped-int"
				} else if strings.Contains(msg, "reflect: Call using []") && feat.arrayFold {
					key = "C02-array-fold-type"
				} else if strings.Contains(msg, "nil pointer dereference") {
					key = "C02-constexpr-nil-result"
				}
				rep.fail(Failure{Key: key, What: "accepted unoptimized (and the call succeeds at run time), rejected with the function marked ConstExpr", Input: input(0),
					Want: "same result as without ConstExpr", Got: firstLineOf(msg), Replay: replayArg(0)})
				continue
			}
			rep.fail(Failure{Key: "C02-optimizer-rejects", What: "accepted unoptimized, rejected optimized, no constant /0 or %0 in the source", Input: input(0),
				Want: "accepted", Got: firstLineOf(msg), Replay: replayArg(0)})
			continue
		}
		skip := map[string]bool{}
		for _, c := range m.Consts {
			skip[c] = true
		}
		for ei, e := range envs {
			r0 := runProgram(p0, e)
			r1 := runProgram(p1, e)
			rep.Evaluations++
			ok := false
			switch {
			case r0.err != nil && r1.err != nil:
				ok = true
				rep.hist("both runs fail")
			case r0.err == nil && r1.err == nil:
				ok = simEqual(r0.out, r1.out) && simLog(r0.log, r1.log, skip)
				rep.hist("both runs succeed")
			default:
				rep.hist("one run fails")
			}
			if ok {
				continue
			}
			key := c02Classify(feat, r0, r1, skip)
			rep.fail(Failure{Key: key, What: "optimized and unoptimized programs disagree", Input: input(ei),
				Want: "unoptimized: " + c02Show(r0), Got: "optimized: " + c02Show(r1), Replay: replayArg(ei)})
		}
	}
	c02Round7(rep, sample, envs)
	// an operand of a DECLARED integer type (type C03MyInt int; environment type of the C03 vertical): the rewrites
	// that test `Kind() == reflect.Int` fire although the run-time helpers work on the dynamic type
	for _, src := range []string{"M in [1, 2]", "M not in [1, 2]", "M in 1..3", "M not in 1..3", "N in [2]", "[M][0] in 1..3", "M == 1", "(B ? nil : 1) in [1, 2]", "(B ? 1 : nil) in 1..3",
		"I in [1, 2, 3]", "I in 1..3", "I8 in 1..9", "S in [\"s\", \"t\"]"} {
		for variant := 0; variant < 2; variant++ {
			env := c03XEnv(variant)
			var rs [2]coreRun
			compiled := true
			for k, opt := range []bool{false, true} {
				func() {
					defer func() {
						if r := recover(); r != nil {
							rs[k] = coreRun{err: fmt.Errorf("panic: %v", r)}
						}
					}()
					p, err := expr.Compile(src, expr.Env(env), expr.Optimize(opt))
					if err != nil {
						compiled = false
						return
					}
					rs[k] = runProgram(p, env)
				}()
			}
			rep.Evaluations += 2
			rep.hist("declared-integer-type campaign")
			if !compiled {
				continue
			}
			r0, r1 := rs[0], rs[1]
			if (r0.err != nil && r1.err != nil) || (r0.err == nil && r1.err == nil && simEqual(r0.out, r1.out)) {
				continue
			}
			key := "C02-mismatch"
			switch {
			case strings.HasPrefix(src, "M ") || strings.HasPrefix(src, "N ") || strings.HasPrefix(src, "[M]"):
				key = "C02-named-int"
			case strings.Contains(src, "nil") && r1.err != nil && strings.Contains(r1.err.Error(), "cannot use <nil> as index to map["):
				key = "C02-in-array-nil-type"
			case strings.Contains(src, "nil") && r1.err != nil && strings.Contains(r1.err.Error(), "invalid operation: <nil>"):
				key = "C02-in-range-nil-type"
			}
			rep.fail(Failure{Key: key, What: "optimized and unoptimized programs disagree", Input: map[string]interface{}{"src": src, "env": "C03X", "variant": variant},
				Want: "unoptimized: " + c02Show(r0), Got: "optimized: " + c02Show(r1)})
		}
	}
	rep.Distinct = len(distinct)
	rep.Rule = "one PRNG (seed). Families: membership `X in [..]` / `X not in [..]` for X of every static type the checker admits (12 numeric kinds, strings, bool, nil, interface{}, fields, nil-safe chains, indexing, calls) x int / string / mixed / folded / empty literal arrays, also inside closures; `X in a..b` / `not in` for the same X x literal, folded, descending, non-constant and window-sized ranges; constant ranges with bounds around -1,0,1, at 10^6-1, 10^6, 10^6+1 and at the int64 limits, under len/index/slice/map/==/calls; constant integer arithmetic (+ - * / % ** unary) to depth 4 with overflow and /0 %0, alone, in operand/argument/index/array/map/condition positions and as argument of an identity function of each of the 12 numeric kinds (literals retyped by the checker); string concatenation; literal arrays of ints / strings / mixed / nested under 37 contexts; ConstExpr calls (Add Inc Concat IsPos Fast Sum Boom Id Half G* with literal / folded / non-constant / failing arguments) under three ConstExpr sets; the type-directed random stream of the core harness. Each source is compiled untyped and typed with Optimize(false) and Optimize(true) through the replicated expr.Compile pipeline, both programs run on base/zero/boundary/random environments and compared with simEqual (kind+value, sequences element-wise, call logs); the tree before and after the real optimizer.Optimize is compared with the Coq model. distinct_nontrivial counts distinct (source, mode) on which optimizer.Optimize changed the tree or rejected it."
	for i := 0; i < 8 && len(jobs) > 0; i++ {
		j := jobs[(i*7919+13)%len(jobs)]
		rep.Samples = append(rep.Samples, map[string]string{"src": j.s.Src, "mode": j.m.Name, "family": j.s.Fam})
	}
	rep.writeShards("cases_c02", c02Header(sample), "c02case", "c02_mismatches_p go_passes go_bounds sigs", cases)
	rep.write()
}

func firstLineOf(s string) string {
	if i := strings.IndexByte(s, '\n'); i >= 0 {
		return s[:i]
	}
	return s
}

// c02Classify names the recorded defect a disagreement belongs to; anything else is "C02-mismatch".
func c02Classify(f c02Feat, r0, r1 coreRun, skip map[string]bool) string {
	msg0, msg1 := "", ""
	if r0.err != nil {
		msg0 = r0.err.Error()
	}
	if r1.err != nil {
		msg1 = r1.err.Error()
	}
	budget := "memory budget exceeded"
	switch {
	case strings.Contains(msg0, budget) && f.rangeBeyond && r1.err == nil:
		return "C02-budget-beyond-window" // a constant range of more than 10^6 elements must be left to the run-time budget
	case strings.Contains(msg0, budget) && f.bigConst:
		return "C02-budget" // constants materialised at compile time are not charged at run time
	case strings.Contains(msg0, budget) && f.inRangeSite:
		return "C02-budget" // the range of `x in a..b` is never built by the optimized program
	case strings.Contains(msg1, budget) && f.inRangeImpure:
		return "C02-in-range-double-eval"
	case r1.err != nil && r0.err == nil && strings.Contains(msg1, "reflect: Call using []") && f.arrayFold:
		return "C02-array-fold-type"
	case r1.err != nil && r0.err == nil && f.inRangeNilish && strings.Contains(msg1, "invalid operation: <nil>"):
		return "C02-in-range-nil-type"
	case r1.err != nil && r0.err == nil && f.inArrayNilish && strings.Contains(msg1, "cannot use <nil> as index to map["):
		return "C02-in-array-nil-type"
	case (r0.err != nil) != (r1.err != nil) && f.retypedFloat && f.retypedMixed && (strings.Contains(msg0+msg1, "reflect: Call using int as type float")):
		return "C02-fold-retyped-float" // a float-typed and an int-typed literal folded together take the left one's type
	case (r0.err != nil) != (r1.err != nil) && (f.retypedOther || f.retypedDiv) && (f.retypedMixed && strings.Contains(msg0+msg1, "reflect: Call using int") || strings.Contains(msg0+msg1, "integer divide by zero")):
		return "C02-fold-retyped-int"
	case r0.err == nil && r1.err == nil && f.inRangeImpure && !simLog(r0.log, r1.log, skip):
		return "C02-in-range-double-eval"
	case f.inRangeUntyped && !(r0.err != nil && r1.err != nil):
		// the rewrite fired on a left operand without any static type (unvisited argument): a float / string value
		// at run time makes `x >= a and x <= b` differ from `x in a..b`
		return "C02-in-range-nil-type"
	case r0.err != nil && r1.err != nil:
		return "C02-mismatch"
	}
	if r0.err == nil && r1.err == nil && simLog(r0.log, r1.log, skip) {
		b0, ok0 := r0.out.(bool)
		b1, ok1 := r1.out.(bool)
		switch {
		case f.retypedFloat:
			return "C02-fold-retyped-float"
		case f.retypedDiv:
			return "C02-fold-retyped-int"
		case f.arrayUnderMap:
			return "C02-array-fold-deep-equal"
		case f.inRangeNarrow && ok0 && ok1 && b0 != b1:
			return "C02-in-range-narrow-int"
		}
	}
	if r0.err == nil && r1.err == nil && (f.retypedFloat || f.retypedDiv) && !simLog(r0.log, r1.log, skip) {
		// the differing value was passed to a logging function
		if f.retypedFloat {
			return "C02-fold-retyped-float"
		}
		return "C02-fold-retyped-int"
	}
	return "C02-mismatch"
}

package main

// C03 — static typing is sound and rejects ill-typed expressions.
//
// Generators (one PRNG): type-directed well-typed expressions over the environment universe
// (egen, wrong: 0), an exhaustive family of leaf/operator shapes, hand-written probes over an
// environment type with a declared integer type, a pointer to a scalar and a non-string-keyed
// map, and ALL single-fault mutants of the generated expressions (token-level: replace a leaf by
// a leaf of another type, rename a name, drop / add an argument, make a condition or predicate
// non-boolean, give a builtin a non-collection), each under {none, AsBool, AsInt64, AsFloat64}.
//
// (a) ORACLE on the implementation.  c03Ref is a reference typer written from the documented
//     rules (independent of checker.go): a program it finds in violation must be rejected by
//     expr.Compile; every accepted program whose operand positions are all statically typed is
//     run on every environment: a failure of a type class is a violation (unless it disappears
//     when the nil pointers of the environment are populated: nil is a value reason), a result's
//     dynamic type must be the type checker.Check reported, exactly bool/int64/float64 under the
//     directive.
// (b) CORRESPONDENCE: configuration + freshly parsed tree -> verdict / reported type / error
//     location and family / re-annotated tree of the real checker.Check, for coq/Corr/CorrC03.v.

import (
	"fmt"
	"math/rand"
	"os"
	"path/filepath"
	"reflect"
	"regexp"
	"sort"
	"strings"

	"github.com/antonmedv/expr"
	"github.com/antonmedv/expr/ast"
	"github.com/antonmedv/expr/checker"
	"github.com/antonmedv/expr/conf"
	"github.com/antonmedv/expr/file"
	"github.com/antonmedv/expr/parser"
	"github.com/antonmedv/expr/parser/lexer"
	"github.com/antonmedv/expr/vm"
)

func init() { commands["c03"] = runC03 }

// ---------------------------------------------------------------- second environment type
type C03MyInt int

type C03X struct {
	I   int
	I8  int8
	F64 float64
	B   bool
	S   string
	AI  []int
	MI  map[string]int
	MK  map[int]string
	MS  map[string][]int
	MM  map[string]map[string]int
	M   C03MyInt
	N   C03MyInt
	PI  *int
	St  Inner
	P   *Inner
	Any interface{}

	Inc    func(a int) int
	Half   func(x float64) float64
	Concat func(a, b string) string
	Ints   func(xs []int) int
}

func c03XEnv(variant int) *C03X {
	one := 1
	e := &C03X{I: 3, I8: 4, F64: 1.5, B: true, S: "s", AI: []int{1, 2, 3}, MI: map[string]int{"a": 1}, MK: map[int]string{1: "x"}, MS: map[string][]int{"a": {1, 2}}, MM: map[string]map[string]int{"x": {"k": 1}},
		M: 1, N: 2, PI: &one, St: Inner{X: 1, Y: "st", Next: &Inner{X: 2, Y: "n"}}, P: &Inner{X: 7, Y: "p", Next: &Inner{X: 8}}, Any: "str"}
	if variant == 1 {
		e.B, e.I, e.AI, e.Any, e.P, e.M = false, 0, []int{}, 2.5, nil, 1
		e.St.Next = nil
	}
	e.Inc = func(a int) int { logCall("Inc", a); return a + 1 }
	e.Half = func(x float64) float64 { logCall("Half", x); return x / 2 }
	e.Concat = func(a, b string) string { logCall("Concat", a, b); return a + b }
	e.Ints = func(xs []int) int { logCall("Ints", len(xs)); return len(xs) }
	return e
}

// ---------------------------------------------------------------- third environment type: one NAME that is both a method and another member
// (a method shadowing a field promoted from an embedded struct; a declared map type with a method that also holds a key of that
// name).  The checker types a call of such a name by the METHOD's signature (types table, methodType); the VM has to resolve it the
// same way.
type C03Emb struct {
	Label string
	Count int
	Plain int
}

type C03ShObj struct{ C03Emb }

func (C03ShObj) Label() string   { return "obj" }
func (C03ShObj) Count(n int) int { return n * 10 }

type C03Sh struct {
	C03Emb
	I   int
	N   int
	Obj C03ShObj
	PO  *C03ShObj
}

func (C03Sh) Label() string   { return "env" }
func (C03Sh) Count(n int) int { return n + 100 }

type C03ShMap map[string]interface{}

func (C03ShMap) Double(i int) int { return 2 * i }
func (C03ShMap) Name() string     { return "m" }

var c03ShProbes = []string{`Label() + "!"`, `Count(2) + 1`, `Obj.Label() + "!"`, `Obj.Count(N) == 20`, `PO.Label() + "?"`, `PO.Count(I) + N`, `Label() == "env"`, `Count(I) > N`,
	`[Label(), Obj.Label()]`, `Count(len(Label())) + 1`, `Plain + 1`, `Obj.Plain + I`, `len(Label()) + Count(1)`, `Obj.Count(Count(1)) + 1`}
var c03ShMapProbes = []string{`Double(2) + 1`, `1 + Double(1)`, `Name() + "!"`, `len(Name())`, `Double(Double(1)) == 4`, `[Double(2)][0] + 1`, `Double(len(Name())) * 2`}

var c03Probes = []string{
	`Concat(1, "a")`, `Inc(F64 + 1)`, `Inc("a" + "b")`, `Inc(I8 + I8)`, `Half(I + I)`, `Half(I + 1)`, `Inc(-F64)`, `Inc(I + 1)`, `Inc(1 + 2)`, `Half(1)`, `Half(1 / 2)`,
	`M == 1`, `M == N`, `M + 1`, `M < N`, `-M`, `M in AI`, `I == 1`,
	`AI?.x`, `S?.x`, `I?.x`, `St?.Zz`, `P?.X`, `St?.X`, `AI?.x == nil`,
	`(B ? 1 : nil) + 1`, `(B ? nil : 1) + 1`, `(B ? 1 : Any) + 1`, `(B ? Any : 1) + 1`, `B ? 1 : "a"`, `(B ? 1 : 2) + 1`, `B ? 1 : nil`,
	`AI["a"]`, `AI[1]`, `MI[1]`, `MI["a"]`, `MK[1]`, `MK["a"]`, `1 in MI`, `"a" in MI`, `1 in MK`, `MI[1:2]`, `AI[0:1]`, `MK.foo`, `MI.foo`,
	`Ints(filter(AI, {# > 0}))`, `Ints(map(AI, {# + 1}))`, `Ints(AI)`, `filter(AI, {# > 0})`, `map(AI, {# + 1})`, `filter(AI, {# > 0})[0] + 1`, `len(filter(AI, {# > 0}))`,
	`PI + 1`, `PI == 1`, `PI < 2`, `-PI`, `Inc(PI)`,
	// members of maps whose ELEMENT type is a slice / map / pointer, present and ABSENT keys (an absent key yields the typed zero value)
	`MS.a`, `MS.zz`, `MS["zz"]`, `len(MS.zz)`, `len(MS.a)`, `all(MS.zz, {# > 0})`, `Ints(MS.zz)`, `Ints(MS.a)`, `MS.zz[0:0]`, `MM.x.k`, `MM.y.k`, `MM.y`, `len(MM.y)`,

	`Inc(nil)`, `Concat(nil, "a")`, `Ints(nil)`,
	`P.X`, `P?.X + 1`, `St.Next.X`, `P.Next.Y`, `St.X + P.X`,
	`I + I8`, `I8 + 1`, `I + F64`, `I8 * F64`, `I % 2`, `I ** 2`, `1..I`, `-I8`,
	`not B`, `B and I > 1`, `S + "a"`, `S < "b"`, `S contains "s"`, `S matches "^s"`, `len(S)`, `len(AI)`, `len(MI)`,
	`all(AI, {# > 0})`, `count(AI, {# > 1}) + 1`, `any(AI, {# == I})`, `one(AI, {# == 1})`, `none(AI, {B})`,
	`I ? 1 : 2`, `all(AI, {#})`, `len(1)`, `AI[B]`, `Inc(1, 2)`, `Inc()`, `Zz + 1`, `St.Zz`, `St.Zz()`, `Zz(1)`, `not I`, `-S`, `S + 1`, `B + 1`, `S matches 1`, `AI[1.5]`,
	`1 + "a"`, `AI + 1`, `I and B`, `I < S`, `S == 1`, `1..F64`, `1 in I`, `filter(I, {true})`, `S[B:1]`, `I[0:1]`, `Inc("a")`, `Concat(S, 1.5)`, `Half(S)`,
	`Any.foo(1 + "a")`, `Any(1 + "a")`, `St?.Zz(1 + "a")`, `Any.foo(Zz)`, `Any?.foo(not 1)`, `Any.foo(1 + 2)`, `Any(I)`,
	`{(1): 2}`, `{(I): 2}`, `{(S): 2}`, `{("a" + S): I}`,
	`[I, S]`, `{a: I, b: S}`, `[1, 2][0]`, `{a: 1}.a`, `St.Get()`, `P.Get()`, `St.Get(1)`, `St.Get() + 1`,
}

// ---------------------------------------------------------------- reference typer
type c03Class int

const (
	rUnknown  c03Class = iota // no static information (interface{}, untyped map member, ...)
	rNil                      // the literal nil / an absent nil-safe member
	rKnown                    // a known Go type
	rConstInt                 // integer literal or + - * / of integer literals: converts to any numeric parameter
	rIntAny                   // some integer kind (mixed-kind arithmetic)
	rNumAny                   // some numeric kind
	rArrAny                   // an array whose element type is not fixed by the documentation (filter / map)
)

type c03RT struct {
	c c03Class
	t reflect.Type
}

func c03Known(t reflect.Type) c03RT {
	if t == nil {
		return c03RT{c: rNil}
	}
	if t.Kind() == reflect.Interface {
		return c03RT{c: rUnknown}
	}
	return c03RT{rKnown, t}
}

var (
	c03Int     = reflect.TypeOf(int(0))
	c03Float   = reflect.TypeOf(float64(0))
	c03Bool    = reflect.TypeOf(true)
	c03String  = reflect.TypeOf("")
	c03ArrIf   = reflect.TypeOf([]interface{}{})
	c03MapIf   = reflect.TypeOf(map[string]interface{}{})
	c03IfaceT  = reflect.TypeOf((*interface{})(nil)).Elem()
	c03IntKind = map[reflect.Kind]bool{reflect.Int: true, reflect.Int8: true, reflect.Int16: true, reflect.Int32: true, reflect.Int64: true,
		reflect.Uint: true, reflect.Uint8: true, reflect.Uint16: true, reflect.Uint32: true, reflect.Uint64: true}
)

func c03IsFloatKind(k reflect.Kind) bool { return k == reflect.Float32 || k == reflect.Float64 }
func c03IsNumKind(k reflect.Kind) bool   { return c03IntKind[k] || c03IsFloatKind(k) }

func (r c03RT) dyn() bool { return r.c == rUnknown }
func (r c03RT) kind() reflect.Kind {
	if r.c == rKnown {
		return r.t.Kind()
	}
	return reflect.Invalid
}
func (r c03RT) isNum() bool {
	return r.c == rConstInt || r.c == rIntAny || r.c == rNumAny || (r.c == rKnown && c03IsNumKind(r.t.Kind()))
}
func (r c03RT) isInt() bool {
	return r.c == rConstInt || r.c == rIntAny || (r.c == rKnown && c03IntKind[r.t.Kind()])
}
func (r c03RT) maybeInt() bool { return r.isInt() || r.c == rNumAny }
func (r c03RT) isBool() bool   { return r.c == rKnown && r.t.Kind() == reflect.Bool }
func (r c03RT) isStr() bool    { return r.c == rKnown && r.t.Kind() == reflect.String }
func (r c03RT) isArr() bool {
	return r.c == rArrAny || (r.c == rKnown && (r.t.Kind() == reflect.Slice || r.t.Kind() == reflect.Array))
}
func (r c03RT) isMap() bool { return r.c == rKnown && r.t.Kind() == reflect.Map }

// structType: the struct a value or a pointer to it denotes (members are reached through one pointer)
func (r c03RT) structType() (reflect.Type, bool) {
	if r.c != rKnown {
		return nil, false
	}
	t := r.t
	if t.Kind() == reflect.Ptr {
		t = t.Elem()
	}
	if t.Kind() == reflect.Struct {
		return t, true
	}
	return nil, false
}

type c03Violation struct {
	Rule string
	Line int
	Col  int
	Lit  bool // the violating operand is an integer literal / arithmetic in argument position
}

type c03Ref struct {
	envT  reflect.Type // struct or pointer to struct; nil = no environment (everything dynamic)
	cols  []c03RT
	viols []c03Violation
}

func (r *c03Ref) viol(rule string, n ast.Node) {
	l := n.Location()
	r.viols = append(r.viols, c03Violation{Rule: rule, Line: l.Line, Col: l.Column})
}

func c03FuncNoRecv(t reflect.Type) reflect.Type {
	ins := make([]reflect.Type, 0, t.NumIn())
	for i := 1; i < t.NumIn(); i++ {
		ins = append(ins, t.In(i))
	}
	outs := make([]reflect.Type, t.NumOut())
	for i := range outs {
		outs[i] = t.Out(i)
	}
	return reflect.FuncOf(ins, outs, t.IsVariadic())
}

// member: what `name` denotes on a value of type t (field by Go's selector rule, then method)
func c03Member(t reflect.Type, name string) (reflect.Type, bool) {
	st := t
	if st.Kind() == reflect.Ptr {
		st = st.Elem()
	}
	if st.Kind() == reflect.Struct {
		if f, ok := st.FieldByName(name); ok && f.PkgPath == "" {
			// Go's selector rule takes the shallowest member: a method declared ABOVE the embedded struct that promotes the field
			// shadows the field (the embedded type itself does not have the method)
			if len(f.Index) > 1 {
				if m, ok := c03MethodOf(t, name); ok {
					if _, deeper := c03MethodOf(st.Field(f.Index[0]).Type, name); !deeper {
						return c03FuncNoRecv(m.Type), true
					}
				}
			}
			return f.Type, true
		}
	}
	if m, ok := t.MethodByName(name); ok {
		return c03FuncNoRecv(m.Type), true
	}
	if t.Kind() != reflect.Ptr && t.Kind() != reflect.Interface {
		if m, ok := reflect.PtrTo(t).MethodByName(name); ok {
			return c03FuncNoRecv(m.Type), true
		}
	}
	return nil, false
}

func c03MethodOf(t reflect.Type, name string) (reflect.Method, bool) {
	if m, ok := t.MethodByName(name); ok {
		return m, true
	}
	if t.Kind() != reflect.Ptr && t.Kind() != reflect.Interface {
		return reflect.PtrTo(t).MethodByName(name)
	}
	return reflect.Method{}, false
}

func c03IsConstInt(n ast.Node) bool {
	switch x := n.(type) {
	case *ast.IntegerNode:
		return true
	case *ast.UnaryNode:
		return (x.Operator == "+" || x.Operator == "-") && c03IsConstInt(x.Node)
	case *ast.BinaryNode:
		switch x.Operator {
		case "+", "-", "*", "/":
			return c03IsConstInt(x.Left) && c03IsConstInt(x.Right)
		}
	}
	return false
}

func c03IsArith(n ast.Node) bool {
	switch x := n.(type) {
	case *ast.IntegerNode:
		return true
	case *ast.UnaryNode:
		return x.Operator == "+" || x.Operator == "-"
	case *ast.BinaryNode:
		switch x.Operator {
		case "+", "-", "*", "/":
			return true
		}
	}
	return false
}

func c03Arith(a, b c03RT, intOnly bool) c03RT {
	if a.dyn() || b.dyn() || !a.isNum() || !b.isNum() {
		return c03RT{c: rUnknown}
	}
	if a.c == rConstInt && b.c == rConstInt {
		return a
	}
	for _, fk := range []reflect.Kind{reflect.Float64, reflect.Float32} {
		if a.kind() == fk || b.kind() == fk {
			if fk == reflect.Float64 {
				return c03Known(c03Float)
			}
			return c03Known(reflect.TypeOf(float32(0)))
		}
	}
	if a.c == rKnown && b.c == rKnown && a.t == b.t {
		return a
	}
	if a.c == rKnown && b.c == rConstInt && a.t == c03Int {
		return a
	}
	if b.c == rKnown && a.c == rConstInt && b.t == c03Int {
		return b
	}
	if a.isInt() && b.isInt() {
		return c03RT{c: rIntAny}
	}
	return c03RT{c: rNumAny}
}

func (r *c03Ref) callee(fn c03RT, node ast.Node, args []ast.Node, what string) c03RT {
	argTs := make([]c03RT, len(args))
	for i, a := range args {
		argTs[i] = r.ty(a)
	}
	if fn.c != rKnown || fn.t.Kind() != reflect.Func {
		return c03RT{c: rUnknown}
	}
	ft := fn.t
	if ft.NumOut() != 1 {
		r.viol("results", node)
		return c03RT{c: rUnknown}
	}
	n := ft.NumIn()
	if ft.IsVariadic() {
		if len(args) < n-1 {
			r.viol("arity", node)
			return c03Known(ft.Out(0))
		}
	} else if len(args) != n {
		r.viol("arity", node)
		return c03Known(ft.Out(0))
	}
	for i, a := range argTs {
		var p reflect.Type
		if ft.IsVariadic() && i >= n-1 {
			p = ft.In(n - 1).Elem()
		} else {
			p = ft.In(i)
		}
		ok := true
		switch {
		case a.dyn() || p.Kind() == reflect.Interface:
		case a.c == rNil:
			switch p.Kind() {
			case reflect.Ptr, reflect.Slice, reflect.Map, reflect.Func, reflect.Chan:
			default:
				ok = false
			}
		case a.c == rConstInt:
			ok = c03IsNumKind(p.Kind())
		case a.c == rIntAny || a.c == rNumAny || a.c == rArrAny:
		default:
			ok = a.t.AssignableTo(p)
		}
		if !ok {
			l := args[i].Location()
			rule := "argtype"
			if a.c == rNil {
				rule = "argtype-nil"
			}
			r.viols = append(r.viols, c03Violation{Rule: rule, Line: l.Line, Col: l.Column, Lit: c03IsArith(args[i])})
		}
	}
	return c03Known(ft.Out(0))
}

func (r *c03Ref) ty(node ast.Node) c03RT {
	unknown := c03RT{c: rUnknown}
	switch n := node.(type) {
	case *ast.NilNode:
		return c03RT{c: rNil}
	case *ast.IntegerNode:
		return c03RT{c: rConstInt}
	case *ast.FloatNode:
		return c03Known(c03Float)
	case *ast.BoolNode:
		return c03Known(c03Bool)
	case *ast.StringNode:
		return c03Known(c03String)
	case *ast.IdentifierNode:
		if r.envT == nil {
			return unknown
		}
		if t, ok := c03Member(r.envT, n.Value); ok {
			return c03Known(t)
		}
		if n.NilSafe {
			return c03RT{c: rNil}
		}
		r.viol("unknown-name", n)
		return unknown
	case *ast.UnaryNode:
		x := r.ty(n.Node)
		switch n.Operator {
		case "!", "not":
			if !x.dyn() && !x.isBool() {
				r.viol("unary-operand", n)
			}
			return c03Known(c03Bool)
		default:
			if !x.dyn() && !x.isNum() {
				r.viol("unary-operand", n)
				return unknown
			}
			return x
		}
	case *ast.BinaryNode:
		a, b := r.ty(n.Left), r.ty(n.Right)
		both := !a.dyn() && !b.dyn()
		switch n.Operator {
		case "and", "&&", "or", "||":
			if (!a.dyn() && !a.isBool()) || (!b.dyn() && !b.isBool()) {
				r.viol("logic-operand", n)
			}
			return c03Known(c03Bool)
		case "==", "!=":
			if both && a.c != rNil && b.c != rNil {
				ok := (a.isNum() && b.isNum()) || (a.isArr() && b.isArr())
				if !ok && a.c == rKnown && b.c == rKnown {
					ka, kb := a.t.Kind(), b.t.Kind()
					if sa, isA := a.structType(); isA {
						if sb, isB := b.structType(); isB {
							ok = sa.Kind() == sb.Kind()
						}
					} else {
						ok = ka == kb
					}
				}
				if !ok {
					r.viol("eq-operands", n)
				}
			}
			return c03Known(c03Bool)
		case "<", ">", "<=", ">=":
			for _, x := range []c03RT{a, b} {
				if !x.dyn() && !x.isNum() && !x.isStr() {
					r.viol("order-operand", n)
					return c03Known(c03Bool)
				}
			}
			if both && a.isNum() != b.isNum() {
				r.viol("order-operands", n)
			}
			return c03Known(c03Bool)
		case "+":
			for _, x := range []c03RT{a, b} {
				if !x.dyn() && !x.isNum() && !x.isStr() {
					r.viol("arith-operand", n)
					return unknown
				}
			}
			if both && a.isNum() != b.isNum() {
				r.viol("arith-operands", n)
				return unknown
			}
			if both && a.isStr() {
				return c03Known(c03String)
			}
			return c03Arith(a, b, false)
		case "-", "*", "/":
			if (!a.dyn() && !a.isNum()) || (!b.dyn() && !b.isNum()) {
				r.viol("arith-operand", n)
				return unknown
			}
			return c03Arith(a, b, false)
		case "**":
			if (!a.dyn() && !a.isNum()) || (!b.dyn() && !b.isNum()) {
				r.viol("arith-operand", n)
			}
			return c03Known(c03Float)
		case "%":
			if (!a.dyn() && !a.maybeInt()) || (!b.dyn() && !b.maybeInt()) {
				r.viol("arith-operand", n)
				return unknown
			}
			if a.c == rConstInt && b.c == rConstInt {
				return c03Known(c03Int)
			}
			return c03Arith(a, b, true)
		case "contains", "startsWith", "endsWith":
			if (!a.dyn() && !a.isStr()) || (!b.dyn() && !b.isStr()) {
				r.viol("string-operand", n)
			}
			return c03Known(c03Bool)
		case "..":
			if (!a.dyn() && !a.maybeInt()) || (!b.dyn() && !b.maybeInt()) {
				r.viol("range-operand", n)
			}
			return c03Known(reflect.TypeOf([]int{}))
		case "in", "not in":
			if !b.dyn() {
				_, isStruct := b.structType()
				switch {
				case b.isArr() || b.isMap():
				case isStruct:
					if !a.dyn() && !a.isStr() {
						r.viol("in-operands", n)
					}
				default:
					r.viol("in-operands", n)
				}
			}
			return c03Known(c03Bool)
		}
		return unknown
	case *ast.MatchesNode:
		a, b := r.ty(n.Left), r.ty(n.Right)
		if (!a.dyn() && !a.isStr()) || (!b.dyn() && !b.isStr()) {
			r.viol("string-operand", n)
		}
		return c03Known(c03Bool)
	case *ast.PropertyNode:
		x := r.ty(n.Node)
		if x.dyn() {
			return unknown
		}
		if st, ok := x.structType(); ok {
			if f, ok := st.FieldByName(n.Property); ok && f.PkgPath == "" {
				return c03Known(f.Type)
			}
		} else if x.isMap() {
			return c03Known(x.t.Elem())
		}
		if n.NilSafe {
			return c03RT{c: rNil}
		}
		r.viol("unknown-field", n)
		return unknown
	case *ast.IndexNode:
		x, i := r.ty(n.Node), r.ty(n.Index)
		res := unknown
		if !x.dyn() {
			switch {
			case x.c == rArrAny:
			case x.c == rKnown && (x.t.Kind() == reflect.Slice || x.t.Kind() == reflect.Array || x.t.Kind() == reflect.Map):
				res = c03Known(x.t.Elem())
			case x.isStr():
			default:
				r.viol("not-indexable", n)
				return unknown
			}
		}
		if !i.dyn() && !i.maybeInt() && !i.isStr() {
			r.viol("index-type", n)
		}
		return res
	case *ast.SliceNode:
		x := r.ty(n.Node)
		if !x.dyn() && !x.isArr() && !x.isStr() && !x.isMap() {
			r.viol("not-sliceable", n)
		}
		for _, b := range []ast.Node{n.From, n.To} {
			if b != nil {
				if t := r.ty(b); !t.dyn() && !t.maybeInt() {
					r.viol("slice-index", b)
				}
			}
		}
		if x.isMap() {
			return unknown
		}
		return x
	case *ast.FunctionNode:
		if r.envT == nil {
			for _, a := range n.Arguments {
				r.ty(a)
			}
			return unknown
		}
		t, ok := c03Member(r.envT, n.Name)
		if !ok || (t.Kind() != reflect.Func && t.Kind() != reflect.Interface) {
			r.viol("unknown-func", n)
			for _, a := range n.Arguments {
				r.ty(a)
			}
			return unknown
		}
		return r.callee(c03Known(t), n, n.Arguments, n.Name)
	case *ast.MethodNode:
		x := r.ty(n.Node)
		if x.dyn() || x.isMap() {
			for _, a := range n.Arguments {
				r.ty(a)
			}
			return unknown
		}
		if x.c == rKnown {
			if t, ok := c03Member(x.t, n.Method); ok && (t.Kind() == reflect.Func || t.Kind() == reflect.Interface) {
				return r.callee(c03Known(t), n, n.Arguments, n.Method)
			}
		}
		for _, a := range n.Arguments {
			r.ty(a)
		}
		if n.NilSafe {
			return c03RT{c: rNil}
		}
		r.viol("unknown-method", n)
		return unknown
	case *ast.BuiltinNode:
		if len(n.Arguments) == 0 {
			return unknown
		}
		x := r.ty(n.Arguments[0])
		if n.Name == "len" {
			if !x.dyn() && !x.isArr() && !x.isMap() && !x.isStr() {
				r.viol("builtin-arg", n)
			}
			return c03Known(c03Int)
		}
		if !x.dyn() && !x.isArr() {
			r.viol("builtin-arg", n)
		}
		var body c03RT
		if len(n.Arguments) > 1 {
			r.cols = append(r.cols, x)
			if cl, ok := n.Arguments[1].(*ast.ClosureNode); ok {
				body = r.ty(cl.Node)
			} else {
				body = r.ty(n.Arguments[1])
			}
			r.cols = r.cols[:len(r.cols)-1]
		}
		switch n.Name {
		case "all", "none", "any", "one", "filter", "count":
			// a nil body has no static type: the closure returns a dynamic value
			if !body.dyn() && body.c != rNil && !body.isBool() && len(n.Arguments) > 1 {
				r.viol("predicate", n.Arguments[1])
			}
		}
		switch n.Name {
		case "all", "none", "any", "one":
			return c03Known(c03Bool)
		case "count":
			return c03Known(c03Int)
		}
		return c03RT{c: rArrAny}
	case *ast.ClosureNode:
		r.ty(n.Node)
		return unknown
	case *ast.PointerNode:
		if len(r.cols) == 0 {
			r.viol("pointer-outside", n)
			return unknown
		}
		c := r.cols[len(r.cols)-1]
		if c.c == rKnown && (c.t.Kind() == reflect.Slice || c.t.Kind() == reflect.Array) {
			return c03Known(c.t.Elem())
		}
		return unknown
	case *ast.ConditionalNode:
		c := r.ty(n.Cond)
		if !c.dyn() && !c.isBool() {
			r.viol("condition", n.Cond)
		}
		a, b := r.ty(n.Exp1), r.ty(n.Exp2)
		// two arrays whose element types the documentation does not fix (results of filter / map) are not known to
		// have ONE static type: the conditional is dynamic (demanding more would go beyond the documented rules)
		if a.c == b.c && (a.c != rKnown || a.t == b.t) && a.c != rNil && a.c != rArrAny {
			return a
		}
		return unknown
	case *ast.ArrayNode:
		for _, x := range n.Nodes {
			r.ty(x)
		}
		return c03Known(c03ArrIf)
	case *ast.MapNode:
		for _, p := range n.Pairs {
			r.ty(p)
		}
		return c03Known(c03MapIf)
	case *ast.PairNode:
		if k := r.ty(n.Key); !k.dyn() && !k.isStr() {
			r.viol("map-key", n.Key)
		}
		r.ty(n.Value)
		return unknown
	}
	return unknown
}

// c03RefJudge: the documented-rule violations of src under envT and a result directive
func c03RefJudge(tree *parser.Tree, envT reflect.Type, directive string) []c03Violation {
	r := &c03Ref{envT: envT}
	root := r.ty(tree.Node)
	switch directive {
	case "bool":
		if !root.dyn() && !root.isBool() {
			r.viols = append(r.viols, c03Violation{Rule: "expect-bool"})
		}
	case "int64", "float64":
		if !root.dyn() && !root.isNum() {
			r.viols = append(r.viols, c03Violation{Rule: "expect-number"})
		}
	}
	return r.viols
}

// ---------------------------------------------------------------- shape predicates (carve-outs)
func c03Children(n ast.Node) []ast.Node {
	switch x := n.(type) {
	case *ast.UnaryNode:
		return []ast.Node{x.Node}
	case *ast.BinaryNode:
		return []ast.Node{x.Left, x.Right}
	case *ast.MatchesNode:
		return []ast.Node{x.Left, x.Right}
	case *ast.PropertyNode:
		return []ast.Node{x.Node}
	case *ast.IndexNode:
		return []ast.Node{x.Node, x.Index}
	case *ast.SliceNode:
		out := []ast.Node{x.Node}
		if x.From != nil {
			out = append(out, x.From)
		}
		if x.To != nil {
			out = append(out, x.To)
		}
		return out
	case *ast.MethodNode:
		return append([]ast.Node{x.Node}, x.Arguments...)
	case *ast.FunctionNode:
		return x.Arguments
	case *ast.BuiltinNode:
		return x.Arguments
	case *ast.ClosureNode:
		return []ast.Node{x.Node}
	case *ast.ConditionalNode:
		return []ast.Node{x.Cond, x.Exp1, x.Exp2}
	case *ast.ArrayNode:
		return x.Nodes
	case *ast.MapNode:
		return x.Pairs
	case *ast.PairNode:
		return []ast.Node{x.Key, x.Value}
	}
	return nil
}

func c03Walk(n ast.Node, f func(ast.Node)) {
	f(n)
	for _, c := range c03Children(n) {
		c03Walk(c, f)
	}
}

func c03Static(t reflect.Type) bool { return t != nil && t.Kind() != reflect.Interface }

func c03Deref(t reflect.Type) reflect.Type {
	for t != nil && t.Kind() == reflect.Ptr {
		t = t.Elem()
	}
	return t
}

// operand positions of a node: the children whose static type the node's rule relies on
func c03Operands(n ast.Node) []ast.Node {
	switch x := n.(type) {
	case *ast.UnaryNode, *ast.BinaryNode, *ast.MatchesNode, *ast.PropertyNode, *ast.IndexNode, *ast.SliceNode, *ast.MethodNode, *ast.FunctionNode:
		return c03Children(n)
	case *ast.ConditionalNode:
		return []ast.Node{x.Cond}
	case *ast.PairNode:
		return []ast.Node{x.Key}
	case *ast.BuiltinNode:
		out := []ast.Node{x.Arguments[0]}
		if len(x.Arguments) > 1 && x.Name != "map" {
			if cl, ok := x.Arguments[1].(*ast.ClosureNode); ok {
				out = append(out, cl.Node)
			}
		}
		return out
	}
	return nil
}

func c03FullyStatic(root ast.Node, envT reflect.Type) bool {
	ok := true
	c03Walk(root, func(n ast.Node) {
		switch x := n.(type) {
		case *ast.FunctionNode: // the callee is an operand too
			if envT != nil && c03DynMember(envT, x.Name) {
				ok = false
			}
		case *ast.MethodNode:
			if c03DynMember(x.Node.Type(), x.Method) {
				ok = false
			}
		}
		for _, o := range c03Operands(n) {
			if !c03Static(o.Type()) {
				ok = false
			}
		}
	})
	return ok
}

// the shapes of the recorded findings, on the tree checker.Check annotated
func c03Shapes(root ast.Node, envT reflect.Type) []string {
	found := map[string]bool{}
	named := func(t reflect.Type) bool {
		t = c03Deref(t)
		return t != nil && t.PkgPath() != "" && t.Kind() != reflect.Struct && t.Kind() != reflect.Interface
	}
	ptrScalar := func(t reflect.Type) bool {
		return t != nil && t.Kind() == reflect.Ptr && c03Deref(t).Kind() != reflect.Struct
	}
	callArgs := func(fn reflect.Type, method bool, args []ast.Node) {
		if fn == nil || fn.Kind() != reflect.Func {
			return
		}
		off := 0
		if method {
			off = 1
		}
		for i, a := range args {
			var p reflect.Type
			if fn.IsVariadic() && i+off >= fn.NumIn()-1 {
				p = fn.In(fn.NumIn() - 1).Elem()
			} else if i+off < fn.NumIn() {
				p = fn.In(i + off)
			} else {
				continue
			}
			if a.Type() == nil && p.Kind() != reflect.Interface {
				found["C03-nil-argument"] = true
			}
			if !c03IsArith(a) || p.Kind() == reflect.Interface {
				continue
			}
			if c03IsConstInt(a) {
				if !c03IsNumKind(p.Kind()) {
					found["C03-literal-retype"] = true
				}
			} else if _, isInt := a.(*ast.IntegerNode); !isInt && a.Type() != p {
				found["C03-literal-retype"] = true
			}
		}
	}
	c03Walk(root, func(n ast.Node) {
		for _, o := range c03Operands(n) {
			if named(o.Type()) {
				found["C03-named-int"] = true
			}
			if ptrScalar(o.Type()) {
				found["C03-pointer-operand"] = true
			}
		}
		switch x := n.(type) {
		case *ast.PropertyNode:
			if t := c03Deref(x.Node.Type()); x.NilSafe && t != nil {
				switch t.Kind() {
				case reflect.Slice, reflect.Array, reflect.String:
					found["C03-nilsafe-on-slice"] = true
				}
			}
			if t := c03Deref(x.Node.Type()); t != nil && t.Kind() == reflect.Map && t.Key().Kind() != reflect.String {
				found["C03-index-key-type"] = true
			}
		case *ast.ConditionalNode:
			// exactly what the pinned ConditionalNode does: the type of the typed branch when the other one has no
			// type (nil), t1 when t1 is assignable to a different t2 (e.g. t2 = interface{})
			t1, t2 := x.Exp1.Type(), x.Exp2.Type()
			if c03Static(x.Type()) && t1 != t2 && ((t1 == nil) != (t2 == nil) || (t1 != nil && t2 != nil && t1.AssignableTo(t2))) {
				found["C03-cond-branch-type"] = true
			}
		case *ast.IndexNode:
			bt, it := c03Deref(x.Node.Type()), x.Index.Type()
			if bt != nil && it != nil && it.Kind() != reflect.Interface {
				switch bt.Kind() {
				case reflect.Map:
					if !it.AssignableTo(bt.Key()) {
						found["C03-index-key-type"] = true
					}
				case reflect.Slice, reflect.Array:
					if !c03IntKind[it.Kind()] {
						found["C03-index-key-type"] = true
					}
				}
			}
		case *ast.BinaryNode:
			if x.Operator == "in" || x.Operator == "not in" {
				bt, it := c03Deref(x.Right.Type()), x.Left.Type()
				if bt != nil && bt.Kind() == reflect.Map && (it == nil || (it.Kind() != reflect.Interface && !it.AssignableTo(bt.Key()))) {
					found["C03-index-key-type"] = true
				}
			}
		case *ast.SliceNode:
			if t := c03Deref(x.Node.Type()); t != nil && t.Kind() == reflect.Map {
				found["C03-slice-of-map"] = true
			}
		case *ast.PairNode:
			if t := x.Key.Type(); t == nil || (t.Kind() != reflect.String && t.Kind() != reflect.Interface) {
				found["C03-map-key-type"] = true
			}
		case *ast.BuiltinNode:
			if (x.Name == "filter" || x.Name == "map") && x.Type() != nil && x.Type() != c03ArrIf {
				found["C03-builtin-elem-type"] = true
			}
		case *ast.FunctionNode:
			if envT != nil {
				st := c03Deref(envT)
				if st.Kind() == reflect.Struct {
					if f, ok := st.FieldByName(x.Name); ok {
						callArgs(c03Deref(f.Type), false, x.Arguments)
					} else if m, ok := envT.MethodByName(x.Name); ok {
						callArgs(m.Type, true, x.Arguments)
					} else if m, ok := reflect.PtrTo(st).MethodByName(x.Name); ok {
						callArgs(m.Type, true, x.Arguments)
					}
				}
			}
		case *ast.MethodNode:
			if x.NilSafe && x.Type() == nil {
				found["C03-nilsafe-on-slice"] = true
			}
			if t := x.Node.Type(); t != nil {
				if m, ok := t.MethodByName(x.Method); ok && t.Kind() != reflect.Interface {
					callArgs(m.Type, true, x.Arguments)
				} else if st := c03Deref(t); st.Kind() == reflect.Struct {
					if f, ok := st.FieldByName(x.Method); ok {
						callArgs(c03Deref(f.Type), false, x.Arguments)
					}
				}
			}
		}
	})
	order := []string{"C03-literal-retype", "C03-nil-argument", "C03-named-int", "C03-pointer-operand", "C03-nilsafe-on-slice", "C03-cond-branch-type",
		"C03-index-key-type", "C03-slice-of-map", "C03-map-key-type", "C03-builtin-elem-type"}
	var out []string
	for _, k := range order {
		if found[k] {
			out = append(out, k)
		}
	}
	return out
}

// c03DynMember: the member `name` of a value of type t is dynamically typed (interface{})
func c03DynMember(t reflect.Type, name string) bool {
	if t == nil {
		return false
	}
	d := c03Deref(t)
	switch d.Kind() {
	case reflect.Interface:
		return true
	case reflect.Map:
		return d.Elem().Kind() == reflect.Interface
	}
	if m, ok := c03Member(t, name); ok {
		return m.Kind() == reflect.Interface
	}
	return false
}

// c03DynCallArgLocs: locations of the nodes inside the argument lists that checker.Check never
// visits (callee typed interface{}, or nil-safe method that is missing)
func c03DynCallArgLocs(root ast.Node, envT reflect.Type) map[[2]int]bool {
	out := map[[2]int]bool{}
	mark := func(args []ast.Node) {
		for _, a := range args {
			c03Walk(a, func(n ast.Node) { l := n.Location(); out[[2]int{l.Line, l.Column}] = true })
		}
	}
	dynMember := c03DynMember
	c03Walk(root, func(n ast.Node) {
		switch x := n.(type) {
		case *ast.FunctionNode:
			if envT != nil && dynMember(envT, x.Name) {
				mark(x.Arguments)
			}
		case *ast.MethodNode:
			if (x.NilSafe && x.Type() == nil) || dynMember(x.Node.Type(), x.Method) {
				mark(x.Arguments)
			}
		}
	})
	return out
}

// ---------------------------------------------------------------- mutants
type c03Mutant struct {
	Src  string
	Kind string
}

var c03LeafPool = []string{"1", "2.5", `"zz"`, "true", "nil", "I8", "S", "AI", "MI", "St", "P", "B"}
var c03Builtins = map[string]bool{"len": true, "all": true, "none": true, "any": true, "one": true, "filter": true, "map": true, "count": true}

func c03Mutants(src string) []c03Mutant {
	toks, err := lexer.Lex(file.NewSource(src))
	if err != nil || len(toks) == 0 {
		return nil
	}
	n := len(toks) - 1 // without EOF
	start := func(i int) int {
		if i >= n {
			return len(src)
		}
		return toks[i].Column
	}
	end := func(i int) int { // exclusive end of token i's text
		e := start(i + 1)
		for e > start(i) && (src[e-1] == ' ' || src[e-1] == '\t') {
			e--
		}
		return e
	}
	splice := func(a, b int, with string) string { return src[:a] + with + src[b:] }
	isOpen := func(t lexer.Token) bool { return t.Kind == lexer.Bracket && strings.ContainsAny(t.Value, "([{") }
	isClose := func(t lexer.Token) bool { return t.Kind == lexer.Bracket && strings.ContainsAny(t.Value, ")]}") }
	match := func(i int) int { // index of the bracket closing the one opened at i
		d := 0
		for j := i; j < n; j++ {
			if isOpen(toks[j]) {
				d++
			} else if isClose(toks[j]) {
				d--
				if d == 0 {
					return j
				}
			}
		}
		return -1
	}
	var out []c03Mutant
	add := func(kind, s string) {
		if s != src {
			out = append(out, c03Mutant{s, kind})
		}
	}
	for i := 0; i < n; i++ {
		t := toks[i]
		prevDot := i > 0 && toks[i-1].Kind == lexer.Operator && (toks[i-1].Value == "." || toks[i-1].Value == "?.")
		nextParen := i+1 < n && toks[i+1].Kind == lexer.Bracket && toks[i+1].Value == "("
		nextColon := i+1 < n && toks[i+1].Kind == lexer.Operator && toks[i+1].Value == ":" && i > 0 && toks[i-1].Kind == lexer.Bracket && (toks[i-1].Value == "{" || toks[i-1].Value == ",")
		leaf := (t.Kind == lexer.Number || t.Kind == lexer.String || (t.Kind == lexer.Identifier && !nextParen) || (t.Kind == lexer.Operator && t.Value == "#")) && !prevDot && !nextColon
		if i > 0 && toks[i-1].Kind == lexer.Operator && toks[i-1].Value == ":" && false {
			leaf = false
		}
		if leaf {
			for _, r := range c03LeafPool {
				add("leaf", splice(start(i), end(i), r))
			}
		}
		if t.Kind == lexer.Identifier && t.Value != "true" && t.Value != "false" && t.Value != "nil" && !nextColon {
			add("rename", splice(start(i), end(i), t.Value+"Zz"))
		}
		if t.Kind == lexer.Identifier && nextParen {
			close := match(i + 1)
			if close < 0 {
				continue
			}
			// top-level commas of the call
			var commas []int
			d := 0
			for j := i + 1; j <= close; j++ {
				if isOpen(toks[j]) {
					d++
				} else if isClose(toks[j]) {
					d--
				} else if d == 1 && toks[j].Kind == lexer.Operator && toks[j].Value == "," {
					commas = append(commas, j)
				}
			}
			empty := close == i+2
			if !c03Builtins[t.Value] {
				if empty {
					add("add-arg", splice(start(close), start(close), "1"))
				} else {
					add("add-arg", splice(start(close), start(close), ", 1"))
					if len(commas) > 0 {
						add("drop-arg", splice(start(commas[len(commas)-1]), start(close), ""))
					} else {
						add("drop-arg", splice(end(i+1), start(close), ""))
					}
				}
			} else if !empty {
				argEnd := close
				if len(commas) > 0 {
					argEnd = commas[0]
				}
				for _, r := range []string{"1", "true", "St"} {
					add("builtin-arg", splice(start(i+2), start(argEnd), r))
				}
				if len(commas) > 0 && commas[0]+1 < close && toks[commas[0]+1].Value == "{" {
					cl := match(commas[0] + 1)
					if cl > 0 {
						for _, r := range []string{"1", `"a"`, "#", "AI"} {
							add("predicate", splice(end(commas[0]+1), start(cl), r))
						}
					}
				}
			}
		}
		if t.Kind == lexer.Operator && t.Value == "?" {
			// the condition: leftwards to the enclosing bracket / separator at the same depth
			d, j := 0, i-1
			for ; j >= 0; j-- {
				if isClose(toks[j]) {
					d++
				} else if isOpen(toks[j]) {
					if d == 0 {
						break
					}
					d--
				} else if d == 0 && toks[j].Kind == lexer.Operator && (toks[j].Value == "," || toks[j].Value == "?" || toks[j].Value == ":") {
					break
				}
			}
			if j+1 <= i-1 {
				for _, r := range []string{"1", `"a"`, "AI", "nil"} {
					add("condition", splice(start(j+1), end(i-1), r))
				}
			}
		}
	}
	return out
}

// ---------------------------------------------------------------- running
type c03World struct {
	name   string
	sample interface{}
	envT   reflect.Type
	envs   []interface{}
	twins  []interface{} // the same values with every nil *Inner populated
}

func c03Chain(d int) *Inner {
	if d == 0 {
		return nil
	}
	return &Inner{X: d, Y: "tw", Next: c03Chain(d - 1)}
}

func c03FillInner(in *Inner, d int) {
	for p := in; d > 0; d-- {
		if p.Next == nil {
			p.Next = c03Chain(d)
			return
		}
		p = p.Next
	}
}

func c03TwinEnv(e *Env) *Env {
	c := *e
	st := c.St
	if st.Next != nil {
		cp := *st.Next
		st.Next = &cp
	}
	c03FillInner(&st, 6)
	c.St = st
	if c.P == nil {
		c.P = c03Chain(6)
	} else {
		cp := *c.P
		c03FillInner(&cp, 6)
		c.P = &cp
	}
	installFuncs(&c)
	return &c
}

func c03TwinX(e *C03X) *C03X {
	c := *e
	st := c.St
	c03FillInner(&st, 6)
	c.St = st
	if c.P == nil {
		c.P = c03Chain(6)
	} else {
		cp := *c.P
		c03FillInner(&cp, 6)
		c.P = &cp
	}
	return &c
}

var c03TypeClasses = map[string]bool{"EInvalidOp": true, "EIfaceConv": true, "ECannotFetch": true, "EReflect": true, "ENotIn": true}

func c03Options(w *c03World, directive string) []expr.Option {
	ops := []expr.Option{expr.Env(w.sample), expr.Optimize(false)}
	switch directive {
	case "bool":
		ops = append(ops, expr.AsBool())
	case "int64":
		ops = append(ops, expr.AsInt64())
	case "float64":
		ops = append(ops, expr.AsFloat64())
	}
	return ops
}

func c03SafeCompile(src string, ops []expr.Option) (p *vm.Program, err error) {
	defer func() {
		if r := recover(); r != nil {
			err = fmt.Errorf("panic: %v", r)
		}
	}()
	return expr.Compile(src, ops...)
}

// c03Check: checker.Check on a freshly parsed tree under the configuration expr.Compile builds
func c03Check(src string, ops []expr.Option, twice bool) (tree *parser.Tree, config *conf.Config, t reflect.Type, err error, panicked bool) {
	config = &conf.Config{Operators: make(map[string][]string), ConstExprFns: make(map[string]reflect.Value), Optimize: true}
	for _, op := range ops {
		op(config)
	}
	tree, err = parser.Parse(src)
	if err != nil {
		return nil, config, nil, err, false
	}
	defer func() {
		if r := recover(); r != nil {
			err, panicked = fmt.Errorf("panic: %v", r), true
		}
	}()
	t, err = checker.Check(tree, config)
	if twice && err == nil {
		t, err = checker.Check(tree, config)
	}
	return
}

var c03ErrFamilies = []struct {
	re  *regexp.Regexp
	cls string
}{
	{regexp.MustCompile(`^ambiguous identifier`), "CAmbiguous"},
	{regexp.MustCompile(`^unknown name`), "CUnknownName"},
	{regexp.MustCompile(`^unknown operator`), "CUnknownOp"},
	{regexp.MustCompile(`^invalid operation: matches \(mismatched types`), "CMatches"},
	{regexp.MustCompile(`^invalid operation: .* \(mismatched types .* and `), "CMismatch2"},
	{regexp.MustCompile(`^invalid operation: .* \(mismatched type `), "CMismatch1"},
	{regexp.MustCompile(`^type .* has no field`), "CNoField"},
	{regexp.MustCompile(`^invalid operation: cannot use .* as index to`), "CBadIndex"},
	{regexp.MustCompile(`does not support indexing$`), "CNotIndexable"},
	{regexp.MustCompile(`^invalid operation: non-integer slice index`), "CSliceIndex"},
	{regexp.MustCompile(`^invalid operation: cannot slice`), "CCannotSlice"},
	{regexp.MustCompile(`^unknown func`), "CUnknownFunc"},
	{regexp.MustCompile(`^type .* has no method`), "CNoMethod"},
	{regexp.MustCompile(`doesn't return value$`), "CNoReturn"},
	{regexp.MustCompile(`returns more then one value$`), "CManyReturns"},
	{regexp.MustCompile(`^too many arguments`), "CTooMany"},
	{regexp.MustCompile(`^not enough arguments`), "CTooFew"},
	{regexp.MustCompile(`^cannot use .* as argument`), "CArgType"},
	{regexp.MustCompile(`^invalid argument for len`), "CLenArg"},
	{regexp.MustCompile(`takes only array`), "CNotArray"},
	{regexp.MustCompile(`^closure should return boolean`), "CClosureBool"},
	{regexp.MustCompile(`^closure should has one input`), "CClosureShape"},
	{regexp.MustCompile(`^unknown builtin`), "CUnknownBuiltin"},
	{regexp.MustCompile(`^cannot use pointer accessor outside closure`), "CPointerOutside"},
	{regexp.MustCompile(`^cannot use .* as array$`), "CPointerNotArray"},
	{regexp.MustCompile(`^non-bool expression`), "CNonBoolCond"},
	{regexp.MustCompile(`^expected .*, but got`), "CExpect"},
}

func c03ErrFamily(msg string) string {
	for _, f := range c03ErrFamilies {
		if f.re.MatchString(msg) {
			return f.cls
		}
	}
	return "CStuck"
}

func c03Note(src string) string {
	s := strings.ReplaceAll(strings.ReplaceAll(src, "*)", "* )"), "(*", "( *")
	return strings.ReplaceAll(strings.ReplaceAll(s, "\n", " "), "\"", "'")
}

func c03ExpectCoq(d string) string {
	switch d {
	case "bool":
		return "(Some RKBool)"
	case "int64":
		return "(Some (RKNum KInt64))"
	case "float64":
		return "(Some (RKNum KF64))"
	}
	return "None"
}

// ---------------------------------------------------------------- base configurations of the correspondence
type c03Base struct {
	name string
	ops  []expr.Option
	envT reflect.Type
}

func c03TableCoq(ser *tySer, tb conf.TypesTable) string {
	if tb == nil {
		return "None"
	}
	names := make([]string, 0, len(tb))
	for n := range tb {
		names = append(names, n)
	}
	sort.Strings(names)
	items := make([]string, len(names))
	for i, n := range names {
		tg := tb[n]
		items[i] = fmt.Sprintf("(%s, mkTag %s %s %s)", tyStr(n), ser.ty(tg.Type), coqBool(tg.Method), coqBool(tg.Ambiguous))
	}
	return "(Some [" + strings.Join(items, "; ") + "])"
}

func c03BaseCoq(ser *tySer, b c03Base) string {
	config := &conf.Config{Operators: make(map[string][]string), ConstExprFns: make(map[string]reflect.Value), Optimize: true}
	for _, op := range b.ops {
		op(config)
	}
	var ops []string
	var opNames []string
	for o := range config.Operators {
		opNames = append(opNames, o)
	}
	sort.Strings(opNames)
	for _, o := range opNames {
		fns := make([]string, len(config.Operators[o]))
		for i, f := range config.Operators[o] {
			fns[i] = tyStr(f)
		}
		ops = append(ops, fmt.Sprintf("(%s, [%s])", tyStr(o), strings.Join(fns, "; ")))
	}
	def := "None"
	if config.DefaultType != nil {
		def = "(Some " + ser.ty(config.DefaultType) + ")"
	}
	return fmt.Sprintf("mkCC te %s [%s] None %s %s", c03TableCoq(ser, config.Types), strings.Join(ops, "; "), coqBool(config.Strict), def)
}

// ---------------------------------------------------------------- main
type c03Input struct {
	Src       string `json:"src"`
	World     string `json:"env_type"`
	Directive string `json:"directive"`
	Env       int    `json:"env"`
	Mutation  string `json:"mutation,omitempty"`
}

func runC03() {
	rep := newReport("C03")
	debugAll := map[string]bool{}
	defer func() {
		if os.Getenv("C03_DEBUG") != "" {
			var ks []string
			for k := range debugAll {
				ks = append(ks, k)
			}
			sort.Strings(ks)
			os.WriteFile(filepath.Join(*outDir, "failures_all.txt"), []byte(strings.Join(ks, "\n")+"\n"), 0644)
		}
	}()
	fail := func(f Failure) {
		if in, ok := f.Input.(c03Input); ok {
			debugAll[f.Key+" | "+in.World+" | "+in.Src+" | "+in.Directive+" | "+f.Got] = true
		}
		rep.fail(f)
	}
	rng := rand.New(rand.NewSource(*seed))
	nGen, nEnvs, exLevel, coqMutants, coqOrig := 260, 6, 1, 1300, 450
	if *tier == "thorough" {
		nGen, nEnvs, exLevel, coqMutants, coqOrig = 2500, 10, 2, 30000, 8000
	}

	// ---- worlds
	uni := standardEnvs(rng, nEnvs)
	wU := &c03World{name: "Env", sample: uni[0], envT: reflect.TypeOf(uni[0])}
	for _, e := range uni {
		wU.envs = append(wU.envs, e)
		wU.twins = append(wU.twins, c03TwinEnv(e))
	}
	x0, x1 := c03XEnv(0), c03XEnv(1)
	wX := &c03World{name: "C03X", sample: x0, envT: reflect.TypeOf(x0), envs: []interface{}{x0, x1}, twins: []interface{}{c03TwinX(x0), c03TwinX(x1)}}

	// ---- sources
	type item struct {
		src   string
		w     *c03World
		mut   string // "" = original
		fam   string
		forCq bool
	}
	var items []item
	seen := map[string]bool{}
	push := func(it item) bool {
		k := it.w.name + "|" + it.src
		if seen[k] {
			return false
		}
		seen[k] = true
		items = append(items, it)
		return true
	}
	var originals []item
	g := &egen{rng: rng, wrong: 0, hist: rep.Histogram}
	for i := 0; i < nGen; i++ {
		t := []gtype{tBool, tBool, tInt, tInt, tNum, tStr, tArrInt, tArrStr}[rng.Intn(8)]
		it := item{src: g.expr(t, 1+rng.Intn(3)), w: wU, fam: "generated"}
		if push(it) {
			originals = append(originals, it)
		}
	}
	ex := exhaustiveExprs(exLevel)
	rep.Extra["exhaustive_family_size"] = len(ex)
	for _, s := range ex {
		push(item{src: s, w: wU, fam: "exhaustive family"})
	}
	for _, s := range c03Probes {
		it := item{src: s, w: wX, fam: "probe"}
		if push(it) {
			originals = append(originals, it)
		}
	}
	// nested builtins: a builtin inside the closure of another one over a collection of ANOTHER element
	// type, with the outer element used before and after it (the checker's collections stack must be
	// popped by every builtin)
	{
		var nested []string
		bs := []string{"all", "none", "any", "one", "filter", "map", "count"}
		pred := map[string]string{"AI": "# > 0", "AS": `# startsWith "a"`, "AF": "# < 1.5"}
		use := map[string]string{"AI": "# + 1", "AS": `# + "x"`, "AF": "# * 2.0"}
		for _, outer := range bs {
			for _, inner := range bs {
				for _, cs := range [][2]string{{"AI", "AS"}, {"AS", "AI"}, {"AF", "AS"}, {"AI", "AF"}} {
					oc, ic := cs[0], cs[1]
					in := fmt.Sprintf("%s(%s, {%s})", inner, ic, pred[ic])
					switch inner {
					case "count":
						in += " >= 0"
					case "filter":
						in = "len(" + in + ") >= 0"
					case "map":
						in = fmt.Sprintf("len(map(%s, {%s})) >= 0", ic, use[ic])
					}
					body := fmt.Sprintf("%s and %s", in, pred[oc])
					if rng.Intn(2) == 0 {
						body = fmt.Sprintf("%s and %s and %s", pred[oc], in, pred[oc])
					}
					if outer == "map" {
						body = fmt.Sprintf("%s ? %s : #", in, use[oc])
					}
					nested = append(nested, fmt.Sprintf("%s(%s, {%s})", outer, oc, body))
				}
			}
		}
		rng.Shuffle(len(nested), func(i, j int) { nested[i], nested[j] = nested[j], nested[i] })
		if *tier != "thorough" && len(nested) > 40 {
			nested = nested[:40]
		}
		// the same shape ILL-typed: the outer element (an int) used as a string AFTER an inner builtin over
		// strings, and the inner element (a string) used as an int; every inner builtin
		for _, inner := range bs {
			in := fmt.Sprintf(`%s(AS, {# == "a"})`, inner)
			switch inner {
			case "count":
				in += " >= 0"
			case "filter", "map":
				in = "len(" + in + ") >= 0"
			}
			nested = append(nested, fmt.Sprintf(`all(AI, {%s and # startsWith "a"})`, in), fmt.Sprintf(`map(AI, {%s ? # + "x" : "y"})`, in),
				fmt.Sprintf(`filter(AI, {# > 0 and %s and # matches "^a"})`, in))
		}
		// conditionals whose branches have DIFFERENT numeric kinds (the value keeps its branch's kind), used where
		// the static kind selects a specialised instruction or a conversion
		nested = append(nested, "(B ? U8 : I) == 1", "(B2 ? U8 : I) == I", "(B ? I : U8) == I", "(B ? I8 : I) == I", "B ? 1 : 2.5", "B2 ? 1 : 2.5", "(B ? I8 : I) + 1", "(B ? F32 : I) * 2",
			"(B2 ? F64 : I) == 2", "(B ? U16 : I64) < 3", "[B ? U8 : I, B2 ? U8 : I]", "(B ? S : S2) == S", "(B ? AI : AS) == AI")
		for _, s := range nested {
			it := item{src: s, w: wU, fam: "nested builtins"}
			if push(it) {
				originals = append(originals, it)
			}
		}
	}
	// two DIFFERENT environment types whose nested struct types print the same name ("main.Reading") and give the
	// member Value different types: compiled one after the other in this process (a per-name memo of member types
	// must not leak from one type to the other)
	{
		la, lb := c03LocalA(), c03LocalB()
		wA := &c03World{name: "LocalA", sample: la, envT: reflect.TypeOf(la), envs: []interface{}{la}, twins: []interface{}{la}}
		wB := &c03World{name: "LocalB", sample: lb, envT: reflect.TypeOf(lb), envs: []interface{}{lb}, twins: []interface{}{lb}}
		probes := []string{"Last.Value * 2", `Last.Value + "!"`, "Last.Value > 1", "-Last.Value", "1..Last.Value", "Last.Unit", "Last.Unit + 1", `Last.Unit + "u"`, "N + Last.Value", "len(Last.Value)"}
		for _, w := range []*c03World{wA, wB, wA} {
			for _, s := range probes {
				push(item{src: s, w: w, fam: "same-name types"})
			}
		}
	}
	// literal arithmetic in ARGUMENT position under EVERY arithmetic operator (+ - * / % ** and the unary signs, nested), for
	// parameters of narrow / wide / unsigned / float / string kinds: the pinned checker retypes + - * / and the signs to the parameter
	// (recorded finding C03-literal-retype) and rejects the others; whatever is accepted must run without a type failure,
	// optimizer on and off
	{
		ke := c03KindEnv()
		wK := &c03World{name: "C03K", sample: ke, envT: reflect.TypeOf(ke), envs: []interface{}{ke}, twins: []interface{}{ke}}
		for _, fn := range []string{"GI8", "GU16", "GI64", "GF32", "GS", "GM"} {
			for _, a := range []string{"5 % 3", "17 % 5", "2 ** 2", "-(7 % 4)", "1 + 5 % 3", "+(2 ** 2)", "(1 + 2) * 3", "7 / 2", "1 - 2", "5 % 3 * 2", "-3", "4"} {
				push(item{src: fn + "(" + a + ")", w: wK, fam: "literal arithmetic as argument"})
			}
		}
	}
	// arithmetic with the neutral literal: the result has the PROMOTED kind (uint8 * 1 is an int) - also after the optimizer
	for _, k := range []string{"U8", "U16", "U32", "U", "U64", "I8", "I16", "I32", "I64", "I", "F32", "F64"} {
		for _, s := range []string{k + " * 1", "1 * " + k, k + " / 1", k + " + 0", "0 + " + k, k + " - 0", "-(" + k + " * 1)", "(" + k + " * 1) == I", k + " * 1 * 1"} {
			it := item{src: s, w: wU, fam: "neutral literal"}
			if push(it) {
				originals = append(originals, it)
			}
		}
	}
	// the SAME struct type once as a pointer sample (above: world Env) and afterwards as a VALUE sample: methods declared
	// on the pointer receiver are members of the first and not of the second, whatever was compiled before
	{
		v0 := *uni[0]
		wV := &c03World{name: "EnvValue", sample: v0, envT: reflect.TypeOf(v0), envs: []interface{}{v0}, twins: []interface{}{v0}}
		for _, s := range []string{"PtrM(1)", "PtrM(I) + 1", "Add(PtrM(1), 2)", "[PtrM(2)]", "B ? PtrM(1) : 0", "Add(1, 2)", "St.Get()", "Inc(I) + I8", "P.Get() + 1"} {
			push(item{src: s, w: wU, fam: "pointer sample, then value sample"})
			push(item{src: s, w: wV, fam: "pointer sample, then value sample"})
		}
	}
	// one name that is both a method and another member (promoted field / map key): typed as the method, resolved as the method
	{
		sh := C03Sh{C03Emb: C03Emb{Label: "field", Count: 7, Plain: 1}, I: 2, N: 2, Obj: C03ShObj{C03Emb{Label: "f2", Count: 8, Plain: 3}}, PO: &C03ShObj{C03Emb{Label: "f3", Count: 9, Plain: 4}}}
		wS := &c03World{name: "C03Sh", sample: sh, envT: reflect.TypeOf(sh), envs: []interface{}{sh, &sh}, twins: []interface{}{sh, &sh}}
		for _, s := range c03ShProbes {
			push(item{src: s, w: wS, fam: "method shadowing another member"})
		}
		sm := C03ShMap{"Double": "a string entry", "Name": 5, "I": 1}
		wM := &c03World{name: "C03ShMap", sample: sm, envT: reflect.TypeOf(sm), envs: []interface{}{sm}, twins: []interface{}{sm}}
		for _, s := range c03ShMapProbes {
			push(item{src: s, w: wM, fam: "method shadowing another member"})
		}
	}
	nOrig := len(items)
	for _, o := range originals {
		for _, m := range c03Mutants(o.src) {
			if _, err := parser.Parse(m.Src); err != nil {
				rep.hist("mutant does not parse (skipped)")
				continue
			}
			if push(item{src: m.Src, w: o.w, mut: m.Kind, fam: "mutant"}) {
				rep.hist("mutant " + m.Kind)
			}
		}
	}
	rep.Extra["originals"] = nOrig
	rep.Extra["mutants"] = len(items) - nOrig

	// ---- correspondence bases
	ser := newTySer()
	mapEnv := map[string]interface{}{"a": 1, "s": "x", "f": func(a int) int { return a }, "in": Inner{}}
	typedMap := map[string]int{"a": 1, "b": 2}
	bases := []c03Base{
		{"Env", []expr.Option{expr.Env(wU.sample)}, wU.envT},
		{"C03X", []expr.Option{expr.Env(wX.sample)}, wX.envT},
		{"Env+AllowUndefinedVariables", []expr.Option{expr.Env(wU.sample), expr.AllowUndefinedVariables()}, nil},
		{"no environment", nil, nil},
		{"map[string]interface{}", []expr.Option{expr.Env(mapEnv)}, nil},
		{"map[string]int", []expr.Option{expr.Env(typedMap)}, nil},
		{"map[string]int+AllowUndefinedVariables", []expr.Option{expr.Env(typedMap), expr.AllowUndefinedVariables()}, nil},
		{"Env+Operator(+,Add,Concat)(-,Add)", []expr.Option{expr.Env(wU.sample), expr.Operator("+", "Add", "Concat"), expr.Operator("-", "Add")}, nil},
	}
	baseTerms := make([]string, len(bases))
	for i, b := range bases {
		baseTerms[i] = c03BaseCoq(ser, b)
	}

	directives := []string{"", "bool", "int64", "float64"}
	var cases []string
	addCase := func(src string, base int, directive string, twice bool) {
		ops := append([]expr.Option{}, bases[base].ops...)
		switch directive {
		case "bool":
			ops = append(ops, expr.AsBool())
		case "int64":
			ops = append(ops, expr.AsInt64())
		case "float64":
			ops = append(ops, expr.AsFloat64())
		}
		tree, _, t, err, panicked := c03Check(src, ops, twice)
		if tree == nil {
			return
		}
		if panicked {
			rep.hist("checker.Check panicked (C04's business, not serialised)")
			if os.Getenv("C03_DEBUG") != "" {
				fmt.Println("PANIC", src, bases[base].name, directive, err)
			}
			return
		}
		obs := ""
		if err == nil {
			obs = "(OAcc " + ser.ty(t) + ")"
		} else if fe, ok := err.(*file.Error); ok {
			obs = fmt.Sprintf("(ORej (%d, %d) %s)", fe.Line, fe.Column, c03ErrFamily(fe.Message))
		} else {
			obs = fmt.Sprintf("(ORej (0, 0) %s)", c03ErrFamily(err.Error()))
		}
		cases = append(cases, fmt.Sprintf("mkC03 %d %s %s %s %s (* %s | %s *)", base, c03ExpectCoq(directive), cqBool(twice), cqExpr(tree.Node), obs, c03Note(src), bases[base].name))
	}

	// ---- oracle
	distinct := map[string]bool{}
	baseOf := map[string]int{"Env": 0, "C03X": 1}
	pMut := float64(coqMutants) / float64(len(items)-nOrig+1)
	pOrig := float64(coqOrig) / float64(nOrig*2+1)
	pOrig0 := 3 * pOrig
	for idx, it := range items {
		w := it.w
		isOrig := idx < nOrig
		for di, d := range directives {
			input := c03Input{Src: it.src, World: w.name, Directive: d, Mutation: it.mut}
			tree, _, t, cerr, panicked := c03Check(it.src, c03Options(w, d), false)
			if tree == nil {
				rep.hist("source does not parse")
				break
			}
			rep.Evaluations++
			if strings.ContainsAny(it.src, " (.[?") {
				distinct[w.name+"|"+it.src+"|"+d] = true
			}
			// correspondence sample
			if (isOrig && ((d == "" && (it.fam != "exhaustive family" || rng.Float64() < pOrig0)) || rng.Float64() < pOrig)) || (!isOrig && d == "" && rng.Float64() < pMut) {
				if bi, ok := baseOf[w.name]; ok {
					addCase(it.src, bi, d, isOrig && di == 0 && rng.Intn(4) == 0)
				}
			}
			prog, compErr := c03SafeCompile(it.src, c03Options(w, d))
			if panicked || (compErr != nil && strings.HasPrefix(compErr.Error(), "panic:")) {
				rep.hist("Compile panicked (C04's business)")
				continue
			}
			if (cerr == nil) != (compErr == nil) {
				fail(Failure{Key: "C03-compile-vs-check", What: "expr.Compile and checker.Check disagree on acceptance", Input: input, Got: fmt.Sprint(compErr, " / ", cerr)})
				continue
			}
			// reference typer on a fresh tree (the checker retypes nodes; the reference must not see that)
			fresh, _ := parser.Parse(it.src)
			viols := c03RefJudge(fresh, w.envT, d)
			if len(viols) > 0 {
				rep.hist("violates a documented rule: " + viols[0].Rule)
				if compErr == nil {
					key := "C03-accepts-ill-typed"
					v := viols[0]
					shapes := c03Shapes(tree.Node, w.envT)
					switch {
					case c03DynCallArgLocs(tree.Node, w.envT)[[2]int{v.Line, v.Col}]:
						key = "C03-unchecked-arguments"
					case v.Rule == "argtype" && v.Lit:
						key = "C03-literal-retype"
					case v.Rule == "argtype-nil":
						key = "C03-nil-argument"
					case v.Rule == "map-key":
						key = "C03-map-key-type"
					case len(shapes) > 0 && (shapes[0] == "C03-pointer-operand" || shapes[0] == "C03-builtin-elem-type"):
						key = shapes[0]
					}
					fail(Failure{Key: key, What: "an expression that violates a documented typing rule (" + v.Rule + ") is accepted by expr.Compile",
						Input: input, Want: "rejected by Compile", Got: fmt.Sprintf("accepted with type %v", t)})
				} else {
					rep.hist("ill-typed and rejected")
				}
			} else if compErr != nil {
				rep.hist("no documented violation found, rejected by Compile")
			}
			if compErr != nil {
				continue
			}
			rep.hist("accepted")
			static := c03FullyStatic(tree.Node, w.envT) && (d == "" || c03Static(t))
			if !static {
				rep.hist("accepted, some operand dynamically typed (not run)")
				continue
			}
			shapes := c03Shapes(tree.Node, w.envT)
			keyOf := func(def string) string {
				if len(shapes) > 0 {
					return shapes[0]
				}
				return def
			}
			for ei, env := range w.envs {
				r := runProgram(prog, env)
				rep.Evaluations++
				in := input
				in.Env = ei
				if r.err != nil {
					cls, _, _ := errInfo(r.err)
					if !c03TypeClasses[cls] {
						rep.hist("run fails for a value reason (" + cls + ")")
						continue
					}
					r2 := runProgram(prog, w.twins[ei])
					cls2, _, _ := errInfo(r2.err)
					if r2.err == nil || !c03TypeClasses[cls2] {
						rep.hist("run fails on a nil pointer (value reason)")
						continue
					}
					fail(Failure{Key: keyOf("C03-type-failure-at-run-time"), What: "a statically typed, accepted program fails for a type reason at run time",
						Input: in, Want: "no failure of a type class", Got: firstLineOf(r.err.Error())})
					continue
				}
				rep.hist("run ok")
				dt := reflect.TypeOf(r.out)
				want := t
				switch d {
				case "bool":
					want = c03Bool
				case "int64":
					want = reflect.TypeOf(int64(0))
				case "float64":
					want = c03Float
				}
				if want != nil && want.Kind() == reflect.Interface {
					continue
				}
				if dt != want {
					r2 := runProgram(prog, w.twins[ei])
					if r2.err == nil && reflect.TypeOf(r2.out) == want && want != nil && dt == nil {
						rep.hist("nil result through a nil pointer (value reason)")
						continue
					}
					fail(Failure{Key: keyOf("C03-result-type"), What: "the dynamic type of the result is not the type the checker reported",
						Input: in, Want: fmt.Sprint(want), Got: fmt.Sprint(dt)})
				}
			}
			// the reported type also describes what the OPTIMIZED program returns (judged for scalar result types only: the typed
			// slice constants the optimizer builds are C02's findings)
			if d == "" && t != nil && isOrig {
				switch t.Kind() {
				case reflect.Bool, reflect.String, reflect.Int, reflect.Int8, reflect.Int16, reflect.Int32, reflect.Int64, reflect.Uint, reflect.Uint8, reflect.Uint16,
					reflect.Uint32, reflect.Uint64, reflect.Float32, reflect.Float64:
					ops := append(append([]expr.Option{}, c03Options(w, d)...), expr.Optimize(true))
					if popt, oerr := c03SafeCompile(it.src, ops); oerr == nil {
						r := runProgram(popt, w.envs[0])
						rep.Evaluations++
						rep.hist("run of the optimized program")
						if r.err == nil && reflect.TypeOf(r.out) != t {
							in := input
							in.Mutation = "optimizer on"
							fail(Failure{Key: keyOf("C03-result-type"), What: "the dynamic type of the OPTIMIZED program's result is not the type the checker reported",
								Input: in, Want: fmt.Sprint(t), Got: fmt.Sprint(reflect.TypeOf(r.out))})
						}
					}
				}
			}
		}
	}

	// ---- accepted programs whose operators are OVERLOADED (expr.Operator): what Compile accepts does not fail for a type
	//      reason at run time either - wherever the overloaded occurrence stands, also as the operand the short conditional
	//      `a ?: b` uses twice
	{
		e := c17BaseEnv()
		ops := []expr.Option{expr.Env(e), expr.Operator("<", "Less"), expr.Operator("==", "EqMM", "EqMD"), expr.Operator("+", "Add", "AddInt")}
		for _, src := range []string{"(A < B) ?: Ok", "(B < A) ?: Ok", "(A == B) ?: No", "(A == D) ?: No", "(A + B == C) ?: Ok", "Ok ?: (A < B)", "(A < B) ? (A < B) : Ok",
			"[(A < B) ?: Ok, (B < A) ?: No]", "map(Ms, {(# < A) ?: Ok})", "{\"k\": (A < B) ?: Ok}", "((A + 1) < B) ?: Ok", "not (A < B) ?: Ok", "(A < B ?: Ok) == true"} {
			rep.Evaluations++
			rep.hist("accepted program with overloaded operators")
			prog, cerr := c03SafeCompile(src, ops)
			if cerr != nil {
				rep.hist("overloaded-operator program rejected")
				continue
			}
			r := runProgram(prog, e)
			if r.err != nil {
				if cls, _, _ := errInfo(r.err); c03TypeClasses[cls] {
					fail(Failure{Key: "C03-type-failure-at-run-time", What: "an accepted program with overloaded operators fails for a type reason at run time",
						Input: c03Input{Src: src, World: "C17Env + Operator(<, Less) Operator(==, EqMM, EqMD) Operator(+, Add, AddInt)"}, Want: "no failure of a type class", Got: firstLineOf(r.err.Error())})
				}
			}
		}
	}

	c03Round7(rep)

	// ---- correspondence over the other configurations
	extra := []string{"a", "a + 1", "b + a", "zz", "zz + 1", "zz?.x", "f(1)", "f(s)", "g(1)", "in.X", "in.Zz", "s + a", "a.b", "len(s)", "I + 1", "I + S", "S + S2", "Zz", "Zz(1)", "Zz.a", "St.Zz",
		"Add(1, 2)", "I + I", "S + S", "I + F64", "I < 2", "St < 2", "1 + 2 + 3", "nil", "[1, 2]", "{a: 1}", "#", "all(AI, {# > 0})", "map(AI, {nil})", "map(AI, {#})", "filter(AA, {true})", "filter(Any, {true})",
		"Fast(1, 2)", "Fast()", "Sum(1, 2, 3)", "Sum()", "Sum(1, S)", "Twice(1)", "PtrM(2)", "Twice(S)", "Id(nil)", "Inc(nil)", "Boom(1)", "Any.foo", "Any.foo()", "Any?.foo", "Any(1)", "MA.k", "MA.k()", "MI.k", "P?.Get()", "P?.Zz()", "St?.Zz",
		"I ? 1 : 2", "B ? 1 : nil", "B ? nil : 1", "B ? nil : nil", "B ? 1 : 2.5", "B ? I : Any", "B ? Any : I", "B ? AI : AS", "AI[0:1]", "AI[S:1]", "AI[0:S]", "S[1:]", "I[1:]", "AI[:B]", "-Any", "not Any", "Any + 1", "1 + Any", "Any + Any",
		"I8 + U8", "U + U8", "I + I8", "F32 + I", "F32 + F64", "I % F64", "I % U8", "2 ** I", "1..I8", "1..F64", "S contains 1", "S matches S2", "S matches 1", `S matches "^a"`, "I in AI", "S in MI", "S in St", "I in St", "S in P", "1 in I", "1 in Any", "nil == 1", "St == P", "AI == AS", "AI == 1", "B == 1"}
	for bi := range bases {
		for _, s := range extra {
			for _, d := range directives {
				if d != "" && rng.Intn(6) != 0 {
					continue
				}
				addCase(s, bi, d, rng.Intn(5) == 0)
			}
		}
	}
	for _, it := range originals {
		if rng.Intn(6) == 0 {
			addCase(it.src, 2+rng.Intn(len(bases)-2), directives[rng.Intn(4)], false)
		}
	}

	rep.Distinct = len(distinct)
	rep.Exhaustive = false
	rep.Rule = "sources = type-directed well-typed expressions (egen, no deliberate faults) over the environment universe, the exhaustive family of leaf/unary/binary/postfix/call/builtin shapes over 9 leaves, hand-written probes over a second environment type (declared integer type, pointer to scalar, map keyed by int, function taking []int), and ALL single-fault token-level mutants of the generated expressions and probes (leaf replaced by each of 12 leaves of other types, each name renamed, last argument dropped / one added, condition / predicate / builtin collection replaced by non-boolean or non-collection leaves); each under {none, AsBool, AsInt64, AsFloat64}; judged by a reference typer written from the documented rules (must be rejected by expr.Compile), accepted programs with statically typed operands run on every environment (base/zero/boundary/random; type-class failures re-run with nil pointers populated); distinct_nontrivial = distinct (environment type, source, directive) whose source is not a single leaf"
	for i := 0; i < 6 && i < len(items); i++ {
		it := items[(i*7919+13)%len(items)]
		rep.Samples = append(rep.Samples, map[string]string{"src": it.src, "env_type": it.w.name, "mutation": it.mut, "family": it.fam})
	}
	var hdr strings.Builder
	hdr.WriteString("From Coq Require Import ZArith List String Floats.\n")
	hdr.WriteString("Require Import X.Base.Num X.Base.Value X.Syn.Ast X.Ty.Types X.Ty.TypesTable X.Ty.Checker X.Corr.CorrC03.\n")
	hdr.WriteString("Import ListNotations.\nOpen Scope string_scope.\nOpen Scope Z_scope.\nNotation EMap := Ast.EMap (only parsing).\n\n")
	// the tables are serialised first (they fill the struct declarations), te is printed before them
	fmt.Fprintf(&hdr, "Definition te : tenv := %s.\n", ser.tenv())
	hdr.WriteString("Definition bases : list cconfig := [\n  " + strings.Join(baseTerms, ";\n  ") + "\n].\n")
	rep.writeShards("cases_c03", hdr.String(), "c03case", "c03_mismatches bases", cases)
	rep.write()
}

// two environment types with a nested struct type of the SAME printed name and different member types
type C03KInt int32

type C03K struct {
	GI8  func(int8) int8
	GU16 func(uint16) uint16
	GI64 func(int64) int64
	GF32 func(float32) float32
	GS   func(string) string
	GM   func(C03KInt) C03KInt
}

func c03KindEnv() *C03K {
	return &C03K{GI8: func(x int8) int8 { return x }, GU16: func(x uint16) uint16 { return x }, GI64: func(x int64) int64 { return x },
		GF32: func(x float32) float32 { return x }, GS: func(x string) string { return x }, GM: func(x C03KInt) C03KInt { return x }}
}

func c03LocalA() interface{} {
	type Reading struct {
		Value int
		Unit  string
	}
	type EnvL struct {
		Last Reading
		N    int
	}
	return EnvL{Last: Reading{Value: 7, Unit: "c"}, N: 1}
}

func c03LocalB() interface{} {
	type Reading struct {
		Value string
		Unit  int
	}
	type EnvL struct {
		Last Reading
		N    int
	}
	return EnvL{Last: Reading{Value: "seven", Unit: 3}, N: 1}
}

package main

// C17 — operator overloading is equivalent to calling the function.
//
//   oracle (implementation level): every generated expression is printed twice, in OPERATOR form and
//   in EXPLICIT-CALL form (each binary node whose operand types match a candidate of the operator
//   table - reference resolution written from the property text over the generator's own static
//   typing - printed as `Fn(l, r)`).  The operator form is compiled WITH expr.Operator(...), the
//   explicit form WITHOUT any operator mapping (so unmatched occurrences must behave as without
//   the option).  Both must compile alike, return equal results / equal error classes and produce
//   equal logs of environment-function calls, on several environment values.
//   expr.Compile with a mapping that names a missing / non-function / wrong-arity / ambiguous
//   member must return an error.
//   correspondence (coq/Corr/CorrC17.v): operators table + conf.TypesTable + node.Type() of every
//   node (side table keyed by a unique location given to every node) + tree before and after the
//   REAL compiler.PatchOperators + Config.Check verdicts.

import (
	"encoding/json"
	"fmt"
	"math/rand"
	"reflect"
	"sort"
	"strings"

	"github.com/antonmedv/expr"
	"github.com/antonmedv/expr/ast"
	"github.com/antonmedv/expr/checker"
	"github.com/antonmedv/expr/compiler"
	"github.com/antonmedv/expr/conf"
	"github.com/antonmedv/expr/file"
	"github.com/antonmedv/expr/parser"
	"github.com/antonmedv/expr/vm"
)

func init() { commands["c17"] = runC17 }

var (
	c17TMoney    = reflect.TypeOf(Money{})
	c17TDur      = reflect.TypeOf(Dur(0))
	c17TLabel    = reflect.TypeOf(C17Label(""))
	c17TInt      = reflect.TypeOf(0)
	c17TStr      = reflect.TypeOf("")
	c17TBool     = reflect.TypeOf(true)
	c17TMs       = reflect.TypeOf([]Money{})
	c17TXs       = reflect.TypeOf([]int{})
	c17TDs       = reflect.TypeOf([]Dur{})
	c17TAny      = reflect.TypeOf(new(interface{})).Elem()
	c17TStringer = reflect.TypeOf(new(fmt.Stringer)).Elem()
	c17TArr      = reflect.TypeOf([]interface{}{})
	c17TMap      = reflect.TypeOf(map[string]interface{}{})
)

// ---------------------------------------------------------------- operator tables
type c17Table struct {
	Name string
	Ops  [][]string // {operator, fn, fn, ...} in expr.Operator order
	Envs []string   // environment shapes in which every named function exists
}

func (t *c17Table) options() []expr.Option {
	var os []expr.Option
	for _, o := range t.Ops {
		os = append(os, expr.Operator(o[0], o[1:]...))
	}
	return os
}

func (t *c17Table) fns(op string) ([]string, bool) {
	var out []string
	found := false
	for _, o := range t.Ops {
		if o[0] == op {
			out = append(out, o[1:]...) // expr.Operator appends
			found = true
		}
	}
	return out, found
}

func (t *c17Table) asMap() map[string][]string {
	m := map[string][]string{}
	for _, o := range t.Ops {
		m[o[0]] = append(m[o[0]], o[1:]...)
	}
	return m
}

var c17All = []string{"struct", "ptr", "map"}
var c17Structs = []string{"struct", "ptr"}

var c17Tables = []*c17Table{
	{"single", [][]string{{"+", "Add"}}, c17All},
	{"several-distinct", [][]string{{"+", "Add", "AddInt", "IntAdd", "Concat", "Join", "AddDur"}}, c17All},
	{"arith", [][]string{{"+", "AddInt", "Add"}, {"-", "Sub"}, {"*", "Mul"}}, c17All},
	{"eq-concrete-first", [][]string{{"==", "EqMD", "Eq"}, {"!=", "Ne"}, {"+", "Add"}}, c17All},
	{"eq-iface-first", [][]string{{"==", "Eq", "EqMD"}, {"+", "Add", "AddInt"}}, c17All},
	{"less", [][]string{{"==", "EqMM", "Eq"}, {"<", "Less", "LessS"}, {"+", "Add"}}, c17All},
	{"methods", [][]string{{"+", "MAdd"}, {"==", "MEq"}}, c17Structs},
	{"method-and-field", [][]string{{"+", "AddInt", "MAdd"}, {"==", "EqMD", "MEq"}}, c17Structs},
	{"method-first", [][]string{{"+", "MAdd", "AddInt", "Concat"}, {"==", "MEq", "EqMD"}, {"-", "Sub"}}, c17Structs}, // a method candidate BEFORE field candidates: the receiver offset is per candidate
	{"ptr-method", [][]string{{"-", "PSub"}, {"+", "Add"}}, []string{"ptr"}},
	{"any", [][]string{{"+", "Add", "AddAny"}}, c17All},
	{"builtin-types", [][]string{{"+", "StrCat", "IntPlus", "Add"}}, c17All},
	{"mixed-iface", [][]string{{"+", "Add", "AddSM"}, {"==", "Eq"}}, c17All},
	{"other-operators", [][]string{{"in", "Has"}, {"**", "Boom"}, {"+", "Add"}}, c17All},
	{"appended", [][]string{{"+", "Add"}, {"+", "AddInt"}, {"==", "Eq"}}, c17All}, // expr.Operator twice for one operator appends
}

// ---------------------------------------------------------------- signatures (reference side)
type c17Sig struct {
	params []reflect.Type // declared parameters: without the receiver for a method of the environment
	outs   []reflect.Type
}

func c17Sigs(envKind string) map[string]*c17Sig {
	sigs := map[string]*c17Sig{}
	st := reflect.TypeOf(C17Env{})
	for i := 0; i < st.NumField(); i++ {
		f := st.Field(i)
		if f.Type.Kind() != reflect.Func {
			continue
		}
		s := &c17Sig{}
		for j := 0; j < f.Type.NumIn(); j++ {
			s.params = append(s.params, f.Type.In(j))
		}
		for j := 0; j < f.Type.NumOut(); j++ {
			s.outs = append(s.outs, f.Type.Out(j))
		}
		sigs[f.Name] = s
	}
	if envKind == "map" {
		return sigs
	}
	mt := st
	if envKind == "ptr" {
		mt = reflect.PtrTo(st)
	}
	for i := 0; i < mt.NumMethod(); i++ {
		m := mt.Method(i)
		s := &c17Sig{}
		for j := 1; j < m.Type.NumIn(); j++ {
			s.params = append(s.params, m.Type.In(j))
		}
		for j := 0; j < m.Type.NumOut(); j++ {
			s.outs = append(s.outs, m.Type.Out(j))
		}
		sigs[m.Name] = s
	}
	return sigs
}

func c17Fits(a, p reflect.Type) bool {
	if a == p {
		return true
	}
	return p.Kind() == reflect.Interface && (a == nil || a.Implements(p))
}

// REFERENCE resolution: first candidate in table order whose two declared parameters match
func c17Resolve(sigs map[string]*c17Sig, fns []string, l, r reflect.Type) (string, reflect.Type) {
	for _, fn := range fns {
		s := sigs[fn]
		if s == nil || len(s.params) != 2 || len(s.outs) != 1 {
			continue
		}
		if c17Fits(l, s.params[0]) && c17Fits(r, s.params[1]) {
			return fn, s.outs[0]
		}
	}
	return "", nil
}

// ---------------------------------------------------------------- expressions with the generator's static typing
type c17Node struct {
	K    string // id int str bool nil ptr bin un call meth idx slice prop builtin cond arr map
	S    string
	Kids []*c17Node
	T    reflect.Type
	Fn   string // bin: the reference resolution ("" = built-in)
}

type c17Ctx struct {
	tb   *c17Table
	kind string
	sigs map[string]*c17Sig
}

func c17Builtin(op string, l, r reflect.Type) (reflect.Type, bool) {
	if l == nil || r == nil {
		if op == "==" || op == "!=" {
			return c17TBool, true
		}
		return nil, false
	}
	switch op {
	case "+":
		if l == c17TInt && r == c17TInt {
			return c17TInt, true
		}
		if l == c17TStr && r == c17TStr {
			return c17TStr, true
		}
	case "-", "*":
		if l == c17TInt && r == c17TInt {
			return c17TInt, true
		}
	case "==", "!=":
		if l == r && (l == c17TInt || l == c17TStr || l == c17TBool || l == c17TMoney) {
			return c17TBool, true
		}
	case "<":
		if l == r && (l == c17TInt || l == c17TStr) {
			return c17TBool, true
		}
	case "and", "or":
		if l == c17TBool && r == c17TBool {
			return c17TBool, true
		}
	case "in":
		if r == c17TMs && l == c17TMoney || r == c17TXs && l == c17TInt {
			return c17TBool, true
		}
	}
	return nil, false
}

// result of `l op r` under the table: the overload's result type when a candidate matches, else the built-in rule
func (c *c17Ctx) result(op string, l, r reflect.Type) (t reflect.Type, fn string, ok bool) {
	if fns, has := c.tb.fns(op); has {
		if fn, out := c17Resolve(c.sigs, fns, l, r); fn != "" {
			return out, fn, true
		}
	}
	t, ok = c17Builtin(op, l, r)
	return t, "", ok
}

func (c *c17Ctx) bin(op string, l, r *c17Node) *c17Node {
	if l == nil || r == nil {
		return nil
	}
	t, fn, ok := c.result(op, l.T, r.T)
	if !ok {
		return nil
	}
	return &c17Node{K: "bin", S: op, Kids: []*c17Node{l, r}, T: t, Fn: fn}
}

// an ill-typed occurrence (no candidate, no built-in rule): both forms must be rejected
func c17IllBin(op string, l, r *c17Node) *c17Node {
	return &c17Node{K: "bin", S: op, Kids: []*c17Node{l, r}, T: c17TAny}
}

var c17IdentTypes = map[string]reflect.Type{
	"A": c17TMoney, "B": c17TMoney, "C": c17TMoney, "D": c17TDur, "E": c17TDur, "L": c17TLabel, "I": c17TInt, "J": c17TInt,
	"S": c17TStr, "T": c17TStr, "Ok": c17TBool, "No": c17TBool, "Ms": c17TMs, "Ns": c17TMs, "Ds": c17TDs, "Xs": c17TXs, "Ys": c17TXs,
	"St": c17TStringer,
}

// in a map environment a member's static type is the dynamic type of the sample's value
var c17MapEnv = false

func c17Id(n string) *c17Node {
	t := c17IdentTypes[n]
	if c17MapEnv && n == "St" {
		t = c17TDur
	}
	return &c17Node{K: "id", S: n, T: t}
}
func c17Int(v int) *c17Node { return &c17Node{K: "int", S: fmt.Sprint(v), T: c17TInt} }
func c17Str(s string) *c17Node {
	return &c17Node{K: "str", S: s, T: c17TStr}
}
func c17Ptr(t reflect.Type) *c17Node { return &c17Node{K: "ptr", T: t} }
func c17Nil() *c17Node               { return &c17Node{K: "nil"} }

func (c *c17Ctx) call(fn string, args ...*c17Node) *c17Node {
	s := c.sigs[fn]
	if s == nil || len(s.outs) != 1 || len(s.params) != len(args) {
		return nil
	}
	for _, a := range args {
		if a == nil {
			return nil
		}
	}
	return &c17Node{K: "call", S: fn, Kids: args, T: s.outs[0]}
}

func c17Idx(x, i *c17Node) *c17Node {
	if x == nil || i == nil || x.T == nil || x.T.Kind() != reflect.Slice {
		return nil
	}
	return &c17Node{K: "idx", Kids: []*c17Node{x, i}, T: x.T.Elem()}
}

func c17Slice(x, a, b *c17Node) *c17Node {
	if x == nil || a == nil || b == nil || x.T == nil || x.T.Kind() != reflect.Slice {
		return nil
	}
	return &c17Node{K: "slice", Kids: []*c17Node{x, a, b}, T: x.T}
}

func c17Cond(cnd, x, y *c17Node) *c17Node {
	if cnd == nil || x == nil || y == nil {
		return nil
	}
	return &c17Node{K: "cond", Kids: []*c17Node{cnd, x, y}, T: x.T}
}

func c17BuiltinCall(name string, coll, body *c17Node) *c17Node {
	if coll == nil || body == nil || coll.T == nil || coll.T.Kind() != reflect.Slice || coll.T == c17TArr {
		return nil
	}
	t := c17TBool
	switch name {
	case "map":
		t = c17TArr // statically []T; never composed further by the generator
	case "filter":
		t = c17TArr
	case "count":
		t = c17TInt
	}
	return &c17Node{K: "builtin", S: name, Kids: []*c17Node{coll, body}, T: t}
}

func c17Arr(es ...*c17Node) *c17Node {
	for _, e := range es {
		if e == nil {
			return nil
		}
	}
	return &c17Node{K: "arr", Kids: es, T: c17TArr}
}

// map literal: kids alternate key, value; a key that is not a string literal is printed in parentheses
func c17MapLit(kvs ...*c17Node) *c17Node {
	for _, e := range kvs {
		if e == nil {
			return nil
		}
	}
	return &c17Node{K: "map", Kids: kvs, T: c17TMap}
}

func c17Meth(x *c17Node, name string, out reflect.Type, args ...*c17Node) *c17Node {
	if x == nil {
		return nil
	}
	for _, a := range args {
		if a == nil {
			return nil
		}
	}
	return &c17Node{K: "meth", S: name, Kids: append([]*c17Node{x}, args...), T: out}
}

func (n *c17Node) src(explicit bool) string {
	k := func(i int) string { return n.Kids[i].src(explicit) }
	switch n.K {
	case "id":
		if c17Placeholder && n.S == "C" {
			return "Y" // visitor mode: the member C is written as the unknown name Y, which a visitor renames to C
		}
		return n.S
	case "int":
		return n.S
	case "str":
		return `"` + n.S + `"`
	case "bool":
		return n.S
	case "nil":
		return "nil"
	case "ptr":
		return "#"
	case "bin":
		if explicit && n.Fn != "" {
			return n.Fn + "(" + k(0) + ", " + k(1) + ")"
		}
		return "(" + k(0) + " " + n.S + " " + k(1) + ")"
	case "un":
		return "(" + n.S + " " + k(0) + ")"
	case "call":
		as := make([]string, len(n.Kids))
		for i := range n.Kids {
			as[i] = k(i)
		}
		return n.S + "(" + strings.Join(as, ", ") + ")"
	case "meth":
		as := make([]string, len(n.Kids)-1)
		for i := range as {
			as[i] = k(i + 1)
		}
		return k(0) + "." + n.S + "(" + strings.Join(as, ", ") + ")"
	case "prop":
		return k(0) + "." + n.S
	case "idx":
		return k(0) + "[" + k(1) + "]"
	case "slice":
		return k(0) + "[" + k(1) + ":" + k(2) + "]"
	case "builtin":
		if n.S == "len" {
			return "len(" + k(0) + ")"
		}
		return n.S + "(" + k(0) + ", {" + k(1) + "})"
	case "cond":
		return "(" + k(0) + " ? " + k(1) + " : " + k(2) + ")"
	case "arr":
		as := make([]string, len(n.Kids))
		for i := range n.Kids {
			as[i] = k(i)
		}
		return "[" + strings.Join(as, ", ") + "]"
	case "map":
		var ps []string
		for i := 0; i+1 < len(n.Kids); i += 2 {
			key := k(i)
			if n.Kids[i].K != "str" {
				key = "(" + key + ")"
			}
			ps = append(ps, key+": "+k(i+1))
		}
		return "{" + strings.Join(ps, ", ") + "}"
	}
	return "?"
}

// positions of the overloaded occurrences, for the histogram
func (n *c17Node) positions(where string, depth int, visit func(pos string, n *c17Node, depth int)) {
	if n.K == "bin" {
		visit(where, n, depth)
	}
	for i, kid := range n.Kids {
		w := where
		switch n.K {
		case "bin":
			w = "operand of a binary node"
		case "call":
			w = "function argument"
		case "meth":
			if i == 0 {
				w = "method receiver"
			} else {
				w = "method argument"
			}
		case "idx":
			if i == 0 {
				w = "indexed operand"
			} else {
				w = "index"
			}
		case "slice":
			if i == 0 {
				w = "sliced operand"
			} else {
				w = "slice bound"
			}
		case "builtin":
			if i == 0 {
				w = "builtin collection argument"
			} else {
				w = "closure body"
			}
		case "cond":
			w = []string{"condition", "then branch", "else branch"}[i]
		case "arr":
			w = "array element"
		case "map":
			if i%2 == 0 {
				w = "parenthesised map key"
			} else {
				w = "map value"
			}
		case "un":
			w = "unary operand"
		case "prop":
			w = "property base"
		}
		kid.positions(w, depth+1, visit)
	}
}

// visitor mode (expr.Patch): the sources name the member C by the placeholder Y and a user visitor
// renames Y to C between the two type checks
var c17Placeholder = false

type c17Rename struct{}

func (c17Rename) Enter(*ast.Node) {}
func (c17Rename) Exit(node *ast.Node) {
	if id, ok := (*node).(*ast.IdentifierNode); ok && id.Value == "Y" {
		ast.Patch(node, &ast.IdentifierNode{Value: "C"})
	}
}

func (n *c17Node) mentions(name string) bool {
	if n.K == "id" && n.S == name {
		return true
	}
	for _, k := range n.Kids {
		if k.mentions(name) {
			return true
		}
	}
	return false
}

// finding C17-visitor-after-operators, in harness terms: an overloaded occurrence has a node the
// visitor replaces inside one of its operands (only then can the first check and PatchOperators
// have seen other operand types than the second check)
func (n *c17Node) visitorRisk() bool {
	if n.K == "bin" && n.Fn != "" && n.mentions("C") {
		return true
	}
	// a method call whose RECEIVER mentions the placeholder: the first check types the receiver interface{}
	// (the placeholder is an unknown name) and then does not visit the arguments at all (finding
	// C03-unchecked-arguments), so PatchOperators resolves every overloaded occurrence inside the arguments on
	// nodes without a type; the second check, after the visitor, types them properly - too late
	if n.K == "meth" && len(n.Kids) > 0 && n.Kids[0].mentions("C") {
		for _, a := range n.Kids[1:] {
			if a.hasOverloaded() {
				return true
			}
		}
	}
	for _, k := range n.Kids {
		if k.visitorRisk() {
			return true
		}
	}
	return false
}

func (n *c17Node) hasOverloaded() bool {
	if n.K == "bin" && n.Fn != "" {
		return true
	}
	for _, k := range n.Kids {
		if k.hasOverloaded() {
			return true
		}
	}
	return false
}

// ---- the retyping defect (finding C17-arg-retype), in harness terms: checkFunc gives the integer
// literals reachable in an integer/arithmetic ARGUMENT the parameter's type after the argument was
// checked; the input is affected when that changes the resolution of a binary node of the chain
func c17IsArith(n *c17Node) bool {
	switch n.K {
	case "int":
		return true
	case "un":
		return n.S == "-" || n.S == "+"
	case "bin":
		return n.S == "+" || n.S == "-" || n.S == "*" || n.S == "/"
	}
	return false
}

func (c *c17Ctx) retypeChanges(n *c17Node, p reflect.Type) bool {
	switch n.K {
	case "un":
		if n.S == "-" || n.S == "+" {
			return c.retypeChanges(n.Kids[0], p)
		}
	case "bin":
		if n.S == "+" || n.S == "-" || n.S == "*" || n.S == "/" {
			lt, rt := n.Kids[0].T, n.Kids[1].T
			if n.Kids[0].K == "int" {
				lt = p
			}
			if n.Kids[1].K == "int" {
				rt = p
			}
			t, fn, ok := c.result(n.S, lt, rt)
			if !ok || fn != n.Fn || t != n.T {
				return true
			}
			return c.retypeChanges(n.Kids[0], p) || c.retypeChanges(n.Kids[1], p)
		}
	}
	return false
}

func (c *c17Ctx) paramTypes(n *c17Node) []reflect.Type {
	switch n.K {
	case "call":
		if s := c.sigs[n.S]; s != nil {
			return s.params
		}
	case "meth":
		if n.S == "Plus" {
			return []reflect.Type{c17TMoney}
		}
	}
	return nil
}

func (c *c17Ctx) retypeRisk(n *c17Node) bool {
	ps := c.paramTypes(n)
	args := n.Kids
	if n.K == "meth" {
		args = n.Kids[1:]
	}
	for i, p := range ps {
		if i < len(args) && c17IsArith(args[i]) && c.retypeChanges(args[i], p) {
			return true
		}
	}
	for _, k := range n.Kids {
		if c.retypeRisk(k) {
			return true
		}
	}
	return false
}

// ---------------------------------------------------------------- generator
type c17Gen struct {
	rng   *rand.Rand
	c     *c17Ctx
	scope []reflect.Type // element types of the enclosing builtin collections
	rules map[reflect.Type][][3]interface{}
}

var c17OperandTypes = []reflect.Type{c17TMoney, c17TDur, c17TInt, c17TStr, c17TBool, c17TMs, c17TXs, c17TStringer}
var c17OpsAll = []string{"+", "-", "*", "==", "!=", "<", "in", "and", "or", "**"}

func newC17Gen(rng *rand.Rand, c *c17Ctx) *c17Gen {
	g := &c17Gen{rng: rng, c: c, rules: map[reflect.Type][][3]interface{}{}}
	for _, op := range c17OpsAll {
		for _, l := range c17OperandTypes {
			for _, r := range c17OperandTypes {
				if t, fn, ok := c.result(op, l, r); ok {
					w := 1
					if fn != "" {
						w = 4 // prefer overloaded occurrences
					}
					for i := 0; i < w; i++ {
						g.rules[t] = append(g.rules[t], [3]interface{}{op, l, r})
					}
				}
			}
		}
	}
	return g
}

func (g *c17Gen) pick(xs ...string) string { return xs[g.rng.Intn(len(xs))] }

func (g *c17Gen) leaf(t reflect.Type) *c17Node {
	if len(g.scope) > 0 && g.scope[len(g.scope)-1] == t && g.rng.Intn(2) == 0 {
		return c17Ptr(t)
	}
	switch t {
	case c17TMoney:
		switch g.rng.Intn(6) {
		case 0:
			return c17Idx(c17Id(g.pick("Ms", "Ns")), c17Int(g.rng.Intn(2)))
		default:
			return c17Id(g.pick("A", "B", "C"))
		}
	case c17TDur:
		return c17Id(g.pick("D", "E"))
	case c17TInt:
		if g.rng.Intn(2) == 0 {
			return c17Int(g.rng.Intn(4))
		}
		return c17Id(g.pick("I", "J"))
	case c17TStr:
		if g.rng.Intn(3) == 0 {
			return c17Str(g.pick("x", "ab", ""))
		}
		return c17Id(g.pick("S", "T"))
	case c17TBool:
		return c17Id(g.pick("Ok", "No"))
	case c17TMs:
		return c17Id(g.pick("Ms", "Ns"))
	case c17TXs:
		return c17Id(g.pick("Xs", "Ys"))
	case c17TStringer:
		return c17Id("St")
	case c17TAny:
		return g.leaf(c17OperandTypes[g.rng.Intn(5)])
	}
	return nil
}

// an argument for a parameter of type p: arithmetic with a directly retyped literal only rarely
func (g *c17Gen) arg(t, p reflect.Type, d int) *c17Node {
	var n *c17Node
	for try := 0; try < 6; try++ {
		n = g.gen(t, d)
		if n == nil || !c17IsArith(n) || !g.c.retypeChanges(n, p) || g.rng.Intn(12) == 0 {
			return n
		}
	}
	return g.leaf(t)
}

func (g *c17Gen) viaRule(t reflect.Type, d int) *c17Node {
	rs := g.rules[t]
	if len(rs) == 0 {
		return nil
	}
	r := rs[g.rng.Intn(len(rs))]
	return g.c.bin(r[0].(string), g.gen(r[1].(reflect.Type), d-1), g.gen(r[2].(reflect.Type), d-1))
}

func (g *c17Gen) closure(name string, coll *c17Node, body func() *c17Node) *c17Node {
	if coll == nil || coll.T == nil || coll.T.Kind() != reflect.Slice {
		return nil
	}
	g.scope = append(g.scope, coll.T.Elem())
	b := body()
	g.scope = g.scope[:len(g.scope)-1]
	return c17BuiltinCall(name, coll, b)
}

func (g *c17Gen) gen(t reflect.Type, d int) *c17Node {
	if d <= 0 {
		return g.leaf(t)
	}
	var n *c17Node
	for try := 0; try < 4 && n == nil; try++ {
		switch g.rng.Intn(10) {
		case 0:
			n = g.leaf(t)
		case 1, 2, 3, 4:
			n = g.viaRule(t, d)
		case 5:
			n = c17Cond(g.gen(c17TBool, d-1), g.gen(t, d-1), g.gen(t, d-1))
		default:
			n = g.special(t, d)
		}
	}
	if n == nil {
		return g.leaf(t)
	}
	return n
}

func (g *c17Gen) special(t reflect.Type, d int) *c17Node {
	switch t {
	case c17TMoney:
		switch g.rng.Intn(6) {
		case 0:
			return g.c.call("Id", g.arg(c17TMoney, c17TMoney, d-1))
		case 1:
			return g.c.call("Mk", g.gen(c17TInt, d-1))
		case 2:
			return g.c.call("First", g.gen(c17TMs, d-1))
		case 3:
			return c17Idx(g.gen(c17TMs, d-1), c17Int(g.rng.Intn(2)))
		case 4:
			return c17Meth(g.gen(c17TMoney, d-1), "Plus", c17TMoney, g.arg(c17TMoney, c17TMoney, d-1))
		default:
			return c17Idx(g.c.call("Two", g.arg(c17TMoney, c17TMoney, d-1), g.arg(c17TMoney, c17TMoney, d-1)), c17Int(g.rng.Intn(2)))
		}
	case c17TInt:
		switch g.rng.Intn(4) {
		case 0:
			return g.c.call("Val", g.arg(c17TMoney, c17TMoney, d-1))
		case 1:
			x := g.gen([]reflect.Type{c17TMs, c17TXs, c17TStr}[g.rng.Intn(3)], d-1)
			if x == nil {
				return nil
			}
			return &c17Node{K: "builtin", S: "len", Kids: []*c17Node{x}, T: c17TInt}
		case 2:
			return g.closure("count", g.gen(c17TMs, d-1), func() *c17Node { return g.gen(c17TBool, d-1) })
		default:
			x := g.gen(c17TMoney, d-1)
			if x == nil {
				return nil
			}
			return &c17Node{K: "prop", S: "V", Kids: []*c17Node{x}, T: c17TInt}
		}
	case c17TBool:
		switch g.rng.Intn(3) {
		case 0:
			coll := g.gen([]reflect.Type{c17TMs, c17TXs}[g.rng.Intn(2)], d-1)
			return g.closure(g.pick("all", "any", "none", "one"), coll, func() *c17Node { return g.gen(c17TBool, d-1) })
		case 1:
			x := g.gen(c17TBool, d-1)
			if x == nil {
				return nil
			}
			return &c17Node{K: "un", S: "not", Kids: []*c17Node{x}, T: c17TBool}
		default:
			return g.viaRule(c17TBool, d)
		}
	case c17TStr:
		if g.rng.Intn(2) == 0 {
			return g.c.call("Show", g.gen([]reflect.Type{c17TMoney, c17TDur}[g.rng.Intn(2)], d-1))
		}
		return g.viaRule(c17TStr, d)
	case c17TMs:
		switch g.rng.Intn(3) {
		case 0:
			return g.c.call("Two", g.arg(c17TMoney, c17TMoney, d-1), g.arg(c17TMoney, c17TMoney, d-1))
		case 1:
			return c17Slice(g.gen(c17TMs, d-1), c17Int(g.rng.Intn(2)), g.gen(c17TInt, d-1))
		default:
			return g.viaRule(c17TMs, d)
		}
	case c17TXs:
		if g.rng.Intn(2) == 0 {
			return c17Slice(g.gen(c17TXs, d-1), c17Int(g.rng.Intn(2)), g.gen(c17TInt, d-1))
		}
		return g.viaRule(c17TXs, d)
	case c17TAny:
		switch g.rng.Intn(5) {
		case 0:
			return c17Arr(g.gen(g.anyType(), d-1), g.gen(g.anyType(), d-1))
		case 1:
			return c17MapLit(c17Str("k"), g.gen(g.anyType(), d-1), g.gen(c17TStr, d-1), g.gen(g.anyType(), d-1))
		case 2:
			et := g.anyType()
			return g.closure("map", g.gen([]reflect.Type{c17TMs, c17TXs}[g.rng.Intn(2)], d-1), func() *c17Node { return g.gen(et, d-1) })
		case 3:
			return g.closure("filter", g.gen(c17TMs, d-1), func() *c17Node { return g.gen(c17TBool, d-1) })
		default:
			return g.gen(g.anyType(), d)
		}
	}
	return nil
}

func (g *c17Gen) anyType() reflect.Type {
	return []reflect.Type{c17TMoney, c17TMoney, c17TInt, c17TBool, c17TStr, c17TMs, c17TXs, c17TDur}[g.rng.Intn(8)]
}

// the positions the property names, written out (those the table does not type are dropped)
func (c *c17Ctx) corpus() []*c17Node {
	A, B, C, I := c17Id("A"), c17Id("B"), c17Id("C"), c17Id("I")
	D, S, T, St := c17Id("D"), c17Id("S"), c17Id("T"), c17Id("St")
	Ms, Ns, Xs, Ys, Ok := c17Id("Ms"), c17Id("Ns"), c17Id("Xs"), c17Id("Ys"), c17Id("Ok")
	plus := func(l, r *c17Node) *c17Node { return c.bin("+", l, r) }
	eq := func(l, r *c17Node) *c17Node { return c.bin("==", l, r) }
	// builtin with closure: `#` has the element type of the collection as the table types it
	over := func(name string, coll *c17Node, body func(p *c17Node) *c17Node) *c17Node {
		if coll == nil || coll.T == nil || coll.T.Kind() != reflect.Slice {
			return nil
		}
		return c17BuiltinCall(name, coll, body(c17Ptr(coll.T.Elem())))
	}
	ill := func(op string, l, r *c17Node) *c17Node {
		if _, _, ok := c.result(op, l.T, r.T); ok {
			return nil
		}
		return c17IllBin(op, l, r)
	}
	list := []*c17Node{
		plus(A, B),
		plus(plus(A, B), C),
		plus(A, plus(B, C)),
		plus(plus(A, c17Int(1)), B),
		plus(c17Int(2), A),
		c17Slice(plus(Xs, Ys), c17Int(0), c17Int(1)),
		c17Slice(plus(Ms, Ns), c17Int(1), c17Int(3)),
		c17Idx(plus(Ms, Ns), c17Int(0)),
		c17Slice(c.call("Two", plus(A, B), C), c17Int(0), c17Int(1)),
		c17Idx(c.call("Two", plus(A, B), plus(B, C)), c17Int(1)),
		c17Idx(plus(Xs, Ys), plus(I, c17Int(1))),
		c17Idx(Ms, plus(I, c17Int(-2))),
		over("map", Ms, func(p *c17Node) *c17Node { return plus(p, A) }),
		over("map", Ms, func(p *c17Node) *c17Node { return plus(plus(p, p), c17Int(1)) }),
		over("filter", Ms, func(p *c17Node) *c17Node { return eq(p, D) }),
		over("all", Ms, func(p *c17Node) *c17Node { return c.bin("<", p, plus(A, C)) }),
		over("count", plus(Ms, Ns), func(p *c17Node) *c17Node { return eq(plus(p, A), B) }),
		over("map", plus(Xs, Ys), func(p *c17Node) *c17Node { return plus(p, I) }),
		c.call("Id", plus(A, B)),
		c.call("Id", plus(A, c17Int(1))), // finding C17-arg-retype when Add and AddInt are both candidates
		c.call("Val", plus(plus(A, B), C)),
		c.call("Two", plus(A, B), c.bin("-", A, B)),
		c17Meth(A, "Plus", c17TMoney, plus(B, C)),
		c17Meth(plus(A, B), "Plus", c17TMoney, C),
		c17MapLit(c17Str("k"), plus(A, B), plus(S, T), plus(A, c17Int(1))),
		c17MapLit(plus(S, c17Str("x")), eq(A, D)),
		c17Cond(Ok, plus(A, B), plus(A, C)),
		c17Cond(eq(A, D), plus(A, B), c.bin("-", A, B)),
		c17Arr(plus(A, B), plus(I, c17Int(1)), plus(S, T), eq(A, B), eq(I, c17Int(3))),
		eq(A, D), eq(D, A), eq(A, B), eq(St, A), eq(A, St), c.bin("!=", A, D),
		eq(c17Nil(), A), eq(A, c17Nil()),
		c.bin("<", A, B), c.bin("<", D, A), c.bin("<", I, c17Int(2)),
		c.bin("in", A, Ms), c.bin("in", plus(A, B), plus(Ms, Ns)), c.bin("in", I, Xs),
		c.bin("**", A, B), plus(c.bin("**", A, B), C),
		plus(I, c17Int(1)), plus(S, T), c.bin("*", plus(A, B), c17Int(2)), c.bin("-", c.bin("*", A, I), B),
		plus(D, A), plus(D, D),
		&c17Node{K: "prop", S: "V", Kids: []*c17Node{plus(A, B)}, T: c17TInt},
		// ill-typed occurrences: no candidate and no built-in rule
		ill("+", A, c17Id("L")), ill("+", c17Id("L"), A), ill("-", Ms, A), ill("+", A, D),
	}
	var out []*c17Node
	for _, n := range list {
		if n != nil && !c17HasNil(n) {
			out = append(out, n)
		}
	}
	return out
}

func c17HasNil(n *c17Node) bool {
	for _, k := range n.Kids {
		if k == nil || c17HasNil(k) {
			return true
		}
	}
	return false
}

// ---------------------------------------------------------------- running the implementation
type c17Run struct {
	out interface{}
	cls string
	log []callEvent
}

func c17CompileSafe(src string, ops []expr.Option) (p *vm.Program, err error, panicked bool) {
	defer func() {
		if r := recover(); r != nil {
			p, err, panicked = nil, fmt.Errorf("panic: %v", r), true
		}
	}()
	p, err = expr.Compile(src, ops...)
	return
}

func c17RunSafe(p *vm.Program, env interface{}) (r c17Run) {
	defer func() {
		if x := recover(); x != nil {
			r = c17Run{nil, "PANIC " + fmt.Sprint(x), callLog}
		}
	}()
	callLog = nil
	out, err := vm.Run(p, env)
	cls := ""
	if err != nil {
		cls, _, _ = errInfo(err)
	}
	return c17Run{out, cls, callLog}
}

func c17LogString(log []callEvent) string {
	var b strings.Builder
	for _, c := range log {
		fmt.Fprintf(&b, "%s%v;", c.Name, c.Args)
	}
	return b.String()
}

func c17Show(r c17Run) string {
	if r.cls != "" {
		return fmt.Sprintf("error class %s, calls %s", r.cls, c17LogString(r.log))
	}
	return fmt.Sprintf("%#v, calls %s", r.out, c17LogString(r.log))
}

type c17Input struct {
	Table    string              `json:"table"`
	Ops      map[string][]string `json:"operators"`
	OpsOrder [][]string          `json:"operator_options"`
	Env      string              `json:"env"`
	Expr     string              `json:"expr"`
	Explicit string              `json:"explicit_form"`
	EnvIdx   int                 `json:"env_value"`
	Risk     bool                `json:"retype_risk"`
	Visitor  bool                `json:"visitor_renames_Y_to_C,omitempty"`
	VisRisk  bool                `json:"visitor_risk,omitempty"`
}

// the oracle on one input; returns whether it was judged (both forms compiled)
func c17Judge(rep *Report, in c17Input, envs []*C17Env) bool {
	sample := c17EnvAs(c17BaseEnv(), in.Env)
	var opOpts []expr.Option
	for _, o := range in.OpsOrder {
		opOpts = append(opOpts, expr.Operator(o[0], o[1:]...))
	}
	rp, _ := json.Marshal(in)
	key := func(k string) string {
		if in.Risk {
			return "C17-arg-retype"
		}
		if in.Visitor && in.VisRisk {
			return "C17-visitor-after-operators"
		}
		return k
	}
	base := []expr.Option{expr.Env(sample)}
	if in.Visitor {
		base = append(base, expr.Patch(c17Rename{}))
	}
	pa, ea, paPanic := c17CompileSafe(in.Expr, append(append([]expr.Option{}, base...), opOpts...))
	pb, eb, _ := c17CompileSafe(in.Explicit, base)
	if paPanic {
		rep.fail(Failure{Key: key("C17-compile-panics"), What: "expr.Compile of the operator form panicked", Input: in, Want: "a program or an error", Got: ea.Error(), Replay: string(rp)})
		return false
	}
	if (ea == nil) != (eb == nil) {
		rep.fail(Failure{Key: key("C17-compile-differs"), What: "operator form and explicit-call form are not accepted alike", Input: in,
			Want: "explicit form (no operator mapping): " + c17ErrStr(eb), Got: "operator form: " + c17ErrStr(ea), Replay: string(rp)})
		return false
	}
	if ea != nil {
		rep.hist("both forms rejected at compile time")
		return false
	}
	// the operator mapping is independent of the optimizer: with expr.Optimize(false) the operator form is accepted and answers alike
	pn, en, pnPanic := c17CompileSafe(in.Expr, append(append(append([]expr.Option{}, base...), opOpts...), expr.Optimize(false)))
	pbn, ebn, _ := c17CompileSafe(in.Explicit, append(append([]expr.Option{}, base...), expr.Optimize(false)))
	if pnPanic || en != nil || ebn != nil {
		rep.fail(Failure{Key: key("C17-compile-differs"), What: "the operator form / the explicit form is accepted with the optimizer on and not with expr.Optimize(false)", Input: in,
			Want: "accepted", Got: c17ErrStr(en) + " / " + c17ErrStr(ebn), Replay: string(rp)})
		return false
	}
	for i, e := range envs {
		if in.EnvIdx >= 0 && i != in.EnvIdx {
			continue
		}
		env := c17EnvAs(e, in.Env)
		ra := c17RunSafe(pa, env)
		rb := c17RunSafe(pb, env)
		rn := c17RunSafe(pn, env)
		rbn := c17RunSafe(pbn, env)
		rep.Evaluations += 3
		if rn.cls != rbn.cls || (rn.cls == "" && !reflect.DeepEqual(rn.out, rbn.out)) || (rn.cls == "" && c17LogString(rn.log) != c17LogString(rbn.log)) {
			in3 := in
			in3.EnvIdx = i
			rp3, _ := json.Marshal(in3)
			rep.fail(Failure{Key: key("C17-result-differs"), What: "operator form compiled with expr.Optimize(false) and explicit-call form evaluate differently", Input: in3,
				Want: "as " + in.Explicit + " without operator mapping, Optimize(false): " + c17Show(rbn), Got: "Optimize(false): " + c17Show(rn), Replay: string(rp3)})
			return true
		}
		if ra.cls == "" {
			rep.hist("run ok")
		} else {
			rep.hist("run fails " + ra.cls)
		}
		in2 := in
		in2.EnvIdx = i
		rp2, _ := json.Marshal(in2)
		if ra.cls != rb.cls || (ra.cls == "" && !reflect.DeepEqual(ra.out, rb.out)) {
			rep.fail(Failure{Key: key("C17-result-differs"), What: "operator form and explicit-call form evaluate differently", Input: in2,
				Want: "as " + in.Explicit + " without operator mapping: " + c17Show(rb), Got: c17Show(ra), Replay: string(rp2)})
			return true
		}
		if c17LogString(ra.log) != c17LogString(rb.log) {
			rep.fail(Failure{Key: key("C17-calls-differ"), What: "operator form and explicit-call form call the environment functions differently", Input: in2,
				Want: "calls " + c17LogString(rb.log), Got: "calls " + c17LogString(ra.log), Replay: string(rp2)})
			return true
		}
	}
	return true
}

// the operator form judged against the mapped Go function APPLIED DIRECTLY to the operand values, in order (the
// explicit-call form runs through the same call instruction, so a fault of that instruction shows in neither of the two
// forms compared above); operands include an interface-typed member that is nil at run time
func c17DirectOracle(rep *Report) {
	for _, kind := range c17All {
		for _, stNil := range []bool{false, true} {
			e := c17BaseEnv()
			if stNil {
				e.St = nil
			}
			type dcase struct {
				src    string
				op     string
				fns    []string
				want   func() interface{}
				again  []string // a SECOND expr.Operator option for the same operator (option sets composed by the caller)
				consts []string // functions also declared expr.ConstExpr
			}
			cases := []dcase{
				{src: "A + St", op: "+", fns: []string{"AddAny"}, want: func() interface{} { return e.AddAny(e.A, e.St) }},
				{src: "St + A", op: "+", fns: []string{"AddAny"}, want: func() interface{} { return e.AddAny(e.St, e.A) }},
				{src: "St + St", op: "+", fns: []string{"AddAny"}, want: func() interface{} { return e.AddAny(e.St, e.St) }},
				{src: "I + St", op: "+", fns: []string{"AddAny"}, want: func() interface{} { return e.AddAny(e.I, e.St) }},
				{src: "A + B", op: "+", fns: []string{"AddAny"}, want: func() interface{} { return e.AddAny(e.A, e.B) }},
				{src: "[A + St, St + B]", op: "+", fns: []string{"AddAny"}, want: func() interface{} { return []interface{}{e.AddAny(e.A, e.St), e.AddAny(e.St, e.B)} }},
				{src: "A - B", op: "-", fns: []string{"Sub"}, want: func() interface{} { return e.Sub(e.A, e.B) }},
				{src: "B - A", op: "-", fns: []string{"Sub"}, want: func() interface{} { return e.Sub(e.B, e.A) }},
				{src: "A + I", op: "+", fns: []string{"Add", "AddInt"}, want: func() interface{} { return e.AddInt(e.A, e.I) }},
				{src: "I + A", op: "+", fns: []string{"Add", "IntAdd"}, want: func() interface{} { return e.IntAdd(e.I, e.A) }},
				{src: "D + A", op: "+", fns: []string{"Add", "AddSM"}, want: func() interface{} { return e.AddSM(e.D, e.A) }},
				{src: "A < B", op: "<", fns: []string{"Less"}, want: func() interface{} { return e.Less(e.A, e.B) }},
				{src: "B < A", op: "<", fns: []string{"Less"}, want: func() interface{} { return e.Less(e.B, e.A) }},
				{src: "A in Ms", op: "in", fns: []string{"Has"}, want: func() interface{} { return e.Has(e.A, e.Ms) }},
				// the candidate list is the priority order, also when two option sets name a function twice
				{src: "A + B", op: "+", fns: []string{"Add", "AddAny"}, again: []string{"Add"}, want: func() interface{} { return e.Add(e.A, e.B) }},
				{src: "A + B", op: "+", fns: []string{"Add", "AddSM", "AddAny"}, again: []string{"Add", "AddAny"}, want: func() interface{} { return e.Add(e.A, e.B) }},
				{src: "D + A", op: "+", fns: []string{"AddSM", "AddAny"}, again: []string{"AddSM"}, want: func() interface{} { return e.AddSM(e.D, e.A) }},
				// the mapped function is ALSO a compile-time constant function: every occurrence is applied to ITS operands
				{src: "[\"a b\" + \"c\", \"a\" + \"b c\"]", op: "+", fns: []string{"StrCat"}, consts: []string{"StrCat"}, want: func() interface{} {
					return []interface{}{e.StrCat("a b", "c"), e.StrCat("a", "b c")}
				}},
				{src: "[1 + 23, 12 + 3, 1 + 2 + 3]", op: "+", fns: []string{"IntPlus"}, consts: []string{"IntPlus"}, want: func() interface{} {
					return []interface{}{e.IntPlus(1, 23), e.IntPlus(12, 3), e.IntPlus(e.IntPlus(1, 2), 3)}
				}},
				{src: "(\"x\" + \"y z\") + (\"x y\" + \"z\")", op: "+", fns: []string{"StrCat"}, consts: []string{"StrCat"}, want: func() interface{} {
					return e.StrCat(e.StrCat("x", "y z"), e.StrCat("x y", "z"))
				}},
				// the occurrence sits inside the arguments of a function of the fast shape func(...interface{}) interface{}
				{src: "Pack(A + B)", op: "+", fns: []string{"Add"}, want: func() interface{} { return e.Pack(e.Add(e.A, e.B)) }},
				{src: "Pack(1, A - B, \"x\")", op: "-", fns: []string{"Sub"}, want: func() interface{} { return e.Pack(1, e.Sub(e.A, e.B), "x") }},
				{src: "Pack(Pack(A + B), [A + C])", op: "+", fns: []string{"Add"}, want: func() interface{} {
					x := e.Add(e.A, e.B)
					inner := e.Pack(x)
					return e.Pack(inner, []interface{}{e.Add(e.A, e.C)})
				}},
				{src: "Pack(I < 9, Ok ? A + B : A)", op: "+", fns: []string{"Add"}, want: func() interface{} { return e.Pack(e.I < 9, e.Add(e.A, e.B)) }},
			}
			for _, c := range cases {
				rep.Evaluations++
				rep.hist("direct application of the mapped function")
				in := map[string]interface{}{"direct": true, "env": kind, "St_is_nil": stNil, "expr": c.src, "operator": c.op, "functions": c.fns}
				callLog = nil
				var want interface{}
				wantPanic := ""
				func() {
					defer func() {
						if r := recover(); r != nil {
							wantPanic = fmt.Sprint(r)
						}
					}()
					want = c.want()
				}()
				wantLog := c17LogString(callLog)
				opts := []expr.Option{expr.Env(c17EnvAs(c17BaseEnv(), kind)), expr.Operator(c.op, c.fns...)}
				if len(c.again) > 0 {
					opts = append(opts, expr.Operator(c.op, c.again...))
				}
				for _, cf := range c.consts {
					opts = append(opts, expr.ConstExpr(cf))
				}
				in["operator_again"], in["constexpr"] = c.again, c.consts
				p, err, panicked := c17CompileSafe(c.src, opts)
				if panicked || err != nil {
					rep.fail(Failure{Key: "C17-compile-differs", What: "an operator whose mapped function fits the operands is not accepted", Input: in, Want: "a program", Got: fmt.Sprint(err)})
					continue
				}
				r := c17RunSafe(p, c17EnvAs(e, kind))
				switch {
				case wantPanic != "":
					if r.cls == "" {
						rep.fail(Failure{Key: "C17-result-differs", What: "the mapped function applied to the operands in order panics, the operator form returns a value", Input: in,
							Want: "a failure (" + wantPanic + ")", Got: c17Show(r)})
					}
				case r.cls != "" || !reflect.DeepEqual(r.out, want):
					rep.fail(Failure{Key: "C17-result-differs", What: "the operator form differs from the mapped function applied to the operands in order", Input: in,
						Want: fmt.Sprintf("%#v, calls %s", want, wantLog), Got: c17Show(r)})
				case len(c.consts) == 0 && c17LogString(r.log) != wantLog: // (a compile-time constant function is called at compile time)
					rep.fail(Failure{Key: "C17-calls-differ", What: "the operator form calls the mapped function with other arguments than the operands in order", Input: in,
						Want: "calls " + wantLog, Got: "calls " + c17LogString(r.log)})
				}
			}
		}
	}
}

func c17ErrStr(e error) string {
	if e == nil {
		return "accepted"
	}
	return "rejected: " + strings.SplitN(e.Error(), "\n", 2)[0]
}

// ---------------------------------------------------------------- Config.Check oracle
type c17Bad struct {
	Fn   string
	Why  string
	Envs []string
}

var c17BadTargets = []c17Bad{
	{"Nope", "missing member", c17All},
	{"NotFunc", "not a function", c17All},
	{"A", "not a function (a value)", c17All},
	{"Amb", "ambiguous member (provided by two embedded structs)", c17Structs},
	{"OneArg", "one input", c17All},
	{"ThreeArgs", "three inputs", c17All},
	{"TwoOut", "two results", c17All},
	{"NoOut", "no result", c17All},
	{"Id", "one input", c17All},
	{"MOne", "method with one operand (NumIn == 2 counts the receiver)", c17Structs},
	{"MThree", "method with three operands", c17Structs},
	{"MTwoOut", "method with two results", c17Structs},
	{"PSub", "pointer-receiver method of a struct passed by value: missing", []string{"struct"}},
}

func c17ConfigOracle(rep *Report) {
	srcs := []string{"A + B", "I + 1", "Ms[0] == A", "1"}
	for _, bad := range c17BadTargets {
		for _, kind := range bad.Envs {
			sample := c17EnvAs(c17BaseEnv(), kind)
			for _, good := range [][]string{nil, {"Add"}, {"Add", "AddInt"}} {
				for pos := 0; pos <= len(good); pos++ {
					fns := append(append(append([]string{}, good[:pos]...), bad.Fn), good[pos:]...)
					for _, src := range srcs {
						for _, op := range []string{"+", "=="} {
							rep.Evaluations++
							rep.hist("config: " + bad.Why)
							_, err, panicked := c17CompileSafe(src, []expr.Option{expr.Env(sample), expr.Operator(op, fns...)})
							in := map[string]interface{}{"config": true, "env": kind, "operator": op, "functions": fns, "expr": src, "bad": bad.Fn, "why": bad.Why}
							rp, _ := json.Marshal(in)
							if panicked {
								rep.fail(Failure{Key: "C17-config-accepts", What: "an operator mapping naming an unusable function (" + bad.Why + ") is not rejected: expr.Compile panics", Input: in,
									Want: "an error from expr.Compile", Got: err.Error(), Replay: string(rp)})
							} else if err == nil {
								rep.fail(Failure{Key: "C17-config-accepts", What: "an operator mapping naming an unusable function (" + bad.Why + ") is accepted", Input: in,
									Want: "an error from expr.Compile", Got: "compiled", Replay: string(rp)})
							}
						}
					}
				}
			}
		}
	}
	// the same in the NON-strict configurations: undefined variables allowed (in both option orders), and no
	// environment at all - a mapping that names a function which does not exist is rejected there too
	for _, kind := range c17All {
		sample := c17EnvAs(c17BaseEnv(), kind)
		variants := []struct {
			name string
			ops  func(op string, fns []string) []expr.Option
		}{
			{"Env + AllowUndefinedVariables", func(op string, fns []string) []expr.Option {
				return []expr.Option{expr.Env(sample), expr.AllowUndefinedVariables(), expr.Operator(op, fns...)}
			}},
			{"Env + Operator + AllowUndefinedVariables", func(op string, fns []string) []expr.Option {
				return []expr.Option{expr.Env(sample), expr.Operator(op, fns...), expr.AllowUndefinedVariables()}
			}},
			{"no Env", func(op string, fns []string) []expr.Option { return []expr.Option{expr.Operator(op, fns...)} }},
			{"no Env + AllowUndefinedVariables", func(op string, fns []string) []expr.Option {
				return []expr.Option{expr.AllowUndefinedVariables(), expr.Operator(op, fns...)}
			}},
		}
		for _, vr := range variants {
			for _, fns := range [][]string{{"NoSuchFn"}, {"Add", "NoSuchFn"}, {"NoSuchFn", "Add"}} {
				if strings.HasPrefix(vr.name, "no Env") && len(fns) > 1 {
					continue // without an environment `Add` does not exist either
				}
				for _, src := range srcs {
					for _, op := range []string{"+", "=="} {
						rep.Evaluations++
						rep.hist("config (non-strict): missing function")
						_, err, panicked := c17CompileSafe(src, vr.ops(op, fns))
						in := map[string]interface{}{"config": true, "env": kind, "options": vr.name, "operator": op, "functions": fns, "expr": src, "why": "function missing from the environment"}
						if panicked || err == nil {
							got := "compiled"
							if panicked {
								got = "panic: " + err.Error()
							}
							rep.fail(Failure{Key: "C17-config-accepts", What: "an operator mapping naming a function that does not exist is not rejected (" + vr.name + ")", Input: in,
								Want: "an error from expr.Compile", Got: got})
						}
					}
				}
			}
		}
	}
	// well-shaped mappings are accepted (otherwise nothing above is informative)
	for _, tb := range c17Tables {
		for _, kind := range tb.Envs {
			rep.Evaluations++
			_, err, _ := c17CompileSafe("1", append([]expr.Option{expr.Env(c17EnvAs(c17BaseEnv(), kind))}, tb.options()...))
			if err != nil {
				rep.fail(Failure{Key: "C17-config-rejects-good", What: "a mapping to well-shaped functions is rejected", Input: map[string]interface{}{"table": tb.Name, "env": kind},
					Want: "accepted", Got: err.Error()})
			}
		}
	}
}

// ---------------------------------------------------------------- correspondence
func c17Kids(n ast.Node) []ast.Node {
	opt := func(x ast.Node) []ast.Node {
		if x == nil || reflect.ValueOf(x).IsNil() {
			return nil
		}
		return []ast.Node{x}
	}
	switch x := n.(type) {
	case *ast.UnaryNode:
		return []ast.Node{x.Node}
	case *ast.BinaryNode:
		return []ast.Node{x.Left, x.Right}
	case *ast.MatchesNode:
		return []ast.Node{x.Left, x.Right}
	case *ast.PropertyNode:
		return []ast.Node{x.Node}
	case *ast.IndexNode:
		return []ast.Node{x.Node, x.Index}
	case *ast.SliceNode:
		return append(append([]ast.Node{x.Node}, opt(x.From)...), opt(x.To)...)
	case *ast.MethodNode:
		return append([]ast.Node{x.Node}, x.Arguments...)
	case *ast.FunctionNode:
		return x.Arguments
	case *ast.BuiltinNode:
		return x.Arguments
	case *ast.ClosureNode:
		return []ast.Node{x.Node}
	case *ast.ConditionalNode:
		return []ast.Node{x.Cond, x.Exp1, x.Exp2}
	case *ast.ArrayNode:
		return x.Nodes
	case *ast.MapNode:
		return x.Pairs
	case *ast.PairNode:
		return []ast.Node{x.Key, x.Value}
	}
	return nil
}

func c17Each(n ast.Node, f func(ast.Node)) {
	f(n)
	for _, k := range c17Kids(n) {
		c17Each(k, f)
	}
}

type c17Corr struct {
	typesDefs map[string]string       // env kind -> Coq ttable term
	seenTypes map[reflect.Type]bool   // node types met
	ifaces    map[reflect.Type]bool   // interface parameter types of the environment's functions
	typeNames map[string]reflect.Type // serialised -> type (injectivity check)
}

func newC17Corr() *c17Corr {
	return &c17Corr{typesDefs: map[string]string{}, seenTypes: map[reflect.Type]bool{}, ifaces: map[reflect.Type]bool{}, typeNames: map[string]reflect.Type{}}
}

func (cc *c17Corr) ty(rep *Report, t reflect.Type) string {
	s := c17Ty(t)
	if t != nil {
		if old, ok := cc.typeNames[s]; ok && old != t {
			rep.fail(Failure{Key: "C17-harness-type-serialiser", What: "two Go types serialise to the same Coq ty", Input: s})
		}
		cc.typeNames[s] = t
	}
	return s
}

func (cc *c17Corr) typesTable(rep *Report, kind string, tt conf.TypesTable) string {
	if s, ok := cc.typesDefs[kind]; ok {
		return s
	}
	names := make([]string, 0, len(tt))
	for n := range tt {
		names = append(names, n)
	}
	sort.Strings(names)
	var items []string
	for _, n := range names {
		tg := tt[n]
		switch {
		case tg.Ambiguous:
			items = append(items, fmt.Sprintf("(%s, tga)", cqStr(n)))
		case tg.Method:
			items = append(items, fmt.Sprintf("(%s, tgm %s)", cqStr(n), cc.ty(rep, tg.Type)))
		default:
			items = append(items, fmt.Sprintf("(%s, tg %s)", cqStr(n), cc.ty(rep, tg.Type)))
		}
		if tg.Type != nil && tg.Type.Kind() == reflect.Func {
			for i := 0; i < tg.Type.NumIn(); i++ {
				if tg.Type.In(i).Kind() == reflect.Interface {
					cc.ifaces[tg.Type.In(i)] = true
				}
			}
		}
	}
	s := "[" + strings.Join(items, ";\n   ") + "]"
	cc.typesDefs[kind] = s
	return s
}

func c17OpCoq(op string) string {
	if c, ok := binopCoq[op]; ok {
		return c
	}
	return "(BUnknown " + cqStr(op) + ")"
}

func c17CheckClass(err error) int {
	switch {
	case err == nil:
		return 0
	case strings.Contains(err.Error(), "does not exist in environment"):
		return 1
	case strings.Contains(err.Error(), "does not have a correct signature"):
		return 2
	}
	return 3
}

func c17NewConfig(sample interface{}, ops map[string][]string) *conf.Config {
	config := &conf.Config{Operators: make(map[string][]string), ConstExprFns: make(map[string]reflect.Value), Optimize: true}
	expr.Env(sample)(config)
	for op, fns := range ops {
		expr.Operator(op, fns...)(config)
	}
	return config
}

// one correspondence case; ok = false when the input cannot be observed (does not parse, checker panics)
func (cc *c17Corr) corrCase(rep *Report, tableName string, ops map[string][]string, order [][]string, kind, src string) (string, bool) {
	sample := c17EnvAs(c17BaseEnv(), kind)
	config := c17NewConfig(sample, nil)
	for _, o := range order { // in expr.Operator order, as Compile applies the options
		expr.Operator(o[0], o[1:]...)(config)
	}
	verdict := config.Check()
	tree, err := parser.Parse(src)
	if err != nil {
		return "", false
	}
	checkCfg := config
	if verdict != nil {
		// Compile stops here; to observe the patcher on a rejected mapping the tree is typed without operators
		checkCfg = c17NewConfig(sample, nil)
	}
	if p := c10Safe17(func() { checker.Check(tree, checkCfg) }); p != nil {
		return "", false
	}
	// unique locations, then the side table of node types
	id := 0
	var tys []string
	c17Each(tree.Node, func(n ast.Node) {
		id++
		n.SetLocation(file.Location{Line: id, Column: 0})
		if n.Type() != nil {
			cc.seenTypes[n.Type()] = true
		}
		tys = append(tys, fmt.Sprintf("((%d, 0), %s)", id, cc.ty(rep, n.Type())))
	})
	before := cqExpr(tree.Node)
	obs := ""
	if p := c10Safe17(func() { compiler.PatchOperators(&tree.Node, config) }); p != nil {
		obs = "OPatchPanicked"
		rep.hist("corr: PatchOperators panics (rejected mapping)")
	} else {
		obs = "(OPatched " + cqExpr(tree.Node) + ")"
	}
	var opItems []string
	opNames := make([]string, 0, len(config.Operators))
	for op := range config.Operators {
		opNames = append(opNames, op)
	}
	sort.Strings(opNames)
	var fnItems []string
	seenFn := map[string]bool{}
	for _, op := range opNames {
		fns := config.Operators[op]
		q := make([]string, len(fns))
		for i, f := range fns {
			q[i] = cqStr(f)
			if !seenFn[f] {
				seenFn[f] = true
				one := c17NewConfig(sample, map[string][]string{op: {f}})
				fnItems = append(fnItems, fmt.Sprintf("(%s, %d)", cqStr(f), c17CheckClass(one.Check())))
			}
		}
		opItems = append(opItems, fmt.Sprintf("(%s, [%s])", c17OpCoq(op), strings.Join(q, "; ")))
	}
	cc.typesTable(rep, kind, config.Types)
	note := strings.ReplaceAll(strings.ReplaceAll(src, "*)", "* )"), "(*", "( *")
	note = strings.ReplaceAll(note, "\"", "'")
	return fmt.Sprintf("mkC17 [%s] types_%s impl_tbl [%s] %s %s %s [%s] (* %s | %s | %s *)",
		strings.Join(opItems, "; "), kind, strings.Join(tys, "; "), before, obs, cqBool(verdict == nil), strings.Join(fnItems, "; "),
		tableName, kind, note), true
}

func c10Safe17(f func()) (panicked interface{}) {
	defer func() {
		if r := recover(); r != nil {
			panicked = r
		}
	}()
	f()
	return nil
}

func (cc *c17Corr) header() string {
	var b strings.Builder
	b.WriteString("From Coq Require Import ZArith List String Floats.\n")
	b.WriteString("Require Import X.Ty.Types X.Ty.TypesTable.\n")
	b.WriteString("Require Import X.Base.Num X.Base.Value X.Syn.Ast X.Walk.Walk X.Corr.CorrC10 X.Ops.Overload X.Corr.CorrC17.\n")
	b.WriteString("Import ListNotations.\nOpen Scope string_scope.\nOpen Scope Z_scope.\n\n")
	for _, kind := range c17EnvKinds {
		s, ok := cc.typesDefs[kind]
		if !ok {
			s = "[]"
		}
		fmt.Fprintf(&b, "Definition types_%s : ttable :=\n  %s.\n", kind, s)
	}
	// the Implements oracle on every (node type, interface parameter) pair that can occur
	var ts []reflect.Type
	for t := range cc.seenTypes {
		ts = append(ts, t)
	}
	sort.Slice(ts, func(i, j int) bool { return c17Ty(ts[i]) < c17Ty(ts[j]) })
	var is []reflect.Type
	for t := range cc.ifaces {
		is = append(is, t)
	}
	sort.Slice(is, func(i, j int) bool { return c17Ty(is[i]) < c17Ty(is[j]) })
	var items []string
	for _, t := range ts {
		for _, i := range is {
			items = append(items, fmt.Sprintf("(%s, %s, %s)", c17Ty(t), c17Ty(i), cqBool(t.Implements(i))))
		}
	}
	fmt.Fprintf(&b, "Definition impl_tbl : list (ty * ty * bool) :=\n  [%s].\n", strings.Join(items, ";\n   "))
	return b.String()
}

// ---------------------------------------------------------------- replay
func c17Replay(rep *Report, arg string) {
	var probe map[string]interface{}
	if err := json.Unmarshal([]byte(arg), &probe); err != nil {
		fmt.Println("c17 replay: cannot read input:", err)
		return
	}
	if _, ok := probe["config"]; ok {
		kind, _ := probe["env"].(string)
		op, _ := probe["operator"].(string)
		src, _ := probe["expr"].(string)
		var fns []string
		if l, ok := probe["functions"].([]interface{}); ok {
			for _, f := range l {
				fns = append(fns, fmt.Sprint(f))
			}
		}
		_, err, panicked := c17CompileSafe(src, []expr.Option{expr.Env(c17EnvAs(c17BaseEnv(), kind)), expr.Operator(op, fns...)})
		fmt.Printf("expr.Compile(%q, Env(%s), Operator(%q, %v)): err=%v panicked=%v\n", src, kind, op, fns, err, panicked)
		if err == nil || panicked {
			fmt.Println("FAIL C17-config-accepts")
		}
		return
	}
	var in c17Input
	if err := json.Unmarshal([]byte(arg), &in); err != nil {
		fmt.Println("c17 replay: cannot read input:", err)
		return
	}
	envs := c17Envs(rand.New(rand.NewSource(*seed)), 8)
	c17Judge(rep, in, envs)
	for _, f := range rep.Failures {
		fmt.Printf("FAIL %s: %s\n  input %v\n  want %s\n  got  %s\n", f.Key, f.What, f.Input, f.Want, f.Got)
	}
	if len(rep.Failures) == 0 {
		fmt.Println("c17 replay: no failure on this input")
	}
}

func c17Envs(rng *rand.Rand, n int) []*C17Env {
	envs := []*C17Env{c17BaseEnv()}
	for len(envs) < n {
		envs = append(envs, c17RandomEnv(rng))
	}
	return envs
}

// ---------------------------------------------------------------- main
func runC17() {
	rep := newReport("C17")
	if *replay != "" {
		c17Replay(rep, *replay)
		return
	}
	defer func() {
		if r := recover(); r != nil {
			rep.fail(Failure{Key: "C17-harness-panic", What: "the harness died on a panic that escaped from the implementation", Input: "see got", Got: fmt.Sprint(r)})
			rep.write()
		}
	}()
	rng := rand.New(rand.NewSource(*seed))
	// corrEvery: every k-th corpus tree of the pointer / map environments goes to Coq (all of the struct one);
	// corrRandom: random trees per (table, environment shape) that go to Coq
	nRandom, nEnvs, corrEvery, corrRandom := 60, 3, 3, 10
	if *tier == "thorough" {
		nRandom, nEnvs, corrEvery, corrRandom = 700, 6, 1, 400
	}
	envs := c17Envs(rng, nEnvs)
	cc := newC17Corr()
	var cases []string
	distinct := map[string]bool{}
	occ, occOver := 0, 0

	for _, tb := range c17Tables {
		for _, kind := range tb.Envs {
			c := &c17Ctx{tb: tb, kind: kind, sigs: c17Sigs(kind)}
			c17MapEnv = kind == "map"
			g := newC17Gen(rng, c)
			nodes := c.corpus()
			nCorpus := len(nodes)
			for i := 0; i < nRandom; i++ {
				t := []reflect.Type{c17TMoney, c17TMoney, c17TInt, c17TBool, c17TStr, c17TMs, c17TXs, c17TAny, c17TAny, c17TAny}[rng.Intn(10)]
				if n := g.gen(t, 1+rng.Intn(4)); n != nil && !c17HasNil(n) {
					nodes = append(nodes, n)
				}
			}
			seen := map[string]bool{}
			nVisitor, maxVisitor := 0, nRandom/4
			for ni, n := range nodes {
				opSrc, exSrc := n.src(false), n.src(true)
				if seen[opSrc] {
					continue
				}
				seen[opSrc] = true
				over := 0
				ifaceMatch := false
				n.positions("top level", 0, func(pos string, b *c17Node, depth int) {
					occ++
					if b.Fn == "" {
						rep.hist("occurrence with other operand types (built-in)")
						return
					}
					over++
					occOver++
					rep.hist("overloaded occurrence: " + pos)
					if depth >= 2 {
						rep.hist("overloaded occurrence at depth >= 2")
					}
					s := c.sigs[b.Fn]
					if s.params[0].Kind() == reflect.Interface || s.params[1].Kind() == reflect.Interface {
						ifaceMatch = true
						rep.hist("resolved to a function with an interface parameter")
					} else {
						rep.hist("resolved to a function with concrete parameters")
					}
					fns, _ := tb.fns(b.S)
					if len(fns) > 1 {
						rep.hist("resolved among several candidates")
						if fns[0] != b.Fn {
							rep.hist("resolved to a candidate that is not the first of the table")
						}
					} else {
						rep.hist("resolved with a single candidate")
					}
				})
				_ = ifaceMatch
				risk := c.retypeRisk(n)
				if risk {
					rep.hist("input affected by finding C17-arg-retype")
				}
				rep.hist("table " + tb.Name)
				rep.hist("env " + kind)
				in := c17Input{Table: tb.Name, Ops: tb.asMap(), OpsOrder: tb.Ops, Env: kind, Expr: opSrc, Explicit: exSrc, EnvIdx: -1, Risk: risk}
				c17Judge(rep, in, envs)
				if over > 0 {
					distinct[tb.Name+"|"+kind+"|"+opSrc] = true
				}
				// the same expression through expr.Patch: C is written Y and renamed back by a visitor
				if n.mentions("C") && (ni < nCorpus || nVisitor < maxVisitor) {
					if ni >= nCorpus {
						nVisitor++
					}
					c17Placeholder = true
					vin := in
					vin.Expr, vin.Explicit, vin.Visitor, vin.VisRisk = n.src(false), n.src(true), true, n.visitorRisk()
					c17Placeholder = false
					rep.hist("visitor mode (expr.Patch renames a placeholder)")
					if vin.VisRisk {
						rep.hist("input affected by finding C17-visitor-after-operators")
					}
					c17Judge(rep, vin, envs)
					if over > 0 {
						distinct[tb.Name+"|"+kind+"|visitor|"+vin.Expr] = true
					}
				}
				if len(rep.Samples) < 6 && over > 1 && rng.Intn(40) == 0 {
					rep.Samples = append(rep.Samples, map[string]interface{}{"table": tb.Name, "operators": tb.Ops, "env": kind, "expr": opSrc, "explicit_form": exSrc})
				}
				if (ni < nCorpus && (kind == "struct" || ni%corrEvery == 0)) || (ni >= nCorpus && ni < nCorpus+corrRandom) {
					if cs, ok := cc.corrCase(rep, tb.Name, tb.asMap(), tb.Ops, kind, opSrc); ok {
						cases = append(cases, cs)
					}
				}
			}
		}
	}
	// rejected mappings: Config.Check verdicts and the unguarded patcher, model vs implementation
	for _, bad := range c17BadTargets {
		for _, kind := range bad.Envs {
			for _, fns := range [][]string{{bad.Fn}, {"Add", bad.Fn}, {bad.Fn, "Add"}} {
				for _, src := range []string{"(A + B) + C", "I + 1", "Id(A)"} {
					order := [][]string{append([]string{"+"}, fns...)}
					if cs, ok := cc.corrCase(rep, "bad:"+bad.Fn, map[string][]string{"+": fns}, order, kind, src); ok {
						cases = append(cases, cs)
						rep.hist("corr: rejected mapping")
					}
				}
			}
		}
	}
	c17ConfigOracle(rep)
	c17DirectOracle(rep)
	c17Tenants(rep)
	c17Round7(rep)

	rep.Extra["binary_occurrences"] = occ
	rep.Extra["overloaded_occurrences"] = occOver
	rep.Extra["tables"] = len(c17Tables)
	rep.Distinct = len(distinct)
	rep.Rule = "inputs = (operator table, environment shape, expression): 14 tables (one / several candidates, concrete / interface / interface{} parameters, candidates as struct fields, map members, value- and pointer-receiver methods of the environment, operators + - * == != < in **, expr.Operator given twice) x struct / pointer / map environments x a written-out corpus of the positions the property names (nested, sliced and indexed operands, index, closure bodies, call and method arguments, map values and parenthesised map keys, both branches, array elements, nil operands, ill-typed occurrences) plus type-directed random expressions of depth 1-4 built from the table's own typing rules (overloaded occurrences preferred 4:1, unmatched built-in occurrences mixed in); each judged on 3 (quick) / 6 (thorough) environment values: operator form compiled with the mapping vs explicit-call form (reference resolution) compiled without any mapping - acceptance, result or error class, call log; Config.Check: 13 unusable targets x positions in the candidate list x environments x expressions. distinct_nontrivial = distinct (table, environment shape, operator-form source) with at least one overloaded occurrence"
	if *tier != "thorough" && *shards > 8 {
		*shards = 8 // ~170 small cases per file: fewer coqc start-ups than cases are worth
	}
	rep.writeShards("cases_c17", cc.header(), "c17case", "c17_mismatches", cases)
	rep.write()
}

// c17Tenants: the resolution of an overloaded occurrence is a function of the CURRENT environment: several
// environments in which the same member names carry functions of different signatures are compiled against one
// after the other, in several orders, in one process (a resolution remembered from an earlier Compile call must not leak)
func c17Tenants(rep *Report) {
	type tenant struct {
		name string
		env  map[string]interface{}
		// expected[src] = source to compile WITHOUT any operator mapping that says what the overloaded form means here
		expected map[string]string
	}
	tenants := []tenant{
		{"float-add", map[string]interface{}{"X": 2, "Y": 3, "S": "a", "T": "b", "F": 1.5, "G": 2.5,
			"Add": func(a, b float64) float64 { return a + b + 1000 }, "Eq": func(a, b string) bool { return true }},
			map[string]string{"X + Y": "X + Y", "F + G": "Add(F, G)", "S == T": "Eq(S, T)", "X == Y": "X == Y", "[X + Y, F + G][1]": "[X + Y, Add(F, G)][1]"}},
		{"int-add", map[string]interface{}{"X": 2, "Y": 3, "S": "a", "T": "b", "F": 1.5, "G": 2.5,
			"Add": func(a, b int) int { return a + b + 2000 }, "Eq": func(a, b int) bool { return false }},
			map[string]string{"X + Y": "Add(X, Y)", "F + G": "F + G", "S == T": "S == T", "X == Y": "Eq(X, Y)", "[X + Y, F + G][1]": "[Add(X, Y), F + G][1]"}},
		{"any-add", map[string]interface{}{"X": 2, "Y": 3, "S": "a", "T": "b", "F": 1.5, "G": 2.5,
			"Add": func(a, b interface{}) interface{} { return "any" }, "Eq": func(a, b interface{}) bool { return true }},
			map[string]string{"X + Y": "Add(X, Y)", "F + G": "Add(F, G)", "S == T": "Eq(S, T)", "X == Y": "Eq(X, Y)", "[X + Y, F + G][1]": "[Add(X, Y), Add(F, G)][1]"}},
	}
	orders := [][]int{{0, 1, 2}, {1, 0, 2}, {2, 1, 0}, {0, 2, 1, 0, 1}}
	for _, ord := range orders {
		for _, ti := range ord {
			tn := tenants[ti]
			for src, want := range tn.expected {
				rep.Evaluations++
				run := func(s string, ops ...expr.Option) (out interface{}, err error) {
					defer func() {
						if r := recover(); r != nil {
							err = fmt.Errorf("panic: %v", r)
						}
					}()
					p, err := expr.Compile(s, ops...)
					if err != nil {
						return nil, err
					}
					return expr.Run(p, tn.env)
				}
				got, gerr := run(src, expr.Env(tn.env), expr.Operator("+", "Add"), expr.Operator("==", "Eq"))
				exp, eerr := run(want, expr.Env(tn.env))
				if eerr != nil {
					rep.fail(Failure{Key: "C17-e2e-baseline", What: "the explicit-call form does not compile and run (tenant campaign)", Input: map[string]interface{}{"tenant": tn.name, "expr": want}, Got: eerr.Error()})
					continue
				}
				rep.hist("tenant campaign: judged")
				if gerr != nil || fmt.Sprintf("%#v", got) != fmt.Sprintf("%#v", exp) {
					rep.fail(Failure{Key: "C17-result-differs", What: "operator form and explicit-call form evaluate differently (environments with the same member names and other signatures compiled in one process)",
						Input: map[string]interface{}{"tenant": tn.name, "order": ord, "expr": src, "explicit_form": want},
						Want:  fmt.Sprintf("%#v", exp), Got: fmt.Sprintf("%#v (error %v)", got, gerr)})
				}
			}
		}
	}
}

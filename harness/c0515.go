package main

// C05 (well-formed, stack-balanced bytecode) and C15 (type information only rejects).

import (
	"fmt"
	"github.com/antonmedv/expr/checker"
	"github.com/antonmedv/expr/conf"
	"math/rand"
	"reflect"
	"strings"
	"time"

	"github.com/antonmedv/expr"
	"github.com/antonmedv/expr/ast"
	"github.com/antonmedv/expr/parser"
	"github.com/antonmedv/expr/vm"
)

func init() {
	commands["c05"] = runC05
	commands["c15"] = runC15
}

func isMachineErr(err error) bool {
	if err == nil {
		return false
	}
	m := err.Error()
	return strings.Contains(m, "index out of range [-1]") || strings.Contains(m, "slice bounds out of range [:-1]") ||
		strings.Contains(m, "unknown bytecode") || strings.Contains(m, "assignment to entry in nil map")
}

func bigList(n int, elem string) string {
	items := make([]string, n)
	for i := range items {
		if elem == "#" {
			items[i] = fmt.Sprint(i)
		} else {
			items[i] = elem
		}
	}
	return "[" + strings.Join(items, ", ") + "]"
}

func runC05() {
	rep := newReport("C05")
	rng := rand.New(rand.NewSource(*seed))
	nRandom, nEnvs := 420, 4
	if *tier == "thorough" {
		nRandom, nEnvs = 4000, 8
	}
	envs := standardEnvs(rng, nEnvs)
	g := &egen{rng: rng, wrong: 30, hist: rep.Histogram}
	var srcs []string
	ex := exhaustiveExprs(1)
	rng.Shuffle(len(ex), func(i, j int) { ex[i], ex[j] = ex[j], ex[i] })
	if *tier != "thorough" && len(ex) > 300 {
		ex = ex[:300]
	}
	srcs = append(srcs, ex...)
	srcs = append(srcs, nestedSources()...)
	srcs = append(srcs, shapeSources()...)
	for i := 0; i < nRandom; i++ {
		t := []gtype{tBool, tInt, tStr, tArrInt, tArrAny, tAny}[rng.Intn(6)]
		srcs = append(srcs, g.expr(t, 2+rng.Intn(3)))
	}
	// degenerate literals where a code-generation scheme has nothing to iterate over: every expression still pushes exactly one value
	srcs = append(srcs, "I in []", "I not in []", "1 in []", "S in []", "# in []", "[1, I in []]", "(I in []) or B", "(I not in []) and B", "map(1..3, {# in []})", "filter(AI, {# not in []})",
		"len([])", "[] == []", "{} == {}", "all([], {#})", "count([], {true})", "[[]]", "{a: []}", "I in [] ? 1 : 2", "not (I in [])", "[I in [], I not in []]")
	var cases []string
	distinct := map[string]bool{}
	check := func(src string, m coreMode, toCoq bool) {
		tree, prog, _, err := pipeline(src, m.options(envs[0]))
		if err != nil {
			rep.hist("rejected at compile time")
			return
		}
		for ei, e := range envs {
			callLog = nil
			v := &vm.VM{}
			var out interface{}
			var rerr error
			in := map[string]interface{}{"src": clip(src), "mode": m.Name, "env": ei}
			guarded(30*time.Second, func() interface{} { return in }, func() { out, rerr = v.Run(prog, e) })
			rep.Evaluations++
			if isMachineErr(rerr) {
				rep.fail(Failure{Key: "C05-machine-failure", What: "a compiled program failed for a machine reason (stack underflow, bad jump, unknown opcode, missing scope)",
					Input: in, Want: "a result or a semantic failure", Got: rerr.Error()})
			}
			if rerr == nil {
				if len(v.Stack()) != 0 {
					rep.fail(Failure{Key: "C05-unbalanced-stack", What: "values left on the stack after a successful run", Input: in,
						Want: "empty stack", Got: fmt.Sprint(len(v.Stack()))})
				}
				if v.Scope() != nil {
					rep.fail(Failure{Key: "C05-open-scope", What: "a loop scope is left open after a successful run", Input: in, Want: "no scope", Got: "scope present"})
				}
				rep.hist("run ok")
			} else {
				rep.hist("run fails " + cqErrClass(rerr.Error()))
			}
			if toCoq {
				cases = append(cases, coreCase(false, m.Cast, vm.MemoryBudget, ei, tree, prog, coreRun{out, rerr, callLog}))
				if strings.ContainsAny(src, "{?") || strings.Contains(src, " and ") || strings.Contains(src, " or ") {
					distinct[fmt.Sprintf("%s|%s|%d", src, m.Name, ei)] = true
				}
			}
		}
	}
	for _, src := range srcs {
		for _, m := range []coreMode{modeUntyped, modeTypedOpt} {
			check(src, m, true)
		}
	}
	// large programs: branches and loop bodies around the 64 KiB jump limit, constant pools around 2^16
	type big struct {
		name, src string
		want      interface{} // expected result when it compiles
	}
	var bigs []big
	// every byte size of the jumped-over block from 65500 to 65545 (and a few far beyond): the block is
	// a list of j one-byte pushes (true) and n three-byte pushes (1), so that all residues mod 3 occur
	sizes := []int{}
	for s := 65500; s <= 65545; s++ {
		sizes = append(sizes, s)
	}
	sizes = append(sizes, 66000, 70000)
	if *tier != "thorough" {
		var some []int
		for i, s := range sizes {
			if i%2 == int(*seed)%2 || (s >= 65515 && s <= 65540) {
				some = append(some, s)
			}
		}
		sizes = some
	}
	for _, s := range sizes {
		j := s % 3
		n := (s - j) / 3
		items := make([]string, 0, n+j)
		for i := 0; i < j; i++ {
			items = append(items, "true")
		}
		for i := 0; i < n; i++ {
			items = append(items, "1")
		}
		l := "[" + strings.Join(items, ", ") + "]"
		cnt := n + j
		bigs = append(bigs,
			big{fmt.Sprintf("conditional branch with a %d-byte element block (skipped)", s), "len(false ? " + l + " : [2])", 1},
			big{fmt.Sprintf("conditional branch with a %d-byte element block (taken)", s), "len(true ? " + l + " : [2])", cnt},
			big{fmt.Sprintf("or right operand with a %d-byte element block", s), "B2 or len(" + l + ") > 0", true},
			big{fmt.Sprintf("map loop body with a %d-byte element block", s), "len(map(1..2, {" + l + "}))", 2},
			big{fmt.Sprintf("all loop body with a %d-byte element block", s), "all(1..2, {len(" + l + ") > 0})", true},
			big{fmt.Sprintf("filter loop body with a %d-byte element block", s), "len(filter(1..3, {len(" + l + ") > 0}))", 3},
		)
	}
	// CHAINS of jumps: every hop fits 16 bits, the distance from the first jump to the end of the chain does not (a jump must
	// never be re-targeted past what its operand can hold)
	{
		l40 := "len([" + strings.Repeat("1, ", 13399) + "1]) > 0"
		bigs = append(bigs,
			big{"and chain, two 40 KiB operands, first operand false", "false and " + l40 + " and " + l40, false},
			big{"and chain, two 40 KiB operands, all true", "true and " + l40 + " and " + l40, true},
			big{"or chain, two 40 KiB operands, first operand true", "true or not (" + l40 + ") or not (" + l40 + ")", true},
			big{"or chain, two 40 KiB operands, all false", "false or not (" + l40 + ") or not (" + l40 + ")", false},
			big{"and as the condition of ?: with 40 KiB operand and branch", "(false and " + l40 + ") ? (" + l40 + ") : false", false},
			big{"and chain as a loop predicate", "count(1..2, {# > 5 and " + l40 + " and " + l40 + "})", 0},
			big{"or chain as a loop predicate", "all(1..2, {# > 0 or not (" + l40 + ") or not (" + l40 + ")})", true},
			big{"nested conditionals, 40 KiB branches", "false ? (" + l40 + ") : (false ? (" + l40 + ") : true)", true},
		)
	}
	for _, n := range []int{65530, 65533, 65534, 65535, 65536, 70000} {
		bigs = append(bigs, big{fmt.Sprintf("%d distinct constants", n), "len(" + bigList(n, "#") + ")", n})
	}
	// constant pools around the 65535 limit that also hold constants the de-duplication index never sees (zero floats
	// are appended unconditionally): an element picked by index must still be the right one
	for _, n := range []int{65529, 65532, 65533, 65534, 65535, 65536, 65537} {
		items := make([]string, 0, n+4)
		items = append(items, "0.0", "0.0", "0.0")
		for i := 0; i < n; i++ {
			items = append(items, fmt.Sprintf("%d.5", i+1))
		}
		l := "[" + strings.Join(items, ", ") + "]"
		bigs = append(bigs, big{fmt.Sprintf("%d distinct float constants + 3 zero floats, indexed", n), l + "[3] + 7.25", 8.75},
			big{fmt.Sprintf("%d distinct float constants + 3 zero floats, last", n), l + fmt.Sprintf("[%d]", n+2), float64(n) + 0.5})
	}
	for _, b := range bigs {
		prog, err := expr.Compile(b.src, expr.Optimize(false))
		rep.Evaluations++
		in := map[string]interface{}{"what": b.name}
		if err != nil {
			rep.hist("large program refused: " + firstWords(err.Error()))
			if !strings.Contains(err.Error(), "exceeded") {
				rep.fail(Failure{Key: "C05-large-compile-error", What: "unexpected compile error for a large program", Input: in, Want: "a program or a limit error", Got: clip(err.Error())})
			}
			continue
		}
		rep.hist("large program compiled")
		distinct["big|"+b.name] = true
		old := vm.MemoryBudget
		vm.MemoryBudget = 1 << 40
		v := &vm.VM{}
		out, rerr := v.Run(prog, envs[0])
		vm.MemoryBudget = old
		if rerr != nil || !reflect.DeepEqual(out, b.want) {
			rep.fail(Failure{Key: "C05-large-wrong", What: "a large program that compiled does not run correctly (truncated offset or constant index)", Input: in,
				Want: fmt.Sprint(b.want), Got: clip(fmt.Sprintf("%v / %v", out, rerr))})
		}
		if rerr == nil && (len(v.Stack()) != 0 || v.Scope() != nil) {
			rep.fail(Failure{Key: "C05-unbalanced-stack", What: "stack or scope left after a large program", Input: in, Want: "empty", Got: "not empty"})
		}
	}
	// one caller-owned VM reused: a run that fails INSIDE an open loop scope, then successful runs - each successful
	// run must end with an empty stack and no open scope
	{
		failing := []string{"map(AI, {10 % (# - #)})", "all(1..3, {AI[#] > 0})", "filter(1..3, {Boom(#) > 0})", "map(1..2, {map(1..2, {1 / (# - #)})})", "count(AI, {#.x})"}
		good := []string{"len(map(1..3, {# * 2}))", "1 + 2", "all(1..3, {# > 0})", "len(filter(AI, {# > 0}))", "[1, 2][0]"}
		for _, fsrc := range failing {
			v := &vm.VM{}
			fp, err := expr.Compile(fsrc, expr.Optimize(false))
			if err != nil {
				continue
			}
			for round := 0; round < 3; round++ {
				_, ferr := v.Run(fp, envs[0])
				rep.Evaluations++
				if ferr == nil {
					break
				}
				for _, gsrc := range good {
					gp, err := expr.Compile(gsrc, expr.Optimize(false))
					if err != nil {
						continue
					}
					_, gerr := v.Run(gp, envs[0])
					rep.Evaluations++
					if gerr == nil && (len(v.Stack()) != 0 || v.Scope() != nil) {
						rep.fail(Failure{Key: "C05-open-scope", What: "a loop scope (or stack value) is left after a successful run on a VM whose EARLIER run failed inside a loop",
							Input: map[string]interface{}{"earlier failing run": fsrc, "run": gsrc, "round": round}, Want: "no scope, empty stack", Got: fmt.Sprintf("stack %d, scope %v", len(v.Stack()), v.Scope())})
						break
					}
				}
			}
			distinct["reuse|"+fsrc] = true
		}
	}
	rep.Distinct = len(distinct)
	rep.Rule = "compiled programs from the exhaustive shape family and type-directed random expressions (untyped and typed+optimized) run on caller-owned VMs: no machine-class failure, empty stack and no open scope after success; every program's bytes are decoded by the Coq verifier (decode + jump check) and compared with the model compiler; plus large programs whose branch / operand / loop body is 21840..22001 pushes (around the 65535-byte jump limit) and constant pools of 65530..70000 distinct constants: either a limit error at compile time or a correct run"
	for i := 0; i < 4 && i < len(srcs); i++ {
		rep.Samples = append(rep.Samples, srcs[(i*37+5)%len(srcs)])
	}
	rep.Samples = append(rep.Samples, "len(false ? [1, ... 21845 times ...] : [2])")
	rep.writeShards("cases_c05", coreHeader(envs), "ccase", "core_mismatches fe", cases)
	// the same cases a second time against the BYTE-level model of the compiler (BC/Assemble.v): bytes,
	// constant pool in the order of makeConstant calls, locations
	rep.writeShards("cases_c05b", strings.Replace(coreHeader(envs), "X.Corr.CorrCore.", "X.Corr.CorrCore X.Corr.CorrC05b.", 1), "ccase", "c05b_mismatches", cases)
	rep.write()
}

func clip(s string) string {
	if len(s) > 300 {
		return s[:300] + "..."
	}
	return s
}

func firstWords(s string) string {
	f := strings.Fields(s)
	if len(f) > 5 {
		f = f[:5]
	}
	return strings.Join(f, " ")
}

// ---------------------------------------------------------------- C15
type envMode struct {
	name string
	run  func(src string, e *Env) (interface{}, error, bool) // result, error, compiled?
}

func envAsMap(e *Env) map[string]interface{} {
	m := map[string]interface{}{}
	rv := reflect.ValueOf(e).Elem()
	for i := 0; i < rv.NumField(); i++ {
		m[rv.Type().Field(i).Name] = rv.Field(i).Interface()
	}
	m["Twice"] = e.Twice
	m["PtrM"] = e.PtrM
	return m
}

func runC15() {
	rep := newReport("C15")
	rng := rand.New(rand.NewSource(*seed))
	nRandom, nEnvs := 500, 4
	if *tier == "thorough" {
		nRandom, nEnvs = 5000, 8
	}
	envs := standardEnvs(rng, nEnvs)
	{
		// values that coincide only after narrowing / sign change: a comparison specialised by static types must
		// answer what the generic comparison answers
		e := baseEnv()
		e.I, e.I8, e.I16, e.I32, e.I64 = 300, 44, 300, 0, 1<<32
		e.U, e.U8, e.U16, e.U32, e.U64 = 200, 200, 65535+0, 0, 1<<32
		envs = append(envs, e)
		e2 := baseEnv()
		e2.I, e2.I8, e2.I16, e2.I32, e2.I64 = -56, -56, -1, -1, -1
		e2.U, e2.U8, e2.U16, e2.U32, e2.U64 = 1<<64-1, 200, 65535, 1<<32-1, 1<<64-1
		envs = append(envs, e2)
		if nEnvs < 5 {
			envs = append(envs, wrapEnv()) // narrow members equal to out-of-range literals modulo 2^bits
		}
	}
	g := &egen{rng: rng, wrong: 20, hist: rep.Histogram}
	var srcs []string
	srcs = append(srcs, shapeSources()...)
	// one literal VALUE used once as a retyped (float) argument part and once as a plain int: each occurrence keeps its own type
	srcs = append(srcs, "Half(F64 * 2) + I / 2", "Half(F64 * 3) + I % 3", "[Half(F64 * 2), I / 2, 2]", "Half(F64 + 7) * 0 + I / 7", "Half(F64 * 2) > 0 ? I / 2 : 0", "I / 2 + Half(F64 * 2)",
		"Half(2) + I / 2", "[Half(4), I % 4, 4]")
	srcs = append(srcs, "((IsPos(I) ? -7 : Add(I, 7)) in 2..8)", "Inc(I) in 1..9", "Inc(I) not in 1..9", "P?.Next?.Get(2, I16, 0)", "P?.Get(1)", "St.Next?.Get(1, 2)")
	// comparisons with nil of operands whose STATIC type cannot hold nil although the value can be nil (a conditional with a nil
	// branch, elements of a map over nil-safe members, a nil-safe chain): typed and untyped compiles agree
	for _, a := range []string{"(B ? nil : I)", "(B2 ? nil : I)", "(B ? I : nil)", "(B2 ? S : nil)", "(B ? nil : F64)", "(B2 ? nil : St)", "P?.X", "P?.Next?.X", "St.Next?.Y", "map([P, P?.Next], {#?.X})[1]",
		"map([St.Next, P], {#?.Y})[0]", "(B ? nil : B2)", "I", "S", "St", "F64", "P", "MA.n", "Any"} {
		srcs = append(srcs, a+" == nil", a+" != nil", "nil == "+a, "nil != "+a, "not ("+a+" == nil)", "("+a+" == nil) ? 1 : 2")
	}
	// membership of a member NAME in a struct / pointer / map member that may be nil at run time: typed and untyped compiles agree
	srcs = append(srcs, "\"X\" in P", "\"X\" not in P", "\"Y\" in St.Next", "\"X\" in P?.Next", "\"Zz\" in P", "\"X\" in St", "\"a\" in MI", "\"X\" in (B ? P : St.Next)", "[\"X\" in P, \"Y\" not in St.Next]")
	srcs = append(srcs, "count(map([P, P?.Next, St.Next], {#?.X}), {# == nil})", "filter(map([P, St.Next], {#?.Y}), {# != nil})", "all(map([P], {#?.Next?.Next?.X}), {# == nil})")
	ints := []string{"I", "I8", "I16", "I32", "I64", "U", "U8", "U16", "U32", "U64", "1", "300", "F64", "Any"}
	for _, a := range ints {
		for _, b := range ints {
			if a != b {
				srcs = append(srcs, a+" == "+b, a+" != "+b)
			}
		}
	}
	ex := exhaustiveExprs(1)
	rng.Shuffle(len(ex), func(i, j int) { ex[i], ex[j] = ex[j], ex[i] })
	if *tier != "thorough" && len(ex) > 400 {
		ex = ex[:400]
	}
	srcs = append(srcs, ex...)
	for i := 0; i < nRandom; i++ {
		t := []gtype{tBool, tInt, tNum, tStr, tArrInt, tArrAny, tAny}[rng.Intn(7)]
		srcs = append(srcs, g.expr(t, 2+rng.Intn(3)))
	}
	// arithmetic in argument position (the checker retypes integer literals below + - * / and unary +/- of an
	// argument to the parameter type): literal-only and MIXED trees, float / int / interface{} parameters
	for _, fn := range []string{"Half", "Inc", "Id", "Twice"} {
		leaves := []string{"1", "2", "7", "I", "F64", "I8", "U8", "9007199254740993"}
		for _, a := range leaves {
			for _, b := range leaves {
				for _, op := range []string{"+", "-", "*", "/"} {
					if rng.Intn(3) != 0 && *tier != "thorough" {
						continue
					}
					srcs = append(srcs, fmt.Sprintf("%s(%s %s %s)", fn, a, op, b))
					c := leaves[rng.Intn(len(leaves))]
					op2 := []string{"+", "-", "*", "/"}[rng.Intn(4)]
					srcs = append(srcs, fmt.Sprintf("%s(%s %s %s %s %s)", fn, a, op, b, op2, c), fmt.Sprintf("%s(-(%s %s %s) %s %s)", fn, a, op, b, op2, c))
				}
			}
		}
	}
	compileRun := func(src string, env interface{}, ops ...expr.Option) (interface{}, error, bool) {
		p, err := expr.Compile(src, ops...)
		if err != nil {
			return nil, err, false
		}
		callLog = nil
		out, err := expr.Run(p, env)
		return out, err, true
	}
	modes := []envMode{
		{"Eval", func(src string, e *Env) (interface{}, error, bool) {
			callLog = nil
			out, err := expr.Eval(src, e)
			return out, err, true
		}},
		{"Compile", func(src string, e *Env) (interface{}, error, bool) { return compileRun(src, e) }},
		{"Compile+Env(*struct)", func(src string, e *Env) (interface{}, error, bool) { return compileRun(src, e, expr.Env(e)) }},
		{"Compile+Env(struct) run on struct", func(src string, e *Env) (interface{}, error, bool) { return compileRun(src, *e, expr.Env(*e)) }},
		{"Compile+Env(*struct)+AllowUndefined", func(src string, e *Env) (interface{}, error, bool) {
			return compileRun(src, e, expr.Env(e), expr.AllowUndefinedVariables())
		}},
		{"Compile+Env(map)", func(src string, e *Env) (interface{}, error, bool) {
			m := envAsMap(e)
			return compileRun(src, m, expr.Env(m))
		}},
		{"Compile+Env(map)+AllowUndefined", func(src string, e *Env) (interface{}, error, bool) {
			m := envAsMap(e)
			return compileRun(src, m, expr.Env(m), expr.AllowUndefinedVariables())
		}},
		{"Compile no Env, run on map", func(src string, e *Env) (interface{}, error, bool) { return compileRun(src, envAsMap(e)) }},
	}
	distinct := map[string]bool{}
	var cases []string
	for _, src := range srcs {
		usesPtrM := strings.Contains(src, "PtrM(")
		for ei, e := range envs {
			type res struct {
				name string
				out  interface{}
				log  string
			}
			var succ []res
			for _, m := range modes {
				if usesPtrM && strings.Contains(m.name, "run on struct") {
					continue // PtrM has a pointer receiver: not a member of the struct value
				}
				out, err, compiled := m.run(src, e)
				rep.Evaluations++
				switch {
				case !compiled:
					rep.hist("rejected: " + m.name)
				case err != nil:
					rep.hist("fails: " + m.name)
				default:
					rep.hist("succeeds: " + m.name)
					succ = append(succ, res{m.name, out, cqTrace(callLog)})
				}
			}
			for i := 1; i < len(succ); i++ {
				if cqValue(normSeq(succ[i].out)) != cqValue(normSeq(succ[0].out)) || succ[i].log != succ[0].log {
					key := "C15-modes-disagree"
					if c15MixedRetypedArg(src) {
						key = "C15-arg-retype-mixed"
					} else if cqValue(normSeq(succ[i].out)) == cqValue(normSeq(succ[0].out)) && c15CallInRangeLeft(src) &&
						(succ[0].name == "Eval") != (succ[i].name == "Eval") {
						// equal values, different call logs, Eval (never optimized) against a Compile variant (optimizer on)
						key = "C15-in-range-double-eval"
					}
					rep.fail(Failure{Key: key, What: "two compile / environment variants that both succeed return different results",
						Input: map[string]interface{}{"src": src, "env": ei, "a": succ[0].name, "b": succ[i].name},
						Want:  clip(fmt.Sprintf("%#v", succ[0].out)), Got: clip(fmt.Sprintf("%#v", succ[i].out))})
					break
				}
			}
			if len(succ) >= 2 {
				distinct[fmt.Sprintf("%s|%d", src, ei)] = true
			}
		}
		// model side: typed+optimized and untyped trees through the Coq compiler / VM / reference semantics
		for _, m := range []coreMode{modeUntyped, modeTyped} {
			tree, prog, _, err := pipeline(src, m.options(envs[0]))
			if err != nil {
				continue
			}
			ei := rng.Intn(len(envs))
			r := runProgram(prog, envs[ei])
			cases = append(cases, coreCase(false, m.Cast, vm.MemoryBudget, ei, tree, prog, r))
		}
	}
	// functions of the fast form func(...interface{}) interface{} that KEEP their argument slice (constructors of
	// lists / tuples): the typed pipeline calls them with OpCallFast, the untyped one through reflect.Call
	{
		type fastEnv struct {
			A, B  int
			S     string
			Pack  func(xs ...interface{}) interface{}
			Pair  func(xs ...interface{}) interface{}
			First func(xs ...interface{}) interface{}
		}
		mk := func() *fastEnv {
			return &fastEnv{A: 1, B: 2, S: "s",
				Pack:  func(xs ...interface{}) interface{} { return xs },
				Pair:  func(xs ...interface{}) interface{} { return map[string]interface{}{"all": xs, "n": len(xs)} },
				First: func(xs ...interface{}) interface{} { return xs[:1] }}
		}
		asMap := func(e *fastEnv) map[string]interface{} {
			return map[string]interface{}{"A": e.A, "B": e.B, "S": e.S, "Pack": e.Pack, "Pair": e.Pair, "First": e.First}
		}
		fsrcs := []string{"[Pack(1, 2), Pack(3, 4)]", "Pack(A, B) == Pack(B, A)", "Pack(Pack(1), Pack(2))", "map([1, 2, 3], {Pack(#)})", "map([1, 2, 3], {Pack(#, A)})[0]",
			"Pack(1, 2, 3)[0] + Pack(4)[0]", "[Pack(1, 2, 3), Pack(4)]", "[Pack(4), Pack(1, 2, 3)]", "[First(1, 2), First(3, 4)]", "[Pair(1), Pair(2)]", "{a: Pack(1), b: Pack(2)}",
			"filter([1, 2], {Pack(#)[0] == #})", "[Pack(S), Pack(A), Pack()]", "Pack(A)[0] + Pack(B)[0]", "len(Pack(1, 2)) + len(Pack(3))", "[Pack(1, 2)[1], Pack(3, 4)[1]]",
			"Pack(A, B)[0:1] == Pack(B, A)[1:2]", "all([1, 2], {Pack(#)[0] == #}) and Pack(9)[0] == 9", "[Pack(1), Pack(2), Pack(3)][0]"}
		fmodes := []struct {
			name string
			run  func(src string) (interface{}, error)
		}{
			{"Eval", func(src string) (interface{}, error) { return expr.Eval(src, mk()) }},
			{"Compile", func(src string) (interface{}, error) { o, e, _ := compileRun(src, mk()); return o, e }},
			{"Compile+Env(*struct)", func(src string) (interface{}, error) {
				e0 := mk()
				o, e, _ := compileRun(src, e0, expr.Env(e0))
				return o, e
			}},
			{"Compile+Env(struct)", func(src string) (interface{}, error) {
				e0 := mk()
				o, e, _ := compileRun(src, *e0, expr.Env(*e0))
				return o, e
			}},
			{"Compile+Env(map)", func(src string) (interface{}, error) {
				m := asMap(mk())
				o, e, _ := compileRun(src, m, expr.Env(m))
				return o, e
			}},
			{"Compile+Env(*struct)+Optimize(false)", func(src string) (interface{}, error) {
				e0 := mk()
				o, e, _ := compileRun(src, e0, expr.Env(e0), expr.Optimize(false))
				return o, e
			}},
		}
		for _, src := range fsrcs {
			var first, firstName string
			have := false
			for _, m := range fmodes {
				out, err := m.run(src)
				rep.Evaluations++
				if err != nil {
					rep.hist("fast-retaining family: fails in " + m.name)
					continue
				}
				got := fmt.Sprintf("%#v", normSeq(out))
				if !have {
					first, firstName, have = got, m.name, true
					continue
				}
				distinct["fast|"+src] = true
				if got != first {
					rep.fail(Failure{Key: "C15-modes-disagree", What: "two compile / environment variants that both succeed return different results (function keeping its variadic argument slice)",
						Input: map[string]interface{}{"src": src, "env": "fastEnv", "a": firstName, "b": m.name}, Want: clip(first), Got: clip(got)})
					break
				}
			}
		}
	}
	// environments with EMBEDDED structs: members promoted from different depths, shadowed fields, promoted
	// methods - as a struct, a pointer to it and a map with the same members (what Go resolves each name to)
	{
		mk := func() *c15Emb {
			return &c15Emb{c15Audit: c15Audit{c15Deep: c15Deep{Level: 70, Deep: "deep"}, Who: "w"}, c15Limits: c15Limits{Level: 3, Max: 9}, Base: 100, Who: "top"}
		}
		asMap := func(e *c15Emb) map[string]interface{} {
			return map[string]interface{}{"Level": e.Level, "Deep": e.Deep, "Who": e.Who, "Max": e.Max, "Base": e.Base, "Bump": e.Bump}
		}
		esrcs := []string{"Base + Level", "Level in [3, 4]", "Level == 3", "Who", "Who + Deep", "Max - Level", "[Level, Max, Base]", "Bump(Level)", "Level > 50 ? Who : Deep",
			"map([1, 2], {# + Level})", "{a: Level, b: Who}", "Level * Level + Max", "len(Who) + Level", "Bump(Base) + Level", "all([Level, Max], {# < 10})"}
		emodes := []struct {
			name string
			run  func(src string) (interface{}, error)
		}{
			{"Eval(*struct)", func(src string) (interface{}, error) { return expr.Eval(src, mk()) }},
			{"Eval(struct)", func(src string) (interface{}, error) { return expr.Eval(src, *mk()) }},
			{"Eval(map)", func(src string) (interface{}, error) { return expr.Eval(src, asMap(mk())) }},
			{"Compile+Env(*struct)", func(src string) (interface{}, error) {
				e0 := mk()
				o, e, _ := compileRun(src, e0, expr.Env(e0))
				return o, e
			}},
			{"Compile+Env(struct)", func(src string) (interface{}, error) {
				e0 := mk()
				o, e, _ := compileRun(src, *e0, expr.Env(*e0))
				return o, e
			}},
			{"Compile+Env(map)", func(src string) (interface{}, error) {
				m := asMap(mk())
				o, e, _ := compileRun(src, m, expr.Env(m))
				return o, e
			}},
			{"Compile, run on struct", func(src string) (interface{}, error) { o, e, _ := compileRun(src, *mk()); return o, e }},
		}
		for _, src := range esrcs {
			var first, firstName string
			have := false
			for _, m := range emodes {
				out, err := m.run(src)
				rep.Evaluations++
				if err != nil {
					rep.hist("embedded-struct family: fails in " + m.name)
					continue
				}
				got := fmt.Sprintf("%#v", normSeq(out))
				if !have {
					first, firstName, have = got, m.name, true
					continue
				}
				distinct["emb|"+src] = true
				if got != first {
					rep.fail(Failure{Key: "C15-modes-disagree", What: "struct / pointer / map environments with the same members return different results (members promoted through embedded structs)",
						Input: map[string]interface{}{"src": src, "env": "c15Emb", "a": firstName, "b": m.name}, Want: clip(first), Got: clip(got)})
					break
				}
			}
		}
	}
	// environment types of the SAME printed name whose members have other types, compiled one after the other in this process: the
	// typed compile of each agrees with its untyped compile and with Eval (what was learnt about one type says nothing about the other)
	{
		la, lb := c03LocalA(), c03LocalB()
		for round, env := range []interface{}{la, lb, la, lb} {
			for _, src := range []string{"Last.Value in 1..9", "Last.Value == 7", "Last.Unit in [\"c\", \"f\"]", "Last.Unit == 3", "[Last.Value, Last.Unit]", "Last.Value in [7, 8]", "Last.Unit in 1..5", "N + 1"} {
				typed, terr, tcompiled := compileRun(src, env, expr.Env(env))
				untyped, uerr, _ := compileRun(src, env)
				ev, eerr := expr.Eval(src, env)
				rep.Evaluations += 3
				rep.hist("same-name environment types compiled in turn")
				if terr != nil && tcompiled && uerr == nil && eerr == nil {
					// accepted by the typed compile, then a run-time failure where the untyped program and Eval return a value: the
					// static types steered the program somewhere else
					rep.fail(Failure{Key: "C15-modes-disagree", What: "a typed compile accepts the source and its run fails where the untyped compile and Eval return a value (environment types printing the same name, compiled in turn)",
						Input: map[string]interface{}{"src": src, "env": fmt.Sprintf("%+v", env), "round": round}, Want: "untyped " + clip(fmt.Sprintf("%#v", untyped)), Got: "typed run: " + firstLineOf(terr.Error())})
					continue
				}
				if terr != nil || uerr != nil || eerr != nil {
					continue
				}
				distinct["samename|"+src] = true
				a, b, c := fmt.Sprintf("%#v", normSeq(typed)), fmt.Sprintf("%#v", normSeq(untyped)), fmt.Sprintf("%#v", normSeq(ev))
				if a != b || a != c {
					rep.fail(Failure{Key: "C15-modes-disagree", What: "typed compile, untyped compile and Eval that all succeed return different results (environment types printing the same name, compiled in turn)",
						Input: map[string]interface{}{"src": src, "env": fmt.Sprintf("%+v", env), "round": round}, Want: "untyped " + clip(b) + " / Eval " + clip(c), Got: "typed " + clip(a)})
				}
			}
		}
	}
	rep.Distinct = len(distinct)
	rep.Rule = "every source (exhaustive shape family sample + type-directed random expressions incl. 2% ill-typed operands) x every environment is run in 8 variants: Eval; Compile without Env; with Env(*struct), Env(struct), Env(map[string]interface{}) each with and without AllowUndefinedVariables; no Env but a map environment; all variants that succeed must return equal values (with dynamic types) and equal call logs; distinct_nontrivial = distinct (source, environment) with at least two succeeding variants; typed and untyped trees are also evaluated in the Coq model (specialised vs generic instructions)"
	for i := 0; i < 5 && i < len(srcs); i++ {
		rep.Samples = append(rep.Samples, srcs[(i*53+11)%len(srcs)])
	}
	rep.writeShards("cases_c15", coreHeader(envs), "ccase", "core_mismatches fe", cases)
	rep.write()
}

// normSeq: sequences are compared element by element whatever their Go slice type: every slice
// becomes a []interface{} (recursively, also inside maps)
func normSeq(v interface{}) interface{} {
	rv := reflect.ValueOf(v)
	if !rv.IsValid() {
		return v
	}
	switch rv.Kind() {
	case reflect.Slice, reflect.Array:
		out := make([]interface{}, rv.Len())
		for i := range out {
			out[i] = normSeq(rv.Index(i).Interface())
		}
		return out
	case reflect.Map:
		if m, ok := v.(map[string]interface{}); ok {
			out := map[string]interface{}{}
			for k, x := range m {
				out[k] = normSeq(x)
			}
			return out
		}
	}
	return v
}

// c15MixedRetypedArg: some call argument is an arithmetic tree (unary + -, binary + - * /) that contains an
// integer literal AND a leaf that is not an integer literal - the shape on which checkFunc/setTypeForIntegers
// retypes the literals to the parameter type while the other leaves keep their own type (finding C15-arg-retype-mixed).
func c15MixedRetypedArg(src string) bool {
	tree, err := parser.Parse(src)
	if err != nil {
		return false
	}
	// static types of the leaves as the checker sees them over the declared environment (errors are irrelevant here): the
	// recorded finding needs a non-literal leaf whose kind is NOT already the parameter's kind (`I / 2` for a float64
	// parameter); when every other leaf already has that kind (`F64 * 2`) typed and untyped arithmetic coincide
	func() {
		defer func() { recover() }()
		checker.Check(tree, conf.New(baseEnv()))
	}()
	found := false
	var arith func(n ast.Node, lit, other *bool) bool
	arith = func(n ast.Node, lit, other *bool) bool {
		switch x := n.(type) {
		case *ast.IntegerNode:
			*lit = true
			return true
		case *ast.UnaryNode:
			if x.Operator == "+" || x.Operator == "-" {
				arith(x.Node, lit, other)
				return true
			}
		case *ast.BinaryNode:
			switch x.Operator {
			case "+", "-", "*", "/":
				arith(x.Left, lit, other)
				arith(x.Right, lit, other)
				return true
			}
		}
		*other = true
		return false
	}
	var otherKinds func(n ast.Node, want reflect.Kind, differs *bool)
	otherKinds = func(n ast.Node, want reflect.Kind, differs *bool) {
		switch x := n.(type) {
		case *ast.IntegerNode:
			return
		case *ast.UnaryNode:
			if x.Operator == "+" || x.Operator == "-" {
				otherKinds(x.Node, want, differs)
				return
			}
		case *ast.BinaryNode:
			switch x.Operator {
			case "+", "-", "*", "/":
				otherKinds(x.Left, want, differs)
				otherKinds(x.Right, want, differs)
				return
			}
		}
		if t := n.Type(); t == nil || t.Kind() != want {
			*differs = true
		}
	}
	// ... or the mixed tree contains a division of two literal-only operands (`1 / 2 - F64`): an integer division untyped, a
	// float division once the literals are retyped - the same retyping, whatever the kinds of the other leaves
	var litOnly func(n ast.Node) bool
	litOnly = func(n ast.Node) bool {
		switch x := n.(type) {
		case *ast.IntegerNode:
			return true
		case *ast.UnaryNode:
			return (x.Operator == "+" || x.Operator == "-") && litOnly(x.Node)
		case *ast.BinaryNode:
			switch x.Operator {
			case "+", "-", "*", "/":
				return litOnly(x.Left) && litOnly(x.Right)
			}
		}
		return false
	}
	var litDivision func(n ast.Node) bool
	litDivision = func(n ast.Node) bool {
		switch x := n.(type) {
		case *ast.UnaryNode:
			return (x.Operator == "+" || x.Operator == "-") && litDivision(x.Node)
		case *ast.BinaryNode:
			switch x.Operator {
			case "+", "-", "*", "/":
				if x.Operator == "/" && litOnly(x.Left) && litOnly(x.Right) {
					return true
				}
				return litDivision(x.Left) || litDivision(x.Right)
			}
		}
		return false
	}
	check := func(args []ast.Node) {
		for _, a := range args {
			lit, other := false, false
			if arith(a, &lit, &other) && lit && other {
				differs := true
				if t := a.Type(); t != nil {
					differs = litDivision(a)
					otherKinds(a, t.Kind(), &differs)
				}
				if differs {
					found = true
				}
			}
		}
	}
	ast.Walk(&tree.Node, visitFn(func(n *ast.Node) {
		switch x := (*n).(type) {
		case *ast.FunctionNode:
			check(x.Arguments)
		case *ast.MethodNode:
			check(x.Arguments)
		}
	}))
	return found
}

type visitFn func(n *ast.Node)

func (f visitFn) Enter(n *ast.Node) {}
func (f visitFn) Exit(n *ast.Node)  { f(n) }

// c15CallInRangeLeft: `x in a..b` / `x not in a..b` whose left operand contains a call: the optimizer rewrites it to
// `x >= a and x <= b` and x is evaluated twice (finding C02-in-range-double-eval seen from C15: Eval never optimizes)
func c15CallInRangeLeft(src string) bool {
	tree, err := parser.Parse(src)
	if err != nil {
		return false
	}
	found := false
	hasCall := func(n ast.Node) bool {
		r := false
		ast.Walk(&n, visitFn(func(m *ast.Node) {
			switch (*m).(type) {
			case *ast.FunctionNode, *ast.MethodNode:
				r = true
			}
		}))
		return r
	}
	ast.Walk(&tree.Node, visitFn(func(n *ast.Node) {
		if b, ok := (*n).(*ast.BinaryNode); ok && (b.Operator == "in" || b.Operator == "not in") {
			if r, ok := b.Right.(*ast.BinaryNode); ok && r.Operator == ".." && hasCall(b.Left) {
				found = true
			}
		}
	}))
	return found
}

// environment with embedded structs: Level is promoted from depth 1 (c15Limits) AND from depth 2 (c15Audit.c15Deep):
// Go resolves the shallowest; Who is shadowed by the own field
type c15Deep struct {
	Level int
	Deep  string
}
type c15Audit struct {
	c15Deep
	Who string
}
type c15Limits struct {
	Level int
	Max   int
}
type c15Emb struct {
	c15Audit
	c15Limits
	Base int
	Who  string
}

func (e c15Emb) Bump(x int) int { return x + 1 }

package main

// Go type -> Coq `ty` (coq/Base/Value.v) serialiser, with the struct declarations it meets collected
// into a `tenv` term (coq/Ty/Types.v).  Independent of any property: create a tySer (or use the
// package-level coqTy/coqTenv), serialise the types you need, then emit tenv() once.

import (
	"fmt"
	"reflect"
	"sort"
	"strings"
)

type tySer struct {
	names map[reflect.Type]string // struct type -> name used in TStruct
	used  map[string]bool
	decls map[string]string // name -> Coq structdef term
	order []string
}

func newTySer() *tySer {
	return &tySer{names: map[reflect.Type]string{}, used: map[string]bool{}, decls: map[string]string{}}
}

var defaultTySer = newTySer()

// coqTy serialises t with the package-level serialiser.
func coqTy(t reflect.Type) string { return defaultTySer.ty(t) }

// coqTenv is the tenv term for every struct type coqTy has met so far.
func coqTenv() string { return defaultTySer.tenv() }

func tyStr(s string) string {
	var b strings.Builder
	b.WriteByte('"')
	for i := 0; i < len(s); i++ {
		c := s[i]
		if c == '"' {
			b.WriteString(`""`)
		} else {
			b.WriteByte(c)
		}
	}
	b.WriteByte('"')
	return b.String()
}

func coqBool(b bool) string {
	if b {
		return "true"
	}
	return "false"
}

func coqList(xs []string) string { return "[" + strings.Join(xs, "; ") + "]" }

var coqKindNames = map[reflect.Kind]string{
	reflect.Uint: "KUint", reflect.Uint8: "KUint8", reflect.Uint16: "KUint16", reflect.Uint32: "KUint32", reflect.Uint64: "KUint64",
	reflect.Int: "KInt", reflect.Int8: "KInt8", reflect.Int16: "KInt16", reflect.Int32: "KInt32", reflect.Int64: "KInt64",
	reflect.Float32: "KF32", reflect.Float64: "KF64",
}

// structName returns the name under which a struct type is declared in the tenv.
func (s *tySer) structName(t reflect.Type) string {
	if n, ok := s.names[t]; ok {
		return n
	}
	base := t.String()
	if t.Name() == "" {
		base = fmt.Sprintf("struct#%d", len(s.names))
	}
	n := base
	for i := 2; s.used[n]; i++ {
		n = fmt.Sprintf("%s#%d", base, i)
	}
	s.used[n] = true
	s.names[t] = n
	s.order = append(s.order, n)
	s.decls[n] = "" // reserve: recursive types refer to the name while it is being built
	s.decls[n] = s.structDef(t)
	return n
}

func (s *tySer) methodSet(t reflect.Type) string {
	var ms []string
	for i := 0; i < t.NumMethod(); i++ {
		m := t.Method(i)
		ms = append(ms, fmt.Sprintf("(%s, %s)", tyStr(m.Name), s.ty(m.Type)))
	}
	return coqList(ms)
}

func (s *tySer) structDef(t reflect.Type) string {
	var fs []string
	for i := 0; i < t.NumField(); i++ {
		f := t.Field(i)
		fs = append(fs, fmt.Sprintf("mkField %s %s %s %s", tyStr(f.Name), s.ty(f.Type), coqBool(f.Anonymous), coqBool(f.PkgPath == "")))
	}
	return fmt.Sprintf("mkStruct %s %s %s", coqList(fs), s.methodSet(t), s.methodSet(reflect.PtrTo(t)))
}

// ty returns the Coq term (parenthesised when compound) for t; nil is reflect.TypeOf(nil).
func (s *tySer) ty(t reflect.Type) string {
	if t == nil {
		return "TNilT"
	}
	// a declared non-struct type: keep the name, describe the underlying shape
	if t.Name() != "" && t.PkgPath() != "" && t.Kind() != reflect.Struct {
		if u := s.underlying(t); u != "" {
			return fmt.Sprintf("(TNamed %s %s)", tyStr(t.String()), u)
		}
		return fmt.Sprintf("(TOpaque %s)", tyStr(t.String()))
	}
	if u := s.underlying(t); u != "" {
		return u
	}
	return fmt.Sprintf("(TOpaque %s)", tyStr(t.String()))
}

// underlying describes t by its kind; "" when the kind is outside the fragment.
func (s *tySer) underlying(t reflect.Type) string {
	switch t.Kind() {
	case reflect.Bool:
		return "TBool"
	case reflect.String:
		return "TString"
	case reflect.Interface:
		if t.NumMethod() == 0 {
			return "TIface"
		}
		return ""
	case reflect.Slice:
		return fmt.Sprintf("(TSlice %s)", s.ty(t.Elem()))
	case reflect.Map:
		return fmt.Sprintf("(TMap %s %s)", s.ty(t.Key()), s.ty(t.Elem()))
	case reflect.Ptr:
		return fmt.Sprintf("(TPtr %s)", s.ty(t.Elem()))
	case reflect.Struct:
		return fmt.Sprintf("(TStruct %s)", tyStr(s.structName(t)))
	case reflect.Func:
		var ins, outs []string
		for i := 0; i < t.NumIn(); i++ {
			ins = append(ins, s.ty(t.In(i)))
		}
		for i := 0; i < t.NumOut(); i++ {
			outs = append(outs, s.ty(t.Out(i)))
		}
		return fmt.Sprintf("(TFunc %s %s %s)", coqList(ins), coqBool(t.IsVariadic()), coqList(outs))
	}
	if k, ok := coqKindNames[t.Kind()]; ok {
		return fmt.Sprintf("(TNum %s)", k)
	}
	return ""
}

// tenv returns the Coq `tenv` term with every struct declaration met so far, one per line.
func (s *tySer) tenv() string {
	names := append([]string(nil), s.order...)
	sort.Strings(names)
	var es []string
	for _, n := range names {
		es = append(es, fmt.Sprintf("  (%s, %s)", tyStr(n), s.decls[n]))
	}
	return "[\n" + strings.Join(es, ";\n") + "\n]"
}

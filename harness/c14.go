package main

import (
	"fmt"
	"math"
	"math/rand"
	"reflect"
	"strconv"
	"strings"

	"github.com/antonmedv/expr"
	"github.com/antonmedv/expr/checker"
	"github.com/antonmedv/expr/conf"
	"github.com/antonmedv/expr/parser"
	"github.com/antonmedv/expr/vm"
)

func init() { commands["c14"] = runC14 }

type kindInfo struct {
	name   string
	coq    string
	t      reflect.Type
	signed bool
	float  bool
	width  int
	rank   int // the property's rank: unsigned by width, signed by width, float32, float64
}

var kinds = []kindInfo{
	{"uint", "KUint", reflect.TypeOf(uint(0)), false, false, 64, 4},
	{"uint8", "KUint8", reflect.TypeOf(uint8(0)), false, false, 8, 1},
	{"uint16", "KUint16", reflect.TypeOf(uint16(0)), false, false, 16, 2},
	{"uint32", "KUint32", reflect.TypeOf(uint32(0)), false, false, 32, 3},
	{"uint64", "KUint64", reflect.TypeOf(uint64(0)), false, false, 64, 4},
	{"int", "KInt", reflect.TypeOf(int(0)), true, false, 64, 8},
	{"int8", "KInt8", reflect.TypeOf(int8(0)), true, false, 8, 5},
	{"int16", "KInt16", reflect.TypeOf(int16(0)), true, false, 16, 6},
	{"int32", "KInt32", reflect.TypeOf(int32(0)), true, false, 32, 7},
	{"int64", "KInt64", reflect.TypeOf(int64(0)), true, false, 64, 8},
	{"float32", "KF32", reflect.TypeOf(float32(0)), false, true, 32, 9},
	{"float64", "KF64", reflect.TypeOf(float64(0)), false, true, 64, 10},
}

func kindOf(v interface{}) *kindInfo {
	if v == nil {
		return nil
	}
	t := reflect.TypeOf(v)
	for i := range kinds {
		if kinds[i].t == t {
			return &kinds[i]
		}
	}
	return nil
}

// grid of boundary values of a kind
func gridOf(k *kindInfo, rng *rand.Rand, extra int) []interface{} {
	var out []interface{}
	add := func(v reflect.Value) { out = append(out, v.Convert(k.t).Interface()) }
	if k.float {
		fs := []float64{0, math.Copysign(0, -1), 1, -1, 0.5, 1.5, -2.5, 3e9, 16777216, 16777217, 16777218, 2147483648, 4294967296, 1e19, -1e19,
			math.MaxFloat32, math.SmallestNonzeroFloat32, math.Inf(1), math.Inf(-1), math.NaN(), 300, 44}
		if k.width == 64 {
			fs = append(fs, math.MaxFloat64, math.SmallestNonzeroFloat64, 9007199254740993, 0.1)
		}
		for _, f := range fs {
			add(reflect.ValueOf(f))
		}
		for i := 0; i < extra; i++ {
			add(reflect.ValueOf(math.Float64frombits(rng.Uint64())))
		}
		return out
	}
	if k.signed {
		min := int64(-1) << uint(k.width-1)
		max := -(min + 1)
		cands := []int64{0, 1, -1, 2, -2, 7, 44, 127, 128, -128, -129, 255, 256, 300, -300, 32767, 32768, -32768, 65535, 65536, 1 << 24, 1<<24 + 1, -(1<<24 + 1),
			1<<31 - 1, 1 << 31, -(1 << 31), 1<<32 - 1, 1 << 32, 1<<53 + 1, min, min + 1, max, max - 1}
		for _, c := range cands {
			if c >= min && c <= max {
				add(reflect.ValueOf(c))
			}
		}
		for i := 0; i < extra; i++ {
			add(reflect.ValueOf(int64(rng.Uint64()) >> uint(64-k.width)))
		}
		return out
	}
	max := uint64(math.MaxUint64) >> uint(64-k.width)
	cands := []uint64{0, 1, 2, 7, 44, 127, 128, 255, 256, 300, 32767, 32768, 65535, 65536, 1 << 24, 1<<24 + 1, 1<<31 - 1, 1 << 31, 1<<32 - 1, 1 << 32,
		1<<53 + 1, 1<<63 - 1, 1 << 63, 1<<63 + 1, max, max - 1}
	for _, c := range cands {
		if c <= max {
			add(reflect.ValueOf(c))
		}
	}
	for i := 0; i < extra; i++ {
		add(reflect.ValueOf(rng.Uint64() >> uint(64-k.width)))
	}
	return out
}

type c14op struct {
	src    string // operator as written in expr
	helper string // Coq helper constructor ("" = not a helper)
	arith  bool
}

var c14ops = []c14op{
	{"==", "HEqual", false}, {"<", "HLess", false}, {">", "HMore", false}, {"<=", "HLessOrEqual", false},
	{">=", "HMoreOrEqual", false}, {"+", "HAdd", true}, {"-", "HSubtract", true}, {"*", "HMultiply", true},
	{"/", "HDivide", true}, {"%", "HModulo", true}, {"!=", "", false}, {"**", "", true},
}

// ---- the reference rule, computed with Go's own conversions and operators ----
func refConvert(v interface{}, k *kindInfo) interface{} {
	return reflect.ValueOf(v).Convert(k.t).Interface()
}

// refApply: both operands already of kind k.  Returns value or error class.
func refApply(op string, k *kindInfo, a, b interface{}) (interface{}, string) {
	va, vb := reflect.ValueOf(a), reflect.ValueOf(b)
	if k.float {
		x, y := va.Float(), vb.Float()
		if k.width == 32 {
			x32, y32 := float32(x), float32(y)
			switch op {
			case "==":
				return x32 == y32, ""
			case "!=":
				return x32 != y32, ""
			case "<":
				return x32 < y32, ""
			case ">":
				return x32 > y32, ""
			case "<=":
				return x32 <= y32, ""
			case ">=":
				return x32 >= y32, ""
			case "+":
				return x32 + y32, ""
			case "-":
				return x32 - y32, ""
			case "*":
				return x32 * y32, ""
			case "/":
				return x32 / y32, ""
			}
			return nil, "invalid"
		}
		switch op {
		case "==":
			return x == y, ""
		case "!=":
			return x != y, ""
		case "<":
			return x < y, ""
		case ">":
			return x > y, ""
		case "<=":
			return x <= y, ""
		case ">=":
			return x >= y, ""
		case "+":
			return x + y, ""
		case "-":
			return x - y, ""
		case "*":
			return x * y, ""
		case "/":
			return x / y, ""
		}
		return nil, "invalid"
	}
	back := func(v reflect.Value) interface{} { return v.Convert(k.t).Interface() }
	if k.signed {
		x, y := va.Int(), vb.Int()
		switch op {
		case "==":
			return x == y, ""
		case "!=":
			return x != y, ""
		case "<":
			return x < y, ""
		case ">":
			return x > y, ""
		case "<=":
			return x <= y, ""
		case ">=":
			return x >= y, ""
		case "+":
			return back(reflect.ValueOf(x + y)), ""
		case "-":
			return back(reflect.ValueOf(x - y)), ""
		case "*":
			return back(reflect.ValueOf(x * y)), ""
		case "/":
			if y == 0 {
				return nil, "divzero"
			}
			return back(reflect.ValueOf(x / y)), ""
		case "%":
			if y == 0 {
				return nil, "divzero"
			}
			if y == -1 {
				return back(reflect.ValueOf(int64(0))), ""
			}
			return back(reflect.ValueOf(x % y)), ""
		}
		return nil, "invalid"
	}
	x, y := va.Uint(), vb.Uint()
	switch op {
	case "==":
		return x == y, ""
	case "!=":
		return x != y, ""
	case "<":
		return x < y, ""
	case ">":
		return x > y, ""
	case "<=":
		return x <= y, ""
	case ">=":
		return x >= y, ""
	case "+":
		return back(reflect.ValueOf(x + y)), ""
	case "-":
		return back(reflect.ValueOf(x - y)), ""
	case "*":
		return back(reflect.ValueOf(x * y)), ""
	case "/":
		if y == 0 {
			return nil, "divzero"
		}
		return back(reflect.ValueOf(x / y)), ""
	case "%":
		if y == 0 {
			return nil, "divzero"
		}
		return back(reflect.ValueOf(x % y)), ""
	}
	return nil, "invalid"
}

// refRule: candidates allowed by the property for `x op y` (two on a rank tie of distinct kinds).
func refRule(op string, x, y interface{}) (vals []interface{}, errs []string) {
	kx, ky := kindOf(x), kindOf(y)
	if op == "**" {
		fx := reflect.ValueOf(x).Convert(kinds[11].t).Float()
		fy := reflect.ValueOf(y).Convert(kinds[11].t).Float()
		return []interface{}{math.Pow(fx, fy)}, []string{""}
	}
	if op == "%" && (kx.float || ky.float) {
		return []interface{}{nil}, []string{"invalid"}
	}
	var Ks []*kindInfo
	switch {
	case kx.rank > ky.rank:
		Ks = []*kindInfo{kx}
	case ky.rank > kx.rank:
		Ks = []*kindInfo{ky}
	case kx == ky:
		Ks = []*kindInfo{kx}
	default:
		Ks = []*kindInfo{kx, ky}
	}
	for _, K := range Ks {
		v, e := refApply(op, K, refConvert(x, K), refConvert(y, K))
		vals = append(vals, v)
		errs = append(errs, e)
	}
	return
}

func sameValue(a, b interface{}) bool {
	if a == nil || b == nil {
		return a == nil && b == nil
	}
	if reflect.TypeOf(a) != reflect.TypeOf(b) {
		return false
	}
	switch x := a.(type) {
	case float64:
		y := b.(float64)
		return math.Float64bits(x) == math.Float64bits(y) || (x != x && y != y)
	case float32:
		y := b.(float32)
		return math.Float32bits(x) == math.Float32bits(y) || (x != x && y != y)
	}
	return a == b
}

func errClass(err error) string {
	if err == nil {
		return ""
	}
	m := err.Error()
	switch {
	case strings.Contains(m, "integer divide by zero"):
		return "divzero"
	case strings.Contains(m, "invalid operation"):
		return "invalid"
	}
	return "other:" + m
}

// ---- Coq serialisation of numbers ----
func coqFloat(f float64) string {
	switch {
	case f != f:
		return "nan"
	case math.IsInf(f, 1):
		return "infinity"
	case math.IsInf(f, -1):
		return "neg_infinity"
	case f == 0 && math.Signbit(f):
		return "(-0)%float"
	case f == 0:
		return "0%float"
	case f < 0:
		return "(-" + strconv.FormatFloat(-f, 'x', -1, 64) + ")%float"
	}
	return "(" + strconv.FormatFloat(f, 'x', -1, 64) + ")%float"
}

func coqNum(v interface{}) string {
	k := kindOf(v)
	rv := reflect.ValueOf(v)
	switch {
	case k.float:
		return fmt.Sprintf("(NFlt %s %s)", k.coq, coqFloat(rv.Float()))
	case k.signed:
		if rv.Int() < 0 {
			return fmt.Sprintf("(NInt %s (%d))", k.coq, rv.Int())
		}
		return fmt.Sprintf("(NInt %s %d)", k.coq, rv.Int())
	}
	return fmt.Sprintf("(NInt %s %d)", k.coq, rv.Uint())
}

func coqObs(v interface{}, err error) string {
	if err != nil {
		switch errClass(err) {
		case "divzero":
			return "ONres NRDivZero"
		case "invalid":
			return "OFallthroughPanic"
		}
		return "OOther"
	}
	if b, ok := v.(bool); ok {
		if b {
			return "ONres (NRBool true)"
		}
		return "ONres (NRBool false)"
	}
	if kindOf(v) != nil {
		return "ONres (NRNum " + coqNum(v) + ")"
	}
	return "OOther"
}

func inKnownRank(kx, ky *kindInfo) bool {
	narrow := func(k *kindInfo) bool { return !k.float && k.width < 64 }
	if kx.name == "uint" && narrow(ky) && !ky.signed || ky.name == "uint" && narrow(kx) && !kx.signed {
		return true
	}
	if kx.name == "int" && narrow(ky) && ky.signed || ky.name == "int" && narrow(kx) && kx.signed {
		return true
	}
	return false
}

func fmtVal(v interface{}) string { return fmt.Sprintf("%T(%v)", v, v) }

func runC14() {
	rep := newReport("C14")
	rng := rand.New(rand.NewSource(*seed))
	extra, perTriple := 2, 4
	if *tier == "thorough" {
		extra, perTriple = 12, 30
	}
	// programs, untyped (generic helpers) per operator
	progs := map[string]*vm.Program{}
	for _, op := range c14ops {
		p, err := expr.Compile("a " + op.src + " b")
		if err != nil {
			panic(err)
		}
		progs[op.src] = p
	}
	negProg, err := expr.Compile("-a")
	if err != nil {
		panic(err)
	}
	distinct := map[string]bool{}
	var cases []string
	type cand struct {
		x, y interface{}
		got  interface{}
		err  error
	}
	for xi := range kinds {
		kx := &kinds[xi]
		gx := gridOf(kx, rng, extra)
		// unary minus
		for _, x := range gx {
			got, err := vm.Run(negProg, map[string]interface{}{"a": x})
			rep.Evaluations++
			var want interface{}
			rv := reflect.ValueOf(x)
			switch {
			case kx.float:
				want = reflect.ValueOf(-rv.Float()).Convert(kx.t).Interface()
			case kx.signed:
				want = reflect.ValueOf(-rv.Int()).Convert(kx.t).Interface()
			default:
				want = reflect.ValueOf(-rv.Uint()).Convert(kx.t).Interface()
			}
			if err != nil || !sameValue(got, want) {
				rep.fail(Failure{Key: "C14-neg-" + kx.name, What: "unary minus", Input: map[string]string{"expr": "-a", "a": fmtVal(x)},
					Want: fmtVal(want), Got: fmt.Sprintf("%v / %v", fmtVal(got), err)})
			}
			if err == nil {
				cases = append(cases, fmt.Sprintf("CNeg %s (%s)", coqNum(x), coqObs(got, err)))
			}
			distinct["neg/"+fmtVal(x)] = true
		}
		for yi := range kinds {
			ky := &kinds[yi]
			gy := gridOf(ky, rng, extra)
			env := map[string]interface{}{"a": gx[0], "b": gy[0]}
			for _, op := range c14ops {
				// typed compilation: what kind does the checker predict?
				var predicted reflect.Type
				tree, perr := parser.Parse("a " + op.src + " b")
				if perr == nil {
					predicted, _ = checker.Check(tree, conf.New(env))
				}
				typedProg, terr := expr.Compile("a "+op.src+" b", expr.Env(env))
				var pool []cand
				for _, x := range gx {
					for _, y := range gy {
						e := map[string]interface{}{"a": x, "b": y}
						got, err := vm.Run(progs[op.src], e)
						rep.Evaluations++
						rep.hist("op " + op.src)
						wants, werrs := refRule(op.src, x, y)
						ok := false
						for i := range wants {
							if werrs[i] == "" && err == nil && sameValue(got, wants[i]) {
								ok = true
							}
							if werrs[i] != "" && errClass(err) == werrs[i] {
								ok = true
							}
						}
						key := fmt.Sprintf("%s/%s/%s/%s/%s", op.src, kx.name, fmtVal(x), ky.name, fmtVal(y))
						if !distinct[key] && kx != ky {
							distinct[key] = true
						}
						if !ok {
							fk := "C14-other"
							if inKnownRank(kx, ky) {
								fk = "C14-rank"
							}
							rep.fail(Failure{Key: fk, What: "run-time result differs from the promotion rule",
								Input: map[string]string{"expr": "a " + op.src + " b", "a": fmtVal(x), "b": fmtVal(y)},
								Want:  fmt.Sprintf("%v %v", wants, werrs), Got: fmt.Sprintf("%s / %v", fmtVal(got), err)})
						}
						// typed program must agree with the untyped one and with the predicted kind
						if terr == nil {
							tgot, terr2 := vm.Run(typedProg, e)
							rep.Evaluations++
							if (terr2 == nil) != (err == nil) || (err == nil && !sameValue(got, tgot)) {
								rep.fail(Failure{Key: "C14-typed", What: "typed and untyped compilation disagree",
									Input: map[string]string{"expr": "a " + op.src + " b", "a": fmtVal(x), "b": fmtVal(y)},
									Want:  fmt.Sprintf("%s / %v", fmtVal(got), err), Got: fmt.Sprintf("%s / %v", fmtVal(tgot), terr2)})
							}
							if terr2 == nil && predicted != nil && reflect.TypeOf(tgot) != predicted {
								rep.fail(Failure{Key: "C14-kind", What: "result kind differs from the checker's prediction",
									Input: map[string]string{"expr": "a " + op.src + " b", "a": fmtVal(x), "b": fmtVal(y)},
									Want:  predicted.String(), Got: fmt.Sprintf("%T", tgot)})
							}
						} else if !(op.src == "%" && (kx.float || ky.float)) {
							rep.fail(Failure{Key: "C14-typed-reject", What: "typed compilation rejected numeric operands",
								Input: map[string]string{"expr": "a " + op.src + " b", "a": kx.name, "b": ky.name}, Want: "accepted", Got: terr.Error()})
						}
						if op.helper != "" {
							pool = append(pool, cand{x, y, got, err})
						}
					}
				}
				if op.helper != "" {
					for i := 0; i < perTriple && len(pool) > 0; i++ {
						c := pool[rng.Intn(len(pool))]
						cases = append(cases, fmt.Sprintf("CBin %s %s %s (%s)", op.helper, coqNum(c.x), coqNum(c.y), coqObs(c.got, c.err)))
					}
				}
			}
		}
	}
	// ---- operands written as SOURCE LITERALS (an integer literal is an int, whatever the other operand's kind), in both
	//      operand orders, typed and untyped, optimizer on; and left-associative CHAINS with two literals (judged by
	//      applying the rule twice: no re-association)
	run1 := func(src string, typed bool, x interface{}) (interface{}, error, bool) {
		env := map[string]interface{}{"a": x}
		var p *vm.Program
		var err error
		if typed {
			p, err = expr.Compile(src, expr.Env(env))
		} else {
			p, err = expr.Compile(src)
		}
		if err != nil {
			return nil, err, false
		}
		out, rerr := vm.Run(p, env)
		return out, rerr, true
	}
	judge := func(src string, typed bool, x interface{}, wants []interface{}, werrs []string, known bool, what string) {
		got, err, compiled := run1(src, typed, x)
		rep.Evaluations++
		rep.hist(what)
		if !compiled {
			if len(werrs) > 0 && werrs[0] == "invalid" {
				return // float % : rejected at compile time when typed
			}
			rep.fail(Failure{Key: "C14-typed-reject", What: "compilation rejected numeric operands", Input: map[string]interface{}{"expr": src, "a": fmtVal(x), "typed": typed}, Want: "accepted", Got: err.Error()})
			return
		}
		ok := false
		for i := range wants {
			if werrs[i] == "" && err == nil && sameValue(got, wants[i]) {
				ok = true
			}
			if werrs[i] != "" && errClass(err) == werrs[i] {
				ok = true
			}
		}
		if !ok {
			fk := "C14-other"
			if known {
				fk = "C14-rank"
			}
			rep.fail(Failure{Key: fk, What: "run-time result differs from the promotion rule (" + what + ")",
				Input: map[string]interface{}{"expr": src, "a": fmtVal(x), "typed": typed}, Want: fmt.Sprintf("%v %v", wants, werrs), Got: fmt.Sprintf("%s / %v", fmtVal(got), err)})
		}
	}
	kInt := &kinds[5]
	lits := []int{0, 1, -1, 2, 127, 128, 255, 256, 300, -129, 32768, 65536, 2147483648, 4294967296, -5, 9223372036854775807}
	for xi := range kinds {
		kx := &kinds[xi]
		gx := gridOf(kx, rng, 0)
		for _, op := range c14ops {
			for _, l := range lits {
				ls := fmt.Sprint(l)
				if l < 0 {
					ls = "(" + ls + ")"
				}
				for _, x := range gx {
					for _, typed := range []bool{true, false} {
						w, e := refRule(op.src, x, l)
						judge("a "+op.src+" "+ls, typed, x, w, e, inKnownRank(kx, kInt), "literal right operand")
						w, e = refRule(op.src, l, x)
						judge(ls+" "+op.src+" a", typed, x, w, e, inKnownRank(kInt, kx), "literal left operand")
					}
				}
			}
		}
		// chains: (a op l1) op l2, evaluated left to right
		for _, ch := range []struct {
			op     string
			l1, l2 int
		}{{"+", 1, 1}, {"-", 1, 1}, {"*", 3, 3}, {"+", 1, 2}, {"+", 0, 0}, {"*", 1, 1}, {"/", 1, 1}} {
			for _, x := range append(gx, edgeFloats(kx)...) {
				w1, e1 := refRule(ch.op, x, ch.l1)
				var wants []interface{}
				var werrs []string
				for i := range w1 {
					if e1[i] != "" {
						wants, werrs = append(wants, nil), append(werrs, e1[i])
						continue
					}
					w2, e2 := refRule(ch.op, w1[i], ch.l2)
					wants, werrs = append(wants, w2...), append(werrs, e2...)
				}
				for _, typed := range []bool{true, false} {
					judge(fmt.Sprintf("a %s %d %s %d", ch.op, ch.l1, ch.op, ch.l2), typed, x, wants, werrs, inKnownRank(kx, kInt), "chain of two literals")
				}
			}
		}
	}
	// ---- a NEGATED operand under a binary operator (`a op -b`, `-a op b`): the negation is computed in the operand's OWN kind
	//      (it wraps at the kind's minimum) and THEN the pair is promoted - `x - -y` is not `x + y` when y is the minimum of a
	//      narrower kind.  All ordered kind pairs, boundary grids, typed and untyped.
	{
		refNeg := func(k *kindInfo, v interface{}) interface{} {
			rv := reflect.ValueOf(v)
			switch {
			case k.float:
				return reflect.ValueOf(-rv.Float()).Convert(k.t).Interface()
			case k.signed:
				return reflect.ValueOf(-rv.Int()).Convert(k.t).Interface()
			}
			return reflect.ValueOf(-rv.Uint()).Convert(k.t).Interface()
		}
		run2 := func(src string, typed bool, x, y interface{}) (interface{}, error, bool) {
			env := map[string]interface{}{"a": x, "b": y}
			var p *vm.Program
			var err error
			if typed {
				p, err = expr.Compile(src, expr.Env(env))
			} else {
				p, err = expr.Compile(src)
			}
			if err != nil {
				return nil, err, false
			}
			out, rerr := vm.Run(p, env)
			return out, rerr, true
		}
		for xi := range kinds {
			for yi := range kinds {
				kx, ky := &kinds[xi], &kinds[yi]
				gx, gy := gridOf(kx, rng, 0), gridOf(ky, rng, 0)
				for _, op := range []string{"-", "+", "*", "==", "<"} {
					for n := 0; n < 10; n++ {
						x, y := gx[rng.Intn(len(gx))], gy[rng.Intn(len(gy))]
						if n < 4 { // the extrema of both grids first
							x, y = gx[(n*7)%len(gx)], gy[n%len(gy)]
						}
						if n == 4 || n == 5 {
							y = reflect.ValueOf(minOfKind(ky)).Convert(ky.t).Interface()
						}
						for form := 0; form < 2; form++ {
							src, l, r := "a "+op+" -b", x, refNeg(ky, y)
							if form == 1 {
								src, l, r = "-a "+op+" b", refNeg(kx, x), y
							}
							wants, werrs := refRule(op, l, r)
							for _, typed := range []bool{true, false} {
								got, err, compiled := run2(src, typed, x, y)
								rep.Evaluations++
								rep.hist("negated operand under a binary operator")
								if !compiled {
									continue
								}
								ok := false
								for i := range wants {
									if (werrs[i] == "" && err == nil && sameValue(got, wants[i])) || (werrs[i] != "" && errClass(err) == werrs[i]) {
										ok = true
									}
								}
								if !ok {
									fk := "C14-other"
									if inKnownRank(kx, ky) {
										fk = "C14-rank"
									}
									rep.fail(Failure{Key: fk, What: "run-time result differs from the promotion rule (negated operand: negate in the operand's kind, then promote)",
										Input: map[string]interface{}{"expr": src, "a": fmtVal(x), "b": fmtVal(y), "typed": typed}, Want: fmt.Sprintf("%v %v", wants, werrs), Got: fmt.Sprintf("%s / %v", fmtVal(got), err)})
								}
							}
						}
					}
				}
			}
		}
	}
	rep.Distinct = len(distinct)
	rep.Exhaustive = true
	rep.Rule = "exhaustive over the 12x12 ordered kind pairs x 12 binary operators (10 helpers, !=, **) and 12 kinds x unary minus; per kind a grid of boundary values (0, +-1, extrema, values that truncate or change sign under conversion, non-representable float32 values, NaN, infinities) plus seeded random values; every value pair of the grids is run through expr (untyped and Env-typed compilation) and judged against Go's own conversion+operator after the property's rank; distinct_nontrivial counts distinct (op, x, y) with operands of two different kinds; a seeded sample per (helper, kx, ky) is also evaluated in the Coq model instantiated with the regenerated table; plus 12 kinds x 12 operators x 16 integer LITERALS in both operand orders and 7 left-associative chains of two literals (floats at 2^24 / 2^53 / 1e16 included), typed and untyped with the optimizer on, judged by the same rule with the literal as an int"
	for i := 0; i < 6 && i < len(cases); i++ {
		rep.Samples = append(rep.Samples, cases[(i*7919)%len(cases)])
	}
	rep.writeShards("cases_c14", "From Coq Require Import ZArith List Floats.\nRequire Import X.Base.Num X.gen.GenHelpers X.Corr.CorrC14.\nImport ListNotations.\nOpen Scope Z_scope.\n", "c14case", "c14_mismatches", cases)
	rep.write()
}

// minOfKind: the most negative value of a signed integer kind (0 for unsigned kinds, -MaxFloat for floats)
func minOfKind(k *kindInfo) interface{} {
	switch {
	case k.float && k.width == 32:
		return float32(-math.MaxFloat32)
	case k.float:
		return -math.MaxFloat64
	case !k.signed:
		return uint64(0)
	}
	return int64(-1) << uint(k.width-1)
}

// floats at the edge of exact integer representation (two roundings differ from one)
func edgeFloats(k *kindInfo) []interface{} {
	switch k.name {
	case "float32":
		return []interface{}{float32(16777216), float32(-16777216), float32(33554432)}
	case "float64":
		return []interface{}{float64(9007199254740992), float64(1e16), float64(-9007199254740992), float64(0.1)}
	}
	return nil
}

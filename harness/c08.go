package main

// C08 — a compiled program can be run concurrently.
//
// The check runs the REAL code under the Go race detector.  tools/check.py builds the harness
// without -race, so `harness c08` re-executes a race-enabled child:
//     go build -race -tags verif -o <verif>/bin/harness-race .      (CGO_ENABLED=1)
//     GORACE="halt_on_error=0 log_path=<out>/race" harness-race c08 -c08child ...
// The child compiles a shared set of programs whose constants cover every kind (regexps, folded
// []int / []string slices, `in` lookup maps, vm.Call descriptors, ranges), lets N goroutines run all
// (program, environment) pairs M times in different orders on the SAME, never-run-before program
// and environment values (a lazily filled cache is written on FIRST use), evaluates every pair
// sequentially afterwards, compares every result with the sequential one, and does the same for concurrent expr.Compile calls that share one options
// slice and one environment value (also while other goroutines run programs on that value).
// Any race report, any differing result, any crash of the child is a failing input.
// Environment functions are pure here (the logging functions of universe.go write a global).

import (
	"encoding/json"
	"flag"
	"fmt"
	"math/rand"
	"os"
	"os/exec"
	"path/filepath"
	"sort"
	"strings"
	"sync"
	"time"

	"github.com/antonmedv/expr"
	"github.com/antonmedv/expr/vm"
)

var c08child = flag.Bool("c08child", false, "internal: the race-enabled child of `harness c08`")

func init() { commands["c08"] = runC08 }

// ---------------------------------------------------------------- shared, read-only inputs
func installPureFuncs(e *Env) {
	e.Add = func(a, b int) int { return a + b }
	e.Inc = func(a int) int { return a + 1 }
	e.Concat = func(a, b string) string { return a + b }
	e.IsPos = func(a int) bool { return a > 0 }
	e.Fast = func(args ...interface{}) interface{} { return len(args) }
	e.Sum = func(xs ...int) int {
		s := 0
		for _, x := range xs {
			s += x
		}
		return s
	}
	e.Boom = func(a int) int { panic("boom") }
	e.Id = func(x interface{}) interface{} { return x }
	e.Half = func(x float64) float64 { return x / 2 }
}

func c08Envs(rng *rand.Rand) []*Env {
	envs := []*Env{baseEnv(), boundaryEnv(), scrambledEnv(), randomEnv(rng)}
	for _, e := range envs {
		installPureFuncs(e)
	}
	return envs
}

func c08MapEnv() map[string]interface{} {
	in := &Inner{X: 7, Y: "in", Next: &Inner{X: 8, Y: "nx"}}
	return map[string]interface{}{
		"I": 3, "F64": 2.25, "S": "abc", "S2": "b", "B": true, "AI": []int{1, 2, 3, 4}, "AS": []string{"a", "b", "abc"},
		"AA": []interface{}{1, "a", nil, 2.5, true}, "MI": map[string]int{"a": 1, "b": 2},
		"MA": map[string]interface{}{"k": 1, "s": "v", "n": nil}, "P": in, "St": Inner{X: 1, Y: "st", Next: in},
		"Add": func(a, b int) int { return a + b }, "Fast": func(args ...interface{}) interface{} { return len(args) },
		"Id": func(x interface{}) interface{} { return x },
	}
}

// sources whose compiled form contains every kind of constant and every kind of run-time allocation
var c08Fixed = []string{
	`S matches "^a"`, `"abc" matches "a.c"`, `S matches "[0-9]" or S2 matches "b$"`, `S matches S2`,
	`I in [1, 2, 3]`, `I not in [5, 6, 7]`, `S in ["a", "b", "abc"]`, `S2 not in ["x", "y"]`,
	`[1, 2, 3][I % 3]`, `len([1, 2, 3, 4])`, `["a", "b"][0] + S`, `[1, 2, 3] == AI`, `len(["a", "b", "c"])`,
	`Add(I, 2)`, `Fast(1, S, nil)`, `Sum(1, 2, 3)`, `Id(AA)`, `Inc(Inc(I))`, `Concat(S, "x")`, `IsPos(I)`, `Half(F64)`, `Boom(1)`,
	`1..5`, `I in 1..10`, `len(1..7)`, `(1..3)[1]`, `5..1`, `count(1..50, {# % 2 == 0})`,
	`filter(AI, {# > 1})`, `map(AI, {# * 2})`, `all(AS, {len(#) > 0})`, `any(AA, {# == nil})`, `none(AI, {# > 100})`,
	`one(AI, {# == 2})`, `map(filter(1..20, {# % 3 == 0}), {# + I})`, `filter(AS, {# matches "^a"})`,
	`map(AI, {filter(AI, {# > 2})})`, `count(AI, {# in [1, 3]})`,
	`MI["a"]`, `MI["zz"]`, `MA.k`, `MA["missing"]`, `{"a": I, "b": S, "c": [1, 2]}`, `{"k": AI}.k`, `P.Next.X`, `St.Y`, `P?.Next?.Y`, `St.Next?.Next`,
	`AI[1:3]`, `AI[:2]`, `AA[0]`, `S[1:]`, `AA[1:][0]`, `AS[len(AS) - 1]`, `"a" in MI`, `"X" in St`, `"k" in MA`,
	`I + 1 > 2 ? S : S2`, `B and not B2`, `-I ** 2`, `F64 * 2 + I`, `I / 0`, `I % 0`, `AI[10]`, `nil == P`, `Any`,
	`S + S2 contains "b"`, `S startsWith "a" && S endsWith "c"`, `[I, S, nil, 1.5, [1, 2]]`, `len(S) + len(AI)`,
	`not (I in AI)`, `AA == [1, "a", nil, 2.5, true]`,
	// runs that end with the memory-budget error, at different places of different programs
	`len(1..(I - I + 2000000))`, `[1, 2, len((I - I)..1000000)]`, `map(1..2, {len(#..(I - I + 1500000))})`,
}

// methods of the universe log their calls into a package-level slice of the harness: not here
func c08Pure(src string) bool {
	for _, bad := range []string{"Twice(", "PtrM(", ".Get()", "Boom("} {
		if strings.Contains(src, bad) {
			return false
		}
	}
	return true
}

func c08Sources(rng *rand.Rand, nRandom int) []string {
	srcs := append([]string{}, c08Fixed...)
	g := &egen{rng: rng, wrong: 10}
	for len(srcs) < len(c08Fixed)+nRandom {
		t := []gtype{tBool, tInt, tNum, tStr, tArrInt, tArrAny, tAny}[rng.Intn(7)]
		s := g.expr(t, 2+rng.Intn(3))
		if c08Pure(s) {
			srcs = append(srcs, s)
		}
	}
	return srcs
}

type c08Prog struct {
	Src    string
	Mode   string
	MapEnv bool
	Prog   *vm.Program
	Text   string // cqProgram of the sequential compilation
}

type c08Mismatch struct {
	Kind string `json:"kind"`
	Src  string `json:"src"`
	Mode string `json:"mode"`
	Env  int    `json:"env"`
	Want string `json:"want"`
	Got  string `json:"got"`
	Gor  int    `json:"goroutine"`
}

type c08ChildReport struct {
	Programs     int            `json:"programs"`
	Pairs        int            `json:"pairs"`
	Runs         int            `json:"runs"`
	Compiles     int            `json:"compiles"`
	Goroutines   int            `json:"goroutines"`
	Rounds       int            `json:"rounds"`
	ConstKinds   map[string]int `json:"const_kinds"`
	ResultKinds  map[string]int `json:"result_kinds"`
	Mismatches   []c08Mismatch  `json:"mismatches"`
	MismatchSeen int            `json:"mismatch_count"`
	Samples      []string       `json:"samples"`
	Finished     bool           `json:"finished"`
}

func c08Result(out interface{}, err error) string {
	if err != nil {
		return "ERR " + err.Error()
	}
	return "OK " + cqValue(out)
}

func c08ConstKind(c interface{}) string {
	switch c.(type) {
	case vm.Call:
		return "vm.Call"
	}
	return fmt.Sprintf("%T", c)
}

// the workload of the race-enabled child.  Everything happens CONCURRENTLY FIRST and sequentially
// afterwards: a lazily filled cache (in the program, in a package-level table keyed by the
// environment type, ...) is written on first use, so the first use must be the contended one.
func c08Child() {
	rng := rand.New(rand.NewSource(*seed))
	G, M, nRandom := 12, 2, 120
	if *tier == "thorough" {
		G, M, nRandom = 24, 6, 1200
	}
	cr := &c08ChildReport{Goroutines: G, Rounds: M, ConstKinds: map[string]int{}, ResultKinds: map[string]int{}}
	envs := c08Envs(rng)
	menv := c08MapEnv()
	srcs := c08Sources(rng, nRandom)
	sample := envs[0]

	// ONE options slice per mode, shared by every Compile call of every goroutine
	modes := []coreMode{modeUntyped, modeTyped, modeTypedOpt}
	opts := map[string][]expr.Option{}
	for _, m := range modes {
		opts[m.Name] = m.options(sample)
	}
	opts["mapenv+opt"] = []expr.Option{expr.Env(menv), expr.Optimize(true)}
	// the SAME operator given in two options, the first from a caller-owned slice with spare capacity: every Compile
	// call builds its own candidate list (it must not be assembled inside the caller's backing array)
	opList := make([]string, 1, 8)
	opList[0] = "Add"
	opts["typed+ops-twice"] = []expr.Option{expr.Env(sample), expr.Operator("+", opList...), expr.Operator("+", "Concat"), expr.Operator("-", opList...), expr.Operator("-", "Add")}
	modeNames := []string{"untyped", "typed", "typed+opt", "mapenv+opt", "typed+ops-twice"}

	// everything shared is snapshotted before the first use
	envSnap := make([]string, len(envs))
	for i, e := range envs {
		envSnap[i] = deepSnapshot(e)
	}
	menvSnap := deepSnapshot(menv)

	var mu sync.Mutex // guards the counters and cr.Mismatches (taken after a goroutine has finished a batch)
	var runs, compiles int
	report := func(ms []c08Mismatch, r, c int) {
		mu.Lock()
		runs += r
		compiles += c
		cr.MismatchSeen += len(ms)
		for _, m := range ms {
			if len(cr.Mismatches) < 20 {
				cr.Mismatches = append(cr.Mismatches, m)
			}
		}
		mu.Unlock()
	}
	compileText := func(src, mn string) string {
		p, err := expr.Compile(src, opts[mn]...)
		if err != nil {
			return "ERR " + err.Error()
		}
		return cqProgram(p)
	}
	var wg sync.WaitGroup

	// phase 0: the FIRST compilations of this process, against every environment type, happen concurrently
	nFirst := 48
	if nFirst > len(srcs) {
		nFirst = len(srcs)
	}
	firstTexts := make([][]string, G)
	for g := 0; g < G; g++ {
		wg.Add(1)
		go func(g int) {
			defer wg.Done()
			out := make([]string, 0, nFirst*len(modeNames))
			for i := 0; i < nFirst; i++ {
				for _, mn := range modeNames {
					out = append(out, compileText(srcs[i], mn))
				}
			}
			firstTexts[g] = out
			report(nil, 0, len(out))
		}(g)
	}
	wg.Wait()

	// the shared programs (compiled once, sequentially; never run before phase 1)
	var progs []c08Prog
	for _, src := range srcs {
		for _, mn := range modeNames {
			p, err := expr.Compile(src, opts[mn]...)
			if err != nil {
				continue
			}
			progs = append(progs, c08Prog{Src: src, Mode: mn, MapEnv: mn == "mapenv+opt", Prog: p, Text: cqProgram(p)})
			for _, c := range p.Constants {
				cr.ConstKinds[c08ConstKind(c)]++
			}
		}
	}
	cr.Programs = len(progs)
	{
		k := 0
		var ms []c08Mismatch
		for i := 0; i < nFirst; i++ {
			for _, mn := range modeNames {
				want := compileText(srcs[i], mn)
				for g := 0; g < G; g++ {
					if firstTexts[g][k] != want {
						ms = append(ms, c08Mismatch{"compile", srcs[i], mn, -1, want, firstTexts[g][k], g})
					}
				}
				k++
			}
		}
		report(ms, 0, 0)
	}
	type pair struct{ p, e int }
	var pairs []pair
	envOf := func(pr c08Prog, e int) interface{} {
		if pr.MapEnv {
			return menv
		}
		return envs[e]
	}
	for pi, pr := range progs {
		ne := len(envs)
		if pr.MapEnv {
			ne = 1
		}
		for e := 0; e < ne; e++ {
			pairs = append(pairs, pair{pi, e})
		}
	}
	cr.Pairs = len(pairs)
	for i := 0; i < 6 && i < len(progs); i++ {
		cr.Samples = append(cr.Samples, progs[(i*131+7)%len(progs)].Src)
	}
	runPair := func(k int) string {
		pr := progs[pairs[k].p]
		out, err := vm.Run(pr.Prog, envOf(pr, pairs[k].e))
		return c08Result(out, err)
	}

	// phase 1: N goroutines x M rounds over all (program, environment) pairs; the first run of every
	// program is a concurrent one; results are judged afterwards
	got := make([][]string, G*M)
	for g := 0; g < G; g++ {
		wg.Add(1)
		go func(g int) {
			defer wg.Done()
			r := rand.New(rand.NewSource(*seed + int64(g)*7919))
			for m := 0; m < M; m++ {
				res := make([]string, len(pairs))
				for _, k := range r.Perm(len(pairs)) {
					res[k] = runPair(k)
				}
				got[g*M+m] = res
				report(nil, len(pairs), 0)
			}
		}(g)
	}
	wg.Wait()

	// the sequential reference
	want := make([]string, len(pairs))
	for k := range pairs {
		want[k] = runPair(k)
		if strings.HasPrefix(want[k], "ERR ") {
			cr.ResultKinds["error"]++
		} else {
			cr.ResultKinds["value"]++
		}
	}
	{
		var ms []c08Mismatch
		for gm, res := range got {
			for k, r := range res {
				if r != want[k] {
					pr := progs[pairs[k].p]
					ms = append(ms, c08Mismatch{"run", pr.Src, pr.Mode, pairs[k].e, want[k], r, gm / M})
				}
			}
		}
		report(ms, 0, 0)
	}

	runAll := func(g int, order []int) (ms []c08Mismatch, n int) {
		for _, k := range order {
			n++
			if r := runPair(k); r != want[k] {
				pr := progs[pairs[k].p]
				ms = append(ms, c08Mismatch{"run", pr.Src, pr.Mode, pairs[k].e, want[k], r, g})
			}
		}
		return
	}
	compileAll := func(g int, order []int) (ms []c08Mismatch, n int) {
		for _, k := range order {
			pr := progs[k]
			n++
			if got := compileText(pr.Src, pr.Mode); got != pr.Text {
				ms = append(ms, c08Mismatch{"compile", pr.Src, pr.Mode, -1, pr.Text, got, g})
			}
		}
		return
	}
	// phase 2: concurrent Compile calls sharing options and the environment value
	for g := 0; g < G; g++ {
		wg.Add(1)
		go func(g int) {
			defer wg.Done()
			r := rand.New(rand.NewSource(*seed + int64(g)*104729))
			ms, n := compileAll(g, r.Perm(len(progs)))
			report(ms, 0, n)
		}(g)
	}
	wg.Wait()
	// phase 3: compiles against the environment value while other goroutines run programs on it
	for g := 0; g < G; g++ {
		wg.Add(1)
		go func(g int) {
			defer wg.Done()
			r := rand.New(rand.NewSource(*seed + int64(g)*15485863))
			if g%2 == 0 {
				ms, n := runAll(g, r.Perm(len(pairs)))
				report(ms, n, 0)
			} else {
				ms, n := compileAll(g, r.Perm(len(progs)))
				report(ms, 0, n)
			}
		}(g)
	}
	wg.Wait()
	// phase 4: functions of the fast form that KEEP their argument slice (tuple / list constructors): what a run
	// returned belongs to the caller - later fast calls of any goroutine must not change it
	{
		fenv := map[string]interface{}{
			"Tuple": func(xs ...interface{}) interface{} { return xs },
			"Wrap":  func(xs ...interface{}) interface{} { return map[string]interface{}{"v": xs} },
		}
		for g := 0; g < G; g++ {
			wg.Add(1)
			go func(g int) {
				defer wg.Done()
				var ms []c08Mismatch
				n := 0
				base := 1000 * (g + 1)
				src := fmt.Sprintf("[Tuple(%d, %d), Tuple(%d), Wrap(%d, %d)]", base, base+1, base+2, base+3, base+4)
				want := fmt.Sprintf("[]interface {}{[]interface {}{%d, %d}, []interface {}{%d}, map[string]interface {}{\"v\":[]interface {}{%d, %d}}}", base, base+1, base+2, base+3, base+4)
				p, err := expr.Compile(src, expr.Env(fenv))
				if err != nil {
					ms = append(ms, c08Mismatch{"compile", src, "fast-retaining", -1, "a program", err.Error(), g})
					report(ms, 0, 1)
					return
				}
				var keep []interface{}
				for it := 0; it < 300; it++ {
					out, err := expr.Run(p, fenv)
					n++
					if got := fmt.Sprintf("%#v", out); err != nil || got != want {
						ms = append(ms, c08Mismatch{"run", src, "fast-retaining", -1, want, fmt.Sprintf("%s / %v", got, err), g})
						break
					}
					keep = append(keep, out)
					if len(keep) > 8 {
						keep = keep[1:]
					}
					for _, k := range keep {
						if got := fmt.Sprintf("%#v", k); got != want {
							ms = append(ms, c08Mismatch{"run", src, "fast-retaining (earlier result changed)", -1, want, got, g})
							keep = nil
							break
						}
					}
				}
				report(ms, n, 1)
			}(g)
		}
		wg.Wait()
	}
	// phase 5: ONE shared program whose member / method / call sites see receivers of DIFFERENT dynamic types at the same time
	// (interface{}-typed operands): whatever a site remembers about the receiver it met belongs to one run
	{
		type recv struct {
			obj  interface{}
			want string
		}
		recvs := []recv{{c08Cat{"tom"}, ""}, {&c08Dog{"rex", 3}, ""}, {c08Fish{}, ""}, {map[string]interface{}{"Name": func() string { return "m" }, "Label": "lm", "Legs": func() int { return 0 }}, ""}}
		src := "[Obj.Name(), Obj.Legs(), Obj.Label, Obj.Name() + \"!\", Obj?.Legs()]"
		p, err := expr.Compile(src)
		if err == nil {
			for i := range recvs {
				out, rerr := expr.Run(p, map[string]interface{}{"Obj": recvs[i].obj})
				recvs[i].want = fmt.Sprintf("%#v / %v", out, rerr)
			}
			for g := 0; g < G; g++ {
				wg.Add(1)
				go func(g int) {
					defer wg.Done()
					var ms []c08Mismatch
					n := 0
					for it := 0; it < 4000 && len(ms) == 0; it++ {
						r := recvs[(g+it)%len(recvs)]
						out, rerr := expr.Run(p, map[string]interface{}{"Obj": r.obj})
						n++
						if got := fmt.Sprintf("%#v / %v", out, rerr); got != r.want {
							ms = append(ms, c08Mismatch{"run", src, fmt.Sprintf("receivers of several dynamic types (this run: %T)", r.obj), -1, r.want, got, g})
						}
					}
					report(ms, n, 0)
				}(g)
			}
			wg.Wait()
		}
	}
	cr.Runs, cr.Compiles = runs, compiles

	// nothing shared was modified
	for i, e := range envs {
		if s := deepSnapshot(e); s != envSnap[i] {
			cr.MismatchSeen++
			cr.Mismatches = append(cr.Mismatches, c08Mismatch{"env-modified", "(all programs)", "", i, snapDiff(envSnap[i], s), "", -1})
		}
	}
	if s := deepSnapshot(menv); s != menvSnap {
		cr.MismatchSeen++
		cr.Mismatches = append(cr.Mismatches, c08Mismatch{"env-modified", "(all programs)", "mapenv+opt", 0, snapDiff(menvSnap, s), "", -1})
	}
	for _, pr := range progs {
		if cqProgram(pr.Prog) != pr.Text {
			cr.MismatchSeen++
			cr.Mismatches = append(cr.Mismatches, c08Mismatch{"program-modified", pr.Src, pr.Mode, -1, pr.Text, cqProgram(pr.Prog), -1})
			break
		}
	}
	cr.Finished = true
	b, _ := json.MarshalIndent(cr, "", " ")
	if err := os.WriteFile(filepath.Join(*outDir, "c08_child.json"), b, 0644); err != nil {
		panic(err)
	}
}

// receivers of phase 5: the methods Name / Legs sit at different indices of the three method sets
type c08Cat struct{ Label string }

func (c c08Cat) Legs() int    { return 4 }
func (c c08Cat) Name() string { return "cat " + c.Label }

type c08Dog struct {
	Label string
	N     int
}

func (d *c08Dog) Bark() string { return "wuff" }
func (d *c08Dog) Age() int     { return d.N }
func (d *c08Dog) Legs() int    { return 4 }
func (d *c08Dog) Name() string { return "dog " + d.Label }

type c08Fish struct{ Label string }

func (c08Fish) Name() string  { return "fish" }
func (c08Fish) Zebra() string { return "z" }
func (c08Fish) Legs() int     { return 0 }
func (c08Fish) Alpha() string { return "alpha" }

// ---------------------------------------------------------------- the parent
func c08HarnessDir() string {
	exe, err := os.Executable()
	if err != nil {
		return "/verif/harness"
	}
	exe, _ = filepath.EvalSymlinks(exe)
	return filepath.Join(filepath.Dir(filepath.Dir(exe)), "harness")
}

// the frames of a race report that lie in the library, for the failure description
func c08RaceSummary(text string) (first string, frames []string, reports int) {
	blocks := strings.Split(text, "==================")
	for _, b := range blocks {
		if !strings.Contains(b, "WARNING: DATA RACE") {
			continue
		}
		reports++
		if first == "" {
			first = strings.TrimSpace(b)
		}
	}
	seen := map[string]bool{}
	for _, line := range strings.Split(text, "\n") {
		l := strings.TrimSpace(line)
		if strings.HasPrefix(l, "github.com/antonmedv/expr") && !seen[l] && len(frames) < 12 {
			seen[l] = true
			frames = append(frames, l)
		}
	}
	return
}

func runC08() {
	if *c08child {
		c08Child()
		return
	}
	if *replay != "" {
		// a C08 failure is replayed by running the same workload again (seed + tier)
		var in struct {
			Seed int64  `json:"seed"`
			Tier string `json:"tier"`
		}
		if err := json.Unmarshal([]byte(*replay), &in); err == nil && in.Tier != "" {
			*seed, *tier = in.Seed, in.Tier
		}
	}
	rep := newReport("C08")
	t0 := time.Now()
	hdir := c08HarnessDir()
	bin := filepath.Join(filepath.Dir(hdir), "bin", "harness-race")
	env := append([]string{}, os.Environ()...)
	env = append(env, "CGO_ENABLED=1")
	build := exec.Command("go", "build", "-race", "-tags", "verif", "-o", bin, ".")
	build.Dir = hdir
	build.Env = env
	if out, err := build.CombinedOutput(); err != nil {
		rep.fail(Failure{Key: "C08-race-build", What: "the race-enabled harness does not build (the race detector is the search of this property)",
			Input: "go build -race -tags verif", Got: tail(string(out), 1500)})
		rep.Rule = "race-enabled harness could not be built"
		rep.write()
		return
	}
	rep.Extra["race_build_s"] = time.Since(t0).Seconds()
	old, _ := filepath.Glob(filepath.Join(*outDir, "race.*"))
	for _, f := range old {
		os.Remove(f)
	}
	os.Remove(filepath.Join(*outDir, "c08_child.json"))
	args := []string{"c08", "-c08child", "-out", *outDir, "-seed", fmt.Sprint(*seed), "-tier", *tier}
	child := exec.Command(bin, args...)
	child.Env = append(env, "GORACE=halt_on_error=0 log_path="+filepath.Join(*outDir, "race"))
	t1 := time.Now()
	cout, cerr := child.CombinedOutput()
	rep.Extra["race_child_s"] = time.Since(t1).Seconds()
	replayArg := fmt.Sprintf(`{"seed": %d, "tier": %q}`, *seed, *tier)

	var cr c08ChildReport
	if b, err := os.ReadFile(filepath.Join(*outDir, "c08_child.json")); err == nil {
		json.Unmarshal(b, &cr)
	}
	// race reports
	files, _ := filepath.Glob(filepath.Join(*outDir, "race.*"))
	sort.Strings(files)
	var raceText string
	for _, f := range files {
		if b, err := os.ReadFile(f); err == nil {
			raceText += string(b)
		}
	}
	if strings.Contains(string(cout), "WARNING: DATA RACE") {
		raceText += string(cout)
	}
	if first, frames, n := c08RaceSummary(raceText); n > 0 {
		rep.Histogram["race reports"] = n
		rep.fail(Failure{Key: "C08-race", What: fmt.Sprintf("the Go race detector reports %d data race(s) while goroutines share compiled programs / environments / options", n),
			Input: map[string]interface{}{"seed": *seed, "tier": *tier, "library frames": frames}, Want: "no unsynchronised access to shared state",
			Got: head(first, 2500), Replay: replayArg})
	}
	if !cr.Finished {
		what := "the race-enabled child did not finish"
		if strings.Contains(string(cout), "concurrent map") {
			what = "the Go runtime aborted the child: concurrent map access (an unsynchronised write to a shared map)"
		}
		rep.fail(Failure{Key: "C08-race", What: what, Input: map[string]interface{}{"seed": *seed, "tier": *tier},
			Want: "all goroutines finish", Got: fmt.Sprintf("%v: %s", cerr, tail(string(cout), 2500)), Replay: replayArg})
	}
	for _, m := range cr.Mismatches {
		key := "C08-result"
		what := "a goroutine obtained a result that differs from the sequential result"
		switch m.Kind {
		case "compile":
			what = "a concurrent expr.Compile produced a program that differs from the sequential compilation"
		case "env-modified":
			what = "a shared environment value was modified by the runs"
			m.Got, m.Want = m.Want, "environment unchanged"
		case "program-modified":
			what = "a shared program was modified by the concurrent runs"
		}
		rep.fail(Failure{Key: key, What: what, Input: map[string]interface{}{"src": m.Src, "mode": m.Mode, "env": m.Env, "goroutine": m.Gor},
			Want: tail(m.Want, 600), Got: tail(m.Got, 600), Replay: replayArg})
	}
	if cr.MismatchSeen > len(cr.Mismatches) {
		rep.Histogram["fail C08-result"] += cr.MismatchSeen - len(cr.Mismatches)
	}
	rep.Evaluations = cr.Runs + cr.Compiles
	rep.Distinct = cr.Pairs + cr.Programs
	rep.Histogram["shared programs"] = cr.Programs
	rep.Histogram["(program, environment) pairs"] = cr.Pairs
	rep.Histogram["concurrent runs"] = cr.Runs
	rep.Histogram["concurrent compiles"] = cr.Compiles
	rep.Histogram["goroutines"] = cr.Goroutines
	for k, v := range cr.ConstKinds {
		rep.Histogram["constant "+k] = v
	}
	for k, v := range cr.ResultKinds {
		rep.Histogram["result "+k] = v
	}
	for _, s := range cr.Samples {
		rep.Samples = append(rep.Samples, s)
	}
	rep.Extra["race_log_files"] = len(files)
	rep.Rule = fmt.Sprintf("race-enabled build of the harness (go build -race, GORACE halt_on_error=0): %d goroutines x %d rounds run every (program, environment) pair in a goroutine-specific random order on SHARED *vm.Program and environment values (struct environments incl. maps, slices, pointers; one map[string]interface{} environment), then %d goroutines compile every source concurrently with ONE shared options slice and environment value, then half run / half compile at the same time; programs = fixed sources covering every constant kind (regexp, folded []int/[]string, in-lookup maps, vm.Call, ranges) + type-directed random expressions, each untyped / typed / typed+optimized / map-environment; every result (value or error text) and every compiled program compared with the sequential one; environments and programs snapshotted before/after; distinct_nontrivial = distinct shared programs + distinct (program, environment) pairs", cr.Goroutines, cr.Rounds, cr.Goroutines)
	rep.write()
	if *replay != "" {
		for _, f := range rep.Failures {
			fmt.Printf("%s: %s\n  input: %v\n  got: %s\n", f.Key, f.What, f.Input, head(f.Got, 3000))
		}
		fmt.Printf("replay: %d failure(s)\n", len(rep.Failures))
	}
}

func tail(s string, n int) string {
	if len(s) <= n {
		return s
	}
	return "..." + s[len(s)-n:]
}

package main

// C18 — Collection builtins satisfy their defining identities.
//
// Implementation-level oracle: both sides of every identity are built as source text, compiled
// through the replicated expr.Compile pipeline (untyped / typed x optimizer off / on), run with
// vm.Run on several environments of the universe and judged here in Go: both sides fail with the
// same class or both succeed with equal values (and equal call logs where the identity promises
// it).  filter, nested closures and slicing are additionally judged against results computed
// natively in Go.  Every run of the core set is also written as a `ccase` so that the Coq
// reference semantics (Sem.eval, about which Props/C18.v states the theorems), the model compiler
// and the model VM are evaluated on exactly these programs (Corr/CorrCore.v).

import (
	"encoding/json"
	"fmt"
	"math/rand"
	"os"
	"reflect"
	"sort"
	"strings"
	"sync"
	"time"

	"github.com/antonmedv/expr"
	"github.com/antonmedv/expr/parser"
	"github.com/antonmedv/expr/vm"
)

func init() { commands["c18"] = runC18 }

var c18Modes = []coreMode{modeUntyped, modeTyped, modeUntypedOpt, modeTypedOpt}

type c18prog struct {
	tree *parser.Tree
	prog *vm.Program
	err  error
}

type c18ctx struct {
	rep   *Report
	rng   *rand.Rand
	envs  []*Env
	progs map[string]*c18prog // mode|src
	runs  map[string]coreRun  // mode|src|env
	cases []string
	emit  bool // current instance belongs to the core set (runs are written as Coq cases)
	seen  map[string]bool
	nRuns int
	dist  map[string]bool
	watch c18watch
}

func (c *c18ctx) compile(src string, m coreMode) *c18prog {
	key := m.Name + "|" + src
	if p, ok := c.progs[key]; ok {
		return p
	}
	tree, prog, _, err := pipeline(src, m.options(c.envs[0]))
	p := &c18prog{tree, prog, err}
	if err == nil {
		// fidelity of the replicated pipeline: the real expr.Compile must give the same program
		real, rerr := expr.Compile(src, m.options(c.envs[0])...)
		if rerr != nil || !sameProgram(real, prog) {
			c.rep.fail(Failure{Key: "C18-pipeline-replica", What: "harness pipeline replica differs from expr.Compile",
				Input: map[string]string{"src": src, "mode": m.Name}, Got: fmt.Sprint(rerr)})
		}
	}
	c.progs[key] = p
	return p
}

// run: compile (cached) and run src in mode m on environment ei.  ok = false: rejected at compile time.
func (c *c18ctx) run(src string, m coreMode, ei int) (coreRun, bool) {
	p := c.compile(src, m)
	if p.err != nil {
		return coreRun{}, false
	}
	key := fmt.Sprintf("%s|%s|%d", m.Name, src, ei)
	r, ok := c.runs[key]
	if !ok {
		r = c.guarded(src, m, ei, p.prog)
		c.runs[key] = r
		c.nRuns++
	}
	if c.emit && !c.seen[key] {
		c.seen[key] = true
		c.cases = append(c.cases, coreCase(false, m.Cast, vm.MemoryBudget, ei, p.tree, p.prog, r))
	}
	return r, true
}

// guarded: vm.Run cannot be interrupted; a watchdog goroutine looks at the run in progress twice a
// second.  A run that does not come back within the deadline (a broken loop skeleton may spin and
// grow the stack without bound) is reported as a failing input and the harness stops at once (the
// report written so far is kept, no Coq cases).
type c18watch struct {
	mu     sync.Mutex
	active bool
	src    string
	mode   coreMode
	ei     int
	start  time.Time
}

func (c *c18ctx) startWatchdog() {
	go func() {
		for range time.Tick(500 * time.Millisecond) {
			c.watch.mu.Lock()
			hung := c.watch.active && time.Since(c.watch.start) > 4*time.Second
			src, m, ei := c.watch.src, c.watch.mode, c.watch.ei
			c.watch.mu.Unlock()
			if !hung {
				continue
			}
			c.rep.fail(Failure{Key: "C18-nontermination", What: "vm.Run does not return within 4 s on a program over collections of at most 40 elements",
				Input: map[string]interface{}{"src": src, "mode": m.Name, "env": c.envNote(ei)}, Want: "a result or an error", Got: "no result after 4 s",
				Replay: c.replayArg("nontermination", src, src, m, ei)})
			c.rep.Rule = "aborted: a run did not terminate"
			c.rep.Extra["aborted"] = "nontermination"
			c.rep.write()
			os.Exit(0)
		}
	}()
}

func (c *c18ctx) guarded(src string, m coreMode, ei int, prog *vm.Program) coreRun {
	c.watch.mu.Lock()
	c.watch.active, c.watch.src, c.watch.mode, c.watch.ei, c.watch.start = true, src, m, ei, time.Now()
	c.watch.mu.Unlock()
	r := runProgram(prog, c.envs[ei])
	c.watch.mu.Lock()
	c.watch.active = false
	c.watch.mu.Unlock()
	return r
}

func c18cls(r coreRun) string {
	cls, _, _ := errInfo(r.err)
	return cls
}

func c18show(r coreRun, ok bool) string {
	if !ok {
		return "rejected at compile time"
	}
	if r.err != nil {
		return fmt.Sprintf("error %s (%v) log %s", c18cls(r), r.err, cqTrace(r.log))
	}
	return fmt.Sprintf("%s log %s", cqValue(r.out), cqTrace(r.log))
}

func c18sameValue(a, b interface{}) bool { return cqValue(a) == cqValue(b) }

func (c *c18ctx) replayArg(ident, lhs, rhs string, m coreMode, ei int) string {
	b, _ := json.Marshal(map[string]interface{}{"identity": ident, "lhs": lhs, "rhs": rhs, "mode": m.Name, "env": ei, "seed": *seed})
	return string(b)
}

func (c *c18ctx) envNote(ei int) string {
	e := c.envs[ei]
	return fmt.Sprintf("env%d{I:%d I8:%d I16:%d I32:%d I64:%d U:%d U8:%d AI:%v AS:%q AA:%v AF:%v S:%q S2:%q St.X:%d}",
		ei, e.I, e.I8, e.I16, e.I32, e.I64, e.U, e.U8, e.AI, e.AS, e.AA, e.AF, e.S, e.S2, e.St.X)
}

func (c *c18ctx) failPair(key, what, ident, lhs, rhs string, m coreMode, ei int, want, got string) {
	c.rep.fail(Failure{Key: key, What: what,
		Input: map[string]interface{}{"identity": ident, "lhs": lhs, "rhs": rhs, "mode": m.Name, "env": c.envNote(ei)},
		Want:  want, Got: got, Replay: c.replayArg(ident, lhs, rhs, m, ei)})
}

// judgeEqual: the two sides must behave alike.  cmpLog: the call logs must be equal too.
// Returns true when both sides ran (for the non-triviality statistics).
func (c *c18ctx) judgeEqual(ident, lhs, rhs string, m coreMode, ei int, cmpLog bool) bool {
	l, lok := c.run(lhs, m, ei)
	r, rok := c.run(rhs, m, ei)
	c.rep.Evaluations++
	if !lok || !rok {
		if lok != rok {
			// only one side is accepted by the checker: not a statement about evaluation; counted
			c.rep.hist("one side rejected at compile time (" + ident + ", " + m.Name + ")")
		} else {
			c.rep.hist("both sides rejected at compile time")
		}
		return false
	}
	key := "C18-" + ident
	switch {
	case l.err != nil && r.err != nil:
		c.rep.hist("both sides fail " + c18cls(l))
		if c18cls(l) != c18cls(r) {
			c.failPair(key, "both sides fail but with different classes", ident, lhs, rhs, m, ei, c18show(l, true), c18show(r, true))
		} else if cmpLog && cqTrace(l.log) != cqTrace(r.log) {
			c.failPair(key, "both sides fail after different calls", ident, lhs, rhs, m, ei, c18show(l, true), c18show(r, true))
		}
	case l.err != nil || r.err != nil:
		c.failPair(key, "one side fails, the other succeeds", ident, lhs, rhs, m, ei, c18show(l, true), c18show(r, true))
	default:
		c.rep.hist("both sides succeed")
		if !c18sameValue(l.out, r.out) {
			c.failPair(key, "the two sides yield different values", ident, lhs, rhs, m, ei, c18show(l, true), c18show(r, true))
		} else if cmpLog && cqTrace(l.log) != cqTrace(r.log) {
			c.failPair(key, "same value but different environment calls", ident, lhs, rhs, m, ei, c18show(l, true), c18show(r, true))
		}
	}
	// as ONE expression: two loops in one program must not disturb each other
	both := "(" + lhs + ") == (" + rhs + ")"
	if b, ok := c.run(both, m, ei); ok {
		c.rep.Evaluations++
		switch {
		case l.err == nil && r.err == nil && c18sameValue(l.out, r.out):
			if b.err != nil || b.out != true {
				c.failPair(key, "lhs == rhs compiled as one expression is not true", ident, both, "true", m, ei, "true", c18show(b, true))
			}
		case l.err != nil:
			if b.err == nil || c18cls(b) != c18cls(l) {
				c.failPair(key, "lhs fails alone but not inside lhs == rhs", ident, both, lhs, m, ei, c18show(l, true), c18show(b, true))
			}
		}
	}
	return true
}

// the property quantifies over ARRAYS: a collection expression whose value is something else (the generator writes a
// map or a scalar in an array position now and then) is outside it - e.g. untyped `count(MI, {true})` counts the
// entries of a map while `filter(MI, ...)` cannot build its result
func (c *c18ctx) notArray(xs string, ei int) bool {
	r, ok := c.run(xs, modeUntyped, ei)
	if !ok || r.err != nil {
		return false
	}
	if r.out == nil {
		return true
	}
	k := reflect.ValueOf(r.out).Kind()
	return k != reflect.Slice && k != reflect.Array
}

func (c *c18ctx) lenOf(xs string, ei int) int {
	r, ok := c.run("len("+xs+")", modeUntyped, ei)
	if !ok || r.err != nil {
		return -1
	}
	n, _ := r.out.(int)
	return n
}

func c18items(v interface{}) ([]interface{}, bool) {
	rv := reflect.ValueOf(v)
	if !rv.IsValid() || rv.Kind() != reflect.Slice {
		return nil, false
	}
	out := make([]interface{}, rv.Len())
	for i := range out {
		out[i] = rv.Index(i).Interface()
	}
	return out, true
}

func c18itemsEq(a, b []interface{}) bool {
	if len(a) != len(b) {
		return false
	}
	for i := range a {
		if !c18sameValue(a[i], b[i]) {
			return false
		}
	}
	return true
}

// ---------------------------------------------------------------------------------------------
// the identities over (XS, P)

func (c *c18ctx) predicateIdentities(xs, p string, envIdx []int) {
	for _, m := range c18Modes {
		for _, ei := range envIdx {
			if c.notArray(xs, ei) {
				c.rep.hist("collection is not an array (outside the property): skipped")
				continue
			}
			n := c.lenOf(xs, ei)
			nt := n > 0
			mark := func(id string, ran bool) {
				if ran && nt {
					c.dist[fmt.Sprintf("%s|%s|%s|%s|%d", id, xs, p, m.Name, ei)] = true
				}
			}
			c.rep.hist(c18lenClass(n))
			mark("all-any", c.judgeEqual("all-any", "all("+xs+", {"+p+"})", "not any("+xs+", {not ("+p+")})", m, ei, true))
			mark("none-any", c.judgeEqual("none-any", "none("+xs+", {"+p+"})", "not any("+xs+", {"+p+"})", m, ei, true))
			mark("one-count", c.judgeEqual("one-count", "one("+xs+", {"+p+"})", "count("+xs+", {"+p+"}) == 1", m, ei, true))
			mark("count-filter", c.judgeEqual("count-filter", "count("+xs+", {"+p+"})", "len(filter("+xs+", {"+p+"}))", m, ei, true))
			mark("filter-spec", c.filterSpec(xs, p, m, ei))
			// count = len(filter) wherever the count is USED: compared with 0 / 1 / 2 from either side (two forms per instance,
			// chosen by the instance).  Not judged against any / none / one: those stop at the first hit, count visits every element,
			// so a predicate failing on a later element separates them legitimately
			cnt, flt := "count("+xs+", {"+p+"})", "len(filter("+xs+", {"+p+"}))"
			h := 0
			for _, ch := range xs + p {
				h = (h*31 + int(ch)) & 0xffff
			}
			ops := []string{"<", "<=", ">", ">=", "==", "!="}
			for j := 0; j < 2; j++ {
				op, k := ops[(h+j*5)%6], (h/7+j)%3
				mark("count-filter", c.judgeEqual("count-filter", fmt.Sprintf("%d %s %s", k, op, cnt), fmt.Sprintf("%d %s %s", k, op, flt), m, ei, true))
				mark("count-filter", c.judgeEqual("count-filter", fmt.Sprintf("%s %s %d", cnt, ops[(h+j*5+3)%6], k), fmt.Sprintf("%s %s %d", flt, ops[(h+j*5+3)%6], k), m, ei, true))
			}
		}
	}
}

// filter(XS, {P}) = the elements of XS on which P holds, in order.  The truth values are observed
// with map(XS, {P}) (same elements, same order, same calls), the elements with XS itself.
func (c *c18ctx) filterSpec(xs, p string, m coreMode, ei int) bool {
	fsrc := "filter(" + xs + ", {" + p + "})"
	msrc := "map(" + xs + ", {" + p + "})"
	f, fok := c.run(fsrc, m, ei)
	mp, mok := c.run(msrc, m, ei)
	x, xok := c.run(xs, m, ei)
	c.rep.Evaluations++
	if !fok || !mok || !xok {
		return false
	}
	key := "C18-filter-spec"
	if x.err != nil {
		if f.err == nil {
			c.failPair(key, "filter succeeds although its collection fails", "filter-spec", fsrc, xs, m, ei, c18show(x, true), c18show(f, true))
		}
		return true
	}
	elems, isArr := c18items(x.out)
	if !isArr {
		return false // maps, strings, scalars: not arrays
	}
	if mp.err != nil {
		// the predicate fails on some element (or the budget): filter must fail too unless the
		// failure is a non-boolean predicate value, which map does not look at
		if f.err == nil {
			c.failPair(key, "filter succeeds although its predicate fails on an element", "filter-spec", fsrc, msrc, m, ei, c18show(mp, true), c18show(f, true))
		}
		return true
	}
	truth, _ := c18items(mp.out)
	var want []interface{}
	nonBool := false
	for i, t := range truth {
		b, ok := t.(bool)
		if !ok {
			nonBool = true
			break
		}
		if b && i < len(elems) {
			want = append(want, elems[i])
		}
	}
	if nonBool {
		if f.err == nil {
			c.failPair(key, "filter accepts a non-boolean predicate value", "filter-spec", fsrc, msrc, m, ei, "failure (interface conversion)", c18show(f, true))
		}
		return true
	}
	if f.err != nil {
		c.failPair(key, "filter fails although the predicate is boolean on every element", "filter-spec", fsrc, msrc, m, ei, fmt.Sprint(want), c18show(f, true))
		return true
	}
	got, _ := c18items(f.out)
	if !c18itemsEq(got, want) {
		c.failPair(key, "filter does not keep exactly the satisfying elements in order", "filter-spec", fsrc, msrc, m, ei, cqValue(want), c18show(f, true))
	} else if cqTrace(f.log) != cqTrace(mp.log) {
		c.failPair(key, "filter and map call the environment differently", "filter-spec", fsrc, msrc, m, ei, c18show(mp, true), c18show(f, true))
	}
	return true
}

// native predicates over []int: the expected result is computed in Go, independently of the library
type c18native struct {
	src string
	f   func(x int, e *Env) bool
}

var c18nativePreds = []c18native{
	{"# > 1", func(x int, e *Env) bool { return x > 1 }},
	{"# % 2 == 0", func(x int, e *Env) bool { return x%2 == 0 }},
	{"IsPos(#)", func(x int, e *Env) bool { return x > 0 }},
	{"# in 2..3", func(x int, e *Env) bool { return x >= 2 && x <= 3 }},
	{"not (# < 3)", func(x int, e *Env) bool { return !(x < 3) }},
	{"# == I", func(x int, e *Env) bool { return x == e.I }},
	{"# != St.X and # <= 7", func(x int, e *Env) bool { return x != e.St.X && x <= 7 }},
	{"any(AI, {# == 2})", func(x int, e *Env) bool {
		for _, y := range e.AI {
			if y == 2 {
				return true
			}
		}
		return false
	}},
	{"count(0..#, {# % 2 == 1}) >= 2", func(x int, e *Env) bool { return x >= 3 }},
	{"true", func(x int, e *Env) bool { return true }},
	{"false", func(x int, e *Env) bool { return false }},
}

func (c *c18ctx) nativeInt(m coreMode, ei int) {
	e := c.envs[ei]
	for _, np := range c18nativePreds {
		var sat []interface{}
		cnt := 0
		allv, anyv := true, false
		for _, x := range e.AI {
			if np.f(x, e) {
				sat = append(sat, x)
				cnt++
				anyv = true
			} else {
				allv = false
			}
		}
		exp := map[string]interface{}{
			"all": allv, "any": anyv, "none": !anyv, "one": cnt == 1, "count": cnt, "filter": sat,
		}
		for _, b := range []string{"all", "any", "none", "one", "count", "filter"} {
			src := b + "(AI, {" + np.src + "})"
			r, ok := c.run(src, m, ei)
			c.rep.Evaluations++
			if !ok {
				continue
			}
			good := r.err == nil
			if good {
				if b == "filter" {
					got, isArr := c18items(r.out)
					good = isArr && c18itemsEq(got, sat)
				} else {
					good = c18sameValue(r.out, exp[b])
				}
			}
			if len(e.AI) > 0 {
				c.dist[fmt.Sprintf("native|%s|%s|%d", src, m.Name, ei)] = true
			}
			if !good {
				c.failPair("C18-native-"+b, "builtin differs from the result computed natively in Go", "native-"+b, src, fmt.Sprint(exp[b]), m, ei, fmt.Sprint(exp[b]), c18show(r, true))
			}
		}
	}
}

func c18lenClass(n int) string {
	switch {
	case n < 0:
		return "collection: not an array / fails"
	case n == 0:
		return "collection: empty"
	case n == 1:
		return "collection: singleton"
	case n <= 8:
		return "collection: 2..8 elements"
	}
	return "collection: long (> 8)"
}

// len(map(XS, {F})) = len(XS) when map succeeds; the calls of XS come first on both sides
func (c *c18ctx) lenMap(xs, f string, envIdx []int) {
	lhs, rhs := "len(map("+xs+", {"+f+"}))", "len("+xs+")"
	for _, m := range c18Modes {
		for _, ei := range envIdx {
			if c.notArray(xs, ei) {
				c.rep.hist("collection is not an array (outside the property): skipped")
				continue
			}
			l, lok := c.run(lhs, m, ei)
			r, rok := c.run(rhs, m, ei)
			c.rep.Evaluations++
			if !lok || !rok {
				if lok != rok {
					c.rep.hist("one side rejected at compile time (len-map, " + m.Name + ")")
				}
				continue
			}
			if c.lenOf(xs, ei) > 0 {
				c.dist[fmt.Sprintf("len-map|%s|%s|%s|%d", xs, f, m.Name, ei)] = true
			}
			switch {
			case l.err == nil && r.err == nil:
				c.rep.hist("both sides succeed")
				lt, rt := cqTrace(l.log), cqTrace(r.log)
				if !c18sameValue(l.out, r.out) {
					c.failPair("C18-len-map", "len(map(xs, f)) differs from len(xs)", "len-map", lhs, rhs, m, ei, c18show(r, true), c18show(l, true))
				} else if !strings.HasPrefix(lt, strings.TrimSuffix(rt, "]")) {
					c.failPair("C18-len-map", "the calls made by xs are not a prefix of the calls of len(map(xs, f))", "len-map", lhs, rhs, m, ei, c18show(r, true), c18show(l, true))
				}
			case l.err == nil && r.err != nil:
				c.failPair("C18-len-map", "len(map(xs, f)) succeeds although len(xs) fails", "len-map", lhs, rhs, m, ei, c18show(r, true), c18show(l, true))
			case l.err != nil && r.err != nil:
				c.rep.hist("both sides fail " + c18cls(l))
				if c18cls(l) != c18cls(r) {
					c.failPair("C18-len-map", "both sides fail but with different classes", "len-map", lhs, rhs, m, ei, c18show(r, true), c18show(l, true))
				}
			default:
				c.rep.hist("map fails in the mapper (identity is conditional on success)")
			}
			both := "(" + lhs + ") == (" + rhs + ")"
			if b, ok := c.run(both, m, ei); ok && l.err == nil && r.err == nil {
				c.rep.Evaluations++
				if b.err != nil || b.out != true {
					c.failPair("C18-len-map", "lhs == rhs compiled as one expression is not true", "len-map", both, "true", m, ei, "true", c18show(b, true))
				}
			}
		}
	}
}

// ---------------------------------------------------------------------------------------------
// nested closures: a body B that is closed (every # in it belongs to a builtin inside B) has the
// same value at any nesting depth; `#` before and after an inner loop is the outer element.

func (c *c18ctx) nested(body string, wraps []string, envIdx []int) {
	src := body
	for i := len(wraps) - 1; i >= 0; i-- {
		src = "map(" + wraps[i] + ", {" + src + "})"
	}
	ident := fmt.Sprintf("nested-depth-%d", len(wraps))
	for _, m := range c18Modes {
		for _, ei := range envIdx {
			b, bok := c.run(body, m, ei)
			n, nok := c.run(src, m, ei)
			c.rep.Evaluations++
			if !bok || !nok {
				if bok != nok {
					c.rep.hist("one side rejected at compile time (nested, " + m.Name + ")")
				}
				continue
			}
			leaves := 1
			for _, w := range wraps {
				k := c.lenOf(w, ei)
				if k < 0 {
					leaves = -1
					break
				}
				leaves *= k
			}
			if leaves <= 0 {
				c.rep.hist("nested: some enclosing collection is empty or fails")
				continue
			}
			c.dist[fmt.Sprintf("%s|%s|%s|%d", ident, src, m.Name, ei)] = true
			c.rep.hist(ident)
			key := "C18-innermost"
			if b.err != nil {
				if n.err == nil || c18cls(n) != c18cls(b) {
					c.failPair(key, "the closed body fails alone but differently inside nested closures", ident, src, body, m, ei, c18show(b, true), c18show(n, true))
				}
				continue
			}
			if n.err != nil {
				c.failPair(key, "the closed body succeeds alone but fails inside nested closures", ident, src, body, m, ei, c18show(b, true), c18show(n, true))
				continue
			}
			// every leaf of the nested result equals the value of the body evaluated alone
			cnt, good := 0, true
			var walk func(v interface{}, d int)
			walk = func(v interface{}, d int) {
				if d == 0 {
					cnt++
					if !c18sameValue(v, b.out) {
						good = false
					}
					return
				}
				items, ok := c18items(v)
				if !ok {
					good = false
					return
				}
				for _, it := range items {
					walk(it, d-1)
				}
			}
			walk(n.out, len(wraps))
			var wantLog []callEvent
			for i := 0; i < leaves; i++ {
				wantLog = append(wantLog, b.log...)
			}
			if !good || cnt != leaves {
				c.failPair(key, "a closure nested in other closures does not see the elements of its own innermost collection", ident, src, body, m, ei,
					fmt.Sprintf("%d leaves equal to %s", leaves, cqValue(b.out)), c18show(n, true))
			} else if cqTrace(n.log) != cqTrace(wantLog) {
				c.failPair(key, "nested evaluation calls the environment differently", ident, src, body, m, ei, cqTrace(wantLog), c18show(n, true))
			}
		}
	}
}

// map(XS, {[#, INNER, #]}): the element before and after an inner loop (with early exit) is the own one
func (c *c18ctx) pointerAround(xs, inner string, envIdx []int) {
	src := "map(" + xs + ", {[#, " + inner + ", #]})"
	for _, m := range c18Modes {
		for _, ei := range envIdx {
			x, xok := c.run(xs, m, ei)
			in, iok := c.run(inner, m, ei)
			r, rok := c.run(src, m, ei)
			c.rep.Evaluations++
			if !xok || !iok || !rok || x.err != nil {
				continue
			}
			elems, isArr := c18items(x.out)
			if !isArr || len(elems) == 0 {
				continue
			}
			c.dist[fmt.Sprintf("around|%s|%s|%d", src, m.Name, ei)] = true
			c.rep.hist("pointer before/after inner loop")
			if in.err != nil {
				if r.err == nil || c18cls(r) != c18cls(in) {
					c.failPair("C18-innermost", "inner expression fails alone but differently inside the closure", "pointer-around", src, inner, m, ei, c18show(in, true), c18show(r, true))
				}
				continue
			}
			good := r.err == nil
			if good {
				rows, ok := c18items(r.out)
				good = ok && len(rows) == len(elems)
				for i := 0; good && i < len(rows); i++ {
					row, ok := c18items(rows[i])
					good = ok && len(row) == 3 && c18sameValue(row[0], elems[i]) && c18sameValue(row[1], in.out) && c18sameValue(row[2], elems[i])
				}
			}
			if !good {
				c.failPair("C18-innermost", "# before/after an inner loop is not the element of the enclosing collection", "pointer-around", src, xs, m, ei,
					fmt.Sprintf("rows [x, %s, x] for x in %s", cqValue(in.out), cqValue(x.out)), c18show(r, true))
			}
		}
	}
}

// the same with a TYPE-DIRECTED use of the element before and after the inner loop (`# == first element`): also the static
// type the checker gives `#` after an inner builtin is the one of the enclosing collection (a specialised comparison or a
// rewrite chosen from a wrong static type changes the second answer)
func (c *c18ctx) pointerAroundTyped(xs, inner string, envIdx []int) {
	first := "(" + xs + ")[0]"
	src := "map(" + xs + ", {[# == " + first + ", " + inner + ", # == " + first + "]})"
	for _, m := range c18Modes {
		for _, ei := range envIdx {
			x, xok := c.run(xs, m, ei)
			in, iok := c.run(inner, m, ei)
			if !xok || !iok || x.err != nil || in.err != nil {
				continue
			}
			elems, isArr := c18items(x.out)
			if !isArr || len(elems) == 0 {
				continue
			}
			before, bok := c.run("map("+xs+", {# == "+first+"})", m, ei)
			if !bok || before.err != nil {
				continue
			}
			bs, _ := c18items(before.out)
			r, rok := c.run(src, m, ei)
			c.rep.Evaluations++
			c.rep.hist("typed use of the element before/after an inner loop")
			c.dist[fmt.Sprintf("aroundT|%s|%s|%d", src, m.Name, ei)] = true
			good := rok && r.err == nil
			if good {
				rows, ok := c18items(r.out)
				good = ok && len(rows) == len(elems) && len(bs) == len(elems)
				for i := 0; good && i < len(rows); i++ {
					row, ok := c18items(rows[i])
					good = ok && len(row) == 3 && c18sameValue(row[0], bs[i]) && c18sameValue(row[1], in.out) && c18sameValue(row[2], bs[i])
				}
			}
			if !good {
				got := "rejected at compile time"
				if rok {
					got = c18show(r, true)
				}
				c.failPair("C18-innermost", "a comparison of # after an inner loop does not answer like the same comparison before it", "pointer-around-typed", src, xs, m, ei,
					fmt.Sprintf("rows [b, %s, b] with b = (x == first) for x in %s", cqValue(in.out), cqValue(x.out)), got)
			}
		}
	}
}

// ---------------------------------------------------------------------------------------------
// membership in an integer range

type c18intExpr struct {
	src    string
	narrow int // bit width when the static kind is int8/int16/int32, else 0
}

var c18rangeXs = []c18intExpr{
	{"I", 0}, {"3", 0}, {"(I + 1)", 0}, {"len(AI)", 0}, {"St.X", 0}, {"-I", 0}, {"Inc(I)", 0}, {"I64", 0},
	{"U", 0}, {"U8", 0}, {"U16", 0}, {"U32", 0}, {"U64", 0}, {"I8", 8}, {"I16", 16}, {"I32", 32},
}

func (c *c18ctx) intOf(src string, ei int) (int, bool) {
	r, ok := c.run(src, modeUntyped, ei)
	if !ok || r.err != nil {
		return 0, false
	}
	n, isInt := r.out.(int)
	return n, isInt
}

func (c *c18ctx) inRange(x c18intExpr, a, b string, negated bool, envIdx []int) {
	lhs := fmt.Sprintf("%s in %s..%s", x.src, a, b)
	rhs := fmt.Sprintf("(%s >= %s and %s <= %s)", x.src, a, x.src, b)
	if negated {
		lhs = fmt.Sprintf("%s not in %s..%s", x.src, a, b)
		rhs = "not " + rhs
	}
	for _, m := range c18Modes {
		for _, ei := range envIdx {
			l, lok := c.run(lhs, m, ei)
			r, rok := c.run(rhs, m, ei)
			c.rep.Evaluations++
			if !lok || !rok {
				if lok != rok {
					c.rep.hist("one side rejected at compile time (in-range, " + m.Name + ")")
				}
				continue
			}
			av, aok := c.intOf(a, ei)
			bv, bok := c.intOf(b, ei)
			if aok && bok && av <= bv {
				c.dist[fmt.Sprintf("in-range|%s|%s|%d", lhs, m.Name, ei)] = true
			}
			key := "C18-in-range"
			if x.narrow > 0 && aok && bok {
				lo, hi := -(1 << uint(x.narrow-1)), 1<<uint(x.narrow-1)-1
				if av < lo || av > hi || bv < lo || bv > hi {
					// bounds not representable in the operand's narrow signed kind: the helpers convert
					// the int bound/element to that kind (C14-rank) - recorded finding
					key = "C18-in-range-narrow-kind"
				}
			}
			switch {
			case l.err != nil && r.err != nil:
				c.rep.hist("both sides fail " + c18cls(l))
				if c18cls(l) != c18cls(r) {
					// a range that is refused by the budget has no counterpart on the comparison side
					if c18cls(l) != "EBudget" {
						c.failPair(key, "both sides fail but with different classes", "in-range", lhs, rhs, m, ei, c18show(r, true), c18show(l, true))
					}
				}
			case l.err != nil && c18cls(l) == "EBudget":
				c.rep.hist("range refused by the memory budget (comparison side has no allocation)")
			case l.err != nil || r.err != nil:
				c.failPair(key, "one side fails, the other succeeds", "in-range", lhs, rhs, m, ei, c18show(r, true), c18show(l, true))
			default:
				c.rep.hist("both sides succeed")
				if !c18sameValue(l.out, r.out) {
					c.failPair(key, "membership in the range differs from the two-sided comparison", "in-range", lhs, rhs, m, ei, c18show(r, true), c18show(l, true))
				}
			}
		}
	}
}

// ---------------------------------------------------------------------------------------------
// slicing at i partitions a sequence

func (c *c18ctx) slicePartition(xs, i string, isStr bool, envIdx []int) {
	first := xs + "[0:" + i + "]"
	if c.rng.Intn(3) == 0 {
		first = xs + "[:" + i + "]"
	}
	second := xs + "[" + i + ":]"
	for _, m := range c18Modes {
		for _, ei := range envIdx {
			a, aok := c.run(first, m, ei)
			b, bok := c.run(second, m, ei)
			x, xok := c.run(xs, m, ei)
			c.rep.Evaluations++
			if !aok || !bok || !xok {
				if aok != bok {
					c.rep.hist("one side rejected at compile time (slice, " + m.Name + ")")
				}
				continue
			}
			iv, iok := c.intOf(i, ei)
			if x.err != nil || !iok {
				continue
			}
			key := "C18-slice-partition"
			ident := "slice-partition"
			if iv < 0 {
				c.rep.hist("slice: negative split point")
				if a.err == nil || b.err == nil {
					c.failPair(key, "a negative split point must fail on both halves", ident, first, second, m, ei, "both fail", c18show(a, true)+" / "+c18show(b, true))
				}
				continue
			}
			if a.err != nil || b.err != nil {
				if _, isArr := c18items(x.out); isArr || isStr {
					c.failPair(key, "a half fails for a non-negative split point", ident, first, second, m, ei, "both succeed", c18show(a, true)+" / "+c18show(b, true))
				}
				continue
			}
			good := false
			n := 0
			if s, ok := x.out.(string); ok {
				as, ok1 := a.out.(string)
				bs, ok2 := b.out.(string)
				good = ok1 && ok2 && as+bs == s && len(as) == minInt(iv, len(s))
				n = len(s)
			} else if items, ok := c18items(x.out); ok {
				ai, ok1 := c18items(a.out)
				bi, ok2 := c18items(b.out)
				good = ok1 && ok2 && c18itemsEq(append(append([]interface{}{}, ai...), bi...), items) && len(ai) == minInt(iv, len(items)) &&
					reflect.TypeOf(a.out) == reflect.TypeOf(x.out) && reflect.TypeOf(b.out) == reflect.TypeOf(x.out)
				n = len(items)
			} else {
				continue
			}
			if n > 0 {
				c.dist[fmt.Sprintf("slice|%s|%s|%s|%d", xs, i, m.Name, ei)] = true
			}
			switch {
			case iv == 0:
				c.rep.hist("slice: split at 0")
			case iv < n:
				c.rep.hist("slice: split inside")
			case iv == n:
				c.rep.hist("slice: split at len")
			default:
				c.rep.hist("slice: split beyond len")
			}
			if !good {
				c.failPair(key, "the two halves do not partition the sequence", ident, first, second, m, ei,
					fmt.Sprintf("halves of %s split at min(%d, len)", cqValue(x.out), iv), c18show(a, true)+" / "+c18show(b, true))
			}
			// in the language itself
			law := fmt.Sprintf("len(%s) + len(%s) == len(%s)", first, second, xs)
			if isStr {
				law = fmt.Sprintf("%s + %s == %s", first, second, xs)
			}
			if r, ok := c.run(law, m, ei); ok {
				c.rep.Evaluations++
				if r.err != nil || r.out != true {
					c.failPair(key, "partition law stated in the language is not true", ident, law, "true", m, ei, "true", c18show(r, true))
				}
			}
		}
	}
}

func minInt(a, b int) int {
	if a < b {
		return a
	}
	return b
}

// ---------------------------------------------------------------------------------------------
// generators

var c18intArrs = []string{"AI", "[1, 2, 3]", "[I, 0, -1, 7, I]", "1..5", "0..0", "3..1", "(I..(I + 3))", "filter(AI, {# > 1})",
	"map(AI, {# * 2})", "AI[1:]", "AI[:2]", "map(AS, {len(#)})", "filter(1..6, {# % 2 == 0})", "[7]", "map(1..3, {I})", "(1..len(AI))", "[St.X, Inc(I)]"}
var c18strArrs = []string{"AS", `["a", "b", "abc"]`, `filter(AS, {len(#) > 1})`, `map(AI, {"ab"})`, "AS[1:]", `[S, S2, "ab"]`, `["a"]`, `map(AS, {# + "b"})`}
var c18anyArrs = []string{"AA", `[1, "a", nil]`, "[]", `[1, 2.5, "x", true]`, "map(AA, {#})", "filter(AA, {# != nil})", `[I, S, B, nil]`, "AA[1:]"}
var c18numArrs = []string{"AF", "[0.5, 1.5, 2]", "map(AI, {# / 2})", "filter(AF, {# > 0.5})"}

var c18intPreds = []string{"# > 1", "# % 2 == 0", "IsPos(#)", "IsPos(Inc(#))", "# in 2..3", "# == I", "not (# < 3)", "# > 0 and IsPos(#)",
	"any(AI, {# == 2})", "count(1..3, {# >= 2}) == 2", "# in AI", "all(0..#, {# >= 0})", "len(filter(0..#, {# % 2 == 1})) > 0",
	"one(AI, {# == 3}) or # > 2", "B2 ? # > 2 : # > 0", "B ? # > 2 : # > 0", "(B2 and # > 100) or # != 1", "(false and # > 0) or # > 1", "B2 ? # % 2 == 0 : # > I", "#", "nil", "Inc(#) > 2", "IsPos(#) or IsPos(Inc(#))", "# / (# - 2) > 0", "true", "false", "B", "none(AS, {len(#) == I})"}
var c18strPreds = []string{`# == "a"`, "len(#) > 1", `# startsWith "a"`, "# in AS", "# contains S2", `# matches "^a"`, `# < "b"`, "#", "true",
	`any(AS, {# == "abc"})`, `count(AS, {# == S2}) == 1`, `IsPos(len(#))`, `# + "c" endsWith "bc"`}
var c18anyPreds = []string{"# != nil", "# == 1", `# == "a"`, `# in [1, "a"]`, "true", "false", "# == nil or # == true", "#", `any(AA, {# == nil})`, "B2", `# == Any`}
var c18numPreds = []string{"# > 1", "# >= 0.5", "# < F64", "# * 2 == 3", "true", "#"}

var c18intMappers = []string{"B2 ? # * 2 : #", "B ? # * 2 : #", "(B2 and # > 9) or # > 1", "# * 2", "Inc(#)", "# + I", "[#, #]", "count(0..#, {# > 1})", "#", `"x"`, "Inc(#) % (# - 2)", "# / 0", "filter(AI, {# > 1})", "IsPos(#) ? # : nil", "nil"}
var c18strMappers = []string{"len(#)", `# + "z"`, "#", "Concat(#, S)", "#[0:1]", "# in AS"}
var c18anyMappers = []string{"#", "# == nil", "Id(#)", "[#]", "1", "Boom(1)"}

func c18arrClass(src string) string {
	switch {
	case src == "AI" || src == "AS" || src == "AA" || src == "AF":
		return "array: typed environment slice"
	case strings.HasPrefix(src, "filter(") || strings.HasPrefix(src, "map("):
		return "array: result of another builtin"
	case strings.HasPrefix(src, "["):
		return "array: literal"
	case strings.Contains(src, "..") && !strings.Contains(src, "{"):
		return "array: range"
	case strings.Contains(src, "[") && strings.HasSuffix(src, "]"):
		return "array: slice expression"
	}
	return "array: other generated expression"
}

func c18predClass(p string) []string {
	var out []string
	if strings.Contains(p, "{") {
		out = append(out, "predicate/mapper contains a builtin with its own closure")
	}
	for _, f := range []string{"IsPos(", "Inc(", "Add(", "Sum(", "Twice(", "PtrM(", "Concat(", "Id(", "Fast(", "Half(", "Boom(", ".Get("} {
		if strings.Contains(p, f) {
			out = append(out, "predicate/mapper calls a logging function")
			break
		}
	}
	if strings.Contains(p, "#") {
		out = append(out, "predicate/mapper uses #")
	}
	return out
}

func (c *c18ctx) pickEnvs(k int) []int {
	// always the base environment (non-empty arrays) or the long one first, then distinct random others
	idx := []int{[]int{0, 3}[c.rng.Intn(2)]}
	perm := c.rng.Perm(len(c.envs))
	for _, p := range perm {
		if len(idx) >= k {
			break
		}
		if p != idx[0] {
			idx = append(idx, p)
		}
	}
	sort.Ints(idx)
	return idx
}

func c18envs(rng *rand.Rand) []*Env {
	envs := []*Env{baseEnv(), zeroEnv(), boundaryEnv()}
	long := baseEnv()
	long.AI = []int{-2, 5, 0, 7, 3, -1, 8, 1}
	long.AS = []string{"b", "", "abc", "a", "hello", "ab"}
	long.AA = []interface{}{3, "a", nil, 2.5, true, int8(3), -4, "ab"}
	long.AF = []float64{0.5, -1.5, 2, 0}
	long.I, long.I8, long.I16, long.I32, long.I64 = 2, -100, -300, 70000, 5
	long.U, long.U8, long.U16, long.U32 = 3, 200, 4, 2
	long.S, long.S2 = "hello", "a"
	long.St.X = 3
	envs = append(envs, long)
	single := baseEnv()
	single.AI, single.AS, single.AA, single.AF = []int{3}, []string{"a"}, []interface{}{nil}, []float64{1.5}
	single.I8, single.I16, single.I32, single.I64 = 100, 7, -1, -3
	single.St.X = 0
	envs = append(envs, single)
	envs = append(envs, randomEnv(rng))
	return envs
}

func runC18() {
	rep := newReport("C18")
	rng := rand.New(rand.NewSource(*seed))
	c := &c18ctx{rep: rep, rng: rng, envs: c18envs(rng), progs: map[string]*c18prog{}, runs: map[string]coreRun{}, seen: map[string]bool{}, dist: map[string]bool{}}
	c.startWatchdog()
	if *replay != "" {
		c18replay(c)
		return
	}
	// sizes: core set (also evaluated in Coq) and the Go-only extension
	corePairs, coreMaps, coreNested, coreRanges, coreSlices := 10, 5, 4, 12, 6
	extFactor := 20
	if *tier == "thorough" {
		corePairs, coreMaps, coreNested, coreRanges, coreSlices = 160, 80, 70, 200, 110
		extFactor = 10
	}
	g := &egen{rng: rng, wrong: 8, hist: nil}
	pools := []struct {
		t       gtype
		arrs    []string
		preds   []string
		mappers []string
	}{
		{tArrInt, c18intArrs, c18intPreds, c18intMappers},
		{tArrStr, c18strArrs, c18strPreds, c18strMappers},
		{tArrAny, c18anyArrs, c18anyPreds, c18anyMappers},
		{tArrAny, c18numArrs, c18numPreds, []string{"# * 2", "#", "Half(#)"}},
	}
	pickPool := func() int { return []int{0, 0, 0, 1, 2, 2, 3}[rng.Intn(7)] }
	genArr := func(pi int) string {
		p := pools[pi]
		if pi != 3 && rng.Intn(4) == 0 {
			g.elems = nil
			return g.expr(p.t, 1+rng.Intn(2))
		}
		if pi == 0 && rng.Intn(40) == 0 {
			return "1..40"
		}
		return p.arrs[rng.Intn(len(p.arrs))]
	}
	genBody := func(pi int, want gtype, fixed []string) string {
		if rng.Intn(3) == 0 {
			g.elems = []gtype{g.elemOf(pools[pi].t)}
			if pi == 3 {
				g.elems = []gtype{tNum}
			}
			defer func() { g.elems = nil }()
			return g.expr(want, 1+rng.Intn(2))
		}
		return fixed[rng.Intn(len(fixed))]
	}
	noteInst := func(xs, p string) {
		rep.hist(c18arrClass(xs))
		for _, k := range c18predClass(p) {
			rep.hist(k)
		}
	}
	var samples []string

	// ---- identities over (XS, P) ----
	for i := 0; i < corePairs*(1+extFactor); i++ {
		c.emit = i < corePairs
		pi := pickPool()
		xs := genArr(pi)
		p := genBody(pi, tBool, pools[pi].preds)
		noteInst(xs, p)
		k := 2
		if !c.emit {
			k = len(c.envs)
		}
		c.predicateIdentities(xs, p, c.pickEnvs(k))
		if i < 3 {
			samples = append(samples, "all("+xs+", {"+p+"}) vs not any("+xs+", {not ("+p+")})")
		}
	}
	// every fixed array with a logging predicate and a predicate with a builtin, every fixed predicate on the typed slice
	c.emit = false
	for pi, pl := range pools {
		for _, xs := range pl.arrs {
			c.predicateIdentities(xs, pl.preds[pi%len(pl.preds)], c.pickEnvs(3))
			c.predicateIdentities(xs, pl.preds[(pi+2)%len(pl.preds)], c.pickEnvs(3))
		}
		for _, p := range pl.preds {
			c.predicateIdentities(pl.arrs[0], p, []int{0, 1, 2, 3, 4, 5})
		}
	}
	// a collection that is LITERALLY a map(...) / filter(...) under a predicate whose NESTED builtin ranges over an expression of the
	// outer element: the element the predicate sees is the mapped value everywhere inside the predicate (no rewriting of the
	// pipeline may capture `#`)
	for _, xs := range []string{"map(AI, {# * 2})", "map(1..3, {# * 10})", "map(AI, {# + I})", "filter(map(AI, {# * 3}), {# > 0})", "map(map(1..3, {# + 1}), {# * 2})"} {
		for _, p := range []string{"count(0..#, {true}) > 4", "len(filter(1..#, {# > 2})) == 2", "any(#..(# + 1), {# == 6})", "one(0..#, {# == 5})", "count(1..#, {# > 0}) == #", "sum0(#)"} {
			if p == "sum0(#)" {
				p = "len(map(0..#, {#})) % 3 == 1"
			}
			c.predicateIdentities(xs, p, []int{0, 1, 2, 3})
		}
	}
	for _, xs := range []string{"map(AI, {[#, # * 2]})", "map(1..3, {1..#})"} {
		for _, p := range []string{"len(filter(#, {# > 1})) > 0", "count(#, {# % 2 == 0}) == 1", "all(#, {# > 0})"} {
			c.predicateIdentities(xs, p, []int{0, 1, 2, 3})
		}
	}
	// the identities over a collection that an EARLIER run on the same vm.VM returned (the documented reuse pattern: one machine, the
	// result of one rule fed to the next): both sides of an identity see the same, unchanged collection
	{
		machine := &vm.VM{}
		base := *c.envs[0]
		for _, first := range []string{"map(AI, {# * 10})", "filter(1..9, {# % 2 == 0})", "[I, I + 1, I + 2, 40]", "map(1..4, {[#, #]})"} {
			p1, err := expr.Compile(first, expr.Env(&base))
			if err != nil {
				continue
			}
			out, rerr := machine.Run(p1, &base)
			arr, ok := out.([]interface{})
			if rerr != nil || !ok {
				continue
			}
			want := c18Show(arr, 4)
			env2 := base
			env2.AA = arr
			for _, id := range []string{"len(filter(AA, {# != 20})) == count(AA, {# != 20})", "all(AA, {[#, #][0] == #})", "count(AA, {true}) == len(map(AA, {#}))", "len(AA) == len(map(AA, {[#]}))",
				"none(AA, {# == nil}) == not any(AA, {# == nil})", "filter(AA, {true}) == AA", "map(AA, {#}) == AA"} {
				p2, err := expr.Compile(id, expr.Env(&env2))
				if err != nil {
					continue
				}
				got, rerr := machine.Run(p2, &env2)
				c.rep.Evaluations++
				c.rep.hist("identity over a collection returned by an earlier run on the same VM")
				if rerr != nil || got != true || c18Show(arr, 4) != want {
					c.rep.fail(Failure{Key: "C18-reused-vm-identity", What: "an identity fails over a collection that an earlier run on the same vm.VM returned (or that collection changed)",
						Input: map[string]interface{}{"earlier run": first, "identity": id, "collection": want}, Want: "true, collection unchanged", Got: fmt.Sprintf("%v / %v, collection now %s", c18Show(got, 3), rerr, c18Show(arr, 4))})
					break
				}
			}
		}
	}
	// native oracle over AI
	for _, m := range c18Modes {
		for ei := range c.envs {
			c.emit = ei == 3 && (m.Name == "untyped" || m.Name == "typed+opt")
			c.nativeInt(m, ei)
		}
	}
	// ---- len(map) ----
	for i := 0; i < coreMaps*(1+extFactor); i++ {
		c.emit = i < coreMaps
		pi := pickPool()
		xs := genArr(pi)
		f := genBody(pi, []gtype{tInt, tAny, tStr, tBool, tArrInt}[rng.Intn(5)], pools[pi].mappers)
		noteInst(xs, f)
		k := 2
		if !c.emit {
			k = len(c.envs)
		}
		c.lenMap(xs, f, c.pickEnvs(k))
		if i == 0 {
			samples = append(samples, "len(map("+xs+", {"+f+"})) vs len("+xs+")")
		}
	}
	// ---- nested closures ----
	wrapPool := []string{"AI", "[1, 2]", "1..2", `["a"]`, "AS", "AA", "[nil, 1]", "AI[0:2]", "filter(AI, {# > 1})"}
	innerPool := []string{"count(AI, {# > 0})", "any(AI, {# > 1})", "filter(AI, {# > 1})", "all(AS, {len(#) > 0})", "map(1..2, {# * 2})",
		"one(AA, {# == nil})", "none(1..3, {# == 2})", "count(AS, {# == \"a\"}) + len(filter(AI, {IsPos(#)}))", "map(AI, {count(1..#, {# % 2 == 0})})",
		"filter(1..4, {# in AI})", "any(AI, {IsPos(#)})"}
	for i := 0; i < coreNested*(1+extFactor); i++ {
		c.emit = i < coreNested
		var body string
		if rng.Intn(2) == 0 {
			g.elems = nil
			body = g.expr([]gtype{tBool, tInt, tArrInt, tAny}[rng.Intn(4)], 2+rng.Intn(2))
			if !strings.Contains(body, "{") {
				body = innerPool[rng.Intn(len(innerPool))]
			}
		} else {
			body = innerPool[rng.Intn(len(innerPool))]
		}
		depth := 1 + rng.Intn(3) // nesting of the wrappers 1..3, the body adds at least one more level
		wraps := make([]string, depth)
		for j := range wraps {
			wraps[j] = wrapPool[rng.Intn(len(wrapPool))]
		}
		k := 2
		if !c.emit {
			k = 4
		}
		c.nested(body, wraps, c.pickEnvs(k))
		c.pointerAround(wrapPool[rng.Intn(len(wrapPool))], innerPool[rng.Intn(len(innerPool))], c.pickEnvs(k))
		emitWas := c.emit
		c.emit = false
		c.pointerAroundTyped([]string{"AS", "AF", `["a", "b"]`, "AI", "[1.5, 2]", "AA"}[i%6], innerPool[(i/6)%len(innerPool)], c.pickEnvs(2))
		c.emit = emitWas
		if i == 0 {
			samples = append(samples, "map("+wraps[0]+", {... "+body+" ...}) nested "+fmt.Sprint(depth)+" deep vs "+body)
		}
	}
	// ---- x in a..b ----
	bounds := []string{"-3", "0", "1", "2", "3", "5", "7", "100", "200", "252", "300", "I", "len(AI)", "St.X", "(I + 2)", "-1"}
	for i := 0; i < coreRanges*(1+extFactor); i++ {
		c.emit = i < coreRanges
		x := c18rangeXs[rng.Intn(len(c18rangeXs))]
		a, b := bounds[rng.Intn(len(bounds))], bounds[rng.Intn(len(bounds))]
		k := 2
		if !c.emit {
			k = len(c.envs)
		}
		c.inRange(x, a, b, rng.Intn(4) == 0, c.pickEnvs(k))
		if i == 0 {
			samples = append(samples, x.src+" in "+a+".."+b+" vs ("+x.src+" >= "+a+" and "+x.src+" <= "+b+")")
		}
	}
	// the witness of the recorded finding and its neighbours, on every run
	c.emit = true
	c.inRange(c18intExpr{"I8", 8}, "100", "252", false, []int{0, 3})
	c.inRange(c18intExpr{"I8", 8}, "100", "200", false, []int{3})
	c.inRange(c18intExpr{"I8", 8}, "-120", "100", false, []int{0, 3, 4})
	c.inRange(c18intExpr{"I16", 16}, "0", "300", false, []int{0, 3})
	// inside closures
	for abi, ab := range [][2]string{{"2", "3"}, {"I", "7"}, {"0", "len(AI)"}, {"3", "1"}} {
		c.emit = abi < 2
		for _, b := range []string{"filter", "count", "all", "map"} {
			lhs := fmt.Sprintf("%s(AI, {# in %s..%s})", b, ab[0], ab[1])
			rhs := fmt.Sprintf("%s(AI, {(# >= %s and # <= %s)})", b, ab[0], ab[1])
			for _, m := range c18Modes {
				for _, ei := range []int{0, 3} {
					if c.judgeEqual("in-range", lhs, rhs, m, ei, true) {
						c.dist[fmt.Sprintf("in-range-closure|%s|%s|%d", lhs, m.Name, ei)] = true
					}
				}
			}
		}
	}
	// ---- slices ----
	splitPool := []string{"0", "1", "2", "3", "7", "I", "-1", "St.X", "len(AI)", "(len(AI) + 1)", "(I - 1)"}
	for i := 0; i < coreSlices*(1+extFactor); i++ {
		c.emit = i < coreSlices
		var xs string
		isStr := false
		switch rng.Intn(5) {
		case 0:
			xs = []string{"S", "S2", `"hello"`, "St.Y", `("a" + S)`}[rng.Intn(5)]
			isStr = true
		default:
			xs = genArr(pickPool())
		}
		k := 2
		if !c.emit {
			k = len(c.envs)
		}
		c.slicePartition(xs, splitPool[rng.Intn(len(splitPool))], isStr, c.pickEnvs(k))
		if i == 0 {
			samples = append(samples, xs+"[0:i] ++ "+xs+"[i:] vs "+xs)
		}
	}

	rep.Distinct = len(c.dist)
	// ---- the NAMES of environment variables do not matter inside a closure: an environment variable called like one of the
	//      loop's own bookkeeping names (i, size, array, count) is the environment variable - every builtin, every nesting, compiled
	//      without an environment type / against a typed map / with Eval (identifier access by name at run time)
	{
		names := []string{"i", "size", "array", "count"}
		mk := func(prefix string) map[string]interface{} {
			m := map[string]interface{}{"xs": []int{1, 2, 3, 4, 5}, "ys": []int{2, 4}}
			for k, n := range names {
				m[prefix+n] = k + 2
			}
			return m
		}
		tmk := func(prefix string) map[string]int {
			m := map[string]int{}
			for k, n := range names {
				m[prefix+n] = k + 2
			}
			return m
		}
		templates := []string{"filter(1..6, {# > %s})", "map(1..4, {# + %s})", "all(1..6, {# > %s})", "any(1..6, {# == %s})", "none(1..6, {# == %s + 3})", "one(1..6, {# > %s + 1})", "count(1..6, {# >= %s})",
			"map(1..3, {filter(1..6, {# > %s})})", "filter(1..6, {# > %s and # > %s - 1})", "count(1..6, {# > %s}) + %s", "map(1..2, {%s})", "len(filter(1..9, {# %% %s == 0}))"}
		evalOn := func(src string, env interface{}, how string) (interface{}, error) {
			defer func() { recover() }()
			switch how {
			case "Eval":
				return expr.Eval(src, env)
			case "typed map":
				p, err := expr.Compile(src, expr.Env(env))
				if err != nil {
					return nil, err
				}
				return expr.Run(p, env)
			default:
				p, err := expr.Compile(src)
				if err != nil {
					return nil, err
				}
				return expr.Run(p, env)
			}
		}
		for _, tpl := range templates {
			for _, n := range names {
				for _, how := range []string{"Compile without Env", "Eval", "typed map"} {
					var e1, e2 interface{} = mk(""), mk("z")
					if how == "typed map" {
						e1, e2 = tmk(""), tmk("z")
					}
					a := strings.Count(tpl, "%s")
					args1, args2 := make([]interface{}, a), make([]interface{}, a)
					for k := range args1 {
						args1[k], args2[k] = n, "z"+n
					}
					s1, s2 := fmt.Sprintf(tpl, args1...), fmt.Sprintf(tpl, args2...)
					o1, err1 := evalOn(s1, e1, how)
					o2, err2 := evalOn(s2, e2, how)
					rep.Evaluations++
					rep.hist("environment variable named like a loop variable")
					if (err1 == nil) != (err2 == nil) || (err1 == nil && !c18sameValue(o1, o2)) {
						rep.fail(Failure{Key: "C18-closure-env-name", What: "inside a closure an environment variable named like the loop's own bookkeeping (i, size, array, count) is not the environment variable",
							Input: map[string]interface{}{"src": s1, "how": how, "env": fmt.Sprint(e1)}, Want: fmt.Sprintf("as %s over the renamed variable: %v (error %v)", s2, o2, err2), Got: fmt.Sprintf("%v (error %v)", o1, err1)})
					}
				}
			}
		}
	}
	rep.Rule = "instances = (array, predicate/mapper) pairs drawn from fixed pools (typed slices AI AS AA AF, literals, ranges incl. empty and descending, results of filter/map, slice expressions; predicates with #, with logging calls IsPos/Inc, with builtins of their own, non-boolean and failing ones) and from the type-directed generator egen (elems set to the element type), closed bodies nested under 1-3 map wrappers (total closure depth up to 4+), integer-kinded operands of every integer kind against literal and dynamic range bounds, split points below 0 / inside / at / beyond len for arrays and strings; both sides compiled untyped, typed, untyped+opt, typed+opt and run on base/zero(nil slices)/boundary(empty)/long(8 elements)/singleton/random environments; one evaluation = one judgement of a pair of runs (or of a run against the natively computed result); distinct_nontrivial counts distinct (identity, sources, mode, environment) judged with BOTH sides compiled and a non-empty collection (non-descending range, non-empty sequence)"
	for _, s := range samples {
		rep.Samples = append(rep.Samples, s)
	}
	rep.Extra["runs_total"] = c.nRuns
	rep.Extra["runs_evaluated_in_coq"] = len(c.cases)
	rep.Extra["programs_compiled"] = len(c.progs)
	rep.writeShards("cases_c18", coreHeader(c.envs), "ccase", "core_mismatches fe", c.cases)
	rep.write()
}

func c18replay(c *c18ctx) {
	var in struct {
		Identity, Lhs, Rhs, Mode string
		Env                      int
	}
	if err := json.Unmarshal([]byte(*replay), &in); err != nil {
		fmt.Println("bad replay argument:", err)
		return
	}
	for _, m := range c18Modes {
		if m.Name != in.Mode {
			continue
		}
		l, lok := c.run(in.Lhs, m, in.Env)
		r, rok := c.run(in.Rhs, m, in.Env)
		fmt.Printf("identity %s, mode %s, %s\n  lhs %s\n      -> %s\n  rhs %s\n      -> %s\n", in.Identity, m.Name, c.envNote(in.Env),
			in.Lhs, c18show(l, lok), in.Rhs, c18show(r, rok))
	}
}

// c18Show prints nested []interface{} values to a bounded depth (a corrupted result may contain itself).
func c18Show(v interface{}, depth int) string {
	xs, ok := v.([]interface{})
	if !ok {
		return fmt.Sprintf("%T(%v)", v, v)
	}
	if depth == 0 {
		return "[...]"
	}
	parts := make([]string, 0, len(xs))
	for i, x := range xs {
		if i == 12 {
			parts = append(parts, "...")
			break
		}
		parts = append(parts, c18Show(x, depth-1))
	}
	return "[" + strings.Join(parts, " ") + "]"
}

package main

// Type-directed random generator of expr source text over the environment universe.

import (
	"fmt"
	"math/rand"
	"strings"
)

type gtype int

const (
	tInt gtype = iota
	tNum
	tBool
	tStr
	tArrInt
	tArrStr
	tArrAny
	tMapI
	tMapA
	tInner
	tAny
)

type egen struct {
	rng   *rand.Rand
	elems []gtype // element types of the enclosing closures, innermost last
	wrong int     // per-mille rate of deliberately ill-typed operands
	hist  map[string]int
}

func (g *egen) pick(xs ...string) string { return xs[g.rng.Intn(len(xs))] }

func (g *egen) note(k string) {
	if g.hist != nil {
		g.hist[k]++
	}
}

func (g *egen) elemOf(t gtype) gtype {
	switch t {
	case tArrInt:
		return tInt
	case tArrStr:
		return tStr
	}
	return tAny
}

func (g *egen) expr(t gtype, d int) string {
	if g.wrong > 0 && g.rng.Intn(1000) < g.wrong {
		g.note("ill-typed operand")
		t = gtype(g.rng.Intn(int(tAny) + 1))
	}
	if d <= 0 {
		return g.atom(t)
	}
	switch t {
	case tInt:
		return g.intExpr(d)
	case tNum:
		return g.numExpr(d)
	case tBool:
		return g.boolExpr(d)
	case tStr:
		return g.strExpr(d)
	case tArrInt, tArrStr, tArrAny:
		return g.arrExpr(t, d)
	case tMapI:
		return "MI"
	case tMapA:
		if g.rng.Intn(3) == 0 {
			g.note("map literal")
			return fmt.Sprintf("{a: %s, \"b\": %s}", g.expr(tAny, d-1), g.expr(tInt, d-1))
		}
		return "MA"
	case tInner:
		return g.pick("St", "P", "St.Next", "P.Next", "P?.Next")
	}
	return g.anyExpr(d)
}

func (g *egen) innermost(t gtype) bool {
	return len(g.elems) > 0 && g.elems[len(g.elems)-1] == t
}

func (g *egen) atom(t gtype) string {
	switch t {
	case tInt:
		if g.innermost(tInt) && g.rng.Intn(2) == 0 {
			return "#"
		}
		return g.pick("0", "1", "2", "3", "7", "I", "I", "U8", "I8", "I16", "len(AI)", "St.X")
	case tNum:
		return g.pick("1", "2", "0.5", "1.5", "I", "F64", "F32", "U8", "I64", "U64", "I32")
	case tBool:
		return g.pick("true", "false", "B", "B2")
	case tStr:
		if g.innermost(tStr) && g.rng.Intn(2) == 0 {
			return "#"
		}
		return g.pick(`"a"`, `"ab"`, `"abc"`, `""`, `'b'`, "S", "S2", "St.Y")
	case tArrInt:
		if g.innermost(tInt) && g.rng.Intn(3) == 0 {
			// a collection that depends on the element of the ENCLOSING closure
			return g.pick("(1..#)", "(#..3)", "[#, 1, #]", "(0..(# + 1))")
		}
		return g.pick("AI", "AI", "1..3", "[1, 2, 3]")
	case tArrStr:
		return g.pick("AS", `["a", "b"]`)
	case tArrAny:
		return g.pick("AA", `[1, "a", nil]`, "[]")
	case tMapI:
		return "MI"
	case tMapA:
		return "MA"
	case tInner:
		return g.pick("St", "P")
	}
	if len(g.elems) > 0 && g.rng.Intn(3) == 0 {
		return "#"
	}
	return g.pick("Any", "nil", "1", `"a"`, "AA", "MA", "I", "S", "B", "P", "F64")
}

func (g *egen) closure(arr gtype, body func() string) string {
	g.elems = append(g.elems, g.elemOf(arr))
	defer func() { g.elems = g.elems[:len(g.elems)-1] }()
	g.note(fmt.Sprintf("closure depth %d", len(g.elems)))
	return "{" + body() + "}"
}

func (g *egen) someArr(d int) (gtype, string) {
	t := []gtype{tArrInt, tArrInt, tArrStr, tArrAny}[g.rng.Intn(4)]
	return t, g.expr(t, d)
}

// smallInt: integer expressions whose value stays small on every environment of the universe
// except where it is MaxInt (then a range over it is refused by the budget at once)
func (g *egen) smallInt(d int) string {
	if d > 0 && g.rng.Intn(3) == 0 {
		return g.pick("(", "Inc(", "-(") + g.smallInt(d-1) + g.pick(" + 1)", " - 2)", " * 2)")
	}
	if g.innermost(tInt) && g.rng.Intn(3) == 0 {
		return "#"
	}
	return g.pick("0", "1", "2", "3", "5", "-1", "I", "len(AI)", "St.X", "8")
}

func (g *egen) intExpr(d int) string {
	switch g.rng.Intn(16) {
	case 0, 1:
		return g.atom(tInt)
	case 2:
		return fmt.Sprintf("(%s %s %s)", g.expr(tInt, d-1), g.pick("+", "-", "*"), g.expr(tInt, d-1))
	case 3:
		g.note("div/mod")
		return fmt.Sprintf("(%s %s %s)", g.expr(tInt, d-1), g.pick("/", "%"), g.expr(tInt, d-1))
	case 4:
		return "-" + g.expr(tInt, d-1)
	case 5:
		g.note("conditional")
		return fmt.Sprintf("(%s ? %s : %s)", g.expr(tBool, d-1), g.expr(tInt, d-1), g.expr(tInt, d-1))
	case 6:
		g.note("index")
		return fmt.Sprintf("%s[%s]", g.pick("AI", "AI", "(1..5)"), g.expr(tInt, d-1))
	case 7:
		return fmt.Sprintf("MI[%s]", g.expr(tStr, d-1))
	case 8:
		g.note("field")
		return g.pick("St.X", "P.X", "St.Next.X", "P.Next.X", "St.Next?.X")
	case 9:
		g.note("call")
		return fmt.Sprintf("Add(%s, %s)", g.expr(tInt, d-1), g.expr(tInt, d-1))
	case 10:
		g.note("call")
		return g.pick("Inc(", "Twice(", "PtrM(") + g.expr(tInt, d-1) + ")"
	case 11:
		g.note("call")
		n := g.rng.Intn(4)
		args := make([]string, n)
		for i := range args {
			args[i] = g.expr(tInt, d-1)
		}
		return "Sum(" + strings.Join(args, ", ") + ")"
	case 12:
		g.note("method")
		return g.pick("St.Get()", "P.Get()", "St.Next.Get()")
	case 13:
		g.note("builtin count")
		t, a := g.someArr(d - 1)
		return fmt.Sprintf("count(%s, %s)", a, g.closure(t, func() string { return g.expr(tBool, d-1) }))
	case 14:
		g.note("builtin len")
		_, a := g.someArr(d - 1)
		return "len(" + a + ")"
	}
	return "len(" + g.expr(tStr, d-1) + ")"
}

func (g *egen) numExpr(d int) string {
	switch g.rng.Intn(8) {
	case 0:
		return g.atom(tNum)
	case 1, 2:
		return g.intExpr(d)
	case 3:
		return fmt.Sprintf("(%s %s %s)", g.expr(tNum, d-1), g.pick("+", "-", "*", "/"), g.expr(tNum, d-1))
	case 4:
		g.note("pow")
		return fmt.Sprintf("(%s ** %s)", g.pick("2", "3", "0.5", "I", "F64", "U8"), g.pick("2", "3", "0.5", "-1", "I", "F64"))
	case 5:
		return "-" + g.expr(tNum, d-1)
	case 6:
		g.note("call")
		return "Half(" + g.pick("F64", "1.5", "3", "(1 + 2)", "I") + ")"
	}
	return fmt.Sprintf("AF[%s]", g.expr(tInt, d-1))
}

func (g *egen) boolExpr(d int) string {
	switch g.rng.Intn(20) {
	case 0:
		return g.atom(tBool)
	case 1:
		return g.pick("not ", "!") + g.expr(tBool, d-1)
	case 2, 3:
		g.note("short-circuit")
		return fmt.Sprintf("(%s %s %s)", g.expr(tBool, d-1), g.pick("and", "or", "&&", "||"), g.expr(tBool, d-1))
	case 4, 5:
		return fmt.Sprintf("(%s %s %s)", g.expr(tNum, d-1), g.pick("<", ">", "<=", ">=", "==", "!="), g.expr(tNum, d-1))
	case 6:
		return fmt.Sprintf("(%s %s %s)", g.expr(tStr, d-1), g.pick("==", "!=", "<", ">=", "contains", "startsWith", "endsWith"), g.expr(tStr, d-1))
	case 7:
		g.note("nil comparison")
		return fmt.Sprintf("(%s %s nil)", g.pick("P", "Any", "St.Next", "P?.Next", "MA[\"n\"]", "AA[2]", "nil"), g.pick("==", "!="))
	case 8:
		g.note("in array")
		return fmt.Sprintf("(%s %s %s)", g.expr(tInt, d-1), g.pick("in", "not in"), g.expr(tArrInt, d-1))
	case 9:
		g.note("in map/struct")
		return fmt.Sprintf("(%s %s %s)", g.expr(tStr, d-1), g.pick("in", "not in"), g.pick("MI", "MA", "St", "P", "AS", "AA"))
	case 10:
		g.note("matches")
		return fmt.Sprintf("(%s matches %s)", g.pick("S", "S2", `"abc"`, `"hello"`, `"x1"`), g.pick(`"^a"`, `"b$"`, `"a.c"`, `"[0-9]"`, `"h.*o"`, "S2"))
	case 11, 12:
		g.note("builtin all/none/any/one")
		t, a := g.someArr(d - 1)
		return fmt.Sprintf("%s(%s, %s)", g.pick("all", "none", "any", "one"), a, g.closure(t, func() string { return g.expr(tBool, d-1) }))
	case 13:
		g.note("call")
		return "IsPos(" + g.expr(tInt, d-1) + ")"
	case 14:
		g.note("conditional")
		return fmt.Sprintf("(%s ? %s : %s)", g.expr(tBool, d-1), g.expr(tBool, d-1), g.expr(tBool, d-1))
	case 15:
		g.note("in range")
		return fmt.Sprintf("(%s in %s..%s)", g.expr(tNum, d-1), g.smallInt(0), g.smallInt(0))
	case 16:
		return fmt.Sprintf("(%s == %s)", g.expr(tAny, d-1), g.expr(tAny, d-1))
	case 17:
		g.note("array equality")
		return fmt.Sprintf("(%s == %s)", g.expr(tArrInt, d-1), g.expr(tArrInt, d-1))
	}
	return fmt.Sprintf("(%s %s %s)", g.expr(tInt, d-1), g.pick("<", "==", ">"), g.expr(tInt, d-1))
}

func (g *egen) strExpr(d int) string {
	switch g.rng.Intn(10) {
	case 0, 1:
		return g.atom(tStr)
	case 2:
		return fmt.Sprintf("(%s + %s)", g.expr(tStr, d-1), g.expr(tStr, d-1))
	case 3:
		g.note("conditional")
		return fmt.Sprintf("(%s ? %s : %s)", g.expr(tBool, d-1), g.expr(tStr, d-1), g.expr(tStr, d-1))
	case 4:
		g.note("field")
		return g.pick("St.Y", "P.Y", "P?.Y", "St.Next.Y")
	case 5:
		g.note("index")
		return fmt.Sprintf("AS[%s]", g.expr(tInt, d-1))
	case 6:
		g.note("call")
		return fmt.Sprintf("Concat(%s, %s)", g.expr(tStr, d-1), g.expr(tStr, d-1))
	case 7:
		g.note("slice")
		return fmt.Sprintf("%s[%s:%s]", g.pick("S", "S2", `"hello"`), g.expr(tInt, d-1), g.expr(tInt, d-1))
	case 8:
		g.note("slice")
		return g.pick("S", `"hello"`) + g.pick("[1:]", "[:2]", "[:]")
	}
	return g.atom(tStr)
}

func (g *egen) arrExpr(t gtype, d int) string {
	switch g.rng.Intn(9) {
	case 0, 1:
		return g.atom(t)
	case 2:
		g.note("array literal")
		n := g.rng.Intn(4)
		items := make([]string, n)
		for i := range items {
			items[i] = g.expr(g.elemOf(t), d-1)
		}
		return "[" + strings.Join(items, ", ") + "]"
	case 3:
		if t == tArrInt {
			g.note("range")
			return fmt.Sprintf("(%s..%s)", g.smallInt(d-1), g.smallInt(d-1))
		}
		return g.atom(t)
	case 4:
		g.note("builtin filter")
		a := g.expr(t, d-1)
		return fmt.Sprintf("filter(%s, %s)", a, g.closure(t, func() string { return g.expr(tBool, d-1) }))
	case 5:
		g.note("builtin map")
		st, a := g.someArr(d - 1)
		return fmt.Sprintf("map(%s, %s)", a, g.closure(st, func() string { return g.expr(g.elemOf(t), d-1) }))
	case 6:
		g.note("slice")
		return fmt.Sprintf("%s[%s:%s]", g.expr(t, d-1), g.expr(tInt, d-1), g.expr(tInt, d-1))
	case 7:
		g.note("slice")
		return g.expr(t, d-1) + g.pick("[1:]", "[:2]", "[:]", "[:-1]")
	}
	g.note("conditional")
	return fmt.Sprintf("(%s ? %s : %s)", g.expr(tBool, d-1), g.expr(t, d-1), g.expr(t, d-1))
}

func (g *egen) anyExpr(d int) string {
	switch g.rng.Intn(12) {
	case 0:
		return g.atom(tAny)
	case 1:
		return g.expr(tInt, d)
	case 2:
		return g.expr(tBool, d)
	case 3:
		return g.expr(tStr, d)
	case 4:
		return g.expr(tArrInt, d)
	case 5:
		return g.expr(tArrAny, d)
	case 6:
		return g.expr(tNum, d)
	case 7:
		return fmt.Sprintf("MA[%s]", g.expr(tStr, d-1))
	case 8:
		return fmt.Sprintf("AA[%s]", g.expr(tInt, d-1))
	case 9:
		g.note("call")
		return "Id(" + g.expr(tAny, d-1) + ")"
	case 10:
		g.note("call fast")
		n := g.rng.Intn(3)
		args := make([]string, n)
		for i := range args {
			args[i] = g.expr(tAny, d-1)
		}
		return "Fast(" + strings.Join(args, ", ") + ")"
	}
	g.note("nil-safe")
	if g.rng.Intn(2) == 0 {
		// nil-safe method calls WITH arguments on receivers that may be an untyped nil
		recv := g.pick("Any", "AA[2]", "MA[\"n\"]", "MA.n", "Any?.foo", "P?.Next")
		n := 1 + g.rng.Intn(3)
		args := make([]string, n)
		for i := range args {
			args[i] = g.expr(tInt, 0)
		}
		call := fmt.Sprintf("%s?.%s(%s)", recv, g.pick("Plus", "Get", "Foo"), strings.Join(args, ", "))
		return g.pick(call, "["+g.expr(tInt, 0)+", "+call+", "+g.expr(tStr, 0)+"]", "("+call+" == nil)")
	}
	return g.pick("P?.X", "P?.Next?.Y", "St.Next?.Next", "Any?.foo", "P?.Get()", "Boom(1)")
}

// small exhaustive family: every leaf / unary / binary / ternary / builtin shape over a fixed alphabet
func exhaustiveExprs(level int) []string {
	leaves := []string{"1", "I", "B", "S", "AI", "nil", "P", "F64", `"a"`}
	unary := []string{"-", "not ", "!", "+"}
	binary := []string{"or", "and", "==", "!=", "<", ">", ">=", "<=", "not in", "in", "matches", "contains", "startsWith", "endsWith", "..", "+", "-", "*", "/", "%", "**", "||", "&&"}
	var out []string
	out = append(out, leaves...)
	for _, u := range unary {
		for _, l := range leaves {
			out = append(out, u+l)
		}
	}
	for _, b := range binary {
		for _, l := range leaves {
			for _, r := range leaves {
				if b == "matches" && !(r == `"a"` || r == "S") {
					continue
				}
				if b == "**" && (l == "S" || l == `"a"` || r == "S" || r == `"a"` || l == "AI" || r == "AI" || l == "P" || r == "P" || l == "nil" || r == "nil" || l == "B" || r == "B") {
					continue
				}
				out = append(out, l+" "+b+" "+r)
			}
		}
	}
	for _, l := range leaves {
		out = append(out, "len("+l+")", l+"[1]", l+"[0:1]", l+"[:1]", l+"[1:]", l+".X", l+"?.X", "["+l+"]", "{a: "+l+"}", l+".Get()", l+"?.Get()", "Id("+l+")", "Inc("+l+")", "Fast("+l+")")
		if l != "1" && l != "nil" && l != `"a"` {
			out = append(out, l+"?.Plus(1, 2)", "[7, "+l+"?.Plus(I, 2), 9]", "Any?.Plus("+l+")", "[Any?.Foo("+l+", 1), 2]")
		}
		for _, bi := range []string{"all", "none", "any", "one", "filter", "map", "count"} {
			out = append(out, bi+"("+l+", {true})", bi+"("+l+", {#})", bi+"(AI, {# > "+l+"})", bi+"(AI, {"+l+"})")
		}
	}
	if level >= 2 {
		for _, c := range leaves {
			for _, a := range leaves {
				for _, b := range leaves {
					out = append(out, c+" ? "+a+" : "+b)
				}
			}
		}
		for _, b1 := range []string{"or", "and", "+", "==", "in", "..", "<"} {
			for _, b2 := range []string{"or", "and", "*", "!=", "not in", "-"} {
				for _, l := range []string{"1", "I", "B", "AI"} {
					for _, m := range []string{"2", "B2", "S"} {
						for _, r := range []string{"3", "B", "AI"} {
							out = append(out, l+" "+b1+" "+m+" "+b2+" "+r)
						}
					}
				}
			}
		}
		for _, bi := range []string{"all", "none", "any", "one", "filter", "map", "count"} {
			for _, inner := range []string{"all", "any", "filter", "map", "count"} {
				out = append(out, bi+"(AI, {"+inner+"(AI, {# > 1}) "+"!= nil})", bi+"([AI, 1..2], {len("+inner+"(#, {# == 2})) > 0})")
			}
		}
	}
	return out
}

// nestedSources: builtins nested in the closures of other builtins whose COLLECTION argument is computed
// from the enclosing closure's element (so it must be compiled in the enclosing scope), to depth 3, with
// early exits taken and not taken, and uses of the outer element after the inner loop.
func nestedSources() []string {
	var out []string
	bs := []string{"all", "none", "any", "one", "filter", "map", "count"}
	body := map[string]string{"all": "# > 1", "none": "# > 1", "any": "# > 1", "one": "# > 1", "filter": "# > 1", "map": "# * 2", "count": "# > 1"}
	colls := []string{"[[1, 2], [3], [], [0, 5, 7]]", "[[2, 3], [4]]", "[[0], [1]]"}
	for _, outer := range bs {
		for _, inner := range bs {
			for ci, coll := range colls {
				if ci > 0 && (len(outer)+len(inner))%2 == 0 {
					continue
				}
				in := fmt.Sprintf("%s(#, {%s})", inner, body[inner])
				var b string
				switch outer {
				case "map":
					b = in
				default:
					switch inner {
					case "filter", "map":
						b = "len(" + in + ") > 0"
					case "count":
						b = in + " >= 1"
					default:
						b = in
					}
				}
				out = append(out, fmt.Sprintf("%s(%s, {%s})", outer, coll, b))
			}
		}
	}
	out = append(out,
		"map(AI, {count(1..#, {# % 2 == 0})})", "map(AI, {len(filter(1..(# + 1), {# > 1}))})", "filter(AI, {one(0..#, {# == 2})})",
		"map([[[1], [2, 3]], [[4]]], {map(#, {count(#, {# > 1})})})", "map([[[1], [2, 3]], [[4]]], {map(#, {one(#, {# > 1})})})",
		"all([[[1], [2, 3]], [[4]]], {all(#, {any(#, {# > 0})})})", "map([[1, 2], [3]], {len(#) + count(#, {# > 1}) + len(#)})",
		"map([[1, 2], [3]], {[count(#, {# > 1}), len(#), one(#, {# == 3})]})", "map([[1, 2], [3]], {none(#, {# > 2}) ? len(#) : -len(#)})",
		"count([[1, 2], [3]], {none(#, {# > 2})}) + count([[1, 2], [3]], {none(#, {# > 5})})", "map([[1, 2], [3]], {none(#, {# == 1})})",
		"map([[1, 1], [1, 2], [2, 2]], {one(#, {# == 1})})", "filter([[1, 1], [1, 2], [2, 2]], {one(#, {# == 1})})",
		"(count([1, 1], {# == 1}) == 1) == one([1, 1], {# == 1})", "1 + (one([1, 1, 1], {# == 1}) ? 1 : 2)", "[one([1, 1], {# == 1}), one([1, 2], {# == 1})]",
		"map(1..3, {map(1..3, {map(1..2, {map(1..2, {#})})})})", "all(1..2, {all(1..2, {all(1..2, {all(1..2, {all(1..2, {# > 0})})})})})",
		"len(map(1..2, {filter(1..3, {count(1..2, {any(1..2, {# == 2})}) > 0})}))")
	return out
}

// shapeSources: shapes that generators reach rarely - negations over connectives whose last operand is itself a
// negation, negated comparisons over floats (NaN in one environment: `not (a < b)` is not `a >= b`), closures whose
// textually first use of the element sits in a branch that is not taken, conditionals whose branches have different
// numeric kinds compared with ==, unary plus / minus over operations, membership of floats / narrow integers in
// integer arrays, fast functions called several times, calls of one function with different argument counts.
func shapeSources() []string {
	out := []string{
		"!(B and !B2)", "!(B2 and !B)", "not (B or not B2)", "not (B2 or not B)", "!(B ? B2 : !B2)", "!(B2 ? !B : B)", "!!B", "!(!B)", "!(I > 1 && !B) ? 1 : 2", "!(B && !B2) ? \"yes\" : \"no\"",
		"count(AI, {!(# > 1 and !B)})", "not (not B)", "!(B or !(B2 and !B))", "!(!B ? !B2 : !B)",
		"not (F64 < 1)", "not (F64 > 1)", "!(F64 <= I)", "!(F64 >= I)", "not (F32 < F64)", "not (AF[0] > 0)", "count(AF, {not (# > 0)})", "filter(AF, {!(# <= 1.5)})", "all(AF, {not (# < 0)})",
		"F64 <= 1", "F64 >= 1", "F64 <= F64", "F64 >= F64", "AF[0] <= I", "I >= AF[0]", "F32 >= I8", "not (F64 == F64)", "F64 != F64", "(F64 < 1) or (F64 >= 1)",
		"filter(AI, {B2 ? # > 2 : # > 0})", "filter(AI, {B ? # > 2 : # > 0})", "map(AI, {B2 and # > 100 or # != 1})", "count(AI, {B2 ? # * 2 > 0 : # > 1})", "map(AI, {B2 ? # * 2 : #})",
		"map(AI, {B ? # * 2 : #})", "any(AI, {(B2 and # > 0) or # == 1})", "map(AS, {B2 ? # + \"x\" : #})", "map(1..3, {B2 ? map(1..2, {#}) : [#]})", "count(AI, {false and # > 0 or # > 1})",
		"(B ? U8 : I) == 1", "(B2 ? U8 : I) == I", "(B ? I8 : I) == I", "(B ? 1 : 2.5) == 1", "(B2 ? I : U16) + 1", "(B ? F32 : I) * 2", "B ? 1 : 2.5", "B2 ? U8 : I",
		"+(I % 2)", "I - +(I % (I - I))", "+AI[9]", "-AI[9]", "+(I / (I - I))", "[1, +AI[I]][1]", "map(AI, {+(# % (# - #))})",
		"F64 in [1, 2, 3]", "F32 in [1, 2]", "2.5 in [1, 2, 3]", "1.5 in AI", "F64 in AI", "F64 in 1..3", "U8 in [200, 404, 500]", "U16 in [80, 443, 70000]", "I8 in [100, 300]", "I16 in [44, 65580]",
		// map literals that name one key twice (as an identifier, a string, a computed key that meets a spelled one for some environments)
		"{a: I, a: S}.a", "{a: 1, a: 2}", "{\"k\": 1, \"k\": 2, \"k\": 3}.k", "{(S2): 1, b: 2}.b", "{b: 1, (S2): 2}.b", "len({a: I, b: S, a: F64})", "{a: Inc(1), a: Inc(2)}.a",
		"{(S): 1, abc: 2, (S + \"\"): 3}", "map(AS, {{a: #, a: S}.a})", "{a: {b: 1, b: 2}, a: {b: 3}}.a.b",
		"Sum(1, 2) + Sum(1)", "Sum(1) + Sum(10, 20)", "Sum(1, 2, 3) + Sum()", "[Fast(1, 2), Fast(3)]", "Fast(1) + Fast(1, 2, 3)", "St.Get() + P.Get()", "Add(1, 2) + Add(3, 4) + Inc(5)",
	}
	// string literals that SPELL a punctuation token or an operator: a literal is a literal wherever the parser asks for a token by value
	out = append(out, `count(AS, {# == "#"})`, `map(AS, {# + "#"})`, `S contains "."`, `S == "("`, `len([")", "]"])`, `filter(AS, {# != "."})`, `[":", ","][0]`, `S + ":" + S2`,
		`{"a": ":"}.a`, `B ? "?" : ":"`, `S in ["(", ")", "#"]`, `Concat("(", ")")`, `"." + "."`, `AS[0] == "["`, `"not" == "not"`, `"in" in ["in", "and", "or"]`, `all(AS, {# != "{" and # != "}"})`)
	// arithmetic with the neutral literal: the result has the PROMOTED kind (uint8 * 1 is an int), never the operand itself
	for _, k := range []string{"U8", "U16", "U32", "U", "U64", "I8", "I16", "I32", "I64", "I", "F32", "F64"} {
		out = append(out, k+" * 1", "1 * "+k, k+" / 1", k+" + 0", "0 + "+k, k+" - 0", "-("+k+" * 1)", "("+k+" * 1) == I", k+" * 1 * 1", k+" + 0 + 0", k+" + 1 + 1", "1 + "+k+" + 1", k+" - 1 - 1", k+" * 3 * 3")
	}
	out = append(out, "Any + 1 + 1", "Any * 3 * 3", "Any - 1 - 1", "Any + 0.5 + 0.5", "AF[0] + 1 + 1", "F64 + 1 + 1 + 1")
	// a nested builtin BEFORE a later use of the outer element, the two collections having different element types (the
	// element `#` belongs to the innermost ENCLOSING collection, also for the checker's static type of it)
	out = append(out, "filter(AF, {count(AI, {# > 1}) > 0 and # in 1..3})", "filter(AF, {any(AI, {# > 2}) and # == 1.5})", "filter(AS, {any(AI, {# > 1}) and # == \"a\"})",
		"map(AF, {len(filter(AI, {# > 0})) + #})", "filter(AS, {all(AI, {# > 0}) and # startsWith \"a\"})", "map(AS, {count(AI, {# > 1}) > 0 ? # + \"x\" : #})",
		"filter(AF, {none(AI, {# > 9}) and # in [1, 2]})", "count(AF, {one(AI, {# == 1}) and # in 0..1})", "map(AI, {any(AS, {# == \"a\"}) and # == 1})", "filter(AI, {any(AF, {# > 1}) and # in 1..2})",
		"filter(AF, {any(AI, {any(AS, {# == \"a\"}) and # > 0}) and # in 0..2})")
	// unsigned operands of `in` over ranges whose lower bound is <= 0 (a uint / uint64 at or above 2^63 compares as a negative int)
	out = append(out, "U64 in 0..10", "U in 0..10", "U64 not in 0..10", "U64 in -5..5", "U in -1..1", "U32 in 0..10", "U8 in 0..255", "count([U64, U], {# in 0..10})")
	// `**` on two run-time ints whose exact power is at the edge of the 64-bit range (an integer fast path must agree with
	// the documented float result)
	for _, be := range [][2]string{{"4294967296", "2"}, {"3037000500", "2"}, {"-4294967296", "2"}, {"2147483648", "2"}, {"65536", "4"}, {"55109", "4"}, {"-65536", "4"},
		{"256", "8"}, {"-256", "8"}, {"235", "8"}, {"2", "63"}, {"2", "64"}, {"-2", "63"}, {"3", "40"}, {"10", "19"}, {"7", "23"}} {
		out = append(out, "(I - I + "+be[0]+") ** (I - I + "+be[1]+")")
	}
	out = append(out, "(I - I + 4294967296) ** 2", "I64 ** 2", "(I - I + 65536) ** 4 > 0")
	// mixed-kind arithmetic whose result meets an operation that is SPECIALISED on the static kind (== on two ints, the
	// in-array rewrite): the static type of `a op b` has to be the dynamic one
	pairs := [][2]string{{"I", "I8"}, {"I8", "I"}, {"I", "I16"}, {"I16", "I"}, {"I", "I32"}, {"I32", "I"}, {"I", "I64"}, {"I64", "I"}, {"I", "U8"}, {"U8", "I"},
		{"I", "U"}, {"U", "I"}, {"I8", "I16"}, {"U8", "I64"}, {"U", "I64"}, {"I32", "I8"}}
	for i, pr := range pairs {
		op := []string{"+", "*", "-"}[i%3]
		ab := "(" + pr[0] + " " + op + " " + pr[1] + ")"
		out = append(out, ab+" == 3", ab+" == I", ab+" in [1, 2, 3, 5, 6]", "len(AI) == "+ab)
	}
	return out
}

package main

// Go -> Coq serialisers for token lists (coq/Syn/Tok.v), built on cqStr / cqZ of ser_core.go.
// Strings with a byte outside printable ASCII come out as `(sb [..])`: case files that use these
// need `sb` in scope (defined in Corr/Universe.v and, identically, in Corr/CorrC11.v).

import (
	"fmt"
	"strings"

	"github.com/antonmedv/expr/file"
	"github.com/antonmedv/expr/parser/lexer"
)

func coqLoc(l file.Location) string {
	return fmt.Sprintf("(%s, %s)", cqZ(int64(l.Line)), cqZ(int64(l.Column)))
}

var coqTokKinds = map[lexer.Kind][2]string{
	lexer.Identifier: {"TkIdentifier", "tI"}, lexer.Number: {"TkNumber", "tN"}, lexer.String: {"TkString", "tS"},
	lexer.Operator: {"TkOperator", "tO"}, lexer.Bracket: {"TkBracket", "tB"}, lexer.EOF: {"TkEOF", "tE"},
}

func coqTokKind(k lexer.Kind) [2]string {
	n, ok := coqTokKinds[k]
	if !ok {
		panic(fmt.Sprintf("coqTokens: unknown token kind %q", string(k)))
	}
	return n
}

// coqTokens: `[(mkTok (1, 0) TkNumber "1"); ...]` (coq/Syn/Tok.v only).
func coqTokens(toks []lexer.Token) string {
	items := make([]string, len(toks))
	for i, t := range toks {
		items[i] = "(mkTok " + coqLoc(t.Location) + " " + coqTokKind(t.Kind)[0] + " " + cqStr(t.Value) + ")"
	}
	return "[" + strings.Join(items, "; ") + "]"
}

// coqTokensShort: the same list with the short constructors tI tN tS tO tB tE of Corr/CorrC11.v
// (line, column, value; tE has no value - lexer.Lex never gives the EOF token one).
func coqTokensShort(toks []lexer.Token) string {
	items := make([]string, len(toks))
	for i, t := range toks {
		lc := cqZ(int64(t.Line)) + " " + cqZ(int64(t.Column))
		switch {
		case t.Kind == lexer.EOF && t.Value == "":
			items[i] = "tE " + lc
		case t.Kind == lexer.EOF:
			items[i] = "mkTok " + coqLoc(t.Location) + " TkEOF " + cqStr(t.Value)
		default:
			items[i] = coqTokKind(t.Kind)[1] + " " + lc + " " + cqStr(t.Value)
		}
	}
	return "[" + strings.Join(items, "; ") + "]"
}

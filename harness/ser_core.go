package main

// Go -> Coq serialisers for the core correspondence: strings, types, values, ASTs, programs.

import (
	"fmt"
	"math"
	"reflect"
	"regexp"
	"sort"
	"strings"

	"github.com/antonmedv/expr/ast"
	"github.com/antonmedv/expr/file"
	"github.com/antonmedv/expr/vm"
)

// cqStr: a Go string (arbitrary bytes) as a Coq string term.
func cqStr(s string) string {
	plain := true
	for i := 0; i < len(s); i++ {
		if s[i] < 0x20 || s[i] > 0x7e {
			plain = false
			break
		}
	}
	if plain {
		return "\"" + strings.ReplaceAll(s, "\"", "\"\"") + "\""
	}
	var b strings.Builder
	b.WriteString("(sb [")
	for i := 0; i < len(s); i++ {
		if i > 0 {
			b.WriteString(";")
		}
		fmt.Fprintf(&b, "%d", s[i])
	}
	b.WriteString("])")
	return b.String()
}

func cqZ(z int64) string {
	if z < 0 {
		return fmt.Sprintf("(%d)", z)
	}
	return fmt.Sprintf("%d", z)
}

var numKindCoq = map[reflect.Kind]string{
	reflect.Uint: "KUint", reflect.Uint8: "KUint8", reflect.Uint16: "KUint16", reflect.Uint32: "KUint32", reflect.Uint64: "KUint64",
	reflect.Int: "KInt", reflect.Int8: "KInt8", reflect.Int16: "KInt16", reflect.Int32: "KInt32", reflect.Int64: "KInt64",
	reflect.Float32: "KF32", reflect.Float64: "KF64",
}

func isBuiltinNamed(t reflect.Type) bool { return t.PkgPath() == "" }

func cqTy(t reflect.Type) string {
	if t == nil {
		return "TNilT"
	}
	if t.Name() != "" && !isBuiltinNamed(t) && t.Kind() != reflect.Struct {
		// declared non-struct type
		under := "TOpaque " + cqStr(t.Kind().String())
		if k, ok := numKindCoq[t.Kind()]; ok {
			under = "TNum " + k
		} else if t.Kind() == reflect.String {
			under = "TString"
		} else if t.Kind() == reflect.Bool {
			under = "TBool"
		}
		return fmt.Sprintf("(TNamed %s (%s))", cqStr(t.String()), under)
	}
	switch t.Kind() {
	case reflect.Bool:
		return "TBool"
	case reflect.String:
		return "TString"
	case reflect.Interface:
		if t.NumMethod() == 0 {
			return "TIface"
		}
		return "(TOpaque " + cqStr(t.String()) + ")"
	case reflect.Slice:
		return "(TSlice " + cqTy(t.Elem()) + ")"
	case reflect.Map:
		return "(TMap " + cqTy(t.Key()) + " " + cqTy(t.Elem()) + ")"
	case reflect.Struct:
		return "(TStruct " + cqStr(t.Name()) + ")"
	case reflect.Ptr:
		return "(TPtr " + cqTy(t.Elem()) + ")"
	case reflect.Func:
		ins := make([]string, t.NumIn())
		for i := range ins {
			ins[i] = cqTy(t.In(i))
		}
		outs := make([]string, t.NumOut())
		for i := range outs {
			outs[i] = cqTy(t.Out(i))
		}
		v := "false"
		if t.IsVariadic() {
			v = "true"
		}
		return fmt.Sprintf("(TFunc [%s] %s [%s])", strings.Join(ins, "; "), v, strings.Join(outs, "; "))
	}
	if k, ok := numKindCoq[t.Kind()]; ok {
		return "(TNum " + k + ")"
	}
	return "(TOpaque " + cqStr(t.String()) + ")"
}

func cqNumV(rv reflect.Value) string {
	k := numKindCoq[rv.Kind()]
	switch rv.Kind() {
	case reflect.Float32, reflect.Float64:
		return fmt.Sprintf("(VNum (NFlt %s %s))", k, coqFloat(rv.Float()))
	case reflect.Int, reflect.Int8, reflect.Int16, reflect.Int32, reflect.Int64:
		return fmt.Sprintf("(VNum (NInt %s %s))", k, cqZ(rv.Int()))
	}
	return fmt.Sprintf("(VNum (NInt %s %d))", k, rv.Uint())
}

// cqValue: a Go value held in an interface{} as a Coq `value`.  funcName names function values
// (they are identified by the member they were found in).
func cqValue(v interface{}) string { return cqRV(reflect.ValueOf(v), "") }

func cqRV(rv reflect.Value, member string) string {
	if !rv.IsValid() {
		return "VNil"
	}
	t := rv.Type()
	if rv.Kind() == reflect.Interface {
		if rv.IsNil() {
			return "VNil"
		}
		return cqRV(rv.Elem(), member)
	}
	if t.Name() != "" && !isBuiltinNamed(t) && t.Kind() != reflect.Struct {
		under := reflect.New(underlying(t)).Elem()
		under.Set(rv.Convert(underlying(t)))
		return fmt.Sprintf("(VNamed %s %s)", cqStr(t.String()), cqRV(under, member))
	}
	switch rv.Kind() {
	case reflect.Bool:
		if rv.Bool() {
			return "(VBool true)"
		}
		return "(VBool false)"
	case reflect.String:
		return "(VStr " + cqStr(rv.String()) + ")"
	case reflect.Slice:
		if rv.IsNil() {
			return "(VNilArr " + cqTy(t.Elem()) + ")"
		}
		items := make([]string, rv.Len())
		for i := range items {
			items[i] = cqRV(rv.Index(i), "")
		}
		return fmt.Sprintf("(VArr %s [%s])", cqTy(t.Elem()), strings.Join(items, "; "))
	case reflect.Map:
		if rv.IsNil() {
			return fmt.Sprintf("(VNilMap %s %s)", cqTy(t.Key()), cqTy(t.Elem()))
		}
		keys := rv.MapKeys()
		sort.Slice(keys, func(i, j int) bool { return lessKey(keys[i], keys[j]) })
		items := make([]string, len(keys))
		for i, k := range keys {
			items[i] = fmt.Sprintf("(%s, %s)", cqRV(k, ""), cqRV(rv.MapIndex(k), k.String()))
		}
		return fmt.Sprintf("(VMap %s %s [%s])", cqTy(t.Key()), cqTy(t.Elem()), strings.Join(items, "; "))
	case reflect.Struct:
		return cqStruct(rv, false)
	case reflect.Ptr:
		if rv.IsNil() {
			return "(VNilPtr " + cqTy(t.Elem()) + ")"
		}
		if rv.Elem().Kind() == reflect.Struct {
			return cqStruct(rv.Elem(), true)
		}
		return "(VOpaque " + cqStr(t.String()) + ")"
	case reflect.Func:
		if rv.IsNil() {
			return "(VOpaque \"nil func\")"
		}
		return fmt.Sprintf("(VFunc %s %s)", cqStr(member), cqTy(t))
	}
	if _, ok := numKindCoq[rv.Kind()]; ok {
		return cqNumV(rv)
	}
	return "(VOpaque " + cqStr(t.String()) + ")"
}

func underlying(t reflect.Type) reflect.Type {
	switch t.Kind() {
	case reflect.Bool:
		return reflect.TypeOf(true)
	case reflect.String:
		return reflect.TypeOf("")
	case reflect.Int:
		return reflect.TypeOf(int(0))
	case reflect.Int8:
		return reflect.TypeOf(int8(0))
	case reflect.Int16:
		return reflect.TypeOf(int16(0))
	case reflect.Int32:
		return reflect.TypeOf(int32(0))
	case reflect.Int64:
		return reflect.TypeOf(int64(0))
	case reflect.Uint:
		return reflect.TypeOf(uint(0))
	case reflect.Uint8:
		return reflect.TypeOf(uint8(0))
	case reflect.Uint16:
		return reflect.TypeOf(uint16(0))
	case reflect.Uint32:
		return reflect.TypeOf(uint32(0))
	case reflect.Uint64:
		return reflect.TypeOf(uint64(0))
	case reflect.Float32:
		return reflect.TypeOf(float32(0))
	case reflect.Float64:
		return reflect.TypeOf(float64(0))
	}
	return t
}

func lessKey(a, b reflect.Value) bool {
	switch a.Kind() {
	case reflect.String:
		return a.String() < b.String()
	case reflect.Int, reflect.Int8, reflect.Int16, reflect.Int32, reflect.Int64:
		return a.Int() < b.Int()
	case reflect.Uint, reflect.Uint8, reflect.Uint16, reflect.Uint32, reflect.Uint64:
		return a.Uint() < b.Uint()
	}
	return fmt.Sprint(a) < fmt.Sprint(b)
}

// cqStruct lists every name FieldByName resolves to an interfaceable value: own exported fields
// in declaration order, then fields promoted through embedding.
func cqStruct(rv reflect.Value, ptr bool) string {
	t := rv.Type()
	var items []string
	seen := map[string]bool{}
	var walk func(t reflect.Type)
	walk = func(st reflect.Type) {
		for i := 0; i < st.NumField(); i++ {
			f := st.Field(i)
			if seen[f.Name] {
				continue
			}
			sf, ok := t.FieldByName(f.Name)
			if !ok || sf.PkgPath != "" {
				continue
			}
			fv := func() (v reflect.Value) {
				defer func() {
					if recover() != nil {
						v = reflect.Value{}
					}
				}()
				return rv.FieldByName(f.Name)
			}()
			if !fv.IsValid() || !fv.CanInterface() {
				continue
			}
			seen[f.Name] = true
			items = append(items, fmt.Sprintf("(%s, %s)", cqStr(f.Name), cqRV(fv, f.Name)))
		}
		for i := 0; i < st.NumField(); i++ {
			f := st.Field(i)
			if f.Anonymous {
				ft := f.Type
				if ft.Kind() == reflect.Ptr {
					ft = ft.Elem()
				}
				if ft.Kind() == reflect.Struct {
					walk(ft)
				}
			}
		}
	}
	walk(t)
	p := "false"
	if ptr {
		p = "true"
	}
	return fmt.Sprintf("(VStruct %s %s [%s])", cqStr(t.Name()), p, strings.Join(items, "; "))
}

// ---------------- AST ----------------
func cqRKind(t reflect.Type) string {
	if t == nil {
		return "RKInvalid"
	}
	switch t.Kind() {
	case reflect.Bool:
		return "RKBool"
	case reflect.String:
		return "RKString"
	case reflect.Interface:
		return "RKInterface"
	case reflect.Slice, reflect.Array:
		return "RKSlice"
	case reflect.Map:
		return "RKMap"
	case reflect.Struct:
		return "RKStruct"
	case reflect.Ptr:
		return "RKPtr"
	case reflect.Func:
		return "RKFunc"
	}
	if k, ok := numKindCoq[t.Kind()]; ok {
		return "(RKNum " + k + ")"
	}
	return "RKOther"
}

func cqAnn(n ast.Node) string {
	l := n.Location()
	return fmt.Sprintf("(mkAnn (%d, %d) %s)", l.Line, l.Column, cqRKind(n.Type()))
}

var unopCoq = map[string]string{"!": "UNotBang", "not": "UNotWord", "+": "UPlus", "-": "UMinus"}
var binopCoq = map[string]string{
	"or": "BOrWord", "||": "BOrOr", "and": "BAndWord", "&&": "BAndAnd", "==": "BEq", "!=": "BNe", "<": "BLt", ">": "BGt",
	">=": "BGe", "<=": "BLe", "not in": "BNotIn", "in": "BIn", "contains": "BContains", "startsWith": "BStartsWith",
	"endsWith": "BEndsWith", "..": "BRange", "+": "BAdd", "-": "BSub", "*": "BMul", "/": "BDiv", "%": "BMod", "**": "BPow",
}
var builtinCoq = map[string]string{"len": "BiLen", "all": "BiAll", "none": "BiNone", "any": "BiAny", "one": "BiOne",
	"filter": "BiFilter", "map": "BiMap", "count": "BiCount"}

func cqBool(b bool) string {
	if b {
		return "true"
	}
	return "false"
}

func cqExprList(ns []ast.Node) string {
	items := make([]string, len(ns))
	for i, n := range ns {
		items[i] = cqExpr(n)
	}
	return "[" + strings.Join(items, "; ") + "]"
}

func cqOptExpr(n ast.Node) string {
	if n == nil || reflect.ValueOf(n).IsNil() {
		return "None"
	}
	return "(Some " + cqExpr(n) + ")"
}

func cqExpr(node ast.Node) string {
	a := cqAnn(node)
	switch n := node.(type) {
	case *ast.NilNode:
		return "(ENil " + a + ")"
	case *ast.IdentifierNode:
		return fmt.Sprintf("(EIdent %s %s %s)", a, cqStr(n.Value), cqBool(n.NilSafe))
	case *ast.IntegerNode:
		return fmt.Sprintf("(EInt %s %s)", a, cqZ(int64(n.Value)))
	case *ast.FloatNode:
		return fmt.Sprintf("(EFloat %s %s)", a, coqFloat(n.Value))
	case *ast.BoolNode:
		return fmt.Sprintf("(EBool %s %s)", a, cqBool(n.Value))
	case *ast.StringNode:
		return fmt.Sprintf("(EStr %s %s)", a, cqStr(n.Value))
	case *ast.ConstantNode:
		return fmt.Sprintf("(EConst %s %s)", a, cqValue(n.Value))
	case *ast.UnaryNode:
		op, ok := unopCoq[n.Operator]
		if !ok {
			op = "(UUnknown " + cqStr(n.Operator) + ")"
		}
		return fmt.Sprintf("(EUnary %s %s %s)", a, op, cqExpr(n.Node))
	case *ast.BinaryNode:
		op, ok := binopCoq[n.Operator]
		if !ok {
			op = "(BUnknown " + cqStr(n.Operator) + ")"
		}
		return fmt.Sprintf("(EBinary %s %s %s %s)", a, op, cqExpr(n.Left), cqExpr(n.Right))
	case *ast.MatchesNode:
		re := "None"
		if n.Regexp != nil {
			re = "(Some " + cqStr(n.Regexp.String()) + ")"
		}
		return fmt.Sprintf("(EMatches %s %s %s %s)", a, re, cqExpr(n.Left), cqExpr(n.Right))
	case *ast.PropertyNode:
		return fmt.Sprintf("(EProperty %s %s %s %s)", a, cqExpr(n.Node), cqStr(n.Property), cqBool(n.NilSafe))
	case *ast.IndexNode:
		return fmt.Sprintf("(EIndex %s %s %s)", a, cqExpr(n.Node), cqExpr(n.Index))
	case *ast.SliceNode:
		return fmt.Sprintf("(ESlice %s %s %s %s)", a, cqExpr(n.Node), cqOptExpr(n.From), cqOptExpr(n.To))
	case *ast.MethodNode:
		return fmt.Sprintf("(EMethod %s %s %s %s %s)", a, cqExpr(n.Node), cqStr(n.Method), cqExprList(n.Arguments), cqBool(n.NilSafe))
	case *ast.FunctionNode:
		return fmt.Sprintf("(EFunction %s %s %s %s)", a, cqStr(n.Name), cqExprList(n.Arguments), cqBool(n.Fast))
	case *ast.BuiltinNode:
		b, ok := builtinCoq[n.Name]
		if !ok {
			b = "(BiUnknown " + cqStr(n.Name) + ")"
		}
		return fmt.Sprintf("(EBuiltin %s %s %s)", a, b, cqExprList(n.Arguments))
	case *ast.ClosureNode:
		return fmt.Sprintf("(EClosure %s %s)", a, cqExpr(n.Node))
	case *ast.PointerNode:
		return "(EPointer " + a + ")"
	case *ast.ConditionalNode:
		return fmt.Sprintf("(ECond %s %s %s %s)", a, cqExpr(n.Cond), cqExpr(n.Exp1), cqExpr(n.Exp2))
	case *ast.ArrayNode:
		return fmt.Sprintf("(EArray %s %s)", a, cqExprList(n.Nodes))
	case *ast.MapNode:
		return fmt.Sprintf("(EMap %s %s)", a, cqExprList(n.Pairs))
	case *ast.PairNode:
		return fmt.Sprintf("(EPair %s %s %s)", a, cqExpr(n.Key), cqExpr(n.Value))
	}
	return "(ENil ann0)"
}

// ---------------- programs ----------------
func cqConst(c interface{}) string {
	switch x := c.(type) {
	case vm.Call:
		return fmt.Sprintf("(CCall %s %d)", cqStr(x.Name), x.Size)
	case *regexp.Regexp:
		return "(CRegex " + cqStr(x.String()) + ")"
	}
	return "(CVal " + cqValue(c) + ")"
}

func cqProgram(p *vm.Program) string {
	bs := make([]string, len(p.Bytecode))
	for i, b := range p.Bytecode {
		bs[i] = fmt.Sprintf("%d", b)
	}
	cs := make([]string, len(p.Constants))
	for i, c := range p.Constants {
		cs[i] = cqConst(c)
	}
	keys := make([]int, 0, len(p.Locations))
	for k := range p.Locations {
		keys = append(keys, k)
	}
	sort.Ints(keys)
	ls := make([]string, 0, len(keys))
	for _, k := range keys {
		l := p.Locations[k]
		if (l == file.Location{}) {
			continue
		}
		ls = append(ls, fmt.Sprintf("(%d, (%d, %d))", k, l.Line, l.Column))
	}
	return fmt.Sprintf("(mkProg [%s] [%s] [%s])", strings.Join(bs, "; "), strings.Join(cs, "; "), strings.Join(ls, "; "))
}

// ---------------- observations ----------------
var errFamilies = []struct {
	re  *regexp.Regexp
	cls string
}{
	{regexp.MustCompile(`memory budget exceeded`), "EBudget"},
	{regexp.MustCompile(`integer divide by zero`), "EDivZero"},
	{regexp.MustCompile(`index out of range \[-1\]|slice bounds out of range \[:-1\]`), "EMachine"},
	{regexp.MustCompile(`index out of range|slice bounds out of range|slice index out of bounds|out of range`), "EIndexRange"},
	{regexp.MustCompile(`interface conversion`), "EIfaceConv"},
	{regexp.MustCompile(`^invalid operation|invalid argument for len`), "EInvalidOp"},
	{regexp.MustCompile(`cannot fetch|cannot get|cannot slice`), "ECannotFetch"},
	{regexp.MustCompile(`not defined on|cannot use .* as (index|field name)`), "ENotIn"},
	{regexp.MustCompile(`error parsing regexp`), "ERegexp"},
	{regexp.MustCompile(`^boom`), "EUser"},
	{regexp.MustCompile(`assignment to entry in nil map|nil pointer dereference|called using nil`), "ENilDeref"},
	{regexp.MustCompile(`^reflect|reflect:|reflect\.`), "EReflect"},
	{regexp.MustCompile(`makeslice`), "EOther"},
}

func cqErrClass(msg string) string {
	for _, f := range errFamilies {
		if f.re.MatchString(msg) {
			return f.cls
		}
	}
	return "EOther"
}

func cqTrace(log []callEvent) string {
	items := make([]string, len(log))
	for i, c := range log {
		args := make([]string, len(c.Args))
		for j, a := range c.Args {
			args[j] = cqValue(a)
		}
		items[i] = fmt.Sprintf("(%s, [%s])", cqStr(c.Name), strings.Join(args, "; "))
	}
	return "[" + strings.Join(items, "; ") + "]"
}

// cqObserved: result of vm.Run as `obsres`: ODone value trace | OStop class line col trace
func cqObserved(out interface{}, err error, log []callEvent) string {
	if err != nil {
		msg, line, col := err.Error(), 0, 0
		if fe, ok := err.(*file.Error); ok {
			msg, line, col = fe.Message, fe.Line, fe.Column
		}
		return fmt.Sprintf("(OStop %s (%d, %d) %s)", cqErrClass(msg), line, col, cqTrace(log))
	}
	return fmt.Sprintf("(ODone %s %s)", cqValue(out), cqTrace(log))
}

var _ = math.Pi

// verifharness: runs the REAL implementation (built from /repo's working tree) on generated
// inputs, judges every case against the property (implementation-level oracle) and writes the
// observed behaviour as Coq terms so that the Coq model can be evaluated on the same inputs.
package main

import (
	"encoding/json"
	"flag"
	"fmt"
	"os"
	"path/filepath"
	"runtime/debug"
	"sort"
	"strings"
	"time"
)

// Failure is one input on which the implementation-level oracle says the property fails.
type Failure struct {
	Key    string      `json:"key"`    // classification key (matched against KNOWN_FINDINGS.json)
	What   string      `json:"what"`   // human-readable description
	Input  interface{} `json:"input"`  // the failing input, replayable
	Want   string      `json:"want"`   // what the property demands
	Got    string      `json:"got"`    // what the implementation did
	Replay string      `json:"replay"` // harness arguments that replay this input
}

// Report is what a harness sub-command leaves in <out>/report.json.
type Report struct {
	Property    string                 `json:"property"`
	Seed        int64                  `json:"seed"`
	Tier        string                 `json:"tier"`
	Evaluations int                    `json:"evaluations"`
	Distinct    int                    `json:"distinct_nontrivial"`
	Rule        string                 `json:"rule"`
	Exhaustive  bool                   `json:"exhaustive"`
	Samples     []interface{}          `json:"samples"`
	Histogram   map[string]int         `json:"histogram"`
	Failures    []Failure              `json:"failures"`
	CaseFiles   []string               `json:"case_files"`
	CoqCases    int                    `json:"coq_cases"`
	Extra       map[string]interface{} `json:"extra,omitempty"`
}

var (
	outDir = flag.String("out", "", "output directory")
	seed   = flag.Int64("seed", 1, "PRNG seed")
	tier   = flag.String("tier", "quick", "quick|thorough")
	shards = flag.Int("shards", 16, "number of Coq case files")
	replay = flag.String("replay", "", "replay one input (JSON)")
)

var curReport *Report

func newReport(id string) *Report {
	curReport = &Report{Property: id, Seed: *seed, Tier: *tier, Histogram: map[string]int{}, Extra: map[string]interface{}{}}
	return curReport
}

// guarded runs f under a watchdog.  vm.Run cannot be interrupted: when a run does not come back within the
// limit the failing input is recorded, the report is written and the harness exits (the check then reports
// the hang with that input instead of a crashed harness).
func guarded(limit time.Duration, input func() interface{}, f func()) {
	done := make(chan interface{}, 1)
	go func() {
		defer func() { done <- recover() }()
		f()
	}()
	select {
	case pv := <-done:
		if pv != nil {
			panic(pv)
		}
	case <-time.After(limit):
		if curReport != nil {
			curReport.fail(Failure{Key: curReport.Property + "-run-hang", What: "a call into the library did not return within " + limit.String(),
				Input: input(), Want: "a result or an error", Got: "no return"})
			curReport.write()
		}
		os.Exit(0)
	}
}

func (r *Report) hist(k string) { r.Histogram[k]++ }

func (r *Report) fail(f Failure) {
	// keep the first few failing inputs of every classification key, count all of them
	r.Histogram["oracle_failures"]++
	r.Histogram["fail "+f.Key]++
	if r.Histogram["fail "+f.Key] <= 5 {
		r.Failures = append(r.Failures, f)
	}
}

func (r *Report) write() {
	sort.Strings(r.CaseFiles)
	b, _ := json.MarshalIndent(r, "", " ")
	if err := os.WriteFile(filepath.Join(*outDir, "report.json"), b, 0644); err != nil {
		panic(err)
	}
}

// writeShards distributes Coq case terms over shard files.  header is the Require line(s),
// ctor the list element type; each file ends with the mismatch evaluation.
func (r *Report) writeShards(prefix, header, elemType, mismatchFn string, cases []string) {
	n := *shards
	if n > len(cases) {
		n = len(cases)
	}
	if n == 0 {
		n = 1
	}
	for s := 0; s < n; s++ {
		var b strings.Builder
		b.WriteString(header)
		fmt.Fprintf(&b, "\nDefinition cases : list %s := [\n", elemType)
		first := true
		cnt := 0
		for i := s; i < len(cases); i += n {
			if !first {
				b.WriteString(";\n")
			}
			first = false
			b.WriteString("  " + cases[i])
			cnt++
		}
		b.WriteString("\n].\n")
		fmt.Fprintf(&b, "Definition M := Eval vm_compute in %s cases.\nPrint M.\n", mismatchFn)
		name := fmt.Sprintf("%s_%02d.v", prefix, s)
		if err := os.WriteFile(filepath.Join(*outDir, name), []byte(b.String()), 0644); err != nil {
			panic(err)
		}
		r.CaseFiles = append(r.CaseFiles, name)
	}
	r.CoqCases += len(cases)
}

func main() {
	if len(os.Args) < 2 {
		fmt.Fprintln(os.Stderr, "usage: harness <property> [flags]")
		os.Exit(2)
	}
	cmd := strings.ToLower(os.Args[1])
	flag.CommandLine.Parse(os.Args[2:])
	if *outDir == "" {
		fmt.Fprintln(os.Stderr, "-out required")
		os.Exit(2)
	}
	os.MkdirAll(*outDir, 0755)
	fn, ok := commands[cmd]
	if !ok {
		fmt.Fprintln(os.Stderr, "unknown property", cmd)
		os.Exit(2)
	}
	defer func() {
		// a panic that escapes from the library into the harness is a failing input, not a crashed check
		if r := recover(); r != nil {
			if curReport == nil {
				panic(r)
			}
			st := string(debug.Stack())
			if i := strings.Index(st, "panic("); i >= 0 {
				st = st[i:]
			}
			if len(st) > 1800 {
				st = st[:1800]
			}
			curReport.fail(Failure{Key: curReport.Property + "-harness-panic", What: "a panic escaped from a library call that the harness makes without a recover (stack below)",
				Input: fmt.Sprint(r), Want: "a result or an error", Got: st})
			curReport.write()
		}
	}()
	fn()
}

var commands = map[string]func(){}

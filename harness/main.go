// verifharness: runs the REAL implementation (built from /repo's working tree) on generated
// inputs, judges every case against the property (implementation-level oracle) and writes the
// observed behaviour as Coq terms so that the Coq model can be evaluated on the same inputs.
package main

import (
	"encoding/json"
	"flag"
	"fmt"
	"os"
	"path/filepath"
	"sort"
	"strings"
)

// Failure is one input on which the implementation-level oracle says the property fails.
type Failure struct {
	Key    string      `json:"key"`    // classification key (matched against KNOWN_FINDINGS.json)
	What   string      `json:"what"`   // human-readable description
	Input  interface{} `json:"input"`  // the failing input, replayable
	Want   string      `json:"want"`   // what the property demands
	Got    string      `json:"got"`    // what the implementation did
	Replay string      `json:"replay"` // harness arguments that replay this input
}

// Report is what a harness sub-command leaves in <out>/report.json.
type Report struct {
	Property    string                 `json:"property"`
	Seed        int64                  `json:"seed"`
	Tier        string                 `json:"tier"`
	Evaluations int                    `json:"evaluations"`
	Distinct    int                    `json:"distinct_nontrivial"`
	Rule        string                 `json:"rule"`
	Exhaustive  bool                   `json:"exhaustive"`
	Samples     []interface{}          `json:"samples"`
	Histogram   map[string]int         `json:"histogram"`
	Failures    []Failure              `json:"failures"`
	CaseFiles   []string               `json:"case_files"`
	CoqCases    int                    `json:"coq_cases"`
	Extra       map[string]interface{} `json:"extra,omitempty"`
}

var (
	outDir = flag.String("out", "", "output directory")
	seed   = flag.Int64("seed", 1, "PRNG seed")
	tier   = flag.String("tier", "quick", "quick|thorough")
	shards = flag.Int("shards", 16, "number of Coq case files")
	replay = flag.String("replay", "", "replay one input (JSON)")
)

func newReport(id string) *Report {
	return &Report{Property: id, Seed: *seed, Tier: *tier, Histogram: map[string]int{}, Extra: map[string]interface{}{}}
}

func (r *Report) hist(k string) { r.Histogram[k]++ }

func (r *Report) fail(f Failure) {
	// keep the first few failing inputs of every classification key, count all of them
	r.Histogram["oracle_failures"]++
	r.Histogram["fail "+f.Key]++
	if r.Histogram["fail "+f.Key] <= 5 {
		r.Failures = append(r.Failures, f)
	}
}

func (r *Report) write() {
	sort.Strings(r.CaseFiles)
	b, _ := json.MarshalIndent(r, "", " ")
	if err := os.WriteFile(filepath.Join(*outDir, "report.json"), b, 0644); err != nil {
		panic(err)
	}
}

// writeShards distributes Coq case terms over shard files.  header is the Require line(s),
// ctor the list element type; each file ends with the mismatch evaluation.
func (r *Report) writeShards(prefix, header, elemType, mismatchFn string, cases []string) {
	n := *shards
	if n > len(cases) {
		n = len(cases)
	}
	if n == 0 {
		n = 1
	}
	for s := 0; s < n; s++ {
		var b strings.Builder
		b.WriteString(header)
		fmt.Fprintf(&b, "\nDefinition cases : list %s := [\n", elemType)
		first := true
		cnt := 0
		for i := s; i < len(cases); i += n {
			if !first {
				b.WriteString(";\n")
			}
			first = false
			b.WriteString("  " + cases[i])
			cnt++
		}
		b.WriteString("\n].\n")
		fmt.Fprintf(&b, "Definition M := Eval vm_compute in %s cases.\nPrint M.\n", mismatchFn)
		name := fmt.Sprintf("%s_%02d.v", prefix, s)
		if err := os.WriteFile(filepath.Join(*outDir, name), []byte(b.String()), 0644); err != nil {
			panic(err)
		}
		r.CaseFiles = append(r.CaseFiles, name)
	}
	r.CoqCases += len(cases)
}

func main() {
	if len(os.Args) < 2 {
		fmt.Fprintln(os.Stderr, "usage: harness <property> [flags]")
		os.Exit(2)
	}
	cmd := strings.ToLower(os.Args[1])
	flag.CommandLine.Parse(os.Args[2:])
	if *outDir == "" {
		fmt.Fprintln(os.Stderr, "-out required")
		os.Exit(2)
	}
	os.MkdirAll(*outDir, 0755)
	fn, ok := commands[cmd]
	if !ok {
		fmt.Fprintln(os.Stderr, "unknown property", cmd)
		os.Exit(2)
	}
	fn()
}

var commands = map[string]func(){}
